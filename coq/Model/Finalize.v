(* Model of snapshot finalization in storage/badger_graph.go (WriteSnapshot,
   writeSnapshot), storage/badger_transaction.go (writeTransaction,
   finalizeTransaction, writeUTXO), storage/badger_asset.go (asset info, total,
   capacity assertion), storage/badger_topology.go (writeTopology),
   storage/badger_work.go (writeSnapshotWork), storage/badger_node.go
   (the writeNode family), storage/badger_custodian.go (writeCustodianNodes),
   storage/badger_withdrawal.go (writeWithdrawalClaim), storage/badger_utxo.go
   (lockUTXO, lockGhostKey), storage/badger_genesis.go (LoadGenesis).

   The store is a record of association-list maps, one per key prefix.  A Badger
   read-write transaction is modelled by computing on a working copy: a member
   that returns an error or panics yields the INPUT state.
   Hashes are attributes of the records (N, big endian); 0 is the zero hash.
   Executable; no proofs in this file. *)
From Coq Require Import List ZArith NArith Bool.
Require Import Mixin.Base.Res Mixin.Gen.Consts Mixin.Model.Fixed.
Import ListNotations.
Open Scope Z_scope.

(* ---- association maps ---------------------------------------------------- *)

Section Maps.
  Context {K V : Type} (eqb : K -> K -> bool).
  Fixpoint lookup (m : list (K * V)) (k : K) : option V :=
    match m with
    | [] => None
    | (k', v) :: m' => if eqb k' k then Some v else lookup m' k
    end.
  (* replace in place, or append: no duplicate keys, insertion order kept *)
  Fixpoint set (m : list (K * V)) (k : K) (v : V) : list (K * V) :=
    match m with
    | [] => [(k, v)]
    | (k', v') :: m' => if eqb k' k then (k', v) :: m' else (k', v') :: set m' k v
    end.
  Definition mem (m : list (K * V)) (k : K) : bool :=
    match lookup m k with Some _ => true | None => false end.
End Maps.

Definition eq1 : N -> N -> bool := N.eqb.
Definition eq2 (a b : N * N) : bool := (fst a =? fst b)%N && (snd a =? snd b)%N.
Definition eq3 (a b : N * N * N) : bool :=
  (fst (fst a) =? fst (fst b))%N && (snd (fst a) =? snd (fst b))%N && (snd a =? snd b)%N.

Fixpoint mem_N (x : N) (l : list N) : bool :=
  match l with [] => false | y :: l' => (y =? x)%N || mem_N x l' end.

(* ---- records ------------------------------------------------------------- *)

Inductive input :=
| IOrd (h i : N)                         (* reference to an output *)
| IDeposit (chain akey : N) (amount : Z) (* DepositData: asset identity and amount *)
| IMint (amount : Z)
| IGenesis.

Record output := { o_type : Z; o_amount : Z; o_keys : list N }.

Record tx := {
  t_hash : N;               (* PayloadHash *)
  t_asset : N;
  t_inputs : list input;
  t_outputs : list output;
  t_extra : list N;         (* bytes *)
  t_refs : list N;
  t_cust : option (N * N)   (* ParseCustodianUpdateNodesExtra(extra, genesis): (custodian, node count) *)
}.

Record utxo := { u_asset : N; u_type : Z; u_amount : Z; u_keys : list N; u_lock : N }.

Record snapshot := {
  sn_hash : N;      (* PayloadHash *)
  sn_whash : N;     (* the Hash field (copied into the work record) *)
  sn_node : N;
  sn_round : N;
  sn_ts : N;
  sn_refs : N * N;
  sn_txs : list N;
  sn_topo : N
}.

Record state := {
  s_txs : list (N * tx);                  (* TRANSACTION *)
  s_fin : list (N * N);                   (* FINALIZATION tx -> snapshot *)
  s_utxo : list ((N * N) * utxo);         (* UTXO (tx,index) *)
  s_ghost : list (N * N);                 (* GHOST key -> tx *)
  s_ainfo : list (N * (N * N));           (* ASSETINFO asset -> (chain, asset key) *)
  s_total : list (N * Z);                 (* ASSETTOTAL *)
  s_uniq : list ((N * N) * unit);         (* UNIQUE (tx,node) *)
  s_snap : list ((N * N * N) * N);        (* SNAPSHOT (node,round,hash) -> payload (by hash) *)
  s_topo : list (N * (N * N * N));        (* TOPOLOGY order -> snapshot key *)
  s_snaptopo : list (N * N);              (* SNAPTOPO hash -> order *)
  s_work : list ((N * N * N) * (N * list N)); (* WORKSNAPSHOT (node,round,ts) -> hash, signers *)
  s_nodes : list ((N * N) * (N * N * Z)); (* NODESTATEQUEUE (ts,signer) -> payee, tx, state *)
  s_cust : list (N * N);                  (* CUSTODIANUPDATE ts -> tx *)
  s_wdr : list (N * N);                   (* WITHDRAWAL submit -> claim *)
  s_round : list (N * (N * (N * N)))      (* ROUND node -> number, references (read only here) *)
}.

Definition empty_state : state :=
  {| s_txs := []; s_fin := []; s_utxo := []; s_ghost := []; s_ainfo := []; s_total := [];
     s_uniq := []; s_snap := []; s_topo := []; s_snaptopo := []; s_work := []; s_nodes := [];
     s_cust := []; s_wdr := []; s_round := [] |}.

(* field updates *)
Definition with_txs s v := {| s_txs := v; s_fin := s_fin s; s_utxo := s_utxo s; s_ghost := s_ghost s; s_ainfo := s_ainfo s; s_total := s_total s; s_uniq := s_uniq s; s_snap := s_snap s; s_topo := s_topo s; s_snaptopo := s_snaptopo s; s_work := s_work s; s_nodes := s_nodes s; s_cust := s_cust s; s_wdr := s_wdr s; s_round := s_round s |}.
Definition with_fin s v := {| s_txs := s_txs s; s_fin := v; s_utxo := s_utxo s; s_ghost := s_ghost s; s_ainfo := s_ainfo s; s_total := s_total s; s_uniq := s_uniq s; s_snap := s_snap s; s_topo := s_topo s; s_snaptopo := s_snaptopo s; s_work := s_work s; s_nodes := s_nodes s; s_cust := s_cust s; s_wdr := s_wdr s; s_round := s_round s |}.
Definition with_utxo s v := {| s_txs := s_txs s; s_fin := s_fin s; s_utxo := v; s_ghost := s_ghost s; s_ainfo := s_ainfo s; s_total := s_total s; s_uniq := s_uniq s; s_snap := s_snap s; s_topo := s_topo s; s_snaptopo := s_snaptopo s; s_work := s_work s; s_nodes := s_nodes s; s_cust := s_cust s; s_wdr := s_wdr s; s_round := s_round s |}.
Definition with_ghost s v := {| s_txs := s_txs s; s_fin := s_fin s; s_utxo := s_utxo s; s_ghost := v; s_ainfo := s_ainfo s; s_total := s_total s; s_uniq := s_uniq s; s_snap := s_snap s; s_topo := s_topo s; s_snaptopo := s_snaptopo s; s_work := s_work s; s_nodes := s_nodes s; s_cust := s_cust s; s_wdr := s_wdr s; s_round := s_round s |}.
Definition with_ainfo s v := {| s_txs := s_txs s; s_fin := s_fin s; s_utxo := s_utxo s; s_ghost := s_ghost s; s_ainfo := v; s_total := s_total s; s_uniq := s_uniq s; s_snap := s_snap s; s_topo := s_topo s; s_snaptopo := s_snaptopo s; s_work := s_work s; s_nodes := s_nodes s; s_cust := s_cust s; s_wdr := s_wdr s; s_round := s_round s |}.
Definition with_total s v := {| s_txs := s_txs s; s_fin := s_fin s; s_utxo := s_utxo s; s_ghost := s_ghost s; s_ainfo := s_ainfo s; s_total := v; s_uniq := s_uniq s; s_snap := s_snap s; s_topo := s_topo s; s_snaptopo := s_snaptopo s; s_work := s_work s; s_nodes := s_nodes s; s_cust := s_cust s; s_wdr := s_wdr s; s_round := s_round s |}.
Definition with_uniq s v := {| s_txs := s_txs s; s_fin := s_fin s; s_utxo := s_utxo s; s_ghost := s_ghost s; s_ainfo := s_ainfo s; s_total := s_total s; s_uniq := v; s_snap := s_snap s; s_topo := s_topo s; s_snaptopo := s_snaptopo s; s_work := s_work s; s_nodes := s_nodes s; s_cust := s_cust s; s_wdr := s_wdr s; s_round := s_round s |}.
Definition with_snap s v := {| s_txs := s_txs s; s_fin := s_fin s; s_utxo := s_utxo s; s_ghost := s_ghost s; s_ainfo := s_ainfo s; s_total := s_total s; s_uniq := s_uniq s; s_snap := v; s_topo := s_topo s; s_snaptopo := s_snaptopo s; s_work := s_work s; s_nodes := s_nodes s; s_cust := s_cust s; s_wdr := s_wdr s; s_round := s_round s |}.
Definition with_topo s v := {| s_txs := s_txs s; s_fin := s_fin s; s_utxo := s_utxo s; s_ghost := s_ghost s; s_ainfo := s_ainfo s; s_total := s_total s; s_uniq := s_uniq s; s_snap := s_snap s; s_topo := v; s_snaptopo := s_snaptopo s; s_work := s_work s; s_nodes := s_nodes s; s_cust := s_cust s; s_wdr := s_wdr s; s_round := s_round s |}.
Definition with_snaptopo s v := {| s_txs := s_txs s; s_fin := s_fin s; s_utxo := s_utxo s; s_ghost := s_ghost s; s_ainfo := s_ainfo s; s_total := s_total s; s_uniq := s_uniq s; s_snap := s_snap s; s_topo := s_topo s; s_snaptopo := v; s_work := s_work s; s_nodes := s_nodes s; s_cust := s_cust s; s_wdr := s_wdr s; s_round := s_round s |}.
Definition with_work s v := {| s_txs := s_txs s; s_fin := s_fin s; s_utxo := s_utxo s; s_ghost := s_ghost s; s_ainfo := s_ainfo s; s_total := s_total s; s_uniq := s_uniq s; s_snap := s_snap s; s_topo := s_topo s; s_snaptopo := s_snaptopo s; s_work := v; s_nodes := s_nodes s; s_cust := s_cust s; s_wdr := s_wdr s; s_round := s_round s |}.
Definition with_nodes s v := {| s_txs := s_txs s; s_fin := s_fin s; s_utxo := s_utxo s; s_ghost := s_ghost s; s_ainfo := s_ainfo s; s_total := s_total s; s_uniq := s_uniq s; s_snap := s_snap s; s_topo := s_topo s; s_snaptopo := s_snaptopo s; s_work := s_work s; s_nodes := v; s_cust := s_cust s; s_wdr := s_wdr s; s_round := s_round s |}.
Definition with_cust s v := {| s_txs := s_txs s; s_fin := s_fin s; s_utxo := s_utxo s; s_ghost := s_ghost s; s_ainfo := s_ainfo s; s_total := s_total s; s_uniq := s_uniq s; s_snap := s_snap s; s_topo := s_topo s; s_snaptopo := s_snaptopo s; s_work := s_work s; s_nodes := s_nodes s; s_cust := v; s_wdr := s_wdr s; s_round := s_round s |}.
Definition with_wdr s v := {| s_txs := s_txs s; s_fin := s_fin s; s_utxo := s_utxo s; s_ghost := s_ghost s; s_ainfo := s_ainfo s; s_total := s_total s; s_uniq := s_uniq s; s_snap := s_snap s; s_topo := s_topo s; s_snaptopo := s_snaptopo s; s_work := s_work s; s_nodes := s_nodes s; s_cust := s_cust s; s_wdr := v; s_round := s_round s |}.
Definition with_round s v := {| s_txs := s_txs s; s_fin := s_fin s; s_utxo := s_utxo s; s_ghost := s_ghost s; s_ainfo := s_ainfo s; s_total := s_total s; s_uniq := s_uniq s; s_snap := s_snap s; s_topo := s_topo s; s_snaptopo := s_snaptopo s; s_work := s_work s; s_nodes := s_nodes s; s_cust := s_cust s; s_wdr := s_wdr s; s_round := v |}.

(* ---- constants ----------------------------------------------------------- *)

Definition capacity (a : N) : Z :=
  if (a =? Consts.Fin_Asset_BTC)%N then Consts.Fin_Cap_BTC
  else if (a =? Consts.Fin_Asset_ETH)%N then Consts.Fin_Cap_ETH
  else if (a =? Consts.Fin_Asset_XIN)%N then Consts.Fin_Cap_XIN
  else if (a =? Consts.Fin_Asset_BOX)%N then Consts.Fin_Cap_BOX
  else if (a =? Consts.Fin_Asset_MOB)%N then Consts.Fin_Cap_MOB
  else if (a =? Consts.Fin_Asset_USDTETH)%N then Consts.Fin_Cap_USDTETH
  else if (a =? Consts.Fin_Asset_USDTTRON)%N then Consts.Fin_Cap_USDTTRON
  else if (a =? Consts.Fin_Asset_PUSD)%N then Consts.Fin_Cap_PUSD
  else if (a =? Consts.Fin_Asset_USDC)%N then Consts.Fin_Cap_USDC
  else if (a =? Consts.Fin_Asset_EOS)%N then Consts.Fin_Cap_EOS
  else if (a =? Consts.Fin_Asset_SOL)%N then Consts.Fin_Cap_SOL
  else if (a =? Consts.Fin_Asset_UNI)%N then Consts.Fin_Cap_UNI
  else if (a =? Consts.Fin_Asset_DOGE)%N then Consts.Fin_Cap_DOGE
  else Consts.Fin_Cap_Default.

Definition ot_script := Consts.Fin_OutScript.
Definition ot_submit := Consts.Fin_OutWithdrawalSubmit.
Definition ot_pledge := Consts.Fin_OutNodePledge.
Definition ot_accept := Consts.Fin_OutNodeAccept.
Definition ot_remove := Consts.Fin_OutNodeRemove.
Definition ot_claim := Consts.Fin_OutWithdrawalClaim.
Definition ot_cancel := Consts.Fin_OutNodeCancel.
Definition ot_custodian := Consts.Fin_OutCustodianUpdateNodes.
Definition ot_slash := Consts.Fin_OutCustodianSlashNodes.

(* node states *)
Definition ns_pledging : Z := 0.
Definition ns_accepted : Z := 1.
Definition ns_removed : Z := 2.
Definition ns_cancelled : Z := 3.

Definition max_utxo_index : N := 1024.  (* graphUtxoKey *)

(* ---- transaction classification (common/transaction.go) ------------------- *)

Inductive txtype := TyMint | TyDeposit | TyUnknown | TyScript | TySubmit | TyClaim | TyNode | TyCustodian.

Fixpoint type_of_inputs (ins : list input) : option txtype :=
  match ins with
  | [] => None
  | IMint _ :: _ => Some TyMint
  | IDeposit _ _ _ :: _ => Some TyDeposit
  | IGenesis :: _ => Some TyUnknown
  | IOrd _ _ :: r => type_of_inputs r
  end.

Fixpoint type_of_outputs (outs : list output) (is_script : bool) : txtype :=
  match outs with
  | [] => if is_script then TyScript else TyUnknown
  | o :: r =>
      let t := o_type o in
      if t =? ot_submit then TySubmit
      else if t =? ot_claim then TyClaim
      else if (t =? ot_pledge) || (t =? ot_cancel) || (t =? ot_accept) || (t =? ot_remove) then TyNode
      else if (t =? ot_custodian) || (t =? ot_slash) then TyCustodian
      else type_of_outputs r (is_script && (t =? ot_script))
  end.

Definition tx_type (t : tx) : txtype :=
  match type_of_inputs (t_inputs t) with
  | Some ty => ty
  | None => type_of_outputs (t_outputs t) true
  end.

Definition is_genesis_tx (t : tx) : bool :=
  match t_inputs t with IGenesis :: _ => true | _ => false end.

(* UnspentOutputs: which output types become UTXO records; an unknown type panics *)
Definition materialized (ty : Z) : option bool :=
  if (ty =? ot_script) || (ty =? ot_pledge) || (ty =? ot_cancel) || (ty =? ot_accept)
     || (ty =? ot_remove) || (ty =? ot_claim) || (ty =? ot_custodian) then Some true
  else if (ty =? ot_submit) || (ty =? ot_slash) then Some false
  else None.

Fixpoint unspent_from (i : N) (outs : list output) : res (list (N * output)) :=
  match outs with
  | [] => Ok []
  | o :: r =>
      match materialized (o_type o) with
      | None => Panic
      | Some b => do l <- unspent_from (N.succ i) r; Ok (if b then (i, o) :: l else l)
      end
  end.
Definition unspent_outputs (t : tx) : res (list (N * output)) := unspent_from 0%N (t_outputs t).

(* ---- byte helpers ---------------------------------------------------------- *)

Definition be (l : list N) : N := fold_left (fun a b => (a * 256 + b)%N) l 0%N.
Definition extra_signer (e : list N) : N :=
  if Nat.leb 32 (length e) then be (firstn 32 e) else 0%N.
Definition extra_payee (e : list N) : N :=
  if Nat.leb 32 (length e) then be (firstn 32 (skipn 32 e ++ repeat 0%N 32)) else 0%N.

Definition u64 (x : Z) : N := Z.to_N (x mod 2 ^ 64).

(* ---- storage primitives ------------------------------------------------------ *)

(* lockGhostKey (fork flag irrelevant outside three hard-coded hashes) *)
Definition lock_ghost (s : state) (k h : N) : res state :=
  match lookup eq1 (s_ghost s) k with
  | None => Ok (with_ghost s (set eq1 (s_ghost s) k h))
  | Some by_ => if (by_ =? 0)%N then Err else if (by_ =? h)%N then Ok s else Err
  end.

Fixpoint lock_ghosts (s : state) (ks : list N) (h : N) : res state :=
  match ks with
  | [] => Ok s
  | k :: r => do s1 <- lock_ghost s k h; lock_ghosts s1 r h
  end.

(* readAllNodes(threshold, withState=true): entries with ts <= threshold; a zero
   timestamp anywhere panics *)
Definition node_entry := ((N * N) * (N * N * Z))%type.
Definition ne_ts (e : node_entry) : N := fst (fst e).
Definition ne_signer (e : node_entry) : N := snd (fst e).
Definition ne_payee (e : node_entry) : N := fst (fst (snd e)).
Definition ne_tx (e : node_entry) : N := snd (fst (snd e)).
Definition ne_state (e : node_entry) : Z := snd (snd e).

Definition nodes_upto (s : state) (thr : N) : res (list node_entry) :=
  if existsb (fun e => (ne_ts e =? 0)%N) (s_nodes s) then Panic
  else Ok (filter (fun e => (ne_ts e <=? thr)%N) (s_nodes s)).

Definition key_lt (a b : N * N) : bool :=
  (fst a <? fst b)%N || ((fst a =? fst b)%N && (snd a <? snd b)%N).

(* the entry with the greatest key (last of the key-ordered iteration) *)
Fixpoint last_entry (l : list node_entry) (acc : option node_entry) : option node_entry :=
  match l with
  | [] => acc
  | e :: r =>
      match acc with
      | None => last_entry r (Some e)
      | Some a => last_entry r (Some (if key_lt (fst a) (fst e) then e else a))
      end
  end.

Definition settled (st : Z) : bool := (st =? ns_accepted) || (st =? ns_removed) || (st =? ns_cancelled).

Definition is_latest (l : list node_entry) (e : node_entry) : bool :=
  negb (existsb (fun f => (ne_signer f =? ne_signer e)%N && (ne_ts e <? ne_ts f)%N) l).

Definition set_node (s : state) (ts signer payee h : N) (st : Z) : state :=
  with_nodes s (set eq2 (s_nodes s) (ts, signer) (payee, h, st)).

Definition write_node_pledge (s : state) (signer payee h ts : N) : res state :=
  do l <- nodes_upto s (u64 (Z.of_N ts + Consts.Fin_PledgePeriod));
  let latest := filter (is_latest l) l in
  if negb (forallb (fun e => settled (ne_state e)) latest) then Err
  else if existsb (fun e => (ne_signer e =? signer)%N || (ne_tx e =? h)%N) latest then Err
  else Ok (set_node s ts signer payee h ns_pledging).

Definition write_node_accept_or_cancel (s : state) (signer payee h ts : N) (st : Z) (genesis : bool) : res state :=
  if genesis then Ok (set_node s ts signer payee h st)
  else
    do l <- nodes_upto s (u64 (Z.of_N ts + Consts.Fin_AcceptPeriod));
    match last_entry l None with
    | None => Panic  (* nodes[len(nodes)-1] on an empty slice *)
    | Some last =>
        if negb (ne_state last =? ns_pledging) then Err
        else if negb ((ne_signer last =? signer)%N && (ne_payee last =? payee)%N) then Err
        else Ok (set_node s ts signer payee h st)
    end.

Definition write_node_remove (s : state) (signer payee h ts : N) : res state :=
  do l <- nodes_upto s (u64 (Z.of_N ts + Consts.Fin_AcceptPeriod));
  match last_entry l None with
  | None => Panic
  | Some last =>
      if negb (settled (ne_state last)) then Err
      else
        match last_entry (filter (fun e => (ne_signer e =? signer)%N) l) None with
        | None => Err
        | Some n =>
            if negb (ne_payee n =? payee)%N then Err
            else if negb (ne_state n =? ns_accepted) then Err
            else Ok (set_node s ts signer payee h ns_removed)
        end
  end.

(* writeCustodianNodes: the previous record is the one with the greatest
   timestamp <= snapshot time; its custodian is the parse of that transaction *)
Fixpoint cust_prev (l : list (N * N)) (ts : N) (acc : option (N * N)) : option (N * N) :=
  match l with
  | [] => acc
  | (t, h) :: r =>
      if (t <=? ts)%N then
        match acc with
        | None => cust_prev r ts (Some (t, h))
        | Some (t0, _) => cust_prev r ts (if (t0 <? t)%N then Some (t, h) else acc)
        end
      else cust_prev r ts acc
  end.

Definition write_custodian (s : state) (t : tx) (ts : N) : res state :=
  match t_cust t with
  | None => Panic
  | Some (now, count) =>
      if (50 <? count)%N then Panic
      else
        let write := Ok (with_cust s (set eq1 (s_cust s) ts (t_hash t))) in
        match cust_prev (s_cust s) ts None with
        | None => write
        | Some (pts, ph) =>
            match lookup eq1 (s_txs s) ph with
            | None => Panic
            | Some pt =>
                match t_cust pt with
                | None => Err
                | Some (pc, _) =>
                    if (pts =? ts)%N then (if (pc =? now)%N then Ok s else Panic) else write
                end
            end
        end
  end.

(* writeWithdrawalClaim *)
Definition write_claim (s : state) (t : tx) : res state :=
  match t_refs t with
  | [] => Panic
  | r0 :: _ =>
      if mem eq1 (s_txs s) r0 && mem eq1 (s_fin s) r0
      then Ok (with_wdr s (set eq1 (s_wdr s) r0 (t_hash t)))
      else Panic
  end.

Definition write_utxo (s : state) (t : tx) (ts : N) (genesis : bool) (io : N * output) : res state :=
  let '(i, o) := io in
  do s1 <- lock_ghosts s (o_keys o) (t_hash t);
  if (max_utxo_index <? i)%N then Panic
  else
    let u := {| u_asset := t_asset t; u_type := o_type o; u_amount := o_amount o;
                u_keys := o_keys o; u_lock := 0%N |} in
    let s2 := with_utxo s1 (set eq2 (s_utxo s1) (t_hash t, i) u) in
    let signer := extra_signer (t_extra t) in
    let payee := extra_payee (t_extra t) in
    let ty := o_type o in
    if ty =? ot_pledge then write_node_pledge s2 signer payee (t_hash t) ts
    else if ty =? ot_cancel then write_node_accept_or_cancel s2 signer payee (t_hash t) ts ns_cancelled false
    else if ty =? ot_accept then write_node_accept_or_cancel s2 signer payee (t_hash t) ts ns_accepted genesis
    else if ty =? ot_remove then write_node_remove s2 signer payee (t_hash t) ts
    else if ty =? ot_custodian then write_custodian s2 t ts
    else if ty =? ot_claim then write_claim s2 t
    else Ok s2.

Fixpoint write_utxos (s : state) (t : tx) (ts : N) (genesis : bool) (l : list (N * output)) : res state :=
  match l with
  | [] => Ok s
  | io :: r => do s1 <- write_utxo s t ts genesis io; write_utxos s1 t ts genesis r
  end.

(* writeAssetInfo *)
Definition write_asset_info (s : state) (a : N) (info : N * N) : res state :=
  match lookup eq1 (s_ainfo s) a with
  | None => Ok (with_ainfo s (set eq1 (s_ainfo s) a info))
  | Some old => if eq2 old info then Ok s else Err
  end.

Definition total_of (s : state) (a : N) : Z :=
  match lookup eq1 (s_total s) a with Some v => v | None => 0 end.

Fixpoint sub_submits (total : Z) (outs : list output) : res Z :=
  match outs with
  | [] => Ok total
  | o :: r => if o_type o =? ot_submit then do v <- i_sub total (o_amount o); sub_submits v r
              else sub_submits total r
  end.

Fixpoint add_outputs (total : Z) (outs : list output) : res Z :=
  match outs with
  | [] => Ok total
  | o :: r => do v <- i_add total (o_amount o); add_outputs v r
  end.

(* the new total, or None when the transaction type leaves the total alone *)
Definition new_total (t : tx) (total : Z) : res (option Z) :=
  match tx_type t with
  | TySubmit => rmap Some (sub_submits total (t_outputs t))
  | TyDeposit =>
      match t_inputs t with
      | [IDeposit _ _ amt] => rmap Some (i_add total amt)
      | _ => Panic                                  (* DepositData() is nil *)
      end
  | TyMint =>
      match t_inputs t with
      | IMint amt :: _ => rmap Some (i_add total amt)
      | _ => Panic                                  (* Inputs[0].Mint is nil *)
      end
  | _ => if is_genesis_tx t then rmap Some (add_outputs total (t_outputs t)) else Ok None
  end.

(* writeTotalInAsset *)
Definition write_total (s : state) (t : tx) : res state :=
  if negb (mem eq1 (s_ainfo s) (t_asset t)) then Panic
  else
    do nt <- new_total t (total_of s (t_asset t));
    match nt with
    | None => Ok s
    | Some v => if capacity (t_asset t) <? v then Panic
                else Ok (with_total s (set eq1 (s_total s) (t_asset t) v))
    end.

(* finalizeTransaction *)
Definition finalize_tx (s : state) (t : tx) (sn : snapshot) : res state :=
  if mem eq1 (s_fin s) (t_hash t) then Ok s
  else
    let s1 := with_fin s (set eq1 (s_fin s) (t_hash t) (sn_hash sn)) in
    match t_inputs t with
    | [] => Panic
    | i0 :: _ =>
        do s2 <- match i0 with
                 | IDeposit chain akey _ => write_asset_info s1 (t_asset t) (chain, akey)
                 | _ => Ok s1
                 end;
        do us <- unspent_outputs t;
        do s3 <- write_utxos s2 t (sn_ts sn) (is_genesis_tx t) us;
        write_total s3 t
    end.

(* writeSnapshot: members, then SNAPSHOT record, then topology *)
Definition finalize_member (s : state) (sn : snapshot) (h : N) : res state :=
  match lookup eq1 (s_txs s) h with
  | None => Panic
  | Some t =>
      do s1 <- finalize_tx s t sn;
      Ok (with_uniq s1 (set eq2 (s_uniq s1) (h, sn_node sn) tt))
  end.

Fixpoint finalize_members (s : state) (sn : snapshot) (hs : list N) : res state :=
  match hs with
  | [] => Ok s
  | h :: r => do s1 <- finalize_member s sn h; finalize_members s1 sn r
  end.

Definition snap_key (sn : snapshot) : N * N * N := (sn_node sn, sn_round sn, sn_hash sn).

Definition write_topology (s : state) (sn : snapshot) : res state :=
  if mem eq1 (s_topo s) (sn_topo sn) then Panic
  else
    let s1 := with_topo s (set eq1 (s_topo s) (sn_topo sn) (snap_key sn)) in
    Ok (with_snaptopo s1 (set eq1 (s_snaptopo s1) (sn_hash sn) (sn_topo sn))).

Definition write_snapshot_core (s : state) (sn : snapshot) : res state :=
  do s1 <- finalize_members s sn (sn_txs sn);
  let s2 := with_snap s1 (set eq3 (s_snap s1) (snap_key sn) (sn_hash sn)) in
  write_topology s2 sn.

Definition write_work (s : state) (sn : snapshot) (signers : list N) : state :=
  with_work s (set eq3 (s_work s) (sn_node sn, sn_round sn, sn_ts sn) (sn_whash sn, signers)).

(* config.Debug assertions at the head of WriteSnapshot *)
Definition debug_asserts (s : state) (sn : snapshot) : res unit :=
  match lookup eq1 (s_round s) (sn_node sn) with
  | None => Panic
  | Some (num, refs) =>
      if negb (num =? sn_round sn)%N then Panic
      else if (0 <? sn_round sn)%N && negb (eq2 refs (sn_refs sn)) then Panic
      else if mem eq3 (s_snap s) (snap_key sn) then Panic
      else if forallb (fun h => mem eq1 (s_txs s) h && negb (mem eq2 (s_uniq s) (h, sn_node sn))) (sn_txs sn)
           then Ok tt else Panic
  end.

Definition write_snapshot_txn (s : state) (sn : snapshot) (signers : list N) : res state :=
  do _ <- debug_asserts s sn;
  do s1 <- write_snapshot_core s sn;
  Ok (write_work s1 sn signers).

(* WriteSnapshot: one Badger transaction; commit only on success *)
Definition write_snapshot (s : state) (sn : snapshot) (signers : list N) : state * res unit :=
  match write_snapshot_txn s sn signers with
  | Ok s' => (s', Ok tt)
  | Err => (s, Err)
  | Panic => (s, Panic)
  end.

(* ---- the other store calls a history needs ----------------------------------- *)

(* writeTransaction (WriteTransaction without its debug lock assertions) *)
Definition write_transaction (s : state) (t : tx) : state * res unit :=
  if mem eq1 (s_txs s) (t_hash t) then (s, Ok tt)
  else
    match t_inputs t with
    | [] => (s, Panic)
    | i0 :: _ =>
        let ok := match i0 with
                  | IDeposit chain akey _ =>
                      match lookup eq1 (s_ainfo s) (t_asset t) with
                      | None => true
                      | Some old => eq2 old (chain, akey)
                      end
                  | _ => true
                  end in
        if ok then (with_txs s (set eq1 (s_txs s) (t_hash t) t), Ok tt) else (s, Err)
    end.

(* LockUTXOs, fork = false *)
Definition lock_utxo (s : state) (k : N * N) (h : N) : res state :=
  match lookup eq2 (s_utxo s) k with
  | None => Err
  | Some u =>
      if negb (u_lock u =? 0)%N && negb (u_lock u =? h)%N then Err
      else Ok (with_utxo s (set eq2 (s_utxo s) k
                 {| u_asset := u_asset u; u_type := u_type u; u_amount := u_amount u;
                    u_keys := u_keys u; u_lock := h |}))
  end.

Fixpoint lock_utxos_txn (s : state) (ks : list (N * N)) (h : N) : res state :=
  match ks with
  | [] => Ok s
  | k :: r => do s1 <- lock_utxo s k h; lock_utxos_txn s1 r h
  end.

Definition lock_utxos (s : state) (ks : list (N * N)) (h : N) : state * res unit :=
  match lock_utxos_txn s ks h with
  | Ok s' => (s', Ok tt)
  | Err => (s, Err)
  | Panic => (s, Panic)
  end.

(* LockGhostKeys (called by Validate), fork = false *)
Fixpoint has_dup (l : list N) : bool :=
  match l with [] => false | x :: r => mem_N x r || has_dup r end.

Definition lock_ghost_keys (s : state) (ks : list N) (h : N) : state * res unit :=
  if has_dup ks then (s, Err)
  else match lock_ghosts s ks h with
       | Ok s' => (s', Ok tt)
       | Err => (s, Err)
       | Panic => (s, Panic)
       end.

Fixpoint ord_inputs (ins : list input) : list (N * N) :=
  match ins with
  | [] => []
  | IOrd h i :: r => (h, i) :: ord_inputs r
  | _ :: r => ord_inputs r
  end.

(* StartNewRound(node, number, refs, _): only the cache round of the node is
   modelled (links and final rounds are outside this model) *)
Definition start_round (s : state) (node num : N) (refs : N * N) : state :=
  with_round s (set eq1 (s_round s) node (num, refs)).

(* LoadGenesis on an empty store (rounds omitted: they are set by start_round) *)
Fixpoint load_genesis_members (s : state) (l : list (snapshot * tx)) : res state :=
  match l with
  | [] => Ok s
  | (sn, t) :: r =>
      match write_transaction s t with
      | (s1, Ok _) =>
          do s2 <- write_snapshot_core s1 sn;
          load_genesis_members (write_work s2 sn []) r
      | (_, Err) => Err
      | (_, Panic) => Panic
      end
  end.

Definition load_genesis (s : state) (xin : N * N) (l : list (snapshot * tx)) : state * res unit :=
  match (do s1 <- write_asset_info s Consts.Fin_Asset_XIN xin; load_genesis_members s1 l) with
  | Ok s' => (s', Ok tt)
  | Err => (s, Err)
  | Panic => (s, Panic)
  end.

(* ---- histories ------------------------------------------------------------------ *)

Inductive op :=
| OpRound (node num : N) (refs : N * N)
| OpGenesis (xin : N * N) (l : list (snapshot * tx))
| OpWriteTx (t : tx)
| OpLock (ks : list (N * N)) (h : N)            (* LockUTXOs(inputs, tx hash, fork = false) *)
| OpGhost (ks : list N) (h : N)                 (* LockGhostKeys(keys, tx hash, fork = false) *)
| OpSnapshot (sn : snapshot) (signers : list N).

Definition step (s : state) (o : op) : state * res unit :=
  match o with
  | OpRound node num refs => (start_round s node num refs, Ok tt)
  | OpGenesis xin l => load_genesis s xin l
  | OpWriteTx t => write_transaction s t
  | OpLock ks h => lock_utxos s ks h
  | OpGhost ks h => lock_ghost_keys s ks h
  | OpSnapshot sn sg => write_snapshot s sn sg
  end.

Definition run (s : state) (ops : list op) : state :=
  fold_left (fun s o => fst (step s o)) ops s.

(* ---- supply accounting (C17) ------------------------------------------------------ *)

Definition finalized (s : state) (h : N) : bool := mem eq1 (s_fin s) h.

(* consumed: locked by a transaction that has a finalization record *)
Definition consumed (s : state) (u : utxo) : bool :=
  negb (u_lock u =? 0)%N && finalized s (u_lock u).

Definition unconsumed_sum (s : state) (a : N) : Z :=
  fold_right (fun e acc => let u := snd e in
                           if (u_asset u =? a)%N && negb (consumed s u) then u_amount u + acc else acc)
             0 (s_utxo s).

Definition sum_outputs (outs : list output) : Z :=
  fold_right (fun o acc => o_amount o + acc) 0 outs.
Definition sum_submits (outs : list output) : Z :=
  fold_right (fun o acc => if o_type o =? ot_submit then o_amount o + acc else acc) 0 outs.

(* contribution of one finalized transaction to the supply of its asset *)
Definition supply_delta (t : tx) : Z :=
  match tx_type t with
  | TySubmit => - sum_submits (t_outputs t)
  | TyDeposit => match t_inputs t with [IDeposit _ _ amt] => amt | _ => 0 end
  | TyMint => match t_inputs t with IMint amt :: _ => amt | _ => 0 end
  | _ => if is_genesis_tx t then sum_outputs (t_outputs t) else 0
  end.

(* genesis + deposits + mints - withdrawal submissions, over the finalization records *)
Definition supply_flow (s : state) (a : N) : Z :=
  fold_right (fun e acc =>
                match lookup eq1 (s_txs s) (fst e) with
                | Some t => if (t_asset t =? a)%N then supply_delta t + acc else acc
                | None => acc
                end) 0 (s_fin s).
