(* Model of the text forms of crypto.Key, crypto.Hash, crypto.Signature and
   crypto.CosiSignature: String (lower-case hex), KeyFromString /
   HashFromString (hex.DecodeString + length test), and the JSON forms
   (strconv.Quote / strconv.Unquote + hex + length; CoSi: 64 signature bytes
   then 8 mask bytes, big endian).  [json_unquote] models strconv.Unquote on
   ASCII texts without a backslash (the class the harness sends to the model);
   outside that class it is not claimed.  No proofs here. *)
From Coq Require Import List ZArith NArith Bool.
Require Import Mixin.Base.Res Mixin.Gen.Consts.
Import ListNotations.
Open Scope N_scope.

Definition hex_char (d : N) : N := if d <? 10 then 48 + d else 87 + d.   (* 0-9 a-f *)

Definition hex_val (c : N) : option N :=
  if (48 <=? c) && (c <=? 57) then Some (c - 48)
  else if (97 <=? c) && (c <=? 102) then Some (c - 87)
  else if (65 <=? c) && (c <=? 70) then Some (c - 55)
  else None.

(* hex.EncodeToString *)
Fixpoint hex_encode (bs : list N) : list N :=
  match bs with
  | [] => []
  | b :: bs' => hex_char (b / 16) :: hex_char (b mod 16) :: hex_encode bs'
  end.

(* hex.DecodeString: None on odd length or a non-hex character *)
Fixpoint hex_decode (s : list N) : option (list N) :=
  match s with
  | [] => Some []
  | [_] => None
  | c1 :: c2 :: s' =>
      match hex_val c1, hex_val c2, hex_decode s' with
      | Some h, Some l, Some bs => Some (h * 16 + l :: bs)
      | _, _, _ => None
      end
  end.

(* KeyFromString / HashFromString for a [size]-byte value *)
Definition fixed_of_string (size : nat) (s : list N) : res (list N) :=
  match hex_decode s with
  | None => Err
  | Some bs => if Nat.eqb (length bs) size then Ok bs else Err
  end.
Definition fixed_to_string (bs : list N) : list N := hex_encode bs.

Definition key_size : nat := Z.to_nat Consts.AuthKeySize.
Definition hash_size : nat := Z.to_nat Consts.AuthHashSize.
Definition sig_size : nat := Z.to_nat Consts.AuthSignatureSize.
Definition mask_size : nat := Z.to_nat (Consts.CosiMaskHexSize / 2).      (* 8 bytes *)

(* ---- JSON ---------------------------------------------------------------- *)
Definition dquote : N := 34.
Definition bquote : N := 96.
Definition squote : N := 39.
Definition ch_lf : N := 10.
Definition ch_cr : N := 13.

Fixpoint mem (c : N) (l : list N) : bool :=
  match l with [] => false | x :: l' => (x =? c) || mem c l' end.

(* strconv.Quote of a text made of hex characters *)
Definition json_quote (s : list N) : list N := dquote :: s ++ [dquote].

(* strconv.Unquote, for ASCII input without a backslash; None = ErrSyntax.
   Single-quoted input yields at most one character and is folded into None:
   every caller then fails its length test anyway. *)
Definition json_unquote (s : list N) : option (list N) :=
  match s with
  | [] | [_] => None
  | q :: rest =>
      let body := removelast rest in
      let closing := last rest 0 in
      if negb (closing =? q) then None
      else if mem q body then None
      else if q =? dquote then (if mem ch_lf body then None else Some body)
      else if q =? bquote then Some (filter (fun c => negb (c =? ch_cr)) body)
      else None
  end.

Definition fixed_of_json (size : nat) (s : list N) : res (list N) :=
  match json_unquote s with
  | None => Err
  | Some t => fixed_of_string size t
  end.
Definition fixed_to_json (bs : list N) : list N := json_quote (hex_encode bs).

(* big-endian value / bytes of the mask *)
Fixpoint be_val_acc (acc : N) (l : list N) : N :=
  match l with [] => acc | b :: l' => be_val_acc (acc * 256 + b) l' end.
Definition be_val (l : list N) : N := be_val_acc 0 l.
Fixpoint be_bytes (n : nat) (v : N) : list N :=
  match n with
  | O => []
  | S n' => (v / 256 ^ N.of_nat n') mod 256 :: be_bytes n' v
  end.

(* a CoSi signature value: (64 signature bytes, mask) *)
Definition cosi_to_string (c : list N * N) : list N :=
  hex_encode (fst c) ++ hex_encode (be_bytes mask_size (snd c)).    (* %016x *)
Definition cosi_to_json (c : list N * N) : list N := json_quote (cosi_to_string c).

Definition cosi_of_json (s : list N) : res (list N * N) :=
  match json_unquote s with
  | None => Err
  | Some t =>
      match hex_decode t with
      | None => Err
      | Some bs =>
          if Nat.eqb (length bs) (sig_size + mask_size)
          then Ok (firstn sig_size bs, be_val (skipn sig_size bs))
          else Err
      end
  end.
