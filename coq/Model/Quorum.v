(* Model of the threshold and signer set a final certificate is checked
   against (kernel/node.go: ConsensusThreshold, ConsensusReady;
   kernel/graph.go: consensusNodes, ConsensusKeys, the parameter choice of
   verifyFinalization incl. the pre-fork legacy retry; kernel/slash.go:
   usePredictiveNodeRemovalSignerSet, removingOrSlashingNodeAt).
   Executable; no proofs in this file. *)
From Coq Require Import List ZArith NArith Bool.
Require Import Mixin.Base.Res Mixin.Gen.Consts Mixin.Model.Election.
Import ListNotations.
Open Scope Z_scope.

(* what a membership query depends on besides the history *)
Record netcfg := mkcfg {
  c_epoch : Z;
  c_mainnet : bool;        (* networkId = config.KernelNetworkId *)
  c_genesis : list N       (* genesisNodesMap *)
}.

Definition is_genesis (cfg : netcfg) (cn : nrec) : bool :=
  existsb (fun g => (g =? r_id cn)%N) (c_genesis cfg).

(* the value ConsensusThreshold returns below the minimum membership *)
Definition invalid_threshold : Z := 1000.

Definition use_predictive (cfg : netcfg) (ts : Z) : bool :=
  negb (c_mainnet cfg) || (Consts.QSignerSetForkAt <=? ts).

Definition removing_at (cfg : netcfg) (all : list nrec) (ts : Z) : option nrec :=
  if (ts <? c_epoch cfg) || negb (accept_hour (c_epoch cfg) ts) then None
  else let since := ts - c_epoch cfg in
       let start := u64 (u64 (c_epoch cfg + u64 (since / Consts.QOneDay * Consts.QOneDay))
                         + u64 (Consts.QAcceptTimeBegin * Consts.QHour)) in
       match check_remove all (c_epoch cfg) 0%N start None with
       | Ok c => Some c
       | _ => None
       end.

Definition removing_for (cfg : netcfg) (all : list nrec) (ts : Z) : option nrec :=
  if use_predictive cfg ts then removing_at cfg all ts else None.

Definition not_removing (removing : option nrec) (cn : nrec) : bool :=
  match removing with Some r => negb (r_id cn =? r_id r)%N | None => true end.

Definition reference_window : Z := Consts.QSnapshotReferenceThreshold * Consts.QSnapshotRoundGap.

(* ConsensusReady *)
Definition consensus_ready (cfg : netcfg) (cn : nrec) (ts : Z) : bool :=
  is_accepted cn &&
  (is_genesis cfg cn || (u64 (r_ts cn + Consts.QAcceptPeriodMinimum) <? ts)).

(* whether ConsensusThreshold counts the node in the base *)
Definition counted (cfg : netcfg) (final : bool) (cn : nrec) (ts : Z) : bool :=
  match r_state cn with
  | Pledging =>
      negb final && (u64 (r_ts cn + u64 (Consts.QAcceptPeriodMinimum - reference_window * 3)) <? ts)
  | Accepted => is_genesis cfg cn || (u64 (r_ts cn + reference_window) <? ts)
  | _ => false
  end.

(* the loop of ConsensusThreshold over the node list, given the excluded node *)
Definition base_on (cfg : netcfg) (removing : option nrec) (nodes : list nrec) (ts : Z) (final : bool) : Z :=
  Z.of_nat (length (filter (fun cn => not_removing removing cn && counted cfg final cn ts) nodes)).

Definition consensus_base (cfg : netcfg) (all : list nrec) (ts : Z) (final : bool) : Z :=
  base_on cfg (removing_for cfg all ts) (nodes_list all ts false) ts final.

Definition threshold_of_base (base : Z) : Z :=
  if base <? Consts.QMinNodes then invalid_threshold else base * 2 / 3 + 1.

Definition consensus_threshold (cfg : netcfg) (all : list nrec) (ts : Z) (final : bool) : Z :=
  threshold_of_base (consensus_base cfg all ts final).

(* consensusNodes.  [pledging] is the identity of the chain when the chain is
   pledging (it has no state yet), None otherwise. *)
Definition ready_on (cfg : netcfg) (removing : option nrec) (nodes : list nrec) (ts : Z) : list nrec :=
  filter (fun cn => not_removing removing cn && consensus_ready cfg cn ts) nodes.

Definition ready_nodes (cfg : netcfg) (all : list nrec) (ts : Z) : list nrec :=
  ready_on cfg (removing_for cfg all ts) (nodes_list all ts false) ts.

Definition with_pledging (ready : list nrec) (pledging : option nrec) (round : Z) : list nrec :=
  ready ++
  match pledging with
  | Some ci => if round =? 0 then [ci] else []
  | None => []
  end.

Definition consensus_nodes (cfg : netcfg) (all : list nrec) (pledging : option nrec) (round ts : Z) : list nrec :=
  with_pledging (ready_nodes cfg all ts) pledging round.

Definition consensus_keys (cfg : netcfg) (all : list nrec) (pledging : option nrec) (round ts : Z) : list N :=
  map r_id (consensus_nodes cfg all pledging round ts).

(* ---- certificates ------------------------------------------------------ *)

Fixpoint pos_popcount (p : positive) : nat :=
  match p with
  | xH => 1%nat
  | xO q => pos_popcount q
  | xI q => S (pos_popcount q)
  end.
Definition popcount (mask : N) : nat :=
  match mask with N0 => O | Npos p => pos_popcount p end.

(* CosiSignature.FullVerify's counting rule: enough mask bits *)
Definition mask_meets (mask : N) (threshold : Z) : bool := threshold <=? Z.of_nat (popcount mask).

(* the (key vector, threshold) pairs verifyFinalization may check a
   certificate against: the primary one and, before the signer-set fork on
   mainnet inside the operation window, the legacy one when it has more keys *)
Definition verify_params (cfg : netcfg) (all : list nrec) (pledging : option nrec) (round ts : Z)
  : list (list N * Z) :=
  let primary := (consensus_keys cfg all pledging round ts, consensus_threshold cfg all ts true) in
  if use_predictive cfg ts then [primary]
  else let hour := hour_of (c_epoch cfg) ts in
       if (hour <? Consts.QAcceptTimeBegin) || (Consts.QAcceptTimeEnd <? hour) then [primary]
       else let elapsed := hour + 1 - Consts.QAcceptTimeBegin in
            let lts := u64 (ts - u64 (elapsed * Consts.QHour)) in
            let lkeys := consensus_keys cfg all pledging round lts in
            if (length lkeys <=? length (fst primary))%nat then [primary]
            else [primary; (lkeys, consensus_threshold cfg all lts true)].
