(* Model of the slot locks of the ledger store (C03) as a state machine: every
   storage call is one atomic step  state -> op -> state * result  (the store
   mutex plus a single Badger update; an update that returns an error or panics
   commits nothing).
     storage/badger_utxo.go        LockUTXOs, lockUTXO
     storage/badger_deposit.go     LockDepositInput
     storage/badger_mint.go        LockMintInput
     storage/badger_transaction.go WriteTransaction (debug lock assertions),
                                   pruneTransaction, finalizeTransaction, writeUTXO
     storage/badger_graph.go       WriteSnapshot / writeSnapshot (finalization loop)
     common/deposit.go             DepositData.UniqueKey
     common/snapshot.go            LockInputs (dispatch on the transaction type)
   Key families: UTXO/<hash,index> -> record with LockHash; DEPOSIT/<unique key>
   -> holder; MINTUNIVERSAL/<batch> -> (holder, amount); TRANSACTION/<hash> ->
   body; FINALIZATION/<hash>; GHOST/<key> -> transaction (Model/GhostKeys.v).
   Round, topology, work and asset-total records written by WriteSnapshot are
   not part of this model (the harness keeps them from failing).
   Executable definitions only. *)
From Coq Require Import List ZArith NArith Bool Decimal.
Require Import Mixin.Base.Res Mixin.Gen.Consts Mixin.Model.GhostKeys.
Import ListNotations.
Open Scope N_scope.

(* ---- identifiers ---------------------------------------------------------- *)
Definition slot := (N * N)%type.                 (* output: transaction hash, index *)
Definition slot_eqb (a b : slot) : bool := (fst a =? fst b) && (snd a =? snd b).

Fixpoint bytes_eqb (a b : list N) : bool :=
  match a, b with
  | [], [] => true
  | x :: a', y :: b' => (x =? y) && bytes_eqb a' b'
  | _, _ => false
  end.

(* external deposit identifier: chain (a 32-byte hash), transaction id (any Go
   string = byte list), output index (uint64) *)
Record dep := { d_chain : N; d_tx : list N; d_index : N }.

(* fmt.Sprintf("%s:%s:%d", d.Chain, d.Transaction, d.Index): the chain prints as
   64 lower-case hex digits, the index in decimal. *)
Definition hexdig (n : N) : N := if n <? 10 then 48 + n else 87 + n.
Fixpoint hex_fixed (k : nat) (c : N) : list N :=
  match k with
  | O => []
  | S k' => hex_fixed k' (c / 16) ++ [hexdig (c mod 16)]
  end.
Fixpoint uint_chars (u : Decimal.uint) : list N :=
  match u with
  | Nil => []
  | D0 u => 48 :: uint_chars u | D1 u => 49 :: uint_chars u | D2 u => 50 :: uint_chars u
  | D3 u => 51 :: uint_chars u | D4 u => 52 :: uint_chars u | D5 u => 53 :: uint_chars u
  | D6 u => 54 :: uint_chars u | D7 u => 55 :: uint_chars u | D8 u => 56 :: uint_chars u
  | D9 u => 57 :: uint_chars u
  end.
Definition dec_chars (n : N) : list N := uint_chars (N.to_uint n).
Definition colon : N := 58.
Definition render (d : dep) : list N :=
  hex_fixed 64 (d_chain d) ++ colon :: d_tx d ++ colon :: dec_chars (d_index d).
(* the DEPOSIT family is keyed by Blake3(chain ++ Sha256(render d)); the model
   keys it by the rendered text itself (the hashes are injective up to
   collisions), so two deposits share a slot iff their texts coincide. *)
Definition dep_key (d : dep) : list N := render d.

(* ---- transactions as the store sees them ---------------------------------- *)
Inductive tins :=
| InUtxo (l : list slot)
| InDeposit (d : dep)
| InMint (batch : N) (amount : Z)
| InGenesis.

(* t_outs: the keys of each output, in order; every output is of a kind that
   yields an unspent output (script) *)
Record txd := { t_hash : N; t_ins : tins; t_outs : list (list N) }.

Record state := {
  s_utxo : list (slot * N);           (* LockHash, 0 = unlocked *)
  s_dep : list (list N * N);          (* rendered unique key -> holder *)
  s_mint : list (N * (N * Z));        (* batch -> holder, amount *)
  s_body : list (N * txd);
  s_final : list N;
  s_ghost : ghosts
}.

Definition init : state :=
  {| s_utxo := []; s_dep := []; s_mint := []; s_body := []; s_final := []; s_ghost := [] |}.

Definition with_utxo (s : state) u := {| s_utxo := u; s_dep := s_dep s; s_mint := s_mint s;
  s_body := s_body s; s_final := s_final s; s_ghost := s_ghost s |}.
Definition with_dep (s : state) d := {| s_utxo := s_utxo s; s_dep := d; s_mint := s_mint s;
  s_body := s_body s; s_final := s_final s; s_ghost := s_ghost s |}.
Definition with_mint (s : state) m := {| s_utxo := s_utxo s; s_dep := s_dep s; s_mint := m;
  s_body := s_body s; s_final := s_final s; s_ghost := s_ghost s |}.
Definition with_body (s : state) b := {| s_utxo := s_utxo s; s_dep := s_dep s; s_mint := s_mint s;
  s_body := b; s_final := s_final s; s_ghost := s_ghost s |}.
Definition with_final (s : state) f := {| s_utxo := s_utxo s; s_dep := s_dep s; s_mint := s_mint s;
  s_body := s_body s; s_final := f; s_ghost := s_ghost s |}.
Definition with_ghost (s : state) g := {| s_utxo := s_utxo s; s_dep := s_dep s; s_mint := s_mint s;
  s_body := s_body s; s_final := s_final s; s_ghost := g |}.

Definition utxo_lock (s : state) (sl : slot) : option N := afind slot_eqb sl (s_utxo s).
Definition dep_lock (s : state) (d : dep) : option N := afind bytes_eqb (dep_key d) (s_dep s).
Definition mint_lock (s : state) (b : N) : option (N * Z) := afind N.eqb b (s_mint s).
Definition body_of (s : state) (t : N) : option txd := afind N.eqb t (s_body s).
Definition has_body (s : state) (t : N) : bool :=
  match body_of s t with Some _ => true | None => false end.
Definition is_final (s : state) (t : N) : bool := memN t (s_final s).

(* graphUtxoKey panics above this index *)
Definition max_utxo_index : N := 1024.

(* pruneTransaction: refuses a finalized transaction, otherwise deletes its body *)
Definition prune (s : state) (t : N) : res state :=
  if is_final s t then Err else Ok (with_body s (adel N.eqb t (s_body s))).

(* lockUTXO *)
Definition lock_utxo (s : state) (sl : slot) (tx : N) (fork : bool) : res state :=
  if max_utxo_index <? snd sl then Panic
  else match utxo_lock s sl with
  | None => Err
  | Some l =>
      if negb (l =? 0) && negb (l =? tx) then
        if fork then
          do s' <- prune s l; Ok (with_utxo s' (aset slot_eqb sl tx (s_utxo s')))
        else Err
      else Ok (with_utxo s (aset slot_eqb sl tx (s_utxo s)))
  end.

(* LockUTXOs: all inputs inside one update *)
Fixpoint lock_utxos (s : state) (ins : list slot) (tx : N) (fork : bool) : res state :=
  match ins with
  | [] => Ok s
  | sl :: ins' => do s' <- lock_utxo s sl tx fork; lock_utxos s' ins' tx fork
  end.

(* LockDepositInput *)
Definition lock_deposit (s : state) (d : dep) (tx : N) (fork : bool) : res state :=
  match dep_lock s d with
  | None => Ok (with_dep s (aset bytes_eqb (dep_key d) tx (s_dep s)))
  | Some l =>
      if l =? tx then Ok s
      else if fork then
        do s' <- prune s l; Ok (with_dep s' (aset bytes_eqb (dep_key d) tx (s_dep s')))
      else Err
  end.

(* LockMintInput: the record carries the amount; the same transaction with a
   different amount is treated like a different holder *)
Definition lock_mint (s : state) (b : N) (amount : Z) (tx : N) (fork : bool) : res state :=
  match mint_lock s b with
  | None => Ok (with_mint s (aset N.eqb b (tx, amount) (s_mint s)))
  | Some (l, a) =>
      if (l =? tx) && (a =? amount)%Z then Ok s
      else if fork then
        do s' <- prune s l; Ok (with_mint s' (aset N.eqb b (tx, amount) (s_mint s')))
      else Err
  end.

(* VersionedTransaction.LockInputs *)
Definition lock_inputs (s : state) (t : txd) (fork : bool) : res state :=
  match t_ins t with
  | InMint b a => lock_mint s b a (t_hash t) fork
  | InDeposit d => lock_deposit s d (t_hash t) fork
  | InUtxo l => lock_utxos s l (t_hash t) fork
  | InGenesis => lock_utxos s [(0, 0)] (t_hash t) fork  (* type Unknown: LockUTXOs of the zero input *)
  end.

(* WriteTransaction: with config.Debug every input must be locked by this very
   transaction or the call panics; an existing body is kept. *)
Definition debug_asserts : bool := (Consts.StorageDebugAsserts =? 1)%Z.

Fixpoint utxos_locked_by (s : state) (l : list slot) (tx : N) : res unit :=
  match l with
  | [] => Ok tt
  | sl :: l' =>
      if max_utxo_index <? snd sl then Panic
      else match utxo_lock s sl with
      | Some h => if h =? tx then utxos_locked_by s l' tx else Panic
      | None => Panic
      end
  end.

Definition inputs_locked (s : state) (t : txd) : res unit :=
  match t_ins t with
  | InGenesis => Ok tt
  | InDeposit d =>
      match dep_lock s d with Some h => if h =? t_hash t then Ok tt else Panic | None => Panic end
  | InMint b a =>
      match mint_lock s b with
      | Some (h, a') => if (h =? t_hash t) && (a' =? a)%Z then Ok tt else Panic
      | None => Panic
      end
  | InUtxo l => utxos_locked_by s l (t_hash t)
  end.

Definition write_tx (s : state) (t : txd) : res state :=
  do _ <- (if debug_asserts then inputs_locked s t else Ok tt);
  if has_body s (t_hash t) then Ok s
  else match t_ins t with
  | InUtxo [] => Panic                                  (* ver.Inputs[0] *)
  | _ => Ok (with_body s (aset N.eqb (t_hash t) t (s_body s)))
  end.

(* finalizeTransaction for one transaction of a snapshot: idempotent on the
   finalization record; every output re-locks its keys (fork = true) and then
   writes a fresh unlocked UTXO record. *)
Fixpoint write_utxos (s : state) (t : N) (i : N) (outs : list (list N)) : res state :=
  match outs with
  | [] => Ok s
  | ks :: outs' =>
      do g <- relock_keys (s_ghost s) ks t;
      if max_utxo_index <? i then Panic
      else let s1 := with_ghost s g in
           write_utxos (with_utxo s1 (aset slot_eqb (t, i) 0 (s_utxo s1))) t (i + 1) outs'
  end.

Definition finalize_one (s : state) (t : N) : res state :=
  match body_of s t with
  | None => Panic                                        (* nil transaction dereferenced *)
  | Some b =>
      if is_final s t then Ok s
      else write_utxos (with_final s (t :: s_final s)) t 0 (t_outs b)
  end.

(* WriteSnapshot of a snapshot that carries one transaction (a snapshot of
   round 0 carries exactly one; the loop over several transactions of a later
   round is not modelled): debug assertion that the body exists, then
   finalizeTransaction. *)
Definition finalize (s : state) (t : N) : res state :=
  if debug_asserts && negb (has_body s t) then Panic else finalize_one s t.

(* ---- the machine ---------------------------------------------------------- *)
Inductive op :=
| LockUTXOs (ins : list slot) (tx : N) (fork : bool)
| LockDeposit (d : dep) (tx : N) (fork : bool)
| LockMint (batch : N) (amount : Z) (tx : N) (fork : bool)
| LockInputs (t : txd) (fork : bool)
| LockGhost (ks : list N) (tx : N) (fork : bool)
| WriteTx (t : txd)
| Finalize (t : N).

Definition exec (s : state) (o : op) : res state :=
  match o with
  | LockUTXOs ins tx fork => lock_utxos s ins tx fork
  | LockDeposit d tx fork => lock_deposit s d tx fork
  | LockMint b a tx fork => lock_mint s b a tx fork
  | LockInputs t fork => lock_inputs s t fork
  | LockGhost ks tx fork => do g <- lock_ghost_keys (s_ghost s) ks tx fork; Ok (with_ghost s g)
  | WriteTx t => write_tx s t
  | Finalize t => finalize s t
  end.

(* an update that fails commits nothing *)
Definition step (s : state) (o : op) : state * res unit :=
  match exec s o with
  | Ok s' => (s', Ok tt)
  | Err => (s, Err)
  | Panic => (s, Panic)
  end.

Definition run (s : state) (os : list op) : state := fold_left (fun s o => fst (step s o)) os s.

(* results of a whole history, for the correspondence check *)
Fixpoint run_obs (s : state) (os : list op) : state * list (res unit) :=
  match os with
  | [] => (s, [])
  | o :: os' => let (s1, r) := step s o in
                let (s2, rs) := run_obs s1 os' in (s2, r :: rs)
  end.
