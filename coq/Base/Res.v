(* Outcome type shared by every model: a Go function either returns a value,
   returns an error (reject), or panics. *)
From Coq Require Import List ZArith NArith Bool.
Import ListNotations.

Inductive res (A : Type) : Type :=
| Ok (a : A)
| Err
| Panic.
Arguments Ok {A} a.
Arguments Err {A}.
Arguments Panic {A}.

Definition bind {A B} (r : res A) (f : A -> res B) : res B :=
  match r with
  | Ok a => f a
  | Err => Err
  | Panic => Panic
  end.

Definition rmap {A B} (f : A -> B) (r : res A) : res B :=
  match r with Ok a => Ok (f a) | Err => Err | Panic => Panic end.

Definition of_option {A} (o : option A) : res A :=
  match o with Some a => Ok a | None => Err end.

Definition is_ok {A} (r : res A) : bool :=
  match r with Ok _ => true | _ => false end.
Definition is_panic {A} (r : res A) : bool :=
  match r with Panic => true | _ => false end.

Notation "'do' x <- r ; k" := (bind r (fun x => k))
  (at level 200, x pattern, r at level 100, k at level 200, right associativity).

Definition res_eqb {A} (eqb : A -> A -> bool) (a b : res A) : bool :=
  match a, b with
  | Ok x, Ok y => eqb x y
  | Err, Err => true
  | Panic, Panic => true
  | _, _ => false
  end.

(* decision classes only: Ok/Err/Panic *)
Definition res_class_eqb {A B} (a : res A) (b : res B) : bool :=
  match a, b with
  | Ok _, Ok _ => true
  | Err, Err => true
  | Panic, Panic => true
  | _, _ => false
  end.

(* indices of the cases on which [chk] is false; what cases.v prints *)
Fixpoint mismatches_from {C} (chk : C -> bool) (i : N) (cs : list C) : list N :=
  match cs with
  | [] => []
  | c :: cs' => if chk c then mismatches_from chk (N.succ i) cs'
                else i :: mismatches_from chk (N.succ i) cs'
  end.
Definition mismatches {C} (chk : C -> bool) (cs : list C) : list N :=
  mismatches_from chk 0%N cs.
