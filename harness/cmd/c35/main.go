// C35 harness: histories of finalized snapshot writes (the real TopoWrite
// counter through an add-only hook that builds a bare Node, and the public
// WriteSnapshot at chosen positions), cursor listings and lookups by hash on a
// real Badger store.  Each observation goes to the model as a Coq case; the
// oracle keeps its own position<->snapshot tables from the successful writes
// and checks the implementation against the property text.
package main

import (
	"fmt"
	"os"
	"sort"
	"strings"

	"github.com/MixinNetwork/mixin/common"
	"github.com/MixinNetwork/mixin/config"
	"github.com/MixinNetwork/mixin/crypto"
	"github.com/MixinNetwork/mixin/kernel"
	"github.com/MixinNetwork/mixin/storage"
	"verifharness/vh"
)

type TOp struct {
	Op     string `json:"op"` // write | init | setseq | topowrite | list | listtx | klist | lookup | last
	Pos    uint64 `json:"pos,omitempty"`
	Snap   int    `json:"snap,omitempty"` // snapshot identity (a snapshot is built deterministically from it)
	Offset uint64 `json:"offset,omitempty"`
	Count  uint64 `json:"count,omitempty"`
	Quiet  bool   `json:"quiet,omitempty"` // checked by the oracle only, not sent to the model (keeps the Coq terms of the big-store battery small)
}

type Case struct {
	Genesis int   `json:"genesis"` // snapshots 0..Genesis-1 are loaded at positions 0..Genesis-1; 0 = empty store, reads only
	Ops     []TOp `json:"ops"`
}

const max64 = ^uint64(0)

var tiny = common.NewIntegerFromString("0.00000001")
var nodeID = crypto.Blake3Hash([]byte("c35-node"))

// ---- deterministic snapshots ----------------------------------------------------

type built struct {
	ver  *common.VersionedTransaction
	snap *common.Snapshot
	hash crypto.Hash
}

var cache = map[string]*built{}

func snapOf(id int, genesis bool) *built {
	key := fmt.Sprintf("%d/%v", id, genesis)
	if b, ok := cache[key]; ok {
		return b
	}
	tx := common.NewTransactionV5(common.XINAssetId)
	tx.Inputs = []*common.Input{{Genesis: []byte(fmt.Sprintf("c35-tx-%d", id))}}
	if genesis {
		seed := make([]byte, 64)
		copy(seed, fmt.Sprintf("c35-signer-%d", id))
		signer := crypto.NewKeyFromSeed(seed).Public()
		tx.Outputs = []*common.Output{{Type: common.OutputTypeNodeAccept, Amount: tiny}}
		tx.Extra = append(signer[:], signer[:]...)
	} else {
		tx.Outputs = []*common.Output{{Type: common.OutputTypeScript, Amount: tiny}}
	}
	ver := tx.AsVersioned()
	s := &common.Snapshot{
		Version:      common.SnapshotVersionCommonEncoding,
		NodeId:       nodeID,
		RoundNumber:  0,
		Timestamp:    uint64(1700000000000000000) + uint64(id)*7,
		Transactions: []crypto.Hash{ver.PayloadHash()},
		Signature:    &crypto.CosiSignature{Mask: 1},
	}
	s.Hash = s.PayloadHash()
	b := &built{ver, s, s.Hash}
	cache[key] = b
	return b
}

// ---- store ----------------------------------------------------------------------

var theStore *storage.BadgerStore
var theDir string
var served int // cases served by the current store

func tmpRoot() string {
	if os.Getenv("TMPDIR") == "" {
		if st, err := os.Stat("/dev/shm"); err == nil && st.IsDir() {
			if d, err := os.MkdirTemp("/dev/shm", "probe"); err == nil {
				os.RemoveAll(d)
				return "/dev/shm"
			}
		}
	}
	return ""
}

// One store serves every case of a run; it is emptied between cases with the
// public RemoveGraphEntries("") and checked to be empty.
func openStore() (*storage.BadgerStore, func()) {
	if theStore != nil && served >= 40 {
		closeStore() // deleted keys stay as tombstones and slow every scan: start over on a new store
	}
	served++
	if theStore == nil {
		served = 1
		dir, err := os.MkdirTemp(tmpRoot(), "c35-")
		if err != nil {
			panic(err)
		}
		store, err := storage.NewBadgerStore(&config.Custom{}, dir)
		if err != nil {
			panic(err)
		}
		theStore, theDir = store, dir
	}
	return theStore, func() {
		for {
			n, err := theStore.RemoveGraphEntries("")
			if err != nil {
				panic(err)
			}
			if n == 0 {
				break
			}
		}
	}
}

func closeStore() {
	if theStore != nil {
		theStore.Close()
		os.RemoveAll(theDir)
		theStore = nil
	}
}

// ---- oracle -------------------------------------------------------------------------

type oracle struct {
	c        *vh.Ctx
	cs       Case
	byPos    map[uint64]int
	byHash   map[int]uint64
	assigned []uint64 // positions handed out by the current node object
	failed   bool
}

func (o *oracle) fail(sig, what string) {
	if !o.failed {
		o.c.Fail(sig, what, o.cs)
	}
	o.failed = true
}

func (o *oracle) positions() []uint64 {
	ps := make([]uint64, 0, len(o.byPos))
	for p := range o.byPos {
		ps = append(ps, p)
	}
	sort.Slice(ps, func(i, j int) bool { return ps[i] < ps[j] })
	return ps
}

// a write succeeded / did not: uniqueness of positions and of snapshots
func (o *oracle) wrote(i int, pos uint64, id int, ok bool) {
	_, posUsed := o.byPos[pos]
	_, snapStored := o.byHash[id]
	switch {
	case ok && posUsed:
		o.fail("position-reused", fmt.Sprintf("op %d: position %d was given to a second snapshot", i, pos))
	case ok && snapStored:
		o.fail("snapshot-two-positions", fmt.Sprintf("op %d: a stored snapshot got a second position %d", i, pos))
	case !ok && !posUsed && !snapStored:
		o.fail("refuses-valid-write", fmt.Sprintf("op %d: a new snapshot at the free position %d was refused", i, pos))
	}
	if ok {
		o.byPos[pos] = id
		o.byHash[id] = pos
	}
}

type entry struct {
	pos uint64
	id  int
}

func (o *oracle) listing(i int, offset, count uint64, isErr bool, got []entry) {
	if count > 500 {
		if !isErr {
			o.fail("limit-not-enforced", fmt.Sprintf("op %d: a listing of %d entries was served (limit 500)", i, count))
		}
		return
	}
	if isErr {
		o.fail("listing-fails", fmt.Sprintf("op %d: listing (%d,%d) failed", i, offset, count))
		return
	}
	var want []entry
	for _, p := range o.positions() {
		if p >= offset && uint64(len(want)) < count {
			want = append(want, entry{p, o.byPos[p]})
		}
	}
	if uint64(len(got)) > count {
		o.fail("listing-too-long", fmt.Sprintf("op %d: listing (%d,%d) returned %d entries", i, offset, count, len(got)))
		return
	}
	for j := range got {
		if j > 0 && got[j].pos <= got[j-1].pos {
			o.fail("listing-unsorted", fmt.Sprintf("op %d: listing (%d,%d) is not in increasing position order", i, offset, count))
			return
		}
		if got[j].pos < offset {
			o.fail("listing-before-cursor", fmt.Sprintf("op %d: listing (%d,%d) returned position %d", i, offset, count, got[j].pos))
			return
		}
	}
	if len(got) != len(want) {
		o.fail("listing-not-contiguous", fmt.Sprintf("op %d: listing (%d,%d) returned %d entries, the index holds %d from the cursor", i, offset, count, len(got), len(want)))
		return
	}
	for j := range want {
		if got[j] != want[j] {
			o.fail("listing-wrong-entry", fmt.Sprintf("op %d: listing (%d,%d) entry %d is (%d,#%d), stored is (%d,#%d)", i, offset, count, j,
				got[j].pos, got[j].id, want[j].pos, want[j].id))
			return
		}
	}
}

// ---- running a case -------------------------------------------------------------------

func code(pan bool, err error) uint64 {
	if pan {
		return 2
	}
	if err != nil {
		return 1
	}
	return 0
}

func resN(pan bool, err error, v uint64) string {
	switch code(pan, err) {
	case 2:
		return vh.Pan("N")
	case 1:
		return vh.Err("N")
	}
	return vh.Ok(vh.NU(v))
}

const unknownID = 4000000000

func run(c *vh.Ctx, cs Case) {
	store, done := openStore()
	defer done()
	ids := map[crypto.Hash]int{}
	idOf := func(h crypto.Hash) int {
		if id, ok := ids[h]; ok {
			return id
		}
		return unknownID
	}
	register := func(b *built, id int) {
		if old, ok := ids[b.hash]; ok && old != id {
			panic("snapshot hash collision")
		}
		ids[b.hash] = id
	}
	orc := &oracle{c: c, cs: cs, byPos: map[uint64]int{}, byHash: map[int]uint64{}}

	// genesis
	var gen []string
	if cs.Genesis > 0 {
		var txs []*common.VersionedTransaction
		var snaps []*common.SnapshotWithTopologicalOrder
		for i := 0; i < cs.Genesis; i++ {
			b := snapOf(i, true)
			register(b, i)
			txs = append(txs, b.ver)
			snaps = append(snaps, &common.SnapshotWithTopologicalOrder{Snapshot: b.snap, TopologicalOrder: uint64(i)})
			gen = append(gen, vh.NU(uint64(i)))
			orc.byPos[uint64(i)] = i
			orc.byHash[i] = uint64(i)
		}
		rounds := []*common.Round{{Hash: nodeID, NodeId: nodeID, Number: 0, References: &common.RoundLink{}}}
		if err := store.LoadGenesis(rounds, snaps, txs); err != nil {
			panic(err)
		}
	}

	var node *kernel.Node
	defer func() {
		if node != nil {
			node.VerifStopTopo()
		}
	}()
	var terms []string
	writes, lists, big := 0, 0, false
	var sig strings.Builder
	fmt.Fprintf(&sig, "g%d", cs.Genesis)

	prepare := func(id int) *built {
		b := snapOf(id, id < cs.Genesis)
		register(b, id)
		if err := store.WriteTransaction(b.ver); err != nil {
			panic(err)
		}
		return b
	}
	project := func(snaps []*common.SnapshotWithTopologicalOrder) ([]entry, []string) {
		var es []entry
		var ts []string
		for _, s := range snaps {
			h := s.PayloadHash()
			if s.Hash != h {
				orc.fail("hash-field-wrong", "a listed snapshot carries a hash that is not its payload hash")
			}
			e := entry{s.TopologicalOrder, idOf(h)}
			es = append(es, e)
			ts = append(ts, fmt.Sprintf("E %d %d", e.pos, e.id))
		}
		return es, ts
	}

	for i, op := range cs.Ops {
		fmt.Fprintf(&sig, "|%s,%d,%d,%d,%d", op.Op, op.Pos, op.Snap, op.Offset, op.Count)
		switch op.Op {
		case "write":
			if cs.Genesis == 0 {
				panic("write on a store without genesis")
			}
			b := prepare(op.Snap)
			var err error
			pan, _ := vh.Catch(func() {
				err = store.WriteSnapshot(&common.SnapshotWithTopologicalOrder{Snapshot: b.snap, TopologicalOrder: op.Pos}, nil)
			})
			if err != nil {
				panic(err) // no error path is expected in these histories
			}
			orc.wrote(i, op.Pos, op.Snap, !pan)
			if !pan {
				writes++
			}
			c.Count("write:" + []string{"ok", "err", "panic"}[code(pan, err)])
			terms = append(terms, vh.App("XWriteAt", vh.NU(op.Pos), vh.NU(uint64(op.Snap)), vh.NU(code(pan, err))))
		case "init":
			if node != nil {
				node.VerifStopTopo()
				node = nil
			}
			var seq uint64
			pan, _ := vh.Catch(func() {
				node = kernel.VerifNewTopoNode(store)
				seq = node.TopologicalOrder()
			})
			if pan {
				node = nil
				if len(orc.byPos) > 0 {
					orc.fail("init-panics", fmt.Sprintf("op %d: the counter could not be read from a non-empty store", i))
				}
			} else {
				ps := orc.positions()
				if len(ps) == 0 || seq != ps[len(ps)-1] {
					orc.fail("counter-start", fmt.Sprintf("op %d: the counter starts at %d, not at the last stored position", i, seq))
				}
			}
			orc.assigned = nil
			c.Count("init")
			terms = append(terms, vh.App("XInit", resN(pan, nil, seq)))
		case "setseq":
			if node == nil {
				continue
			}
			node.VerifSetTopoSeq(op.Pos)
			orc.assigned = nil
			terms = append(terms, vh.App("XSetSeq", vh.NU(op.Pos)))
		case "topowrite":
			if node == nil {
				continue
			}
			b := prepare(op.Snap)
			var pos uint64
			pan, _ := vh.Catch(func() { pos = node.TopoWrite(b.snap, []crypto.Hash{nodeID}).TopologicalOrder })
			if !pan {
				writes++
				if k := len(orc.assigned); k > 0 && orc.assigned[k-1] == max64 {
					// the uint64 counter wrapped: 2^64 snapshots, outside the property's histories
					orc.assigned = nil
					c.Count("counter-wrap")
				}
				for _, p := range orc.assigned {
					if pos <= p {
						orc.fail("counter-not-increasing", fmt.Sprintf("op %d: the node assigned position %d after %d", i, pos, p))
					}
				}
				orc.assigned = append(orc.assigned, pos)
				orc.wrote(i, pos, op.Snap, true)
			} else {
				// a refusal is only legitimate for a repeated snapshot or a taken position
				next := node.TopologicalOrder()
				orc.wrote(i, next, op.Snap, false)
			}
			c.Count("topowrite:" + []string{"ok", "err", "panic"}[code(pan, nil)])
			terms = append(terms, vh.App("XTopoWrite", vh.NU(uint64(op.Snap)), resN(pan, nil, pos)))
		case "list", "listtx", "klist":
			if op.Op == "klist" && node == nil {
				continue
			}
			var snaps []*common.SnapshotWithTopologicalOrder
			var txs [][]*common.VersionedTransaction
			var err error
			pan, _ := vh.Catch(func() {
				if op.Op == "list" {
					snaps, err = store.ReadSnapshotsSinceTopology(op.Offset, op.Count)
				} else if op.Op == "klist" {
					// the kernel's listing, the one the p2p sync handle serves
					snaps, err = node.ReadSnapshotsSinceTopology(op.Offset, op.Count)
				} else {
					snaps, txs, err = store.ReadSnapshotWithTransactionsSinceTopology(op.Offset, op.Count)
				}
			})
			if pan {
				orc.fail("listing-panics", fmt.Sprintf("op %d: listing (%d,%d) panicked", i, op.Offset, op.Count))
			}
			es, ts := project(snaps)
			orc.listing(i, op.Offset, op.Count, err != nil, es)
			if op.Op == "listtx" && err == nil {
				for j, s := range snaps {
					if len(txs[j]) != len(s.Transactions) {
						orc.fail("listing-transactions", "transactions of a listed snapshot are missing")
						continue
					}
					for k, t := range txs[j] {
						if t == nil || t.PayloadHash() != s.Transactions[k] {
							orc.fail("listing-transactions", "a listed transaction is not the snapshot's")
						}
					}
				}
			}
			lists++
			if len(es) >= 100 {
				big = true
			}
			obs := vh.Ok(vh.List(ts, "ent"))
			if pan {
				obs = vh.Pan("(list ent)")
			} else if err != nil {
				obs = vh.Err("(list ent)")
			}
			c.Count(op.Op)
			if !op.Quiet {
				terms = append(terms, vh.App("XList", vh.NU(op.Offset), vh.NU(op.Count), obs))
			}
		case "lookup":
			b := snapOf(op.Snap, op.Snap < cs.Genesis)
			register(b, op.Snap)
			var s *common.SnapshotWithTopologicalOrder
			var err error
			pan, _ := vh.Catch(func() { s, err = store.ReadSnapshot(b.hash) })
			want, stored := orc.byHash[op.Snap]
			obs := vh.Ok(vh.None("(N*N)"))
			switch {
			case pan:
				obs = vh.Pan("(option (N*N))")
				orc.fail("lookup-panics", fmt.Sprintf("op %d: lookup panicked", i))
			case err != nil:
				obs = vh.Err("(option (N*N))")
				orc.fail("lookup-fails", fmt.Sprintf("op %d: lookup failed: %v", i, err))
			case s == nil:
				if stored {
					orc.fail("lookup-misses", fmt.Sprintf("op %d: a stored snapshot is not found by hash", i))
				}
			default:
				h := s.PayloadHash()
				obs = vh.Ok(vh.Some(fmt.Sprintf("(%s,%s)", vh.NU(s.TopologicalOrder), vh.NU(uint64(idOf(h))))))
				if !stored {
					orc.fail("lookup-invents", fmt.Sprintf("op %d: a snapshot that was never stored is found", i))
				} else if s.TopologicalOrder != want || h != b.hash {
					orc.fail("lookup-disagrees", fmt.Sprintf("op %d: lookup by hash returns position %d, the listing reports %d", i, s.TopologicalOrder, want))
				} else {
					// the listing from that cursor starts with this very snapshot
					l, err := store.ReadSnapshotsSinceTopology(s.TopologicalOrder, 1)
					if err != nil || len(l) != 1 || l[0].TopologicalOrder != want || l[0].PayloadHash() != b.hash {
						orc.fail("lookup-disagrees", fmt.Sprintf("op %d: the listing at the looked-up position does not return the snapshot", i))
					}
				}
			}
			c.Count("lookup")
			terms = append(terms, vh.App("XLookup", vh.NU(uint64(op.Snap)), obs))
		case "last":
			var s *common.SnapshotWithTopologicalOrder
			pan, _ := vh.Catch(func() { s, _ = store.LastSnapshot() })
			obs := vh.Pan("(N*N)")
			ps := orc.positions()
			if pan {
				if len(ps) > 0 {
					orc.fail("last-panics", fmt.Sprintf("op %d: LastSnapshot panicked on a non-empty store", i))
				}
			} else {
				id := idOf(s.PayloadHash())
				obs = vh.Ok(fmt.Sprintf("(%s,%s)", vh.NU(s.TopologicalOrder), vh.NU(uint64(id))))
				if len(ps) == 0 || s.TopologicalOrder != ps[len(ps)-1] || id != orc.byPos[ps[len(ps)-1]] {
					orc.fail("last-wrong", fmt.Sprintf("op %d: LastSnapshot is not the highest position", i))
				}
			}
			c.Count("last")
			terms = append(terms, vh.App("XLast", obs))
		default:
			panic("op " + op.Op)
		}
	}
	kind := "history"
	if cs.Genesis == 0 {
		kind = "empty-store"
	} else if big {
		kind = "history-large"
	}
	c.Case(kind, sig.String(), writes > 0 && lists > 0, cs, vh.App("CTopo", vh.List(gen, "N"), vh.List(terms, "topx")))
}

// ---- generators ---------------------------------------------------------------------------

func genHistory(r *vh.Rand, nops int, large bool) Case {
	cs := Case{Genesis: r.Range(1, 3)}
	nextSnap := cs.Genesis
	var used []uint64 // positions believed taken (for choosing interesting cursors)
	for i := 0; i < cs.Genesis; i++ {
		used = append(used, uint64(i))
	}
	seq := uint64(cs.Genesis - 1)
	cs.Ops = append(cs.Ops, TOp{Op: "init"})
	somePos := func() uint64 {
		switch r.Intn(6) {
		case 0:
			return uint64(r.Intn(4))
		case 1:
			return used[len(used)-1] + uint64(r.Intn(3))
		case 2:
			return max64 - uint64(r.Intn(2))
		default:
			return used[r.Intn(len(used))] + uint64(r.Intn(3)) - 1 // may wrap below 0: a huge cursor
		}
	}
	someCount := func() uint64 {
		switch r.Intn(10) {
		case 0:
			return 0
		case 1:
			return 1
		case 2:
			return 500
		case 3:
			return 501
		case 4:
			return uint64(r.Range(495, 505))
		case 5:
			return uint64(r.Range(502, 5000))
		case 6:
			return max64 - uint64(r.Intn(2))
		default:
			return uint64(r.Range(1, 12))
		}
	}
	if large {
		k := r.Range(505, 560) // more than the limit of 500, so every admissible count is fully served from the low cursors
		for i := 0; i < k; i++ {
			if r.Chance(1, 40) { // a gap in the positions
				seq += uint64(r.Range(2, 5))
				cs.Ops = append(cs.Ops, TOp{Op: "write", Pos: seq, Snap: nextSnap}, TOp{Op: "init"})
			} else {
				seq++
				cs.Ops = append(cs.Ops, TOp{Op: "topowrite", Snap: nextSnap})
			}
			used = append(used, seq)
			nextSnap++
		}
	}
	for i := 0; i < nops; i++ {
		switch x := r.Intn(100); {
		case x < 40:
			seq++
			used = append(used, seq)
			cs.Ops = append(cs.Ops, TOp{Op: "topowrite", Snap: nextSnap})
			nextSnap++
		case x < 50: // a chosen position: free, in a gap, taken, far ahead
			p := somePos()
			if r.Chance(1, 3) {
				p = used[len(used)-1] + uint64(r.Range(1, 6))
			}
			cs.Ops = append(cs.Ops, TOp{Op: "write", Pos: p, Snap: nextSnap})
			nextSnap++
			used = append(used, p)
			sort.Slice(used, func(a, b int) bool { return used[a] < used[b] })
			if r.Chance(1, 2) {
				cs.Ops = append(cs.Ops, TOp{Op: "init"})
				seq = used[len(used)-1]
			}
		case x < 55: // a snapshot that is (probably) already stored
			id := r.Intn(nextSnap)
			if r.Bool() {
				cs.Ops = append(cs.Ops, TOp{Op: "topowrite", Snap: id})
				seq++
			} else {
				cs.Ops = append(cs.Ops, TOp{Op: "write", Pos: used[len(used)-1] + uint64(r.Range(1, 3)), Snap: id})
			}
		case x < 75:
			op := "list"
			switch r.Intn(8) {
			case 0, 1:
				op = "listtx"
			case 2, 3, 4:
				op = "klist"
			}
			cs.Ops = append(cs.Ops, TOp{Op: op, Offset: somePos(), Count: someCount()})
		case x < 90:
			cs.Ops = append(cs.Ops, TOp{Op: "lookup", Snap: r.Intn(nextSnap + 2)})
		case x < 94:
			cs.Ops = append(cs.Ops, TOp{Op: "last"})
		case x < 98:
			cs.Ops = append(cs.Ops, TOp{Op: "init"})
			seq = used[len(used)-1]
		default: // a counter that lags behind the index
			v := used[r.Intn(len(used))] - uint64(r.Intn(2))
			cs.Ops = append(cs.Ops, TOp{Op: "setseq", Pos: v}, TOp{Op: "topowrite", Snap: nextSnap}, TOp{Op: "init"})
			nextSnap++
			seq = used[len(used)-1]
		}
	}
	if large {
		// the battery on the big store: both layers (storage and the kernel's
		// Node.ReadSnapshotsSinceTopology), counts at the batch / limit
		// boundaries and random, cursors at the start, in the middle, near the
		// end and beyond the end
		cs.Ops = append(cs.Ops, TOp{Op: "init"})
		sort.Slice(used, func(a, b int) bool { return used[a] < used[b] })
		last := used[len(used)-1]
		if last > max64-10 {
			last = used[len(used)/2] // a history that wrote near 2^64: "beyond the end" is taken from the middle
		}
		counts := []uint64{1, 99, 100, 101, 199, 200, 201, 255, 256, 499, 500, 501,
			uint64(r.Range(2, 98)), uint64(r.Range(102, 498)), uint64(r.Range(102, 498)), uint64(r.Range(502, 2000))}
		cursors := []uint64{0, uint64(r.Intn(5)), used[len(used)/2], used[len(used)/3] + 1, used[len(used)-3], last, last + 1, last + uint64(r.Range(2, 1000)),
			used[r.Intn(len(used))]}
		for _, cnt := range counts {
			for ci, cur := range cursors {
				for li, layer := range []string{"list", "klist", "listtx"} {
					if layer == "listtx" && !(ci == 0 || r.Chance(1, 6)) {
						continue
					}
					// sent to the model: the limit boundaries from the start, and a random sixth
					keep := (ci == 0 && li < 2 && (cnt == 101 || cnt == 500 || cnt == 501)) || r.Chance(1, 8) || cnt > 500
					cs.Ops = append(cs.Ops, TOp{Op: layer, Offset: cur, Count: cnt, Quiet: !keep})
				}
			}
		}
	}
	return cs
}

func corpus() []Case {
	return []Case{
		// empty store: reads only
		{Genesis: 0, Ops: []TOp{{Op: "list", Offset: 0, Count: 10}, {Op: "list", Offset: 0, Count: 501}, {Op: "lookup", Snap: 1}, {Op: "last"}, {Op: "init"}}},
		// one genesis snapshot, cursor and count boundaries
		{Genesis: 1, Ops: []TOp{{Op: "last"}, {Op: "init"}, {Op: "list", Offset: 0, Count: 0}, {Op: "list", Offset: 0, Count: 1}, {Op: "list", Offset: 1, Count: 1},
			{Op: "topowrite", Snap: 1}, {Op: "topowrite", Snap: 2}, {Op: "list", Offset: 0, Count: 2}, {Op: "list", Offset: 1, Count: 500}, {Op: "list", Offset: 2, Count: 500},
			{Op: "list", Offset: 3, Count: 500}, {Op: "list", Offset: 0, Count: 501}, {Op: "listtx", Offset: 1, Count: 2}, {Op: "listtx", Offset: 1, Count: 501},
			{Op: "lookup", Snap: 0}, {Op: "lookup", Snap: 2}, {Op: "lookup", Snap: 3}, {Op: "last"}, {Op: "list", Offset: max64, Count: 5}, {Op: "list", Offset: 1, Count: max64}}},
		// reuse of a position, and a stored snapshot written again
		{Genesis: 2, Ops: []TOp{{Op: "write", Pos: 1, Snap: 2}, {Op: "write", Pos: 0, Snap: 2}, {Op: "write", Pos: 5, Snap: 2}, {Op: "write", Pos: 5, Snap: 3},
			{Op: "write", Pos: 6, Snap: 2}, {Op: "write", Pos: 3, Snap: 3}, {Op: "list", Offset: 0, Count: 10}, {Op: "list", Offset: 2, Count: 10}, {Op: "list", Offset: 4, Count: 1},
			{Op: "lookup", Snap: 2}, {Op: "lookup", Snap: 3}, {Op: "init"}, {Op: "topowrite", Snap: 4}, {Op: "topowrite", Snap: 4}, {Op: "topowrite", Snap: 5},
			{Op: "list", Offset: 5, Count: 10}, {Op: "last"}}},
		// a counter behind the index tries to reuse a position
		{Genesis: 1, Ops: []TOp{{Op: "init"}, {Op: "topowrite", Snap: 1}, {Op: "topowrite", Snap: 2}, {Op: "setseq", Pos: 0}, {Op: "topowrite", Snap: 3},
			{Op: "topowrite", Snap: 3}, {Op: "topowrite", Snap: 3}, {Op: "list", Offset: 0, Count: 10}, {Op: "lookup", Snap: 3}}},
		// the counter wraps at 2^64 onto position 0
		{Genesis: 1, Ops: []TOp{{Op: "write", Pos: max64, Snap: 1}, {Op: "init"}, {Op: "topowrite", Snap: 2}, {Op: "topowrite", Snap: 2}, {Op: "list", Offset: max64, Count: 3},
			{Op: "list", Offset: max64 - 1, Count: 3}, {Op: "last"}, {Op: "lookup", Snap: 1}, {Op: "lookup", Snap: 2}}},
	}
}

func main() {
	c := vh.Start("C35")
	c.Rep.Rule = "corpus (empty store, cursor/count boundaries 0,1,500,501,2^64-1, position reuse, repeated snapshot, lagging counter, counter wrap), " +
		"then random histories after 1-3 genesis snapshots: TopoWrite through a bare Node (40%), WriteSnapshot at chosen positions " +
		"(free / gap / taken / far ahead), repeated snapshots, node restarts, lagging counters, listings with cursors around stored " +
		"positions and counts 0..2^64-1 (both listing calls), lookups of stored and unknown hashes, LastSnapshot; listings go through the storage calls and through the kernel's " +
		"Node.ReadSnapshotsSinceTopology; a few histories hold 505-560 snapshots and then receive a battery of listings through all three " +
		"calls: counts 1,99,100,101,199,200,201,255,256,499,500,501 and random, cursors at the start, middle, near the end and beyond " +
		"the end (every one checked by the oracle, a subset replayed in the model). Non-trivial = at least one successful write and one listing; distinct by the history."
	if c.Replay != "" {
		var cs Case
		c.ReplayCase(&cs)
		run(c, cs)
		closeStore()
		c.Finish()
		return
	}
	for _, cs := range corpus() {
		run(c, cs)
	}
	n := c.Scale(300, 8000)
	nl := c.Scale(2, 40)
	for i := 0; i < n; i++ {
		run(c, genHistory(c.Rng, c.Rng.Range(5, 40), false))
	}
	for i := 0; i < nl; i++ {
		run(c, genHistory(c.Rng, c.Rng.Range(5, 30), true))
	}
	closeStore()
	c.Finish()
}
