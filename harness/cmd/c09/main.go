// C09 harness: membership histories written through the real storage package, a
// kernel node over them, and finalization certificates built with the repo's
// real CoSi code by honest subsets of the historical signer set - or forged
// (wrong mask, one wrong share, tampered signature, changed hash, key set of
// another time, below threshold) - verified by the real verifyFinalization,
// repeatedly so the verification cache is hit, across membership reloads.
// The model (Run/C09.v) receives the history, each query, the outcome of the
// raw signature equation for the candidate key selections, and the decisions.
// Oracle (property text): accepted only with a threshold certificate over the
// key set at the snapshot's timestamp whose aggregate equation holds for exactly
// the masked keys; remembered result = fresh result.
package main

import (
	"bytes"
	"crypto/sha512"
	"fmt"
	"math/big"
	"math/bits"
	"strings"

	"filippo.io/edwards25519"
	"github.com/MixinNetwork/mixin/common"
	"github.com/MixinNetwork/mixin/config"
	"github.com/MixinNetwork/mixin/crypto"
	"github.com/MixinNetwork/mixin/kernel"
	"github.com/MixinNetwork/mixin/storage"
	"verifharness/cmd/c11/mbr"
	"verifharness/vh"
)

type CertSpec struct {
	SignTs  uint64 `json:"sign_ts"` // the signers use the key set of this time
	Round   uint64 `json:"round"`
	Chain   int    `json:"chain"` // 0 running chain, 1 pledging chain (info, no state), 2 info+state, 3 neither
	Info    int    `json:"info"`
	Pick    uint64 `json:"pick"`  // seed of subset and nonces
	Size    int    `json:"size"`  // 0 = threshold, -1 = threshold-1, 1 = all, 2 = threshold+1
	Forge   string `json:"forge"` // "", mask-flip, mask-high, mask-swap, mask-zero, share, sig-s, sig-r
	SnapTs  uint64 `json:"snap_ts"`
	Hash    int    `json:"hash"`    // label of the signed hash; -1 = the mainnet hack hash
	Present int    `json:"present"` // label of the hash shown in the snapshot
	Version uint8  `json:"version"`
	NilSig  bool   `json:"nil_sig,omitempty"`
	// Base > 0: reuse the signature and hash of certificate Base-1 and change only
	// the mask (Forge mask-*) or the snapshot time, so both share every other cache-key field
	Base int `json:"base,omitempty"`
}

type Step struct {
	Kind string   `json:"k"` // verify | load | wait | cosi-swap | variants
	Cert int      `json:"c,omitempty"`
	Ops  []mbr.Op `json:"ops,omitempty"`
}

type Case struct {
	Mainnet bool       `json:"mainnet,omitempty"`
	Epoch   uint64     `json:"epoch"`
	Genesis []int      `json:"genesis"`
	Ops     []mbr.Op   `json:"ops"`
	Certs   []CertSpec `json:"certs"`
	Steps   []Step     `json:"steps"`
	MaxSig  int        `json:"max_signer"`
}

var store *storage.BadgerStore
var forkAt = uint64(kernel.VerifC09ConsensusNodeRemovalSignerSetForkAt)

type detReader struct{ r *vh.Rand }

func (d detReader) Read(p []byte) (int, error) {
	copy(p, d.r.Bytes(len(p)))
	return len(p), nil
}

func hashOf(label int) crypto.Hash {
	if label < 0 {
		h, err := crypto.HashFromString(kernel.VerifC09NodeRemovalHackSnapshotHash)
		if err != nil {
			panic(err)
		}
		return h
	}
	return crypto.Blake3Hash([]byte(fmt.Sprintf("verif-snapshot-%d", label)))
}

func chainOf(w *mbr.World, node *kernel.Node, kind, infoSigner int) *kernel.Chain {
	var info *kernel.CNode
	if kind == 1 || kind == 2 {
		s := w.S(infoSigner)
		info = &kernel.CNode{IdForNetwork: s.Id, Signer: common.Address{PublicSpendKey: s.Pub}, Payee: common.Address{PublicSpendKey: s.Payee}}
	}
	return node.VerifC09Chain(w.S(infoSigner).Id, info, kind == 0 || kind == 2)
}

func maskKeys(mask uint64) []int {
	var k []int
	for i := 0; i < 64; i++ {
		if mask&(1<<uint(i)) != 0 {
			k = append(k, i)
		}
	}
	return k
}

// rawEquation: the aggregate Schnorr equation [S]B = R + [c](sum of selected keys),
// c = SHA-512(R || A || hash) reduced, evaluated with the LIBRARY primitives only and
// with canonical parsing of every encoding (keys, R, and S via SetCanonicalBytes).
// Nothing of the repository's verification code is used here.
func rawEquation(sel []*crypto.Key, hash crypto.Hash, sig crypto.Signature) bool {
	P := edwards25519.NewIdentityPoint()
	for _, k := range sel {
		p, err := edwards25519.NewIdentityPoint().SetBytes(k[:])
		if err != nil || !bytes.Equal(p.Bytes(), k[:]) {
			return false
		}
		P = P.Add(P, p)
	}
	R, err := edwards25519.NewIdentityPoint().SetBytes(sig[:32])
	if err != nil || !bytes.Equal(R.Bytes(), sig[:32]) {
		return false
	}
	S, err := edwards25519.NewScalar().SetCanonicalBytes(sig[32:])
	if err != nil {
		return false
	}
	h := sha512.New()
	h.Write(sig[:32])
	h.Write(P.Bytes())
	h.Write(hash[:])
	cc, err := edwards25519.NewScalar().SetUniformBytes(h.Sum(nil))
	if err != nil {
		return false
	}
	left := edwards25519.NewIdentityPoint().ScalarBaseMult(S)
	right := edwards25519.NewIdentityPoint().ScalarMult(cc, P)
	right = right.Add(right, R)
	return left.Equal(right) == 1
}

type cert struct {
	spec CertSpec
	snap *common.Snapshot
	sig  crypto.Signature // zero when NilSig
	mask uint64
	// honest certificates only: sum of nonce scalars, sum of private keys, key set signed for
	rsum, asum *edwards25519.Scalar
	pubs       []*crypto.Key
}

type recReader struct {
	d      detReader
	chunks [][]byte
}

func (r *recReader) Read(p []byte) (int, error) {
	n, err := r.d.Read(p)
	r.chunks = append(r.chunks, append([]byte(nil), p[:n]...))
	return n, err
}

func deriveCert(w *mbr.World, ref *kernel.Node, spec CertSpec, base *cert) *cert {
	r := vh.NewRand(spec.Pick, "c09-derive")
	sig := &crypto.CosiSignature{Signature: base.sig, Mask: base.mask}
	_, pubs := chainOf(w, ref, spec.Chain, spec.Info).ConsensusKeys(spec.Round, spec.SnapTs)
	n := len(pubs)
	if n > 63 {
		n = 63
	}
	switch spec.Forge {
	case "mask-swap": // same number of bits, other positions
		var on, off []int
		for i := 0; i < n; i++ {
			if sig.Mask&(1<<uint(i)) != 0 {
				on = append(on, i)
			} else {
				off = append(off, i)
			}
		}
		if len(on) > 0 && len(off) > 0 {
			sig.Mask ^= 1 << uint(on[r.Intn(len(on))])
			sig.Mask ^= 1 << uint(off[r.Intn(len(off))])
		}
	case "mask-flip":
		sig.Mask ^= 1 << uint(r.Intn(n+1))
	case "mask-high":
		sig.Mask |= 1 << uint(n)
	}
	c := &cert{spec: spec, mask: sig.Mask, sig: sig.Signature}
	c.snap = &common.Snapshot{Version: spec.Version, NodeId: w.S(spec.Info).Id, RoundNumber: spec.Round,
		Timestamp: spec.SnapTs, Signature: sig, Hash: base.snap.Hash}
	c.spec.Present = base.spec.Present
	return c
}

func buildCert(w *mbr.World, ref *kernel.Node, cs Case, spec CertSpec) *cert {
	r := vh.NewRand(spec.Pick, "c09-cert")
	_, pubs := chainOf(w, ref, spec.Chain, spec.Info).ConsensusKeys(spec.Round, spec.SignTs)
	thr := 0
	vh.Catch(func() { thr = ref.ConsensusThreshold(spec.SignTs, true) })
	n := len(pubs)
	if n > 64 {
		n = 64
	}
	signed := hashOf(spec.Hash)
	sig := &crypto.CosiSignature{}
	var hrs, has *edwards25519.Scalar
	var hp []*crypto.Key
	if n == 0 {
		sig.Mask = r.U64() >> uint(r.Intn(64))
		copy(sig.Signature[:], r.Bytes(64))
	} else {
		k := thr
		switch spec.Size {
		case -1:
			k = thr - 1
		case 1:
			k = n
		case 2:
			k = thr + 1
		}
		if k > n {
			k = n
		}
		if k < 1 {
			k = 1
		}
		perm := make([]int, n)
		for i := range perm {
			perm[i] = i
		}
		for i := n - 1; i > 0; i-- {
			j := r.Intn(i + 1)
			perm[i], perm[j] = perm[j], perm[i]
		}
		chosen := perm[:k]
		priv := map[crypto.Key]*crypto.Key{}
		for i := 0; i <= cs.MaxSig; i++ {
			s := w.S(i)
			p := s.Priv
			priv[s.Pub] = &p
		}
		nonces := map[int]*crypto.CosiNonce{}
		commitments := map[int]*crypto.Key{}
		rr := &recReader{d: detReader{r}}
		honest := spec.Forge == ""
		for _, i := range chosen {
			nc := crypto.CosiCommitNonce(rr)
			pub := nc.Public()
			nonces[i] = nc
			commitments[i] = &pub
		}
		var err error
		sig, err = crypto.CosiAggregateCommitment(commitments)
		if err != nil {
			panic(err)
		}
		responses := map[int]*[32]byte{}
		wrong := -1
		if spec.Forge == "share" {
			wrong = chosen[r.Intn(len(chosen))]
		}
		for _, i := range chosen {
			key := priv[*pubs[i]]
			if key == nil {
				honest = false
			}
			if key == nil || i == wrong {
				other := crypto.NewKeyFromSeed(r.Bytes(64))
				key = &other
			}
			resp, err := nonces[i].Response(sig, key, pubs, signed)
			if err != nil {
				panic(err)
			}
			responses[i] = resp
		}
		if err := sig.AggregateResponse(pubs, responses, signed, false); err != nil {
			panic(err)
		}
		if honest && len(rr.chunks) == len(chosen) {
			rs, as := edwards25519.NewScalar(), edwards25519.NewScalar()
			for j, i := range chosen {
				rk := crypto.NewKeyFromSeed(rr.chunks[j])
				x, e1 := edwards25519.NewScalar().SetCanonicalBytes(rk[:])
				y, e2 := edwards25519.NewScalar().SetCanonicalBytes(priv[*pubs[i]][:])
				if e1 != nil || e2 != nil {
					honest = false
					break
				}
				rs, as = rs.Add(rs, x), as.Add(as, y)
			}
			if honest {
				hrs, has, hp = rs, as, pubs
			}
		}
		switch spec.Forge {
		case "mask-flip":
			sig.Mask ^= 1 << uint(r.Intn(n+1))
		case "mask-high":
			sig.Mask |= 1 << uint([]int{n, 63, n + 1}[r.Intn(3)]%64)
		case "mask-swap":
			if k < n {
				sig.Mask ^= 1 << uint(chosen[0])
				sig.Mask ^= 1 << uint(perm[k])
			}
		case "mask-zero":
			sig.Mask = 0
		case "sig-s":
			sig.Signature[32+r.Intn(31)] ^= 1 << uint(r.Intn(8))
		case "sig-r":
			sig.Signature[r.Intn(32)] ^= 1 << uint(r.Intn(8))
		}
	}
	c := &cert{spec: spec, mask: sig.Mask, sig: sig.Signature, rsum: hrs, asum: has, pubs: hp}
	c.snap = &common.Snapshot{
		Version:     spec.Version,
		NodeId:      w.S(spec.Info).Id,
		RoundNumber: spec.Round,
		Timestamp:   spec.SnapTs,
		Signature:   sig,
	}
	c.snap.Hash = hashOf(spec.Present)
	if spec.NilSig {
		c.snap.Signature = nil
		c.mask = 0
		c.sig = crypto.Signature{}
	}
	return c
}

type result struct {
	pan     bool
	signers []crypto.Hash
	fin     bool
}

func (r result) key() string {
	var sb strings.Builder
	fmt.Fprintf(&sb, "%v/%v/", r.pan, r.fin)
	for _, s := range r.signers {
		fmt.Fprintf(&sb, "%x,", s[:6])
	}
	return sb.String()
}

func (r result) term(a *mbr.Alias) string {
	if r.pan {
		return vh.Pan("(list N * bool)")
	}
	return vh.Ok("(" + mbr.HashesTerm(a, r.signers) + ", " + vh.Bool(r.fin) + ")")
}

func verify(w *mbr.World, node *kernel.Node, c *cert) result {
	var r result
	ch := chainOf(w, node, c.spec.Chain, c.spec.Info)
	r.pan, _ = vh.Catch(func() { r.signers, r.fin = ch.VerifC09VerifyFinalization(c.snap) })
	return r
}

type aggTable struct {
	seen map[string]bool
	rows []string
}

func (t *aggTable) add(a *mbr.Alias, keys []*crypto.Key, mask uint64, hash crypto.Hash, sig crypto.Signature) (bool, bool) {
	if mask == 0 {
		return false, false
	}
	var sel []*crypto.Key
	for _, i := range maskKeys(mask) {
		if i >= len(keys) {
			return false, false
		}
		sel = append(sel, keys[i])
	}
	ok := rawEquation(sel, hash, sig)
	row := fmt.Sprintf("(%s, %s, %s, %s)", mbr.KeysTerm(a, sel), hashTerm(a, hash), a.N(sig[:]), vh.Bool(ok))
	if !t.seen[row] {
		t.seen[row] = true
		t.rows = append(t.rows, row)
	}
	return true, ok
}

func hashTerm(a *mbr.Alias, h crypto.Hash) string {
	if h.String() == kernel.VerifC09NodeRemovalHackSnapshotHash {
		return "hack_hash"
	}
	return a.N(h[:])
}

type rec struct {
	step  Step
	store []mbr.Rec
	cert  *cert
	res   result
	cids  []crypto.Hash
	pubs  []*crypto.Key
	thr   int
	cand  [][]*crypto.Key
}

// ---- algebraically equivalent re-encodings of a signature -----------------------------------

var groupL, _ = new(big.Int).SetString("7237005577332262213973186563042994240857116359379907606001950938285454250989", 10)
var fieldP = new(big.Int).Sub(new(big.Int).Lsh(big.NewInt(1), 255), big.NewInt(19))

func leInt(b []byte) *big.Int {
	r := make([]byte, len(b))
	for i := range b {
		r[len(b)-1-i] = b[i]
	}
	return new(big.Int).SetBytes(r)
}

func le32(v *big.Int) []byte {
	be := v.FillBytes(make([]byte, 32))
	for i := 0; i < 16; i++ {
		be[i], be[31-i] = be[31-i], be[i]
	}
	return be
}

type variant struct {
	name string
	sig  crypto.Signature
}

// small-order points: order 2, 4, 4, 8
var torsionHex = []string{
	"ecffffffffffffffffffffffffffffffffffffffffffffffffffffffffffff7f",
	"0000000000000000000000000000000000000000000000000000000000000000",
	"0000000000000000000000000000000000000000000000000000000000000080",
	"c7176a703d4dd84fba3c0b760d10670f2a2053fa2c39ccc64ec7fd7792ac037a",
}

func makeVariants(ct *cert, hash crypto.Hash) []variant {
	var out []variant
	add := func(name string, sig crypto.Signature) {
		if sig != ct.sig {
			out = append(out, variant{name, sig})
		}
	}
	S := leInt(ct.sig[32:])
	for k := int64(1); k <= 16; k++ { // S + kL for every k that fits in 256 bits
		v := new(big.Int).Add(S, new(big.Int).Mul(big.NewInt(k), groupL))
		if v.BitLen() > 256 {
			break
		}
		sig := ct.sig
		copy(sig[32:], le32(v))
		add(fmt.Sprintf("s+%dL", k), sig)
	}
	for _, m := range []byte{0x80, 0x40, 0x20, 0xe0, 0x10} { // top bits of S set
		sig := ct.sig
		sig[63] |= m
		add(fmt.Sprintf("s-top-%02x", m), sig)
	}
	// R: non-canonical encoding of the same point (y + p when it fits in 255 bits)
	sign := ct.sig[31] & 0x80
	yb := append([]byte(nil), ct.sig[:32]...)
	yb[31] &= 0x7f
	y := leInt(yb)
	if yp := new(big.Int).Add(y, fieldP); yp.BitLen() <= 255 {
		sig := ct.sig
		copy(sig[:32], le32(yp))
		sig[31] |= sign
		add("r-y+p", sig)
	}
	{
		sig := ct.sig
		sig[31] ^= 0x80 // the sign bit: same point only when x = 0, otherwise -x
		add("r-sign", sig)
	}
	R, err := edwards25519.NewIdentityPoint().SetBytes(ct.sig[:32])
	if err == nil {
		for ti, th := range torsionHex {
			tb, _ := crypto.KeyFromString(th)
			T, err := edwards25519.NewIdentityPoint().SetBytes(tb[:])
			if err != nil {
				continue
			}
			R2 := edwards25519.NewIdentityPoint().Add(R, T)
			sig := ct.sig
			copy(sig[:32], R2.Bytes())
			add(fmt.Sprintf("r+T%d", ti), sig)
			if ct.rsum != nil { // S recomputed for the new challenge: r + c'*a
				cs := &crypto.CosiSignature{Signature: sig, Mask: ct.mask}
				ch, err := cs.Challenge(ct.pubs, hash)
				if err == nil {
					s2 := edwards25519.NewScalar().MultiplyAdd(ch, ct.asum, ct.rsum)
					copy(sig[32:], s2.Bytes())
					add(fmt.Sprintf("r+T%d-s-adjusted", ti), sig)
				}
			}
		}
	}
	return out
}

func (ct *cert) withSig(sig crypto.Signature) *cert {
	v := *ct
	v.sig = sig
	sn := *ct.snap
	sn.Signature = &crypto.CosiSignature{Signature: sig, Mask: ct.mask}
	v.snap = &sn
	return &v
}

// emitCase prints one model case from a log of steps.
func emitCase(c *vh.Ctx, cs Case, w *mbr.World, log []rec, kind, key string, nontrivial bool) {
	extra := []int{}
	for i := 0; i <= cs.MaxSig; i++ {
		extra = append(extra, i)
	}
	a := w.AliasFor(extra, nil)
	for _, l := range log {
		if l.cert != nil {
			a.Add(l.cert.sig[:])
			a.Add(l.cert.snap.Hash[:])
		}
	}
	tab := &aggTable{seen: map[string]bool{}}
	var steps []string
	for _, l := range log {
		switch l.step.Kind {
		case "load":
			// the store as it was at that point: re-printing from the log keeps reloads faithful
			el := make([]string, len(l.store))
			for i, r := range l.store {
				el[i] = w.RecTerm(a, r)
			}
			steps = append(steps, vh.App("SLoad", vh.List(el, "nrec")))
		case "verify":
			ct := l.cert
			for _, keys := range l.cand {
				tab.add(a, keys, ct.mask, ct.snap.Hash, ct.sig)
			}
			info := vh.None("nrec")
			if ct.spec.Chain == 1 || ct.spec.Chain == 2 {
				s := w.S(ct.spec.Info)
				info = vh.Some(fmt.Sprintf("(mkrec 0 %d %d %d 0 Pledging)", a.Of(s.Id[:]), a.Of(s.Pub[:]), a.Of(s.Payee[:])))
			}
			ch := vh.App("mkchain", info, vh.Bool(ct.spec.Chain == 0 || ct.spec.Chain == 2))
			snap := vh.App("mksnap", vh.NU(uint64(ct.spec.Version)), vh.Bool(!ct.spec.NilSig), vh.NU(ct.mask), a.N(ct.sig[:]),
				hashTerm(a, ct.snap.Hash), a.T(ct.spec.SnapTs), vh.NU(ct.spec.Round))
			steps = append(steps, vh.App("SVerify", ch, snap, l.res.term(a)))
		case "cosi-swap":
			ct := l.cert
			tab.add(a, l.pubs, ct.mask, ct.snap.Hash, ct.sig)
			steps = append(steps, vh.App("SCosi", hashTerm(a, ct.snap.Hash), a.N(ct.sig[:]), vh.NU(ct.mask),
				mbr.HashesTerm(a, l.cids), mbr.KeysTerm(a, l.pubs), vh.ZI(int64(l.thr)), l.res.term(a)))
		}
	}
	term := vh.App("CFin", mbr.HashesTerm(a, w.GenesisIds()), a.T(cs.Epoch), vh.Bool(cs.Mainnet),
		vh.List(tab.rows, "(list N * N * N * bool)"), vh.List(steps, "step"))
	c.Case(kind, key, nontrivial, cs, a.Wrap(term))
}

func run(c *vh.Ctx, cs Case) {
	w := mbr.NewWorld(store, cs.Mainnet, cs.Epoch, cs.Genesis)
	for _, op := range cs.Ops {
		w.Apply(op)
	}
	node := w.Node() // the node under test: one verification cache for the whole case
	defer node.VerifC09CloseCache()
	ref := w.Node() // the honest network's view: signing key sets and the oracle's key sets
	defer func() { ref.VerifC09CloseCache() }()

	// every value that will be aliased must be known before printing: run first, print after
	var log []rec
	certs := make([]*cert, len(cs.Certs))
	first := map[string]string{}
	loads := 0
	accepted, hits := 0, 0
	log = append(log, rec{step: Step{Kind: "load"}, store: w.SortedRecs()})
	// key sets the verification may look at for a certificate: the effective time and the legacy time
	candKeys := func(spec CertSpec) [][]*crypto.Key {
		eff := spec.SnapTs
		if spec.Present < 0 {
			eff -= mbr.Minute
		}
		ch := chainOf(w, ref, spec.Chain, spec.Info)
		_, k := ch.ConsensusKeys(spec.Round, eff)
		out := [][]*crypto.Key{k}
		if eff >= cs.Epoch {
			hour := (eff - cs.Epoch) / mbr.Hour % 24
			if hour >= config.KernelNodeAcceptTimeBegin && hour <= config.KernelNodeAcceptTimeEnd {
				_, lk := ch.ConsensusKeys(spec.Round, eff-(hour+1-config.KernelNodeAcceptTimeBegin)*mbr.Hour)
				out = append(out, lk)
			}
		}
		return out
	}
	for _, st := range cs.Steps {
		switch st.Kind {
		case "load":
			for _, op := range st.Ops {
				w.Apply(op)
			}
			if err := node.VerifC09ReloadConsensusNodes(); err != nil {
				panic(err)
			}
			ref.VerifC09CloseCache()
			ref = w.Node()
			loads++
			log = append(log, rec{step: st, store: w.SortedRecs()})
		case "wait":
			node.VerifC09CacheWait()
		case "variants":
			// every algebraically equivalent re-encoding of an accepted certificate's signature must be
			// refused: after the genuine one on this node (cache), and before and after it on a fresh node
			if st.Cert >= len(certs) || cs.Certs[st.Cert].Base > 0 || cs.Certs[st.Cert].NilSig {
				continue
			}
			if certs[st.Cert] == nil {
				certs[st.Cert] = buildCert(w, ref, cs, cs.Certs[st.Cert])
			}
			ct := certs[st.Cert]
			cand := candKeys(ct.spec)
			g := verify(w, node, ct)
			log = append(log, rec{step: Step{Kind: "verify"}, cert: ct, res: g, cand: cand})
			if !g.fin {
				c.Count("variants-skipped-certificate-not-accepted")
				continue
			}
			node.VerifC09CacheWait()
			vs := makeVariants(ct, ct.snap.Hash)
			check := func(nd *kernel.Node, lg *[]rec, v variant, when string) {
				vc := ct.withSig(v.sig)
				r := verify(w, nd, vc)
				*lg = append(*lg, rec{step: Step{Kind: "verify"}, cert: vc, res: r, cand: cand})
				c.Count("signature-variants-checked")
				if r.fin || r.pan {
					c.Fail("signature-variant-accepted", fmt.Sprintf("signature re-encoding %s (bytes differ from the genuine signature) was accepted %s the genuine certificate", v.name, when), cs)
				}
			}
			for _, v := range vs {
				check(node, &log, v, "after")
			}
			node.VerifC09CacheWait()
			for _, v := range vs[:len(vs)/2] {
				check(node, &log, v, "again after")
			}
			fresh := w.Node()
			flog := []rec{{step: Step{Kind: "load"}, store: w.SortedRecs()}}
			for _, v := range vs {
				check(fresh, &flog, v, "before")
			}
			fresh.VerifC09CacheWait()
			fg := verify(w, fresh, ct)
			flog = append(flog, rec{step: Step{Kind: "verify"}, cert: ct, res: fg, cand: cand})
			if fg.key() != g.key() {
				c.Fail("memo-differs-from-fresh", "the genuine certificate is judged differently after its re-encodings were refused", cs)
			}
			fresh.VerifC09CacheWait()
			for _, v := range vs {
				check(fresh, &flog, v, "after (fresh node)")
			}
			fresh.VerifC09CloseCache()
			emitCase(c, cs, w, flog, "variants-fresh-node", fmt.Sprintf("vf|%d|%v", st.Cert, cs), true)
		case "verify", "cosi-swap":
			if st.Cert >= len(certs) {
				continue
			}
			if certs[st.Cert] == nil {
				sp := cs.Certs[st.Cert]
				if b := sp.Base - 1; b >= 0 && b < st.Cert && !cs.Certs[b].NilSig {
					if certs[b] == nil {
						certs[b] = buildCert(w, ref, cs, cs.Certs[b])
					}
					certs[st.Cert] = deriveCert(w, ref, sp, certs[b])
				} else {
					certs[st.Cert] = buildCert(w, ref, cs, sp)
				}
			}
			ct := certs[st.Cert]
			spec := ct.spec
			present := ct.snap.Hash
			eff := spec.SnapTs
			if spec.Present < 0 {
				eff -= mbr.Minute
			}
			refChain := chainOf(w, ref, spec.Chain, spec.Info)
			effIds, effKeys := refChain.ConsensusKeys(spec.Round, eff)
			effThr := 0
			vh.Catch(func() { effThr = ref.ConsensusThreshold(eff, true) })
			if st.Kind == "cosi-swap" {
				// the cache key is built from (hash, signature, publics, threshold, mask); the ids are not
				// part of it.  Ask the real wrapper twice with the same key and two id vectors.
				if ct.snap.Signature == nil || len(effIds) < 2 {
					continue
				}
				swapped := append([]crypto.Hash{}, effIds...)
				swapped[0], swapped[len(swapped)-1] = swapped[len(swapped)-1], swapped[0]
				for _, ids := range [][]crypto.Hash{effIds, swapped} {
					var r result
					r.pan, _ = vh.Catch(func() { r.signers, r.fin = node.VerifC09CacheVerifyCosi(present, ct.snap.Signature, ids, effKeys, effThr) })
					node.VerifC09CacheWait()
					log = append(log, rec{step: st, cert: ct, res: r, cids: ids, pubs: effKeys, thr: effThr, cand: [][]*crypto.Key{effKeys}})
				}
				continue
			}
			res := verify(w, node, ct)
			cand := [][]*crypto.Key{effKeys}
			// ---- oracle -----------------------------------------------------------
			early := spec.Version != common.SnapshotVersionCommonEncoding || spec.NilSig || ct.mask == 0 || eff < cs.Epoch
			certOK := func(ts uint64) (bool, []crypto.Hash) {
				ids, keys := refChain.ConsensusKeys(spec.Round, ts)
				thr := 0
				vh.Catch(func() { thr = ref.ConsensusThreshold(ts, true) })
				mk := maskKeys(ct.mask)
				if ct.mask == 0 || thr <= 0 || len(mk) < thr {
					return false, nil
				}
				var sel []*crypto.Key
				var sids []crypto.Hash
				for _, i := range mk {
					if i >= len(keys) {
						return false, nil
					}
					sel = append(sel, keys[i])
					sids = append(sids, ids[i])
				}
				return rawEquation(sel, present, ct.sig), sids
			}
			okEff, idsEff := false, []crypto.Hash(nil)
			okLeg, idsLeg := false, []crypto.Hash(nil)
			if !early {
				okEff, idsEff = certOK(eff)
				predictive := !cs.Mainnet || eff >= forkAt
				hour := (eff - cs.Epoch) / mbr.Hour % 24
				if !predictive && hour >= config.KernelNodeAcceptTimeBegin && hour <= config.KernelNodeAcceptTimeEnd {
					lts := eff - (hour+1-config.KernelNodeAcceptTimeBegin)*mbr.Hour
					_, lkeys := refChain.ConsensusKeys(spec.Round, lts)
					cand = append(cand, lkeys)
					if len(lkeys) > len(effKeys) {
						okLeg, idsLeg = certOK(lts)
					}
				}
			}
			switch {
			case res.pan:
				c.Fail("verify-panics", "verifyFinalization panicked", cs)
			case res.fin && !okEff && !okLeg:
				c.Fail("accepted-without-certificate", fmt.Sprintf("snapshot at %d accepted as final although no threshold certificate of the key set at its timestamp verifies (forge=%q sign_ts=%d mask=%x)", spec.SnapTs, spec.Forge, spec.SignTs, ct.mask), cs)
			case res.fin:
				want := idsEff
				if !okEff {
					want = idsLeg
				}
				if (result{signers: want}).key() != (result{signers: res.signers}).key() {
					c.Fail("wrong-signers", "accepted with a signer list that is not the masked members of the key set", cs)
				}
			case !res.fin && (okEff || okLeg):
				c.Fail("valid-certificate-rejected", fmt.Sprintf("a threshold certificate of the key set at %d was refused", eff), cs)
			}
			mk := fmt.Sprintf("%d/%d", st.Cert, loads)
			if prev, ok := first[mk]; ok {
				hits++
				if prev != res.key() {
					c.Fail("memo-differs", "a repeated verification returned a different result", cs)
				}
			} else {
				first[mk] = res.key()
			}
			fresh := w.Node()
			fr := verify(w, fresh, ct)
			fresh.VerifC09CloseCache()
			if fr.key() != res.key() {
				c.Fail("memo-differs-from-fresh", "the remembered result differs from a verification with an empty cache", cs)
			}
			if res.fin {
				accepted++
				c.Count("accepted-verifications")
				if !okEff && okLeg {
					c.Count("accepted-by-legacy-retry")
				}
				if spec.Present < 0 {
					c.Count("accepted-hack-hash")
				}
			} else {
				c.Count("rejected-verifications")
				if spec.Forge != "" || spec.Present != spec.Hash || spec.SignTs != spec.SnapTs {
					c.Count("rejected-forgeries")
				}
			}
			log = append(log, rec{step: st, cert: ct, res: res, cand: cand})
		}
	}

	kind := "rejected-only"
	if accepted > 0 {
		kind = "with-accepted"
	}
	emitCase(c, cs, w, log, kind, fmt.Sprintf("%v", cs), accepted > 0 && hits > 0)
	// the swap observation is informational: see the report
	for i := 0; i+1 < len(log); i++ {
		if log[i].step.Kind == "cosi-swap" && log[i+1].step.Kind == "cosi-swap" && log[i].res.fin &&
			log[i].res.key() == log[i+1].res.key() && fmt.Sprint(log[i].cids) != fmt.Sprint(log[i+1].cids) {
			c.Count("cosi-key-omits-ids-observed")
		}
	}
}

// ---- generators --------------------------------------------------------------------------

func delta(r *vh.Rand) uint64 {
	switch r.Intn(7) {
	case 0:
		return uint64(r.Intn(3))
	case 1:
		return uint64(r.Range(1, 120)) * mbr.Second
	case 2:
		return 12*mbr.Hour + uint64(r.Intn(3))
	case 3:
		return uint64(r.Range(1, 30)) * mbr.Hour
	case 4:
		return mbr.Day
	default:
		return uint64(r.Range(1, 3600)) * mbr.Second * uint64(r.Range(1, 30))
	}
}

type gen struct {
	r        *vh.Rand
	nextSig  int
	nextTx   int
	cursor   uint64
	pledged  int
	accepted []int
	times    []uint64
	epoch    uint64
}

func (g *gen) ops(k int, inWindow bool) []mbr.Op {
	var ops []mbr.Op
	for i := 0; i < k; i++ {
		g.cursor += delta(g.r)
		if inWindow { // move into the 13..19 h window of the day
			day := (g.cursor - g.epoch) / mbr.Day
			g.cursor = g.epoch + day*mbr.Day + 13*mbr.Hour + uint64(g.r.Intn(7*3600))*mbr.Second
			if len(g.times) > 0 && g.cursor <= g.times[len(g.times)-1] {
				g.cursor += mbr.Day
			}
		}
		ts := g.cursor
		g.nextTx++
		var op mbr.Op
		switch {
		case g.pledged >= 0 && g.r.Chance(3, 4):
			kind := "ACCEPT"
			if g.r.Chance(1, 5) {
				kind = "CANCEL"
			}
			op = mbr.Op{Kind: kind, Signer: g.pledged, Ts: ts, Tx: g.nextTx}
			if kind == "ACCEPT" {
				g.accepted = append(g.accepted, g.pledged)
			}
			g.pledged = -1
		case g.r.Chance(1, 2) && len(g.accepted) > 0:
			j := 0
			if g.r.Chance(1, 4) {
				j = g.r.Intn(len(g.accepted))
			}
			op = mbr.Op{Kind: "REMOVE", Signer: g.accepted[j], Ts: ts, Tx: g.nextTx}
			g.accepted = append(g.accepted[:j:j], g.accepted[j+1:]...)
		default:
			op = mbr.Op{Kind: "PLEDGE", Signer: g.nextSig, Ts: ts, Tx: g.nextTx}
			g.pledged = g.nextSig
			g.nextSig++
		}
		ops = append(ops, op)
		g.times = append(g.times, ts)
	}
	return ops
}

var forges = []string{"", "", "", "", "mask-flip", "mask-high", "mask-swap", "mask-zero", "share", "sig-s", "sig-r"}

func genCase(c *vh.Ctx) Case {
	r := c.Rng
	cs := Case{Mainnet: r.Chance(1, 2)}
	switch r.Intn(4) {
	case 0:
		cs.Epoch = forkAt - uint64(r.Range(1, 5))*mbr.Day - 13*mbr.Hour
	case 1:
		cs.Epoch = forkAt - uint64(r.Range(0, 6))*mbr.Day - uint64(r.Intn(24))*mbr.Hour
	default:
		cs.Epoch = 1700000000000000000 + uint64(r.Intn(1000000))*mbr.Second
	}
	g := &gen{r: r, pledged: -1, epoch: cs.Epoch}
	ng := r.Range(7, 11)
	if r.Chance(1, 10) {
		ng = r.Range(3, 6)
	}
	for i := 0; i < ng; i++ {
		g.nextTx++
		cs.Genesis = append(cs.Genesis, i)
		cs.Ops = append(cs.Ops, mbr.Op{Kind: "GENESIS", Signer: i, Ts: cs.Epoch, Tx: g.nextTx})
		g.accepted = append(g.accepted, i)
	}
	g.nextSig = ng
	g.cursor = cs.Epoch
	g.times = []uint64{cs.Epoch}
	cs.Ops = append(cs.Ops, g.ops(r.Range(0, 6), r.Chance(1, 2))...)
	var laterOps []mbr.Op
	if r.Chance(1, 2) {
		laterOps = g.ops(r.Range(1, 3), r.Chance(1, 2))
	}
	// candidate snapshot times: around every record, deadline and window edge
	var ts []uint64
	add := func(t uint64) { ts = append(ts, t-1, t, t+1) }
	for _, t := range g.times {
		add(t)
		add(t + 30*mbr.Second)
		add(t + 12*mbr.Hour)
		ts = append(ts, t+uint64(r.Intn(3600))*mbr.Second, t+mbr.Day+uint64(r.Intn(86400))*mbr.Second)
		day := (t - cs.Epoch) / mbr.Day
		add(cs.Epoch + day*mbr.Day + 13*mbr.Hour)
		ts = append(ts, cs.Epoch+day*mbr.Day+13*mbr.Hour+uint64(r.Intn(7*3600))*mbr.Second)
		ts = append(ts, cs.Epoch+(day+1)*mbr.Day+13*mbr.Hour+uint64(r.Intn(7*3600))*mbr.Second)
	}
	add(forkAt)
	ts = append(ts, cs.Epoch, cs.Epoch-1, cs.Epoch+2*mbr.Day)
	nc := r.Range(3, 6)
	for i := 0; i < nc; i++ {
		snapTs := ts[r.Intn(len(ts))]
		spec := CertSpec{SignTs: snapTs, SnapTs: snapTs, Round: uint64(r.Intn(2)), Chain: []int{0, 0, 0, 1, 2, 3}[r.Intn(6)], Info: r.Intn(g.nextSig + 1),
			Pick: r.U64(), Size: []int{0, 0, 0, 1, 2, -1}[r.Intn(6)], Forge: forges[r.Intn(len(forges))], Hash: i, Present: i,
			Version: common.SnapshotVersionCommonEncoding}
		switch r.Intn(12) {
		case 0:
			spec.SignTs = ts[r.Intn(len(ts))] // key set of another time
		case 1:
			spec.Present = i + 100 // hash changed after signing
		case 2:
			spec.Hash, spec.Present = -1, -1 // signed over the hack hash: key set one minute earlier
			if r.Bool() {
				spec.SignTs = snapTs - mbr.Minute
			}
		case 3:
			spec.Version = uint8(r.Intn(4))
		case 4:
			spec.NilSig = true
		case 5:
			// signed by the key set of the window start (legacy rule before the fork)
			day := (snapTs - cs.Epoch) / mbr.Day
			spec.SignTs = cs.Epoch + day*mbr.Day + 13*mbr.Hour - uint64(r.Intn(2))
		}
		if i > 0 && r.Chance(1, 3) { // same signature and hash as an earlier certificate, other mask or time
			b := r.Intn(i)
			spec = cs.Certs[b]
			spec.Base, spec.Pick = b+1, r.U64()
			spec.Forge = []string{"mask-swap", "mask-swap", "mask-flip", "mask-high", ""}[r.Intn(5)]
			if spec.Forge == "" {
				spec.SnapTs = ts[r.Intn(len(ts))]
			}
		}
		cs.Certs = append(cs.Certs, spec)
	}
	loaded := false
	for i := 0; i < r.Range(6, 12); i++ {
		switch {
		case !loaded && len(laterOps) > 0 && r.Chance(1, 5):
			cs.Steps = append(cs.Steps, Step{Kind: "load", Ops: laterOps})
			loaded = true
		case r.Chance(1, 4):
			cs.Steps = append(cs.Steps, Step{Kind: "wait"})
		default:
			cs.Steps = append(cs.Steps, Step{Kind: "verify", Cert: r.Intn(nc)})
		}
	}
	if r.Chance(1, 5) {
		for i, sp := range cs.Certs {
			if sp.Forge == "" && sp.Base == 0 && !sp.NilSig && sp.Hash == sp.Present && sp.SignTs == sp.SnapTs && sp.Size >= 0 {
				cs.Steps = append(cs.Steps, Step{Kind: "variants", Cert: i})
				break
			}
		}
	}
	cs.MaxSig = g.nextSig + 1
	return cs
}

func corpus() []Case {
	e := uint64(1700000000000000000)
	genesis := func(n int, at uint64) ([]int, []mbr.Op) {
		var gs []int
		var ops []mbr.Op
		for i := 0; i < n; i++ {
			gs = append(gs, i)
			ops = append(ops, mbr.Op{Kind: "GENESIS", Signer: i, Ts: at, Tx: i + 1})
		}
		return gs, ops
	}
	g8, ops8 := genesis(8, e)
	v := common.SnapshotVersionCommonEncoding
	t1 := e + 2*mbr.Day
	base := CertSpec{SignTs: t1, SnapTs: t1, Round: 1, Chain: 0, Info: 1, Pick: 7, Version: uint8(v)}
	with := func(f func(*CertSpec)) CertSpec { s := base; f(&s); return s }
	verifyAll := func(n int) []Step {
		var st []Step
		for k := 0; k < 2; k++ {
			for i := 0; i < n; i++ {
				st = append(st, Step{Kind: "verify", Cert: i})
			}
			st = append(st, Step{Kind: "wait"})
		}
		return st
	}
	certs := []CertSpec{
		base,
		with(func(s *CertSpec) { s.Hash, s.Present, s.Size = 1, 1, -1 }),
		with(func(s *CertSpec) { s.Hash, s.Present, s.Forge = 2, 2, "mask-flip" }),
		with(func(s *CertSpec) { s.Hash, s.Present, s.Forge = 3, 3, "share" }),
		with(func(s *CertSpec) { s.Hash, s.Present = 4, 104 }),
		with(func(s *CertSpec) { s.Hash, s.Present, s.Forge = 5, 5, "sig-s" }),
		with(func(s *CertSpec) { s.Hash, s.Present, s.Forge = 6, 6, "mask-zero" }),
		with(func(s *CertSpec) { s.Hash, s.Present, s.Size = 7, 7, 1 }),
		with(func(s *CertSpec) { s.Hash, s.Present, s.Forge = 8, 8, "mask-swap" }),
		with(func(s *CertSpec) { s.Base, s.Forge = 1, "mask-swap" }),
		with(func(s *CertSpec) { s.Base, s.Forge = 1, "mask-flip" }),
		with(func(s *CertSpec) { s.Base, s.SnapTs = 1, t1+3*mbr.Day }),
	}
	// legacy mainnet rule: removal inside the window, certificate by the key set of the window start
	le := forkAt - 10*mbr.Day - 13*mbr.Hour
	g9, ops9 := genesis(9, le)
	win := le + 3*mbr.Day + 13*mbr.Hour
	legacyOps := append(append([]mbr.Op{}, ops9...), mbr.Op{Kind: "REMOVE", Signer: 0, Ts: win + 30*mbr.Second, Tx: 90})
	// find which genesis signer is first in (timestamp,id) order is irrelevant here: the removal is recorded, any signer works
	return []Case{
		{Epoch: e, Genesis: g8, Ops: ops8, Certs: certs, Steps: verifyAll(len(certs)), MaxSig: 9},
		{Epoch: e, Genesis: g8, Ops: ops8, Certs: certs[:1], Steps: []Step{{Kind: "variants", Cert: 0}}, MaxSig: 9},
		{Epoch: e, Genesis: g8, Ops: ops8, Certs: []CertSpec{with(func(s *CertSpec) { s.Hash, s.Present, s.Size, s.Pick = 7, 7, 1, 11 })},
			Steps: []Step{{Kind: "verify", Cert: 0}, {Kind: "wait"}, {Kind: "variants", Cert: 0}}, MaxSig: 9},
		{Epoch: e, Genesis: g8, Ops: ops8, Certs: []CertSpec{base}, MaxSig: 9,
			Steps: []Step{{Kind: "verify", Cert: 0}, {Kind: "wait"}, {Kind: "cosi-swap", Cert: 0}, {Kind: "verify", Cert: 0}}},
		{Mainnet: true, Epoch: le, Genesis: g9, Ops: legacyOps, MaxSig: 10,
			Certs: []CertSpec{
				{SignTs: win - 1, SnapTs: win + 31*mbr.Second, Round: 1, Info: 1, Pick: 3, Size: 1, Version: uint8(v), Hash: 1, Present: 1},
				{SignTs: win + 31*mbr.Second, SnapTs: win + 31*mbr.Second, Round: 1, Info: 1, Pick: 4, Size: 1, Version: uint8(v), Hash: 2, Present: 2},
				{SignTs: win - 1, SnapTs: win + 8*mbr.Hour, Round: 1, Info: 1, Pick: 5, Size: 1, Version: uint8(v), Hash: 3, Present: 3},
			},
			Steps: []Step{{Kind: "verify", Cert: 0}, {Kind: "verify", Cert: 1}, {Kind: "verify", Cert: 2}, {Kind: "wait"}, {Kind: "verify", Cert: 0}, {Kind: "verify", Cert: 1}}},
		// membership changes between two verifications of the same certificate (accept matures, node removed)
		{Epoch: e, Genesis: g8, Ops: ops8, MaxSig: 10,
			Certs: []CertSpec{{SignTs: e + 5*mbr.Day, SnapTs: e + 5*mbr.Day, Round: 1, Info: 1, Pick: 9, Size: 1, Version: uint8(v), Hash: 1, Present: 1}},
			Steps: []Step{{Kind: "verify", Cert: 0}, {Kind: "wait"},
				{Kind: "load", Ops: []mbr.Op{{Kind: "REMOVE", Signer: 2, Ts: e + 4*mbr.Day, Tx: 70}}},
				{Kind: "verify", Cert: 0}, {Kind: "wait"}, {Kind: "verify", Cert: 0}}},
		// hack hash: the key set of one minute earlier
		{Mainnet: true, Epoch: e, Genesis: g8, Ops: append(append([]mbr.Op{}, ops8...), mbr.Op{Kind: "REMOVE", Signer: 3, Ts: e + 3*mbr.Day + 14*mbr.Hour, Tx: 80}), MaxSig: 9,
			Certs: []CertSpec{
				{SignTs: e + 3*mbr.Day + 14*mbr.Hour - 1, SnapTs: e + 3*mbr.Day + 14*mbr.Hour + 30*mbr.Second, Round: 1, Info: 1, Pick: 1, Size: 1, Version: uint8(v), Hash: -1, Present: -1},
				{SignTs: e + 3*mbr.Day + 14*mbr.Hour - 1, SnapTs: e + 3*mbr.Day + 14*mbr.Hour + 30*mbr.Second, Round: 1, Info: 1, Pick: 2, Size: 1, Version: uint8(v), Hash: 5, Present: 5},
			},
			Steps: []Step{{Kind: "verify", Cert: 0}, {Kind: "verify", Cert: 1}, {Kind: "wait"}, {Kind: "verify", Cert: 0}, {Kind: "verify", Cert: 1}}},
	}
}

func main() {
	c := vh.Start("C09")
	c.Rep.Rule = "corpus (every forgery kind on one history, cache key vs ids, legacy pre-fork retry, reload between repeats, hack hash), " +
		"then random cases: 7..11 (1/10: 3..6) genesis nodes, 0..6 lifecycle operations through the real writers (half of them inside the " +
		"13..19 h window), optional later operations applied by a reload in mid-sequence; 3..6 certificates per case signed with the real " +
		"CoSi code by a random subset (threshold, threshold+-1, all) of the key set at the snapshot time (or of another time / the window " +
		"start / one minute earlier), forged in 7/11 of the cases (mask flip/high bit/swap/zero, one wrong share, signature R or s bit), " +
		"hash changed, hack hash, wrong version, missing signature; 6..12 steps verifying them repeatedly with cache waits. " +
		"Non-trivial = at least one certificate accepted and at least one repeated verification; distinct by the whole case."
	var closeStore func()
	store, closeStore = mbr.OpenStore("c09")
	defer closeStore()
	if c.Replay != "" {
		var cs Case
		c.ReplayCase(&cs)
		run(c, cs)
		c.Finish()
		return
	}
	for _, cs := range corpus() {
		run(c, cs)
	}
	n := c.Scale(150, 4000)
	for i := 0; i < n; i++ {
		run(c, genCase(c))
	}
	c.Finish()
}

var _ = bits.OnesCount64
