// C03 harness: histories of lock / write / finalize calls on a REAL Badger
// store (fresh temp directory per history), a dump of the lock, body,
// finalization and key-binding families after every call, the property oracle
// on each call, and the same histories as Coq cases for Model/Locks.v.
// Concurrent part: after a sequential prefix a batch of lock requests is issued
// from 8 goroutines; the oracle checks winners/losers/finalized/bodies, a
// sequential order explaining results + final dump is searched, and that order
// is validated by the model.
package main

import (
	"fmt"

	"verifharness/c03lib"
	"verifharness/vh"
)

func corpus() []*c03lib.History {
	var hs []*c03lib.History
	dp := c03lib.DepositPool()
	// unique key text of every pool deposit (incl. ids with ':')
	for i := range dp {
		d := dp[i]
		hs = append(hs, &c03lib.History{Kind: "corpus-render", Render: &d})
	}
	big := dp[0]
	big.Index = 18446744073709551615
	hs = append(hs, &c03lib.History{Kind: "corpus-render", Render: &big})

	g := func() []c03lib.TxSpec {
		return []c03lib.TxSpec{
			{Kind: "genesis", Tag: "g0", Outs: [][]int{{0}, {1}, {2}}},
			{Kind: "script", Tag: "a", Ins: []c03lib.SlotRef{{Tx: 0, Index: 0}, {Tx: 0, Index: 1}}, Outs: [][]int{{3}}},
			{Kind: "script", Tag: "b", Ins: []c03lib.SlotRef{{Tx: 0, Index: 2}, {Tx: 0, Index: 1}}, Outs: [][]int{{4}}},
			{Kind: "script", Tag: "c", Ins: []c03lib.SlotRef{{Tx: 0, Index: 0}}, Outs: [][]int{{5}}},
			{Kind: "deposit", Tag: "d1", Dep: &dp[0], Outs: [][]int{{6}}},
			{Kind: "deposit", Tag: "d2", Dep: &dp[0], Outs: [][]int{{7}}},
			{Kind: "deposit", Tag: "d3", Dep: &dp[4], Outs: [][]int{{8}}},
			{Kind: "mint", Tag: "m1", Batch: 7, Amount: 1, Outs: [][]int{{9}}},
			{Kind: "mint", Tag: "m2", Batch: 7, Amount: 2, Outs: [][]int{{}}},
		}
	}
	seed := []c03lib.OpSpec{{Op: "writetx", Tx: 0}, {Op: "finalize", Txs: []int{0}}}
	with := func(kind string, ops ...c03lib.OpSpec) {
		hs = append(hs, &c03lib.History{Kind: kind, NKeys: 10, Txs: g(), Ops: append(append([]c03lib.OpSpec{}, seed...), ops...)})
	}
	// all-or-nothing: b conflicts with a on its SECOND input only
	with("corpus-multi",
		c03lib.OpSpec{Op: "lockinputs", Tx: 1}, c03lib.OpSpec{Op: "lockinputs", Tx: 2},
		c03lib.OpSpec{Op: "lockinputs", Tx: 1}, c03lib.OpSpec{Op: "lockinputs", Tx: 3})
	// takeover of a pending holder removes its body; of a finalized one is refused
	with("corpus-takeover",
		c03lib.OpSpec{Op: "lockinputs", Tx: 1}, c03lib.OpSpec{Op: "writetx", Tx: 1},
		c03lib.OpSpec{Op: "lockinputs", Tx: 2, Fork: true}, c03lib.OpSpec{Op: "writetx", Tx: 2},
		c03lib.OpSpec{Op: "writetx", Tx: 1},
		c03lib.OpSpec{Op: "finalize", Txs: []int{2}},
		c03lib.OpSpec{Op: "lockinputs", Tx: 1, Fork: true}, c03lib.OpSpec{Op: "lockinputs", Tx: 3, Fork: true},
		c03lib.OpSpec{Op: "lockinputs", Tx: 1, Fork: true})
	with("corpus-deposit",
		c03lib.OpSpec{Op: "lockinputs", Tx: 4}, c03lib.OpSpec{Op: "lockinputs", Tx: 5}, c03lib.OpSpec{Op: "lockinputs", Tx: 6},
		c03lib.OpSpec{Op: "lockinputs", Tx: 4}, c03lib.OpSpec{Op: "writetx", Tx: 4},
		c03lib.OpSpec{Op: "lockinputs", Tx: 5, Fork: true}, c03lib.OpSpec{Op: "writetx", Tx: 5},
		c03lib.OpSpec{Op: "finalize", Txs: []int{5}}, c03lib.OpSpec{Op: "lockinputs", Tx: 4, Fork: true},
		c03lib.OpSpec{Op: "lockdeposit", Dep: &dp[1], As: "tx:4"}, c03lib.OpSpec{Op: "lockdeposit", Dep: &dp[3], As: "tx:4"},
		c03lib.OpSpec{Op: "lockdeposit", Dep: &dp[2], As: "zero"}, c03lib.OpSpec{Op: "lockdeposit", Dep: &dp[2], As: "tx:4"})
	with("corpus-mint",
		c03lib.OpSpec{Op: "lockinputs", Tx: 7}, c03lib.OpSpec{Op: "lockinputs", Tx: 8}, c03lib.OpSpec{Op: "lockinputs", Tx: 7},
		c03lib.OpSpec{Op: "lockmint", Batch: 7, Amount: 2, As: "tx:7"}, c03lib.OpSpec{Op: "writetx", Tx: 7},
		c03lib.OpSpec{Op: "lockmint", Batch: 7, Amount: 2, As: "tx:7", Fork: true}, c03lib.OpSpec{Op: "writetx", Tx: 7},
		c03lib.OpSpec{Op: "lockinputs", Tx: 8, Fork: true}, c03lib.OpSpec{Op: "writetx", Tx: 8}, c03lib.OpSpec{Op: "finalize", Txs: []int{8}},
		c03lib.OpSpec{Op: "lockinputs", Tx: 7, Fork: true})
	with("corpus-edges",
		c03lib.OpSpec{Op: "lockutxos", Slots: []c03lib.SlotRef{{Tx: 0, Index: 1024}}, As: "tx:1"},
		c03lib.OpSpec{Op: "lockutxos", Slots: []c03lib.SlotRef{{Tx: 0, Index: 0}, {Tx: 0, Index: 1025}}, As: "tx:1"},
		c03lib.OpSpec{Op: "lockutxos", Slots: []c03lib.SlotRef{{Tx: 0, Index: 0}}, As: "zero"},
		c03lib.OpSpec{Op: "lockutxos", Slots: []c03lib.SlotRef{{Tx: 0, Index: 0}}, As: "tx:1"},
		c03lib.OpSpec{Op: "lockutxos", Slots: []c03lib.SlotRef{{Tx: 0, Index: 0}}, As: "zero"},
		c03lib.OpSpec{Op: "lockutxos", Slots: []c03lib.SlotRef{{Tx: 0, Index: 0}}, As: "zero", Fork: true},
		c03lib.OpSpec{Op: "lockutxos", Slots: nil, As: "tx:1"},
		c03lib.OpSpec{Op: "lockinputs", Tx: 0}, c03lib.OpSpec{Op: "writetx", Tx: 2}, c03lib.OpSpec{Op: "finalize", Txs: []int{3}},
		c03lib.OpSpec{Op: "finalize", Txs: []int{0}})
	// slot identity over the whole index range: one transaction with the most
	// outputs the encoding allows (slots 0..255 of ONE hash); requests for
	// indexes congruent to existing ones mod 128 / 256 / 512 / 1024 must be
	// "not found" and must not touch the existing slot
	wideOuts := [][]int{{0}, {1}}
	for len(wideOuts) < 256 {
		wideOuts = append(wideOuts, []int{})
	}
	wtx := func() []c03lib.TxSpec {
		return []c03lib.TxSpec{
			{Kind: "genesis", Tag: "wide", Outs: wideOuts},
			{Kind: "script", Tag: "w0", Ins: []c03lib.SlotRef{{Tx: 0, Index: 0}}, Outs: [][]int{{3}}},
			{Kind: "script", Tag: "w256", Ins: []c03lib.SlotRef{{Tx: 0, Index: 256}}, Outs: [][]int{{4}}},
			{Kind: "script", Tag: "w255", Ins: []c03lib.SlotRef{{Tx: 0, Index: 255}, {Tx: 0, Index: 1}}, Outs: [][]int{{5}}},
			{Kind: "script", Tag: "w1024", Ins: []c03lib.SlotRef{{Tx: 0, Index: 1024}}, Outs: [][]int{{6}}},
			{Kind: "script", Tag: "w128", Ins: []c03lib.SlotRef{{Tx: 0, Index: 128}, {Tx: 0, Index: 127}}, Outs: [][]int{{7}}},
		}
	}
	one := func(i uint, as string, fork bool) c03lib.OpSpec {
		return c03lib.OpSpec{Op: "lockutxos", Slots: []c03lib.SlotRef{{Tx: 0, Index: i}}, As: as, Fork: fork}
	}
	wide := func(kind string, ops ...c03lib.OpSpec) {
		hs = append(hs, &c03lib.History{Kind: kind, NKeys: 10, Txs: wtx(), Ops: append(append([]c03lib.OpSpec{}, seed...), ops...)})
	}
	wide("corpus-index-256",
		one(256, "tx:2", false), one(512, "tx:2", false), one(768, "tx:2", false), one(1024, "tx:4", false),
		c03lib.OpSpec{Op: "lockinputs", Tx: 2}, c03lib.OpSpec{Op: "lockinputs", Tx: 4},
		c03lib.OpSpec{Op: "lockinputs", Tx: 1}, c03lib.OpSpec{Op: "writetx", Tx: 1},
		one(256, "tx:2", true), one(512, "tx:2", true), one(1024, "tx:4", true),
		c03lib.OpSpec{Op: "lockinputs", Tx: 2, Fork: true}, c03lib.OpSpec{Op: "writetx", Tx: 1})
	wide("corpus-index-255",
		one(255, "tx:3", false), one(511, "tx:1", false), one(511, "tx:1", true), one(767, "tx:1", true), one(1023, "tx:1", true),
		one(257, "tx:1", false), one(1, "tx:3", false), one(257, "tx:1", true), one(513, "tx:1", true),
		c03lib.OpSpec{Op: "lockinputs", Tx: 3}, c03lib.OpSpec{Op: "writetx", Tx: 3})
	wide("corpus-index-128",
		one(127, "tx:5", false), one(128, "tx:5", false), one(129, "tx:1", false), one(383, "tx:1", true), one(384, "tx:1", true),
		c03lib.OpSpec{Op: "lockinputs", Tx: 5}, c03lib.OpSpec{Op: "writetx", Tx: 5},
		one(0, "tx:1", false), one(128, "tx:1", true), one(256, "tx:1", true), one(0, "tx:5", false))

	// concurrent: three ordinary contenders and one fork contender on shared slots
	hs = append(hs, &c03lib.History{Kind: "corpus-conc", NKeys: 10, Txs: g(), Ops: seed, Conc: []c03lib.OpSpec{
		{Op: "lockinputs", Tx: 1}, {Op: "lockinputs", Tx: 2}, {Op: "lockinputs", Tx: 3},
		{Op: "lockinputs", Tx: 1}, {Op: "lockinputs", Tx: 4}, {Op: "lockinputs", Tx: 5},
		{Op: "lockinputs", Tx: 7}, {Op: "lockinputs", Tx: 8}, {Op: "lockinputs", Tx: 3, Fork: true},
	}})
	return hs
}

func main() {
	c := vh.Start("C03")
	c.Rep.Rule = "history = small world (2 genesis, 4-6 spends over their outputs, deposits from a pool differing only in chain / tx id / index incl. ids with ':', mints on 2 batches, 10 output keys; every 4th world has a 256-output transaction and requests over indexes 0..InputIndexLimit+1 incl. 0/128/256/512/1024, 1/257, 255/511) + up to 40 calls drawn with a state-aware bias (lock inputs 36%, write 16%, finalize 10%, raw lock calls with foreign/zero/exception callers and out-of-range indices 26%, key locks 9%), every call on a real Badger store with a dump after it; concurrent histories add a batch of 9-14 lock/finalize calls from 8 goroutines. Non-trivial: at least two calls changed the store; distinct: the sequence of (call kind, result class) plus final sizes."
	if c.Replay != "" {
		var h c03lib.History
		c.ReplayCase(&h)
		c03lib.RunHistory(c, &h)
		c.Finish()
		return
	}
	hs := corpus()
	nseq := c.Scale(110, 3500)
	nconc := c.Scale(60, 2000)
	rs := c.Rng.Fork("seq")
	for i := 0; i < nseq; i++ {
		hs = append(hs, c03lib.GenHistoryW(rs, "seq", c03lib.WeightsC03, rs.Range(12, 40), 0, i%4 == 3))
	}
	rc := c.Rng.Fork("conc")
	for i := 0; i < nconc; i++ {
		hs = append(hs, c03lib.GenHistoryW(rc, "conc", c03lib.WeightsC03, rc.Range(4, 16), rc.Range(9, 14), i%5 == 4))
	}
	c03lib.RunAll(c, hs, c03lib.Workers)
	c.Note(fmt.Sprintf("goroutines per concurrent batch: %d", c03lib.Goroutines))
	c.Finish()
}
