package crashlib

import (
	"encoding/json"
	"flag"
	"fmt"
	"os"
	"runtime/debug"
	"strings"

	"github.com/MixinNetwork/mixin/common"
	"github.com/MixinNetwork/mixin/crypto"
	"github.com/MixinNetwork/mixin/kernel"
	"github.com/MixinNetwork/mixin/logger"
	"github.com/MixinNetwork/mixin/storage"
	"github.com/dgraph-io/ristretto/v2"
)

func newCache() *ristretto.Cache[[]byte, any] {
	cache, err := ristretto.NewCache(&ristretto.Config[[]byte, any]{NumCounters: 1e5, MaxCost: 1 << 26, BufferItems: 64})
	must(err)
	return cache
}

func readSpec(path string) *Spec {
	b, err := os.ReadFile(path)
	must(err)
	var sp Spec
	must(json.Unmarshal(b, &sp))
	return &sp
}

// ChildRun executes the workload against dir and exits at the requested crash
// point (exit code CrashExitCode) or after the last step (exit code 0).
func ChildRun(args []string) {
	fs := flag.NewFlagSet("child-run", flag.ExitOnError)
	dir := fs.String("dir", "", "")
	specPath := fs.String("spec", "", "")
	mode := fs.String("mode", "none", "")
	k := fs.Int("k", 0, "")
	tracePath := fs.String("trace", "", "")
	logPath := fs.String("log", "", "")
	fs.Parse(args)

	logger.SetLevel(0)
	spec := readSpec(*specPath)
	env := NewEnv(spec.Nodes)
	kernel.VerifC21MockRunAggregators(true)
	custom := env.Custom()
	inner, err := storage.NewBadgerStore(custom, *dir)
	must(err)
	store := NewCrashStore(inner, env, *mode, *k, *tracePath)
	node, err := kernel.SetupNode(custom, store, newCache(), env.Gns)
	must(err)
	r := NewRunner(env, node, store, spec)
	total0 := ""
	if _, bal, err := inner.ReadAssetWithBalance(common.XINAssetId); err == nil {
		total0 = bal.String()
	}
	store.Activate()
	r.Run()
	if *logPath != "" {
		b, _ := json.Marshal(map[string]any{"log": r.Log, "total0": total0})
		os.WriteFile(*logPath, b, 0o644)
	}
	store.trace.Sync()
	// no Close: even the complete run ends like a crash right after the last call
	os.Exit(0)
}

// Recovered is what the restarted node shows.
type Recovered struct {
	Setup      string   `json:"setup"` // "ok" | "error" | "panic"
	Detail     string   `json:"detail,omitempty"`
	Total      int      `json:"total"`
	Invalid    int      `json:"invalid"`
	ValidErr   string   `json:"valid_err,omitempty"`
	Marker     string   `json:"marker"` // hash of ReadLastConsensusSnapshot
	MarkerTs   uint64   `json:"marker_ts"`
	TopoCount  int      `json:"topo_count"`
	TopoLast   uint64   `json:"topo_last"`
	NodeTopo   uint64   `json:"node_topo"`
	LastMint   uint64   `json:"last_mint"`          // Node.LastMint after SetupNode
	XinTotal   string   `json:"xin_total"`          // ReadAssetWithBalance(XIN)
	Problems   []string `json:"problems,omitempty"` // scan: finalized tx without body/outputs/finalization, duplicate positions
	Finalized  int      `json:"finalized"`
	SnapHashes []string `json:"-"`
}

// ChildRecover restarts a node with the real SetupNode on dir and writes what
// it observes.  A panic inside SetupNode is caught; a panic in a goroutine
// started by it kills this process (the parent reads that as a failed restart).
func ChildRecover(args []string) {
	fs := flag.NewFlagSet("child-recover", flag.ExitOnError)
	dir := fs.String("dir", "", "")
	specPath := fs.String("spec", "", "")
	out := fs.String("out", "", "")
	fs.Parse(args)

	logger.SetLevel(0)
	spec := readSpec(*specPath)
	env := NewEnv(spec.Nodes)
	kernel.VerifC21MockRunAggregators(true)
	custom := env.Custom()
	res := &Recovered{}
	write := func() {
		b, _ := json.Marshal(res)
		must(os.WriteFile(*out, b, 0o644))
	}
	store, err := storage.NewBadgerStore(custom, *dir)
	if err != nil {
		res.Setup, res.Detail = "error", "open store: "+err.Error()
		write()
		os.Exit(0)
	}
	var node *kernel.Node
	func() {
		defer func() {
			if rec := recover(); rec != nil {
				res.Setup = "panic"
				res.Detail = fmt.Sprintf("%v | %s", rec, firstFrames(string(debug.Stack())))
			}
		}()
		n, err := kernel.SetupNode(custom, store, newCache(), env.Gns)
		if err != nil {
			res.Setup, res.Detail = "error", err.Error()
			return
		}
		node = n
		res.Setup = "ok"
	}()
	if res.Setup != "ok" {
		write()
		os.Exit(0)
	}
	scan(res, store, node, env)
	write()
	os.Exit(0)
}

// firstFrames keeps the repository functions of a stack trace, innermost first.
func firstFrames(s string) string {
	var fr []string
	for _, ln := range strings.Split(s, "\n") {
		if strings.HasPrefix(ln, "github.com/MixinNetwork/mixin/") {
			f := strings.TrimPrefix(ln, "github.com/MixinNetwork/mixin/")
			if i := strings.LastIndex(f, "("); i > 0 {
				f = f[:i]
			}
			fr = append(fr, f)
			if len(fr) == 6 {
				break
			}
		}
	}
	return strings.Join(fr, " < ")
}

func scan(res *Recovered, store *storage.BadgerStore, node *kernel.Node, env *Env) {
	func() {
		defer func() {
			if rec := recover(); rec != nil {
				res.ValidErr = fmt.Sprintf("panic: %v", rec)
			}
		}()
		total, invalid, err := store.ValidateGraphEntries(env.NetworkId, 1<<40)
		res.Total, res.Invalid = total, invalid
		if err != nil {
			res.ValidErr = err.Error()
		}
	}()
	last, err := store.ReadLastConsensusSnapshot()
	if err != nil || last == nil {
		res.Problems = append(res.Problems, fmt.Sprintf("marker unreadable: %v", err))
	} else {
		res.Marker = last.PayloadHash().String()
		res.MarkerTs = last.Timestamp
	}
	res.NodeTopo = node.TopologicalOrder()
	res.LastMint = node.LastMint
	if _, bal, err := store.ReadAssetWithBalance(common.XINAssetId); err == nil {
		res.XinTotal = bal.String()
	} else {
		res.Problems = append(res.Problems, "asset total unreadable: "+err.Error())
	}

	seenSnap := map[crypto.Hash]uint64{}
	seenTx := map[crypto.Hash]bool{}
	var spent []spentInput
	offset := uint64(0)
	expect := uint64(0)
	for {
		snaps, err := store.ReadSnapshotsSinceTopology(offset, 500)
		if err != nil {
			res.Problems = append(res.Problems, "topology read: "+err.Error())
			break
		}
		if len(snaps) == 0 {
			break
		}
		for _, s := range snaps {
			res.TopoCount++
			res.TopoLast = s.TopologicalOrder
			if s.TopologicalOrder != expect {
				res.Problems = append(res.Problems, fmt.Sprintf("topology-gap: position %d where %d expected", s.TopologicalOrder, expect))
			}
			expect = s.TopologicalOrder + 1
			h := s.PayloadHash()
			if p, dup := seenSnap[h]; dup {
				res.Problems = append(res.Problems, fmt.Sprintf("topology-dup: snapshot %s at positions %d and %d", short(h), p, s.TopologicalOrder))
			}
			seenSnap[h] = s.TopologicalOrder
			back, err := store.ReadSnapshot(h)
			if err != nil || back == nil {
				res.Problems = append(res.Problems, fmt.Sprintf("topology-index: snapshot %s at %d has no reverse index (%v)", short(h), s.TopologicalOrder, err))
			} else if back.TopologicalOrder != s.TopologicalOrder {
				res.Problems = append(res.Problems, fmt.Sprintf("topology-index: snapshot %s at %d indexed as %d", short(h), s.TopologicalOrder, back.TopologicalOrder))
			}
			for _, th := range s.Transactions {
				if seenTx[th] {
					continue
				}
				seenTx[th] = true
				res.Finalized++
				spent = append(spent, checkFinalizedTx(res, store, th, h)...)
			}
		}
		offset = snaps[len(snaps)-1].TopologicalOrder + 1
	}
	// an output consumed by a finalized transaction must stay consumed (checked last: a successful
	// lock would change the store)
	other := crypto.Blake3Hash([]byte("c22-another-transaction"))
	for _, sp := range spent {
		err := store.LockUTXOs([]*common.Input{sp.in}, other, false)
		if err == nil {
			res.Problems = append(res.Problems, fmt.Sprintf("tx-outputs: output %d of %s, spent by finalized transaction %s, can be locked by another transaction",
				sp.in.Index, short(sp.in.Hash), short(sp.by)))
		}
	}
	if res.TopoCount > 0 && res.NodeTopo != res.TopoLast {
		res.Problems = append(res.Problems, fmt.Sprintf("topology-counter: node resumes at %d, last stored position %d", res.NodeTopo, res.TopoLast))
	}
}

type spentInput struct {
	in *common.Input
	by crypto.Hash
}

// checkFinalizedTx: th was first finalized by snapshot `first` (topology order).
func checkFinalizedTx(res *Recovered, store *storage.BadgerStore, th, first crypto.Hash) (spent []spentInput) {
	defer func() {
		if rec := recover(); rec != nil {
			res.Problems = append(res.Problems, fmt.Sprintf("tx-scan-panic %s: %v", short(th), rec))
		}
	}()
	tx, fin, err := store.ReadTransaction(th)
	if err != nil || tx == nil {
		res.Problems = append(res.Problems, fmt.Sprintf("tx-body: finalized transaction %s has no stored body (%v)", short(th), err))
		return
	}
	if tx.PayloadHash() != th {
		res.Problems = append(res.Problems, fmt.Sprintf("tx-body: transaction %s stored under another hash", short(th)))
	}
	if fin == "" {
		res.Problems = append(res.Problems, fmt.Sprintf("tx-finalization: finalized transaction %s has no finalization record", short(th)))
	} else if fin != first.String() {
		res.Problems = append(res.Problems, fmt.Sprintf("tx-finalization: record of %s names snapshot %s, it was first finalized by %s", short(th), fin[:12], short(first)))
	}
	for _, u := range tx.UnspentOutputs() {
		out, err := store.ReadUTXOLock(u.Hash, u.Index)
		if err != nil || out == nil {
			res.Problems = append(res.Problems, fmt.Sprintf("tx-outputs: output %d of finalized transaction %s is not stored (%v)", u.Index, short(th), err))
		}
	}
	for _, in := range tx.Inputs {
		if in.Deposit != nil || in.Mint != nil || len(in.Genesis) > 0 || !in.Hash.HasValue() {
			continue
		}
		out, err := store.ReadUTXOLock(in.Hash, in.Index)
		if err != nil || out == nil {
			res.Problems = append(res.Problems, fmt.Sprintf("tx-outputs: input %s:%d of finalized transaction %s is not stored (%v)", short(in.Hash), in.Index, short(th), err))
			continue
		}
		if out.LockHash != th {
			res.Problems = append(res.Problems, fmt.Sprintf("tx-outputs: output %d of %s is consumed by finalized transaction %s but its stored lock is %s",
				in.Index, short(in.Hash), short(th), short(out.LockHash)))
		}
		spent = append(spent, spentInput{in: in, by: th})
	}
	return
}
