package crashlib

import (
	"encoding/json"
	"flag"
	"fmt"
	"os"
	"path/filepath"
	"sync"
	"time"

	"github.com/MixinNetwork/mixin/common"
	"github.com/MixinNetwork/mixin/crypto"
	"github.com/MixinNetwork/mixin/kernel"
	"github.com/MixinNetwork/mixin/logger"
	"github.com/MixinNetwork/mixin/storage"
	"verifharness/vh"
)

// Concurrent mode: two chain loops finalize at the same time.  Chain A finalizes a
// consensus-class snapshot, chain B an ordinary one, each from its own goroutine through the
// real finalization handler (Chain.cosiHandleAction -> AddSnapshot -> Node.TopoWrite ->
// Store.WriteSnapshot).  The decorator holds A's WriteSnapshot call until B's WriteSnapshot has
// returned or a timeout expired (on the unchanged code B waits for the topology counter lock A
// holds, so the timeout is the normal path), forwards it, and stops the process right after it
// returned - before A's marker write.

const SigOvertaken = "consensus-overtaken-by-earlier-committed-snapshot"

// ConcCase: all steps of Spec other than A and B run first, sequentially.
type ConcCase struct {
	A     int    `json:"a"`     // consensus-class step
	B     int    `json:"b"`     // ordinary step of another chain
	Order string `json:"order"` // overlap | b-first | b-after-marker
	Hold  int    `json:"hold_ms"`
}

// ConcObs is what the decorator saw before it stopped the process.
type ConcObs struct {
	AHash         string `json:"a_hash"`
	ANum          uint64 `json:"a_num"` // topology number A's WriteSnapshot was called with
	BCalled       bool   `json:"b_called"`
	BNum          uint64 `json:"b_num"`
	BCommitBefore bool   `json:"b_committed_before_a"` // B's WriteSnapshot had returned when A's was forwarded
	TimedOut      bool   `json:"timed_out"`
	AMarker       bool   `json:"a_marker_written"`
	StopAfter     string `json:"stop_after"`
}

type concCtl struct {
	mu      sync.Mutex
	order   string
	hold    time.Duration
	aHash   crypto.Hash
	entered chan struct{}
	bDone   chan struct{}
	bOnce   sync.Once
	obs     ConcObs
	bDid    bool
	obsPath string
}

func (c *concCtl) stop() {
	b, _ := json.Marshal(c.obs)
	must(os.WriteFile(c.obsPath, b, 0o644))
	os.Exit(CrashExitCode)
}

func (s *CrashStore) concWriteSnapshot(snap *common.SnapshotWithTopologicalOrder, signers []crypto.Hash) error {
	c := s.conc
	if snap.PayloadHash() == c.aHash {
		close(c.entered)
		if c.order == "overlap" {
			select {
			case <-c.bDone:
			case <-time.After(c.hold):
				c.mu.Lock()
				c.obs.TimedOut = true
				c.mu.Unlock()
			}
		}
		c.mu.Lock()
		c.obs.ANum = snap.TopologicalOrder
		c.obs.BCommitBefore = c.bDid
		err := s.Store.WriteSnapshot(snap, signers)
		if err != nil {
			panic(err)
		}
		if c.order != "b-after-marker" {
			c.obs.StopAfter = "A.WriteSnapshot"
			c.stop() // the process stops at this call boundary
		}
		c.mu.Unlock()
		return nil
	}
	c.mu.Lock()
	c.obs.BCalled, c.obs.BNum = true, snap.TopologicalOrder
	err := s.Store.WriteSnapshot(snap, signers)
	if err != nil {
		panic(err)
	}
	c.bDid = true
	if c.order == "b-after-marker" {
		c.obs.StopAfter = "B.WriteSnapshot"
		c.stop()
	}
	c.mu.Unlock()
	c.bOnce.Do(func() { close(c.bDone) })
	return nil
}

// ChildConc runs the prelude, then A and B as ordered, and never returns normally.
func ChildConc(args []string) {
	fs := flag.NewFlagSet("child-conc", flag.ExitOnError)
	dir := fs.String("dir", "", "")
	specPath := fs.String("spec", "", "")
	a := fs.Int("a", 0, "")
	b := fs.Int("b", 0, "")
	order := fs.String("order", "overlap", "")
	hold := fs.Int("hold", 2000, "")
	obsPath := fs.String("obs", "", "")
	fs.Parse(args)

	logger.SetLevel(0)
	spec := readSpec(*specPath)
	env := NewEnv(spec.Nodes)
	kernel.VerifC21MockRunAggregators(true)
	custom := env.Custom()
	inner, err := storage.NewBadgerStore(custom, *dir)
	must(err)
	store := NewCrashStore(inner, env, "none", 0, filepath.Join(filepath.Dir(*obsPath), "conc.trace"))
	node, err := kernel.SetupNode(custom, store, newCache(), env.Gns)
	must(err)
	r := NewRunner(env, node, store, spec)
	for i := range spec.Steps {
		if i != *a && i != *b && !spec.Steps[i].Nested {
			r.runStep(i)
		}
	}
	pa := r.prepare(*a)
	if pa == nil {
		fmt.Fprintln(os.Stderr, "cannot prepare A:", r.Log)
		os.Exit(3)
	}
	r.host = pa.chainIdx // B belongs to another chain
	pb := r.prepare(*b)
	r.host = -1
	if pb == nil {
		fmt.Fprintln(os.Stderr, "cannot prepare B:", r.Log)
		os.Exit(3)
	}
	ctl := &concCtl{order: *order, hold: time.Duration(*hold) * time.Millisecond, aHash: pa.s.Hash,
		entered: make(chan struct{}), bDone: make(chan struct{}), obsPath: *obsPath}
	ctl.obs.AHash = pa.s.Hash.String()
	store.conc = ctl
	switch *order {
	case "overlap":
		var wg sync.WaitGroup
		wg.Add(2)
		go func() { defer wg.Done(); r.finalize(pa) }()
		go func() { defer wg.Done(); <-ctl.entered; r.finalize(pb) }()
		wg.Wait()
	case "b-first":
		r.finalize(pb)
		r.finalize(pa)
	case "b-after-marker":
		r.finalize(pa)
		ctl.mu.Lock()
		ctl.obs.AMarker = true
		ctl.mu.Unlock()
		r.finalize(pb)
	default:
		panic(*order)
	}
	// A's (or B's) WriteSnapshot was never reached: the steps did not finalize
	fmt.Fprintln(os.Stderr, "concurrent steps did not reach the stop:", r.Log)
	os.Exit(4)
}

// ---- parent side -----------------------------------------------------------------------

type concOut struct {
	name string
	spec Spec
	cc   ConcCase
	code int
	out  string
	obs  *ConcObs
	rec  *Recovered
}

// execConc runs the two child processes of one concurrent case (no access to the report).
func execConc(name string, spec Spec, cc ConcCase) *concOut {
	if cc.Hold == 0 {
		cc.Hold = 2000
	}
	o := &concOut{name: name, spec: spec, cc: cc}
	root, err := os.MkdirTemp("", "verif_c21c_")
	must(err)
	defer os.RemoveAll(root)
	specPath := filepath.Join(root, "spec.json")
	sb, _ := json.Marshal(spec)
	must(os.WriteFile(specPath, sb, 0o644))
	dir := filepath.Join(root, "d")
	must(os.MkdirAll(dir, 0o755))
	obsPath := filepath.Join(root, "obs.json")
	recPath := filepath.Join(root, "rec.json")
	o.code, o.out = runChild("child-conc", "--dir", dir, "--spec", specPath, "--a", fmt.Sprint(cc.A), "--b", fmt.Sprint(cc.B),
		"--order", cc.Order, "--hold", fmt.Sprint(cc.Hold), "--obs", obsPath)
	var obs ConcObs
	ob, err := os.ReadFile(obsPath)
	if o.code != CrashExitCode || err != nil || json.Unmarshal(ob, &obs) != nil {
		return o
	}
	o.obs = &obs
	runChild("child-recover", "--dir", dir, "--spec", specPath, "--out", recPath)
	if b, err := os.ReadFile(recPath); err == nil {
		var r Recovered
		if json.Unmarshal(b, &r) == nil {
			o.rec = &r
		}
	}
	return o
}

func (h *Harness) RunConc(name string, spec Spec, cc ConcCase) { h.judgeConc(execConc(name, spec, cc)) }

func (h *Harness) judgeConc(o *concOut) {
	c := h.C
	name, cc := o.name, o.cc
	cs := CaseJS{Property: h.Prop, Workload: name, Spec: o.spec, Mode: "conc", Conc: &cc}
	key := fmt.Sprintf("%s|conc|%d|%d|%s|%d", name, cc.A, cc.B, cc.Order, cc.Hold)
	if o.obs == nil {
		c.Note(fmt.Sprintf("%s: concurrent run did not reach its stop (exit %d): %s", key, o.code, o.out))
		c.Fail("workload-run-failed", fmt.Sprintf("concurrent workload %s did not reach its stop (exit %d): %s", key, o.code, o.out), cs)
		return
	}
	obs, rec := *o.obs, o.rec
	kind := "concurrent:" + cc.Order
	if cc.Order == "overlap" {
		if obs.BCommitBefore {
			kind += ",B-committed-first"
		} else {
			kind += ",B-waited"
		}
	}
	ok := rec != nil && rec.Setup == "ok"
	c.Case(kind, key, ok, cs, "")
	where := fmt.Sprintf("concurrent workload %s (%s): A=step %d got topology number %d, B=step %d called=%v number %d committed-before-A=%v, process stopped right after %s",
		name, cc.Order, cc.A, obs.ANum, cc.B, obs.BCalled, obs.BNum, obs.BCommitBefore, obs.StopAfter)
	if !ok && cc.A < len(o.spec.Steps) && o.spec.Steps[cc.A].Kind == "accept" {
		// the stop right after a node-accept snapshot lies inside the accept window (before its two
		// StartNewRound calls): a restart failure there is C22's recorded finding F7, which the
		// sequential mode does not judge under C21 either
		c.Count("restart-fails-inside-accept-window(not judged by C21)")
		return
	}
	if !ok {
		d := "crashed"
		if rec != nil {
			d = rec.Setup + ": " + rec.Detail
		}
		h.fail("restart-failed-after-consensus-finalization", where+": the node does not restart ("+d+")", cs)
		return
	}
	if rec.Marker == obs.AHash {
		return
	}
	what := fmt.Sprintf("%s: consensus snapshot %s was durably finalized, after restart ReadLastConsensusSnapshot = %s", where, obs.AHash[:12], rec.Marker[:12])
	// F6 region: another WriteSnapshot was issued AFTER A's WriteSnapshot completed and before its marker
	// write.  No case of this mode is in it: either the process stops right after A's WriteSnapshot, or
	// A's marker is written before B starts.
	if obs.BCommitBefore && obs.BNum > obs.ANum {
		h.fail(SigOvertaken, what+" (the snapshot with the larger topology number was committed first, so the topology tail is not the consensus snapshot)", cs)
	} else {
		h.fail("consensus-marker-lost", what, cs)
	}
}

// ---- corpus / generated concurrent cases ------------------------------------------------

func concPledge() Spec {
	return Spec{Nodes: 7, Steps: []Step{
		{Kind: "deposit", Chain: 1, Big: true},
		{Kind: "deposit", Chain: 4},
		{Kind: "pledge", Src: []int{0}},
		{Kind: "deposit", Chain: 2},
		{Kind: "dup", Chain: 5, Src: []int{1}},
	}}
}

func concMint() Spec {
	return Spec{Nodes: 7, Steps: []Step{
		{Kind: "deposit", Chain: 1},
		{Kind: "mint"},
		{Kind: "dup", Chain: 3, Src: []int{0}},
		{Kind: "deposit", Chain: 2},
	}}
}

func concAccept() Spec {
	return Spec{Nodes: 7, Steps: []Step{
		{Kind: "deposit", Chain: 3, Big: true},
		{Kind: "pledge", Src: []int{0}},
		{Kind: "deposit", Chain: 5},
		{Kind: "accept", Src: []int{1}},
		{Kind: "dup", Chain: 6, Src: []int{2}},
	}}
}

func (h *Harness) concCases(r *vh.Rand) {
	type cse struct {
		name string
		sp   Spec
		cc   ConcCase
	}
	quick := []cse{
		{"conc-pledge-dup", concPledge(), ConcCase{A: 2, B: 4, Order: "overlap"}},
		{"conc-mint-dup", concMint(), ConcCase{A: 1, B: 2, Order: "overlap"}},
		{"conc-pledge-deposit", concPledge(), ConcCase{A: 2, B: 3, Order: "overlap"}},
		{"conc-pledge-dup", concPledge(), ConcCase{A: 2, B: 4, Order: "b-first"}},
		{"conc-mint-dup", concMint(), ConcCase{A: 1, B: 2, Order: "b-after-marker"}},
	}
	more := []cse{
		{"conc-mint-deposit", concMint(), ConcCase{A: 1, B: 3, Order: "overlap"}},
		{"conc-accept-dup", concAccept(), ConcCase{A: 3, B: 4, Order: "overlap"}},
		{"conc-mint-dup", concMint(), ConcCase{A: 1, B: 2, Order: "b-first"}},
		{"conc-pledge-deposit", concPledge(), ConcCase{A: 2, B: 3, Order: "b-after-marker"}},
		{"conc-accept-dup", concAccept(), ConcCase{A: 3, B: 4, Order: "b-first"}},
		{"conc-pledge-dup", concPledge(), ConcCase{A: 2, B: 4, Order: "overlap", Hold: 300}},
	}
	all := quick
	if h.C.Tier != "quick" {
		all = append(all, more...)
	}
	outs := make([]*concOut, len(all))
	var wg sync.WaitGroup
	sem := make(chan struct{}, h.Workers)
	for i, cs := range all {
		wg.Add(1)
		sem <- struct{}{}
		go func(i int, cs cse) {
			defer wg.Done()
			defer func() { <-sem }()
			outs[i] = execConc(cs.name, cs.sp, cs.cc)
		}(i, cs)
	}
	wg.Wait()
	for _, o := range outs {
		h.judgeConc(o)
	}
	_ = r
}
