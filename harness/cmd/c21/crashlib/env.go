// Package crashlib is the shared machinery of the crash/restart checks C21 and
// C22: a private 7-node network whose keys the harness holds, a decorator of
// storage.Store that counts mutating calls and stops the process at the k-th,
// a workload executor that drives the REAL kernel finalization path
// (Chain.cosiHandleAction) with real CoSi certificates, and the restart
// observer (real kernel.SetupNode on the same Badger directory).
package crashlib

import (
	"encoding/binary"
	"encoding/json"
	"fmt"
	"time"

	"github.com/MixinNetwork/mixin/common"
	"github.com/MixinNetwork/mixin/config"
	"github.com/MixinNetwork/mixin/crypto"
)

const GenesisEpoch = 1551312000 // same epoch as rpc/consensus_test.go

func account(i int, role string) common.Address {
	seed := make([]byte, 64)
	copy(seed, []byte("VERIFC21#"+role+"#"))
	seed[62] = byte(i >> 8)
	seed[63] = byte(i)
	a := common.NewAddressFromSeed(seed)
	a.PrivateViewKey = a.PublicSpendKey.DeterministicHashDerive()
	a.PublicViewKey = a.PrivateViewKey.Public()
	return a
}

// Env is the private network: genesis, keys of every node, id tables.
type Env struct {
	N          int
	Signers    []common.Address
	Payees     []common.Address
	Custodians []common.Address
	Domain     common.Address // custodian domain = holder of every ordinary output
	Gns        *common.Genesis
	NetworkId  crypto.Hash
	Epoch      uint64

	Chains   []crypto.Hash               // chain index -> node id (genesis first, then pledged nodes)
	Privs    map[crypto.Hash]*crypto.Key // node id -> signer private spend key
	GenSnaps []crypto.Hash               // genesis snapshot hashes in topology order
	GenTxs   []crypto.Hash
}

func NewEnv(n int) *Env {
	e := &Env{N: n, Privs: map[crypto.Hash]*crypto.Key{}}
	inputs := make([]map[string]string, 0)
	for i := 0; i < n; i++ {
		e.Signers = append(e.Signers, account(i, "SIGNER"))
		e.Payees = append(e.Payees, account(i, "PAYEE"))
		e.Custodians = append(e.Custodians, account(i, "CUSTODIAN"))
		inputs = append(inputs, map[string]string{
			"signer":    e.Signers[i].String(),
			"payee":     e.Payees[i].String(),
			"custodian": e.Custodians[i].String(),
			"balance":   "13439",
		})
	}
	e.Domain = e.Signers[0]
	g := map[string]any{"epoch": GenesisEpoch, "nodes": inputs, "custodian": e.Domain.String()}
	data, err := json.MarshalIndent(g, "", "  ")
	if err != nil {
		panic(err)
	}
	var gns common.Genesis
	if err := json.Unmarshal(data, &gns); err != nil {
		panic(err)
	}
	e.Gns = &gns
	e.NetworkId = gns.NetworkId()
	e.Epoch = gns.EpochTimestamp()
	for i := range e.Signers {
		id := e.Signers[i].Hash().ForNetwork(e.NetworkId)
		e.Chains = append(e.Chains, id)
		k := e.Signers[i].PrivateSpendKey
		e.Privs[id] = &k
	}
	_, snaps, txs, err := gns.BuildSnapshots()
	if err != nil {
		panic(err)
	}
	for i := range snaps {
		e.GenSnaps = append(e.GenSnaps, snaps[i].PayloadHash())
		e.GenTxs = append(e.GenTxs, txs[i].PayloadHash())
	}
	return e
}

func (e *Env) Custom() *config.Custom {
	c := &config.Custom{}
	c.Node.Signer = e.Signers[0].PrivateSpendKey
	c.Node.KernelOprationPeriod = 700
	c.Node.MemoryCacheSize = 16
	c.Node.CacheTTL = 7200
	return c
}

// Pledger j: the key pair of the j-th node that pledges during a workload.
func (e *Env) Pledger(j int) (signer, payee common.Address) {
	return account(j, "PLEDGESIGNER"), account(j, "PLEDGEPAYEE")
}

func (e *Env) AddPledgedChain(signer common.Address) int {
	id := signer.Hash().ForNetwork(e.NetworkId)
	for i, c := range e.Chains {
		if c == id {
			return i
		}
	}
	e.Chains = append(e.Chains, id)
	k := signer.PrivateSpendKey
	e.Privs[id] = &k
	return len(e.Chains) - 1
}

func (e *Env) ChainIndex(id crypto.Hash) int {
	for i, c := range e.Chains {
		if c == id {
			return i
		}
	}
	return -1
}

// detReader is a deterministic byte source for CoSi nonces (the certificate
// bytes are not part of any hash the workload depends on; determinism only
// makes runs reproducible).
type detReader struct {
	seed crypto.Hash
	ctr  uint64
}

func (r *detReader) Read(b []byte) (int, error) {
	off := 0
	for off < len(b) {
		buf := binary.BigEndian.AppendUint64(r.seed[:], r.ctr)
		h := crypto.Blake3Hash(buf)
		r.ctr++
		off += copy(b[off:], h[:])
	}
	return len(b), nil
}

const (
	hour = uint64(time.Hour)
	day  = 24 * hour
)

func must(err error) {
	if err != nil {
		panic(err)
	}
}

func short(h crypto.Hash) string { return fmt.Sprintf("%x", h[:6]) }
