package crashlib

import (
	"encoding/json"
	"os"

	"github.com/MixinNetwork/mixin/common"
	"github.com/MixinNetwork/mixin/crypto"
	"github.com/MixinNetwork/mixin/storage"
)

const CrashExitCode = 77

// Call is one mutating storage call as seen at the storage.Store interface,
// together with its abstract form (small integer ids) used by the Coq model.
type Call struct {
	I     int      `json:"i"` // 1-based position in the workload's call sequence
	Name  string   `json:"name"`
	Step  int      `json:"step"`
	Tx    int      `json:"tx"`
	Chain int      `json:"chain"`
	Round uint64   `json:"round"`
	Snap  int      `json:"snap"`
	Hash  string   `json:"hash,omitempty"` // snapshot hash (WriteSnapshot / WriteConsensusSnapshot)
	Txs   []int    `json:"txs,omitempty"`
	TxH   []string `json:"txh,omitempty"`
	Cons  bool     `json:"cons,omitempty"`
	Ref   int      `json:"ref"`
	Ts    uint64   `json:"ts,omitempty"`
	// number of separate Badger transactions the call committed on the graph database
	Commits int `json:"commits"`
	// batch of the universal mint the snapshot finalizes (0: not a mint snapshot)
	Mint uint64 `json:"mint,omitempty"`
	// per member transaction: the amount it adds to the asset total when first finalized (deposit, mint), "" otherwise
	Adds []string `json:"adds,omitempty"`
	v0   uint64
}

// CrashStore decorates a storage.Store: every mutating method is counted and
// traced; the process exits right before or right after the k-th one.
type CrashStore struct {
	storage.Store
	env    *Env
	active bool
	count  int
	mode   string // "none" | "before" | "after"
	k      int
	trace  *os.File
	step   int
	txIds  map[crypto.Hash]int
	snIds  map[crypto.Hash]int
	// hook run at the boundary just before a call (after it was counted but
	// before it is forwarded); used to interleave another chain's work.
	Boundary func(c *Call)
	conc     *concCtl // concurrent mode (conc.go): only WriteSnapshot is intercepted
}

func NewCrashStore(inner storage.Store, env *Env, mode string, k int, tracePath string) *CrashStore {
	f, err := os.Create(tracePath)
	must(err)
	s := &CrashStore{Store: inner, env: env, mode: mode, k: k, trace: f, step: -1,
		txIds: map[crypto.Hash]int{}, snIds: map[crypto.Hash]int{}}
	for i, h := range env.GenTxs {
		s.txIds[h] = i
	}
	for i, h := range env.GenSnaps {
		s.snIds[h] = i
	}
	return s
}

// Activate starts counting (after SetupNode) and applies the "after 0" crash.
func (s *CrashStore) Activate() {
	s.active = true
	if s.mode == "after" && s.k == 0 {
		s.exit()
	}
}

func (s *CrashStore) exit() {
	s.trace.Sync()
	os.Exit(CrashExitCode)
}

func (s *CrashStore) txId(h crypto.Hash) int {
	if id, ok := s.txIds[h]; ok {
		return id
	}
	id := len(s.txIds)
	s.txIds[h] = id
	return id
}

func (s *CrashStore) snapId(h crypto.Hash) int {
	if id, ok := s.snIds[h]; ok {
		return id
	}
	id := len(s.snIds)
	s.snIds[h] = id
	return id
}

func (s *CrashStore) enter(c *Call) {
	if !s.active {
		return
	}
	if s.Boundary != nil {
		// nested work of another chain runs first and issues its own counted calls
		s.Boundary(c)
	}
	s.count++
	c.I = s.count
	c.Step = s.step
	if s.mode == "before" && c.I == s.k {
		s.exit()
	}
	if bs, ok := s.Store.(*storage.BadgerStore); ok {
		c.v0 = bs.VerifC22CommitVersion()
	}
}

func (s *CrashStore) leave(c *Call) {
	if !s.active {
		return
	}
	if bs, ok := s.Store.(*storage.BadgerStore); ok {
		c.Commits = int(bs.VerifC22CommitVersion() - c.v0)
	}
	b, _ := json.Marshal(c)
	s.trace.Write(append(b, '\n'))
	if s.mode == "after" && c.I == s.k {
		s.exit()
	}
}

func isConsensusType(t uint8) bool {
	switch t {
	case common.TransactionTypeMint, common.TransactionTypeNodePledge, common.TransactionTypeNodeCancel,
		common.TransactionTypeNodeAccept, common.TransactionTypeNodeRemove,
		common.TransactionTypeCustodianUpdateNodes, common.TransactionTypeCustodianSlashNodes:
		return true
	}
	return false
}

func blank(name string) *Call { return &Call{Name: name, Tx: -1, Chain: -1, Snap: -1, Ref: -1} }

func (s *CrashStore) txCall(name string, h crypto.Hash) *Call {
	c := blank(name)
	c.Tx = s.txId(h)
	return c
}

// ---- mutating methods -------------------------------------------------------

func (s *CrashStore) WriteTransaction(tx *common.VersionedTransaction) error {
	c := s.txCall("WriteTransaction", tx.PayloadHash())
	s.enter(c)
	err := s.Store.WriteTransaction(tx)
	s.leave(c)
	return err
}

func (s *CrashStore) LockUTXOs(inputs []*common.Input, tx crypto.Hash, fork bool) error {
	c := s.txCall("LockUTXOs", tx)
	s.enter(c)
	err := s.Store.LockUTXOs(inputs, tx, fork)
	s.leave(c)
	return err
}

func (s *CrashStore) LockDepositInput(d *common.DepositData, tx crypto.Hash, fork bool) error {
	c := s.txCall("LockDepositInput", tx)
	s.enter(c)
	err := s.Store.LockDepositInput(d, tx, fork)
	s.leave(c)
	return err
}

func (s *CrashStore) LockMintInput(m *common.MintData, tx crypto.Hash, fork bool) error {
	c := s.txCall("LockMintInput", tx)
	s.enter(c)
	err := s.Store.LockMintInput(m, tx, fork)
	s.leave(c)
	return err
}

func (s *CrashStore) LockGhostKeys(keys []*crypto.Key, tx crypto.Hash, fork bool) error {
	c := s.txCall("LockGhostKeys", tx)
	s.enter(c)
	err := s.Store.LockGhostKeys(keys, tx, fork)
	s.leave(c)
	return err
}

func (s *CrashStore) AddNodeOperation(tx *common.VersionedTransaction, timestamp, threshold uint64, finalized bool) error {
	c := s.txCall("AddNodeOperation", tx.PayloadHash())
	s.enter(c)
	err := s.Store.AddNodeOperation(tx, timestamp, threshold, finalized)
	s.leave(c)
	return err
}

func (s *CrashStore) StartNewRound(node crypto.Hash, number uint64, references *common.RoundLink, finalStart uint64) error {
	c := blank("StartNewRound")
	c.Chain, c.Round = s.env.ChainIndex(node), number
	s.enter(c)
	err := s.Store.StartNewRound(node, number, references, finalStart)
	s.leave(c)
	return err
}

func (s *CrashStore) UpdateEmptyHeadRound(node crypto.Hash, number uint64, references *common.RoundLink) error {
	c := blank("UpdateEmptyHeadRound")
	c.Chain, c.Round = s.env.ChainIndex(node), number
	s.enter(c)
	err := s.Store.UpdateEmptyHeadRound(node, number, references)
	s.leave(c)
	return err
}

func (s *CrashStore) WriteSnapshot(snap *common.SnapshotWithTopologicalOrder, signers []crypto.Hash) error {
	if s.conc != nil {
		return s.concWriteSnapshot(snap, signers)
	}
	c := blank("WriteSnapshot")
	h := snap.PayloadHash()
	c.Snap, c.Hash = s.snapId(h), h.String()
	c.Chain, c.Round, c.Ts = s.env.ChainIndex(snap.NodeId), snap.RoundNumber, snap.Timestamp
	for _, th := range snap.Transactions {
		c.Txs = append(c.Txs, s.txId(th))
		c.TxH = append(c.TxH, th.String())
	}
	for _, th := range snap.Transactions {
		add := ""
		if tx, _, err := s.Store.ReadTransaction(th); err == nil && tx != nil {
			switch tx.TransactionType() {
			case common.TransactionTypeDeposit:
				add = tx.DepositData().Amount.String()
			case common.TransactionTypeMint:
				add = tx.Inputs[0].Mint.Amount.String()
			}
			if len(snap.Transactions) == 1 && isConsensusType(tx.TransactionType()) {
				c.Cons = true
				if tx.TransactionType() == common.TransactionTypeMint {
					c.Mint = tx.Inputs[0].Mint.Batch
				}
				if len(tx.References) > 0 {
					c.Ref = s.txId(tx.References[0])
				}
			}
		}
		c.Adds = append(c.Adds, add)
	}
	s.enter(c)
	err := s.Store.WriteSnapshot(snap, signers)
	s.leave(c)
	return err
}

func (s *CrashStore) WriteConsensusSnapshot(snap *common.Snapshot, tx *common.VersionedTransaction, hack *common.Snapshot) error {
	c := blank("WriteConsensusSnapshot")
	h := snap.PayloadHash()
	c.Snap, c.Hash = s.snapId(h), h.String()
	c.Tx = s.txId(tx.PayloadHash())
	s.enter(c)
	err := s.Store.WriteConsensusSnapshot(snap, tx, hack)
	s.leave(c)
	return err
}

func (s *CrashStore) CacheStoreTransaction(tx *common.VersionedTransaction) error {
	c := s.txCall("CacheStoreTransaction", tx.PayloadHash())
	s.enter(c)
	err := s.Store.CacheStoreTransaction(tx)
	s.leave(c)
	return err
}

func (s *CrashStore) CacheQueueTransaction(tx *common.VersionedTransaction) error {
	c := s.txCall("CacheQueueTransaction", tx.PayloadHash())
	s.enter(c)
	err := s.Store.CacheQueueTransaction(tx)
	s.leave(c)
	return err
}

func (s *CrashStore) CacheRemoveTransactions(hs []crypto.Hash) error {
	c := blank("CacheRemoveTransactions")
	s.enter(c)
	err := s.Store.CacheRemoveTransactions(hs)
	s.leave(c)
	return err
}

func (s *CrashStore) WriteRoundWork(nodeId crypto.Hash, round uint64, snapshots []*common.SnapshotWork, credit bool) error {
	c := blank("WriteRoundWork")
	c.Chain, c.Round = s.env.ChainIndex(nodeId), round
	s.enter(c)
	err := s.Store.WriteRoundWork(nodeId, round, snapshots, credit)
	s.leave(c)
	return err
}

func (s *CrashStore) WriteRoundSpaceAndState(space *common.RoundSpace) error {
	c := blank("WriteRoundSpaceAndState")
	s.enter(c)
	err := s.Store.WriteRoundSpaceAndState(space)
	s.leave(c)
	return err
}

func (s *CrashStore) RemoveGraphEntries(prefix string) (int, error) {
	c := blank("RemoveGraphEntries")
	s.enter(c)
	n, err := s.Store.RemoveGraphEntries(prefix)
	s.leave(c)
	return n, err
}

func (s *CrashStore) LoadGenesis(rounds []*common.Round, snapshots []*common.SnapshotWithTopologicalOrder, transactions []*common.VersionedTransaction) error {
	c := blank("LoadGenesis")
	s.enter(c)
	err := s.Store.LoadGenesis(rounds, snapshots, transactions)
	s.leave(c)
	return err
}
