package crashlib

import (
	"fmt"
	"sync"
	"time"

	"github.com/MixinNetwork/mixin/common"
	"github.com/MixinNetwork/mixin/config"
	"github.com/MixinNetwork/mixin/crypto"
	"github.com/MixinNetwork/mixin/kernel"
)

// Step is one finalized snapshot delivered to the node (plus the admission of
// its transactions).  Kinds:
//
//	deposit   custodian-signed XIN deposit to the domain account
//	transfer  spends output 0 of the transaction made by step Src[0]
//	pair      one snapshot carrying two transfers (Src[0], Src[1])
//	pledge    node pledge spending the 13439 XIN output of step Src[0] (consensus class)
//	accept    node accept of the node pledged by step Src[0] (consensus class, new chain)
//	dup       a snapshot of ANOTHER chain that contains the already finalized transaction(s) of step Src[0]
//	          (legal in the DAG; the first finalization stays the transaction's finalization)
//	mint      universal mint of the next batch (consensus class) on the elected chain, in the mint window of
//	          day 1707+ after the epoch; the work/space aggregates the mint distribution reads are seeded
//	          directly in the store (they are the output of the background aggregators, not of the workload)
type Step struct {
	Kind     string `json:"kind"`
	Chain    int    `json:"chain"`               // hosting genesis chain (pledge: elected chain, accept: the new chain)
	NewRound bool   `json:"new_round,omitempty"` // open the next round of the chain with this snapshot
	Ext      int    `json:"ext,omitempty"`       // chain whose latest final round is the external reference
	Src      []int  `json:"src,omitempty"`
	Big      bool   `json:"big,omitempty"`    // deposit of the pledge amount
	Inject   []int  `json:"inject,omitempty"` // steps of OTHER chains run at the boundary right before this step's consensus marker write
	Nested   bool   `json:"nested,omitempty"` // only run when injected
}

type Spec struct {
	Nodes int    `json:"nodes"`
	Steps []Step `json:"steps"`
}

type Runner struct {
	env     *Env
	node    *kernel.Node
	store   *CrashStore
	spec    *Spec
	ts      uint64
	txOf    map[int][]*common.VersionedTransaction // step -> transactions it made
	tsOf    map[int]uint64
	plIdx   map[int]int // pledge step -> pledger number
	npl     int
	lastOp  uint64          // timestamp of the latest node operation
	host    int             // chain of the step whose marker write is being interleaved (-1: none)
	mints   int             // mint steps executed
	workRd  map[int]uint64  // chain -> next WriteRoundWork round
	seeded  map[uint64]bool // absolute day -> works seeded
	onChain map[string]bool // "tx hash|chain" -> a snapshot of that chain contains the transaction
	Log     []string
	logMu   sync.Mutex
}

func NewRunner(env *Env, node *kernel.Node, store *CrashStore, spec *Spec) *Runner {
	return &Runner{env: env, node: node, store: store, spec: spec,
		ts:   env.Epoch + day + hour + uint64(time.Minute),
		txOf: map[int][]*common.VersionedTransaction{}, tsOf: map[int]uint64{}, plIdx: map[int]int{}, host: -1,
		workRd: map[int]uint64{}, seeded: map[uint64]bool{}, onChain: map[string]bool{}}
}

func (r *Runner) logf(f string, a ...any) {
	r.logMu.Lock()
	r.Log = append(r.Log, fmt.Sprintf(f, a...))
	r.logMu.Unlock()
}

func (r *Runner) Run() {
	for i := range r.spec.Steps {
		if r.spec.Steps[i].Nested {
			continue
		}
		r.runStep(i)
	}
}

func (r *Runner) seed(i int, tag string) []byte {
	h := crypto.Blake3Hash([]byte(fmt.Sprintf("c21-seed-%d-%s", i, tag)))
	return append(h[:], h[:]...)
}

func (r *Runner) deposit(i int, big bool) *common.VersionedTransaction {
	amount := common.NewIntegerFromString(fmt.Sprintf("%d.5", 3+i%7))
	if big {
		amount = common.KernelNodePledgeAmount
	}
	tx := common.NewTransactionV5(common.XINAssetId)
	tx.AddDepositInput(&common.DepositData{
		Chain:       common.XINAsset.Chain,
		AssetKey:    common.XINAsset.AssetKey,
		Transaction: fmt.Sprintf("0xc7c1132b58e1f64c263957d7857fe5ec5294fce95d30dcd64efef71da1%06d", i),
		Index:       0,
		Amount:      amount,
	})
	tx.AddScriptOutput([]*common.Address{&r.env.Domain}, common.NewThresholdScript(1), amount, r.seed(i, "dep"))
	ver := tx.AsVersioned()
	must(ver.SignRaw(r.env.Domain.PrivateSpendKey))
	return ver
}

func (r *Runner) transfer(i, src int, tag string) *common.VersionedTransaction {
	stx := r.txOf[src]
	if len(stx) == 0 {
		return nil
	}
	prev := stx[0]
	tx := common.NewTransactionV5(common.XINAssetId)
	tx.AddInput(prev.PayloadHash(), 0)
	tx.AddScriptOutput([]*common.Address{&r.env.Domain}, common.NewThresholdScript(1), prev.Outputs[0].Amount, r.seed(i, tag))
	ver := tx.AsVersioned()
	if err := ver.SignInput(r.store, 0, []*common.Address{&r.env.Domain}); err != nil {
		r.logf("step %d: sign transfer: %v", i, err)
		return nil
	}
	return ver
}

func (r *Runner) pledge(i, src int) *common.VersionedTransaction {
	stx := r.txOf[src]
	if len(stx) == 0 {
		return nil
	}
	prev := stx[0]
	signer, payee := r.env.Pledger(r.npl)
	r.plIdx[i] = r.npl
	r.npl++
	tx := common.NewTransactionV5(common.XINAssetId)
	tx.AddInput(prev.PayloadHash(), 0)
	tx.AddOutputWithType(common.OutputTypeNodePledge, nil, common.Script{}, common.KernelNodePledgeAmount, []byte{})
	tx.Extra = append(signer.PublicSpendKey[:], payee.PublicSpendKey[:]...)
	last, err := r.store.ReadLastConsensusSnapshot()
	must(err)
	tx.References = last.Transactions
	ver := tx.AsVersioned()
	if err := ver.SignInput(r.store, 0, []*common.Address{&r.env.Domain}); err != nil {
		r.logf("step %d: sign pledge: %v", i, err)
		return nil
	}
	return ver
}

func (r *Runner) accept(i, src int) (*common.VersionedTransaction, common.Address) {
	signer, _ := r.env.Pledger(r.plIdx[src])
	ptx := r.txOf[src]
	if len(ptx) == 0 {
		return nil, signer
	}
	pledge := ptx[0]
	tx := common.NewTransactionV5(common.XINAssetId)
	tx.AddInput(pledge.PayloadHash(), 0)
	tx.AddOutputWithType(common.OutputTypeNodeAccept, nil, common.Script{}, pledge.Outputs[0].Amount, []byte{})
	tx.Extra = pledge.Extra
	last, err := r.store.ReadLastConsensusSnapshot()
	must(err)
	tx.References = last.Transactions
	ver := tx.AsVersioned()
	sig := signer.PrivateSpendKey.Sign(ver.PayloadHash())
	ver.SignaturesMap = []map[uint16]*crypto.Signature{{0: &sig}}
	return ver, signer
}

// seedWorks writes what AggregateMintWork / AggregateRoundSpace would have aggregated for the day of ts
// and the day before: lead and sign works for every chain and a space checkpoint of the mint batch.
func (r *Runner) seedWorks(ts uint64) {
	inner := r.store.Store
	d := ts / day
	for _, dd := range []uint64{d - 1, d} {
		if r.seeded[dd] {
			continue
		}
		r.seeded[dd] = true
		for ci, id := range r.env.Chains {
			var works []*common.SnapshotWork
			for i := 0; i < 3+ci%3; i++ {
				works = append(works, &common.SnapshotWork{
					Hash:      crypto.Blake3Hash([]byte(fmt.Sprintf("c21-work-%d-%d-%d", ci, dd, i))),
					Timestamp: dd*day + hour + uint64(i),
					Signers:   r.env.Chains,
				})
			}
			must(inner.WriteRoundWork(id, r.workRd[ci], works, true))
			r.workRd[ci]++
		}
	}
	for _, id := range r.env.Chains {
		must(inner.WriteRoundSpaceAndState(&common.RoundSpace{NodeId: id, Batch: d - r.env.Epoch/day, Round: 0, Duration: 0}))
	}
}

func (r *Runner) mint(i int) (*common.VersionedTransaction, int) {
	t := r.env.Epoch + (1707+uint64(r.mints))*day + 8*hour + uint64(time.Minute)
	for t <= r.ts {
		t += day
	}
	r.ts = t
	r.mints++
	r.seedWorks(r.ts)
	ver, err := r.node.VerifC21BuildMintTransaction(r.ts)
	if err != nil || ver == nil {
		r.logf("step %d: no mint transaction (%v)", i, err)
		return nil, -1
	}
	el := r.node.VerifC21ElectSnapshotNode(common.TransactionTypeMint, r.ts)
	priv := r.env.Privs[el]
	if priv == nil {
		r.logf("step %d: no key of elected node", i)
		return nil, -1
	}
	must(ver.SignRaw(*priv))
	return ver, r.env.ChainIndex(el)
}

// sign produces a real CoSi certificate for s from the first `threshold`
// members of the chain's consensus key vector (the harness holds every key).
func (r *Runner) sign(chain *kernel.Chain, s *common.Snapshot) bool {
	ids, publics := chain.ConsensusKeys(s.RoundNumber, s.Timestamp)
	threshold := r.node.ConsensusThreshold(s.Timestamp, true)
	if threshold > len(ids) {
		r.logf("threshold %d > keys %d", threshold, len(ids))
		return false
	}
	rd := &detReader{seed: s.Hash}
	nonces := map[int]*crypto.CosiNonce{}
	commitments := map[int]*crypto.Key{}
	for i := 0; i < threshold; i++ {
		n := crypto.CosiCommitNonce(rd)
		c := n.Public()
		nonces[i], commitments[i] = n, &c
	}
	sig, err := crypto.CosiAggregateCommitment(commitments)
	must(err)
	responses := map[int]*[32]byte{}
	for i := 0; i < threshold; i++ {
		priv := r.env.Privs[ids[i]]
		if priv == nil {
			r.logf("no key for %s", ids[i])
			return false
		}
		resp, err := nonces[i].Response(sig, priv, publics, s.Hash)
		must(err)
		responses[i] = resp
	}
	must(sig.AggregateResponse(publics, responses, s.Hash, true))
	s.Signature = sig
	return true
}

// prepared is a step whose transactions are admitted to the cache store and whose snapshot is built
// and certified; what remains is handing the snapshot to the chain's finalization handler.
type prepared struct {
	i        int
	st       Step
	chainIdx int
	id       crypto.Hash
	s        *common.Snapshot
}

func (r *Runner) runStep(i int) {
	prevStep := r.store.step
	r.store.step = i
	defer func() { r.store.step = prevStep }()
	p := r.prepare(i)
	if p == nil {
		return
	}
	// interleaving: another chain's goroutine finalizes its snapshot(s) while
	// this chain is between WriteSnapshot and the consensus marker write
	if len(p.st.Inject) > 0 {
		inj := p.st.Inject
		r.store.Boundary = func(c *Call) {
			if c.Name != "WriteConsensusSnapshot" {
				return
			}
			r.store.Boundary = nil
			r.host = p.chainIdx
			for _, j := range inj {
				r.runStep(j)
			}
			r.host = -1
		}
	}
	r.finalize(p)
	r.store.Boundary = nil
}

func (r *Runner) finalize(p *prepared) {
	fin, want, err := r.node.VerifC21CosiFinalize(p.id, p.s)
	r.logf("step %d (%s) chain %d round %d ts +%dms: finalized=%v want=%d err=%v", p.i, p.st.Kind, p.chainIdx, p.s.RoundNumber,
		(p.s.Timestamp-r.env.Epoch)/uint64(time.Millisecond), fin, len(want), err)
}

func (r *Runner) prepare(i int) *prepared {
	st := r.spec.Steps[i]
	r.ts += 10 * uint64(time.Millisecond)
	var txs []*common.VersionedTransaction
	chainIdx := st.Chain
	switch st.Kind {
	case "deposit":
		txs = append(txs, r.deposit(i, st.Big))
	case "transfer":
		if t := r.transfer(i, st.Src[0], "a"); t != nil {
			txs = append(txs, t)
		}
	case "pair":
		if t := r.transfer(i, st.Src[0], "a"); t != nil {
			txs = append(txs, t)
		}
		if t := r.transfer(i, st.Src[1], "b"); t != nil {
			txs = append(txs, t)
		}
	case "pledge":
		// pledge hour: neither mint (7..9) nor accept (13..19) hours; a pledge
		// needs 12h distance from every earlier node operation
		if r.lastOp > 0 {
			if want := r.lastOp + 12*hour + uint64(time.Minute); r.ts < want {
				r.ts = want
			}
		}
		if t := r.pledge(i, st.Src[0]); t != nil {
			txs = append(txs, t)
		}
		el := r.node.VerifC21ElectSnapshotNode(common.TransactionTypeNodePledge, r.ts)
		chainIdx = r.env.ChainIndex(el)
	case "dup":
		txs = append(txs, r.txOf[st.Src[0]]...)
		for tries := 0; tries < r.env.N; tries++ {
			free := true
			for _, t := range txs {
				if r.onChain[fmt.Sprintf("%s|%d", t.PayloadHash(), chainIdx)] {
					free = false
				}
			}
			if free {
				break
			}
			chainIdx = (chainIdx + 1) % r.env.N
		}
	case "mint":
		t, ci := r.mint(i)
		if t != nil {
			txs = append(txs, t)
		}
		chainIdx = ci
	case "accept":
		pts := r.tsOf[st.Src[0]]
		if want := pts + 12*hour + 2*uint64(time.Minute); r.ts < want {
			r.ts = want
		}
		t, signer := r.accept(i, st.Src[0])
		if t != nil {
			txs = append(txs, t)
		}
		chainIdx = r.env.AddPledgedChain(signer)
	default:
		panic("unknown step kind " + st.Kind)
	}
	if len(txs) == 0 {
		r.logf("step %d (%s): no transaction built", i, st.Kind)
		return nil
	}
	if chainIdx < 0 || chainIdx >= len(r.env.Chains) {
		r.logf("step %d: bad chain %d", i, chainIdx)
		return nil
	}
	if r.host >= 0 && chainIdx == r.host {
		// interleaved work belongs to another chain's goroutine
		chainIdx = (chainIdx + 1) % r.env.N
	}
	r.txOf[i] = txs
	// admission: the transactions arrive from peers into the cache store
	for _, t := range txs {
		if st.Kind != "dup" {
			must(r.store.CacheStoreTransaction(t))
		}
		r.onChain[fmt.Sprintf("%s|%d", t.PayloadHash(), chainIdx)] = true
	}

	id := r.env.Chains[chainIdx]
	chain := r.node.BootChain(id)
	if chain == nil {
		r.logf("step %d: no chain %d", i, chainIdx)
		return nil
	}
	s := &common.Snapshot{Version: common.SnapshotVersionCommonEncoding, NodeId: id}
	for _, t := range txs {
		s.AddTransaction(t.PayloadHash())
	}
	if st.Kind == "accept" {
		if chain.State != nil {
			r.logf("step %d: accept on a chain with state", i)
			return nil
		}
		s.RoundNumber = 0
	} else {
		if chain.State == nil {
			r.logf("step %d: chain %d has no state", i, chainIdx)
			return nil
		}
		head := chain.State.CacheRound
		newRound := st.NewRound
		if len(head.Snapshots) == 0 {
			newRound = false
		} else {
			start := head.Snapshots[0].Timestamp
			for _, hs := range head.Snapshots {
				if hs.Timestamp < start {
					start = hs.Timestamp
				}
			}
			if r.ts+uint64(time.Second) >= start+config.SnapshotRoundGap {
				newRound = true
			}
		}
		if newRound {
			r.ts += 4 * uint64(time.Second)
			cp := make([]*common.Snapshot, len(head.Snapshots))
			copy(cp, head.Snapshots)
			_, _, fh := common.ComputeRoundHash(id, head.Number, cp)
			ext := st.Ext % r.env.N
			if ext == chainIdx {
				ext = (ext + 1) % r.env.N
			}
			ec := r.node.BootChain(r.env.Chains[ext])
			s.RoundNumber = head.Number + 1
			s.References = &common.RoundLink{Self: fh, External: ec.State.FinalRound.Hash}
		} else {
			s.RoundNumber = head.Number
			s.References = head.References.Copy()
		}
	}
	s.Timestamp = r.ts
	r.tsOf[i] = s.Timestamp
	if st.Kind == "pledge" || st.Kind == "accept" {
		r.lastOp = s.Timestamp
	}
	s.Hash = s.PayloadHash()
	if !r.sign(chain, s) {
		r.logf("step %d: cannot sign", i)
		return nil
	}

	return &prepared{i: i, st: st, chainIdx: chainIdx, id: id, s: s}
}
