package crashlib

import (
	"fmt"

	"github.com/MixinNetwork/mixin/config"

	"verifharness/vh"
)

// ---- corpus -----------------------------------------------------------------------

// F6 witness: a consensus-class snapshot c (node pledge) is durably finalized, another
// chain finalizes an ordinary snapshot o before c's marker write, the process stops.
func SpecF6() Spec {
	return Spec{Nodes: 7, Steps: []Step{
		{Kind: "deposit", Chain: 1, Big: true},
		{Kind: "pledge", Src: []int{0}, Inject: []int{2}},
		{Kind: "deposit", Chain: 2, Nested: true},
	}}
}

// control of F6: the same consensus snapshot without the interleaved snapshot
func SpecF6Control() Spec {
	return Spec{Nodes: 7, Steps: []Step{
		{Kind: "deposit", Chain: 1, Big: true},
		{Kind: "pledge", Src: []int{0}},
		{Kind: "deposit", Chain: 2},
	}}
}

// mint: a universal mint snapshot (consensus class, mint branch of reloadConsensusState) between
// ordinary snapshots; the mint snapshot is the last topology entry while its marker is pending
func SpecMint() Spec {
	return Spec{Nodes: 7, Steps: []Step{
		{Kind: "deposit", Chain: 1},
		{Kind: "mint"},
		{Kind: "deposit", Chain: 2},
	}}
}

// mint whose marker write is overtaken by another chain's snapshot (F6 region on the mint branch),
// after a pledge/accept cycle so that the mint distribution covers an eighth accepted node
func SpecMintInterleaved() Spec {
	return Spec{Nodes: 7, Steps: []Step{
		{Kind: "deposit", Chain: 3, Big: true},
		{Kind: "pledge", Src: []int{0}},
		{Kind: "accept", Src: []int{1}},
		{Kind: "mint", Inject: []int{4}},
		{Kind: "deposit", Chain: 5, Nested: true},
		{Kind: "mint"},
		{Kind: "transfer", Chain: 6, Src: []int{4}},
	}}
}

// the same transaction collected by snapshots of two chains, with its output spent in between:
// T (deposit, chain 1), T3 spends T (chain 2), chain 3 includes T again, chain 4 includes T3 again
func SpecDup() Spec {
	return Spec{Nodes: 7, Steps: []Step{
		{Kind: "deposit", Chain: 1},
		{Kind: "transfer", Chain: 2, Src: []int{0}},
		{Kind: "dup", Chain: 3, Src: []int{0}},
		{Kind: "dup", Chain: 4, Src: []int{1}},
		{Kind: "transfer", Chain: 3, Src: []int{1}, NewRound: true, Ext: 1},
		{Kind: "dup", Chain: 5, Src: []int{0}},
	}}
}

// long chain: one chain is driven through round transitions up to head round
// SnapshotReferenceThreshold+3 (one snapshot per round, external references to another chain's
// final rounds), so that restarts happen with every final round number around the reference
// threshold, where Chain.loadState's round history window starts to slide.
func SpecLong(chain, ext int) Spec {
	sp := Spec{Nodes: 7}
	n := config.SnapshotReferenceThreshold + 3
	for i := 0; i < n; i++ {
		sp.Steps = append(sp.Steps, Step{Kind: "deposit", Chain: chain, NewRound: i > 0, Ext: ext})
	}
	// another chain moves too, so that the long chain's later external references advance
	sp.Steps = append(sp.Steps, Step{Kind: "deposit", Chain: ext})
	return sp
}

// roundTransitions: a restart right after every StartNewRound; around final round numbers
// Threshold-2 .. Threshold+1 also right before the call and after the snapshot that follows.
func roundTransitions(full []Call) []point {
	var p []point
	t := uint64(config.SnapshotReferenceThreshold)
	for i, c := range full {
		if c.Name != "StartNewRound" || c.Round == 0 {
			continue
		}
		p = append(p, point{"after", i + 1})
		final := c.Round - 1
		if final+2 >= t && final <= t+1 {
			p = append(p, point{"before", i + 1})
			for j := i + 1; j < len(full); j++ {
				if full[j].Name == "WriteSnapshot" {
					p = append(p, point{"after", j + 1})
					break
				}
			}
		}
	}
	return append(p, point{"after", len(full)})
}

// F7 witness: pledge, then the node-accept sequence
func SpecF7() Spec {
	return Spec{Nodes: 7, Steps: []Step{
		{Kind: "deposit", Chain: 3, Big: true},
		{Kind: "pledge", Src: []int{0}},
		{Kind: "accept", Src: []int{1}},
		{Kind: "deposit", Chain: 4},
	}}
}

// ---- generator ---------------------------------------------------------------------

// GenSpec draws a multi-chain workload: deposits, transfers, two-transfer snapshots and
// round transitions on random genesis chains, up to `cycles` pledge/accept cycles, and
// (interleave) ordinary snapshots of other chains run while a consensus snapshot waits
// for its marker write.
func GenSpec(r *vh.Rand, steps, cycles int, interleave bool) Spec {
	return GenSpecMint(r, steps, cycles, 0, interleave)
}

// GenSpecMint appends `mints` universal mint snapshots (each followed by ordinary snapshots) to the workload.
func GenSpecMint(r *vh.Rand, steps, cycles, mints int, interleave bool) Spec {
	sp := Spec{Nodes: 7}
	var spendable []int // steps whose output 0 is an unspent ordinary output
	var bigs []int      // unspent pledge-amount deposits
	var ordinary []int  // finalized ordinary steps (spent or not): candidates for a second inclusion
	pending := -1       // pledge step waiting for its accept
	done := 0
	add := func(s Step) int { sp.Steps = append(sp.Steps, s); return len(sp.Steps) - 1 }
	inject := func(host int) {
		if !interleave || !r.Chance(2, 3) {
			return
		}
		n := r.Range(1, 2)
		for j := 0; j < n; j++ {
			id := add(Step{Kind: "deposit", Chain: r.Intn(7), Nested: true})
			sp.Steps[host].Inject = append(sp.Steps[host].Inject, id)
			spendable = append(spendable, id)
		}
	}
	for len(sp.Steps) < steps {
		base := Step{Chain: r.Intn(7), NewRound: r.Chance(3, 10), Ext: r.Intn(7)}
		roll := r.Intn(100)
		switch {
		case pending >= 0 && roll < 22:
			base.Kind, base.Src = "accept", []int{pending}
			pending = -1
			done++
			id := add(base)
			inject(id)
		case pending < 0 && done < cycles && len(bigs) > 0 && roll < 45:
			base.Kind, base.Src = "pledge", []int{bigs[0]}
			bigs = bigs[1:]
			id := add(base)
			pending = id
			inject(id)
		case pending < 0 && done < cycles && len(bigs) == 0 && roll < 45:
			base.Kind, base.Big = "deposit", true
			bigs = append(bigs, add(base))
		case len(ordinary) >= 2 && roll >= 88:
			base.Kind, base.Src = "dup", []int{ordinary[r.Intn(len(ordinary)-1)]} // not the newest: something may have spent it
			add(base)
		case len(spendable) >= 2 && roll < 58:
			i := r.Intn(len(spendable) - 1)
			base.Kind, base.Src = "pair", []int{spendable[i], spendable[i+1]}
			spendable = append(spendable[:i], spendable[i+2:]...)
			id := add(base)
			spendable, ordinary = append(spendable, id), append(ordinary, id)
		case len(spendable) >= 1 && roll < 80:
			i := r.Intn(len(spendable))
			base.Kind, base.Src = "transfer", []int{spendable[i]}
			spendable = append(spendable[:i], spendable[i+1:]...)
			id := add(base)
			spendable, ordinary = append(spendable, id), append(ordinary, id)
		default:
			base.Kind = "deposit"
			id := add(base)
			spendable, ordinary = append(spendable, id), append(ordinary, id)
		}
	}
	if pending >= 0 {
		id := add(Step{Kind: "accept", Src: []int{pending}})
		inject(id)
	}
	for m := 0; m < mints; m++ {
		id := add(Step{Kind: "mint"})
		inject(id)
		for j := r.Range(1, 2); j > 0; j-- {
			if len(spendable) > 0 && r.Bool() {
				i := r.Intn(len(spendable))
				src := spendable[i]
				spendable = append(spendable[:i], spendable[i+1:]...)
				spendable = append(spendable, add(Step{Kind: "transfer", Chain: r.Intn(7), Src: []int{src}, Ext: r.Intn(7)}))
			} else {
				spendable = append(spendable, add(Step{Kind: "deposit", Chain: r.Intn(7), Ext: r.Intn(7)}))
			}
		}
	}
	return sp
}

// ---- crash point selections ----------------------------------------------------------

func allAfter(from int) selector {
	return func(full []Call) []point {
		var p []point
		for k := from; k <= len(full); k++ {
			p = append(p, point{"after", k})
		}
		return p
	}
}

// from the first call of the first consensus-class step on: after every call; before the
// marker writes and the calls that follow a consensus WriteSnapshot
func consensusWindow(extraBefore bool) selector {
	return func(full []Call) []point {
		first := -1
		for i, c := range full {
			if c.Name == "WriteSnapshot" && c.Cons {
				first = i
				break
			}
		}
		if first < 0 {
			return allAfter(0)(full)
		}
		start := first - 2
		if start < 0 {
			start = 0
		}
		var p []point
		for k := start; k <= len(full); k++ {
			p = append(p, point{"after", k})
		}
		if extraBefore {
			for i, c := range full {
				if c.Name == "WriteConsensusSnapshot" || (i > 0 && full[i-1].Name == "WriteSnapshot" && full[i-1].Cons) {
					p = append(p, point{"before", i + 1})
				}
			}
		}
		return p
	}
}

func everyPoint(full []Call) []point {
	var p []point
	for k := 0; k <= len(full); k++ {
		p = append(p, point{"after", k})
	}
	for k := 1; k <= len(full); k++ {
		p = append(p, point{"before", k})
	}
	return p
}

func sampledBefore(r *vh.Rand, num, den int) selector {
	return func(full []Call) []point {
		p := allAfter(0)(full)
		for k := 1; k <= len(full); k++ {
			if r.Chance(num, den) {
				p = append(p, point{"before", k})
			}
		}
		return p
	}
}

// limit keeps at most max points: first the structurally interesting ones (the cut lies
// between a consensus-class WriteSnapshot and its marker write, next to a StartNewRound,
// or at the end), then a random sample of the others.
func limit(sel selector, max int, r *vh.Rand) selector {
	return func(full []Call) []point {
		all := sel(full)
		if len(all) <= max {
			return all
		}
		pending := make([]bool, len(full)+1) // pending[n]: after n calls a consensus snapshot waits for its marker
		wait := -1
		for i, c := range full {
			if c.Name == "WriteSnapshot" && c.Cons {
				wait = c.Snap
			}
			if c.Name == "WriteConsensusSnapshot" && c.Snap == wait {
				wait = -1
			}
			pending[i+1] = wait >= 0
		}
		dup := make([]bool, len(full)) // dup[i]: call i is a WriteSnapshot containing an already finalized transaction
		seenTx := map[int]bool{}
		for i, c := range full {
			if c.Name == "WriteSnapshot" {
				for _, id := range c.Txs {
					if seenTx[id] {
						dup[i] = true
					}
					seenTx[id] = true
				}
			}
		}
		prio := func(pt point) bool {
			n := prefixLen(pt)
			if (n > 0 && dup[n-1]) || (n < len(full) && dup[n]) {
				return true
			}
			if n == len(full) || pending[n] {
				return true
			}
			if n > 0 && (full[n-1].Name == "StartNewRound" || full[n-1].Name == "WriteConsensusSnapshot") {
				return true
			}
			return n < len(full) && full[n].Name == "StartNewRound"
		}
		var keep, rest []point
		for _, pt := range all {
			if prio(pt) && len(keep) < max {
				keep = append(keep, pt)
			} else {
				rest = append(rest, pt)
			}
		}
		for len(keep) < max && len(rest) > 0 {
			i := r.Intn(len(rest))
			keep = append(keep, rest[i])
			rest = append(rest[:i], rest[i+1:]...)
		}
		return keep
	}
}

// ---- mains ---------------------------------------------------------------------------

func Main(prop string) {
	h := NewHarness(prop)
	c := h.C
	c.Rep.Rule = "a case = (workload, crash point): a real 7-node-genesis kernel node in a child process receives finalized snapshots " +
		"(real transactions, real CoSi certificates) through Chain.cosiHandleAction; storage.Store is decorated to stop the process " +
		"right before/after the k-th mutating call; a second process runs the real SetupNode on the same Badger directory, " +
		"ValidateGraphEntries, ReadLastConsensusSnapshot and a scan of the topology. Workloads: corpus witnesses of the recorded findings " +
		"and their controls, then SplitMix64-drawn multi-chain workloads (deposit, transfer, two-transfer snapshots, round transitions, " +
		"node pledge/accept cycles, other chains' snapshots interleaved before the consensus marker write). Non-trivial = the node restarted " +
		"and the cut lies after a durably finalized snapshot (C21: after a consensus-class one); distinct by (workload, mode, k)."
	if c.Replay != "" {
		var cs CaseJS
		c.ReplayCase(&cs)
		if cs.Mode == "conc" && cs.Conc != nil {
			h.RunConc(cs.Workload, cs.Spec, *cs.Conc)
			c.Finish()
			return
		}
		h.RunWorkload(cs.Workload, cs.Spec, func(full []Call) []point {
			if cs.Mode == "none" {
				return nil
			}
			return []point{{cs.Mode, cs.K}}
		})
		c.Finish()
		return
	}
	switch prop {
	case "C21":
		mainC21(h)
	case "C22":
		mainC22(h)
	default:
		panic(prop)
	}
	c.Finish()
}

func mainC21(h *Harness) {
	c := h.C
	// corpus: the recorded finding and its control always run
	h.RunWorkload("corpus-F6", SpecF6(), limit(consensusWindow(true), 10, c.Rng.Fork("l0")))
	h.RunWorkload("corpus-F6-control", SpecF6Control(), limit(consensusWindow(false), 5, c.Rng.Fork("l1")))
	h.concCases(c.Rng.Fork("conc"))
	if c.Tier != "quick" {
		h.RunWorkload("corpus-long-chain", SpecLong(2, 5), roundTransitions)
	}
	switch c.Tier {
	case "quick":
		h.RunWorkload("corpus-mint", SpecMint(), limit(consensusWindow(true), 8, c.Rng.Fork("l3")))
		h.RunWorkload("gen-0", GenSpec(c.Rng.Fork("w0"), 7, 1, true), limit(consensusWindow(false), 10, c.Rng.Fork("l2")))
	case "search":
		h.RunWorkload("corpus-mint", SpecMint(), consensusWindow(true))
		h.RunWorkload("corpus-mint-interleaved", SpecMintInterleaved(), consensusWindow(true))
		for i := 0; i < 4; i++ {
			h.RunWorkload(fmt.Sprintf("gen-%d", i), GenSpecMint(c.Rng.Fork(fmt.Sprint("w", i)), 9, 1, i%2, true), consensusWindow(true))
		}
	default:
		h.RunWorkload("corpus-mint", SpecMint(), everyPoint)
		h.RunWorkload("corpus-mint-interleaved", SpecMintInterleaved(), everyPoint)
		for i := 0; i < 8; i++ {
			h.RunWorkload(fmt.Sprintf("gen-%d", i), GenSpecMint(c.Rng.Fork(fmt.Sprint("w", i)), 10+2*i, 2, 1+i%2, i%4 != 3), everyPoint)
		}
	}
}

func mainC22(h *Harness) {
	c := h.C
	switch c.Tier {
	case "quick":
		h.RunWorkload("corpus-F7", SpecF7(), limit(allAfter(0), 14, c.Rng.Fork("l0")))
		h.RunWorkload("corpus-dup", SpecDup(), limit(allAfter(0), 9, c.Rng.Fork("l2")))
		h.RunWorkload("corpus-long-chain", SpecLong(2, 5), roundTransitions)
		h.RunWorkload("gen-0", GenSpec(c.Rng.Fork("w0"), 8, 1, false), limit(sampledBefore(c.Rng.Fork("b0"), 1, 4), 34, c.Rng.Fork("l1")))
	case "search":
		h.RunWorkload("corpus-F7", SpecF7(), allAfter(0))
		h.RunWorkload("corpus-dup", SpecDup(), allAfter(0))
		h.RunWorkload("corpus-long-chain", SpecLong(2, 5), allAfter(0))
		for i := 0; i < 4; i++ {
			h.RunWorkload(fmt.Sprintf("gen-%d", i), GenSpec(c.Rng.Fork(fmt.Sprint("w", i)), 9, 1, i%2 == 1), allAfter(0))
		}
	default:
		h.RunWorkload("corpus-F7", SpecF7(), everyPoint)
		h.RunWorkload("corpus-dup", SpecDup(), everyPoint)
		h.RunWorkload("corpus-long-chain", SpecLong(2, 5), everyPoint)
		h.RunWorkload("corpus-long-chain-b", SpecLong(6, 0), everyPoint)
		for i := 0; i < 8; i++ {
			h.RunWorkload(fmt.Sprintf("gen-%d", i), GenSpec(c.Rng.Fork(fmt.Sprint("w", i)), 10+2*i, 2, i%2 == 1), everyPoint)
		}
	}
}
