package crashlib

import (
	"bufio"
	"encoding/json"
	"fmt"
	"os"
	"os/exec"
	"path/filepath"
	"runtime"
	"strings"
	"sync"
	"time"

	"github.com/MixinNetwork/mixin/common"
	"verifharness/vh"
)

const (
	SigF6 = "crash-after-consensus-snapshot-followed-by-later-snapshot"
	SigF7 = "crash-inside-node-accept-sequence"
)

// CaseJS is the self-contained replayable case: a workload and one crash point.
type CaseJS struct {
	Property string    `json:"property"`
	Workload string    `json:"workload"`
	Spec     Spec      `json:"spec"`
	Mode     string    `json:"mode"` // "after" k: stop right after the k-th mutating call returned; "before" k: right before it is forwarded
	K        int       `json:"k"`
	Conc     *ConcCase `json:"conc,omitempty"` // mode "conc": two chains finalize concurrently
}

type point struct {
	mode string
	k    int
}

type outcome struct {
	pt       point
	runExit  int
	prefix   []Call
	rec      *Recovered
	recExit  int
	recErr   string
	duration time.Duration
}

func selfExe() string {
	p, err := os.Executable()
	must(err)
	return p
}

func readTrace(path string) []Call {
	f, err := os.Open(path)
	if err != nil {
		return nil
	}
	defer f.Close()
	var out []Call
	sc := bufio.NewScanner(f)
	sc.Buffer(make([]byte, 1<<20), 1<<24)
	for sc.Scan() {
		var c Call
		if json.Unmarshal(sc.Bytes(), &c) == nil {
			out = append(out, c)
		}
	}
	return out
}

func runChild(args ...string) (int, string) {
	cmd := exec.Command(selfExe(), args...)
	var sb strings.Builder
	cmd.Stdout = &sb
	cmd.Stderr = &sb
	err := cmd.Run()
	code := 0
	if err != nil {
		if ee, ok := err.(*exec.ExitError); ok {
			code = ee.ExitCode()
		} else {
			code = -1
		}
	}
	s := sb.String()
	if len(s) > 1500 {
		s = s[len(s)-1500:]
	}
	return code, s
}

// dryRun executes the whole workload without a crash and returns its call trace.
func dryRun(root string, specPath string) ([]Call, []string, int, string, string) {
	dir := filepath.Join(root, "dry")
	must(os.MkdirAll(dir, 0o755))
	tr := filepath.Join(root, "dry.trace")
	lg := filepath.Join(root, "dry.log")
	code, out := runChild("child-run", "--dir", dir, "--spec", specPath, "--mode", "none", "--trace", tr, "--log", lg)
	var lf struct {
		Log    []string `json:"log"`
		Total0 string   `json:"total0"`
	}
	if b, err := os.ReadFile(lg); err == nil {
		json.Unmarshal(b, &lf)
	}
	return readTrace(tr), lf.Log, code, out, lf.Total0
}

func crashAndRecover(root, specPath string, idx int, pt point) *outcome {
	start := time.Now()
	dir := filepath.Join(root, fmt.Sprintf("c%d", idx))
	must(os.MkdirAll(dir, 0o755))
	defer os.RemoveAll(dir)
	tr := filepath.Join(root, fmt.Sprintf("c%d.trace", idx))
	rc := filepath.Join(root, fmt.Sprintf("c%d.rec", idx))
	o := &outcome{pt: pt}
	o.runExit, _ = runChild("child-run", "--dir", dir, "--spec", specPath, "--mode", pt.mode, "--k", fmt.Sprint(pt.k), "--trace", tr)
	o.prefix = readTrace(tr)
	o.recExit, o.recErr = runChild("child-recover", "--dir", dir, "--spec", specPath, "--out", rc)
	if b, err := os.ReadFile(rc); err == nil {
		var r Recovered
		if json.Unmarshal(b, &r) == nil {
			o.rec = &r
		}
	}
	o.duration = time.Since(start)
	return o
}

// ---- abstract form --------------------------------------------------------------

func callTerm(c Call) string {
	n := func(v int) string {
		if v < 0 {
			v = 0
		}
		return vh.NU(uint64(v))
	}
	switch c.Name {
	case "CacheStoreTransaction", "CacheQueueTransaction":
		return vh.App("CCache", n(c.Tx))
	case "LockGhostKeys":
		return vh.App("CLockGhost", n(c.Tx))
	case "LockUTXOs", "LockDepositInput", "LockMintInput":
		return vh.App("CLockIn", n(c.Tx))
	case "WriteTransaction":
		return vh.App("CWriteTx", n(c.Tx))
	case "AddNodeOperation":
		return vh.App("CNodeOp", n(c.Tx))
	case "StartNewRound":
		return vh.App("CStartRound", n(c.Chain), vh.NU(c.Round))
	case "UpdateEmptyHeadRound":
		return vh.App("CUpdateHead", n(c.Chain), vh.NU(c.Round))
	case "WriteSnapshot":
		txs := make([]string, len(c.Txs))
		for i, t := range c.Txs {
			txs[i] = n(t)
		}
		return vh.App("CWriteSnap", n(c.Snap), n(c.Chain), vh.NU(c.Round), vh.List(txs, "N"), vh.Bool(c.Cons), n(c.Ref))
	case "WriteConsensusSnapshot":
		return vh.App("CMarker", n(c.Snap))
	}
	return "COther"
}

func callsTerm(cs []Call) string {
	el := make([]string, len(cs))
	for i, c := range cs {
		el[i] = callTerm(c)
	}
	return vh.List(el, "call")
}

// ---- structural predicates on (workload trace, crash point) --------------------------

type region struct {
	lastCons    *Call  // last consensus-class snapshot durably finalized in the prefix
	mintBatch   uint64 // highest mint batch durably finalized in the prefix
	dupDone     bool   // a snapshot containing an already finalized transaction is in the prefix
	markerDone  bool   // its WriteConsensusSnapshot is in the prefix
	laterSnap   bool   // another WriteSnapshot follows it in the prefix
	f6          bool
	f7          bool // some chain has StartNewRound(·,0) but not StartNewRound(·,1) in the prefix
	consCount   int
	snapCount   int
	insideStep  bool // the cut separates two calls of one step
	acceptChain int
}

func classify(full []Call, plen int) region {
	var r region
	r.acceptChain = -1
	prefix := full[:plen]
	zero, one := map[int]bool{}, map[int]bool{}
	seenTx := map[int]bool{}
	for i := range prefix {
		c := &prefix[i]
		switch c.Name {
		case "WriteSnapshot":
			r.snapCount++
			for _, id := range c.Txs {
				if seenTx[id] {
					r.dupDone = true
				}
				seenTx[id] = true
			}
			if c.Mint > r.mintBatch {
				r.mintBatch = c.Mint
			}
			if c.Cons {
				r.consCount++
				r.lastCons = c
				r.markerDone, r.laterSnap = false, false
			} else if r.lastCons != nil {
				r.laterSnap = true
			}
		case "WriteConsensusSnapshot":
			if r.lastCons != nil && c.Snap == r.lastCons.Snap {
				r.markerDone = true
			}
		case "StartNewRound":
			if c.Round == 0 {
				zero[c.Chain] = true
			}
			if c.Round == 1 {
				one[c.Chain] = true
			}
		}
	}
	for ch := range zero {
		if !one[ch] {
			r.f7 = true
			r.acceptChain = ch
		}
	}
	r.f6 = r.lastCons != nil && !r.markerDone && r.laterSnap
	if plen > 0 && plen < len(full) {
		r.insideStep = full[plen-1].Step == full[plen].Step
	}
	return r
}

// ---- one workload ------------------------------------------------------------------

type Harness struct {
	C        *vh.Ctx
	Prop     string
	sigCount map[string]int
	Workers  int
	total0   string // XIN total right after genesis (crash-free run of the current workload)
}

func (h *Harness) fail(sig, what string, cs CaseJS) {
	h.sigCount[sig]++
	if (sig == SigF6 || sig == SigF7) && h.sigCount[sig] > 2 {
		return // one recorded finding does not need fifty reports
	}
	h.C.Fail(sig, what, cs)
}

func prefixLen(pt point) int {
	if pt.mode == "before" {
		return pt.k - 1
	}
	return pt.k
}

// selectPoints chooses the crash points of a workload.
type selector func(full []Call) []point

func (h *Harness) RunWorkload(name string, spec Spec, sel selector) {
	c := h.C
	root, err := os.MkdirTemp("", "verif_"+strings.ToLower(h.Prop)+"_")
	must(err)
	defer os.RemoveAll(root)
	specPath := filepath.Join(root, "spec.json")
	sb, _ := json.Marshal(spec)
	must(os.WriteFile(specPath, sb, 0o644))

	full, log, code, out, total0 := dryRun(root, specPath)
	h.total0 = total0
	if code != 0 || len(full) == 0 {
		c.Note(fmt.Sprintf("workload %s: crash-free run failed (exit %d): %s", name, code, out))
		c.Fail("workload-run-failed", fmt.Sprintf("workload %s does not complete without a crash (exit %d): %s", name, code, out),
			CaseJS{Property: h.Prop, Workload: name, Spec: spec, Mode: "none"})
		return
	}
	nsnap := 0
	for _, cl := range full {
		if cl.Name == "WriteSnapshot" {
			nsnap++
		}
	}
	if nsnap != len(spec.Steps) {
		c.Note(fmt.Sprintf("workload %s: %d of %d steps finalized; log: %s", name, nsnap, len(spec.Steps), strings.Join(log, " | ")))
	}
	ids := map[string]int{}
	env := NewEnv(spec.Nodes)
	for i, hsh := range env.GenSnaps {
		ids[hsh.String()] = i
	}
	for _, cl := range full {
		if cl.Name == "WriteSnapshot" {
			ids[cl.Hash] = cl.Snap
		}
	}

	pts := sel(full)
	outs := make([]*outcome, len(pts))
	var wg sync.WaitGroup
	sem := make(chan struct{}, h.Workers)
	for i := range pts {
		wg.Add(1)
		sem <- struct{}{}
		go func(i int) {
			defer wg.Done()
			defer func() { <-sem }()
			outs[i] = crashAndRecover(root, specPath, i, pts[i])
		}(i)
	}
	wg.Wait()

	for _, o := range outs {
		h.judge(name, spec, full, ids, o)
	}
}

func (h *Harness) judge(name string, spec Spec, full []Call, ids map[string]int, o *outcome) {
	c := h.C
	cs := CaseJS{Property: h.Prop, Workload: name, Spec: spec, Mode: o.pt.mode, K: o.pt.k}
	plen := prefixLen(o.pt)
	key := fmt.Sprintf("%s|%s|%d", name, o.pt.mode, o.pt.k)
	if plen < 0 || plen > len(full) {
		return
	}
	// the stopped run must have issued exactly the prefix of the crash-free run
	wantExit := CrashExitCode
	if o.runExit != wantExit || len(o.prefix) != plen {
		c.Note(fmt.Sprintf("%s: stopped run exit=%d trace=%d want %d/%d", key, o.runExit, len(o.prefix), wantExit, plen))
		c.Fail("harness-nondeterministic-workload", "the stopped run did not reproduce the prefix of the crash-free run: "+key, cs)
		return
	}
	for i := range o.prefix {
		if o.prefix[i].Name != full[i].Name || o.prefix[i].Hash != full[i].Hash || o.prefix[i].Tx != full[i].Tx {
			c.Fail("harness-nondeterministic-workload", fmt.Sprintf("call %d differs between runs: %s", i+1, key), cs)
			return
		}
	}
	rg := classify(full, plen)
	restart := "crashed"
	detail := o.recErr
	if o.rec != nil {
		restart = o.rec.Setup
		detail = o.rec.Detail
	}
	if len(detail) > 300 {
		detail = detail[:300]
	}
	where := fmt.Sprintf("workload %s stopped %s call %d/%d", name, o.pt.mode, o.pt.k, len(full))
	if plen > 0 {
		where += " (" + full[plen-1].Name + " was the last completed call"
		if plen < len(full) {
			where += ", " + full[plen].Name + " the next"
		}
		where += ")"
	}
	masked := rg.f7 || (h.Prop == "C21" && rg.f6)

	switch h.Prop {
	case "C21":
		kind := "after-consensus-finalization"
		if rg.lastCons != nil && rg.lastCons.Mint > 0 {
			kind = "after-mint-finalization"
		}
		if rg.lastCons == nil {
			kind = "before-any-consensus-snapshot"
		} else if !rg.markerDone && !rg.laterSnap {
			kind = "marker-pending,consensus-snapshot-last"
			if rg.lastCons.Mint > 0 {
				kind = "marker-pending,mint-snapshot-last"
			}
		} else if rg.f6 {
			kind = "marker-pending,later-snapshot(F6-region)"
		}
		if rg.f7 {
			kind = "inside-accept-window(C22-finding)"
		}
		obs := ""
		switch restart {
		case "ok":
			id, known := ids[o.rec.Marker]
			if !known {
				id = 999999
			}
			obs = vh.Ok(vh.NU(uint64(id)))
		case "error":
			obs = vh.Err("N")
		default:
			obs = vh.Pan("N")
		}
		term := ""
		if !masked {
			term = vh.App("CRecover", vh.NU(uint64(spec.Nodes)), callsTerm(full), vh.Nat(plen), obs)
		}
		c.Case(kind, key, rg.lastCons != nil && restart == "ok", cs, term)
		if rg.lastCons == nil {
			return
		}
		if restart != "ok" {
			if rg.f7 {
				c.Count("restart-fails-inside-accept-window(not judged by C21)")
				return
			}
			h.fail("restart-failed-after-consensus-finalization", where+": the node does not restart ("+restart+": "+detail+")", cs)
			return
		}
		if rg.mintBatch > 0 && o.rec.LastMint < rg.mintBatch {
			h.fail("mint-bookkeeping-lost", fmt.Sprintf("%s: mint batch %d was durably finalized, the restarted node's LastMint is %d", where, rg.mintBatch, o.rec.LastMint), cs)
		}
		if o.rec.Marker != rg.lastCons.Hash {
			what := fmt.Sprintf("%s: consensus snapshot %s (id %d) was durably finalized, after restart ReadLastConsensusSnapshot = %s (id %d)",
				where, rg.lastCons.Hash[:12], rg.lastCons.Snap, o.rec.Marker[:12], ids[o.rec.Marker])
			if rg.f6 {
				h.fail(SigF6, what, cs)
			} else {
				h.fail("consensus-marker-lost", what, cs)
			}
		}
	case "C22":
		if plen > 0 && full[plen-1].Commits > 1 && o.pt.mode == "after" {
			h.fail("durable-call-not-single-transaction", fmt.Sprintf("%s: that call committed %d separate Badger transactions; a stop between them leaves part of the call durable",
				where, full[plen-1].Commits), cs)
		}
		kind := "between-steps"
		if rg.insideStep {
			kind = "inside-" + spec.Steps[full[plen].Step].Kind
		}
		if rg.f7 {
			kind = "inside-accept-window(F7-region)"
		}
		if rg.dupDone {
			kind += ",after-second-inclusion"
		}
		obs := ""
		complete := true
		if o.rec != nil {
			for _, p := range o.rec.Problems {
				if strings.HasPrefix(p, "tx-") {
					complete = false
				}
			}
		}
		switch restart {
		case "ok":
			id, known := ids[o.rec.Marker]
			if !known {
				id = 999999
			}
			obs = vh.Ok(fmt.Sprintf("(%s, %s, %s)", vh.NU(uint64(id)), vh.NU(uint64(o.rec.Invalid)), vh.Bool(complete)))
		case "error":
			obs = vh.Err("(N * N * bool)")
		default:
			obs = vh.Pan("(N * N * bool)")
		}
		term := ""
		if !masked {
			term = vh.App("CRestart", vh.NU(uint64(spec.Nodes)), callsTerm(full), vh.Nat(plen), obs)
		}
		c.Case(kind, key, restart == "ok" && rg.snapCount > 0, cs, term)
		if restart != "ok" {
			what := where + ": the node does not restart (" + restart + ": " + detail + ")"
			if rg.f7 {
				h.fail(SigF7, what, cs)
			} else {
				h.fail("restart-failed", what, cs)
			}
			return
		}
		if o.rec.Invalid > 0 || o.rec.ValidErr != "" {
			h.fail("validator-reports-invalid", fmt.Sprintf("%s: ValidateGraphEntries reports %d/%d invalid entries %s", where, o.rec.Invalid, o.rec.Total, o.rec.ValidErr), cs)
		}
		for _, p := range o.rec.Problems {
			switch {
			case strings.HasPrefix(p, "tx-"):
				h.fail("finalized-transaction-incomplete", where+": "+p, cs)
			case strings.HasPrefix(p, "topology-"):
				h.fail("topology-position-not-unique", where+": "+p, cs)
			default:
				h.fail("store-scan-problem", where+": "+p, cs)
			}
		}
		if want := expectedTotal(h.total0, full[:plen]); want != "" && o.rec.XinTotal != want {
			h.fail("asset-total-changed", fmt.Sprintf("%s: XIN total is %s, genesis total plus the deposits and mints finalized so far is %s", where, o.rec.XinTotal, want), cs)
		}
		if o.rec.TopoCount != spec.Nodes+1+rg.snapCount {
			h.fail("topology-position-not-unique", fmt.Sprintf("%s: %d snapshots were durably written, the topology holds %d", where, spec.Nodes+1+rg.snapCount, o.rec.TopoCount), cs)
		}
	}
}

// expectedTotal: genesis total plus what each deposit / mint adds when it is FIRST finalized.
func expectedTotal(total0 string, prefix []Call) string {
	if total0 == "" {
		return ""
	}
	t := common.NewIntegerFromString(total0)
	seen := map[int]bool{}
	for _, c := range prefix {
		if c.Name != "WriteSnapshot" {
			continue
		}
		for i, id := range c.Txs {
			if seen[id] {
				continue
			}
			seen[id] = true
			if i < len(c.Adds) && c.Adds[i] != "" {
				t = t.Add(common.NewIntegerFromString(c.Adds[i]))
			}
		}
	}
	return t.String()
}

func NewHarness(prop string) *Harness {
	c := vh.Start(prop)
	w := runtime.NumCPU() / 2
	if w > 8 {
		w = 8
	}
	if w < 2 {
		w = 2
	}
	return &Harness{C: c, Prop: prop, sigCount: map[string]int{}, Workers: w}
}
