package crashlib

func Main(prop string) {}
