// C12 harness: a CoSi nonce handle (crypto/nonce.go) answers at most one
// challenge.  Real concurrency: 16 goroutines call Response on copies of one
// handle with mixed identical / different challenges; sequential schedules for
// exact model comparison; the kernel's nonce retention maps driven through
// kernel.VerifNonceRetention.  Oracle (from the property text): never two
// accepted (challenge, response) pairs with different challenges from one nonce
// (the private key would be (s1-s2)/(c1-c2)); the same challenge returns the
// identical response; a different challenge returns ErrCosiNonceReuse; a
// commitment handed out by the kernel is bound to one snapshot hash while it is
// retained and cannot be obtained after eviction.
package main

import (
	"encoding/binary"
	"errors"
	"fmt"
	"math/big"
	"sync"

	"github.com/MixinNetwork/mixin/crypto"
	"github.com/MixinNetwork/mixin/kernel"
	"verifharness/cmd/c13/cosih"
	"verifharness/vh"
)

type Case struct {
	Kind  string `json:"kind"` // race | seq | ret | evict
	Seed  uint64 `json:"seed"`
	N     int    `json:"n"`     // keys
	Calls int    `json:"calls"` // calls (seq) / goroutines (race) / ops (ret)
	Ctx   int    `json:"ctx"`   // distinct challenge contexts
}

type call struct {
	ctx  int // which (cosi, message) context
	priv int // which private key
}

type result struct {
	s   *[32]byte
	err error
	pan bool
}

type world struct {
	privs   []crypto.Key
	publics []*crypto.Key
	cosis   []*crypto.CosiSignature
	msgs    []crypto.Hash
	pubsets [][]*crypto.Key
	chal    []*big.Int // nil: Challenge() fails in this context
	nonce   *crypto.CosiNonce
	random  *big.Int
}

type seedReader struct{ b []byte }

func (s *seedReader) Read(p []byte) (int, error) { return copy(p, s.b), nil }

// build: key vector, our nonce (through CosiCommitNonce), other signers'
// commitments, and cs.Ctx contexts with pairwise different challenges plus,
// sometimes, a context whose challenge cannot be computed.
func build(cs Case, r *vh.Rand) *world {
	w := &world{}
	for i := 0; i < cs.N; i++ {
		k, _ := cosih.SeedKey(r)
		w.privs = append(w.privs, k)
		p := k.Public()
		w.publics = append(w.publics, &p)
	}
	seed := r.Bytes(64)
	w.nonce = crypto.CosiCommitNonce(&seedReader{seed})
	rk := crypto.NewKeyFromSeed(seed)
	w.random = cosih.LEInt(rk[:])
	me := r.Intn(cs.N)
	for j := 0; j < cs.Ctx; j++ {
		randoms := map[int]*crypto.Key{}
		R := w.nonce.Public()
		randoms[me] = &R
		for i := 0; i < cs.N; i++ {
			if i != me && r.Bool() {
				ok, _ := cosih.SeedKey(r)
				p := ok.Public()
				randoms[i] = &p
			}
		}
		pubs := w.publics
		if j == cs.Ctx-1 && cs.Ctx > 2 && r.Chance(1, 3) {
			randoms[cs.N+r.Intn(3)] = &R // mask index outside the key vector: Challenge() fails
		}
		cosi, err := crypto.CosiAggregateCommitment(randoms)
		if err != nil {
			panic(err)
		}
		var m crypto.Hash
		copy(m[:], r.Bytes(32))
		if j > 0 && r.Chance(1, 4) { // same signature value, other message
			cosi = w.cosis[j-1]
		}
		w.cosis = append(w.cosis, cosi)
		w.msgs = append(w.msgs, m)
		w.pubsets = append(w.pubsets, pubs)
		x, err := cosi.Challenge(pubs, m)
		if err != nil {
			w.chal = append(w.chal, nil)
		} else {
			w.chal = append(w.chal, cosih.LEInt(x.Bytes()))
		}
	}
	return w
}

func (w *world) do(h crypto.CosiNonce, c call) result {
	var res result
	res.pan, _ = vh.Catch(func() {
		res.s, res.err = h.Response(w.cosis[c.ctx], &w.privs[c.priv], w.pubsets[c.ctx], w.msgs[c.ctx])
	})
	return res
}

func nresTerm(r result) string {
	switch {
	case r.pan:
		return "NPanic"
	case r.err == nil:
		return "(NOk " + cosih.ZB(cosih.LEInt(r.s[:])) + ")"
	case errors.Is(r.err, crypto.ErrCosiNonceReuse):
		return "NReuse"
	default:
		return "NErr"
	}
}

// oracle over all calls made on one nonce, in any order
func oracle(c *vh.Ctx, cs Case, w *world, calls []call, res []result) {
	var c0 *big.Int
	var s0 *[32]byte
	first := -1
	for i, r := range res {
		if r.pan {
			c.Fail("respond-panic", "Response panicked", cs)
			return
		}
		if r.err == nil {
			ch := w.chal[calls[i].ctx]
			if ch == nil {
				c.Fail("respond-without-challenge", "a response was produced although the challenge cannot be computed", cs)
				return
			}
			if c0 == nil {
				c0, s0, first = ch, r.s, i
				continue
			}
			if ch.Cmp(c0) != 0 {
				// two accepted answers under one nonce: the private key follows
				d := new(big.Int).Sub(ch, c0)
				d.Mod(d, cosih.L)
				inv := new(big.Int).ModInverse(d, cosih.L)
				k := new(big.Int).Sub(cosih.LEInt(r.s[:]), cosih.LEInt(s0[:]))
				k.Mul(k, inv).Mod(k, cosih.L)
				leaked := ""
				for pi, p := range w.privs {
					if cosih.LEInt(p[:]).Cmp(k) == 0 {
						leaked = fmt.Sprintf("; (s1-s2)/(c1-c2) is private key %d", pi)
					}
				}
				c.Fail("two-challenges-answered", fmt.Sprintf("one nonce answered two different challenges (calls %d and %d)%s", first, i, leaked), cs)
				return
			}
			if *r.s != *s0 {
				c.Fail("same-challenge-different-response", fmt.Sprintf("calls %d and %d carry the same challenge but got different responses", first, i), cs)
				return
			}
		}
	}
	anyValid := false
	for i, r := range res {
		ch := w.chal[calls[i].ctx]
		if ch != nil {
			anyValid = true
		}
		if r.err == nil {
			continue
		}
		if ch == nil {
			if errors.Is(r.err, crypto.ErrCosiNonceReuse) {
				c.Fail("reuse-error-misplaced", "reuse error for a call whose challenge cannot be computed", cs)
			}
			continue
		}
		if c0 != nil && ch.Cmp(c0) == 0 {
			c.Fail("same-challenge-refused", fmt.Sprintf("call %d repeats the accepted challenge but was refused: %v", i, r.err), cs)
			return
		}
		if !errors.Is(r.err, crypto.ErrCosiNonceReuse) {
			c.Fail("different-challenge-wrong-error", fmt.Sprintf("call %d with a different challenge got %v, not the nonce-reuse error", i, r.err), cs)
			return
		}
	}
	if anyValid && c0 == nil {
		c.Fail("nobody-answered", "no call was answered although the nonce was fresh", cs)
	}
	if c0 != nil {
		// the accepted response is the Schnorr share of some offered private key
		ok := false
		for i := range res {
			if w.chal[calls[i].ctx] != nil && w.chal[calls[i].ctx].Cmp(c0) == 0 {
				want := new(big.Int).Mul(c0, cosih.LEInt(w.privs[calls[i].priv][:]))
				want.Add(want, w.random).Mod(want, cosih.L)
				if want.Cmp(cosih.LEInt(s0[:])) == 0 {
					ok = true
				}
			}
		}
		if !ok {
			c.Fail("response-value", "the response is not c*a + r for any offered private key", cs)
		}
	}
}

// modelCase orders the calls as a linearisation: the call that consumed the
// nonce (its response equals c*a+r for its own private key) first.
func modelCase(cs Case, w *world, calls []call, res []result) string {
	win := -1
	for i, r := range res {
		if r.err == nil && !r.pan && w.chal[calls[i].ctx] != nil {
			want := new(big.Int).Mul(w.chal[calls[i].ctx], cosih.LEInt(w.privs[calls[i].priv][:]))
			want.Add(want, w.random).Mod(want, cosih.L)
			if want.Cmp(cosih.LEInt(r.s[:])) == 0 {
				win = i
				break
			}
		}
	}
	ord := make([]int, 0, len(calls))
	if win >= 0 {
		ord = append(ord, win)
	}
	for i := range calls {
		if i != win {
			ord = append(ord, i)
		}
	}
	var reqs, obs []string
	for _, i := range ord {
		ch := vh.None("Z")
		if w.chal[calls[i].ctx] != nil {
			ch = vh.Some(cosih.ZB(w.chal[calls[i].ctx]))
		}
		reqs = append(reqs, "("+ch+", "+cosih.ZB(cosih.LEInt(w.privs[calls[i].priv][:]))+")")
		obs = append(obs, nresTerm(res[i]))
	}
	return vh.App("CNonce", cosih.ZB(w.random), vh.List(reqs, "(option Z * Z)"), vh.List(obs, "nres"))
}

func pickCalls(cs Case, r *vh.Rand, n int) []call {
	calls := make([]call, n)
	hot := r.Intn(cs.Ctx)
	for i := range calls {
		ctx := r.Intn(cs.Ctx)
		if r.Bool() {
			ctx = hot // identical challenges are common
		}
		calls[i] = call{ctx: ctx, priv: r.Intn(cs.N)}
		if r.Chance(3, 4) {
			calls[i].priv = 0
		}
	}
	return calls
}

func runSeq(c *vh.Ctx, cs Case) {
	r := vh.NewRand(cs.Seed, "c12-seq")
	w := build(cs, r)
	calls := pickCalls(cs, r, cs.Calls)
	res := make([]result, len(calls))
	for i, cl := range calls {
		h := *w.nonce // a copy of the handle
		res[i] = w.do(h, cl)
	}
	oracle(c, cs, w, calls, res)
	// sequential: the order of the calls is the linearisation
	var reqs, obs []string
	for i := range calls {
		ch := vh.None("Z")
		if w.chal[calls[i].ctx] != nil {
			ch = vh.Some(cosih.ZB(w.chal[calls[i].ctx]))
		}
		reqs = append(reqs, "("+ch+", "+cosih.ZB(cosih.LEInt(w.privs[calls[i].priv][:]))+")")
		obs = append(obs, nresTerm(res[i]))
	}
	term := vh.App("CNonce", cosih.ZB(w.random), vh.List(reqs, "(option Z * Z)"), vh.List(obs, "nres"))
	c.Case("seq", fmt.Sprintf("%+v", cs), true, cs, term)
}

func runRace(c *vh.Ctx, cs Case) {
	r := vh.NewRand(cs.Seed, "c12-race")
	w := build(cs, r)
	const perG = 2
	calls := pickCalls(cs, r, cs.Calls*perG)
	res := make([]result, len(calls))
	var wg sync.WaitGroup
	start := make(chan struct{})
	for g := 0; g < cs.Calls; g++ {
		wg.Add(1)
		go func(g int) {
			defer wg.Done()
			h := *w.nonce // every goroutine works on its own copy of the handle
			<-start
			for k := 0; k < perG; k++ {
				res[g*perG+k] = w.do(h, calls[g*perG+k])
			}
		}(g)
	}
	close(start)
	wg.Wait()
	oracle(c, cs, w, calls, res)
	c.Case("race", fmt.Sprintf("%+v", cs), true, cs, modelCase(cs, w, calls, res))
	if !crypto.VerifCosiNonceUsed(w.nonce) {
		for _, rr := range res {
			if rr.err == nil && !rr.pan {
				c.Fail("not-marked-used", "a response was handed out but the nonce is not marked used", cs)
				break
			}
		}
	}
}

// ---- retention ---------------------------------------------------------------------

func snapHash(i int) crypto.Hash {
	var h crypto.Hash
	binary.BigEndian.PutUint64(h[24:], uint64(i)+1)
	return h
}

func runRet(c *vh.Ctx, cs Case) {
	r := vh.NewRand(cs.Seed, "c12-ret")
	v := kernel.VerifNewNonceRetention()
	type nn struct {
		n *crypto.CosiNonce
		c crypto.Key
	}
	var all []nn
	fresh := func() nn {
		k, _ := cosih.SeedKey(r)
		n := crypto.VerifNewCosiNonce(&k)
		x := nn{n, n.Public()}
		all = append(all, x)
		return x
	}
	bound := map[crypto.Key]crypto.Hash{} // commitment -> the snapshot hash it was handed out for
	var ops, obs []string
	nsnap := 2 + r.Intn(5)
	for step := 0; step < cs.Calls; step++ {
		if len(all) == 0 || r.Chance(1, 4) {
			k := 1 + r.Intn(3)
			var el []string
			for i := 0; i < k; i++ {
				x := fresh()
				v.AddRandom(x.n)
				el = append(el, cosih.NBytes(x.c[:]))
			}
			ops = append(ops, vh.App("RPrepare", vh.List(el, "N")))
			obs = append(obs, vh.None("(N * N)"))
			continue
		}
		x := all[r.Intn(len(all))]
		cm := x.c
		if r.Chance(1, 10) { // a commitment nobody generated
			k, _ := cosih.SeedKey(r)
			cm = k.Public()
		}
		snap := snapHash(r.Intn(nsnap))
		got := v.Retrieve(snap, cm)
		ops = append(ops, vh.App("RRetrieve", cosih.NBytes(snap[:]), cosih.NBytes(cm[:])))
		if got == nil {
			obs = append(obs, vh.None("(N * N)"))
			continue
		}
		gc := got.Public()
		obs = append(obs, vh.Some("("+cosih.NBytes(snap[:])+", "+cosih.NBytes(gc[:])+")"))
		if gc != cm {
			c.Fail("retrieve-other-commitment", "cosiRetrieveRandom returned a nonce with another commitment", cs)
		}
		if prev, ok := bound[gc]; ok && prev != snap {
			c.Fail("commitment-two-snapshots", "one commitment was handed out for two different snapshot hashes", cs)
		}
		bound[gc] = snap
		if got != x.n && cm == x.c {
			c.Fail("retrieve-other-handle", "the handed-out handle is not the generated one", cs)
		}
	}
	_, used, order := v.Sizes()
	term := vh.App("CRet", vh.List(ops, "rop"), vh.List(obs, "(option (N * N))"),
		"("+vh.ZI(int64(used))+", "+vh.ZI(int64(order))+")")
	c.Case("ret", fmt.Sprintf("%+v", cs), true, cs, term)
}

// eviction at the real bound (oracle only: the association-list model cannot
// hold 131072 entries): a commitment bound to a snapshot is returned again for
// that snapshot while retained, never for another snapshot, and is
// unobtainable once enough newer snapshots evicted it.
func runEvict(c *vh.Ctx, cs Case) {
	r := vh.NewRand(cs.Seed, "c12-evict")
	v := kernel.VerifNewNonceRetention()
	k, _ := cosih.SeedKey(r)
	n := crypto.VerifNewCosiNonce(&k)
	v.AddRandom(n)
	cm := n.Public()
	s0 := snapHash(0)
	if v.Retrieve(s0, cm) != n {
		c.Fail("retrieve-fresh", "a generated commitment could not be retrieved", cs)
	}
	fk, _ := cosih.SeedKey(r)
	filler := crypto.VerifNewCosiNonce(&fk)
	_, used0, _ := v.Sizes()
	limit := 0
	for i := 1; i <= 1<<19; i++ {
		v.Retain(snapHash(1<<30+i), filler)
		if _, still := v.Bound(s0); !still {
			limit = i
			break
		}
		if i%8192 == 0 || i < 4 { // while retained: returned for its snapshot, refused for any other
			if v.Retrieve(s0, cm) != n {
				c.Fail("retained-not-returned", "a retained binding did not return its nonce", cs)
				break
			}
			if v.Retrieve(snapHash(3), cm) != nil {
				c.Fail("commitment-two-snapshots", "a retained commitment was handed out for another snapshot hash", cs)
				break
			}
		}
	}
	_, used1, order1 := v.Sizes()
	if limit == 0 {
		c.Fail("never-evicted", "the binding was never evicted", cs)
	}
	if v.Retrieve(s0, cm) != nil || v.Retrieve(snapHash(5), cm) != nil {
		c.Fail("obtainable-after-eviction", "an evicted commitment was handed out again", cs)
	}
	if used1 != order1 || used1 < used0 {
		c.Fail("retention-sizes", fmt.Sprintf("UsedRandoms %d / order %d out of step", used1, order1), cs)
	}
	c.Case("evict", fmt.Sprintf("%+v", cs), limit > 0, cs, "")
}

func run(c *vh.Ctx, cs Case) {
	switch cs.Kind {
	case "race":
		runRace(c, cs)
	case "seq":
		runSeq(c, cs)
	case "ret":
		runRet(c, cs)
	case "evict":
		runEvict(c, cs)
	default:
		panic("unknown kind " + cs.Kind)
	}
}

func main() {
	c := vh.Start("C12")
	c.Rep.Rule = "race: 16 goroutines x 2 calls on copies of one CosiNonce handle (nonce from CosiCommitNonce over a seeded reader), " +
		"2..5 challenge contexts (aggregated commitment sets over 2..6 keys x messages; sometimes one whose Challenge() fails), half of the calls " +
		"on one hot context, private key mostly the signer's; seq: 1..12 sequential calls on handle copies; ret: 10..40 operations on the kernel's " +
		"CosiRandoms/UsedRandoms maps (prepare fresh nonces / cosiRetrieveRandom over 2..6 snapshot hashes, known and unknown commitments); evict: " +
		"a binding followed to its eviction at the real retention bound. Non-trivial = at least one call reached the critical section; distinct by scenario."
	if c.Replay != "" {
		var cs Case
		c.ReplayCase(&cs)
		run(c, cs)
		c.Finish()
		return
	}
	// corpus: one context only (all identical), two contexts, failing context present
	for _, cs := range []Case{
		{Kind: "seq", Seed: 1, N: 2, Calls: 3, Ctx: 1}, {Kind: "seq", Seed: 2, N: 2, Calls: 6, Ctx: 2},
		{Kind: "seq", Seed: 3, N: 3, Calls: 8, Ctx: 3}, {Kind: "race", Seed: 4, N: 2, Calls: 16, Ctx: 1},
		{Kind: "race", Seed: 5, N: 3, Calls: 16, Ctx: 2}, {Kind: "ret", Seed: 6, N: 0, Calls: 12}, {Kind: "evict", Seed: 7},
	} {
		run(c, cs)
	}
	n := c.Scale(600, 20000)
	for i := 0; i < n; i++ {
		r := c.Rng
		switch r.Intn(10) {
		case 0, 1, 2, 3, 4:
			run(c, Case{Kind: "race", Seed: r.U64(), N: r.Range(2, 6), Calls: 16, Ctx: r.Range(2, 5)})
		case 5, 6, 7:
			run(c, Case{Kind: "seq", Seed: r.U64(), N: r.Range(2, 6), Calls: r.Range(1, 12), Ctx: r.Range(1, 5)})
		default:
			run(c, Case{Kind: "ret", Seed: r.U64(), Calls: r.Range(10, 40)})
		}
	}
	if c.Tier != "quick" {
		run(c, Case{Kind: "evict", Seed: c.Rng.U64()})
	}
	c.Finish()
}
