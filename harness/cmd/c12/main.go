// C12 harness: a CoSi nonce handle (crypto/nonce.go) answers at most one
// challenge.  Real concurrency: 16 goroutines call Response on copies of one
// handle with mixed identical / different challenges; sequential schedules for
// exact model comparison; the kernel's nonce retention maps driven through
// kernel.VerifNonceRetention.  Oracle (from the property text): never two
// accepted (challenge, response) pairs with different challenges from one nonce
// (the private key would be (s1-s2)/(c1-c2)); the same challenge returns the
// identical response; a different challenge returns ErrCosiNonceReuse; a
// commitment handed out by the kernel is bound to one snapshot hash while it is
// retained and cannot be obtained after eviction.
package main

import (
	"encoding/binary"
	"errors"
	"fmt"
	"math/big"
	"sync"
	"time"

	"github.com/MixinNetwork/mixin/crypto"
	"github.com/MixinNetwork/mixin/kernel"
	"verifharness/cmd/c13/cosih"
	"verifharness/vh"
)

type Case struct {
	Kind  string `json:"kind"` // race | seq | ret | evict
	Seed  uint64 `json:"seed"`
	N     int    `json:"n"`     // keys
	Calls int    `json:"calls"` // calls (seq) / goroutines (race) / ops (ret)
	Ctx   int    `json:"ctx"`   // distinct challenge contexts
}

type call struct {
	ctx  int // which (cosi, message) context
	priv int // which private key
}

type result struct {
	s   *[32]byte
	err error
	pan bool
}

type world struct {
	privs   []crypto.Key
	publics []*crypto.Key
	cosis   []*crypto.CosiSignature
	msgs    []crypto.Hash
	pubsets [][]*crypto.Key
	chal    []*big.Int // nil: Challenge() fails in this context
	nonce   *crypto.CosiNonce
	random  *big.Int
}

type seedReader struct{ b []byte }

func (s *seedReader) Read(p []byte) (int, error) { return copy(p, s.b), nil }

// build: key vector, our nonce (through CosiCommitNonce), other signers'
// commitments, and cs.Ctx contexts with pairwise different challenges plus,
// sometimes, a context whose challenge cannot be computed.
func build(cs Case, r *vh.Rand) *world {
	w := &world{}
	for i := 0; i < cs.N; i++ {
		k, _ := cosih.SeedKey(r)
		w.privs = append(w.privs, k)
		p := k.Public()
		w.publics = append(w.publics, &p)
	}
	seed := r.Bytes(64)
	w.nonce = crypto.CosiCommitNonce(&seedReader{seed})
	rk := crypto.NewKeyFromSeed(seed)
	w.random = cosih.LEInt(rk[:])
	me := r.Intn(cs.N)
	for j := 0; j < cs.Ctx; j++ {
		randoms := map[int]*crypto.Key{}
		R := w.nonce.Public()
		randoms[me] = &R
		for i := 0; i < cs.N; i++ {
			if i != me && r.Bool() {
				ok, _ := cosih.SeedKey(r)
				p := ok.Public()
				randoms[i] = &p
			}
		}
		pubs := w.publics
		if j == cs.Ctx-1 && cs.Ctx > 2 && r.Chance(1, 3) {
			randoms[cs.N+r.Intn(3)] = &R // mask index outside the key vector: Challenge() fails
		}
		cosi, err := crypto.CosiAggregateCommitment(randoms)
		if err != nil {
			panic(err)
		}
		var m crypto.Hash
		copy(m[:], r.Bytes(32))
		if j > 0 && r.Chance(1, 4) { // same signature value, other message
			cosi = w.cosis[j-1]
		}
		w.cosis = append(w.cosis, cosi)
		w.msgs = append(w.msgs, m)
		w.pubsets = append(w.pubsets, pubs)
		x, err := cosi.Challenge(pubs, m)
		if err != nil {
			w.chal = append(w.chal, nil)
		} else {
			w.chal = append(w.chal, cosih.LEInt(x.Bytes()))
		}
	}
	return w
}

func (w *world) do(h crypto.CosiNonce, c call) result {
	var res result
	res.pan, _ = vh.Catch(func() {
		res.s, res.err = h.Response(w.cosis[c.ctx], &w.privs[c.priv], w.pubsets[c.ctx], w.msgs[c.ctx])
	})
	return res
}

func nresTerm(r result) string {
	switch {
	case r.pan:
		return "NPanic"
	case r.err == nil:
		return "(NOk " + cosih.ZB(cosih.LEInt(r.s[:])) + ")"
	case errors.Is(r.err, crypto.ErrCosiNonceReuse):
		return "NReuse"
	default:
		return "NErr"
	}
}

// (c) across ALL handles of the run: no two accepted (challenge, response)
// pairs with different challenges may share a commitment R; the key-recovery
// formula is attempted on every such pair.
type acceptedPair struct {
	ch, s, priv *big.Int
}

var (
	registryMu sync.Mutex
	registry   = map[crypto.Key][]acceptedPair{}
)

func record(c *vh.Ctx, cs Case, R crypto.Key, ch, s, priv *big.Int) {
	registryMu.Lock()
	defer registryMu.Unlock()
	for _, o := range registry[R] {
		d := new(big.Int).Sub(ch, o.ch)
		d.Mod(d, cosih.L)
		if d.Sign() == 0 {
			continue
		}
		k := new(big.Int).Sub(s, o.s)
		k.Mul(k, new(big.Int).ModInverse(d, cosih.L)).Mod(k, cosih.L)
		if k.Cmp(priv) == 0 || k.Cmp(o.priv) == 0 {
			c.Fail("key-recovered", fmt.Sprintf("two accepted responses to different challenges share the commitment %x: (s1-s2)/(c1-c2) is the signer's private key", R[:8]), cs)
		} else {
			c.Fail("commitment-two-challenges", fmt.Sprintf("two accepted responses to different challenges share the commitment %x", R[:8]), cs)
		}
		return
	}
	registry[R] = append(registry[R], acceptedPair{ch, s, priv})
}

// oracle over all calls made on one nonce, in any order
func oracle(c *vh.Ctx, cs Case, w *world, calls []call, res []result) {
	var c0 *big.Int
	var s0 *[32]byte
	first := -1
	for i, r := range res {
		if r.pan {
			c.Fail("respond-panic", "Response panicked", cs)
			return
		}
		if r.err == nil {
			ch := w.chal[calls[i].ctx]
			if ch == nil {
				c.Fail("respond-without-challenge", "a response was produced although the challenge cannot be computed", cs)
				return
			}
			if c0 == nil {
				c0, s0, first = ch, r.s, i
				continue
			}
			if ch.Cmp(c0) != 0 {
				// two accepted answers under one nonce: the private key follows
				d := new(big.Int).Sub(ch, c0)
				d.Mod(d, cosih.L)
				inv := new(big.Int).ModInverse(d, cosih.L)
				k := new(big.Int).Sub(cosih.LEInt(r.s[:]), cosih.LEInt(s0[:]))
				k.Mul(k, inv).Mod(k, cosih.L)
				leaked := ""
				for pi, p := range w.privs {
					if cosih.LEInt(p[:]).Cmp(k) == 0 {
						leaked = fmt.Sprintf("; (s1-s2)/(c1-c2) is private key %d", pi)
					}
				}
				c.Fail("two-challenges-answered", fmt.Sprintf("one nonce answered two different challenges (calls %d and %d)%s", first, i, leaked), cs)
				return
			}
			if *r.s != *s0 {
				c.Fail("same-challenge-different-response", fmt.Sprintf("calls %d and %d carry the same challenge but got different responses", first, i), cs)
				return
			}
		}
	}
	anyValid := false
	for i, r := range res {
		ch := w.chal[calls[i].ctx]
		if ch != nil {
			anyValid = true
		}
		if r.err == nil {
			continue
		}
		if ch == nil {
			if errors.Is(r.err, crypto.ErrCosiNonceReuse) {
				c.Fail("reuse-error-misplaced", "reuse error for a call whose challenge cannot be computed", cs)
			}
			continue
		}
		if c0 != nil && ch.Cmp(c0) == 0 {
			c.Fail("same-challenge-refused", fmt.Sprintf("call %d repeats the accepted challenge but was refused: %v", i, r.err), cs)
			return
		}
		if !errors.Is(r.err, crypto.ErrCosiNonceReuse) {
			c.Fail("different-challenge-wrong-error", fmt.Sprintf("call %d with a different challenge got %v, not the nonce-reuse error", i, r.err), cs)
			return
		}
	}
	if anyValid && c0 == nil {
		c.Fail("nobody-answered", "no call was answered although the nonce was fresh", cs)
	}
	if c0 != nil {
		record(c, cs, w.nonce.Public(), c0, cosih.LEInt(s0[:]), cosih.LEInt(w.privs[calls[first].priv][:]))
	}
	if c0 != nil {
		// the accepted response is the Schnorr share of some offered private key
		ok := false
		for i := range res {
			if w.chal[calls[i].ctx] != nil && w.chal[calls[i].ctx].Cmp(c0) == 0 {
				want := new(big.Int).Mul(c0, cosih.LEInt(w.privs[calls[i].priv][:]))
				want.Add(want, w.random).Mod(want, cosih.L)
				if want.Cmp(cosih.LEInt(s0[:])) == 0 {
					ok = true
				}
			}
		}
		if !ok {
			c.Fail("response-value", "the response is not c*a + r for any offered private key", cs)
		}
	}
}

// modelCase orders the calls as a linearisation: the call that consumed the
// nonce (its response equals c*a+r for its own private key) first.
func modelCase(cs Case, w *world, calls []call, res []result) string {
	win := -1
	for i, r := range res {
		if r.err == nil && !r.pan && w.chal[calls[i].ctx] != nil {
			want := new(big.Int).Mul(w.chal[calls[i].ctx], cosih.LEInt(w.privs[calls[i].priv][:]))
			want.Add(want, w.random).Mod(want, cosih.L)
			if want.Cmp(cosih.LEInt(r.s[:])) == 0 {
				win = i
				break
			}
		}
	}
	ord := make([]int, 0, len(calls))
	if win >= 0 {
		ord = append(ord, win)
	}
	for i := range calls {
		if i != win {
			ord = append(ord, i)
		}
	}
	var reqs, obs []string
	for _, i := range ord {
		ch := vh.None("Z")
		if w.chal[calls[i].ctx] != nil {
			ch = vh.Some(cosih.ZB(w.chal[calls[i].ctx]))
		}
		reqs = append(reqs, "("+ch+", "+cosih.ZB(cosih.LEInt(w.privs[calls[i].priv][:]))+")")
		obs = append(obs, nresTerm(res[i]))
	}
	return vh.App("CNonce", cosih.ZB(w.random), vh.List(reqs, "(option Z * Z)"), vh.List(obs, "nres"))
}

func pickCalls(cs Case, r *vh.Rand, n int) []call {
	calls := make([]call, n)
	hot := r.Intn(cs.Ctx)
	for i := range calls {
		ctx := r.Intn(cs.Ctx)
		if r.Bool() {
			ctx = hot // identical challenges are common
		}
		calls[i] = call{ctx: ctx, priv: r.Intn(cs.N)}
		if r.Chance(3, 4) {
			calls[i].priv = 0
		}
	}
	return calls
}

func runSeq(c *vh.Ctx, cs Case) {
	r := vh.NewRand(cs.Seed, "c12-seq")
	w := build(cs, r)
	calls := pickCalls(cs, r, cs.Calls)
	res := make([]result, len(calls))
	for i, cl := range calls {
		h := *w.nonce // a copy of the handle
		res[i] = w.do(h, cl)
	}
	oracle(c, cs, w, calls, res)
	// sequential: the order of the calls is the linearisation
	var reqs, obs []string
	for i := range calls {
		ch := vh.None("Z")
		if w.chal[calls[i].ctx] != nil {
			ch = vh.Some(cosih.ZB(w.chal[calls[i].ctx]))
		}
		reqs = append(reqs, "("+ch+", "+cosih.ZB(cosih.LEInt(w.privs[calls[i].priv][:]))+")")
		obs = append(obs, nresTerm(res[i]))
	}
	term := vh.App("CNonce", cosih.ZB(w.random), vh.List(reqs, "(option Z * Z)"), vh.List(obs, "nres"))
	c.Case("seq", fmt.Sprintf("%+v", cs), true, cs, term)
}

func runRace(c *vh.Ctx, cs Case) {
	r := vh.NewRand(cs.Seed, "c12-race")
	w := build(cs, r)
	const perG = 2
	calls := pickCalls(cs, r, cs.Calls*perG)
	res := make([]result, len(calls))
	var wg sync.WaitGroup
	start := make(chan struct{})
	for g := 0; g < cs.Calls; g++ {
		wg.Add(1)
		go func(g int) {
			defer wg.Done()
			h := *w.nonce // every goroutine works on its own copy of the handle
			<-start
			for k := 0; k < perG; k++ {
				res[g*perG+k] = w.do(h, calls[g*perG+k])
			}
		}(g)
	}
	close(start)
	wg.Wait()
	oracle(c, cs, w, calls, res)
	c.Case("race", fmt.Sprintf("%+v", cs), true, cs, modelCase(cs, w, calls, res))
	if !crypto.VerifCosiNonceUsed(w.nonce) {
		for _, rr := range res {
			if rr.err == nil && !rr.pan {
				c.Fail("not-marked-used", "a response was handed out but the nonce is not marked used", cs)
				break
			}
		}
	}
}

// ---- construction ------------------------------------------------------------------

// (a) many nonces constructed concurrently (cs.Calls goroutines x cs.N) and
// sequentially, each from its own reader: all commitments pairwise distinct and
// each the commitment of its own seed.
func runConstruct(c *vh.Ctx, cs Case) {
	r := vh.NewRand(cs.Seed, "c12-construct")
	type made struct {
		seed []byte
		n    *crypto.CosiNonce
	}
	total := cs.Calls*cs.N + 2*cs.N
	all := make([]made, total)
	for i := range all {
		all[i].seed = r.Bytes(64)
	}
	var wg sync.WaitGroup
	start := make(chan struct{})
	for g := 0; g < cs.Calls; g++ {
		wg.Add(1)
		go func(g int) {
			defer wg.Done()
			<-start
			for i := 0; i < cs.N; i++ {
				m := &all[g*cs.N+i]
				vh.Catch(func() { m.n = crypto.CosiCommitNonce(&seedReader{m.seed}) })
			}
		}(g)
	}
	close(start)
	wg.Wait()
	for i := cs.Calls * cs.N; i < total; i++ { // sequential
		m := &all[i]
		vh.Catch(func() { m.n = crypto.CosiCommitNonce(&seedReader{m.seed}) })
	}
	seen := map[crypto.Key]int{}
	ok := true
	for i := range all {
		if all[i].n == nil {
			c.Fail("construct-panic", "CosiCommitNonce panicked", cs)
			return
		}
		R := all[i].n.Public()
		if j, dup := seen[R]; dup {
			ok = false
			c.Fail("duplicate-commitment", fmt.Sprintf("nonces %d and %d built from different random bytes carry the same commitment %x", j, i, R[:8]), cs)
			crossAnswer(c, cs, r, all[j].n, all[i].n)
			break
		}
		seen[R] = i
		own := crypto.NewKeyFromSeed(all[i].seed)
		if own.Public() != R {
			ok = false
			c.Fail("nonce-not-own-seed", fmt.Sprintf("nonce %d does not carry the commitment of the random bytes it was built from", i), cs)
			break
		}
	}
	c.Case("construct", fmt.Sprintf("%+v", cs), ok, cs, "")
}

// two handles, one private key, two different challenges: what an attacker sees
func crossAnswer(c *vh.Ctx, cs Case, r *vh.Rand, a, b *crypto.CosiNonce) (ca, cb *big.Int, sa, sb *[32]byte, priv *big.Int) {
	k, kz := cosih.SeedKey(r)
	p := k.Public()
	pubs := []*crypto.Key{&p}
	do := func(n *crypto.CosiNonce) (*big.Int, *[32]byte) {
		R := n.Public()
		cosi, err := crypto.CosiAggregateCommitment(map[int]*crypto.Key{0: &R})
		if err != nil {
			return nil, nil
		}
		var m crypto.Hash
		copy(m[:], r.Bytes(32))
		x, err := cosi.Challenge(pubs, m)
		if err != nil {
			return nil, nil
		}
		var s *[32]byte
		vh.Catch(func() { s, _ = n.Response(cosi, &k, pubs, m) })
		ch := cosih.LEInt(x.Bytes())
		if s != nil {
			record(c, cs, R, ch, cosih.LEInt(s[:]), kz)
		}
		return ch, s
	}
	ca, sa = do(a)
	cb, sb = do(b)
	return ca, cb, sa, sb, kz
}

// (b) the interleaving is pinned: both Reads complete before either derivation
type pinnedReader struct {
	seed        []byte
	mine, other chan struct{}
}

func (p *pinnedReader) Read(b []byte) (int, error) {
	n := copy(b, p.seed)
	close(p.mine)
	select {
	case <-p.other:
	case <-time.After(300 * time.Millisecond): // the constructor serialises its reads: nothing to pin
	}
	return n, nil
}

func runPinned(c *vh.Ctx, cs Case) {
	r := vh.NewRand(cs.Seed, "c12-pinned")
	sa := r.Bytes(64)
	sb := r.Bytes(64)
	same := cs.Ctx%4 == 0
	if same {
		sb = append([]byte{}, sa...)
	}
	da, db := make(chan struct{}), make(chan struct{})
	ra, rb := &pinnedReader{sa, da, db}, &pinnedReader{sb, db, da}
	var na, nb *crypto.CosiNonce
	var wg sync.WaitGroup
	wg.Add(2)
	go func() { defer wg.Done(); vh.Catch(func() { na = crypto.CosiCommitNonce(ra) }) }()
	go func() { defer wg.Done(); vh.Catch(func() { nb = crypto.CosiCommitNonce(rb) }) }()
	wg.Wait()
	if na == nil || nb == nil {
		c.Fail("construct-panic", "CosiCommitNonce panicked", cs)
		return
	}
	Ra, Rb := na.Public(), nb.Public()
	if (Ra == Rb) != same {
		c.Fail("duplicate-commitment", fmt.Sprintf("two overlapping constructions: seeds equal=%v, commitments equal=%v", same, Ra == Rb), cs)
	}
	if same {
		c.Case("pinned-same-seed", fmt.Sprintf("%+v", cs), true, cs, "")
		return
	}
	ka, kb := crypto.NewKeyFromSeed(sa), crypto.NewKeyFromSeed(sb)
	ca, cb, ssa, ssb, priv := crossAnswer(c, cs, r, na, nb)
	term := func(seedKey crypto.Key, ch *big.Int, s *[32]byte) string {
		obs := "NErr"
		req := vh.None("Z")
		if ch != nil {
			req = vh.Some(cosih.ZB(ch))
			obs = "NPanic"
			if s != nil {
				obs = "(NOk " + cosih.ZB(cosih.LEInt(s[:])) + ")"
			}
		}
		return vh.App("CNonce", cosih.ZB(cosih.LEInt(seedKey[:])), vh.List([]string{"(" + req + ", " + cosih.ZB(priv) + ")"}, "(option Z * Z)"),
			vh.List([]string{obs}, "nres"))
	}
	// each handle answers as the nonce of ITS OWN random bytes (the model knows nothing else)
	c.Case("pinned", fmt.Sprintf("a|%+v", cs), true, cs, term(ka, ca, ssa))
	c.Case("pinned", fmt.Sprintf("b|%+v", cs), true, cs, term(kb, cb, ssb))
}

// ---- retention ---------------------------------------------------------------------

func snapHash(i int) crypto.Hash {
	var h crypto.Hash
	binary.BigEndian.PutUint64(h[24:], uint64(i)+1)
	return h
}

func runRet(c *vh.Ctx, cs Case) {
	r := vh.NewRand(cs.Seed, "c12-ret")
	v := kernel.VerifNewNonceRetention()
	type nn struct {
		n *crypto.CosiNonce
		c crypto.Key
	}
	var all []nn
	fresh := func() nn {
		k, _ := cosih.SeedKey(r)
		n := crypto.VerifNewCosiNonce(&k)
		x := nn{n, n.Public()}
		all = append(all, x)
		return x
	}
	bound := map[crypto.Key]crypto.Hash{} // commitment -> the snapshot hash it was handed out for
	var ops, obs []string
	nsnap := 2 + r.Intn(5)
	for step := 0; step < cs.Calls; step++ {
		if len(all) == 0 || r.Chance(1, 4) {
			k := 1 + r.Intn(3)
			var el []string
			for i := 0; i < k; i++ {
				x := fresh()
				v.AddRandom(x.n)
				el = append(el, cosih.NBytes(x.c[:]))
			}
			ops = append(ops, vh.App("RPrepare", vh.List(el, "N")))
			obs = append(obs, vh.None("(N * N)"))
			continue
		}
		x := all[r.Intn(len(all))]
		cm := x.c
		if r.Chance(1, 10) { // a commitment nobody generated
			k, _ := cosih.SeedKey(r)
			cm = k.Public()
		}
		snap := snapHash(r.Intn(nsnap))
		got := v.Retrieve(snap, cm)
		ops = append(ops, vh.App("RRetrieve", cosih.NBytes(snap[:]), cosih.NBytes(cm[:])))
		if got == nil {
			obs = append(obs, vh.None("(N * N)"))
			continue
		}
		gc := got.Public()
		obs = append(obs, vh.Some("("+cosih.NBytes(snap[:])+", "+cosih.NBytes(gc[:])+")"))
		if gc != cm {
			c.Fail("retrieve-other-commitment", "cosiRetrieveRandom returned a nonce with another commitment", cs)
		}
		if prev, ok := bound[gc]; ok && prev != snap {
			c.Fail("commitment-two-snapshots", "one commitment was handed out for two different snapshot hashes", cs)
		}
		bound[gc] = snap
		if got != x.n && cm == x.c {
			c.Fail("retrieve-other-handle", "the handed-out handle is not the generated one", cs)
		}
	}
	_, used, order := v.Sizes()
	term := vh.App("CRet", vh.List(ops, "rop"), vh.List(obs, "(option (N * N))"),
		"("+vh.ZI(int64(used))+", "+vh.ZI(int64(order))+")")
	c.Case("ret", fmt.Sprintf("%+v", cs), true, cs, term)
}

// eviction at the real bound (oracle only: the association-list model cannot
// hold 131072 entries): a commitment bound to a snapshot is returned again for
// that snapshot while retained, never for another snapshot, and is
// unobtainable once enough newer snapshots evicted it.
func runEvict(c *vh.Ctx, cs Case) {
	r := vh.NewRand(cs.Seed, "c12-evict")
	v := kernel.VerifNewNonceRetention()
	k, _ := cosih.SeedKey(r)
	n := crypto.VerifNewCosiNonce(&k)
	v.AddRandom(n)
	cm := n.Public()
	s0 := snapHash(0)
	if v.Retrieve(s0, cm) != n {
		c.Fail("retrieve-fresh", "a generated commitment could not be retrieved", cs)
	}
	fk, _ := cosih.SeedKey(r)
	filler := crypto.VerifNewCosiNonce(&fk)
	_, used0, _ := v.Sizes()
	limit := 0
	for i := 1; i <= 1<<19; i++ {
		v.Retain(snapHash(1<<30+i), filler)
		if _, still := v.Bound(s0); !still {
			limit = i
			break
		}
		if i%8192 == 0 || i < 4 { // while retained: returned for its snapshot, refused for any other
			if v.Retrieve(s0, cm) != n {
				c.Fail("retained-not-returned", "a retained binding did not return its nonce", cs)
				break
			}
			if v.Retrieve(snapHash(3), cm) != nil {
				c.Fail("commitment-two-snapshots", "a retained commitment was handed out for another snapshot hash", cs)
				break
			}
		}
	}
	_, used1, order1 := v.Sizes()
	if limit == 0 {
		c.Fail("never-evicted", "the binding was never evicted", cs)
	}
	if v.Retrieve(s0, cm) != nil || v.Retrieve(snapHash(5), cm) != nil {
		c.Fail("obtainable-after-eviction", "an evicted commitment was handed out again", cs)
	}
	if used1 != order1 || used1 < used0 {
		c.Fail("retention-sizes", fmt.Sprintf("UsedRandoms %d / order %d out of step", used1, order1), cs)
	}
	c.Case("evict", fmt.Sprintf("%+v", cs), limit > 0, cs, "")
}

func run(c *vh.Ctx, cs Case) {
	switch cs.Kind {
	case "race":
		runRace(c, cs)
	case "seq":
		runSeq(c, cs)
	case "ret":
		runRet(c, cs)
	case "evict":
		runEvict(c, cs)
	case "construct":
		runConstruct(c, cs)
	case "pinned":
		runPinned(c, cs)
	default:
		panic("unknown kind " + cs.Kind)
	}
}

func main() {
	c := vh.Start("C12")
	c.Rep.Rule = "race: 16 goroutines x 2 calls on copies of one CosiNonce handle (nonce from CosiCommitNonce over a seeded reader), " +
		"2..5 challenge contexts (aggregated commitment sets over 2..6 keys x messages; sometimes one whose Challenge() fails), half of the calls " +
		"on one hot context, private key mostly the signer's; seq: 1..12 sequential calls on handle copies; ret: 10..40 operations on the kernel's " +
		"CosiRandoms/UsedRandoms maps (prepare fresh nonces / cosiRetrieveRandom over 2..6 snapshot hashes, known and unknown commitments); evict: " +
		"a binding followed to its eviction at the real retention bound; construct: 16 goroutines x up to 200 plus sequential CosiCommitNonce calls over own readers, commitments pairwise distinct; pinned: two overlapping CosiCommitNonce calls whose readers both complete before either returns, commitments differ iff seeds differ, then each handle answers a different challenge; across all handles of the run no two accepted answers to different challenges share a commitment (key-recovery formula attempted). Non-trivial = at least one call reached the critical section; distinct by scenario."
	if c.Replay != "" {
		var cs Case
		c.ReplayCase(&cs)
		run(c, cs)
		c.Finish()
		return
	}
	// corpus: one context only (all identical), two contexts, failing context present
	for _, cs := range []Case{
		{Kind: "seq", Seed: 1, N: 2, Calls: 3, Ctx: 1}, {Kind: "seq", Seed: 2, N: 2, Calls: 6, Ctx: 2},
		{Kind: "seq", Seed: 3, N: 3, Calls: 8, Ctx: 3}, {Kind: "race", Seed: 4, N: 2, Calls: 16, Ctx: 1},
		{Kind: "race", Seed: 5, N: 3, Calls: 16, Ctx: 2}, {Kind: "ret", Seed: 6, N: 0, Calls: 12}, {Kind: "evict", Seed: 7},
		{Kind: "construct", Seed: 8, N: 200, Calls: 16}, {Kind: "pinned", Seed: 9, Ctx: 1}, {Kind: "pinned", Seed: 10, Ctx: 4},
		{Kind: "pinned", Seed: 11, Ctx: 2}, {Kind: "pinned", Seed: 12, Ctx: 3},
	} {
		run(c, cs)
	}
	n := c.Scale(600, 20000)
	for i := 0; i < n; i++ {
		r := c.Rng
		switch r.Intn(11) {
		case 10:
			if r.Chance(1, 8) {
				run(c, Case{Kind: "construct", Seed: r.U64(), N: r.Range(20, 200), Calls: 16})
			} else {
				run(c, Case{Kind: "pinned", Seed: r.U64(), Ctx: r.Intn(8)})
			}
		case 0, 1, 2, 3, 4:
			run(c, Case{Kind: "race", Seed: r.U64(), N: r.Range(2, 6), Calls: 16, Ctx: r.Range(2, 5)})
		case 5, 6, 7:
			run(c, Case{Kind: "seq", Seed: r.U64(), N: r.Range(2, 6), Calls: r.Range(1, 12), Ctx: r.Range(1, 5)})
		default:
			run(c, Case{Kind: "ret", Seed: r.U64(), Calls: r.Range(10, 40)})
		}
	}
	if c.Tier != "quick" {
		run(c, Case{Kind: "evict", Seed: c.Rng.U64()})
	}
	c.Finish()
}
