// C28 harness: transaction classes, the kernel's batch rules, the consensus
// reference check and CONSENSUSSNAPSHOT write sequences, all on the real code:
// common.TransactionType / IsSnapshotBatchable, the node's validateKernelSnapshot
// and validateConsensusTransactionReferences (hooks), storage.WriteSnapshot +
// WriteConsensusSnapshot on a real Badger store.
//
// Oracle (property text): an accepted snapshot with more than one transaction
// holds only batchable classes; an accepted mint / membership / custodian
// operation is alone, references the last recorded consensus operation and has
// a strictly later timestamp (or is that last operation itself); after every
// write the recorded history is one chain.
package main

import (
	"encoding/hex"
	"fmt"
	"sort"

	"github.com/MixinNetwork/mixin/common"
	"github.com/MixinNetwork/mixin/config"
	"github.com/MixinNetwork/mixin/crypto"
	"github.com/MixinNetwork/mixin/kernel"
	"verifharness/vh"
)

type TxShape struct {
	Ins   []string `json:"ins"`  // mint | deposit | genesis | utxo
	Outs  []int    `json:"outs"` // output type codes
	Refs  []string `json:"refs"` // hex hashes
	Batch uint64   `json:"batch"`
	Tag   string   `json:"tag"`
	Known string   `json:"known,omitempty"` // hex hash of a stored transaction used as is
}

type ChainOp struct {
	Kind    string  `json:"kind"` // mint | genesis-accept | script
	Shape   TxShape `json:"shape"`
	Ts      uint64  `json:"ts"`
	Snap    string  `json:"snap"` // ok | wrong-sole | two
	RefMode string  `json:"ref_mode"`
	Force   bool    `json:"force"` // call WriteConsensusSnapshot even when the reference check refuses
}

type Case struct {
	Op        string    `json:"op"` // type | kernel | refs | chain
	Net       string    `json:"net,omitempty"`
	Shapes    []TxShape `json:"shapes,omitempty"`
	Txs       []int     `json:"txs,omitempty"`   // indices into Shapes (snapshot members)
	Found     []int     `json:"found,omitempty"` // indices into Shapes present in the found map
	Self      bool      `json:"self,omitempty"`
	Round     uint64    `json:"round,omitempty"`
	Ts        uint64    `json:"ts,omitempty"`
	Finalized bool      `json:"finalized,omitempty"`
	Ops       []ChainOp `json:"ops,omitempty"`
	Genesis   bool      `json:"genesis_ops,omitempty"`
	SnapTx    *SnapTx   `json:"snaptx,omitempty"`
	Restart   *Restart  `json:"restart,omitempty"`
	Recorded  *Recorded `json:"recorded,omitempty"`
}

// classes named by the property text
var batchableClasses = map[uint8]bool{
	common.TransactionTypeScript: true, common.TransactionTypeDeposit: true,
	common.TransactionTypeWithdrawalSubmit: true, common.TransactionTypeWithdrawalClaim: true,
}
var consensusClasses = map[uint8]bool{
	common.TransactionTypeMint: true, common.TransactionTypeNodePledge: true, common.TransactionTypeNodeAccept: true,
	common.TransactionTypeNodeCancel: true, common.TransactionTypeNodeRemove: true,
	common.TransactionTypeCustodianUpdateNodes: true, common.TransactionTypeCustodianSlashNodes: true,
}

var outTypes = []int{common.OutputTypeScript, common.OutputTypeWithdrawalSubmit, common.OutputTypeWithdrawalClaim,
	common.OutputTypeNodePledge, common.OutputTypeNodeCancel, common.OutputTypeNodeAccept, common.OutputTypeNodeRemove,
	common.OutputTypeCustodianUpdateNodes, common.OutputTypeCustodianSlashNodes, 0x77}

func hx(h crypto.Hash) string { return hex.EncodeToString(h[:]) }
func unhx(s string) crypto.Hash {
	var h crypto.Hash
	b, err := hex.DecodeString(s)
	if err != nil || len(b) != 32 {
		panic("bad hash " + s)
	}
	copy(h[:], b)
	return h
}

var user = seedAddr("user", 0)

func buildTx(sh TxShape) *common.VersionedTransaction {
	tx := common.NewTransactionV5(common.XINAssetId)
	for i, k := range sh.Ins {
		switch k {
		case "mint":
			tx.AddUniversalMintInput(sh.Batch, common.NewInteger(1))
		case "deposit":
			tx.AddDepositInput(&common.DepositData{Chain: common.EthereumAssetId, AssetKey: "0xa", Transaction: sh.Tag, Index: uint64(i), Amount: common.NewInteger(1)})
		case "genesis":
			tx.Inputs = append(tx.Inputs, &common.Input{Genesis: []byte{1, 2, 3}})
		default:
			tx.AddInput(crypto.Blake3Hash([]byte(fmt.Sprintf("in-%s-%d", sh.Tag, i))), uint(i))
		}
	}
	for i, t := range sh.Outs {
		if t == common.OutputTypeScript || t == common.OutputTypeNodeRemove || t == common.OutputTypeCustodianUpdateNodes {
			seed := crypto.Blake3Hash([]byte(fmt.Sprintf("out-%s-%d", sh.Tag, i)))
			tx.AddOutputWithType(uint8(t), []*common.Address{&user}, common.NewThresholdScript(1), common.NewInteger(1), append(seed[:], seed[:]...))
		} else {
			tx.Outputs = append(tx.Outputs, &common.Output{Type: uint8(t), Amount: common.NewInteger(1)})
		}
	}
	e := crypto.Blake3Hash([]byte("extra-" + sh.Tag))
	tx.Extra = append(e[:], e[:]...)
	for _, r := range sh.Refs {
		tx.References = append(tx.References, unhx(r))
	}
	return tx.AsVersioned()
}

func kindTerm(k string) string {
	switch k {
	case "mint":
		return "IKMint"
	case "deposit":
		return "IKDeposit"
	case "genesis":
		return "IKGenesis"
	}
	return "IKUtxo"
}

func shapeTerms(ver *common.VersionedTransaction) (string, string) {
	var ins, outs []string
	for _, in := range ver.Inputs {
		switch {
		case in.Mint != nil:
			ins = append(ins, "IKMint")
		case in.Deposit != nil:
			ins = append(ins, "IKDeposit")
		case in.Genesis != nil:
			ins = append(ins, "IKGenesis")
		default:
			ins = append(ins, "IKUtxo")
		}
	}
	for _, o := range ver.Outputs {
		outs = append(outs, vh.ZI(int64(o.Type)))
	}
	return vh.List(ins, "ikind"), vh.List(outs, "Z")
}

// snapN prints a snapshot hash with its real value: CONSENSUSSNAPSHOT keys are
// (timestamp, snapshot hash) and readLastConsensusSnapshot takes the greatest
// key, so between records of equal timestamp the byte order of the snapshot
// hashes decides which one is "last"; renaming would lose that order.
func snapN(h crypto.Hash) string { return vh.BytesAsN(h[:]) }

// ids renames hashes to small numbers (the model only compares them).
type ids struct{ m map[crypto.Hash]uint64 }

func (x *ids) n(h crypto.Hash) string {
	if x.m == nil {
		x.m = map[crypto.Hash]uint64{}
	}
	v, ok := x.m[h]
	if !ok {
		v = uint64(len(x.m) + 1)
		x.m[h] = v
	}
	return vh.NU(v)
}

func ktxTerm(x *ids, ver *common.VersionedTransaction) string {
	ins, outs := shapeTerms(ver)
	var refs []string
	for _, r := range ver.References {
		refs = append(refs, x.n(r))
	}
	batch := uint64(0)
	if len(ver.Inputs) > 0 && ver.Inputs[0].Mint != nil {
		batch = ver.Inputs[0].Mint.Batch
	}
	return fmt.Sprintf("{| k_hash := %s; k_ins := %s; k_outs := %s; k_refs := %s; k_mint_batch := %s |}",
		x.n(ver.PayloadHash()), ins, outs, vh.List(refs, "N"), vh.ZU(batch))
}

func csnapTerm(x *ids, s *common.Snapshot) string {
	var txs []string
	for _, t := range s.Transactions {
		txs = append(txs, x.n(t))
	}
	return fmt.Sprintf("{| cs_txs := %s; cs_ts := %s |}", vh.List(txs, "N"), vh.ZU(s.Timestamp))
}

func resTerm(pan bool, err error) string {
	if pan {
		return vh.Pan("unit")
	}
	if err != nil {
		return vh.Err("unit")
	}
	return vh.Ok("tt")
}

// ---- fixtures shared by the kernel / refs cases of one run -------------------------

type env struct {
	main, priv *fixture
}

func (e *env) get(net string) *fixture {
	if net == "main" {
		if e.main == nil {
			e.main = newMainnetFixture()
		}
		return e.main
	}
	if e.priv == nil {
		e.priv = newFixture()
	}
	return e.priv
}

func (e *env) close() {
	if e.main != nil {
		e.main.close()
	}
	if e.priv != nil {
		e.priv.close()
	}
}

func resolve(f *fixture, cs Case) ([]*common.VersionedTransaction, *common.Snapshot) {
	last, err := f.store.ReadLastConsensusSnapshot()
	if err != nil || last == nil {
		panic(fmt.Errorf("no last consensus snapshot %v", err))
	}
	var vers []*common.VersionedTransaction
	for _, sh := range cs.Shapes {
		if sh.Known != "" {
			tx, _, err := f.store.ReadTransaction(unhx(sh.Known))
			if err != nil || tx == nil {
				panic("known transaction missing")
			}
			vers = append(vers, tx)
			continue
		}
		vers = append(vers, buildTx(sh))
	}
	return vers, last
}

func run(c *vh.Ctx, e *env, cs Case) {
	switch cs.Op {
	case "type":
		ver := buildTx(cs.Shapes[0])
		ty := ver.TransactionType()
		b := ver.IsSnapshotBatchable()
		ins, outs := shapeTerms(ver)
		key := fmt.Sprintf("type|%v|%v", cs.Shapes[0].Ins, cs.Shapes[0].Outs)
		c.Case("type", key, true, cs, vh.App("CType", ins, outs, vh.ZI(int64(ty)), vh.Bool(b)))
		if b != batchableClasses[ty] {
			c.Fail("batchable-class-mismatch", fmt.Sprintf("type %d batchable=%v", ty, b), cs)
		}
		if consensusClasses[ty] && b {
			c.Fail("consensus-class-batchable", fmt.Sprintf("consensus operation type %d is batchable", ty), cs)
		}
	case "kernel", "refs":
		f := e.get(cs.Net)
		vers, last := resolve(f, cs)
		x := &ids{}
		s := &common.Snapshot{Version: common.SnapshotVersionCommonEncoding, RoundNumber: cs.Round, Timestamp: cs.Ts}
		if cs.Self {
			s.NodeId = f.self
		} else {
			// another node of the network (an unknown node id never reaches these validators)
			for _, id := range f.node.VerifC16GenesisNodes() {
				if id != f.self {
					s.NodeId = id
					break
				}
			}
		}
		for _, i := range cs.Txs {
			s.Transactions = append(s.Transactions, vers[i].PayloadHash())
		}
		s.Hash = crypto.Blake3Hash([]byte(fmt.Sprintf("snap-%d-%d-%v", cs.Ts, cs.Round, cs.Txs)))
		var txsT []string
		for _, h := range s.Transactions {
			txsT = append(txsT, x.n(h))
		}
		ksnap := fmt.Sprintf("{| ks_self := %s; ks_round := %s; ks_ts := %s; ks_txs := %s |}",
			vh.Bool(cs.Self), vh.ZU(cs.Round), vh.ZU(cs.Ts), vh.List(txsT, "N"))
		mainnet := f.node.VerifC16NetworkId().String() == config.KernelNetworkId
		if cs.Op == "refs" {
			tx := vers[cs.Txs[0]]
			var err error
			pan, _ := vh.Catch(func() { err = f.node.VerifC28ValidateConsensusTransactionReferences(s, tx) })
			key := fmt.Sprintf("refs|%s|%d|%d|%v", cs.Net, cs.Ts, len(cs.Txs), cs.Shapes)
			c.Case("refs", key, consensusClasses[tx.TransactionType()], cs,
				vh.App("CRefs", ksnap, ktxTerm(x, tx), csnapTerm(x, last), resTerm(pan, err)))
			if !pan && err == nil {
				oracleLinked(c, cs, tx, s, last, "refs")
			}
			return
		}
		found := map[crypto.Hash]*common.VersionedTransaction{}
		var foundT []string
		for _, i := range cs.Found {
			h := vers[i].PayloadHash()
			if found[h] == nil {
				foundT = append(foundT, fmt.Sprintf("(%s, %s)", x.n(h), ktxTerm(x, vers[i])))
			}
			found[h] = vers[i]
		}
		var err error
		pan, _ := vh.Catch(func() { err = f.node.VerifC28ValidateKernelSnapshot(s, found, cs.Finalized) })
		key := fmt.Sprintf("kernel|%s|%v|%d|%d|%v|%v|%v|%v", cs.Net, cs.Self, cs.Round, cs.Ts, cs.Finalized, cs.Txs, cs.Found, cs.Shapes)
		nontrivial := len(found) > 0
		c.Case("kernel/"+cs.Net, key, nontrivial, cs,
			vh.App("CKernel", vh.Bool(mainnet), ksnap, vh.List(foundT, "(N * ktx)"), vh.Bool(cs.Finalized), csnapTerm(x, last), resTerm(pan, err)))
		if !pan && err == nil {
			c.Count("kernel/accepted")
			exempt := cs.Finalized && mainnet && cs.Ts < kernel.VerifC28ConsensusReferenceForkAt
			if len(s.Transactions) > 1 {
				for _, tx := range found {
					if !batchableClasses[tx.TransactionType()] {
						c.Fail("multi-tx-snapshot-with-non-batchable", fmt.Sprintf("snapshot of %d transactions accepted with a member of type %d", len(s.Transactions), tx.TransactionType()), cs)
					}
				}
			} else if !exempt {
				tx := found[s.Transactions[0]]
				if consensusClasses[tx.TransactionType()] {
					c.Count("kernel/accepted-consensus-op")
				}
				oracleLinked(c, cs, tx, s, last, "kernel")
			}
		}
	case "chain":
		runChain(c, cs)
	case "snaptx":
		runSnapTx(c, cs)
	case "restart":
		runRestart(c, cs)
	case "recorded":
		runRecorded(c, cs)
	}
}

// oracleLinked: an accepted consensus operation references the last recorded
// one and is strictly later, unless it is that last operation itself.
func oracleLinked(c *vh.Ctx, cs Case, tx *common.VersionedTransaction, s *common.Snapshot, last *common.Snapshot, where string) {
	if !consensusClasses[tx.TransactionType()] {
		return
	}
	if len(last.Transactions) == 1 && last.Transactions[0] == tx.PayloadHash() {
		return
	}
	if len(tx.References) < 1 || len(last.Transactions) != 1 || tx.References[0] != last.Transactions[0] {
		c.Fail("consensus-op-not-linked", where+": accepted consensus operation does not reference the last recorded one", cs)
	} else if s.Timestamp <= last.Timestamp {
		c.Fail("consensus-op-timestamp-not-later", fmt.Sprintf("%s: accepted consensus operation at %d, last recorded at %d", where, s.Timestamp, last.Timestamp), cs)
	}
}

// ---- chain sequences -------------------------------------------------------------------

type rec struct {
	ts   uint64
	snap crypto.Hash
	txs  []crypto.Hash
	ref  *crypto.Hash
	next *crypto.Hash
}

func readRecords(f *fixture) []rec {
	var out []rec
	for _, r := range f.store.VerifC28ConsensusRecords() {
		s, err := f.store.ReadSnapshot(r.Snapshot)
		if err != nil || s == nil {
			panic(fmt.Errorf("record without snapshot %s %v", r.Snapshot, err))
		}
		x := rec{ts: r.Timestamp, snap: r.Snapshot, txs: s.Transactions}
		if len(s.Transactions) > 0 {
			tx, _, _ := f.store.ReadTransaction(s.Transactions[0])
			if tx != nil && len(tx.References) > 0 {
				h := tx.References[0]
				x.ref = &h
			}
		}
		if len(r.Value) > 0 {
			var h crypto.Hash
			copy(h[:], r.Value)
			x.next = &h
		}
		out = append(out, x)
	}
	return out
}

func recTerms(x *ids, rs []rec) string {
	var out []string
	for _, r := range rs {
		var txs []string
		for _, t := range r.txs {
			txs = append(txs, x.n(t))
		}
		opt := func(h *crypto.Hash) string {
			if h == nil {
				return vh.None("N")
			}
			return vh.Some(x.n(*h))
		}
		out = append(out, fmt.Sprintf("{| cr_ts := %s; cr_snap := %s; cr_txs := %s; cr_ref := %s; cr_next := %s |}",
			vh.ZU(r.ts), snapN(r.snap), vh.List(txs, "N"), opt(r.ref), opt(r.next)))
	}
	return vh.List(out, "crec")
}

// chainOracle: the records, in key order, form one chain.
func chainOracle(rs []rec) string {
	for i, r := range rs {
		if len(r.txs) != 1 {
			return fmt.Sprintf("record %d holds %d transactions", i, len(r.txs))
		}
		if i == len(rs)-1 {
			if r.next != nil {
				return "the last record points at a next operation"
			}
			break
		}
		n := rs[i+1]
		if r.next == nil || len(n.txs) != 1 || *r.next != n.txs[0] {
			return fmt.Sprintf("record %d does not point at the transaction of record %d", i, i+1)
		}
		if n.ref == nil || *n.ref != r.txs[0] {
			return fmt.Sprintf("record %d's transaction does not reference record %d's", i+1, i)
		}
		if n.ts <= r.ts {
			return fmt.Sprintf("record %d is not later than record %d", i+1, i)
		}
	}
	return ""
}

func runChain(c *vh.Ctx, cs Case) {
	f := newFixture()
	defer f.close()
	x := &ids{}
	bare := kernel.VerifC28BareNode(f.store, f.self, f.node.VerifC16NetworkId())
	init := readRecords(f)
	initT := recTerms(x, init)
	var opsT []string
	extended := 0
	for i, op := range cs.Ops {
		last, err := f.store.ReadLastConsensusSnapshot()
		if err != nil || last == nil {
			panic("no last")
		}
		sh := op.Shape
		sh.Refs = nil
		switch op.RefMode {
		case "last":
			sh.Refs = []string{hx(last.Transactions[0])}
		case "last+extra":
			sh.Refs = []string{hx(last.Transactions[0]), hx(crypto.Blake3Hash([]byte("extra-ref")))}
		case "older":
			rs := readRecords(f)
			sh.Refs = []string{hx(rs[0].txs[0])}
		case "random":
			sh.Refs = []string{hx(crypto.Blake3Hash([]byte(fmt.Sprintf("rand-ref-%d", i))))}
		}
		ver := buildTx(sh)
		ts := op.Ts
		snap := &common.Snapshot{Version: common.SnapshotVersionCommonEncoding, NodeId: f.self, References: f.refs,
			RoundNumber: f.round, Timestamp: ts}
		switch op.Snap {
		case "wrong-sole":
			snap.Transactions = []crypto.Hash{crypto.Blake3Hash([]byte(fmt.Sprintf("other-%d", i)))}
		case "two":
			snap.Transactions = []crypto.Hash{ver.PayloadHash(), crypto.Blake3Hash([]byte(fmt.Sprintf("other-%d", i)))}
		default:
			snap.Transactions = []crypto.Hash{ver.PayloadHash()}
		}
		snap.Hash = snap.PayloadHash()

		// the node's reference check
		accepted := false
		if len(snap.Transactions) == 1 {
			var verr error
			pan, _ := vh.Catch(func() { verr = bare.VerifC28ValidateConsensusTransactionReferences(snap, ver) })
			accepted = !pan && verr == nil
			if accepted {
				oracleLinked(c, cs, ver, snap, last, "chain")
			}
		}
		if !accepted && !op.Force {
			c.Count("chain/op-refused-not-written")
			continue
		}
		// as the kernel does: the snapshot is finalized first, then recorded
		if op.Snap == "ok" && op.Kind != "script" {
			if op.Kind == "mint" {
				if err := ver.LockInputs(f.store, false); err != nil {
					c.Count("chain/op-mint-lock-refused")
					continue
				}
			}
			if err := f.store.WriteTransaction(ver); err != nil {
				panic(err)
			}
			topo := &common.SnapshotWithTopologicalOrder{Snapshot: snap, TopologicalOrder: f.topo + 1}
			var werr error
			pan, pv := vh.Catch(func() { werr = f.store.WriteSnapshot(topo, []crypto.Hash{f.self}) })
			if pan || werr != nil {
				panic(fmt.Errorf("fixture: WriteSnapshot failed %v %v", pv, werr))
			}
			f.topo++
		}
		var werr error
		pan, _ := vh.Catch(func() { werr = f.store.WriteConsensusSnapshot(snap, ver, nil) })
		if accepted && op.Snap == "ok" && consensusClasses[ver.TransactionType()] && (pan || werr != nil) {
			c.Fail("validated-consensus-op-write-failed", fmt.Sprintf("op %d passed the reference check, WriteConsensusSnapshot failed", i), cs)
		}
		if !pan && werr == nil {
			extended++
		}
		c.Count(fmt.Sprintf("chain/op-%s-%s-%s", op.Kind, op.Snap, map[bool]string{true: "ok", false: "refused"}[!pan && werr == nil]))
		var stx, refs []string
		for _, t := range snap.Transactions {
			stx = append(stx, x.n(t))
		}
		for _, r := range ver.References {
			refs = append(refs, x.n(r))
		}
		out0 := vh.None("Z")
		if len(ver.Outputs) > 0 {
			out0 = vh.Some(vh.ZI(int64(ver.Outputs[0].Type)))
		}
		isMint := len(ver.Inputs) == 1 && ver.Inputs[0].Mint != nil
		isGen := len(ver.Inputs) == 1 && ver.Inputs[0].Genesis != nil
		opsT = append(opsT, fmt.Sprintf("({| co_ts := %s; co_snap := %s; co_txs := %s; co_tx := %s; co_refs := %s; co_mint := %s; co_out0 := %s; co_genesis := %s |}, %s)",
			vh.ZU(ts), snapN(snap.Hash), vh.List(stx, "N"), x.n(ver.PayloadHash()), vh.List(refs, "N"),
			vh.Bool(isMint), out0, vh.Bool(isGen), resTerm(pan, werr)))
		if !cs.Genesis {
			if why := chainOracle(readRecords(f)); why != "" {
				c.Fail("consensus-history-not-a-chain", fmt.Sprintf("after op %d: %s", i, why), cs)
				break
			}
		}
	}
	final := readRecords(f)
	sort.Slice(final, func(i, j int) bool { return final[i].ts < final[j].ts })
	key := fmt.Sprintf("chain|%v", cs.Ops)
	c.Case("chain", key, extended > 0, cs, vh.App("CChain", initT, vh.List(opsT, "(cop * res unit)"), recTerms(x, final)))
}

func main() {
	c := vh.Start("C28")
	c.Rep.Rule = "type: every input-kind prefix x output type list (distinct by shape); kernel/refs: random snapshots of 1-4 members over all classes on a mainnet-genesis node and a private-genesis node (distinct by full case; non-trivial = found map non-empty / consensus-class member); snaptx: a consensus-class operation already in persistent storage re-proposed through validateSnapshotTransaction in a batch (both hash orders), with a stale reference, or not later (distinct by kind x scenario x members); restart: consensus operations finalized on a real store with a stop between WriteSnapshot and WriteConsensusSnapshot of the last one, then the real SetupNode on the same directory (oracle only); recorded: every consensus class finalized on a real store and recorded by the kernel's own reloadConsensusState; chain: sequences of 4-12 recorded operations with random references and timestamps on a fresh store (non-trivial = at least one operation extended the chain)"
	e := &env{}
	defer e.close()
	if c.Replay != "" {
		var cs Case
		c.ReplayCase(&cs)
		run(c, e, cs)
		c.Finish()
		return
	}
	for _, cs := range corpus(e) {
		run(c, e, cs)
	}
	for _, cs := range snapCorpus() {
		run(c, e, cs)
	}
	for _, cs := range restartCorpus() {
		run(c, e, cs)
	}
	for _, cs := range recordedCorpus() {
		run(c, e, cs)
	}
	generate(c, e)
	snapGenerate(c)
	restartGenerate(c)
	recordedGenerate(c)
	c.Finish()
}
