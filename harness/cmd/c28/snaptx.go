package main

import (
	"bytes"
	"fmt"

	"github.com/MixinNetwork/mixin/common"
	"github.com/MixinNetwork/mixin/config"
	"github.com/MixinNetwork/mixin/crypto"
	"verifharness/vh"
)

// Histories through the real validateSnapshotTransaction in which a
// consensus-class operation is already in persistent storage: it was locked
// and stored (LockInputs + WriteTransaction, what lockAndPersistTransaction
// does after a successful validation) by a round that was never finalized,
// and is proposed again
//   batch-first / batch-last: next to other, only cached, members, sorted
//                             before / after them by hash;
//   stale-ref:  alone, after another consensus operation has been recorded;
//   ts-equal / ts-earlier: alone, not strictly later than the last operation;
//   control:    alone, linked and later (left to the operation's own validator).
// Oracle (property text): any acceptance of the first five is a failure.

type SnapTx struct {
	Kind     string `json:"kind"`     // mint | pledge | accept | cancel | remove | custodian | slash
	Scenario string `json:"scenario"` // see above
	Others   int    `json:"others"`   // cached members next to the operation (batch scenarios)
	OtherBad bool   `json:"other_bad"`
	Tag      string `json:"tag"`
}

var opOut = map[string]uint8{
	"pledge": common.OutputTypeNodePledge, "accept": common.OutputTypeNodeAccept, "cancel": common.OutputTypeNodeCancel,
	"remove": common.OutputTypeNodeRemove, "custodian": common.OutputTypeCustodianUpdateNodes, "slash": common.OutputTypeCustodianSlashNodes,
}

func (f *fixture) signedDeposit(tag string, amount string, bad bool) *common.VersionedTransaction {
	tx := common.NewTransactionV5(common.XINAssetId)
	tx.AddDepositInput(&common.DepositData{Chain: common.XINAsset.Chain, AssetKey: common.XINAsset.AssetKey,
		Transaction: "c28-" + tag, Index: 0, Amount: common.NewIntegerFromString(amount)})
	seed := crypto.Blake3Hash([]byte("c28-dep-" + tag))
	tx.AddScriptOutput([]*common.Address{&f.users[0]}, common.NewThresholdScript(1), common.NewIntegerFromString(amount), append(seed[:], seed[:]...))
	st := &common.SignedTransaction{Transaction: *tx}
	if err := st.SignRaw(f.custodian.PrivateSpendKey); err != nil {
		panic(err)
	}
	if bad {
		for _, m := range st.SignaturesMap {
			for _, s := range m {
				s[7] ^= 0x10
			}
		}
	}
	return st.AsVersioned()
}

// finalize stores and finalizes one transaction in a snapshot of its own.
func (f *fixture) finalize(ver *common.VersionedTransaction, ts uint64) *common.Snapshot {
	if err := ver.LockInputs(f.store, false); err != nil {
		panic(err)
	}
	if err := f.store.WriteTransaction(ver); err != nil {
		panic(err)
	}
	s := &common.Snapshot{Version: common.SnapshotVersionCommonEncoding, NodeId: f.self, References: f.refs,
		RoundNumber: f.round, Timestamp: ts, Transactions: []crypto.Hash{ver.PayloadHash()}}
	s.Hash = s.PayloadHash()
	topo := &common.SnapshotWithTopologicalOrder{Snapshot: s, TopologicalOrder: f.topo + 1}
	if err := f.store.WriteSnapshot(topo, []crypto.Hash{f.self}); err != nil {
		panic(err)
	}
	f.topo++
	return s
}

func runSnapTx(c *vh.Ctx, cs Case) {
	sp := cs.SnapTx
	f := newFixture()
	defer f.close()
	x := &ids{}
	last, err := f.store.ReadLastConsensusSnapshot()
	if err != nil || last == nil {
		panic("no last consensus snapshot")
	}
	// an output the operation can spend
	d0 := f.signedDeposit(sp.Tag+"-fund", "100", false)
	if err := d0.Validate(f.store, last.Timestamp+1, false); err != nil {
		panic(err)
	}
	f.finalize(d0, last.Timestamp+1)

	// the consensus-class operation, referencing the last recorded one
	tx := common.NewTransactionV5(common.XINAssetId)
	if sp.Kind == "mint" {
		tx.AddUniversalMintInput(1, common.NewInteger(1))
		seed := crypto.Blake3Hash([]byte("c28-op-" + sp.Tag))
		tx.AddScriptOutput([]*common.Address{&f.users[1]}, common.NewThresholdScript(1), common.NewInteger(1), append(seed[:], seed[:]...))
	} else {
		tx.AddInput(d0.PayloadHash(), 0)
		tx.Outputs = append(tx.Outputs, &common.Output{Type: opOut[sp.Kind], Amount: common.NewInteger(100)})
	}
	e := crypto.Blake3Hash([]byte("c28-extra-" + sp.Tag))
	tx.Extra = append(e[:], e[:]...)
	tx.References = []crypto.Hash{last.Transactions[0]}
	op := tx.AsVersioned()
	// validated alone by an earlier round, locked and stored, never finalized
	if err := op.LockInputs(f.store, false); err != nil {
		panic(err)
	}
	if err := f.store.WriteTransaction(op); err != nil {
		panic(err)
	}

	ts := last.Timestamp + 100
	switch sp.Scenario {
	case "stale-ref":
		m := common.NewTransactionV5(common.XINAssetId)
		m.AddUniversalMintInput(2, common.NewInteger(1))
		seed := crypto.Blake3Hash([]byte("c28-other-op-" + sp.Tag))
		m.AddScriptOutput([]*common.Address{&f.users[2]}, common.NewThresholdScript(1), common.NewInteger(1), append(seed[:], seed[:]...))
		m.References = []crypto.Hash{last.Transactions[0]}
		y := m.AsVersioned()
		ys := f.finalize(y, last.Timestamp+50)
		if err := f.store.WriteConsensusSnapshot(ys, y, nil); err != nil {
			panic(err)
		}
		last, _ = f.store.ReadLastConsensusSnapshot()
		ts = last.Timestamp + 100
	case "ts-equal":
		ts = last.Timestamp
	case "ts-earlier":
		ts = last.Timestamp - 1
	}

	type mem struct {
		ver    *common.VersionedTransaction
		stored bool
		valid  bool
	}
	members := []mem{{op, true, false}}
	if sp.Scenario == "batch-first" || sp.Scenario == "batch-last" {
		oph := op.PayloadHash()
		for i := 0; i < sp.Others; i++ {
			for try := 0; ; try++ { // pick a deposit that sorts on the wanted side of the operation
				d := f.signedDeposit(fmt.Sprintf("%s-o%d-%d", sp.Tag, i, try), "3", sp.OtherBad && i == 0)
				dh := d.PayloadHash()
				before := bytes.Compare(dh[:], oph[:]) < 0
				if before == (sp.Scenario == "batch-last") {
					verr := d.Validate(f.store, ts, false)
					if err := f.store.CacheStoreTransaction(d); err != nil {
						panic(err)
					}
					members = append(members, mem{d, false, verr == nil})
					break
				}
			}
		}
	}
	s := &common.Snapshot{Version: common.SnapshotVersionCommonEncoding, NodeId: f.self, References: f.refs,
		RoundNumber: f.round, Timestamp: ts}
	for _, m := range members {
		s.Transactions = append(s.Transactions, m.ver.PayloadHash())
	}
	s.Hash = s.PayloadHash() // sorts the members by hash, the order they are processed in
	byHash := map[crypto.Hash]mem{}
	for _, m := range members {
		byHash[m.ver.PayloadHash()] = m
	}
	var msT, txsT []string
	for _, h := range s.Transactions {
		m := byHash[h]
		txsT = append(txsT, x.n(h))
		msT = append(msT, fmt.Sprintf("{| m_hash := %s; m_tx := %s; m_stored := %s; m_valid := %s |}",
			x.n(h), ktxTerm(x, m.ver), vh.Bool(m.stored), vh.Bool(m.valid)))
	}
	var missing []crypto.Hash
	var verr error
	pan, _ := vh.Catch(func() { _, missing, verr = f.node.VerifC16ValidateSnapshotTransaction(s, false) })
	if len(missing) > 0 {
		panic("fixture: missing member")
	}
	mainnet := f.node.VerifC16NetworkId().String() == config.KernelNetworkId
	ksnap := fmt.Sprintf("{| ks_self := true; ks_round := %s; ks_ts := %s; ks_txs := %s |}", vh.ZU(f.round), vh.ZU(ts), vh.List(txsT, "N"))
	key := fmt.Sprintf("snaptx|%s|%s|%d|%v", sp.Kind, sp.Scenario, sp.Others, sp.OtherBad)
	c.Case("snaptx/"+sp.Scenario, key, true, cs,
		vh.App("CSnapTx", vh.Bool(mainnet), ksnap, vh.List(msT, "member"), "false", csnapTerm(x, last), resTerm(pan, verr)))
	if !pan && verr == nil && sp.Scenario != "control" {
		c.Fail("stored-consensus-op-accepted-"+sp.Scenario,
			fmt.Sprintf("a %s operation already in persistent storage was accepted when proposed again (%s, %d members)", sp.Kind, sp.Scenario, len(members)), cs)
	}
}

var snapKinds = []string{"mint", "pledge", "accept", "cancel", "remove", "custodian", "slash"}
var snapScenarios = []string{"batch-first", "batch-last", "stale-ref", "ts-equal", "ts-earlier", "control"}

func snapCorpus() []Case {
	var out []Case
	for i, sc := range []string{"batch-first", "batch-last", "stale-ref", "ts-equal", "ts-earlier"} {
		kind := []string{"mint", "pledge", "remove", "custodian", "accept"}[i]
		out = append(out, Case{Op: "snaptx", SnapTx: &SnapTx{Kind: kind, Scenario: sc, Others: 1 + i%2, Tag: "corpus-" + sc}})
	}
	out = append(out, Case{Op: "snaptx", SnapTx: &SnapTx{Kind: "mint", Scenario: "control", Tag: "corpus-control"}})
	return out
}

func snapGenerate(c *vh.Ctx) {
	r := c.Rng.Fork("snaptx")
	for i := 0; i < c.Scale(36, 700); i++ {
		sp := &SnapTx{Kind: snapKinds[r.Intn(len(snapKinds))], Scenario: snapScenarios[r.Intn(len(snapScenarios))],
			Others: 1 + r.Intn(3), OtherBad: r.Chance(1, 8), Tag: fmt.Sprintf("g%d", i)}
		if sp.Scenario == "control" {
			sp.Kind = "mint"
		}
		runSnapTx(c, Case{Op: "snaptx", SnapTx: sp})
	}
}
