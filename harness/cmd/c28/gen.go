package main

import (
	"fmt"

	"github.com/MixinNetwork/mixin/common"
	"github.com/MixinNetwork/mixin/crypto"
	"github.com/MixinNetwork/mixin/kernel"
	"verifharness/vh"
)

func lastOf(e *env, net string) (string, uint64) {
	f := e.get(net)
	last, err := f.store.ReadLastConsensusSnapshot()
	if err != nil || last == nil {
		panic("no last consensus snapshot")
	}
	return hx(last.Transactions[0]), last.Timestamp
}

func shape(tag string, ins []string, outs []int, refs []string, batch uint64) TxShape {
	return TxShape{Ins: ins, Outs: outs, Refs: refs, Batch: batch, Tag: tag}
}

var fork = uint64(kernel.VerifC28ConsensusReferenceForkAt)

func corpus(e *env) []Case {
	var out []Case
	// every class alone and paired with a script transaction, on both networks
	for _, net := range []string{"priv", "main"} {
		ltx, lts := lastOf(e, net)
		ts := lts + 10
		if net == "main" {
			ts = fork + 10
		}
		classes := []TxShape{
			shape("c-script", []string{"utxo"}, []int{common.OutputTypeScript}, nil, 0),
			shape("c-deposit", []string{"deposit"}, []int{common.OutputTypeScript}, nil, 0),
			shape("c-submit", []string{"utxo"}, []int{common.OutputTypeWithdrawalSubmit, common.OutputTypeScript}, nil, 0),
			shape("c-claim", []string{"utxo"}, []int{common.OutputTypeWithdrawalClaim}, []string{ltx}, 0),
			shape("c-mint", []string{"mint"}, []int{common.OutputTypeScript}, []string{ltx}, 1700),
			shape("c-pledge", []string{"utxo"}, []int{common.OutputTypeNodePledge}, []string{ltx}, 0),
			shape("c-accept", []string{"utxo"}, []int{common.OutputTypeNodeAccept}, []string{ltx}, 0),
			shape("c-cancel", []string{"utxo"}, []int{common.OutputTypeNodeCancel}, []string{ltx}, 0),
			shape("c-remove", []string{"utxo"}, []int{common.OutputTypeNodeRemove}, []string{ltx}, 0),
			shape("c-custodian", []string{"utxo"}, []int{common.OutputTypeCustodianUpdateNodes}, []string{ltx}, 0),
			shape("c-slash", []string{"utxo"}, []int{common.OutputTypeCustodianSlashNodes}, []string{ltx}, 0),
		}
		for i := range classes {
			sc := shape("c-pair", []string{"utxo"}, []int{common.OutputTypeScript}, nil, 0)
			for _, fin := range []bool{false, true} {
				out = append(out, Case{Op: "kernel", Net: net, Shapes: []TxShape{classes[i], sc}, Txs: []int{0, 1}, Found: []int{0, 1}, Self: true, Round: 1, Ts: ts, Finalized: fin})
				out = append(out, Case{Op: "kernel", Net: net, Shapes: []TxShape{classes[i]}, Txs: []int{0}, Found: []int{0}, Self: true, Round: 1, Ts: ts, Finalized: fin})
				out = append(out, Case{Op: "kernel", Net: net, Shapes: []TxShape{classes[i]}, Txs: []int{0}, Found: []int{0}, Self: false, Round: 0, Ts: ts, Finalized: fin})
			}
			out = append(out, Case{Op: "refs", Net: net, Shapes: []TxShape{classes[i]}, Txs: []int{0}, Self: true, Round: 1, Ts: ts})
			out = append(out, Case{Op: "refs", Net: net, Shapes: []TxShape{classes[i]}, Txs: []int{0}, Self: true, Round: 1, Ts: lts})
		}
		// the last recorded operation itself, validated again
		out = append(out, Case{Op: "refs", Net: net, Shapes: []TxShape{{Known: ltx}}, Txs: []int{0}, Self: true, Round: 1, Ts: lts})
		out = append(out, Case{Op: "kernel", Net: net, Shapes: []TxShape{{Known: ltx}}, Txs: []int{0}, Found: []int{0}, Self: true, Round: 1, Ts: ts, Finalized: true})
		// the single member is missing from the found map
		out = append(out, Case{Op: "kernel", Net: net, Shapes: []TxShape{classes[0]}, Txs: []int{0}, Found: nil, Self: true, Round: 1, Ts: ts})
	}
	// mainnet exemptions: finalized before the reference fork; finalized mint below the batch fork
	ltx, _ := lastOf(e, "main")
	bad := shape("x-mint-noref", []string{"mint"}, []int{common.OutputTypeScript}, nil, 1700)
	out = append(out, Case{Op: "kernel", Net: "main", Shapes: []TxShape{bad}, Txs: []int{0}, Found: []int{0}, Self: true, Round: 1, Ts: fork - 1, Finalized: true})
	out = append(out, Case{Op: "kernel", Net: "main", Shapes: []TxShape{bad}, Txs: []int{0}, Found: []int{0}, Self: true, Round: 1, Ts: fork, Finalized: true})
	for _, b := range []uint64{1799, 1800} {
		m := shape("x-mint", []string{"mint"}, []int{common.OutputTypeScript}, []string{ltx}, b)
		out = append(out, Case{Op: "kernel", Net: "main", Shapes: []TxShape{m}, Txs: []int{0}, Found: []int{0}, Self: true, Round: 1, Ts: fork + 5, Finalized: true})
	}
	// chain boundary sequences
	mint := func(tag string, b uint64) TxShape { return shape(tag, []string{"mint"}, []int{common.OutputTypeScript}, nil, b) }
	base := uint64(1551312000)*1000000000 + 1
	out = append(out, Case{Op: "chain", Ops: []ChainOp{
		{Kind: "mint", Shape: mint("k1", 1), Ts: base + 10, Snap: "ok", RefMode: "last"},
		{Kind: "mint", Shape: mint("k2", 2), Ts: base + 20, Snap: "ok", RefMode: "last"},
		{Kind: "mint", Shape: mint("k3", 3), Ts: base + 20, Snap: "ok", RefMode: "last", Force: true},  // equal timestamp
		{Kind: "mint", Shape: mint("k4", 4), Ts: base + 15, Snap: "ok", RefMode: "last", Force: true},  // earlier
		{Kind: "mint", Shape: mint("k5", 5), Ts: base + 30, Snap: "ok", RefMode: "older", Force: true}, // references an older operation
		{Kind: "mint", Shape: mint("k6", 6), Ts: base + 31, Snap: "ok", RefMode: "none", Force: true},
		{Kind: "mint", Shape: mint("k7", 7), Ts: base + 32, Snap: "wrong-sole", RefMode: "last", Force: true},
		{Kind: "mint", Shape: mint("k8", 8), Ts: base + 33, Snap: "two", RefMode: "last", Force: true},
		{Kind: "script", Shape: shape("k9", []string{"utxo"}, []int{common.OutputTypeScript}, nil, 0), Ts: base + 34, Snap: "ok", RefMode: "last", Force: true},
		{Kind: "mint", Shape: mint("k10", 10), Ts: base + 40, Snap: "ok", RefMode: "last+extra"},
	}})
	return out
}

func generate(c *vh.Ctx, e *env) {
	// 1. transaction classes: every shape of up to 3 inputs / 3 outputs is too many; enumerate
	//    all single and pair combinations and sample triples
	kinds := []string{"mint", "deposit", "genesis", "utxo"}
	for _, k1 := range kinds {
		for _, o1 := range outTypes {
			c1 := Case{Op: "type", Shapes: []TxShape{shape("t", []string{k1}, []int{o1}, nil, 1)}}
			run(c, e, c1)
			for _, o2 := range outTypes {
				run(c, e, Case{Op: "type", Shapes: []TxShape{shape("t", []string{"utxo", k1}, []int{o1, o2}, nil, 1)}})
			}
		}
	}
	run(c, e, Case{Op: "type", Shapes: []TxShape{shape("t", nil, nil, nil, 0)}})
	run(c, e, Case{Op: "type", Shapes: []TxShape{shape("t", []string{"utxo"}, nil, nil, 0)}})
	r := c.Rng.Fork("types")
	for i := 0; i < c.Scale(200, 4000); i++ {
		var ins []string
		var outs []int
		for j := r.Intn(4); j > 0; j-- {
			ins = append(ins, kinds[[]int{3, 3, 3, 0, 1, 2}[r.Intn(6)]])
		}
		for j := r.Intn(5); j > 0; j-- {
			outs = append(outs, outTypes[[]int{0, 0, 0, 1, 2, 3, 4, 5, 6, 7, 8, 9}[r.Intn(12)]])
		}
		run(c, e, Case{Op: "type", Shapes: []TxShape{shape("t", ins, outs, nil, 1)}})
	}

	// 2. random snapshots through validateKernelSnapshot / the reference check
	r = c.Rng.Fork("kernel")
	n := c.Scale(500, 12000)
	for i := 0; i < n; i++ {
		net := []string{"priv", "main"}[r.Intn(2)]
		ltx, lts := lastOf(e, net)
		members := 1
		if r.Chance(1, 2) {
			members = 2 + r.Intn(3)
		}
		cs := Case{Op: "kernel", Net: net, Self: r.Chance(3, 4), Round: uint64([]int{0, 1, 1, 5}[r.Intn(4)]), Finalized: r.Chance(1, 3)}
		if r.Chance(1, 4) {
			cs.Op = "refs"
		}
		switch r.Intn(8) {
		case 0:
			cs.Ts = lts
		case 1:
			if lts > 0 {
				cs.Ts = lts - 1
			}
		case 2:
			cs.Ts = lts + 1
		case 3:
			cs.Ts = fork - 1
		case 4:
			cs.Ts = fork
		default:
			cs.Ts = fork + uint64(r.Intn(1000000))
			if net == "priv" {
				cs.Ts = lts + 2 + uint64(r.Intn(1000000))
			}
		}
		for m := 0; m < members; m++ {
			tag := fmt.Sprintf("g%d-%d", i, m)
			var sh TxShape
			heavy := members == 1 || r.Chance(1, 3)
			if !heavy { // batchable member
				switch r.Intn(4) {
				case 0:
					sh = shape(tag, []string{"deposit"}, []int{common.OutputTypeScript}, nil, 0)
				case 1:
					sh = shape(tag, []string{"utxo"}, []int{common.OutputTypeWithdrawalSubmit, common.OutputTypeScript}, nil, 0)
				case 2:
					sh = shape(tag, []string{"utxo"}, []int{common.OutputTypeWithdrawalClaim, common.OutputTypeScript}, []string{ltx}, 0)
				default:
					sh = shape(tag, []string{"utxo", "utxo"}, []int{common.OutputTypeScript, common.OutputTypeScript}, nil, 0)
				}
			} else {
				o := outTypes[r.Intn(len(outTypes)-1)]
				ins := []string{"utxo"}
				if r.Chance(1, 4) {
					ins = []string{"mint"}
					o = common.OutputTypeScript
				}
				sh = shape(tag, ins, []int{o}, nil, uint64([]int{1, 1700, 1799, 1800, 1801, 3000}[r.Intn(6)]))
				switch r.Intn(6) {
				case 0:
				case 1:
					sh.Refs = []string{hx(cryptoHash(tag))}
				case 2:
					sh.Refs = []string{hx(cryptoHash(tag)), ltx}
				case 3:
					sh.Refs = []string{ltx, hx(cryptoHash(tag))}
				default:
					sh.Refs = []string{ltx}
				}
			}
			cs.Shapes = append(cs.Shapes, sh)
			cs.Txs = append(cs.Txs, m)
			if !r.Chance(1, 10) || members == 1 {
				cs.Found = append(cs.Found, m)
			}
		}
		if cs.Op == "refs" {
			cs.Txs = cs.Txs[:1]
			if r.Chance(1, 30) && members > 1 {
				cs.Txs = []int{0, 1}
			}
		}
		if r.Chance(1, 8) { // mainnet, finalized mint around the batch fork: the accepted path
			ltx, lts = lastOf(e, "main")
			cs = Case{Op: "kernel", Net: "main", Self: r.Chance(3, 4), Round: uint64(r.Intn(3)), Finalized: !r.Chance(1, 8)}
			cs.Ts = []uint64{lts, fork - 1, fork, fork + 1 + uint64(r.Intn(1000000))}[[]int{0, 1, 2, 3, 3, 3, 3}[r.Intn(7)]]
			sh := shape(fmt.Sprintf("gm%d", i), []string{"mint"}, []int{common.OutputTypeScript}, []string{ltx}, uint64([]int{1, 1700, 1799, 1800, 3000}[r.Intn(5)]))
			switch r.Intn(8) {
			case 0:
				sh.Refs = nil
			case 1:
				sh.Refs = []string{hx(cryptoHash(sh.Tag))}
			case 2:
				sh.Refs = []string{ltx, hx(cryptoHash(sh.Tag))}
			}
			cs.Shapes, cs.Txs, cs.Found = []TxShape{sh}, []int{0}, []int{0}
		}
		if r.Chance(1, 40) { // the recorded operation itself
			cs.Shapes[0] = TxShape{Known: ltx}
		}
		run(c, e, cs)
	}

	// 3. chain sequences
	r = c.Rng.Fork("chain")
	base := uint64(1551312000)*1000000000 + 1
	for i := 0; i < c.Scale(12, 300); i++ {
		cs := Case{Op: "chain", Genesis: r.Chance(1, 5)}
		cur := base
		batch := uint64(1)
		for j := 4 + r.Intn(9); j > 0; j-- {
			op := ChainOp{Kind: "mint", Snap: "ok", RefMode: "last"}
			tag := fmt.Sprintf("ch%d-%d", i, j)
			switch r.Intn(10) {
			case 0:
				op.Ts = cur // equal
			case 1:
				if cur > base {
					op.Ts = cur - 1 - uint64(r.Intn(3))
				} else {
					op.Ts = cur
				}
			default:
				op.Ts = cur + 1 + uint64(r.Intn(1000))
			}
			switch r.Intn(12) {
			case 0:
				op.RefMode = "none"
			case 1:
				op.RefMode = "older"
			case 2:
				op.RefMode = "random"
			case 3:
				op.RefMode = "last+extra"
			}
			switch r.Intn(14) {
			case 0:
				op.Snap = "wrong-sole"
			case 1:
				op.Snap = "two"
			}
			op.Force = r.Chance(1, 2)
			op.Shape = shape(tag, []string{"mint"}, []int{common.OutputTypeScript}, nil, batch)
			batch++
			if r.Chance(1, 12) {
				op.Kind = "script"
				op.Shape = shape(tag, []string{"utxo"}, []int{[]int{common.OutputTypeScript, common.OutputTypeWithdrawalSubmit, common.OutputTypeWithdrawalClaim, 0x77}[r.Intn(4)]}, nil, 0)
			} else if cs.Genesis && r.Chance(1, 4) {
				op.Kind = "genesis-accept"
				op.Shape = shape(tag, []string{"genesis"}, []int{common.OutputTypeNodeAccept}, nil, 0)
			}
			cs.Ops = append(cs.Ops, op)
			if op.Ts > cur && op.Snap == "ok" && (op.RefMode == "last" || op.RefMode == "last+extra") && op.Kind == "mint" {
				cur = op.Ts
			}
		}
		run(c, e, cs)
	}
}

func cryptoHash(tag string) [32]byte { return crypto.Blake3Hash([]byte("rand-ref-" + tag)) }
