package main

import (
	"bytes"
	"fmt"
	"sort"

	"github.com/MixinNetwork/mixin/common"
	"github.com/MixinNetwork/mixin/crypto"
	"verifharness/vh"
)

// Recorded histories: for every consensus class the operation's snapshot is
// finalized on a real store (LockInputs, WriteTransaction, WriteSnapshot) and
// then the kernel's own reloadConsensusState decides whether to record it -
// the step the finalization path and SetupNode run.
// Oracle (property text) after each operation: the recorded head is that
// operation's snapshot; a follow-up referencing it with a later timestamp
// passes validateConsensusTransactionReferences; one referencing its
// predecessor is refused; at the end the recorded history is a single chain
// that contains every finalized consensus operation.

type Recorded struct {
	Ops []string `json:"ops"` // mint | slash | custodian | pledge | accept | cancel | remove
	Tag string   `json:"tag"`
}

func nodeKeys(i int) (signer, payee, custodian common.Address) {
	signer = seedAddr("signer", i)
	signer.PrivateViewKey = signer.PublicSpendKey.DeterministicHashDerive()
	signer.PublicViewKey = signer.PrivateViewKey.Public()
	payee = seedAddr("payee", i)
	payee.PrivateViewKey = payee.PublicSpendKey.DeterministicHashDerive()
	payee.PublicViewKey = payee.PrivateViewKey.Public()
	custodian = seedAddr("custodian-node", i)
	return
}

// custodianExtra: a fully signed custodian update naming a new custodian key
// and the seven genesis nodes (EncodeCustodianNode, sorted by custodian key).
func (f *fixture) custodianExtra(tag string) []byte {
	nc := seedAddr("next-custodian-"+tag, 0)
	extra := append([]byte{}, nc.PublicSpendKey[:]...)
	extra = append(extra, nc.PublicViewKey[:]...)
	var nodes [][]byte
	var keys []crypto.Key
	for i := 0; i < nodesCount; i++ {
		s, p, cu := nodeKeys(i)
		nodes = append(nodes, common.EncodeCustodianNode(&cu, &p, &s.PrivateSpendKey, &p.PrivateSpendKey, &cu.PrivateSpendKey, f.node.VerifC16NetworkId()))
		keys = append(keys, cu.PublicSpendKey)
	}
	idx := make([]int, len(nodes))
	for i := range idx {
		idx[i] = i
	}
	sort.Slice(idx, func(a, b int) bool { return bytes.Compare(keys[idx[a]][:], keys[idx[b]][:]) < 0 })
	for _, i := range idx {
		extra = append(extra, nodes[i]...)
	}
	sig := f.custodian.PrivateSpendKey.Sign(crypto.Blake3Hash(extra))
	return append(extra, sig[:]...)
}

// buildOp builds the transaction of one consensus class spending fund.
func (f *fixture) buildOp(kind, tag string, batch uint64, fund *common.VersionedTransaction, ref crypto.Hash, newNode int) *common.VersionedTransaction {
	if kind == "mint" {
		return f.mintOp(tag, batch, ref)
	}
	tx := common.NewTransactionV5(common.XINAssetId)
	tx.AddInput(fund.PayloadHash(), 0)
	amount := common.NewInteger(100)
	seed := crypto.Blake3Hash([]byte("c28-recorded-" + tag))
	seed64 := append(seed[:], seed[:]...)
	ns, np := seedAddr("new-signer", newNode), seedAddr("new-payee", newNode)
	switch kind {
	case "slash":
		tx.Outputs = append(tx.Outputs, &common.Output{Type: common.OutputTypeCustodianSlashNodes, Amount: amount})
		tx.Extra = seed64
	case "custodian":
		tx.AddOutputWithType(common.OutputTypeCustodianUpdateNodes, []*common.Address{&f.users[0]}, common.NewThresholdScript(1), amount, seed64)
		tx.Extra = f.custodianExtra(tag)
	case "pledge":
		tx.Outputs = append(tx.Outputs, &common.Output{Type: common.OutputTypeNodePledge, Amount: amount})
		tx.Extra = append(append([]byte{}, ns.PublicSpendKey[:]...), np.PublicSpendKey[:]...)
	case "accept":
		tx.Outputs = append(tx.Outputs, &common.Output{Type: common.OutputTypeNodeAccept, Amount: amount})
		tx.Extra = append(append([]byte{}, ns.PublicSpendKey[:]...), np.PublicSpendKey[:]...)
	case "cancel":
		tx.Outputs = append(tx.Outputs, &common.Output{Type: common.OutputTypeNodeCancel, Amount: amount})
		tx.Extra = append(append([]byte{}, ns.PublicSpendKey[:]...), np.PublicSpendKey[:]...)
	case "remove":
		s, p, _ := nodeKeys(3 + newNode%3)
		tx.AddOutputWithType(common.OutputTypeNodeRemove, []*common.Address{&f.users[0]}, common.NewThresholdScript(1), amount, seed64)
		tx.Extra = append(append([]byte{}, s.PublicSpendKey[:]...), p.PublicSpendKey[:]...)
	default:
		panic("unknown class " + kind)
	}
	tx.References = []crypto.Hash{ref}
	return tx.AsVersioned()
}

func runRecorded(c *vh.Ctx, cs Case) {
	sp := cs.Recorded
	f := newFixture()
	defer f.close()
	last, err := f.store.ReadLastConsensusSnapshot()
	if err != nil || last == nil {
		panic("no last consensus snapshot")
	}
	// one spendable output per non-mint operation
	var funds []*common.VersionedTransaction
	ts := last.Timestamp + 1000
	for i := range sp.Ops {
		d := f.signedDeposit(fmt.Sprintf("%s-fund-%d", sp.Tag, i), "100", false)
		f.finalize(d, ts)
		funds = append(funds, d)
		ts += 1000
	}
	batch := uint64(1707)
	prev := last.Transactions[0]
	var finalized []*common.VersionedTransaction
	newNode, removed := 0, 0
	done := 0
	for i, kind := range sp.Ops {
		nn := newNode
		if kind == "remove" {
			nn = removed
		}
		op := f.buildOp(kind, fmt.Sprintf("%s-op%d", sp.Tag, i), batch, funds[i], prev, nn)
		batch++
		ts += 1000
		var snap *common.Snapshot
		pan, pv := vh.Catch(func() { snap = f.finalize(op, ts) })
		if pan {
			c.Note(fmt.Sprintf("fixture: %s could not be finalized (%v)", kind, pv))
			c.Count("recorded/unconstructible-" + kind)
			break
		}
		finalized = append(finalized, op)
		var rerr error
		rpan, rpv := vh.Catch(func() { rerr = f.node.VerifC28ReloadConsensusState(snap, op) })
		if rpan || rerr != nil {
			c.Count("recorded/reload-returned-error-" + kind)
			_ = rpv
		}
		switch kind {
		case "accept", "cancel":
			newNode++
		case "remove":
			removed++
		}
		head, err := f.store.ReadLastConsensusSnapshot()
		if err != nil || head == nil || len(head.Transactions) != 1 || head.Transactions[0] != op.PayloadHash() {
			c.Fail("finalized-consensus-operation-not-recorded", fmt.Sprintf("a finalized %s operation is not the recorded head after reloadConsensusState: the next operation will share its predecessor as parent", kind), cs)
		}
		check := func(ref crypto.Hash, tag string) error {
			tx := f.mintOp(fmt.Sprintf("%s-next%d-%s", sp.Tag, i, tag), batch, ref)
			s := &common.Snapshot{Version: common.SnapshotVersionCommonEncoding, NodeId: f.self, References: f.refs,
				RoundNumber: f.round, Timestamp: ts + 500, Transactions: []crypto.Hash{tx.PayloadHash()}}
			s.Hash = s.PayloadHash()
			return f.node.VerifC28ValidateConsensusTransactionReferences(s, tx)
		}
		if check(prev, "fork") == nil {
			c.Fail("second-child-of-one-consensus-operation-accepted", fmt.Sprintf("after a finalized %s operation, an operation referencing its predecessor passes the reference check", kind), cs)
			break
		}
		if err := check(op.PayloadHash(), "good"); err != nil {
			c.Fail("successor-of-finalized-consensus-operation-refused", fmt.Sprintf("the operation referencing the finalized %s operation is refused: %v", kind, err), cs)
			break
		}
		c.Count("recorded/class-" + kind)
		prev = op.PayloadHash()
		done++
	}
	rs := readRecords(f)
	if why := chainOracle(rs); why != "" {
		c.Fail("consensus-history-not-a-chain", "after reloadConsensusState: "+why, cs)
	}
	have := map[crypto.Hash]bool{}
	for _, r := range rs {
		if len(r.txs) == 1 {
			have[r.txs[0]] = true
		}
	}
	for _, tx := range finalized {
		if !have[tx.PayloadHash()] {
			c.Fail("finalized-consensus-operation-not-recorded", fmt.Sprintf("a finalized consensus operation (type %d) is missing from the recorded chain", tx.TransactionType()), cs)
			break
		}
	}
	x := &ids{}
	var fin []string
	for _, tx := range finalized {
		fin = append(fin, x.n(tx.PayloadHash()))
	}
	c.Case("recorded", fmt.Sprintf("recorded|%v", sp.Ops), done > 0, cs, vh.App("CRecorded", recTerms(x, rs), vh.List(fin, "N")))
}

func recordedCorpus() []Case {
	var out []Case
	for _, k := range []string{"mint", "slash", "custodian", "pledge", "remove"} {
		out = append(out, Case{Op: "recorded", Recorded: &Recorded{Ops: []string{k, "mint"}, Tag: "corpus-" + k}})
	}
	out = append(out, Case{Op: "recorded", Recorded: &Recorded{Ops: []string{"pledge", "accept", "mint"}, Tag: "corpus-accept"}})
	out = append(out, Case{Op: "recorded", Recorded: &Recorded{Ops: []string{"pledge", "cancel", "mint"}, Tag: "corpus-cancel"}})
	return out
}

func recordedGenerate(c *vh.Ctx) {
	r := c.Rng.Fork("recorded")
	for i := 0; i < c.Scale(6, 150); i++ {
		var ops []string
		pledging := false
		for j := 2 + r.Intn(5); j > 0; j-- {
			var k string
			if pledging {
				k = []string{"accept", "cancel"}[r.Intn(2)]
				pledging = false
			} else {
				k = []string{"mint", "mint", "slash", "custodian", "pledge", "remove"}[r.Intn(6)]
				pledging = k == "pledge"
			}
			ops = append(ops, k)
		}
		run(c, nil, Case{Op: "recorded", Recorded: &Recorded{Ops: ops, Tag: fmt.Sprintf("g%d", i)}})
	}
}
