package main

import (
	"fmt"

	"github.com/MixinNetwork/mixin/common"
	"github.com/MixinNetwork/mixin/config"
	"github.com/MixinNetwork/mixin/crypto"
	"github.com/MixinNetwork/mixin/kernel"
	"github.com/MixinNetwork/mixin/storage"
	"verifharness/vh"
)

// Restart histories: the kernel finalizes a consensus operation in two durable
// steps, WriteSnapshot (graph) then WriteConsensusSnapshot (recorded chain).
// Operations A1..An are finalized fully; B's snapshot is written and the node
// stops before the second step (or not: the control); the store is closed and
// the real kernel.SetupNode boots again on the same directory.
// Oracle (property text): the recorded head is B; a next operation referencing
// B with a later timestamp passes the reference check and one referencing B's
// predecessor is refused; after finalizing it the recorded history is a single
// chain that contains every finalized consensus operation.  Oracle only: the
// restart is not modelled.

type Restart struct {
	Before int    `json:"before"` // operations finalized fully before B (>= 1)
	Stop   bool   `json:"stop"`   // stop between B's two steps
	Reboot bool   `json:"reboot"` // control only: restart although nothing was interrupted
	Tag    string `json:"tag"`
}

func (f *fixture) reopen() {
	f.node.VerifC16StopLoops()
	if err := f.store.Close(); err != nil {
		panic(err)
	}
	custom, err := config.Initialize(f.dir + "/config.toml")
	if err != nil {
		panic(err)
	}
	gns, err := common.ReadGenesis(f.dir + "/genesis.json")
	if err != nil {
		panic(err)
	}
	store, err := storage.NewBadgerStore(custom, f.dir)
	if err != nil {
		panic(err)
	}
	node, err := kernel.VerifC16SetupNode(custom, store, gns)
	if err != nil {
		panic(fmt.Errorf("SetupNode after restart: %v", err))
	}
	f.store, f.node = store, node
	r, err := store.ReadRound(f.self)
	if err != nil || r == nil {
		panic("no cache round after restart")
	}
	f.round, f.refs = r.Number, r.References
}

func (f *fixture) mintOp(tag string, batch uint64, ref crypto.Hash) *common.VersionedTransaction {
	m := common.NewTransactionV5(common.XINAssetId)
	m.AddUniversalMintInput(batch, common.NewInteger(1))
	seed := crypto.Blake3Hash([]byte("c28-restart-" + tag))
	m.AddScriptOutput([]*common.Address{&f.users[0]}, common.NewThresholdScript(1), common.NewInteger(1), append(seed[:], seed[:]...))
	m.References = []crypto.Hash{ref}
	return m.AsVersioned()
}

func runRestart(c *vh.Ctx, cs Case) {
	sp := cs.Restart
	f := newFixture()
	defer f.close()
	last, err := f.store.ReadLastConsensusSnapshot()
	if err != nil || last == nil {
		panic("no last consensus snapshot")
	}
	fail := func(sig, what string) { c.Fail(sig, what, cs) }
	batch := uint64(kernel.KernelNetworkLegacyEnding) + 1
	ts := last.Timestamp + 1000
	var finalized []*common.VersionedTransaction
	prev := last.Transactions[0]
	for i := 0; i < sp.Before; i++ {
		a := f.mintOp(fmt.Sprintf("%s-a%d", sp.Tag, i), batch, prev)
		as := f.finalize(a, ts)
		if err := f.store.WriteConsensusSnapshot(as, a, nil); err != nil {
			panic(err)
		}
		finalized = append(finalized, a)
		prev = a.PayloadHash()
		batch++
		ts += 1000
	}
	predecessor := prev
	b := f.mintOp(sp.Tag+"-b", batch, prev)
	bs := f.finalize(b, ts) // WriteSnapshot: B alone in its snapshot, last in topology
	finalized = append(finalized, b)
	batch++
	ts += 1000
	if !sp.Stop {
		if err := f.store.WriteConsensusSnapshot(bs, b, nil); err != nil {
			panic(err)
		}
	}
	if sp.Stop || sp.Reboot {
		pan, pv := vh.Catch(func() { f.reopen() })
		if pan {
			fail("restart-failed", fmt.Sprintf("SetupNode after the stop panicked: %v", pv))
			c.Case("restart", fmt.Sprintf("restart|%d|%v|%v", sp.Before, sp.Stop, sp.Reboot), false, cs, "")
			return
		}
	}
	ok := true
	head, err := f.store.ReadLastConsensusSnapshot()
	if err != nil || head == nil || len(head.Transactions) != 1 || head.Transactions[0] != b.PayloadHash() {
		ok = false
		fail("consensus-head-lost-across-restart", "a finalized consensus operation is not the recorded head after the restart: the next operation will share its predecessor as parent")
	}
	// the next operation: referencing B is accepted, referencing B's predecessor is refused
	good := f.mintOp(sp.Tag+"-c", batch, b.PayloadHash())
	bad := f.mintOp(sp.Tag+"-c-fork", batch, predecessor)
	check := func(tx *common.VersionedTransaction) error {
		s := &common.Snapshot{Version: common.SnapshotVersionCommonEncoding, NodeId: f.self, References: f.refs,
			RoundNumber: f.round, Timestamp: ts, Transactions: []crypto.Hash{tx.PayloadHash()}}
		s.Hash = s.PayloadHash()
		return f.node.VerifC28ValidateConsensusTransactionReferences(s, tx)
	}
	if err := check(bad); err == nil {
		ok = false
		fail("second-child-of-one-consensus-operation-accepted", "an operation referencing the predecessor of a finalized operation passes the reference check: two finalized operations would share one parent")
	}
	if err := check(good); err != nil {
		ok = false
		fail("successor-of-finalized-consensus-operation-refused", "the operation referencing the last finalized consensus operation is refused: "+err.Error())
	}
	if ok {
		cs2 := f.finalize(good, ts)
		if err := f.store.WriteConsensusSnapshot(cs2, good, nil); err != nil {
			panic(err)
		}
		finalized = append(finalized, good)
		rs := readRecords(f)
		if why := chainOracle(rs); why != "" {
			fail("consensus-history-not-a-chain", "after the restart: "+why)
		}
		have := map[crypto.Hash]bool{}
		for _, r := range rs {
			if len(r.txs) == 1 {
				have[r.txs[0]] = true
			}
		}
		for _, tx := range finalized {
			if !have[tx.PayloadHash()] {
				fail("finalized-consensus-operation-not-recorded", "a finalized consensus operation is missing from the recorded chain")
			}
		}
	}
	kind := "restart/control"
	if sp.Stop {
		kind = "restart/stop-between-steps"
	}
	c.Case(kind, fmt.Sprintf("restart|%d|%v|%v", sp.Before, sp.Stop, sp.Reboot), true, cs, "")
}

func restartCorpus() []Case {
	return []Case{
		{Op: "restart", Restart: &Restart{Before: 1, Stop: true, Tag: "corpus-stop"}},
		{Op: "restart", Restart: &Restart{Before: 1, Stop: false, Reboot: true, Tag: "corpus-control-reboot"}},
		{Op: "restart", Restart: &Restart{Before: 2, Stop: false, Tag: "corpus-control"}},
	}
}

func restartGenerate(c *vh.Ctx) {
	r := c.Rng.Fork("restart")
	for i := 0; i < c.Scale(5, 120); i++ {
		stop := r.Chance(2, 3)
		run(c, nil, Case{Op: "restart", Restart: &Restart{Before: 1 + r.Intn(3), Stop: stop, Reboot: !stop && r.Bool(), Tag: fmt.Sprintf("g%d", i)}})
	}
}
