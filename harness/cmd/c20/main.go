// C20 harness: random histories of round transitions (startNewRoundAndPersist,
// updateEmptyHeadRoundAndPersist, live-round accepts) over several chains that
// share one real Badger store, driven through add-only hooks.  Every step is
// recorded for the Coq model, and the property is checked directly on the
// implementation: an accepted start has number = previous + 1 and commits to the
// hash of the previous final round; its external reference names a known final
// round of a different node; the stored LINK and the in-memory RoundLinks agree
// and never decrease; a rejected transition leaves ROUND/LINK records and the
// chain state unchanged.
package main

import (
	"bytes"
	"encoding/binary"
	"fmt"
	"os"
	"sort"
	"strings"

	"github.com/MixinNetwork/mixin/common"
	"github.com/MixinNetwork/mixin/config"
	"github.com/MixinNetwork/mixin/crypto"
	"github.com/MixinNetwork/mixin/kernel"
	"github.com/MixinNetwork/mixin/storage"
	"verifharness/vh"
)

const gap = config.SnapshotRoundGap

// symbolic reference, resolved against the live state when the step runs
type Ref struct {
	Kind  string `json:"kind"`  // good|oldgood|cur|final|head|unknown|zero
	Chain int    `json:"chain"` // final/head: which chain
	Back  int    `json:"back"`  // final: how many rounds before that chain's latest known final
	Salt  uint64 `json:"salt"`  // unknown
}

type Op struct {
	Kind  string   `json:"kind"` // add|start|update
	Chain int      `json:"chain"`
	Self  Ref      `json:"self"`
	Ext   Ref      `json:"ext"`
	Dt    uint64   `json:"dt"`   // timestamp offset from the chain's final start
	Flag  bool     `json:"flag"` // start: finalized; update: strict
	Hash  uint64   `json:"hash"` // add: snapshot hash (small)
	Txs   []uint64 `json:"txs"`
	// store fault injected into this transition: the named storage.Store call fails
	// once (ReadRound|ReadLink|StartNewRound|UpdateEmptyHeadRound), after FaultAt
	// successful calls of the same name
	Fault   string `json:"fault,omitempty"`
	FaultAt int    `json:"fault_at,omitempty"`
}

// faultStore decorates the real store handed to the kernel: one chosen call
// returns an error instead of reaching Badger.
type faultStore struct {
	storage.Store
	arm  string
	skip int
	hit  bool
}

func (f *faultStore) trip(name string) error {
	if f.arm != name {
		return nil
	}
	if f.skip > 0 {
		f.skip--
		return nil
	}
	f.arm, f.hit = "", true
	return fmt.Errorf("injected store fault at %s", name)
}

func (f *faultStore) ReadRound(h crypto.Hash) (*common.Round, error) {
	if err := f.trip("ReadRound"); err != nil {
		return nil, err
	}
	return f.Store.ReadRound(h)
}

func (f *faultStore) ReadLink(from, to crypto.Hash) (uint64, error) {
	if err := f.trip("ReadLink"); err != nil {
		return 0, err
	}
	return f.Store.ReadLink(from, to)
}

func (f *faultStore) StartNewRound(node crypto.Hash, number uint64, references *common.RoundLink, finalStart uint64) error {
	if err := f.trip("StartNewRound"); err != nil {
		return err
	}
	return f.Store.StartNewRound(node, number, references, finalStart)
}

func (f *faultStore) UpdateEmptyHeadRound(node crypto.Hash, number uint64, references *common.RoundLink) error {
	if err := f.trip("UpdateEmptyHeadRound"); err != nil {
		return err
	}
	return f.Store.UpdateEmptyHeadRound(node, number, references)
}

type Case struct {
	Kind    string `json:"kind"`
	K       int    `json:"k"`
	Seed    uint64 `json:"seed"` // node ids
	Base    uint64 `json:"base"`
	Genesis []bool `json:"genesis"`
	Ops     []Op   `json:"ops"`
}

func small(n uint64) crypto.Hash {
	var h crypto.Hash
	binary.BigEndian.PutUint64(h[24:], n)
	return h
}

func nN(h crypto.Hash) string { return num32(h[:]) }

// the chained hash of a snapshot set (the property's round hash) and the Blake3
// evaluations along it, for the model's table
func roundHash(node crypto.Hash, number uint64, snaps []*common.Snapshot, tbl *[]string) crypto.Hash {
	ss := append([]*common.Snapshot{}, snaps...)
	sort.SliceStable(ss, func(i, j int) bool {
		if ss[i].Timestamp != ss[j].Timestamp {
			return ss[i].Timestamp < ss[j].Timestamp
		}
		return bytes.Compare(ss[i].Hash[:], ss[j].Hash[:]) < 0
	})
	h := crypto.Blake3Hash(binary.BigEndian.AppendUint64(append([]byte{}, node[:]...), number))
	*tbl = append(*tbl, "("+vh.App("HSeed", nN(node), vh.NU(number))+", "+nN(h)+")")
	for _, s := range ss {
		n := crypto.Blake3Hash(append(append([]byte{}, h[:]...), s.Hash[:]...))
		*tbl = append(*tbl, "("+vh.App("HLink", nN(h), nN(s.Hash))+", "+nN(n)+")")
		h = n
	}
	return h
}

type known struct {
	hash   crypto.Hash
	number uint64
}

type world struct {
	dir    string
	store  *storage.BadgerStore
	fs     *faultStore // what the kernel sees
	ids    []crypto.Hash
	chains []*kernel.Chain
	finals [][]known // final rounds the harness has seen created, per chain
	// hash the live round had at the previous start attempt of the chain (stale once
	// another snapshot has been collected)
	lastGood map[int]crypto.Hash
}

var custom *config.Custom

func (w *world) close() {
	w.store.Close()
	os.RemoveAll(w.dir)
}

func coqRound(key crypto.Hash, r *common.Round) string {
	self, ext := crypto.Hash{}, crypto.Hash{}
	if r.References != nil {
		self, ext = r.References.Self, r.References.External
	}
	return "(" + nN(key) + ", " + vh.App("mk_rr", nN(r.Hash), nN(r.NodeId), vh.NU(r.Number), vh.NU(r.Timestamp), nN(self), nN(ext)) + ")"
}

// ROUND and LINK records of the store: canonical text (for before/after
// comparison) and Coq terms
func (w *world) dump(c *vh.Ctx, cs Case) (string, []string, []string) {
	pr, pl := storage.VerifC20RoundLinkPrefixes()
	linkKeys := map[string][2]int{}
	for i, a := range w.ids {
		for j, b := range w.ids {
			linkKeys[string(storage.VerifC20LinkKey(a, b))] = [2]int{i, j}
		}
	}
	var sb strings.Builder
	var rounds, links []string
	for _, kv := range w.store.VerifDump() {
		if kv.DB != "snapshots" {
			continue
		}
		switch {
		case len(kv.Key) == len(pr)+32 && string(kv.Key[:len(pr)]) == pr:
			r, err := common.UnmarshalRound(kv.Value)
			if err != nil {
				c.Fail("round-record-undecodable", "a ROUND record does not decode", cs)
				continue
			}
			var key crypto.Hash
			copy(key[:], kv.Key[len(pr):])
			rounds = append(rounds, coqRound(key, r))
			fmt.Fprintf(&sb, "R %x %x\n", kv.Key, kv.Value)
		case len(kv.Key) == len(pl)+32 && string(kv.Key[:len(pl)]) == pl:
			ft, ok := linkKeys[string(kv.Key)]
			if !ok || len(kv.Value) != 8 {
				c.Fail("link-record-unknown", "a LINK record between unknown nodes or of a wrong size appeared", cs)
				continue
			}
			links = append(links, "(("+nN(w.ids[ft[0]])+", "+nN(w.ids[ft[1]])+"), "+vh.NU(binary.BigEndian.Uint64(kv.Value))+")")
			fmt.Fprintf(&sb, "L %x %x\n", kv.Key, kv.Value)
		}
	}
	return sb.String(), rounds, links
}

func memText(ch *kernel.Chain, ids []crypto.Hash) string {
	f, c, l := ch.VerifC20State()
	var sb strings.Builder
	fmt.Fprintf(&sb, "F %s %d %d %d %s|C %s %d %s %s|", f.NodeId, f.Number, f.Start, f.End, f.Hash, c.NodeId, c.Number, c.References.Self, c.References.External)
	hs := make([]string, len(c.Snapshots))
	for i, s := range c.Snapshots {
		hs[i] = s.Hash.String()
	}
	sort.Strings(hs)
	sb.WriteString(strings.Join(hs, ","))
	for _, id := range ids {
		fmt.Fprintf(&sb, "|%d", l[id])
	}
	return sb.String()
}

func coqFinal(f *kernel.FinalRound) string {
	return vh.App("mk_fr", nN(f.NodeId), vh.NU(f.Number), vh.NU(f.Start), vh.NU(f.End), nN(f.Hash))
}

func coqCache(c *kernel.CacheRound, withSnaps bool) string {
	snaps := "(@nil snap)"
	if withSnaps {
		var ss []string
		for _, s := range c.Snapshots {
			ss = append(ss, coqSnap(s))
		}
		snaps = vh.List(ss, "snap")
	}
	return vh.App("mk_cr", nN(c.NodeId), vh.NU(c.Number), vh.NU(c.Timestamp), nN(c.References.Self), nN(c.References.External), snaps)
}

func coqSnap(s *common.Snapshot) string {
	txs := make([]string, len(s.Transactions))
	for i, t := range s.Transactions {
		txs[i] = nN(t)
	}
	return vh.App("mk_snap", nN(s.Hash), vh.NU(s.Timestamp), vh.NU(uint64(s.Version)), vh.NU(s.RoundNumber), vh.List(txs, "N"))
}

func newWorld(c *vh.Ctx, cs Case, tbl *[]string) (*world, string) {
	if custom == nil {
		var err error
		custom, err = config.Initialize(os.Getenv("VERIF_REPO") + "/config/config.example.toml")
		if err != nil {
			panic(err)
		}
	}
	dir, err := os.MkdirTemp("", "c20-")
	if err != nil {
		panic(err)
	}
	store, err := storage.NewBadgerStore(custom, dir)
	if err != nil {
		panic(err)
	}
	w := &world{dir: dir, store: store, fs: &faultStore{Store: store}, lastGood: map[int]crypto.Hash{}}
	idr := vh.NewRand(cs.Seed, "c20ids")
	for i := 0; i < cs.K; i++ {
		var id crypto.Hash
		copy(id[:], idr.Bytes(32))
		if cs.Seed%5 != 0 { // mostly short ids: cheaper case terms
			id = small(100000 + cs.Seed%1000*10 + uint64(i))
		}
		w.ids = append(w.ids, id)
	}
	finals := make([]*kernel.FinalRound, cs.K)
	caches := make([]*kernel.CacheRound, cs.K)
	for i, id := range w.ids {
		c0 := kernel.VerifC19NewCacheRound(id, 0)
		s := &common.Snapshot{Version: common.SnapshotVersionCommonEncoding, NodeId: id, RoundNumber: 0,
			Timestamp: cs.Base + uint64(i)*7, Hash: small(uint64(900 + i)), Transactions: []crypto.Hash{small(uint64(9000 + i))}}
		if err := c0.VerifC19Validate(s, true); err != nil {
			panic(err)
		}
		finals[i] = c0.VerifC19AsFinal()
		roundHash(id, 0, c0.Snapshots, tbl)
		w.finals = append(w.finals, []known{{finals[i].Hash, 0}})
	}
	var initRounds []string
	for i, id := range w.ids {
		f := finals[i]
		fr := &common.Round{Hash: f.Hash, NodeId: id, Number: 0, Timestamp: f.Start}
		refs := &common.RoundLink{Self: f.Hash, External: finals[(i+1)%cs.K].Hash}
		hr := &common.Round{Hash: id, NodeId: id, Number: 1, References: refs}
		for _, r := range []*common.Round{fr, hr} {
			if err := store.VerifC20WriteRound(r.Hash, r); err != nil {
				panic(err)
			}
			initRounds = append(initRounds, coqRound(r.Hash, r))
		}
		caches[i] = kernel.VerifC19NewCacheRound(id, 1)
		caches[i].Timestamp = f.Start + gap + 1
		caches[i].References = refs.Copy()
	}
	_, w.chains = kernel.VerifC20NewNode(w.fs, w.ids, cs.Genesis, finals, caches)
	var chains []string
	for i := range w.ids {
		chains = append(chains, vh.App("mk_chain", nN(w.ids[i]), coqFinal(finals[i]), coqCache(caches[i], true), "(@nil (N * N))"))
	}
	init := vh.App("mk_world", vh.App("mk_dur", vh.List(initRounds, "(N * round_rec)"), "(@nil ((N * N) * N))"), vh.List(chains, "chain"))
	return w, init
}

func (w *world) resolve(r Ref, self bool, ch int, tbl *[]string) crypto.Hash {
	_, cache, _ := w.chains[ch].VerifC20State()
	switch r.Kind {
	case "good": // hash of the live round as it stands
		if len(cache.Snapshots) == 0 {
			return cache.References.Self
		}
		return roundHash(w.ids[ch], cache.Number, cache.Snapshots, tbl)
	case "oldgood":
		if h, ok := w.lastGood[ch]; ok {
			return h
		}
		return cache.References.Self
	case "cur":
		if self {
			return cache.References.Self
		}
		return cache.References.External
	case "final":
		fs := w.finals[r.Chain%len(w.finals)]
		i := len(fs) - 1 - r.Back
		if i < 0 {
			i = 0
		}
		return fs[i].hash
	case "head":
		return w.ids[r.Chain%len(w.ids)]
	case "zero":
		return crypto.Hash{}
	}
	return crypto.Blake3Hash(binary.BigEndian.AppendUint64([]byte("unknown"), r.Salt))
}

func (w *world) finalOwner(h crypto.Hash) (int, uint64, bool) {
	for i, fs := range w.finals {
		for _, k := range fs {
			if k.hash == h {
				return i, k.number, true
			}
		}
	}
	return 0, 0, false
}

func coqOp(kind string, id crypto.Hash, self, ext crypto.Hash, ts uint64, flag, sanity bool) string {
	return vh.App(kind, nN(id), nN(self), nN(ext), vh.NU(ts), vh.Bool(flag), vh.Bool(sanity))
}

func run(c *vh.Ctx, cs Case) {
	var tbl []string
	w, init := newWorld(c, cs, &tbl)
	defer w.close()
	var ops, classes []string
	accepted, dead := 0, false
	// known finding: once a reference to a node id (another chain's HEAD record) has been
	// accepted, later failures of the same history are consequences of it
	headRef := false
	fail := func(sig, what string) {
		if headRef {
			sig += "-after-head-reference"
		}
		c.Fail(sig, what, cs)
	}
	prevLinks := make([][]uint64, cs.K) // monotonicity across the whole history
	for i := range prevLinks {
		prevLinks[i] = make([]uint64, cs.K)
	}
	for _, op := range cs.Ops {
		if dead {
			break
		}
		ci := op.Chain % cs.K
		ch, id := w.chains[ci], w.ids[ci]
		final0, cache0, links0 := ch.VerifC20State()
		dump0, _, _ := w.dump(c, cs)
		mem0 := make([]string, cs.K)
		for i := range w.chains {
			mem0[i] = memText(w.chains[i], w.ids)
		}
		ts := final0.Start + op.Dt
		class := ""
		// the state a restart would load if this transition fail-stops
		var preFinals []*kernel.FinalRound
		var preCaches []*kernel.CacheRound
		if op.Fault != "" {
			for _, chn := range w.chains {
				f, ca, _ := chn.VerifC20State()
				preFinals, preCaches = append(preFinals, f), append(preCaches, ca)
			}
		}
		faultHit := false
		switch op.Kind {
		case "add":
			s := &common.Snapshot{Version: common.SnapshotVersionCommonEncoding, NodeId: id, RoundNumber: cache0.Number,
				Timestamp: ts, Hash: small(op.Hash)}
			for _, t := range op.Txs {
				s.Transactions = append(s.Transactions, small(t))
			}
			var err error
			pan, _ := vh.Catch(func() { err = ch.VerifC20AddSnapshotViaCopy(s) })
			class = map[bool]string{true: "1", false: "0"}[err != nil]
			if pan {
				class = "2"
			}
			ops = append(ops, vh.App("OAdd", nN(id), coqSnap(s)))
		case "start", "update":
			self := w.resolve(op.Self, true, ci, &tbl)
			ext := w.resolve(op.Ext, false, ci, &tbl)
			if len(cache0.Snapshots) > 0 {
				h := roundHash(id, cache0.Number, cache0.Snapshots, &tbl) // what asFinal will evaluate
				if op.Kind == "start" {
					w.lastGood[ci] = h // (the references of this step are already resolved)
				}
			}
			sanity := true
			strict := (op.Kind == "start" && !op.Flag) || (op.Kind == "update" && op.Flag)
			if strict {
				if p, _ := vh.Catch(func() { sanity = ch.VerifC20StrictChecks(ext, ts) }); p {
					sanity = true
				}
			}
			var err error
			var nf *kernel.FinalRound
			var dummy, pan bool
			if op.Fault != "" {
				w.fs.arm, w.fs.skip, w.fs.hit = op.Fault, op.FaultAt, false
			}
			if op.Kind == "start" {
				pan, _ = vh.Catch(func() { _, nf, dummy, err = ch.VerifC20Start(&common.RoundLink{Self: self, External: ext}, ts, op.Flag) })
				ops = append(ops, coqOp("OStart", id, self, ext, ts, op.Flag, sanity))
			} else {
				pan, _ = vh.Catch(func() { err = ch.VerifC20UpdateEmptyHead(&common.RoundLink{Self: self, External: ext}, ts, op.Flag) })
				ops = append(ops, coqOp("OUpdate", id, self, ext, ts, op.Flag, sanity))
			}
			w.fs.arm = ""
			faultHit = w.fs.hit
			w.fs.hit = false
			if faultHit {
				c.Count("fault-" + op.Fault + map[bool]string{true: "-failstop", false: "-returned"}[pan])
			}
			switch {
			case pan:
				class = "2"
			case err != nil || (op.Kind == "start" && nf == nil):
				class = "1"
			case dummy:
				class = "3"
			default:
				class = "0"
			}
			// ---- the property, on the implementation ----
			final1, cache1, links1 := ch.VerifC20State()
			dump1, _, _ := w.dump(c, cs)
			switch class {
			case "2":
				if !faultHit {
					fail("transition-panics", op.Kind+" panicked")
				} else if dump0 != dump1 {
					// fail-stop on a store fault is allowed, but the store must be untouched
					fail("failstop-changes-durable", "a "+op.Kind+" that stopped on a store fault had already changed ROUND/LINK records")
				}
			case "1":
				if dump0 != dump1 {
					fail("reject-changes-durable", "a rejected "+op.Kind+" changed ROUND/LINK records")
				}
				for i := range w.chains {
					if memText(w.chains[i], w.ids) != mem0[i] {
						fail("reject-changes-memory", "a rejected "+op.Kind+" changed a chain's in-memory state")
					}
				}
			default:
				if faultHit {
					fail("store-fault-ignored", "a "+op.Kind+" reported success although its "+op.Fault+" call failed")
				}
				accepted++
				if op.Kind == "start" {
					want := roundHash(id, cache0.Number, cache0.Snapshots, &tbl)
					if cache1.Number != cache0.Number+1 || final1.Number != cache0.Number || final1.Number != final0.Number+1 {
						fail("number-not-successor", "an accepted start did not advance the round number by exactly one")
					}
					if cache1.References.Self != want || final1.Hash != want || self != want {
						fail("self-not-previous-final", "an accepted start does not commit to the hash of the previous final round")
					}
					lo, hi := ^uint64(0), uint64(0)
					for _, sn := range cache0.Snapshots {
						lo, hi = min(lo, sn.Timestamp), max(hi, sn.Timestamp)
					}
					if final1.Start != lo || final1.End != hi {
						fail("final-bounds-stale", "the final round's start/end are not the min/max of the snapshots collected in the closed round")
					}
					if fr0, _ := w.store.ReadRound(want); fr0 == nil || fr0.Hash != want || fr0.Timestamp != lo {
						fail("durable-round-wrong", "the stored ROUND record of the closed round does not carry a fresh hash/start of all its snapshots")
					}
					w.finals[ci] = append(w.finals[ci], known{final1.Hash, final1.Number})
					hr, _ := w.store.ReadRound(id)
					fr, _ := w.store.ReadRound(want)
					if hr == nil || hr.Number != cache1.Number || hr.References == nil || hr.References.Self != want ||
						hr.References.External != cache1.References.External || fr == nil || fr.NodeId != id || fr.Number != final1.Number {
						fail("durable-round-wrong", "ROUND records after an accepted start do not describe the new head and the closed round")
					}
				} else if cache1.Number != cache0.Number || cache1.References.Self != cache0.References.Self || final1.Hash != final0.Hash {
					fail("update-moved-round", "an accepted empty-head update changed the round number or self reference")
				}
				if class == "3" {
					if cache1.References.External != cache0.References.External {
						fail("dummy-changed-external", "the dummy-external start changed the external reference")
					}
				} else {
					if cache1.References.External != ext {
						fail("external-not-recorded", "the accepted external reference is not the one recorded")
					}
					owner, num, ok := w.finalOwner(ext)
					switch {
					case !ok:
						isHead := false
						for _, nid := range w.ids {
							isHead = isHead || nid == ext
						}
						if isHead {
							headRef = true
							c.Fail("external-names-head-record", "an accepted external reference is a node id: it names that node's head (cache) round record, not a final round", cs)
						} else {
							fail("external-not-a-final-round", "an accepted external reference does not name a known final round")
						}
					case owner == ci:
						fail("external-own-chain", "an accepted external reference names a round of the same chain")
					default:
						if links1[w.ids[owner]] != num {
							fail("link-not-external-number", "RoundLinks does not hold the number of the accepted external round")
						}
						if num < links0[w.ids[owner]] {
							fail("link-decreased", "an accepted external reference moved a link backwards")
						}
					}
				}
			}
		}
		classes = append(classes, class)
		if class == "2" && faultHit {
			// fail-stop: the process restarts and loads its state from the store (which the
			// failed call left untouched): round states as before the call, links re-read
			_, w.chains = kernel.VerifC20NewNode(w.fs, w.ids, cs.Genesis, preFinals, preCaches)
			ch = w.chains[ci]
		} else if class == "2" {
			dead = true
			break
		}
		// mirror and monotonicity in every reachable state
		for i, chn := range w.chains {
			_, _, l := chn.VerifC20State()
			for j, other := range w.ids {
				if i == j {
					continue
				}
				dl, err := w.store.ReadLink(w.ids[i], other)
				if err != nil {
					panic(err)
				}
				if dl != l[other] {
					fail("mirror-broken", fmt.Sprintf("LINK record %d=>%d is %d, RoundLinks holds %d", i, j, dl, l[other]))
				}
				if dl < prevLinks[i][j] {
					fail("link-decreased", "a stored link decreased")
				}
				prevLinks[i][j] = dl
			}
		}
	}
	_, rounds, links := w.dump(c, cs)
	var mem []string
	for i, chn := range w.chains {
		f, ca, l := chn.VerifC20State()
		var hs, ls []string
		for _, s := range ca.Snapshots {
			hs = append(hs, nN(s.Hash))
		}
		for j, other := range w.ids {
			if i != j {
				ls = append(ls, "("+nN(other)+", "+vh.NU(l[other])+")")
			}
		}
		mem = append(mem, vh.App("mk_obs", nN(w.ids[i]), coqFinal(f), coqCache(ca, false), vh.List(hs, "N"), vh.List(ls, "(N * N)")))
	}
	sort.Strings(tbl)
	tbl = dedup(tbl)
	key, _ := jsonKey(cs)
	for _, op := range cs.Ops {
		if op.Fault != "" {
			// histories with injected store faults are checked by the oracle only
			c.Case(cs.Kind, key, accepted >= 2, cs, "")
			return
		}
	}
	c.Case(cs.Kind, key, accepted >= 2, cs,
		vh.App("CHist", init, vh.List(tbl, "(hin * N)"), vh.List(ops, "op"), vh.List(classes, "N"),
			vh.List(rounds, "(N * round_rec)"), vh.List(links, "((N * N) * N)"), vh.List(mem, "chain_obs")))
}

func dedup(xs []string) []string {
	var out []string
	for i, x := range xs {
		if i == 0 || x != xs[i-1] {
			out = append(out, x)
		}
	}
	return out
}

func jsonKey(cs Case) (string, error) { return fmt.Sprintf("%v", cs), nil }

// ---- generators ---------------------------------------------------------------------

func genRefExt(r *vh.Rand, k, self int) Ref {
	other := (self + 1 + r.Intn(k-1)) % k
	switch r.Intn(16) {
	case 0:
		return Ref{Kind: "final", Chain: self, Back: r.Intn(2)} // own chain
	case 1:
		return Ref{Kind: "unknown", Salt: r.U64()}
	case 2:
		return Ref{Kind: "final", Chain: other, Back: r.Range(1, 3)} // stale
	case 3:
		return Ref{Kind: "cur"}
	case 4:
		return Ref{Kind: "zero"}
	default:
		return Ref{Kind: "final", Chain: other}
	}
}

func genHistory(c *vh.Ctx) Case {
	r := c.Rng
	k := r.Range(2, 5)
	cs := Case{Kind: "history", K: k, Seed: r.U64(), Base: 1700000000000000000 + r.U64()%1000000000000000}
	for i := 0; i < k; i++ {
		cs.Genesis = append(cs.Genesis, !r.Chance(1, 5))
	}
	n := r.Range(4, 28)
	nextHash := uint64(1)
	for i := 0; i < n; i++ {
		ch := r.Intn(k)
		switch r.Intn(9) {
		case 0, 1, 2, 3:
			op := Op{Kind: "add", Chain: ch, Dt: gap + 2 + r.U64()%(gap-4), Hash: nextHash, Txs: []uint64{5000 + nextHash}}
			nextHash++
			if r.Chance(1, 10) {
				op.Dt = 2*gap + r.U64()%gap // may not fit the live round
			}
			cs.Ops = append(cs.Ops, op)
		case 4, 5, 6:
			op := Op{Kind: "start", Chain: ch, Self: Ref{Kind: "good"}, Ext: genRefExt(r, k, ch), Dt: 2*gap + r.U64()%gap, Flag: r.Chance(2, 3)}
			if r.Chance(1, 8) {
				op.Self = Ref{Kind: []string{"cur", "unknown", "oldgood"}[r.Intn(3)], Salt: r.U64()}
			}
			cs.Ops = append(cs.Ops, op)
			if r.Chance(1, 4) { // the same start again after one more snapshot was collected
				more := Op{Kind: "add", Chain: ch, Dt: gap + 2 + r.U64()%(gap-4), Hash: nextHash, Txs: []uint64{5000 + nextHash}}
				nextHash++
				again := op
				again.Self = Ref{Kind: []string{"good", "good", "oldgood"}[r.Intn(3)]}
				again.Ext = Ref{Kind: "final", Chain: (ch + 1) % k}
				cs.Ops = append(cs.Ops, more, again)
			}
		default:
			op := Op{Kind: "update", Chain: ch, Self: Ref{Kind: "cur"}, Ext: genRefExt(r, k, ch), Dt: 2*gap + r.U64()%gap, Flag: r.Chance(1, 3)}
			if r.Chance(1, 10) {
				op.Self = Ref{Kind: "unknown", Salt: r.U64()}
			}
			cs.Ops = append(cs.Ops, op)
		}
	}
	return cs
}

// mostly valid transitions, a third of them with a store fault at one of the calls
// the transition makes
func genFaultHistory(c *vh.Ctx) Case {
	r := c.Rng
	k := r.Range(2, 4)
	cs := Case{Kind: "fault-history", K: k, Seed: r.U64(), Base: 1700000000000000000 + r.U64()%1000000000000000}
	for i := 0; i < k; i++ {
		cs.Genesis = append(cs.Genesis, true)
	}
	nextHash := uint64(1)
	for i, n := 0, r.Range(6, 24); i < n; i++ {
		ch := r.Intn(k)
		other := (ch + 1 + r.Intn(k-1)) % k
		switch r.Intn(7) {
		case 0, 1, 2:
			cs.Ops = append(cs.Ops, Op{Kind: "add", Chain: ch, Dt: gap + 2 + r.U64()%(gap-4), Hash: nextHash, Txs: []uint64{5000 + nextHash}})
			nextHash++
		case 3, 4:
			op := Op{Kind: "start", Chain: ch, Self: Ref{Kind: "good"}, Ext: Ref{Kind: "final", Chain: other}, Dt: 2*gap + r.U64()%gap, Flag: r.Chance(2, 3)}
			if r.Chance(1, 6) {
				op.Ext = Ref{Kind: "unknown", Salt: r.U64()} // dummy path on the finalized side
			}
			if r.Chance(1, 2) {
				op.Fault = []string{"ReadRound", "ReadLink", "StartNewRound"}[r.Intn(3)]
			}
			cs.Ops = append(cs.Ops, op)
		default:
			op := Op{Kind: "update", Chain: ch, Self: Ref{Kind: "cur"}, Ext: Ref{Kind: "final", Chain: other}, Dt: 2*gap + r.U64()%gap, Flag: r.Chance(1, 4)}
			if r.Chance(1, 2) {
				op.Fault = []string{"ReadRound", "ReadLink", "UpdateEmptyHeadRound"}[r.Intn(3)]
			}
			cs.Ops = append(cs.Ops, op)
		}
	}
	return cs
}

func faultCorpus() []Case {
	b := uint64(1700000000000000000)
	g := []bool{true, true, true}
	add := func(ch int, h uint64) Op { return Op{Kind: "add", Chain: ch, Dt: gap + 10 + h, Hash: h, Txs: []uint64{5000 + h}} }
	fin := func(ch, back int) Ref { return Ref{Kind: "final", Chain: ch, Back: back} }
	start := func(ch int, ext Ref, f string) Op {
		return Op{Kind: "start", Chain: ch, Self: Ref{Kind: "good"}, Ext: ext, Dt: 2 * gap, Flag: true, Fault: f}
	}
	upd := func(ch int, ext Ref, f string) Op {
		return Op{Kind: "update", Chain: ch, Self: Ref{Kind: "cur"}, Ext: ext, Dt: 2 * gap, Fault: f}
	}
	var out []Case
	// chain 1 advances; chain 0 moves its empty head forward to it with a store fault at each
	// call, then for real; then the same for a round start of chain 0
	for i, f := range []string{"UpdateEmptyHeadRound", "ReadRound", "ReadLink"} {
		out = append(out, Case{Kind: "fault-corpus", K: 3, Seed: uint64(20 + i), Base: b, Genesis: g, Ops: []Op{
			add(1, 1), start(1, fin(2, 0), ""), upd(0, fin(1, 0), f), upd(0, fin(1, 1), ""), upd(0, fin(1, 0), ""),
			add(1, 2), start(1, fin(2, 0), ""), upd(0, fin(1, 0), f), upd(0, fin(1, 0), "")}})
	}
	for i, f := range []string{"StartNewRound", "ReadRound", "ReadLink"} {
		out = append(out, Case{Kind: "fault-corpus", K: 3, Seed: uint64(30 + i), Base: b, Genesis: g, Ops: []Op{
			add(1, 1), start(1, fin(2, 0), ""), add(0, 2), start(0, fin(1, 0), f), start(0, fin(1, 1), ""), start(0, fin(1, 0), ""),
			add(0, 3), start(0, Ref{Kind: "unknown", Salt: 4}, f), upd(0, fin(1, 0), "")}})
	}
	return out
}

func corpus() []Case {
	b := uint64(1700000000000000000)
	g := []bool{true, true, true}
	add := func(ch int, h uint64) Op { return Op{Kind: "add", Chain: ch, Dt: gap + 10 + h, Hash: h, Txs: []uint64{5000 + h}} }
	start := func(ch int, ext Ref, fin bool) Op {
		return Op{Kind: "start", Chain: ch, Self: Ref{Kind: "good"}, Ext: ext, Dt: 2 * gap, Flag: fin}
	}
	upd := func(ch int, ext Ref, strict bool) Op {
		return Op{Kind: "update", Chain: ch, Self: Ref{Kind: "cur"}, Ext: ext, Dt: 2 * gap, Flag: strict}
	}
	fin := func(ch, back int) Ref { return Ref{Kind: "final", Chain: ch, Back: back} }
	return []Case{
		{Kind: "corpus", K: 3, Seed: 1, Base: b, Genesis: g, Ops: nil},
		// plain progress: add, start referencing another chain's final, both paths
		{Kind: "corpus", K: 3, Seed: 1, Base: b, Genesis: g, Ops: []Op{add(0, 1), start(0, fin(1, 0), true), add(1, 2), start(1, fin(0, 0), false), add(0, 3), start(0, fin(1, 0), true)}},
		// empty round cannot be closed; wrong self; unknown external (strict: error, finalized: dummy)
		{Kind: "corpus", K: 3, Seed: 2, Base: b, Genesis: g, Ops: []Op{start(0, fin(1, 0), true), add(0, 1),
			{Kind: "start", Chain: 0, Self: Ref{Kind: "cur"}, Ext: fin(1, 0), Dt: 2 * gap, Flag: true},
			start(0, Ref{Kind: "unknown", Salt: 5}, false), start(0, Ref{Kind: "unknown", Salt: 5}, true)}},
		// own chain, stale (back link), then forward again
		{Kind: "corpus", K: 3, Seed: 3, Base: b, Genesis: g, Ops: []Op{add(1, 1), start(1, fin(2, 0), true), add(1, 2), start(1, fin(2, 0), true),
			add(0, 3), start(0, fin(0, 0), true), start(0, fin(1, 0), true), add(0, 4), start(0, fin(1, 1), true), start(0, fin(1, 2), true), start(0, fin(1, 0), true)}},
		// empty-head updates: forward, self, stale, unknown, non-empty head
		{Kind: "corpus", K: 3, Seed: 4, Base: b, Genesis: g, Ops: []Op{add(1, 1), start(1, fin(2, 0), true), upd(0, fin(1, 0), false), upd(0, fin(1, 1), false),
			upd(0, fin(0, 0), false), upd(0, Ref{Kind: "unknown", Salt: 1}, false), upd(0, fin(2, 0), true), add(0, 2), upd(0, fin(2, 0), false)}},
		// a start rejected on the live round (unknown external on the strict path; stale external),
		// one more snapshot through the StateCopy path, then the start again: it must commit to
		// the round as finally collected, and the hash of the earlier attempt must be refused
		{Kind: "corpus", K: 3, Seed: 8, Base: b, Genesis: g, Ops: []Op{add(0, 1), start(0, Ref{Kind: "unknown", Salt: 3}, false), add(0, 2),
			{Kind: "start", Chain: 0, Self: Ref{Kind: "oldgood"}, Ext: fin(1, 0), Dt: 2 * gap, Flag: true}, start(0, fin(1, 0), true)}},
		{Kind: "corpus", K: 3, Seed: 9, Base: b, Genesis: g, Ops: []Op{add(1, 1), start(1, fin(2, 0), true), add(0, 2), start(0, fin(1, 0), true),
			add(0, 3), start(0, fin(1, 1), true), add(0, 4), add(0, 5), start(0, fin(1, 0), false),
			add(2, 6), start(2, fin(2, 0), true), add(2, 7), {Kind: "start", Chain: 2, Self: Ref{Kind: "oldgood"}, Ext: fin(0, 0), Dt: 2 * gap, Flag: false}, start(2, fin(0, 0), true)}},
		// a reference to another chain's node id reads that chain's HEAD record
		{Kind: "corpus-head-reference", K: 3, Seed: 5, Base: b, Genesis: g, Ops: []Op{add(0, 1), start(0, Ref{Kind: "head", Chain: 1}, true)}},
		{Kind: "corpus-head-reference", K: 3, Seed: 6, Base: b, Genesis: g, Ops: []Op{upd(0, Ref{Kind: "head", Chain: 1}, false),
			add(1, 1), start(1, fin(2, 0), true), add(0, 2), start(0, Ref{Kind: "unknown", Salt: 9}, true), upd(0, fin(1, 0), false)}},
		{Kind: "corpus-head-reference", K: 3, Seed: 7, Base: b, Genesis: g, Ops: []Op{upd(0, Ref{Kind: "head", Chain: 0}, false), upd(0, Ref{Kind: "head", Chain: 2}, true)}},
	}
}

func main() {
	c := vh.Start("C20")
	c.Rep.Rule = "corpus (plain progress, empty/unknown/own-chain/stale references on both transitions, strict and finalized paths, " +
		"references to a node id), then random histories of 4..28 steps over 2..5 chains on one Badger store: live-round accepts, " +
		"round starts (2/3 finalized path) and empty-head updates (1/3 strict) whose references are drawn from: latest / stale final " +
		"of another chain, own chain, unknown, current, zero; 1/10 wrong self reference. Non-trivial = at least two transitions " +
		"accepted; distinct by the whole history. Snapshots are added through StateCopy + validateSnapshot + assignNewGraphRound; " +
		"1/4 of the starts are repeated after one more snapshot, also with the hash of the earlier attempt (must be refused). " +
		"Kinds fault-*: the kernel sees the store through a decorator that fails one chosen call of a transition once (ReadRound, " +
		"ReadLink, StartNewRound, UpdateEmptyHeadRound): a transition that RETURNS an error must leave RoundLinks, LINK/ROUND records " +
		"and head references untouched (a panic = fail-stop is allowed, the state is then reloaded from the store); oracle only."
	if c.Replay != "" {
		var cs Case
		c.ReplayCase(&cs)
		run(c, cs)
		c.Finish()
		return
	}
	for _, cs := range corpus() {
		run(c, cs)
	}
	for _, cs := range faultCorpus() {
		run(c, cs)
	}
	n := c.Scale(300, 10000)
	for i := 0; i < n; i++ {
		run(c, genHistory(c))
	}
	for i := c.Scale(80, 3000); i > 0; i-- {
		run(c, genFaultHistory(c))
	}
	c.Finish()
}
