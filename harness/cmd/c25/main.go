// C25 harness: runs the real mint schedule (mintBatchSize, mintMultiBatchesSize,
// poolSizeUniversal) on EVERY batch up to and beyond the schedule horizon, and
// the real distributeKernelMintByWorks / buildUniversalMintTransaction on
// injected work vectors (hooks of kernel/verif_c25.go).  Every observation is
// emitted as a Coq case for the model; the oracle below is a transcription of
// the property text and never looks at the model.
package main

import (
	"encoding/json"
	"fmt"
	"math/big"

	"github.com/MixinNetwork/mixin/common"
	"github.com/MixinNetwork/mixin/kernel"
	"verifharness/vh"
)

// The property's parameters (DESIGN.md section 6, C25).
const (
	firstBatch = 1707  // first batch of this kernel
	horizon    = 53654 // last batch whose amount is >= guardA0 (end of year 146)
	guardA0    = 2800  // units of 10^-8: positivity guard of the distribution
	sweepEnd   = 105000
	minNodes   = 7
	maxNodes   = 50
)

var mintPool = new(big.Int).Mul(big.NewInt(500000), big.NewInt(100000000))

type Case struct {
	Op    string `json:"op"`
	From  uint64 `json:"from,omitempty"`
	Count int    `json:"count,omitempty"`
	Old   uint64 `json:"old,omitempty"`
	Batch uint64 `json:"batch,omitempty"`
	N     int    `json:"n,omitempty"`

	Epoch        uint64      `json:"epoch,omitempty"`
	Timestamp    uint64      `json:"timestamp,omitempty"`
	Nodes        int         `json:"nodes,omitempty"`
	ConsBase     int         `json:"cons_base,omitempty"`
	WorksPrev    [][2]uint64 `json:"works_prev,omitempty"`
	WorksNow     [][2]uint64 `json:"works_now,omitempty"`
	SpaceBatch   []uint64    `json:"space_batch,omitempty"`
	Base         string      `json:"base,omitempty"` // units
	LastBatch    uint64      `json:"last_batch,omitempty"`
	LastAmount   string      `json:"last_amount,omitempty"` // units
	ValidateOnly bool        `json:"validate_only,omitempty"`
}

func bi(s string) *big.Int {
	v, ok := new(big.Int).SetString(s, 10)
	if !ok {
		panic("bad int " + s)
	}
	return v
}

func key(cs Case) string {
	b, _ := json.Marshal(cs)
	return string(b)
}

func resZ(pan bool, v *big.Int) string {
	if pan {
		return vh.Pan("Z")
	}
	return vh.Ok(vh.Z(v))
}

func zlist(vs []*big.Int) string {
	el := make([]string, len(vs))
	for i, v := range vs {
		el[i] = vh.Z(v)
	}
	return vh.List(el, "Z")
}

func worksTerm(ws [][2]uint64, n int) string {
	el := make([]string, n)
	for i := 0; i < n; i++ {
		var w [2]uint64
		if i < len(ws) {
			w = ws[i]
		}
		el[i] = "(" + vh.ZU(w[0]) + ", " + vh.ZU(w[1]) + ")"
	}
	return vh.List(el, "(Z*Z)")
}

func spacesTerm(sb []uint64, n int, cur uint64) string {
	el := make([]string, n)
	for i := 0; i < n; i++ {
		b := cur
		if sb != nil {
			b = sb[i]
		}
		el[i] = vh.Some(vh.ZU(b))
	}
	return vh.List(el, "(option Z)")
}

type sized struct {
	pan bool
	v   *big.Int
}

var sizeMemo = map[uint64]sized{}

// the real mintBatchSize (memoised: it is a pure function of the batch)
func batchSize(b uint64) (bool, *big.Int) {
	if m, ok := sizeMemo[b]; ok {
		return m.pan, m.v
	}
	var v *big.Int
	pan, _ := vh.Catch(func() { v = common.VerifIntegerBig(kernel.VerifC25MintBatchSize(b)) })
	sizeMemo[b] = sized{pan, v}
	return pan, v
}

// work of a node as the property understands it: 1.2 per proposal + 1 per
// signature, compared exactly as 6*lead + 5*sign
func workRank(w [2]uint64) *big.Int {
	a := new(big.Int).Mul(new(big.Int).SetUint64(w[0]), big.NewInt(6))
	b := new(big.Int).Mul(new(big.Int).SetUint64(w[1]), big.NewInt(5))
	return a.Add(a, b)
}

func input(cs Case) *kernel.VerifC25Input {
	in := &kernel.VerifC25Input{
		Epoch: cs.Epoch, Timestamp: cs.Timestamp, Nodes: cs.Nodes, ConsensusBase: cs.ConsBase,
		WorksPrev: cs.WorksPrev, WorksNow: cs.WorksNow, SpaceBatch: cs.SpaceBatch, LastBatch: cs.LastBatch,
	}
	if cs.LastAmount != "" {
		in.LastAmount = common.VerifIntegerFromBig(bi(cs.LastAmount))
	}
	return in
}

// oracle for a vector of node shares produced from [works] out of [base]
func checkShares(c *vh.Ctx, cs Case, works [][2]uint64, shares []*big.Int, base *big.Int, guard bool) {
	sum := new(big.Int)
	for _, s := range shares {
		sum.Add(sum, s)
	}
	if sum.Cmp(base) > 0 {
		c.Fail("kernel-share-exceeds-base", fmt.Sprintf("node shares sum to %s > kernel share %s", sum, base), cs)
	}
	for i := range shares {
		if shares[i].Sign() < 0 || (guard && shares[i].Sign() <= 0) {
			c.Fail("share-not-positive", fmt.Sprintf("node %d receives %s", i, shares[i]), cs)
			break
		}
	}
	if works == nil {
		return
	}
	for i := range shares {
		for j := range shares {
			if workRank(works[i]).Cmp(workRank(works[j])) <= 0 && shares[i].Cmp(shares[j]) > 0 {
				c.Fail("work-not-monotone", fmt.Sprintf("node %d work %v receives %s, node %d work %v receives %s",
					i, works[i], shares[i], j, works[j], shares[j]), cs)
				return
			}
		}
	}
}

func padWorks(ws [][2]uint64, n int) [][2]uint64 {
	out := make([][2]uint64, n)
	copy(out, ws)
	return out
}

func run(c *vh.Ctx, cs Case) {
	k := key(cs)
	switch cs.Op {
	case "batches":
		// every batch of [From, From+Count): value, non-increase, horizon guard
		obs := []string{} // run-length encoded: (outcome, number of consecutive batches)
		lastObs, run := "", 0
		flush := func() {
			if run > 0 {
				obs = append(obs, "("+lastObs+", "+vh.ZI(int64(run))+")")
			}
		}
		var prev *big.Int
		if cs.From > 0 {
			if pan, v := batchSize(cs.From - 1); !pan {
				prev = v
			}
		}
		for i := 0; i < cs.Count; i++ {
			b := cs.From + uint64(i)
			pan, v := batchSize(b)
			if o := resZ(pan, v); o == lastObs {
				run++
			} else {
				flush()
				lastObs, run = o, 1
			}
			if b <= horizon {
				if pan {
					c.Fail("batch-panics-inside-horizon", fmt.Sprintf("mintBatchSize(%d) panics", b), cs)
				} else if b >= firstBatch && v.Cmp(big.NewInt(guardA0)) < 0 {
					c.Fail("batch-below-guard", fmt.Sprintf("mintBatchSize(%d)=%s below the positivity guard %d inside the horizon", b, v, guardA0), cs)
				}
			}
			if !pan && prev != nil && v.Cmp(prev) > 0 {
				c.Fail("batch-increases", fmt.Sprintf("mintBatchSize(%d)=%s > mintBatchSize(%d)=%s", b, v, b-1, prev), cs)
			}
			if !pan && v.Sign() < 0 {
				c.Fail("batch-negative", fmt.Sprintf("mintBatchSize(%d)=%s", b, v), cs)
			}
			if pan {
				prev = nil
			} else {
				prev = v
			}
		}
		flush()
		c.Case("batches", k, true, cs, vh.App("CBatches", vh.ZU(cs.From), vh.List(obs, "(res Z * Z)")))
	case "cumulative":
		// every prefix sum of the batch amounts 1..Batch stays within the pool
		sum := new(big.Int)
		last := uint64(0)
		for b := uint64(1); b <= cs.Batch; b++ {
			pan, v := batchSize(b)
			if pan {
				break
			}
			sum.Add(sum, v)
			last = b
			if sum.Cmp(mintPool) > 0 {
				c.Fail("cumulative-exceeds-pool", fmt.Sprintf("batches 1..%d sum to %s > pool %s", b, sum, mintPool), cs)
				break
			}
		}
		c.Note(fmt.Sprintf("cumulative total of batches 1..%d = %s units (pool %s)", last, sum, mintPool))
		c.Case("cumulative", k, true, cs, "")
	case "multi":
		var got *big.Int
		pan, _ := vh.Catch(func() { got = common.VerifIntegerBig(kernel.VerifC25MintMultiBatchesSize(cs.Old, cs.Batch)) })
		c.Case("multi", k, !pan, cs, vh.App("CMulti", vh.ZU(cs.Old), vh.ZU(cs.Batch), resZ(pan, got)))
		if cs.Old < cs.Batch {
			sum, bad := new(big.Int), false
			for i := cs.Old + 1; i <= cs.Batch; i++ {
				p, v := batchSize(i)
				if p || v.Sign() <= 0 {
					bad = true
					break
				}
				sum.Add(sum, v)
			}
			if !bad {
				if pan {
					c.Fail("multi-panics", fmt.Sprintf("mintMultiBatchesSize(%d,%d) panics although every batch is positive", cs.Old, cs.Batch), cs)
				} else if got.Cmp(sum) != 0 {
					c.Fail("multi-not-sum", fmt.Sprintf("mintMultiBatchesSize(%d,%d)=%s, sum of batches=%s", cs.Old, cs.Batch, got, sum), cs)
				}
			}
		} else if !pan {
			c.Fail("multi-accepts-backward", fmt.Sprintf("mintMultiBatchesSize(%d,%d) returned", cs.Old, cs.Batch), cs)
		}
	case "pool":
		var got *big.Int
		pan, _ := vh.Catch(func() { got = common.VerifIntegerBig(kernel.VerifC25PoolSizeUniversal(int(cs.Batch))) })
		c.Case("pool", k, !pan, cs, vh.App("CPool", vh.ZU(cs.Batch), resZ(pan, got)))
		if cs.Batch <= horizon {
			if pan {
				c.Fail("pool-panics-inside-horizon", fmt.Sprintf("poolSizeUniversal(%d) panics", cs.Batch), cs)
			} else if got.Sign() < 0 || got.Cmp(mintPool) > 0 {
				c.Fail("pool-out-of-range", fmt.Sprintf("poolSizeUniversal(%d)=%s", cs.Batch, got), cs)
			}
		}
	case "threshold":
		in := &kernel.VerifC25Input{Timestamp: 8 * 3600 * 1000000000, Nodes: cs.N}
		got := kernel.VerifC25Threshold(in)
		c.Case("threshold", k, true, cs, vh.App("CThreshold", vh.ZI(int64(cs.N)), vh.ZI(int64(got))))
	case "dist":
		in := input(cs)
		base := bi(cs.Base)
		thr := kernel.VerifC25Threshold(in)
		day, epochDay := cs.Timestamp/uint64(kernel.OneDay), cs.Epoch/uint64(kernel.OneDay)
		day0 := day == epochDay
		var shares []*big.Int
		var err error
		pan, _ := vh.Catch(func() {
			var out []common.Integer
			out, err = kernel.VerifC25Distribute(in, common.VerifIntegerFromBig(base))
			for _, o := range out {
				shares = append(shares, common.VerifIntegerBig(o))
			}
		})
		obs := vh.Pan("(list Z)")
		if !pan && err != nil {
			obs = vh.Err("(list Z)")
		} else if !pan {
			obs = vh.Ok(zlist(shares))
		}
		kind := "dist"
		if day0 {
			kind = "dist-day0"
		}
		c.Case(kind, k, !pan && err == nil, cs, vh.App("CDist", vh.Bool(day0), worksTerm(cs.WorksNow, cs.Nodes),
			spacesTerm(cs.SpaceBatch, cs.Nodes, day-epochDay), vh.ZU(day-epochDay), worksTerm(cs.WorksPrev, cs.Nodes),
			vh.ZI(int64(thr)), vh.Z(base), obs))
		inGuard := cs.Nodes >= minNodes && cs.Nodes <= maxNodes && base.Cmp(big.NewInt(guardA0/2)) >= 0
		if pan && inGuard {
			c.Fail("dist-panics", fmt.Sprintf("distributeKernelMintByWorks panics for %d nodes, base %s", cs.Nodes, base), cs)
		}
		if !pan && err == nil {
			if len(shares) != cs.Nodes {
				c.Fail("dist-length", "one share per accepted node expected", cs)
			}
			var works [][2]uint64
			if !day0 {
				works = padWorks(cs.WorksPrev, cs.Nodes)
			}
			checkShares(c, cs, works, shares, base, inGuard)
		}
	case "build":
		in := input(cs)
		thr := kernel.VerifC25Threshold(in)
		day, epochDay := cs.Timestamp/uint64(kernel.OneDay), cs.Epoch/uint64(kernel.OneDay)
		day0 := day == epochDay
		seed := make([]byte, 64)
		seed[0] = 0xc2
		custodian := common.NewAddressFromSeedInternalVanish(seed)
		var tx *common.VersionedTransaction
		pan, _ := vh.Catch(func() { tx = kernel.VerifC25BuildMint(in, &custodian, cs.ValidateOnly) })
		// the batch the timestamp falls in
		hours := (cs.Timestamp - cs.Epoch) / 3600000000000
		batch := hours / 24
		old, oldAmount := cs.LastBatch, new(big.Int)
		if cs.LastBatch == 0 {
			old, oldAmount = 1706, big.NewInt(8987671232)
		} else {
			oldAmount = bi(cs.LastAmount)
		}
		var outs []*big.Int
		obs := vh.Pan("(list Z)")
		if !pan && tx == nil {
			obs = vh.Err("(list Z)")
		} else if !pan {
			for _, o := range tx.Outputs {
				outs = append(outs, common.VerifIntegerBig(o.Amount))
			}
			obs = vh.Ok(zlist(outs))
		}
		c.Case("build", k, !pan && tx != nil, cs, vh.App("CBuild", vh.ZU(old), vh.Z(oldAmount), vh.ZU(batch),
			vh.Bool(cs.ValidateOnly), vh.Bool(day0), worksTerm(cs.WorksNow, cs.Nodes),
			spacesTerm(cs.SpaceBatch, cs.Nodes, day-epochDay), vh.ZU(day-epochDay), worksTerm(cs.WorksPrev, cs.Nodes), vh.ZI(int64(thr)), obs))

		// the amount the property speaks about: sum of the batches minted now
		var amount *big.Int
		if batch > old {
			amount = new(big.Int)
			for i := old + 1; i <= batch; i++ {
				p, v := batchSize(i)
				if p || v.Sign() <= 0 {
					amount = nil
					break
				}
				amount.Add(amount, v)
			}
		} else if batch == old && cs.ValidateOnly {
			amount = oldAmount
		}
		inGuard := amount != nil && amount.Cmp(big.NewInt(guardA0)) >= 0 && cs.Nodes >= minNodes && cs.Nodes <= maxNodes
		if pan && inGuard {
			c.Fail("build-panics", fmt.Sprintf("buildUniversalMintTransaction panics for amount %s, %d nodes", amount, cs.Nodes), cs)
		}
		if !pan && tx != nil {
			if amount == nil {
				c.Fail("build-unexpected-mint", "a mint transaction was built although no batch is due", cs)
				return
			}
			if len(tx.Inputs) != 1 || tx.Inputs[0].Mint == nil || common.VerifIntegerBig(tx.Inputs[0].Mint.Amount).Cmp(amount) != 0 ||
				tx.Inputs[0].Mint.Batch != batch {
				c.Fail("build-input-amount", fmt.Sprintf("mint input does not carry batch %d amount %s", batch, amount), cs)
			}
			if len(outs) != cs.Nodes+2 {
				c.Fail("build-outputs-count", fmt.Sprintf("%d outputs for %d nodes", len(outs), cs.Nodes), cs)
				return
			}
			sum := new(big.Int)
			for _, o := range outs {
				sum.Add(sum, o)
			}
			if sum.Cmp(amount) != 0 {
				c.Fail("outputs-sum-not-exact", fmt.Sprintf("outputs sum to %s, batch amount is %s", sum, amount), cs)
			}
			nodesSum := new(big.Int)
			for _, o := range outs[:cs.Nodes] {
				nodesSum.Add(nodesSum, o)
			}
			if new(big.Int).Mul(nodesSum, big.NewInt(2)).Cmp(amount) > 0 {
				c.Fail("kernel-share-above-half", fmt.Sprintf("node outputs sum to %s of %s", nodesSum, amount), cs)
			}
			tenth := new(big.Int).Div(amount, big.NewInt(10))
			if outs[cs.Nodes].Cmp(new(big.Int).Mul(tenth, big.NewInt(4))) != 0 {
				c.Fail("custodian-share", fmt.Sprintf("custodian output %s, 4*floor(amount/10)=%s", outs[cs.Nodes], new(big.Int).Mul(tenth, big.NewInt(4))), cs)
			}
			for i, o := range outs {
				if o.Sign() <= 0 && (inGuard || o.Sign() < 0) {
					c.Fail("output-not-positive", fmt.Sprintf("output %d is %s", i, o), cs)
					break
				}
			}
			var works [][2]uint64
			if !day0 {
				works = padWorks(cs.WorksPrev, cs.Nodes)
			}
			half := new(big.Int).Mul(new(big.Int).Div(amount, big.NewInt(10)), big.NewInt(5))
			checkShares(c, cs, works, outs[:cs.Nodes], half, inGuard)
		}
	default:
		panic("unknown op " + cs.Op)
	}
}

// ---- generators -------------------------------------------------------------------

const oneDay = uint64(kernel.OneDay)
const oneHour = uint64(3600000000000)

func count(r *vh.Rand, big bool) uint64 {
	switch r.Intn(12) {
	case 0:
		return 0
	case 1:
		return uint64(r.Intn(3))
	case 2:
		if big {
			return r.U64() >> uint(r.Intn(64)) // extreme outliers up to 2^64-1
		}
		return uint64(r.Intn(100000))
	case 3:
		if big {
			return ^uint64(0) - uint64(r.Intn(3))
		}
		return uint64(r.Intn(1000000))
	default:
		return uint64(r.Range(1, 30000))
	}
}

func worksVector(r *vh.Rand, n int) [][2]uint64 {
	ws := make([][2]uint64, n)
	style := r.Intn(6)
	base := [2]uint64{uint64(r.Range(1, 5000)), uint64(r.Range(1, 200000))}
	for i := range ws {
		switch style {
		case 0: // everything random, outliers included
			ws[i] = [2]uint64{count(r, true), count(r, true)}
		case 1: // close to each other: breakpoints of the piecewise map matter
			ws[i] = [2]uint64{base[0] + uint64(r.Intn(3)), base[1] + uint64(r.Intn(7))}
		case 2: // multiples of a base: x = a/7, a, 7a exactly
			m := []uint64{1, 1, 1, 7, 49, 1, 6, 8}[r.Intn(8)]
			ws[i] = [2]uint64{0, base[1] * m}
			if r.Chance(1, 10) {
				ws[i][1] = base[1] * m / 7
			}
		case 3: // many idle nodes
			if r.Chance(1, 3) {
				ws[i] = [2]uint64{count(r, false), count(r, false)}
			}
		case 4: // one extreme outlier
			ws[i] = [2]uint64{count(r, false), count(r, false)}
		default:
			ws[i] = [2]uint64{uint64(r.Range(0, 4000)), uint64(r.Range(0, 150000))}
		}
	}
	if style == 4 {
		ws[r.Intn(n)] = [2]uint64{count(r, true), ^uint64(0) >> uint(r.Intn(30))}
	}
	if r.Chance(1, 4) && n > 1 { // exact ties
		ws[r.Intn(n)] = ws[r.Intn(n)]
	}
	return ws
}

func nodesCount(r *vh.Rand) int {
	switch r.Intn(10) {
	case 0:
		return minNodes
	case 1:
		return maxNodes
	default:
		return r.Range(minNodes, maxNodes)
	}
}

func environment(r *vh.Rand, cs *Case, batch uint64) {
	cs.Epoch = 0
	if r.Bool() {
		cs.Epoch = uint64(r.Intn(20000))*oneDay + uint64(r.Intn(24))*oneHour
	}
	hour := uint64(r.Range(7, 9))
	cs.Timestamp = cs.Epoch + batch*oneDay + hour*oneHour + uint64(r.Intn(3600))*1000000000
	n := nodesCount(r)
	cs.Nodes = n
	cs.WorksPrev = worksVector(r, n)
	// readiness of the aggregators: mostly ready
	cs.WorksNow = make([][2]uint64, n)
	for i := range cs.WorksNow {
		cs.WorksNow[i] = [2]uint64{uint64(r.Range(1, 100)), uint64(r.Intn(100))}
	}
	if r.Chance(1, 10) {
		cur := cs.Timestamp/oneDay - cs.Epoch/oneDay
		cs.SpaceBatch = make([]uint64, n)
		for i := range cs.SpaceBatch {
			cs.SpaceBatch[i] = cur
			if r.Chance(1, 4) {
				cs.SpaceBatch[i] = cur - 1
				if r.Bool() {
					cs.WorksNow[i][0] = 0
				}
			} else if r.Chance(1, 8) {
				cs.WorksNow[i][0] = 0
			}
		}
	}
}

func genDist(r *vh.Rand) Case {
	cs := Case{Op: "dist"}
	environment(r, &cs, uint64(r.Range(1, 60000)))
	switch r.Intn(8) {
	case 0: // first day: equal split
		cs.Timestamp = cs.Epoch/oneDay*oneDay + (cs.Epoch % oneDay) + uint64(r.Intn(1000))
		if cs.Timestamp/oneDay != cs.Epoch/oneDay {
			cs.Timestamp = cs.Epoch
		}
	case 1: // fewer or more nodes than the consensus range
		cs.Nodes = []int{1, 2, 3, 6, 51, 60}[r.Intn(6)]
		cs.WorksPrev = worksVector(r, cs.Nodes)
		cs.WorksNow = padWorks(cs.WorksNow, cs.Nodes)
		for i := range cs.WorksNow {
			cs.WorksNow[i][0] = 1
		}
		cs.SpaceBatch = nil
		cs.ConsBase = r.Range(7, 60)
	case 2: // threshold from a larger node list
		cs.ConsBase = cs.Nodes + r.Intn(10)
	}
	switch r.Intn(6) {
	case 0:
		cs.Base = fmt.Sprint(r.Intn(3000)) // around and below the guard
	case 1:
		cs.Base = fmt.Sprint(guardA0/2 + r.Intn(3) - 1)
	default:
		_, v := batchSize(uint64(r.Range(firstBatch, horizon)))
		cs.Base = new(big.Int).Mul(new(big.Int).Div(v, big.NewInt(10)), big.NewInt(5)).String()
	}
	return cs
}

func genBuild(r *vh.Rand) Case {
	cs := Case{Op: "build"}
	last := uint64(r.Range(1706, horizon-1))
	if r.Chance(1, 3) {
		last = uint64(r.Range(1706, 4000))
	}
	gap := uint64(1)
	if r.Chance(1, 4) {
		gap = uint64(r.Range(2, 6))
	}
	if r.Chance(1, 40) {
		gap = uint64(r.Range(7, 40))
	}
	batch := last + gap
	if batch > horizon && r.Chance(9, 10) {
		batch = horizon
		last = batch - gap
	}
	cs.LastBatch = last
	_, v := batchSize(last)
	cs.LastAmount = v.String()
	if last == 1706 && r.Bool() {
		cs.LastBatch, cs.LastAmount = 0, ""
	}
	switch r.Intn(12) {
	case 0: // re-validation of the recorded batch with an arbitrary recorded amount
		batch = last
		cs.ValidateOnly = true
		cs.LastBatch = last
		switch r.Intn(4) {
		case 0:
			cs.LastAmount = fmt.Sprint(guardA0 + r.Intn(20) - 10)
		case 1:
			cs.LastAmount = fmt.Sprint(r.Intn(3000))
		case 2:
			cs.LastAmount = r.Big(r.Range(12, 70)).String()
		default:
			cs.LastAmount = v.String()
		}
	case 1: // nothing due
		batch = last
		cs.LastBatch, cs.LastAmount = last, v.String()
	case 2: // behind the recorded batch
		if last > 1708 {
			batch = last - uint64(r.Range(1, 2))
		}
		cs.LastBatch, cs.LastAmount = last, v.String()
		cs.ValidateOnly = r.Bool()
	case 3:
		cs.ValidateOnly = true
	}
	environment(r, &cs, batch)
	return cs
}

func corpus() []Case {
	cs := []Case{}
	// the schedule: every batch from 0 to beyond the first panicking batch
	for from := uint64(0); from < sweepEnd; from += 500 {
		cs = append(cs, Case{Op: "batches", From: from, Count: 500})
	}
	for _, b := range []uint64{0, 1, 10, 364, 365, 366, 1684, 1706, 1707, 3650, 36500, 49275, horizon, horizon + 1, 81029, 81030, 81031, 81394, 81395, 104024, 104025, 200000} {
		cs = append(cs, Case{Op: "pool", Batch: b})
	}
	for _, p := range [][2]uint64{{0, 1}, {0, 1707}, {1706, 1707}, {1706, 1736}, {1707, 1707}, {1708, 1707}, {0, 0}, {horizon - 1, horizon}, {horizon, horizon + 1},
		{81028, 81029}, {81029, 81030}, {81028, 81031}, {104023, 104024}, {104024, 104025}, {364, 366}, {2189, 2191}} {
		cs = append(cs, Case{Op: "multi", Old: p[0], Batch: p[1]})
	}
	cs = append(cs, Case{Op: "cumulative", Batch: sweepEnd})
	for n := 0; n <= 60; n++ {
		cs = append(cs, Case{Op: "threshold", N: n})
	}
	eq := func(n int, w [2]uint64) [][2]uint64 {
		ws := make([][2]uint64, n)
		for i := range ws {
			ws[i] = w
		}
		return ws
	}
	ts := func(batch uint64) uint64 { return batch*oneDay + 8*oneHour }
	// distribution boundary cases: all equal, breakpoints a/7, a, 7a, idle nodes, guard boundary
	bp := eq(9, [2]uint64{0, 700})
	bp[0] = [2]uint64{0, 100}
	bp[1] = [2]uint64{0, 99}
	bp[2] = [2]uint64{0, 101}
	bp[3] = [2]uint64{0, 4900}
	bp[4] = [2]uint64{0, 4899}
	bp[5] = [2]uint64{0, 699}
	bp[6] = [2]uint64{0, 701}
	idle := eq(50, [2]uint64{0, 0})
	for i := 0; i < 34; i++ {
		idle[i] = [2]uint64{1, 0}
	}
	idle[0] = [2]uint64{^uint64(0), ^uint64(0)}
	for _, base := range []string{"1400", "1399", "4493835615", "50", "0"} {
		cs = append(cs,
			Case{Op: "dist", Timestamp: ts(2000), Nodes: 7, WorksPrev: eq(7, [2]uint64{10, 100}), WorksNow: eq(7, [2]uint64{1, 1}), Base: base},
			Case{Op: "dist", Timestamp: ts(2000), Nodes: 9, WorksPrev: bp, WorksNow: eq(9, [2]uint64{1, 1}), Base: base},
			Case{Op: "dist", Timestamp: ts(2000), Nodes: 50, WorksPrev: idle, WorksNow: eq(50, [2]uint64{1, 1}), Base: base},
			Case{Op: "dist", Timestamp: 5, Nodes: 50, WorksNow: eq(50, [2]uint64{1, 1}), Base: base},
		)
	}
	cs = append(cs,
		// too few working nodes / aggregators not ready
		Case{Op: "dist", Timestamp: ts(2000), Nodes: 10, WorksPrev: eq(6, [2]uint64{5, 5}), WorksNow: eq(10, [2]uint64{1, 1}), Base: "4493835615"},
		Case{Op: "dist", Timestamp: ts(2000), Nodes: 10, WorksPrev: eq(10, [2]uint64{5, 5}), WorksNow: eq(6, [2]uint64{1, 1}), Base: "4493835615"},
		Case{Op: "dist", Timestamp: ts(2000), Nodes: 0, Base: "4493835615"},
		Case{Op: "dist", Timestamp: 5, Nodes: 0, Base: "4493835615"},
		// whole transactions: first batch of this kernel, a gap, the horizon, the guard boundary, beyond the horizon
		Case{Op: "build", Timestamp: ts(1707), Nodes: 35, WorksPrev: eq(35, [2]uint64{100, 2300}), WorksNow: eq(35, [2]uint64{1, 1})},
		Case{Op: "build", Timestamp: ts(1710), Nodes: 9, WorksPrev: bp, WorksNow: eq(9, [2]uint64{1, 1})},
		Case{Op: "build", Timestamp: ts(horizon), Nodes: 50, WorksPrev: idle, WorksNow: eq(50, [2]uint64{1, 1}), LastBatch: horizon - 1, LastAmount: "2858"},
		Case{Op: "build", Timestamp: ts(3000), Nodes: 50, WorksPrev: idle, WorksNow: eq(50, [2]uint64{1, 1}), LastBatch: 3000, LastAmount: "2800", ValidateOnly: true},
		Case{Op: "build", Timestamp: ts(3000), Nodes: 50, WorksPrev: idle, WorksNow: eq(50, [2]uint64{1, 1}), LastBatch: 3000, LastAmount: "2799", ValidateOnly: true},
		Case{Op: "build", Timestamp: ts(3000), Nodes: 50, WorksPrev: idle, WorksNow: eq(50, [2]uint64{1, 1}), LastBatch: 3000, LastAmount: "100", ValidateOnly: true},
		Case{Op: "build", Timestamp: ts(3000), Nodes: 7, WorksPrev: eq(7, [2]uint64{3, 3}), WorksNow: eq(7, [2]uint64{1, 1}), LastBatch: 3000, LastAmount: "9", ValidateOnly: true},
		Case{Op: "build", Timestamp: ts(3000), Nodes: 7, WorksPrev: eq(7, [2]uint64{3, 3}), WorksNow: eq(7, [2]uint64{1, 1}), LastBatch: 3000, LastAmount: "0", ValidateOnly: true},
		Case{Op: "build", Timestamp: ts(60000), Nodes: 50, WorksPrev: idle, WorksNow: eq(50, [2]uint64{1, 1}), LastBatch: 59999, LastAmount: "1426"},
		Case{Op: "build", Timestamp: ts(1706), Nodes: 35, WorksPrev: eq(35, [2]uint64{100, 2300}), WorksNow: eq(35, [2]uint64{1, 1}), ValidateOnly: true},
		Case{Op: "build", Timestamp: ts(1800), Nodes: 35, WorksPrev: eq(35, [2]uint64{100, 2300}), WorksNow: eq(20, [2]uint64{1, 1}), LastBatch: 1799, LastAmount: "8987671232"},
	)
	return cs
}

func main() {
	c := vh.Start("C25")
	c.Rep.Rule = "schedule: mintBatchSize on EVERY batch 0.." + fmt.Sprint(sweepEnd) + " (ranges of 500; horizon " + fmt.Sprint(horizon) +
		", zero from 81030, panics from 104025), poolSizeUniversal and mintMultiBatchesSize at year/horizon boundaries and random spans; " +
		"distribution: random (lead,sign) vectors for 7..50 nodes (six styles: random with outliers up to 2^64-1, near-equal, exact " +
		"multiples at the breakpoints a/7, a, 7a, mostly idle, one extreme outlier, typical), ties, bases around the guard and real " +
		"kernel shares, aggregator readiness varied; whole transactions for recorded batch 1706..horizon with gaps 1..40, " +
		"re-validation with arbitrary recorded amounts around the guard. Non-trivial = shares / a transaction were produced; distinct by full input."
	if c.Replay != "" {
		var cs Case
		c.ReplayCase(&cs)
		run(c, cs)
		c.Finish()
		return
	}
	for _, cs := range corpus() {
		run(c, cs)
	}
	r := c.Rng
	n := c.Scale(500, 12000)
	for i := 0; i < n; i++ {
		switch r.Intn(10) {
		case 0:
			old := uint64(r.Range(0, horizon))
			span := uint64(r.Range(1, 12))
			if r.Chance(1, 20) { // a long span, early in the schedule (cheap for the model)
				old = uint64(r.Range(0, 3000))
				span = uint64(r.Range(300, 800))
			}
			if r.Chance(1, 10) {
				old = uint64(r.Range(80900, 81100))
			}
			cs := Case{Op: "multi", Old: old, Batch: old + span}
			if r.Chance(1, 20) {
				cs.Batch = old - uint64(r.Intn(2))
			}
			run(c, cs)
		case 1:
			b := uint64(r.Range(0, horizon))
			if r.Chance(1, 5) {
				b = uint64(r.Range(horizon, 110000))
			}
			run(c, Case{Op: "pool", Batch: b})
		case 2, 3, 4, 5:
			run(c, genDist(r))
		default:
			run(c, genBuild(r))
		}
	}
	c.Finish()
}
