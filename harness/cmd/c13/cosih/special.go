package cosih

import (
	"encoding/hex"
	"math/big"

	"filippo.io/edwards25519"
	"github.com/MixinNetwork/mixin/crypto"
	"verifharness/vh"
)

// Special encodings a strict point decoder must refuse: the eight small-order
// points (canonical encodings and their sign-bit / y >= p variants the library
// still parses), and points of mixed order (prime-order point + small-order point).

type Special struct {
	Name string
	Key  crypto.Key
}

var smallOrderHex = []string{
	"0100000000000000000000000000000000000000000000000000000000000000", // identity
	"ecffffffffffffffffffffffffffffffffffffffffffffffffffffffffffff7f", // order 2
	"0000000000000000000000000000000000000000000000000000000000000000", // order 4
	"0000000000000000000000000000000000000000000000000000000000000080", // order 4
	"26e8958fc2b227b045c3f489f2ef98f0d5dfac05d3c63339b13802886d53fc05", // order 8
	"26e8958fc2b227b045c3f489f2ef98f0d5dfac05d3c63339b13802886d53fc85", // order 8
	"c7176a703d4dd84fba3c0b760d10670f2a2053fa2c39ccc64ec7fd7792ac037a", // order 8
	"c7176a703d4dd84fba3c0b760d10670f2a2053fa2c39ccc64ec7fd7792ac03fa", // order 8
}

// Specials lists every special encoding the library's lax SetBytes parses.
func Specials() []Special {
	var out []Special
	seen := map[crypto.Key]bool{}
	add := func(name string, b []byte) {
		var k crypto.Key
		copy(k[:], b)
		if seen[k] {
			return
		}
		if _, err := edwards25519.NewIdentityPoint().SetBytes(k[:]); err != nil {
			return // not even a curve point for the library: plain garbage, covered elsewhere
		}
		seen[k] = true
		out = append(out, Special{name, k})
	}
	var small []*edwards25519.Point
	for i, h := range smallOrderHex {
		b, _ := hex.DecodeString(h)
		add("small-order-"+string(rune('0'+i)), b)
		if p, err := edwards25519.NewIdentityPoint().SetBytes(b); err == nil {
			small = append(small, p)
		}
		// the same with the sign bit flipped (non-canonical when x = 0)
		c := append([]byte{}, b...)
		c[31] ^= 0x80
		add("small-order-sign-"+string(rune('0'+i)), c)
	}
	// y >= p: the 19 values p .. 2^255-1, with either sign bit
	p := new(big.Int).Sub(new(big.Int).Lsh(big.NewInt(1), 255), big.NewInt(19))
	for k := int64(0); k < 19; k++ {
		le := LE32(new(big.Int).Add(p, big.NewInt(k)))
		add("y-ge-p-"+big.NewInt(k).String(), le[:])
		le[31] |= 0x80
		add("y-ge-p-sign-"+big.NewInt(k).String(), le[:])
	}
	// mixed order: z.B + T for a fixed scalar z and each small-order T except the identity
	r := vh.NewRand(0xC14C13, "cosih-special")
	for i, t := range small {
		if t.Equal(edwards25519.NewIdentityPoint()) == 1 {
			continue
		}
		_, z := SeedKey(r)
		le := LE32(z)
		s, _ := edwards25519.NewScalar().SetCanonicalBytes(le[:])
		q := edwards25519.NewIdentityPoint().ScalarBaseMult(s)
		q.Add(q, t)
		add("mixed-order-"+string(rune('0'+i)), q.Bytes())
	}
	return out
}

// SpecialLog is the discrete log the model is given for a special encoding: 0
// for the canonical identity, -1 (bytes that do not decode) for everything else.
func SpecialLog(e crypto.Key) *big.Int {
	var id crypto.Key
	id[0] = 1
	if e == id {
		return big.NewInt(0)
	}
	return big.NewInt(-1)
}

type Presented struct {
	Pos      string
	Accepted bool
}

// PresentEverywhere is step 1 of a sequence scenario: the encoding is offered
// in every input position of the crypto package that decodes a point, and the
// decision of each is recorded (a panic counts as a refusal where the function
// documents it).
func PresentEverywhere(e crypto.Key, r *vh.Rand) []Presented {
	var out []Presented
	rec := func(pos string, f func() bool) {
		acc := false
		vh.Catch(func() { acc = f() })
		out = append(out, Presented{pos, acc})
	}
	k1, _ := SeedKey(r)
	k2, _ := SeedKey(r)
	p1, p2 := k1.Public(), k2.Public()
	var msg crypto.Hash
	copy(msg[:], r.Bytes(32))
	good1, good2 := k1.Sign(msg), k2.Sign(msg)
	sigE := good1
	copy(sigE[:32], e[:])
	_, cz := SeedKey(r)
	cle := LE32(cz)
	chal, _ := edwards25519.NewScalar().SetCanonicalBytes(cle[:])

	rec("CheckKey", func() bool { return e.CheckKey() })
	rec("Verify.R", func() bool { return p1.Verify(msg, sigE) })
	rec("Verify.key", func() bool { return e.Verify(msg, good1) })
	rec("VerifyWithChallenge.R", func() bool { return p1.VerifyWithChallenge(sigE, chal) })
	rec("VerifyWithChallenge.key", func() bool { return e.VerifyWithChallenge(good1, chal) })
	rec("BatchVerify.R", func() bool {
		return crypto.BatchVerify(msg, []*crypto.Key{&p1, &p2}, []*crypto.Signature{&sigE, &good2})
	})
	rec("BatchVerify.key", func() bool {
		return crypto.BatchVerify(msg, []*crypto.Key{&e, &p2}, []*crypto.Signature{&good1, &good2})
	})
	rec("CosiAggregateCommitment", func() bool {
		_, err := crypto.CosiAggregateCommitment(map[int]*crypto.Key{0: &e})
		return err == nil
	})
	rec("CosiAggregateCommitment.second", func() bool {
		_, err := crypto.CosiAggregateCommitment(map[int]*crypto.Key{0: &p1, 1: &e})
		return err == nil
	})
	rec("FullVerify.R", func() bool {
		cosi, err := crypto.CosiAggregateCommitment(map[int]*crypto.Key{0: &p2})
		if err != nil {
			return false
		}
		copy(cosi.Signature[:32], e[:])
		copy(cosi.Signature[32:], good1[32:])
		return cosi.FullVerify([]*crypto.Key{&p1}, 1, msg) == nil
	})
	rec("FullVerify.key", func() bool {
		cosi, err := crypto.CosiAggregateCommitment(map[int]*crypto.Key{0: &p2})
		if err != nil {
			return false
		}
		copy(cosi.Signature[32:], good1[32:])
		return cosi.FullVerify([]*crypto.Key{&e}, 1, msg) == nil
	})
	rec("AggregateVerify.R", func() bool {
		return crypto.AggregateVerify(&sigE, []*crypto.Key{&p1}, []int{0}, msg) == nil
	})
	rec("AggregateVerify.key", func() bool {
		return crypto.AggregateVerify(&good1, []*crypto.Key{&e}, []int{0}, msg) == nil
	})
	rec("AggregateSign.key", func() bool {
		_, err := crypto.AggregateSign([]*crypto.Key{&k1}, []*crypto.Key{&e}, []int{0}, r.Bytes(32), msg)
		return err == nil
	})
	// the ghost-key helpers panic on a point they refuse
	rec("KeyMultPubPriv", func() bool { crypto.KeyMultPubPriv(&e, &k1); return true })
	rec("DeriveGhostPublicKey.B", func() bool { crypto.DeriveGhostPublicKey(&k1, &p2, &e, 0); return true })
	rec("DeriveGhostPublicKey.A", func() bool { crypto.DeriveGhostPublicKey(&k1, &e, &p2, 0); return true })
	rec("ViewGhostOutputKey.P", func() bool { crypto.ViewGhostOutputKey(&e, &k1, &p2, 0); return true })
	rec("ViewGhostOutputKey.R", func() bool { crypto.ViewGhostOutputKey(&p2, &k1, &e, 0); return true })
	return out
}
