// Package cosih is shared by the C12, C13 and C14 harnesses: scalar / point
// helpers over the edwards25519 LIBRARY primitives (never a transcript), the
// finite tables that instantiate the model's abstract encoding and hash, and
// the resolver that asks the Coq model which table entries it looks up.
package cosih

import (
	"bufio"
	"bytes"
	"crypto/sha512"
	"fmt"
	"io"
	"math/big"
	"os"
	"os/exec"
	"path/filepath"
	"strings"
	"sync"
	"time"

	"filippo.io/edwards25519"
	"github.com/MixinNetwork/mixin/crypto"
	"verifharness/vh"
)

// L is the group order, derived from the library: (-1 mod l) + 1.
var L = func() *big.Int {
	one := make([]byte, 32)
	one[0] = 1
	s1, err := edwards25519.NewScalar().SetCanonicalBytes(one)
	if err != nil {
		panic(err)
	}
	v := LEInt(edwards25519.NewScalar().Negate(s1).Bytes())
	return v.Add(v, big.NewInt(1))
}()

func rev(b []byte) []byte {
	o := make([]byte, len(b))
	for i := range b {
		o[len(b)-1-i] = b[i]
	}
	return o
}

// LEInt is the integer value of little-endian bytes (scalars).
func LEInt(b []byte) *big.Int { return new(big.Int).SetBytes(rev(b)) }

// BEInt is the integer value of big-endian bytes (how the model carries 32-byte strings).
func BEInt(b []byte) *big.Int { return new(big.Int).SetBytes(b) }

// LE32 is the 32-byte little-endian form of 0 <= z < 2^256.
func LE32(z *big.Int) [32]byte {
	var o [32]byte
	b := z.Bytes()
	if z.Sign() < 0 || len(b) > 32 {
		panic("LE32 range")
	}
	for i := range b {
		o[i] = b[len(b)-1-i]
	}
	return o
}

func Mod(z *big.Int) *big.Int { return new(big.Int).Mod(z, L) }

// Enc is the library's encoding of z.B for 0 <= z < l.
func Enc(z *big.Int) [32]byte {
	if z.Sign() < 0 || z.Cmp(L) >= 0 {
		panic("Enc: scalar out of range " + z.String())
	}
	le := LE32(z)
	s, err := edwards25519.NewScalar().SetCanonicalBytes(le[:])
	if err != nil {
		panic(err)
	}
	var o [32]byte
	copy(o[:], edwards25519.NewIdentityPoint().ScalarBaseMult(s).Bytes())
	return o
}

// HashScalar is SHA-512 followed by Scalar.SetUniformBytes, as an integer.
func HashScalar(b []byte) *big.Int {
	d := sha512.Sum512(b)
	s, err := edwards25519.NewScalar().SetUniformBytes(d[:])
	if err != nil {
		panic(err)
	}
	return LEInt(s.Bytes())
}

// KeyOf is the crypto.Key holding the canonical scalar z.
func KeyOf(z *big.Int) crypto.Key { return crypto.Key(LE32(z)) }

// SeedKey draws a private key with the repository's NewKeyFromSeed.
func SeedKey(r *vh.Rand) (crypto.Key, *big.Int) {
	k := crypto.NewKeyFromSeed(r.Bytes(64))
	return k, LEInt(k[:])
}

// Garbage returns 32 bytes the repository's decodePoint refuses.
func Garbage(r *vh.Rand) crypto.Key {
	for {
		var k crypto.Key
		copy(k[:], r.Bytes(32))
		if !k.CheckKey() {
			return k
		}
	}
}

// ---- compact Coq literals (Model/Limbs.v) --------------------------------------

var limbBase = new(big.Int).Lsh(big.NewInt(1), 60)

func limbs(v *big.Int) string {
	var sb strings.Builder
	sb.WriteString("[")
	x := new(big.Int).Set(v)
	m := new(big.Int)
	first := true
	for x.Sign() > 0 {
		x.DivMod(x, limbBase, m)
		if !first {
			sb.WriteString(";")
		}
		first = false
		sb.WriteString(m.String())
	}
	sb.WriteString("]%uint63")
	return sb.String()
}

// ZB prints an integer as a Z term (60-bit limbs of primitive integers).
func ZB(v *big.Int) string {
	if v.Sign() < 0 {
		return vh.Z(v)
	}
	if v.Sign() == 0 {
		return "0%Z"
	}
	return "(zb " + limbs(v) + ")"
}

// NB prints a non-negative integer as an N term.
func NB(v *big.Int) string {
	if v.Sign() == 0 {
		return "0%N"
	}
	return "(nb " + limbs(v) + ")"
}

// NBytes prints a 32-byte string as the N holding its big-endian value.
func NBytes(b []byte) string { return NB(BEInt(b)) }

// BS prints a byte string as a list N term, packed 7 bytes per limb.
func BS(b []byte) string {
	if len(b) == 0 {
		return "(@nil N)"
	}
	var sb strings.Builder
	fmt.Fprintf(&sb, "(bs %d%%nat [", len(b))
	for i := 0; i < len(b); i += 7 {
		j := i + 7
		if j > len(b) {
			j = len(b)
		}
		if i > 0 {
			sb.WriteString(";")
		}
		sb.WriteString(new(big.Int).SetBytes(b[i:j]).String())
	}
	sb.WriteString("]%uint63)")
	return sb.String()
}

func ZList(vs []*big.Int) string {
	el := make([]string, len(vs))
	for i, v := range vs {
		el[i] = ZB(v)
	}
	return vh.List(el, "Z")
}

// ---- tables -------------------------------------------------------------------

type Tables struct {
	encK []string // decimal scalar (may be -1 for garbage bytes)
	encV map[string][]byte
	hK   []string // raw bytes as string
	hV   map[string]*big.Int
}

func NewTables() *Tables {
	return &Tables{encV: map[string][]byte{}, hV: map[string]*big.Int{}}
}

// PutEnc records the bytes standing for discrete log z (inputs of the scenario).
func (t *Tables) PutEnc(z *big.Int, b []byte) {
	k := z.String()
	if _, ok := t.encV[k]; !ok {
		t.encK = append(t.encK, k)
	}
	t.encV[k] = append([]byte{}, b...)
}

// PutPoint records the library encoding of z.B.
func (t *Tables) PutPoint(z *big.Int) {
	e := Enc(z)
	t.PutEnc(z, e[:])
}

func (t *Tables) putHash(b []byte) {
	k := string(b)
	if _, ok := t.hV[k]; !ok {
		t.hK = append(t.hK, k)
		t.hV[k] = HashScalar(b)
	}
}

func (t *Tables) EncTerm() string {
	el := make([]string, 0, len(t.encK))
	for _, k := range t.encK {
		z, _ := new(big.Int).SetString(k, 10)
		el = append(el, "("+ZB(z)+", "+NBytes(t.encV[k])+")")
	}
	return vh.List(el, "(Z * N)")
}

func (t *Tables) HashTerm() string {
	el := make([]string, 0, len(t.hK))
	for _, k := range t.hK {
		el = append(el, "("+BS([]byte(k))+", "+ZB(t.hV[k])+")")
	}
	return vh.List(el, "(list N * Z)")
}

// MCase is a model case whose Coq term depends on the tables.
type MCase struct {
	Kind       string
	Key        string
	Nontrivial bool
	JS         any
	T          *Tables
	Build      func(t *Tables) string // the Coq term given the tables
}

// ---- resolver: the model says which encodings / hashes it looks up ------------

// Resolve repeatedly evaluates `needs` of Run/<prop>.v on the cases inside
// Coq (one coqtop session per shard, kept across rounds) and answers every
// request with a library primitive, until no case needs anything more.  A
// request is (0,[z]) "encoding of z.B", (1,packed bytes) "hash-to-scalar of
// bytes"; (2,[]) says the case will not ask again.
func Resolve(prop string, cases []*MCase) error {
	root := os.Getenv("VERIF_ROOT")
	if root == "" {
		return fmt.Errorf("VERIF_ROOT not set")
	}
	if len(cases) == 0 {
		return nil
	}
	nsh := (len(cases) + 24) / 25
	if nsh > 8 {
		nsh = 8
	}
	shards := make([][]int, nsh)
	for i := range cases {
		shards[i%nsh] = append(shards[i%nsh], i)
	}
	errs := make([]error, nsh)
	var wg sync.WaitGroup
	for k := range shards {
		wg.Add(1)
		go func(k int) {
			defer wg.Done()
			errs[k] = resolveShard(root, prop, cases, shards[k])
		}(k)
	}
	wg.Wait()
	for _, e := range errs {
		if e != nil {
			return e
		}
	}
	return nil
}

type session struct {
	errb bytes.Buffer
	cmd  *exec.Cmd
	in   io.WriteCloser
	out  *bufio.Reader
	n    int
}

func newSession(root, prop string) (*session, error) {
	cmd := exec.Command("coqtop", "-q", "-R", filepath.Join(root, "coq"), "Mixin")
	in, err := cmd.StdinPipe()
	if err != nil {
		return nil, err
	}
	outp, err := cmd.StdoutPipe()
	if err != nil {
		return nil, err
	}
	s := &session{cmd: cmd, in: in, out: bufio.NewReaderSize(outp, 1<<20)}
	cmd.Stderr = &s.errb
	if err := cmd.Start(); err != nil {
		return nil, err
	}
	_, err = s.ask("From Coq Require Import List ZArith NArith Bool String.\nImport ListNotations.\n" +
		"Require Import Mixin.Base.Res Mixin.Run." + prop + ".\nOpen Scope Z_scope.\n" +
		"Set Printing Width 1000000.\nSet Printing Depth 10000000.\n")
	if err != nil {
		s.close()
		return nil, err
	}
	return s, nil
}

func (s *session) close() {
	s.in.Close()
	done := make(chan struct{})
	go func() { s.cmd.Wait(); close(done) }()
	select {
	case <-done:
	case <-time.After(5 * time.Second):
		s.cmd.Process.Kill()
	}
}

// ask sends commands and returns everything printed before the marker.
func (s *session) ask(cmds string) (string, error) {
	s.n++
	marker := fmt.Sprintf("cosih_marker_%d", s.n)
	if _, err := io.WriteString(s.in, cmds+"\nDefinition "+marker+" := tt.\nPrint "+marker+".\n"); err != nil {
		return "", err
	}
	var sb strings.Builder
	for {
		line, err := s.out.ReadString('\n')
		if strings.Contains(line, marker+" =") {
			// swallow the type line of the marker
			s.out.ReadString('\n')
			return sb.String(), nil
		}
		sb.WriteString(line)
		if err != nil {
			return sb.String(), fmt.Errorf("coqtop ended: %v", err)
		}
	}
}

func resolveShard(root, prop string, cases []*MCase, idx []int) error {
	s, err := newSession(root, prop)
	if err != nil {
		return err
	}
	defer s.close()
	pending := idx
	for round := 0; round < 16 && len(pending) > 0; round++ {
		t0 := time.Now()
		var sb strings.Builder
		name := fmt.Sprintf("out_%d", round)
		sb.WriteString("Definition " + name + " := Eval vm_compute in map needs [\n")
		for k, ci := range pending {
			if k > 0 {
				sb.WriteString(";\n")
			}
			sb.WriteString(cases[ci].Build(cases[ci].T))
		}
		sb.WriteString("\n].\nPrint " + name + ".\n")
		txt, err := s.ask(sb.String())
		if err != nil {
			return err
		}
		i := strings.Index(txt, name+" =")
		if i < 0 {
			e := s.errb.String()
			if len(e) > 1200 {
				e = e[len(e)-1200:]
			}
			return fmt.Errorf("needs evaluation failed (round %d): %.200s %s", round, txt, e)
		}
		txt = txt[i+len(name)+2:]
		if j := strings.LastIndex(txt, ": list"); j >= 0 {
			txt = txt[:j]
		}
		res, err := parseNeeds(txt)
		if err != nil {
			return err
		}
		if len(res) != len(pending) {
			return fmt.Errorf("needs: %d answers for %d cases", len(res), len(pending))
		}
		var next []int
		for k, ci := range pending {
			ns := res[k]
			if len(ns) == 0 {
				continue
			}
			final := false
			for _, n := range ns {
				switch n.tag {
				case 0:
					if len(n.payload) != 1 {
						return fmt.Errorf("bad enc need")
					}
					z := n.payload[0]
					if z.Sign() < 0 || z.Cmp(L) >= 0 {
						// not a point the harness can encode
						cases[ci].T.PutEnc(z, make([]byte, 32))
						continue
					}
					cases[ci].T.PutPoint(z)
				case 1:
					b, e := unpack(n.payload)
					if e != nil {
						return e
					}
					cases[ci].T.putHash(b)
				case 2:
					final = true
				default:
					return fmt.Errorf("bad need tag %d", n.tag)
				}
			}
			if !final {
				next = append(next, ci)
			}
		}
		if os.Getenv("COSIH_TRACE") != "" {
			fmt.Fprintf(os.Stderr, "resolve round %d: %d cases, %v\n", round, len(pending), time.Since(t0))
		}
		pending = next
	}
	if len(pending) > 0 {
		return fmt.Errorf("needs did not converge for %d cases", len(pending))
	}
	return nil
}

// unpack reverses Model/Limbs.v pack: length, then one number per 7 bytes (big-endian).
func unpack(pl []*big.Int) ([]byte, error) {
	if len(pl) == 0 {
		return nil, fmt.Errorf("empty packed bytes")
	}
	n := int(pl[0].Int64())
	b := make([]byte, 0, n)
	for i := 0; i < n; i += 7 {
		k := n - i
		if k > 7 {
			k = 7
		}
		if 1+i/7 >= len(pl) {
			return nil, fmt.Errorf("short packed bytes")
		}
		chunk := pl[1+i/7].Bytes()
		if len(chunk) > k {
			return nil, fmt.Errorf("bad packed chunk")
		}
		b = append(b, make([]byte, k-len(chunk))...)
		b = append(b, chunk...)
	}
	return b, nil
}

type need struct {
	tag     int
	payload []*big.Int
}

// parseNeeds reads a Coq term of type list (list (Z * list Z)).
func parseNeeds(s string) ([][]need, error) {
	p := &parser{s: s}
	var out [][]need
	err := p.list(func() error {
		var ns []need
		e := p.list(func() error {
			p.ws()
			if !p.eat('(') {
				return fmt.Errorf("expected ( at %d", p.i)
			}
			tag, e := p.num()
			if e != nil {
				return e
			}
			p.ws()
			if !p.eat(',') {
				return fmt.Errorf("expected , at %d", p.i)
			}
			var pl []*big.Int
			e = p.list(func() error {
				v, e := p.num()
				if e != nil {
					return e
				}
				pl = append(pl, v)
				return nil
			})
			if e != nil {
				return e
			}
			p.ws()
			if !p.eat(')') {
				return fmt.Errorf("expected ) at %d", p.i)
			}
			ns = append(ns, need{tag: int(tag.Int64()), payload: pl})
			return nil
		})
		out = append(out, ns)
		return e
	})
	return out, err
}

type parser struct {
	s string
	i int
}

func (p *parser) ws() {
	for p.i < len(p.s) {
		c := p.s[p.i]
		if c == ' ' || c == '\n' || c == '\t' || c == '\r' {
			p.i++
			continue
		}
		if c == '%' { // scope annotation %Z / %N
			p.i++
			for p.i < len(p.s) && (p.s[p.i] >= 'A' && p.s[p.i] <= 'Z' || p.s[p.i] >= 'a' && p.s[p.i] <= 'z') {
				p.i++
			}
			continue
		}
		break
	}
}

func (p *parser) eat(c byte) bool {
	p.ws()
	if p.i < len(p.s) && p.s[p.i] == c {
		p.i++
		return true
	}
	return false
}

func (p *parser) num() (*big.Int, error) {
	p.ws()
	paren := p.eat('(')
	p.ws()
	j := p.i
	if j < len(p.s) && p.s[j] == '-' {
		j++
	}
	for j < len(p.s) && p.s[j] >= '0' && p.s[j] <= '9' {
		j++
	}
	v, ok := new(big.Int).SetString(p.s[p.i:j], 10)
	if !ok {
		return nil, fmt.Errorf("expected number at %d: %.40q", p.i, p.s[p.i:])
	}
	p.i = j
	if paren {
		p.ws()
		if !p.eat(')') {
			return nil, fmt.Errorf("expected ) after number")
		}
	}
	return v, nil
}

// list parses "[]" | "[e; e; ...]" | "nil" calling elem for each element.
func (p *parser) list(elem func() error) error {
	p.ws()
	if strings.HasPrefix(p.s[p.i:], "nil") {
		p.i += 3
		return nil
	}
	if !p.eat('[') {
		return fmt.Errorf("expected [ at %d: %.40q", p.i, p.s[p.i:])
	}
	if p.eat(']') {
		return nil
	}
	for {
		if err := elem(); err != nil {
			return err
		}
		if p.eat(';') {
			continue
		}
		if p.eat(']') {
			return nil
		}
		return fmt.Errorf("expected ; or ] at %d: %.40q", p.i, p.s[p.i:])
	}
}

// Emit resolves the tables of all model cases and hands them to the harness context.
func Emit(c *vh.Ctx, prop string, cases []*MCase) {
	if err := Resolve(prop, cases); err != nil {
		c.Note("model table resolution failed: " + err.Error())
	}
	for _, mc := range cases {
		c.Case(mc.Kind, mc.Key, mc.Nontrivial, mc.JS, mc.Build(mc.T))
	}
}
