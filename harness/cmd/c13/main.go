// C13 harness: collective signatures (crypto/cosi.go) on generated scenarios.
// The harness owns every private key and nonce, runs the REAL code
// (CosiAggregateCommitment, Challenge, Response, VerifyResponse,
// AggregateResponse, FullVerify), sends the scenario in discrete-log form to
// the Coq model (Run/C13.v) and checks the implementation directly against the
// property text (oracle): valid shares aggregate to a signature that verifies
// for every threshold up to the mask size; a share passes iff s.B = R + c.K;
// mask index outside the key vector, missing / extra share, threshold outside
// 1..popcount are refused.
package main

import (
	"encoding/hex"
	"fmt"
	"math/big"
	"math/bits"
	"sort"

	"github.com/MixinNetwork/mixin/crypto"
	"verifharness/cmd/c13/cosih"
	"verifharness/vh"
)

type Case struct {
	N         int    `json:"n"`
	KeySeed   uint64 `json:"key_seed"`
	NonceSeed uint64 `json:"nonce_seed"`
	Signers   []int  `json:"signers"`
	Msg       string `json:"msg"`
	Kind      string `json:"kind"`
	Victim    int    `json:"victim"` // position in Signers
	Bit       int    `json:"bit"`
	Aux       int    `json:"aux"`
	Threshold int    `json:"threshold"`
	BadKey    string `json:"bad_key,omitempty"` // garbage | nil | identity at key index BadIdx
	BadIdx    int    `json:"bad_idx,omitempty"`
}

var one = big.NewInt(1)

func zl(vs []*big.Int) string {
	el := make([]string, len(vs))
	for i, v := range vs {
		el[i] = cosih.ZB(v)
	}
	return vh.List(el, "Z")
}

func resZ(pan bool, err error, v *big.Int) string {
	if pan {
		return vh.Pan("Z")
	}
	if err != nil {
		return vh.Err("Z")
	}
	return vh.Ok(cosih.ZB(v))
}

func resU(pan bool, err error) string {
	if pan {
		return vh.Pan("unit")
	}
	if err != nil {
		return vh.Err("unit")
	}
	return vh.Ok("tt")
}

func flip(b []byte, bit int) {
	b[(bit/8)%len(b)] ^= 1 << uint(bit%8)
}

type runner struct {
	c   *vh.Ctx
	cs  Case
	out []*cosih.MCase
}

func (r *runner) fail(sig, what string) {
	r.c.Fail(sig, what, r.cs)
}

func run(c *vh.Ctx, cs Case) []*cosih.MCase {
	r := &runner{c: c, cs: cs}
	r.scenario()
	return r.out
}

func (r *runner) scenario() {
	cs := r.cs
	key := fmt.Sprintf("%+v", cs)
	T := cosih.NewTables()
	// ---- key vector -----------------------------------------------------------
	kr := vh.NewRand(cs.KeySeed, "c13-keys")
	privs := make([]crypto.Key, cs.N)
	kz := make([]*big.Int, cs.N) // discrete logs given to the model
	publics := make([]*crypto.Key, cs.N)
	garbage := cosih.Garbage(kr)
	T.PutEnc(big.NewInt(-1), garbage[:])
	for i := 0; i < cs.N; i++ {
		privs[i], kz[i] = cosih.SeedKey(kr)
		if cs.Kind == "degenerate-key" && i == 1 { // K_1 = -K_0: the aggregated key of {0,1} is the identity
			kz[1] = new(big.Int).Sub(cosih.L, kz[0])
			privs[1] = cosih.KeyOf(kz[1])
		}
		p := privs[i].Public()
		publics[i] = &p
	}
	badMasked := false
	// sequence scenario over the process-wide decoded-point cache: step 1 offers a
	// special encoding in every position that decodes a point, step 2 (the flow
	// below) has the same encoding as a masked key
	var special crypto.Key
	specialBefore := false
	if cs.Kind == "seq-cache" {
		sps := cosih.Specials()
		sp := sps[cs.Aux%len(sps)]
		special = sp.Key
		specialBefore = special.CheckKey()
		for _, o := range cosih.PresentEverywhere(special, vh.NewRand(cs.NonceSeed, "c13-step1")) {
			if o.Accepted {
				r.fail("special-accepted", fmt.Sprintf("%s accepted the %s encoding %x", o.Pos, sp.Name, special[:]))
			}
		}
		defer func() {
			after := special.CheckKey()
			if after != specialBefore {
				r.fail("checkkey-changed", fmt.Sprintf("CheckKey(%x) answered %v before and %v after the encoding was seen in other positions", special[:], specialBefore, after))
			} else if after {
				r.fail("special-accepted", fmt.Sprintf("CheckKey accepted the %s encoding %x", sp.Name, special[:]))
			}
		}()
	}
	if cs.BadKey != "" && cs.BadIdx < cs.N {
		switch cs.BadKey {
		case "special":
			e := special
			publics[cs.BadIdx] = &e
			kz[cs.BadIdx] = cosih.SpecialLog(e)
			T.PutEnc(kz[cs.BadIdx], e[:])
		case "garbage":
			g := garbage
			publics[cs.BadIdx] = &g
			kz[cs.BadIdx] = big.NewInt(-1)
		case "nil":
			publics[cs.BadIdx] = nil
			kz[cs.BadIdx] = big.NewInt(-1)
		case "identity":
			var id crypto.Key
			id[0] = 1
			publics[cs.BadIdx] = &id
			kz[cs.BadIdx] = big.NewInt(0)
			T.PutEnc(big.NewInt(0), id[:])
		}
	}
	var msg crypto.Hash
	mb, _ := hex.DecodeString(cs.Msg)
	copy(msg[:], mb)

	// ---- commitments ------------------------------------------------------------
	nr := vh.NewRand(cs.NonceSeed, "c13-nonces")
	randoms := map[int]*crypto.Key{}
	rkeys := map[int]crypto.Key{}
	rz := map[int]*big.Int{}
	commitOK := len(cs.Signers) > 0
	sumR := new(big.Int)
	var wantMask uint64
	for pos, i := range cs.Signers {
		rk, z := cosih.SeedKey(nr)
		if cs.Kind == "degenerate-commitment" && pos == 1 { // R_1 = -R_0: the aggregated commitment is the identity
			z = new(big.Int).Sub(cosih.L, rz[cs.Signers[0]])
			rk = cosih.KeyOf(z)
		}
		rkeys[i], rz[i] = rk, z
		R := rk.Public()
		randoms[i] = &R
		if cs.Kind == "commit-garbage" && pos == cs.Victim {
			if cs.Aux%2 == 0 {
				g := garbage
				randoms[i] = &g
			} else {
				randoms[i] = nil
			}
			rz[i] = big.NewInt(-1)
			commitOK = false
		}
		if i < 0 || i >= 64 {
			commitOK = false
		} else {
			wantMask |= 1 << uint(i)
		}
		sumR.Add(sumR, z)
	}
	sumR.Mod(sumR, cosih.L)
	idxs := append([]int{}, cs.Signers...)
	sort.Ints(idxs)
	var rsEl, commitsEl []string
	for _, i := range idxs {
		rsEl = append(rsEl, "("+vh.ZI(int64(i))+", "+cosih.ZB(rz[i])+")")
	}
	commitsEl = rsEl
	var cosi *crypto.CosiSignature
	var err error
	pan, _ := vh.Catch(func() { cosi, err = crypto.CosiAggregateCommitment(randoms) })
	obs := vh.Err("(N * N)")
	if pan {
		obs = vh.Pan("(N * N)")
		r.fail("commit-panic", "CosiAggregateCommitment panicked")
	} else if err == nil {
		obs = vh.Ok("(" + cosih.NBytes(cosi.Signature[:32]) + ", " + vh.NU(cosi.Mask) + ")")
	}
	rsTerm := vh.List(rsEl, "(Z * Z)")
	r.out = append(r.out, &cosih.MCase{Kind: "commit", Key: "commit|" + key, Nontrivial: err == nil && !pan, JS: cs, T: T,
		Build: func(t *cosih.Tables) string { return vh.App("CCommit", t.EncTerm(), rsTerm, obs) }})
	if pan {
		return
	}
	if (err == nil) != commitOK {
		r.fail("commit-decision", fmt.Sprintf("CosiAggregateCommitment accepted=%v, valid commitments in range 0..63=%v", err == nil, commitOK))
		return
	}
	if err != nil {
		return
	}
	if cosi.Mask != wantMask {
		r.fail("commit-mask", fmt.Sprintf("mask %x for signers %v", cosi.Mask, cs.Signers))
	}
	if e := cosih.Enc(sumR); string(e[:]) != string(cosi.Signature[:32]) {
		r.fail("commit-sum", "aggregated commitment is not the sum of the commitments")
	}

	// ---- the CoSi value the flow runs on ---------------------------------------
	if cs.Kind == "mask-flow-add" { // mask names a signer that never committed
		cosi.Mask |= 1 << uint(cs.Aux%64)
	}
	mask := cosi.Mask
	pop := bits.OnesCount64(mask)
	inMask := func(i int) bool { return i >= 0 && i < 64 && mask&(1<<uint(i)) != 0 }
	maskInRange := true
	for i := 0; i < 64; i++ {
		if inMask(i) && i >= cs.N {
			maskInRange = false
		}
	}
	for i := 0; i < 64; i++ {
		if inMask(i) && i < cs.N && cs.BadKey != "" && cs.BadIdx == i {
			badMasked = true
		}
	}
	var ops []string

	var chal *big.Int
	var cerr error
	pan, _ = vh.Catch(func() {
		x, e := cosi.Challenge(publics, msg)
		cerr = e
		if e == nil {
			chal = cosih.LEInt(x.Bytes())
		}
	})
	ops = append(ops, vh.App("OChallenge", resZ(pan, cerr, chal)))
	if pan {
		r.fail("challenge-panic", "Challenge panicked")
		return
	}
	chalOK := cerr == nil
	if chalOK != (maskInRange && !badMasked && pop > 0) {
		r.fail("mask-index", fmt.Sprintf("Challenge accepted=%v with mask %x over %d keys (bad masked key=%v)", chalOK, mask, cs.N, badMasked))
	}

	// ---- responses ----------------------------------------------------------------
	resp := map[int]*[32]byte{}
	for _, i := range idxs {
		if i >= cs.N {
			continue
		}
		var s *[32]byte
		var e error
		rk := rkeys[i]
		pk := privs[i]
		p, _ := vh.Catch(func() { s, e = cosi.Response(&pk, &rk, publics, msg) })
		var sv *big.Int
		if !p && e == nil {
			sv = cosih.LEInt(s[:])
			resp[i] = s
		}
		if modelOp(len(idxs), i, cs.Aux) {
			ops = append(ops, vh.App("OResponse", cosih.ZB(kzPriv(privs[i])), cosih.ZB(cosih.LEInt(rk[:])), resZ(p, e, sv)))
		}
		if p {
			r.fail("response-panic", "Response panicked on canonical inputs")
			return
		}
		if (e == nil) != chalOK {
			r.fail("response-decision", "Response succeeds exactly when the challenge can be computed")
		}
	}
	// what a valid share of signer i is, from the property text: s.B = R_i + c.K_i
	valid := func(i int, s *[32]byte) bool {
		if !chalOK || s == nil || i >= cs.N || rz[i] == nil || rz[i].Sign() < 0 {
			return false
		}
		sv := cosih.LEInt(s[:])
		if sv.Cmp(cosih.L) >= 0 {
			return false
		}
		want := new(big.Int).Mul(chal, kzPriv(privs[i]))
		want.Add(want, rz[i]).Mod(want, cosih.L)
		return want.Cmp(sv) == 0
	}

	// ---- tampering ---------------------------------------------------------------
	victim := -1
	if len(idxs) > 0 {
		victim = cs.Signers[cs.Victim%len(cs.Signers)]
	}
	if cs.Kind == "seq-verified" && chalOK && victim >= 0 && victim < cs.N && resp[victim] != nil {
		r.seqVerified(cosi, randoms, publics, privs, rkeys, msg, resp, victim, valid, ops, T, kz, sumR, mask, commitsEl, key)
		return
	}
	switch cs.Kind {
	case "share-bit":
		if s := resp[victim]; s != nil {
			t := *s
			flip(t[:], cs.Bit)
			resp[victim] = &t
		}
	case "share-swap":
		other := cs.Signers[(cs.Victim+1+cs.Aux%max(1, len(cs.Signers)-1))%len(cs.Signers)]
		if resp[other] != nil && other != victim {
			t := *resp[other]
			resp[victim] = &t
		}
	case "share-msg":
		m2 := msg
		flip(m2[:], cs.Bit)
		rk, pk := rkeys[victim], privs[min(max(victim, 0), cs.N-1)]
		if victim < cs.N {
			vh.Catch(func() {
				if s, e := cosi.Response(&pk, &rk, publics, m2); e == nil {
					resp[victim] = s
				}
			})
		}
	case "share-random":
		t := cosih.LE32(cosih.Mod(vh.NewRand(uint64(cs.Bit), "s").Big(256)))
		resp[victim] = &t
	case "share-noncanonical":
		if s := resp[victim]; s != nil { // s + l: same residue, not canonical
			v := new(big.Int).Add(cosih.LEInt(s[:]), cosih.L)
			t := cosih.LE32(v)
			resp[victim] = &t
		}
	case "share-missing":
		delete(resp, victim)
	case "share-nil":
		resp[victim] = nil
	case "share-extra":
		j := cs.Aux % 70
		if !inMask(j) {
			if cs.Bit%2 == 0 {
				var t [32]byte
				t[0] = byte(cs.Bit)
				resp[j] = &t
			} else {
				resp[j] = nil
			}
		}
	}
	var respEl []string
	var ridx []int
	for i := range resp {
		ridx = append(ridx, i)
	}
	sort.Ints(ridx)
	sameSet, noNil, allValid, allCanon := len(resp) == pop, true, true, true
	for _, i := range ridx {
		s := resp[i]
		if s == nil {
			respEl = append(respEl, "("+vh.ZI(int64(i))+", "+vh.None("Z")+")")
			noNil = false
			continue
		}
		respEl = append(respEl, "("+vh.ZI(int64(i))+", "+vh.Some(cosih.ZB(cosih.LEInt(s[:])))+")")
		if !inMask(i) {
			sameSet = false
		}
		if !valid(i, s) {
			allValid = false
		}
		if cosih.LEInt(s[:]).Cmp(cosih.L) >= 0 {
			allCanon = false
		}
	}
	for i := 0; i < 64; i++ {
		if inMask(i) && resp[i] == nil {
			sameSet = false
		}
	}
	respTerm := vh.List(respEl, "(Z * option Z)")

	// ---- single-response verification -----------------------------------------
	probe := append([]int{}, idxs...)
	probe = append(probe, cs.Aux%66-1) // usually a signer outside the mask
	for _, i := range probe {
		s, present := resp[i]
		if !present && cs.Aux%3 == 0 && victim >= 0 && resp[victim] != nil {
			s = resp[victim] // somebody else's share offered for signer i
		}
		var e error
		p, _ := vh.Catch(func() { e = cosi.VerifyResponse(publics, i, s, msg) })
		st := vh.None("Z")
		if s != nil {
			st = vh.Some(cosih.ZB(cosih.LEInt(s[:])))
		}
		if modelOp(len(idxs), i, cs.Aux) || i == victim {
			ops = append(ops, vh.App("OVerifyResp", vh.ZI(int64(i)), st, resU(p, e)))
		}
		if p {
			r.fail("verify-response-panic", "VerifyResponse panicked")
			continue
		}
		want := inMask(i) && valid(i, s)
		if (e == nil) != want {
			r.fail("verify-response", fmt.Sprintf("VerifyResponse(signer %d) accepted=%v, share matches its signer and signer is masked=%v", i, e == nil, want))
		}
	}

	// ---- aggregation ------------------------------------------------------------
	strictC := *cosi
	var se error
	p, _ := vh.Catch(func() { se = strictC.AggregateResponse(publics, resp, msg, true) })
	ops = append(ops, vh.App("OAggResp", respTerm, "true", resZ(p, se, cosih.LEInt(strictC.Signature[32:]))))
	if p {
		r.fail("aggregate-panic", "AggregateResponse(strict) panicked")
	} else {
		want := chalOK && sameSet && noNil && allValid
		if (se == nil) != want {
			r.fail("strict-aggregate", fmt.Sprintf("strict aggregation accepted=%v; mask in range/complete share set/all shares valid=%v/%v/%v", se == nil, chalOK, sameSet && noNil, allValid))
		}
	}
	looseC := *cosi
	var le error
	p, _ = vh.Catch(func() { le = looseC.AggregateResponse(publics, resp, msg, false) })
	ops = append(ops, vh.App("OAggResp", respTerm, "false", resZ(p, le, cosih.LEInt(looseC.Signature[32:]))))
	if p {
		r.fail("aggregate-panic", "AggregateResponse panicked")
		return
	}
	if (le == nil) != (chalOK && sameSet && noNil && allCanon) {
		r.fail("loose-aggregate", fmt.Sprintf("aggregation accepted=%v; share set complete=%v", le == nil, sameSet && noNil))
	}

	// ---- full verification --------------------------------------------------------
	sumK := new(big.Int)
	for i := 0; i < 64 && i < cs.N; i++ {
		if inMask(i) && kz[i].Sign() > 0 {
			sumK.Add(sumK, kz[i])
		}
	}
	sumK.Mod(sumK, cosih.L)
	degenerate := sumK.Sign() == 0 || sumR.Sign() == 0
	honestSig := le == nil && allValid && !degenerate
	type fv struct {
		keys    []*crypto.Key
		kz      []*big.Int
		sig     crypto.Signature
		r       *big.Int
		mask    uint64
		msg     crypto.Hash
		t       int
		tamper  bool // the variant differs from what was signed
		keysNew bool
	}
	base := fv{keys: publics, kz: kz, sig: looseC.Signature, r: sumR, mask: mask, msg: msg, t: cs.Threshold}
	variants := []fv{base}
	switch cs.Kind {
	case "threshold":
		for _, t := range []int{-1, 0, 1, pop - 1, pop, pop + 1, 64, 65} {
			v := base
			v.t = t
			variants = append(variants, v)
		}
	case "sig-s-bit":
		v := base
		flip(v.sig[32:], cs.Bit)
		v.tamper = true
		variants = append(variants, v)
	case "sig-r-garbage":
		v := base
		copy(v.sig[:32], garbage[:])
		v.r = big.NewInt(-1)
		v.tamper = true
		variants = append(variants, v)
	case "sig-r-other":
		v := base
		v.r = cosih.Mod(new(big.Int).Add(sumR, big.NewInt(int64(1+cs.Bit))))
		e := cosih.Enc(v.r)
		copy(v.sig[:32], e[:])
		v.tamper = true
		variants = append(variants, v)
	case "msg":
		v := base
		flip(v.msg[:], cs.Bit)
		v.tamper = true
		variants = append(variants, v)
	case "key-sub", "key-unmasked-sub":
		// replace one key of the vector by a fresh one at verification time
		var cand []int
		for i := 0; i < cs.N; i++ {
			if inMask(i) == (cs.Kind == "key-sub") {
				cand = append(cand, i)
			}
		}
		if len(cand) > 0 {
			j := cand[cs.Aux%len(cand)]
			v := base
			v.keys = append([]*crypto.Key{}, publics...)
			v.kz = append([]*big.Int{}, kz...)
			nk, nz := cosih.SeedKey(vh.NewRand(uint64(cs.Bit), "c13-sub"))
			np := nk.Public()
			v.keys[j], v.kz[j] = &np, nz
			v.tamper = cs.Kind == "key-sub"
			v.keysNew = true
			variants = append(variants, v)
		}
	case "mask-add":
		v := base
		v.mask |= 1 << uint(cs.Aux%64)
		v.tamper = v.mask != mask
		variants = append(variants, v)
	case "mask-del":
		v := base
		v.mask &^= 1 << uint(victim%64)
		v.tamper = v.mask != mask
		variants = append(variants, v)
	}
	for _, v := range variants {
		cv := looseC
		cv.Signature = v.sig
		cv.Mask = v.mask
		var e error
		p, _ := vh.Catch(func() { e = cv.FullVerify(v.keys, v.t, v.msg) })
		kt := vh.None("(list Z)")
		if v.keysNew {
			kt = vh.Some(zl(v.kz))
		}
		ops = append(ops, vh.App("OFullVerify", kt, cosih.ZB(v.r), cosih.ZB(cosih.LEInt(v.sig[32:])), vh.NU(v.mask),
			cosih.NBytes(v.msg[:]), vh.ZI(int64(v.t)), resU(p, e)))
		if p {
			r.fail("full-verify-panic", "FullVerify panicked")
			continue
		}
		vpop := bits.OnesCount64(v.mask)
		switch {
		case v.t <= 0 || v.t > vpop:
			if e == nil {
				r.fail("threshold", fmt.Sprintf("FullVerify accepted threshold %d with %d masked signers", v.t, vpop))
			}
		case v.tamper || !honestSig:
			if e == nil && !degenerate {
				r.fail("full-verify-accepts", fmt.Sprintf("FullVerify accepted a signature that was not built from valid shares of this mask/keys/message (kind %s)", cs.Kind))
			}
		default:
			if e != nil {
				r.fail("full-verify-rejects", fmt.Sprintf("FullVerify rejected the aggregate of valid shares (threshold %d, %d signers): %v", v.t, vpop, e))
			}
		}
	}

	et := commitsEl
	_ = et
	commitsTerm := vh.List(commitsEl, "(Z * Z)")
	opsTerm := vh.List(ops, "op")
	kzTerm := zl(kz)
	r.out = append(r.out, &cosih.MCase{Kind: cs.Kind, Key: key, Nontrivial: chalOK, JS: cs, T: T,
		Build: func(t *cosih.Tables) string {
			return vh.App("CFlow", t.EncTerm(), t.HashTerm(), kzTerm, cosih.NBytes(msg[:]), cosih.ZB(sumR), "0%Z",
				vh.NU(mask), commitsTerm, opsTerm)
		}})
}

// seqVerified: order-dependent sequences on ONE CosiSignature object.  A good
// share of the victim is verified first; a bad share for the same signer (bit
// flipped / made with a foreign private key / made for another message) must
// then still be refused by VerifyResponse and by strict aggregation on that very
// object (control: a fresh object), the non-strict aggregate containing it must
// fail FullVerify, and the good shares must still aggregate and verify.  The
// model is stateless, so an acceptance that depends on the earlier call is a
// mismatch as well as an oracle failure.
func (r *runner) seqVerified(cosi *crypto.CosiSignature, randoms map[int]*crypto.Key, publics []*crypto.Key, privs []crypto.Key,
	rkeys map[int]crypto.Key, msg crypto.Hash, resp map[int]*[32]byte, victim int, valid func(int, *[32]byte) bool,
	ops []string, T *cosih.Tables, kz []*big.Int, sumR *big.Int, mask uint64, commitsEl []string, key string) {
	cs := r.cs
	good := resp[victim]
	var bad [32]byte
	mode := []string{"bit-flipped", "foreign-key", "other-message"}[cs.Aux%3]
	switch mode {
	case "bit-flipped":
		bad = *good
		flip(bad[:], cs.Bit)
	case "foreign-key":
		fk, _ := cosih.SeedKey(vh.NewRand(uint64(cs.Bit), "c13-foreign"))
		rk := rkeys[victim]
		s, err := cosi.Response(&fk, &rk, publics, msg)
		if err != nil {
			return
		}
		bad = *s
	case "other-message":
		m2 := msg
		flip(m2[:], cs.Bit)
		rk, pk := rkeys[victim], privs[victim]
		s, err := cosi.Response(&pk, &rk, publics, m2)
		if err != nil {
			return
		}
		bad = *s
	}
	if valid(victim, &bad) {
		return // astronomically unlikely: the tampered share is valid
	}
	st := func(s *[32]byte) string { return vh.Some(cosih.ZB(cosih.LEInt(s[:]))) }
	respTerm := func(m map[int]*[32]byte) string {
		var idx []int
		for i := range m {
			idx = append(idx, i)
		}
		sort.Ints(idx)
		var el []string
		for _, i := range idx {
			el = append(el, "("+vh.ZI(int64(i))+", "+st(m[i])+")")
		}
		return vh.List(el, "(Z * option Z)")
	}
	verify := func(obj *crypto.CosiSignature, s *[32]byte, want bool, what string) {
		var e error
		p, _ := vh.Catch(func() { e = obj.VerifyResponse(publics, victim, s, msg) })
		ops = append(ops, vh.App("OVerifyResp", vh.ZI(int64(victim)), st(s), resU(p, e)))
		if p {
			r.fail("verify-response-panic", "VerifyResponse panicked")
		} else if (e == nil) != want {
			r.fail("seq-verify-response", fmt.Sprintf("VerifyResponse(signer %d, %s share) accepted=%v %s", victim, mode, e == nil, what))
		}
	}
	aggregate := func(obj *crypto.CosiSignature, m map[int]*[32]byte, strict, want bool, what string) {
		var e error
		p, _ := vh.Catch(func() { e = obj.AggregateResponse(publics, m, msg, strict) })
		ops = append(ops, vh.App("OAggResp", respTerm(m), vh.Bool(strict), resZ(p, e, cosih.LEInt(obj.Signature[32:]))))
		if p {
			r.fail("aggregate-panic", "AggregateResponse panicked")
		} else if (e == nil) != want {
			r.fail("seq-aggregate", fmt.Sprintf("AggregateResponse(strict=%v) with a %s share for signer %d accepted=%v %s", strict, mode, victim, e == nil, what))
		}
	}
	full := func(obj *crypto.CosiSignature, want bool, what string) {
		var e error
		t := bits.OnesCount64(obj.Mask)
		p, _ := vh.Catch(func() { e = obj.FullVerify(publics, t, msg) })
		ops = append(ops, vh.App("OFullVerify", vh.None("(list Z)"), cosih.ZB(sumR), cosih.ZB(cosih.LEInt(obj.Signature[32:])), vh.NU(obj.Mask),
			cosih.NBytes(msg[:]), vh.ZI(int64(t)), resU(p, e)))
		if p {
			r.fail("full-verify-panic", "FullVerify panicked")
		} else if (e == nil) != want {
			r.fail("seq-full-verify", fmt.Sprintf("FullVerify accepted=%v %s (%s share)", e == nil, what, mode))
		}
	}
	withBad := map[int]*[32]byte{}
	for i, s := range resp {
		withBad[i] = s
	}
	withBad[victim] = &bad
	sumK := new(big.Int)
	for i := 0; i < len(kz) && i < 64; i++ {
		if mask&(1<<uint(i)) != 0 {
			sumK.Add(sumK, kz[i])
		}
	}
	degenerate := sumK.Mod(sumK, cosih.L).Sign() == 0 || sumR.Sign() == 0

	verify(cosi, good, true, "(first call)")
	verify(cosi, &bad, false, "after the good share of the same signer was verified on this object")
	aggregate(cosi, withBad, true, false, "after the good share of the same signer was verified on this object")
	if fresh, err := crypto.CosiAggregateCommitment(randoms); err == nil { // control: an object that never verified anything
		aggregate(fresh, withBad, true, false, "on a fresh object")
	}
	canon := cosih.LEInt(bad[:]).Cmp(cosih.L) < 0
	aggregate(cosi, withBad, false, canon, "(non-strict)")
	if canon {
		full(cosi, false, "for an aggregate containing a share that does not match its signer")
	}
	verify(cosi, good, true, "(again)")
	aggregate(cosi, withBad, true, false, "after verify / aggregate / verify on this object")
	aggregate(cosi, resp, true, true, "(all shares valid)")
	if !degenerate {
		full(cosi, true, "for the aggregate of valid shares")
	}
	commitsTerm, opsTerm, kzTerm := vh.List(commitsEl, "(Z * Z)"), vh.List(ops, "op"), zl(kz)
	r.out = append(r.out, &cosih.MCase{Kind: cs.Kind, Key: key, Nontrivial: true, JS: cs, T: T,
		Build: func(t *cosih.Tables) string {
			return vh.App("CFlow", t.EncTerm(), t.HashTerm(), kzTerm, cosih.NBytes(msg[:]), cosih.ZB(sumR), "0%Z",
				vh.NU(mask), commitsTerm, opsTerm)
		}})
}

// modelOp bounds the per-signer operations sent to the model for large signer
// sets (the oracle still checks every signer): all when <= 6, else about 5.
func modelOp(n, i, salt int) bool {
	if n <= 6 {
		return true
	}
	return (i*7+salt)%n < 5
}

func kzPriv(k crypto.Key) *big.Int { return cosih.LEInt(k[:]) }

// ---- generation -----------------------------------------------------------------

var kinds = []string{"honest", "honest", "honest", "share-bit", "share-bit", "share-swap", "share-msg", "share-random",
	"share-noncanonical", "share-missing", "share-nil", "share-extra", "mask-index", "mask-flow-add", "commit-range",
	"commit-garbage", "sig-s-bit", "sig-r-garbage", "sig-r-other", "msg", "key-sub", "key-unmasked-sub", "mask-add",
	"mask-del", "threshold", "threshold", "bad-key", "seq-verified", "seq-verified"}

func gen(r *vh.Rand, kind string, n int) Case {
	cs := Case{N: n, KeySeed: r.U64(), NonceSeed: r.U64(), Kind: kind, Bit: r.Intn(256), Aux: r.Intn(1 << 20),
		Msg: hex.EncodeToString(r.Bytes(32))}
	// mask: random subset of the keys
	var signers []int
	switch r.Intn(4) {
	case 0: // everybody
		for i := 0; i < n && i < 64; i++ {
			signers = append(signers, i)
		}
	case 1: // one
		signers = []int{r.Intn(min(n, 64))}
	default:
		for i := 0; i < n && i < 64; i++ {
			if r.Bool() {
				signers = append(signers, i)
			}
		}
		if len(signers) == 0 {
			signers = []int{r.Intn(min(n, 64))}
		}
	}
	// the commitments map has no order: shuffle
	for i := len(signers) - 1; i > 0; i-- {
		j := r.Intn(i + 1)
		signers[i], signers[j] = signers[j], signers[i]
	}
	cs.Victim = r.Intn(len(signers))
	cs.Threshold = 1 + r.Intn(len(signers))
	switch kind {
	case "mask-index":
		if n < 64 {
			signers = append(signers, n+r.Intn(64-n))
			if r.Chance(1, 3) {
				signers[len(signers)-1] = n // boundary
			}
		}
	case "commit-range":
		signers = append(signers, []int{64, 65, -1, 1 << 20, 64 + r.Intn(1000)}[r.Intn(5)])
	case "bad-key":
		cs.BadKey = []string{"garbage", "nil", "identity"}[r.Intn(3)]
		cs.BadIdx = r.Intn(n)
	case "share-swap":
		if len(signers) < 2 {
			cs.Kind = "share-random"
		}
	}
	cs.Signers = signers
	return cs
}

func sizeOf(r *vh.Rand) int {
	switch r.Intn(10) {
	case 0:
		return 64
	case 1:
		return r.Range(33, 64)
	case 2:
		return r.Range(9, 32)
	case 3:
		return 1
	default:
		return r.Range(2, 8)
	}
}

func corpus(r *vh.Rand) []Case {
	var cs []Case
	// sequences over the point cache: one per special encoding, the encoding as masked key 1 of 2
	for i := range cosih.Specials() {
		q := gen(r, "seq-cache", 2)
		q.Signers, q.BadKey, q.BadIdx, q.Aux, q.Threshold, q.Victim = []int{0, 1}, "special", 1, i, 1+i%2, 0
		cs = append(cs, q)
	}
	for _, k := range []string{"degenerate-key", "degenerate-commitment", "degenerate-key", "degenerate-commitment"} {
		// the side conditions of completeness: identity as aggregated key / commitment (model: FullVerify refuses)
		q := gen(r, k, 2)
		q.Signers, q.Threshold = []int{0, 1}, 1+len(cs)%2
		cs = append(cs, q)
	}
	for i := 0; i < 6; i++ { // order-dependent sequences on one object: each tamper mode, small and large masks
		q := gen(r, "seq-verified", []int{1, 3, 5, 8, 20, 64}[i])
		q.Aux = q.Aux - q.Aux%3 + i%3
		cs = append(cs, q)
	}
	for _, n := range []int{1, 2, 63, 64} {
		c := gen(r, "threshold", n)
		cs = append(cs, c)
	}
	// index exactly len(keys), and the last mask bit
	c := gen(r, "mask-index", 5)
	c.Signers = []int{0, 5}
	cs = append(cs, c)
	c = gen(r, "honest", 64)
	c.Signers = []int{63}
	c.Threshold = 1
	cs = append(cs, c)
	c = gen(r, "commit-range", 3)
	c.Signers = []int{64}
	cs = append(cs, c)
	c = gen(r, "commit-range", 3)
	c.Signers = []int{}
	cs = append(cs, c)
	for _, k := range kinds {
		cs = append(cs, gen(r, k, 4))
	}
	return cs
}

func main() {
	c := vh.Start("C13")
	c.Rep.Rule = "corpus (1/2/63/64 keys, index = len(keys), bit 63, index 64, empty commitments, one scenario per tamper kind), " +
		"then random scenarios from one SplitMix64 stream: key vector of 1..64 keys from NewKeyFromSeed, random mask (all / one / random subset, " +
		"shuffled map), random message and threshold, one tamper kind per scenario (bit flip / swap / other message / random / s+l / missing / " +
		"nil / extra share; mask index >= len(keys); mask bit without commitment; commitment index outside 0..63 or undecodable; signature S bit, " +
		"R garbage/other point; message bit; masked / unmasked key replaced; mask bit added / removed; threshold sweep -1..65; undecodable, nil, " +
		"identity key in the vector; sequence scenarios: every small-order / mixed-order / y>=p encoding first offered in all point-decoding positions of the package, then used as a masked key; order-dependent sequences on ONE CosiSignature object: verify a good share, then offer a bit-flipped / foreign-key / other-message share of the same signer to VerifyResponse, strict and non-strict aggregation and FullVerify, control on a fresh object). Every scenario runs Challenge, all Responses, VerifyResponse per signer, strict and non-strict " +
		"AggregateResponse, FullVerify. Non-trivial = the challenge could be computed (mask within the key vector); distinct by the whole scenario."
	var all []*cosih.MCase
	if c.Replay != "" {
		var cs Case
		c.ReplayCase(&cs)
		all = run(c, cs)
	} else {
		for _, cs := range corpus(c.Rng.Fork("corpus")) {
			all = append(all, run(c, cs)...)
		}
		n := c.Scale(150, 5000)
		for i := 0; i < n; i++ {
			kind := kinds[c.Rng.Intn(len(kinds))]
			all = append(all, run(c, gen(c.Rng, kind, sizeOf(c.Rng)))...)
		}
	}
	cosih.Emit(c, "C13", all)
	c.Finish()
}
