// Stateful sequences against the REAL Badger store and the full
// (*VersionedTransaction).Validate: custodian updates are written at various
// snapshot times (storage writeTransaction/writeUTXO -> writeCustodianNodes),
// interleaved with ReadCustodian calls and validations of new custodian
// updates at times before, inside and after the ranges already queried, and
// with re-opened store handles.
//
// Oracle (property text: "a valid approval from the current custodian"): the
// custodian in force at time t is the latest stored update with timestamp
// <= t, recomputed here from the list of writes alone; ReadCustodian must
// report it, and an accepted update must be approved by its key and priced
// against its node set.  Every validation is also a stateless model case whose
// previous state is that recomputed custodian.
package main

import (
	"bytes"
	"fmt"
	"math/big"
	"os"

	"github.com/MixinNetwork/mixin/common"
	"github.com/MixinNetwork/mixin/config"
	"github.com/MixinNetwork/mixin/crypto"
	"github.com/MixinNetwork/mixin/storage"
	"verifharness/vh"
)

type StoreStep struct {
	Do     string `json:"do"` // write | read | validate | reopen
	TS     uint64 `json:"ts,omitempty"`
	Extra  string `json:"extra,omitempty"`
	Amount string `json:"amount,omitempty"` // validate: units of 1e-8
	Key    string `json:"key,omitempty"`    // 64 bytes of seed for this step's one-time keys
	Note   string `json:"note,omitempty"`   // generator's intent, not used by the oracle
}

// no value-log GC goroutine, default compaction levels: only what openDB reads
func loadCustom() *config.Custom { return &config.Custom{} }

func seedKey(seed []byte, tag byte) crypto.Key {
	s := append([]byte{}, seed...)
	for len(s) < 64 {
		s = append(s, tag)
	}
	s[0] ^= tag
	return crypto.NewKeyFromSeed(s[:64])
}

type written struct {
	ts    uint64
	extra []byte
}

// inForce: the latest write with timestamp <= ts.
func inForce(ws []written, ts uint64) *written {
	var best *written
	for i := range ws {
		w := &ws[i]
		if w.ts <= ts && (best == nil || w.ts > best.ts) {
			best = w
		}
	}
	return best
}

func prevOf(w *written) *Prev {
	if w == nil {
		return &Prev{Mode: "none"}
	}
	p := &Prev{Mode: "some", CS: hx(w.extra[:32]), CV: hx(w.extra[32:64])}
	ents, _ := decode(w.extra)
	for _, e := range ents {
		p.Nodes = append(p.Nodes, PrevNode{hx(e.cs), hx(e.cv), hx(e.ps), hx(e.pv)})
	}
	return p
}

func runStore(c *vh.Ctx, cs Case) {
	base := ""
	if fi, e := os.Stat("/dev/shm"); e == nil && fi.IsDir() {
		base = "/dev/shm" // memory-backed: the store syncs every write
	}
	dir, err := os.MkdirTemp(base, "c34-store-")
	if err != nil {
		panic(err)
	}
	defer os.RemoveAll(dir)
	custom := loadCustom()
	store, err := storage.NewBadgerStore(custom, dir)
	if err != nil {
		panic(err)
	}
	defer func() { store.Close() }()

	var ws []written
	for idx, st := range cs.Store {
		switch st.Do {
		case "reopen":
			if err := store.Close(); err != nil {
				panic(err)
			}
			store, err = storage.NewBadgerStore(custom, dir)
			if err != nil {
				panic(err)
			}
			c.Count("store:reopen")
		case "write":
			extra := unhex(st.Extra)
			recv := seedKey(unhex(st.Key), 1).Public()
			mask := seedKey(unhex(st.Key), 2).Public()
			tx := common.NewTransactionV5(common.XINAssetId)
			tx.Inputs = []*common.Input{{Genesis: []byte(fmt.Sprintf("c34-update-%d-%d", idx, st.TS))}}
			tx.Outputs = []*common.Output{{Type: common.OutputTypeCustodianUpdateNodes, Amount: common.NewInteger(1),
				Keys: []*crypto.Key{&recv}, Script: common.NewThresholdScript(common.Operator64), Mask: mask}}
			tx.Extra = extra
			var werr error
			pan, pv := vh.Catch(func() { werr = store.VerifC34WriteOutputs(tx.AsVersioned(), st.TS, false) })
			c.Count("store:write")
			if pan || werr != nil {
				c.Fail("store-write-refused", fmt.Sprintf("a well-formed custodian update could not be stored at %d: %v %v", st.TS, pv, werr), cs)
				continue
			}
			ws = append(ws, written{st.TS, extra})
		case "read":
			var cur *common.CustodianUpdateRequest
			var rerr error
			pan, _ := vh.Catch(func() { cur, rerr = store.ReadCustodian(st.TS) })
			want := inForce(ws, st.TS)
			ok := !pan && rerr == nil
			if ok {
				if want == nil {
					ok = cur == nil
				} else {
					ents, _ := decode(want.extra)
					ok = cur != nil && cur.Timestamp == want.ts && sameEntries(cur, want.extra, ents)
				}
			}
			c.Case("store:read", fmt.Sprintf("%s|%d|%d", caseKey(cs), idx, st.TS), want != nil, cs, "")
			if !ok {
				c.Fail("store-custodian-not-latest", fmt.Sprintf("step %d: ReadCustodian(%d) does not return the latest stored update at or before that time", idx, st.TS), cs)
			}
		case "validate":
			extra := unhex(st.Extra)
			amt, _ := new(big.Int).SetString(st.Amount, 10)
			seed := unhex(st.Key)
			ghostPriv := seedKey(seed, 3)
			ghostPub := ghostPriv.Public()
			mask := seedKey(seed, 4).Public()
			recv := seedKey(seed, 5).Public()
			rmask := seedKey(seed, 6).Public()
			fund := common.NewTransactionV5(common.XINAssetId)
			fund.Inputs = []*common.Input{{Genesis: []byte(fmt.Sprintf("c34-fund-%d-%x", idx, seed[:8]))}}
			fund.Outputs = []*common.Output{{Type: common.OutputTypeScript, Amount: common.VerifIntegerFromBig(amt),
				Keys: []*crypto.Key{&ghostPub}, Script: common.NewThresholdScript(1), Mask: mask}}
			funded := fund.AsVersioned()
			if err := store.VerifC34WriteOutputs(funded, st.TS, false); err != nil {
				panic(err)
			}
			tx := common.NewTransactionV5(common.XINAssetId)
			tx.Inputs = []*common.Input{{Hash: funded.PayloadHash(), Index: 0}}
			tx.Outputs = []*common.Output{{Type: common.OutputTypeCustodianUpdateNodes, Amount: common.VerifIntegerFromBig(amt),
				Keys: []*crypto.Key{&recv}, Script: common.NewThresholdScript(common.Operator64), Mask: rmask}}
			tx.Extra = extra
			ver := tx.AsVersioned()
			isig := ghostPriv.Sign(ver.PayloadHash())
			ver.SignaturesMap = []map[uint16]*crypto.Signature{{0: &isig}}
			var verr error
			pan, _ := vh.Catch(func() { verr = ver.Validate(store, st.TS, false) })
			accepted := !pan && verr == nil

			want := inForce(ws, st.TS)
			prev := prevOf(want)
			obs := vh.Ok("tt")
			if pan {
				obs = vh.Pan("unit")
			} else if verr != nil {
				obs = vh.Err("unit")
			}
			out := "(" + vh.ZU(uint64(common.OutputTypeCustodianUpdateNodes)) + ", " + vh.Nat(1) + ", " +
				pk([]byte{common.OperatorCmp, common.OperatorSum, common.Operator64}) + ", " + vh.Z(amt) + ")"
			term := vh.App("CValidate", vh.ZU(uint64(common.TxVersionHashSignature)), vh.BytesAsN(common.XINAssetId[:]),
				vh.List([]string{out}, "(Z * nat * list N * Z)"), pk(extra), tblCoq(updateQueries(extra, prev)), prevCoq(prev), obs)
			c.Case("store:validate:"+st.Note, fmt.Sprintf("%s|%d", caseKey(cs), idx), want != nil, cs, term)
			c.Count(outcome("store-validate", pan, verr))
			if pan {
				c.Fail("store-validate-panic", fmt.Sprintf("step %d: Validate panicked", idx), cs)
			}
			if !accepted {
				continue
			}
			ents, shaped := decode(extra)
			if !shaped {
				c.Fail("accept-noncanonical", "extra that is not header + 353-byte entries + signature accepted", cs)
				continue
			}
			if want == nil {
				c.Fail("accept-no-custodian", fmt.Sprintf("step %d: update accepted at %d, before any custodian is in force", idx, st.TS), cs)
				continue
			}
			m := len(extra) - 64
			if !realVerify(want.extra[:32], extra[:m], extra[m:]) {
				c.Fail("accept-bad-approval", fmt.Sprintf("step %d: update accepted at %d although its approval does not verify under the custodian in force (stored at %d)", idx, st.TS, want.ts), cs)
			}
			if s, w := entriesRule(ents); s != "" {
				c.Fail(s, w, cs)
			}
			if p := priceOf(ents, prev); amt.Cmp(p) < 0 {
				c.Fail("accept-underpaid", fmt.Sprintf("step %d: amount %s below the price %s against the custodian in force", idx, amt, p), cs)
			}
		default:
			panic("bad store step " + st.Do)
		}
	}
}

// ---- generation -----------------------------------------------------------------------

type storeGen struct {
	g     *gen
	pool  []spec
	ents  map[int][]byte
	custs []common.Address // custs[k] = custodian installed by update k
	steps []StoreStep
	ws    []struct {
		ts uint64
		k  int
		ix []int
	}
	used map[uint64]bool
}

func (g *gen) newStoreGen() *storeGen {
	sg := &storeGen{g: g, ents: map[int][]byte{}, used: map[uint64]bool{}}
	for i := 0; i < 10; i++ {
		sg.pool = append(sg.pool, g.spec())
	}
	sortSpecs(sg.pool)
	return sg
}

func (sg *storeGen) pick() []int {
	// 7 of the 10 pool entries, in pool (= custodian key) order
	drop := map[int]bool{}
	for len(drop) < 3 {
		drop[sg.g.r.Intn(10)] = true
	}
	var ix []int
	for i := 0; i < 10; i++ {
		if !drop[i] {
			ix = append(ix, i)
		}
	}
	return ix
}

func (sg *storeGen) body(cust common.Address, ix []int) []byte {
	var es [][]byte
	for _, i := range ix {
		if sg.ents[i] == nil {
			sg.ents[i] = sg.g.entry(sg.pool[i])
		}
		es = append(es, sg.ents[i])
	}
	return assemble(cust, es)
}

func (sg *storeGen) freeTS(lo, hi uint64) (uint64, bool) {
	for try := 0; try < 40; try++ {
		if hi < lo {
			return 0, false
		}
		t := lo + uint64(sg.g.r.Intn(int(hi-lo)+1))
		if !sg.used[t] {
			sg.used[t] = true
			return t, true
		}
	}
	return 0, false
}

// at: index into sg.ws of the update in force at ts (by the generator's own bookkeeping), or -1
func (sg *storeGen) at(ts uint64) int {
	best := -1
	for i, w := range sg.ws {
		if w.ts <= ts && (best < 0 || w.ts > sg.ws[best].ts) {
			best = i
		}
	}
	return best
}

func (sg *storeGen) write(ts uint64) {
	k := len(sg.custs)
	cust := sg.g.addr()
	sg.custs = append(sg.custs, cust)
	ix := sg.pick()
	approver := cust.PrivateSpendKey // the first update approves itself, like the genesis one
	if b := sg.at(ts); b >= 0 {
		approver = sg.custs[sg.ws[b].k].PrivateSpendKey
	}
	extra := approve(sg.body(cust, ix), &approver)
	sg.steps = append(sg.steps, StoreStep{Do: "write", TS: ts, Extra: hx(extra), Key: hx(sg.g.r.Bytes(64))})
	sg.ws = append(sg.ws, struct {
		ts uint64
		k  int
		ix []int
	}{ts, k, ix})
	sg.used[ts] = true
}

func (sg *storeGen) read(ts uint64) {
	sg.steps = append(sg.steps, StoreStep{Do: "read", TS: ts})
}

// validate: who = "current" | "replaced" | "later" | "stranger"
func (sg *storeGen) validate(ts uint64, who string, underpay bool) {
	b := sg.at(ts)
	var approver crypto.Key
	note := who
	switch {
	case who == "current" && b >= 0:
		approver = sg.custs[sg.ws[b].k].PrivateSpendKey
	case who == "replaced" && b >= 0:
		// the custodian in force just before the current one (by time)
		p := -1
		for i, w := range sg.ws {
			if w.ts < sg.ws[b].ts && (p < 0 || w.ts > sg.ws[p].ts) {
				p = i
			}
		}
		if p < 0 {
			approver = sg.g.addr().PrivateSpendKey
			note = "stranger"
		} else {
			approver = sg.custs[sg.ws[p].k].PrivateSpendKey
		}
	case who == "later" && b >= 0:
		n := -1
		for i, w := range sg.ws {
			if w.ts > ts && (n < 0 || w.ts < sg.ws[n].ts) {
				n = i
			}
		}
		if n < 0 {
			approver = sg.g.addr().PrivateSpendKey
			note = "stranger"
		} else {
			approver = sg.custs[sg.ws[n].k].PrivateSpendKey
		}
	default:
		approver = sg.g.addr().PrivateSpendKey
		if b < 0 {
			note = "no-custodian"
		} else {
			note = "stranger"
		}
	}
	ix := sg.pick()
	extra := approve(sg.body(sg.g.addr(), ix), &approver)
	var prev *Prev
	if b >= 0 {
		p := &Prev{Mode: "some"}
		for _, i := range sg.ws[b].ix {
			p.Nodes = append(p.Nodes, prevNode(sg.pool[i].cust, sg.pool[i].payee))
		}
		prev = p
	}
	price := sg.g.priceFor(extra, prev)
	if price.Sign() == 0 || (prev == nil) {
		price = big.NewInt(100000000) // the output amount must be positive for Validate
	}
	if underpay && price.Cmp(big.NewInt(1)) > 0 {
		price = new(big.Int).Sub(price, big.NewInt(1))
		note += "-underpaid"
	}
	sg.steps = append(sg.steps, StoreStep{Do: "validate", TS: ts, Extra: hx(extra), Amount: price.String(),
		Key: hx(sg.g.r.Bytes(64)), Note: note})
}

func (sg *storeGen) done(kind string) Case {
	return Case{Op: "store", Kind: "store/" + kind, Store: sg.steps, Model: true}
}

// storeInside: the order of events of a live node: an update is stored, the
// custodian is asked for at a later (wall clock) time, a further update is
// finalized with a snapshot time inside the range already asked for, and
// updates are validated at times on both sides of it.
func (g *gen) storeInside(reopen bool, control bool) Case {
	sg := g.newStoreGen()
	t1 := uint64(100 + g.r.Intn(50)*10)
	gap := uint64(20 + g.r.Intn(30)*10)
	t3 := t1 + 2*gap
	t2 := t1 + gap
	if g.r.Chance(1, 4) {
		t2 = t3 // the boundary: written exactly at the queried time
	}
	sg.write(t1)
	if !control {
		sg.read(t3)
	}
	if g.r.Bool() && !control {
		sg.validate(t3, "current", false)
	}
	sg.write(t2)
	if reopen {
		sg.steps = append(sg.steps, StoreStep{Do: "reopen"})
	}
	tin := t2 + uint64(g.r.Intn(int(t3-t2)+1))
	sg.validate(tin, "replaced", false)
	sg.validate(tin, "current", false)
	sg.read(tin)
	sg.read(t3)
	if t2 > t1+1 {
		sg.validate(t2-1, "current", false)
		sg.validate(t2-1, "later", false)
	}
	sg.read(t1)
	sg.validate(t3+10, "current", g.r.Chance(1, 3))
	sg.read(t3 + 10)
	if t1 > 10 {
		sg.validate(t1-5, "stranger", false)
		sg.read(t1 - 5)
	}
	kind := "inside-queried-range"
	if control {
		kind = "inside-range-control-no-earlier-read"
	}
	if reopen {
		kind += "-reopened"
	}
	return sg.done(kind)
}

// storeRandom: random interleaving of writes (before / between / inside the
// last queried range / after), reads, validations and re-opened handles.
func (g *gen) storeRandom() Case {
	sg := g.newStoreGen()
	sg.write(uint64(500 + g.r.Intn(100)*10))
	lastRead := uint64(0)
	nops := g.r.Range(8, 14)
	nval := 0
	for i := 0; i < nops; i++ {
		lo, hi := sg.ws[0].ts, sg.ws[0].ts
		for _, w := range sg.ws {
			if w.ts < lo {
				lo = w.ts
			}
			if w.ts > hi {
				hi = w.ts
			}
		}
		anyT := func() uint64 {
			switch g.r.Intn(5) {
			case 0:
				if lo > 60 {
					return lo - uint64(1+g.r.Intn(50))
				}
				return lo
			case 1:
				return hi + uint64(1+g.r.Intn(400))
			case 2:
				return sg.ws[g.r.Intn(len(sg.ws))].ts // exactly at a stored time
			}
			return lo + uint64(g.r.Intn(int(hi-lo)+200))
		}
		switch x := g.r.Intn(10); {
		case x < 3 && len(sg.ws) < 5:
			var t uint64
			var ok bool
			b := sg.at(lastRead)
			switch g.r.Intn(4) {
			case 0, 1: // inside the range of the last read, if there is one
				if lastRead > 0 && b >= 0 && lastRead > sg.ws[b].ts {
					t, ok = sg.freeTS(sg.ws[b].ts+1, lastRead)
				}
			case 2: // before everything
				if lo > 20 {
					t, ok = sg.freeTS(lo-uint64(10+g.r.Intn(40)), lo-1)
				}
			}
			if !ok {
				t, ok = sg.freeTS(hi+1, hi+300)
			}
			if ok {
				sg.write(t)
			}
		case x < 6:
			lastRead = anyT()
			sg.read(lastRead)
		case x < 9:
			if nval < 5 {
				t := anyT()
				if g.r.Chance(1, 3) && lastRead > 0 {
					t = lastRead
				}
				who := []string{"current", "current", "replaced", "later", "stranger"}[g.r.Intn(5)]
				sg.validate(t, who, g.r.Chance(1, 6))
				lastRead = t
				nval++
			}
		default:
			sg.steps = append(sg.steps, StoreStep{Do: "reopen"})
		}
	}
	t := sg.ws[len(sg.ws)-1].ts
	sg.validate(t, "current", false)
	sg.read(t)
	return sg.done("random")
}

var _ = bytes.Equal
