// C34 harness: custodian updates are accepted only in canonical, fully signed
// form; encode/parse round-trip.
//
// Builds custodian node sets with REAL keys and signatures (the harness owns
// the private keys; entries come from common.EncodeCustodianNode), orders,
// duplicates and mutates them, runs the REAL parseCustodianNode /
// ParseCustodianUpdateNodesExtra / validateCustodianUpdateNodes under recover,
// records each observation as a Coq case (bytes, real signature verification
// results on slices of those bytes, previous custodian state, decision), and
// judges every acceptance with an oracle written from the property text and
// the layout comment "1 || custodian || payee || node id || signerSig ||
// payeeSig || custodianSig" - not from the model.
package main

import (
	"bytes"
	"crypto/sha256"
	"encoding/hex"
	"fmt"
	"math/big"
	"sort"
	"strings"

	"github.com/MixinNetwork/mixin/common"
	"github.com/MixinNetwork/mixin/crypto"
	"verifharness/vh"
)

// ---- case (self-contained, replayable) ------------------------------------------

type PrevNode struct {
	CS string `json:"cs"`
	CV string `json:"cv"`
	PS string `json:"ps"`
	PV string `json:"pv"`
}

type Prev struct {
	Mode  string     `json:"mode"` // err | none | some
	CS    string     `json:"cs,omitempty"`
	CV    string     `json:"cv,omitempty"`
	Nodes []PrevNode `json:"nodes,omitempty"`
}

type Out struct {
	Type   uint8  `json:"type"`
	NKeys  int    `json:"nkeys"`
	Script string `json:"script"`
	Amount string `json:"amount"` // units of 1e-8
}

type Case struct {
	Op      string      `json:"op"` // node | parse | validate
	Kind    string      `json:"kind"`
	Extra   string      `json:"extra"`
	Genesis bool        `json:"genesis,omitempty"`
	Version uint8       `json:"version,omitempty"`
	Asset   string      `json:"asset,omitempty"`
	Outs    []Out       `json:"outs,omitempty"`
	Prev    *Prev       `json:"prev,omitempty"`
	Model   bool        `json:"model"`
	Seq     []Case      `json:"seq,omitempty"`   // op "seq": steps run in order in one process
	Store   []StoreStep `json:"store,omitempty"` // op "store": steps against one real Badger store
}

const (
	entrySize = 353 // from the layout comment: 1 + 4*32 + 32 + 3*64
	msgLen    = 161
	offCS     = 1
	offCV     = 33
	offPS     = 65
	offPV     = 97
	offSigner = 161
	offPSig   = 225
	offCSig   = 289
)

// pk prints a byte string packed seven bytes per uint63 word, least
// significant byte first: (U len [w0;w1;...]%uint63), see coq/Run/C34.v.
func pk(b []byte) string {
	if len(b) == 0 {
		return "(@nil N)"
	}
	var sb strings.Builder
	fmt.Fprintf(&sb, "(U %d%%N [", len(b))
	for i := 0; i < len(b); i += 7 {
		var w uint64
		for k := 0; k < 7 && i+k < len(b); k++ {
			w |= uint64(b[i+k]) << (8 * uint(k))
		}
		if i > 0 {
			sb.WriteString(";")
		}
		fmt.Fprintf(&sb, "%d", w)
	}
	sb.WriteString("]%uint63)")
	return sb.String()
}

func unhex(s string) []byte {
	b, err := hex.DecodeString(s)
	if err != nil {
		panic(err)
	}
	return b
}

func key32(b []byte) (k crypto.Key) {
	copy(k[:], b)
	return
}

func realVerify(key, msg, sig []byte) bool {
	if len(key) != 32 || len(sig) != 64 {
		return false
	}
	k := key32(key)
	var s crypto.Signature
	copy(s[:], sig)
	return k.Verify(crypto.Blake3Hash(msg), s)
}

// ---- the verification table sent to the model ------------------------------------

type vq struct {
	key              []byte
	moff, mlen, soff int
	ok               bool
}

func (q vq) coq() string {
	return vh.App("VQ", pk(q.key), vh.NU(uint64(q.moff)), vh.NU(uint64(q.mlen)), vh.NU(uint64(q.soff)), vh.Bool(q.ok))
}

func tblCoq(t []vq) string {
	el := make([]string, len(t))
	for i, q := range t {
		el[i] = q.coq()
	}
	return vh.List(el, "vq")
}

func query(extra, key []byte, moff, mlen, soff int) vq {
	return vq{key, moff, mlen, soff, realVerify(key, extra[moff:moff+mlen], extra[soff:soff+64])}
}

// entryQueries: real verifications on the entry starting at base: the right
// pairings and the swapped ones.
func entryQueries(extra []byte, base int) []vq {
	cs := extra[base+offCS : base+offCS+32]
	ps := extra[base+offPS : base+offPS+32]
	return []vq{
		query(extra, ps, base, msgLen, base+offPSig),
		query(extra, cs, base, msgLen, base+offCSig),
		query(extra, ps, base, msgLen, base+offCSig),
		query(extra, cs, base, msgLen, base+offPSig),
	}
}

func updateQueries(extra []byte, prev *Prev) []vq {
	var t []vq
	if len(extra) < 128 {
		return t
	}
	n := (len(extra) - 128) / entrySize
	for i := 0; i < n; i++ {
		t = append(t, entryQueries(extra, 64+i*entrySize)...)
	}
	m := len(extra) - 64
	t = append(t, query(extra, extra[:32], 0, m, m))
	if prev != nil && prev.Mode == "some" {
		t = append(t, query(extra, unhex(prev.CS), 0, m, m))
	}
	return t
}

// ---- oracle: decode by the documented layout, judge by the property text ---------

type entry struct {
	cs, cv, ps, pv []byte
	raw            []byte
}

func decode(extra []byte) (ents []entry, ok bool) {
	if len(extra) < 128 || (len(extra)-128)%entrySize != 0 {
		return nil, false
	}
	n := (len(extra) - 128) / entrySize
	for i := 0; i < n; i++ {
		r := extra[64+i*entrySize : 64+(i+1)*entrySize]
		ents = append(ents, entry{r[offCS : offCS+32], r[offCV : offCV+32], r[offPS : offPS+32], r[offPV : offPV+32], r})
	}
	return ents, true
}

// entriesRule: the clauses of the property about the entries of an accepted
// update.  Returns the violated clause ("" if none).
func entriesRule(ents []entry) (sig, what string) {
	seen := map[string]bool{}
	for i, e := range ents {
		if i > 0 && bytes.Compare(ents[i-1].cs, e.cs) >= 0 {
			if bytes.Equal(ents[i-1].cs, e.cs) {
				return "accept-duplicate-key", fmt.Sprintf("entries %d and %d share the custodian key", i-1, i)
			}
			return "accept-unsorted", fmt.Sprintf("entry %d is not above entry %d in custodian key order", i, i-1)
		}
		if seen[string(e.cs)] || seen[string(e.ps)] || bytes.Equal(e.cs, e.ps) {
			return "accept-duplicate-key", fmt.Sprintf("entry %d reuses a custodian or payee key", i)
		}
		seen[string(e.cs)] = true
		seen[string(e.ps)] = true
		if !realVerify(e.ps, e.raw[:msgLen], e.raw[offPSig:offPSig+64]) {
			return "accept-bad-payee-signature", fmt.Sprintf("entry %d payee signature does not verify", i)
		}
		if !realVerify(e.cs, e.raw[:msgLen], e.raw[offCSig:offCSig+64]) {
			return "accept-bad-custodian-signature", fmt.Sprintf("entry %d custodian signature does not verify", i)
		}
	}
	return "", ""
}

// keyReuse: "use unique keys", read over every key field of the update.  A
// custodian or payee spend key that equals ANY other key field of the update
// (spend or view key, custodian or payee, same or another entry) is a reused
// key.  Reuse of a spend key, or of a view key of an EARLIER entry, is what the
// implementation's own filter is written to refuse; a spend key equal to a view
// key of its own or a LATER entry has its own signature (recorded finding).
const sigLaterView = "accept-spend-key-equals-later-view-key"

func keyReuse(ents []entry) (sig, what string) {
	names := []string{"payee spend", "payee view", "custodian spend", "custodian view"}
	fields := func(e entry) [][]byte { return [][]byte{e.ps, e.pv, e.cs, e.cv} }
	for i, e := range ents {
		for _, a := range []int{0, 2} {
			for j, f := range ents {
				for b, v := range fields(f) {
					if (i == j && a == b) || !bytes.Equal(fields(e)[a], v) {
						continue
					}
					w := fmt.Sprintf("entry %d %s key = entry %d %s key", i, names[a], j, names[b])
					if b == 0 || b == 2 || j < i {
						return "accept-duplicate-key", w
					}
					sig, what = sigLaterView, w
				}
			}
		}
	}
	return sig, what
}

// price by the property text: 100 per new entry, 1 per changed entry, against
// the previous state (entries identified by the custodian address).
func priceOf(ents []entry, prev *Prev) *big.Int {
	old := map[string]string{}
	if prev != nil {
		for _, n := range prev.Nodes {
			old[n.CS+n.CV] = n.PS + n.PV
		}
	}
	units := int64(0)
	for _, e := range ents {
		p, found := old[hex.EncodeToString(e.cs)+hex.EncodeToString(e.cv)]
		if !found {
			units += 100
		} else if p != hex.EncodeToString(e.ps)+hex.EncodeToString(e.pv) {
			units += 1
		}
	}
	return new(big.Int).Mul(big.NewInt(units), big.NewInt(100000000))
}

// sameEntries: the parsed request carries exactly the decoded entries.
func sameEntries(req *common.CustodianUpdateRequest, extra []byte, ents []entry) bool {
	if req == nil || req.Custodian == nil || req.Signature == nil || len(req.Nodes) != len(ents) {
		return false
	}
	if !bytes.Equal(req.Custodian.PublicSpendKey[:], extra[:32]) || !bytes.Equal(req.Custodian.PublicViewKey[:], extra[32:64]) {
		return false
	}
	if !bytes.Equal(req.Signature[:], extra[len(extra)-64:]) {
		return false
	}
	for i, n := range req.Nodes {
		e := ents[i]
		if n == nil || !bytes.Equal(n.Extra, e.raw) ||
			!bytes.Equal(n.Custodian.PublicSpendKey[:], e.cs) || !bytes.Equal(n.Custodian.PublicViewKey[:], e.cv) ||
			!bytes.Equal(n.Payee.PublicSpendKey[:], e.ps) || !bytes.Equal(n.Payee.PublicViewKey[:], e.pv) {
			return false
		}
	}
	return true
}

func reencode(req *common.CustodianUpdateRequest) []byte {
	var b []byte
	b = append(b, req.Custodian.PublicSpendKey[:]...)
	b = append(b, req.Custodian.PublicViewKey[:]...)
	for _, n := range req.Nodes {
		b = append(b, n.Extra...)
	}
	return append(b, req.Signature[:]...)
}

// wellFormed: a fully signed, strictly sorted update of at least 7 entries with
// pairwise distinct keys (all 4n of them): the encode side of the round trip.
func wellFormed(extra []byte) bool {
	ents, ok := decode(extra)
	if !ok || len(ents) < 7 {
		return false
	}
	all := map[string]bool{}
	for _, e := range ents {
		if e.raw[0] != 1 {
			return false
		}
		for _, k := range [][]byte{e.cs, e.cv, e.ps, e.pv} {
			if all[string(k)] {
				return false
			}
			all[string(k)] = true
		}
	}
	s, _ := entriesRule(ents)
	return s == ""
}

// ---- fake store -------------------------------------------------------------------

type fakeStore struct{ prev *Prev }

func (s fakeStore) ReadCustodian(_ uint64) (*common.CustodianUpdateRequest, error) {
	switch s.prev.Mode {
	case "err":
		return nil, fmt.Errorf("store failure")
	case "none":
		return nil, nil
	}
	cur := &common.CustodianUpdateRequest{Custodian: &common.Address{
		PublicSpendKey: key32(unhex(s.prev.CS)), PublicViewKey: key32(unhex(s.prev.CV))}}
	for _, n := range s.prev.Nodes {
		cur.Nodes = append(cur.Nodes, &common.CustodianNode{
			Custodian: common.Address{PublicSpendKey: key32(unhex(n.CS)), PublicViewKey: key32(unhex(n.CV))},
			Payee:     common.Address{PublicSpendKey: key32(unhex(n.PS)), PublicViewKey: key32(unhex(n.PV))},
		})
	}
	return cur, nil
}

func prevCoq(p *Prev) string {
	switch p.Mode {
	case "err":
		return "SErr"
	case "none":
		return "SNone"
	}
	el := make([]string, len(p.Nodes))
	for i, n := range p.Nodes {
		el[i] = "(" + pk(unhex(n.CS)) + ", " + pk(unhex(n.CV)) + ", " + pk(unhex(n.PS)) + ", " + pk(unhex(n.PV)) + ")"
	}
	return vh.App("SSome", pk(unhex(p.CS)), pk(unhex(p.CV)), vh.List(el, "(list N * list N * list N * list N)"))
}

// ---- run one case on the real code ------------------------------------------------

func caseKey(cs Case) string {
	h := sha256.New()
	fmt.Fprintf(h, "%s|%v|%d|%s|%s|", cs.Op, cs.Genesis, cs.Version, cs.Asset, cs.Extra)
	for _, o := range cs.Outs {
		fmt.Fprintf(h, "%d,%d,%s,%s;", o.Type, o.NKeys, o.Script, o.Amount)
	}
	for _, st := range cs.Store {
		fmt.Fprintf(h, "%s,%d,%s,%s,%s;", st.Do, st.TS, st.Extra, st.Amount, st.Key)
	}
	if cs.Prev != nil {
		fmt.Fprintf(h, "%s|%s|%s|", cs.Prev.Mode, cs.Prev.CS, cs.Prev.CV)
		for _, n := range cs.Prev.Nodes {
			fmt.Fprintf(h, "%s%s%s%s;", n.CS, n.CV, n.PS, n.PV)
		}
	}
	return hex.EncodeToString(h.Sum(nil)[:16])
}

func nodeProj(n *common.CustodianNode) []byte {
	var b []byte
	b = append(b, n.Custodian.PublicSpendKey[:]...)
	b = append(b, n.Custodian.PublicViewKey[:]...)
	b = append(b, n.Payee.PublicSpendKey[:]...)
	b = append(b, n.Payee.PublicViewKey[:]...)
	return append(b, n.Extra...)
}

func resBytes(pan bool, err error, v func() []byte) string {
	if pan {
		return vh.Pan("(list N)")
	}
	if err != nil {
		return vh.Err("(list N)")
	}
	return vh.Ok(pk(v()))
}

func outcome(op string, pan bool, err error) string {
	switch {
	case pan:
		return "outcome/" + op + "/panic"
	case err != nil:
		return "outcome/" + op + "/reject"
	}
	return "outcome/" + op + "/accept"
}

// run executes one case; a sequence (op "seq") is executed step by step in
// this one process, so that whatever the implementation remembers from an
// earlier step is still there for the later ones.  Every observation of a
// sequence is reported with the WHOLE sequence, which is what a replay needs.
func run(c *vh.Ctx, cs Case) {
	if cs.Op == "store" {
		runStore(c, cs)
		return
	}
	if cs.Op == "seq" {
		for _, st := range cs.Seq {
			runStep(c, st, cs)
		}
		return
	}
	runStep(c, cs, cs)
}

func runStep(c *vh.Ctx, cs Case, rep Case) {
	extra := unhex(cs.Extra)
	term := ""
	switch cs.Op {
	case "node":
		var cn *common.CustodianNode
		var err error
		pan, _ := vh.Catch(func() { cn, err = common.VerifC34ParseCustodianNode(extra, cs.Genesis) })
		accepted := !pan && err == nil
		if cs.Model {
			var t []vq
			if len(extra) >= entrySize {
				t = entryQueries(extra, 0)
			}
			term = vh.App("CNode", pk(extra), vh.Bool(cs.Genesis), tblCoq(t),
				resBytes(pan, err, func() []byte { return nodeProj(cn) }))
		}
		c.Case("node:"+cs.Kind, caseKey(cs), len(extra) == entrySize, rep, term)
		c.Count(outcome("node", pan, err))
		if pan {
			c.Fail("node-panic", "parseCustodianNode panicked", rep)
		}
		if accepted {
			if len(extra) != entrySize || extra[0] != 1 {
				c.Fail("accept-noncanonical", "entry of wrong size or action accepted", rep)
				return
			}
			e := entry{extra[offCS : offCS+32], extra[offCV : offCV+32], extra[offPS : offPS+32], extra[offPV : offPV+32], extra}
			if !bytes.Equal(nodeProj(cn), bytes.Join([][]byte{e.cs, e.cv, e.ps, e.pv, e.raw}, nil)) {
				c.Fail("roundtrip-mismatch", "parsed entry differs from the encoded fields", rep)
			}
			if !cs.Genesis {
				if s, w := entriesRule([]entry{e}); s != "" {
					c.Fail(s, "single entry accepted: "+w, rep)
				}
			}
		}
	case "parse":
		var req *common.CustodianUpdateRequest
		var err error
		pan, _ := vh.Catch(func() { req, err = common.ParseCustodianUpdateNodesExtra(extra, cs.Genesis) })
		accepted := !pan && err == nil
		if cs.Model {
			term = vh.App("CParse", pk(extra), vh.Bool(cs.Genesis), tblCoq(updateQueries(extra, nil)),
				resBytes(pan, err, func() []byte {
					var b []byte
					b = append(b, req.Custodian.PublicSpendKey[:]...)
					b = append(b, req.Custodian.PublicViewKey[:]...)
					for _, n := range req.Nodes {
						b = append(b, nodeProj(n)...)
					}
					return append(b, req.Signature[:]...)
				}))
		}
		ents, shaped := decode(extra)
		c.Case("parse:"+cs.Kind, caseKey(cs), shaped && len(ents) >= 7, rep, term)
		c.Count(outcome("parse", pan, err))
		if pan {
			c.Fail("parse-panic", "ParseCustodianUpdateNodesExtra panicked", rep)
		}
		judgeParse(c, cs, rep, extra, req, accepted)
	case "validate":
		tx := &common.Transaction{Version: cs.Version, Asset: crypto.Hash(key32(unhex(cs.Asset))), Extra: extra}
		outs := make([]string, len(cs.Outs))
		for i, o := range cs.Outs {
			amt, _ := new(big.Int).SetString(o.Amount, 10)
			out := &common.Output{Type: o.Type, Amount: common.VerifIntegerFromBig(amt), Script: common.Script(unhex(o.Script))}
			for k := 0; k < o.NKeys; k++ {
				kk := key32(bytes.Repeat([]byte{byte(k + 1)}, 32))
				out.Keys = append(out.Keys, &kk)
			}
			tx.Outputs = append(tx.Outputs, out)
			outs[i] = "(" + vh.ZU(uint64(o.Type)) + ", " + vh.Nat(o.NKeys) + ", " + pk(unhex(o.Script)) + ", " + vh.Z(amt) + ")"
		}
		var err error
		pan, _ := vh.Catch(func() { err = common.VerifC34ValidateCustodianUpdateNodes(tx, fakeStore{cs.Prev}, 1700000000000000000) })
		accepted := !pan && err == nil
		if cs.Model {
			obs := vh.Ok("tt")
			if pan {
				obs = vh.Pan("unit")
			} else if err != nil {
				obs = vh.Err("unit")
			}
			term = vh.App("CValidate", vh.ZU(uint64(cs.Version)), vh.BytesAsN(unhex(cs.Asset)),
				vh.List(outs, "(Z * nat * list N * Z)"), pk(extra), tblCoq(updateQueries(extra, cs.Prev)), prevCoq(cs.Prev), obs)
		}
		// non-trivial: the real parser accepts the extra, i.e. validation reached the approval/price core
		var req *common.CustodianUpdateRequest
		var perr error
		ppan, _ := vh.Catch(func() { req, perr = common.ParseCustodianUpdateNodesExtra(extra, false) })
		c.Case("validate:"+cs.Kind, caseKey(cs), !ppan && perr == nil && len(cs.Outs) == 1, rep, term)
		c.Count(outcome("validate", pan, err))
		if !accepted {
			return
		}
		judgeParse(c, cs, rep, extra, req, !ppan && perr == nil)
		ents, shaped := decode(extra)
		if !shaped {
			return
		}
		if cs.Prev == nil || cs.Prev.Mode != "some" {
			c.Fail("accept-no-custodian", "update accepted without a current custodian", rep)
			return
		}
		m := len(extra) - 64
		if !realVerify(unhex(cs.Prev.CS), extra[:m], extra[m:]) {
			c.Fail("accept-bad-approval", "approval signature does not verify under the current custodian key", rep)
		}
		if len(cs.Outs) >= 1 {
			amt, _ := new(big.Int).SetString(cs.Outs[0].Amount, 10)
			if p := priceOf(ents, cs.Prev); amt.Cmp(p) < 0 {
				c.Fail("accept-underpaid", fmt.Sprintf("amount %s units below the price %s units of the new and changed entries", amt, p), rep)
			}
		}
	default:
		panic("bad op " + cs.Op)
	}
}

// judgeParse: clauses about the entry list, and the encode/parse round trip.
func judgeParse(c *vh.Ctx, cs Case, rep Case, extra []byte, req *common.CustodianUpdateRequest, accepted bool) {
	if !accepted {
		if !cs.Genesis && wellFormed(extra) {
			c.Fail("roundtrip-reject", "a well-formed encoded update was not parsed back", rep)
		}
		return
	}
	ents, shaped := decode(extra)
	if !shaped {
		c.Fail("accept-noncanonical", "extra that is not header + 353-byte entries + signature accepted", rep)
		return
	}
	if len(ents) < 7 {
		c.Fail("accept-too-few", fmt.Sprintf("%d entries accepted", len(ents)), rep)
	}
	for _, e := range ents {
		if e.raw[0] != 1 {
			c.Fail("accept-noncanonical", "entry with a foreign action byte accepted", rep)
		}
	}
	if !sameEntries(req, extra, ents) {
		c.Fail("roundtrip-mismatch", "parsed entries differ from the encoded entries", rep)
	} else if !bytes.Equal(reencode(req), extra) {
		c.Fail("roundtrip-mismatch", "re-encoding the parsed update does not give the input back", rep)
	}
	if cs.Genesis {
		// genesis mode waives only the per-entry checks of CustodianNode.validate
		for i := 1; i < len(ents); i++ {
			if bytes.Compare(ents[i-1].cs, ents[i].cs) >= 0 {
				c.Fail("accept-unsorted", "genesis update with unsorted or duplicate custodian keys accepted", rep)
			}
		}
		return
	}
	if s, w := entriesRule(ents); s != "" {
		c.Fail(s, w, rep)
	} else if s, w := keyReuse(ents); s != "" {
		c.Fail(s, "a key is used twice: "+w, rep)
	}
}

// ---- generation ---------------------------------------------------------------------

type spec struct{ cust, payee, signer common.Address }

type gen struct {
	c        *vh.Ctx
	r        *vh.Rand
	net      crypto.Hash
	bigLeft  int // how many large (n > 12) cases may still go to the model
	storageS string
}

func (g *gen) addr() common.Address { return common.NewAddressFromSeed(g.r.Bytes(64)) }

func (g *gen) spec() spec { return spec{g.addr(), g.addr(), g.addr()} }

func (g *gen) entry(s spec) []byte {
	return common.EncodeCustodianNode(&s.cust, &s.payee, &s.signer.PrivateSpendKey, &s.payee.PrivateSpendKey, &s.cust.PrivateSpendKey, g.net)
}

func (g *gen) pickN() int {
	switch x := g.r.Intn(100); {
	case x < 70:
		return 7
	case x < 90:
		return g.r.Range(8, 12)
	case x < 97:
		return g.r.Range(13, 49)
	}
	return 50
}

func sortSpecs(ss []spec) {
	sort.Slice(ss, func(i, j int) bool {
		return bytes.Compare(ss[i].cust.PublicSpendKey[:], ss[j].cust.PublicSpendKey[:]) < 0
	})
}

func assemble(newCust common.Address, entries [][]byte) []byte {
	var b []byte
	b = append(b, newCust.PublicSpendKey[:]...)
	b = append(b, newCust.PublicViewKey[:]...)
	for _, e := range entries {
		b = append(b, e...)
	}
	return b
}

func approve(body []byte, priv *crypto.Key) []byte {
	sig := priv.Sign(crypto.Blake3Hash(body))
	return append(append([]byte{}, body...), sig[:]...)
}

func hx(b []byte) string { return hex.EncodeToString(b) }

func prevNode(cust, payee common.Address) PrevNode {
	return PrevNode{hx(cust.PublicSpendKey[:]), hx(cust.PublicViewKey[:]), hx(payee.PublicSpendKey[:]), hx(payee.PublicViewKey[:])}
}

// scenario: a valid update over [specs] together with a previous state.
type scenario struct {
	specs    []spec
	newCust  common.Address
	prevCust common.Address
	prev     *Prev
}

func (g *gen) scenario(n int, prevKind string) *scenario {
	s := &scenario{}
	for i := 0; i < n; i++ {
		s.specs = append(s.specs, g.spec())
	}
	sortSpecs(s.specs)
	s.prevCust = g.addr()
	s.newCust = g.addr()
	p := &Prev{Mode: "some", CS: hx(s.prevCust.PublicSpendKey[:]), CV: hx(s.prevCust.PublicViewKey[:])}
	switch prevKind {
	case "allnew":
	case "same", "same-custodian":
		for _, sp := range s.specs {
			p.Nodes = append(p.Nodes, prevNode(sp.cust, sp.payee))
		}
		if prevKind == "same-custodian" {
			s.newCust = s.prevCust
		}
	case "overlap", "overlap-custodian":
		for _, sp := range s.specs {
			switch g.r.Intn(6) {
			case 0: // not there before: new
			case 1: // payee spend key differs: changed
				p.Nodes = append(p.Nodes, prevNode(sp.cust, g.addr()))
			case 2: // payee view key differs only: changed
				q := sp.payee
				q.PublicViewKey = g.addr().PublicViewKey
				p.Nodes = append(p.Nodes, prevNode(sp.cust, q))
			case 3: // custodian view key differs only: a different custodian address
				q := sp.cust
				q.PublicViewKey = g.addr().PublicViewKey
				p.Nodes = append(p.Nodes, prevNode(q, sp.payee))
			default: // unchanged
				p.Nodes = append(p.Nodes, prevNode(sp.cust, sp.payee))
			}
		}
		for k := g.r.Intn(3); k > 0; k-- { // entries that go away
			p.Nodes = append(p.Nodes, prevNode(g.addr(), g.addr()))
		}
		g.shufflePrev(p)
		if prevKind == "overlap-custodian" {
			s.newCust = s.prevCust
		}
	case "payees-custodian": // same custodian set, some payees changed, custodian unchanged
		for _, sp := range s.specs {
			if g.r.Chance(1, 3) {
				p.Nodes = append(p.Nodes, prevNode(sp.cust, g.addr()))
			} else {
				p.Nodes = append(p.Nodes, prevNode(sp.cust, sp.payee))
			}
		}
		g.shufflePrev(p)
		s.newCust = s.prevCust
	default:
		panic(prevKind)
	}
	s.prev = p
	return s
}

func (g *gen) shufflePrev(p *Prev) {
	for i := len(p.Nodes) - 1; i > 0; i-- {
		j := g.r.Intn(i + 1)
		p.Nodes[i], p.Nodes[j] = p.Nodes[j], p.Nodes[i]
	}
}

func (g *gen) entries(ss []spec) [][]byte {
	es := make([][]byte, len(ss))
	for i, sp := range ss {
		es[i] = g.entry(sp)
	}
	return es
}

func (g *gen) goodOuts(amount *big.Int) []Out {
	return []Out{{Type: common.OutputTypeCustodianUpdateNodes, NKeys: 1, Script: g.storageS, Amount: amount.String()}}
}

func (g *gen) amountAround(price *big.Int) *big.Int {
	one := big.NewInt(1)
	switch g.r.Intn(8) {
	case 0, 1:
		if price.Sign() > 0 {
			return new(big.Int).Sub(price, one)
		}
		return new(big.Int)
	case 2, 3, 4:
		return new(big.Int).Set(price)
	case 5:
		return new(big.Int).Add(price, one)
	case 6:
		return new(big.Int)
	}
	return new(big.Int).Add(price, g.r.Big(40))
}

func (g *gen) mk(op, kind string, extra []byte, n int) Case {
	model := n <= 12
	if !model && g.bigLeft > 0 {
		g.bigLeft--
		model = true
	}
	return Case{Op: op, Kind: kind, Extra: hx(extra), Model: model}
}

func (g *gen) validateCase(kind string, extra []byte, prev *Prev, amount *big.Int, n int) Case {
	cs := g.mk("validate", kind, extra, n)
	cs.Version = common.TxVersionHashSignature
	cs.Asset = hx(common.XINAssetId[:])
	cs.Outs = g.goodOuts(amount)
	cs.Prev = prev
	return cs
}

func (g *gen) priceFor(extra []byte, prev *Prev) *big.Int {
	ents, ok := decode(extra)
	if !ok {
		return new(big.Int)
	}
	return priceOf(ents, prev)
}

var prevKinds = []string{"allnew", "same", "same-custodian", "overlap", "overlap", "overlap-custodian", "payees-custodian"}

// validFamily: structurally valid updates; previous state and amount vary.
func (g *gen) validFamily() Case {
	pk := prevKinds[g.r.Intn(len(prevKinds))]
	n := g.pickN()
	s := g.scenario(n, pk)
	extra := approve(assemble(s.newCust, g.entries(s.specs)), &s.prevCust.PrivateSpendKey)
	return g.validateCase("valid/"+pk, extra, s.prev, g.amountAround(g.priceFor(extra, s.prev)), n)
}

var mutations = []string{
	"shuffle", "swap-adjacent", "reverse", "dup-entry", "dup-custodian", "dup-payee", "payee-is-custodian",
	"spend-is-other-view", "byte", "byte", "byte-resigned", "byte-resigned", "byte-signature", "byte-signature",
	"byte-approval", "sigs-swapped", "payee-sig-by-other", "custodian-sig-by-other", "approval-by-new-custodian",
	"approval-by-other", "approval-over-nodes-only", "count-6", "truncated", "extra-byte", "action", "shape-version",
	"shape-asset", "shape-outputs", "shape-type", "shape-keys", "shape-script", "prev-none", "prev-err", "prev-duplicate",
	"underpaid-changed", "underpaid-new",
}

func (g *gen) mutated(m string) Case {
	n := g.pickN()
	if n > 12 && g.r.Chance(2, 3) {
		n = 7
	}
	pk := prevKinds[g.r.Intn(len(prevKinds))]
	if m == "underpaid-changed" {
		pk = "payees-custodian"
	}
	if m == "underpaid-new" {
		pk = "overlap"
	}
	s := g.scenario(n, pk)
	specs := s.specs
	es := g.entries(specs)
	approver := &s.prevCust.PrivateSpendKey
	var post func(b []byte) []byte  // on the assembled body before approval
	var final func(b []byte) []byte // on the complete extra
	i := g.r.Intn(n)
	j := (i + 1 + g.r.Intn(n-1)) % n
	switch m {
	case "shuffle":
		for a := n - 1; a > 0; a-- {
			b := g.r.Intn(a + 1)
			es[a], es[b] = es[b], es[a]
		}
	case "swap-adjacent":
		k := g.r.Intn(n - 1)
		es[k], es[k+1] = es[k+1], es[k]
	case "reverse":
		for a, b := 0, n-1; a < b; a, b = a+1, b-1 {
			es[a], es[b] = es[b], es[a]
		}
	case "dup-entry":
		es = append(es[:i+1], append([][]byte{es[i]}, es[i+1:]...)...)
	case "dup-custodian": // same custodian key, another payee, both fully signed, adjacent
		d := specs[i]
		d.payee, d.signer = g.addr(), g.addr()
		de := g.entry(d)
		if g.r.Bool() {
			es = append(es[:i+1], append([][]byte{de}, es[i+1:]...)...)
		} else {
			es = append(es[:i], append([][]byte{de}, es[i:]...)...)
		}
	case "dup-payee":
		specs[j].payee = specs[i].payee
		es[j] = g.entry(specs[j])
	case "payee-is-custodian":
		specs[i].payee = specs[i].cust
		es[i] = g.entry(specs[i])
	case "spend-is-other-view": // a custodian spend key that is another entry's view key
		d := specs[i]
		o := specs[j].cust
		d.cust = common.Address{PrivateSpendKey: o.PrivateViewKey, PublicSpendKey: o.PublicViewKey,
			PrivateViewKey: g.addr().PrivateViewKey}
		d.cust.PublicViewKey = d.cust.PrivateViewKey.Public()
		specs[i] = d
		sortSpecs(specs)
		es = g.entries(specs)
	case "byte": // signed first, then damaged anywhere (header, entries or approval)
		final = func(b []byte) []byte {
			b[g.r.Intn(len(b))] ^= byte(1 + g.r.Intn(255))
			return b
		}
	case "byte-resigned": // damaged, then approved by the current custodian
		post = func(b []byte) []byte {
			b[g.r.Intn(len(b))] ^= byte(1 + g.r.Intn(255))
			return b
		}
	case "byte-signature":
		off := []int{offSigner, offPSig, offCSig}[g.r.Intn(3)]
		resign := g.r.Bool()
		f := func(b []byte) []byte {
			b[64+i*entrySize+off+g.r.Intn(64)] ^= byte(1 << g.r.Intn(8))
			return b
		}
		if resign {
			post = f
		} else {
			final = f
		}
	case "byte-approval":
		final = func(b []byte) []byte {
			b[len(b)-64+g.r.Intn(64)] ^= byte(1 << g.r.Intn(8))
			return b
		}
	case "sigs-swapped":
		e := append([]byte{}, es[i]...)
		copy(e[offPSig:], es[i][offCSig:offCSig+64])
		copy(e[offCSig:], es[i][offPSig:offPSig+64])
		es[i] = e
	case "payee-sig-by-other":
		d := specs[i]
		es[i] = common.EncodeCustodianNode(&d.cust, &d.payee, &d.signer.PrivateSpendKey, &d.signer.PrivateSpendKey, &d.cust.PrivateSpendKey, g.net)
	case "custodian-sig-by-other":
		d := specs[i]
		es[i] = common.EncodeCustodianNode(&d.cust, &d.payee, &d.signer.PrivateSpendKey, &d.payee.PrivateSpendKey, &d.payee.PrivateSpendKey, g.net)
	case "approval-by-new-custodian":
		if s.newCust.PublicSpendKey == s.prevCust.PublicSpendKey {
			s.newCust = g.addr()
		}
		approver = &s.newCust.PrivateSpendKey
	case "approval-by-other":
		approver = &specs[i].cust.PrivateSpendKey
	case "approval-over-nodes-only":
		final = func(b []byte) []byte {
			sig := s.prevCust.PrivateSpendKey.Sign(crypto.Blake3Hash(b[64 : len(b)-64]))
			copy(b[len(b)-64:], sig[:])
			return b
		}
	case "count-6":
		es = es[:6]
	case "truncated":
		final = func(b []byte) []byte { return b[:len(b)-1-g.r.Intn(70)] }
	case "extra-byte":
		post = func(b []byte) []byte { return append(b, g.r.Bytes(1+g.r.Intn(3))...) }
	case "action":
		e := append([]byte{}, es[i]...)
		e[0] = byte(g.r.Intn(256))
		if e[0] == 1 {
			e[0] = 0
		}
		es[i] = e
	}
	body := assemble(s.newCust, es)
	if post != nil {
		body = post(body)
	}
	extra := approve(body, approver)
	if final != nil {
		extra = final(extra)
	}
	price := g.priceFor(extra, s.prev)
	amount := new(big.Int).Add(price, big.NewInt(int64(g.r.Intn(3))))
	cs := g.validateCase("mut/"+m, extra, s.prev, amount, len(es))
	switch m {
	case "underpaid-changed", "underpaid-new":
		if price.Sign() > 0 {
			cs.Outs[0].Amount = new(big.Int).Sub(price, big.NewInt(1+int64(g.r.Intn(100000000)))).String()
			if strings.HasPrefix(cs.Outs[0].Amount, "-") {
				cs.Outs[0].Amount = "0"
			}
		}
	case "shape-version":
		cs.Version = uint8(g.r.Intn(5))
	case "shape-asset":
		cs.Asset = hx(g.r.Bytes(32))
	case "shape-outputs":
		if g.r.Bool() {
			cs.Outs = nil
		} else {
			cs.Outs = append(cs.Outs, cs.Outs[0])
		}
	case "shape-type":
		cs.Outs[0].Type = []uint8{common.OutputTypeScript, common.OutputTypeCustodianSlashNodes, common.OutputTypeNodePledge}[g.r.Intn(3)]
	case "shape-keys":
		cs.Outs[0].NKeys = []int{0, 2, 3}[g.r.Intn(3)]
	case "shape-script":
		cs.Outs[0].Script = []string{"fffe01", "fffe3f", "fffe", "fffe4000", ""}[g.r.Intn(5)]
	case "prev-none":
		cs.Prev = &Prev{Mode: "none"}
	case "prev-err":
		cs.Prev = &Prev{Mode: "err"}
	case "prev-duplicate":
		if len(cs.Prev.Nodes) == 0 {
			cs.Prev.Nodes = append(cs.Prev.Nodes, prevNode(specs[0].cust, specs[0].payee))
		}
		d := cs.Prev.Nodes[g.r.Intn(len(cs.Prev.Nodes))]
		if g.r.Bool() {
			q := g.addr()
			d.PS, d.PV = hx(q.PublicSpendKey[:]), hx(q.PublicViewKey[:])
		}
		cs.Prev.Nodes = append(cs.Prev.Nodes, d)
	}
	return cs
}

// ---- one key reused across roles and entries, everything else canonical ---------------

func privOf(sp spec, field string) crypto.Key {
	switch field {
	case "ps":
		return sp.payee.PrivateSpendKey
	case "pv":
		return sp.payee.PrivateViewKey
	case "cs":
		return sp.cust.PrivateSpendKey
	}
	return sp.cust.PrivateViewKey
}

// withSpend: an address whose spend key pair is priv (so the harness can sign
// for it) and whose view key is fresh: exactly one key is reused.
func (g *gen) withSpend(priv crypto.Key) common.Address {
	v := g.addr()
	return common.Address{PrivateSpendKey: priv, PublicSpendKey: priv.Public(),
		PrivateViewKey: v.PrivateViewKey, PublicViewKey: v.PublicViewKey}
}

// crossCase: a sorted, fully signed, fully paid, properly approved update of n
// entries in which entry X's field f (payee or custodian SPEND key) is entry
// Y's field gf.  order: "src-first" (Y before X), "src-later" (Y after X),
// "own" (X = Y); dist: "adjacent" | "far".  Only a uniqueness rule can refuse it.
func (g *gen) crossCase(f, gf, order, dist string, n int) (Case, bool) {
	for try := 0; try < 400; try++ {
		s := g.scenario(n, "allnew")
		specs := s.specs
		var x, y int
		switch {
		case order == "own":
			x = g.r.Intn(n)
			y = x
		case dist == "adjacent":
			a := g.r.Intn(n - 1)
			x, y = a+1, a
			if order == "src-later" {
				x, y = a, a+1
			}
		default:
			a := g.r.Intn(n - 3)
			b := a + 3 + g.r.Intn(n-a-3)
			x, y = b, a
			if order == "src-later" {
				x, y = a, b
			}
		}
		src := specs[y]
		idX, idY := specs[x].signer.PublicSpendKey, specs[y].signer.PublicSpendKey
		na := g.withSpend(privOf(src, gf))
		if order == "own" && ((f == "ps" && gf == "pv") || (f == "cs" && gf == "cv")) {
			// spend key = view key of the same address
			na.PrivateViewKey, na.PublicViewKey = na.PrivateSpendKey, na.PublicSpendKey
		}
		if f == "ps" {
			specs[x].payee = na
		} else {
			specs[x].cust = na
			sortSpecs(specs)
			px, py := -1, -1
			for i, sp := range specs {
				if sp.signer.PublicSpendKey == idX {
					px = i
				}
				if sp.signer.PublicSpendKey == idY {
					py = i
				}
			}
			if order != "own" {
				d := px - py
				okOrder := (order == "src-first" && d > 0) || (order == "src-later" && d < 0)
				if d < 0 {
					d = -d
				}
				okDist := (dist == "adjacent" && d == 1) || (dist == "far" && d >= 3)
				if !okOrder || !okDist {
					continue
				}
			}
		}
		extra := approve(assemble(s.newCust, g.entries(specs)), &s.prevCust.PrivateSpendKey)
		kind := fmt.Sprintf("cross/%s=%s/%s/%s", f, gf, order, dist)
		if order == "own" {
			kind = fmt.Sprintf("cross/%s=own-%s", f, gf)
		}
		return g.validateCase(kind, extra, s.prev, g.priceFor(extra, s.prev), n), true
	}
	return Case{}, false
}

func (g *gen) crossAll(run func(Case)) {
	for _, f := range []string{"ps", "cs"} {
		for _, gf := range []string{"ps", "pv", "cs", "cv"} {
			if f == "cs" && gf == "cs" {
				continue // the same custodian key twice: mutation dup-custodian
			}
			for _, order := range []string{"src-first", "src-later"} {
				for _, dist := range []string{"adjacent", "far"} {
					n := 7
					if g.r.Chance(1, 4) {
						n = g.r.Range(8, 12)
					}
					if cs, ok := g.crossCase(f, gf, order, dist, n); ok {
						run(cs)
					}
				}
			}
			if f != gf {
				if cs, ok := g.crossCase(f, gf, "own", "", 7); ok {
					run(cs)
				}
			}
		}
	}
}

// ---- sequences: history must not matter -------------------------------------------------
// A genuine update is parsed and validated, then copies whose per-entry
// signatures are broken while every signed body Extra[:161] is unchanged (the
// approval is re-made over the new bytes, so ONLY the entry signatures are
// wrong), a copy with a broken approval, a copy with one body byte changed
// under the old signatures, and the genuine one again.  control = the
// tampered copies come first, on entries this process has never seen.
func (g *gen) sequence(control bool) Case {
	n := 7
	if g.r.Chance(1, 5) {
		n = g.r.Range(8, 10)
	}
	s := g.scenario(n, "allnew")
	es := g.entries(s.specs)
	appr := &s.prevCust.PrivateSpendKey
	price := new(big.Int).Mul(big.NewInt(int64(100*n)), big.NewInt(100000000))
	clone := func() [][]byte {
		o := make([][]byte, len(es))
		for i, e := range es {
			o[i] = append([]byte{}, e...)
		}
		return o
	}
	var steps []Case
	add := func(kind string, extra []byte) {
		v := g.validateCase("seq/"+kind, extra, s.prev, price, n)
		v.Model = true
		steps = append(steps, v)
		if strings.HasPrefix(kind, "genuine") || kind == "payee-sig-flipped" || kind == "all-sigs-zeroed" {
			steps = append(steps, Case{Op: "parse", Kind: "seq/" + kind, Extra: hx(extra), Model: true})
		}
	}
	genuine := approve(assemble(s.newCust, es), appr)
	var tampered []func()
	tampered = append(tampered, func() { // one payee signature, one bit
		t := clone()
		t[g.r.Intn(n)][offPSig+g.r.Intn(64)] ^= byte(1 << g.r.Intn(8))
		add("payee-sig-flipped", approve(assemble(s.newCust, t), appr))
	}, func() { // one custodian signature zeroed
		t := clone()
		i := g.r.Intn(n)
		copy(t[i][offCSig:], make([]byte, 64))
		add("custodian-sig-zeroed", approve(assemble(s.newCust, t), appr))
	}, func() { // every payee and custodian signature zeroed
		t := clone()
		for i := range t {
			copy(t[i][offPSig:], make([]byte, 128))
		}
		add("all-sigs-zeroed", approve(assemble(s.newCust, t), appr))
	}, func() { // payee and custodian signatures exchanged in one entry
		t := clone()
		i := g.r.Intn(n)
		copy(t[i][offPSig:], es[i][offCSig:offCSig+64])
		copy(t[i][offCSig:], es[i][offPSig:offPSig+64])
		add("sigs-exchanged", approve(assemble(s.newCust, t), appr))
	}, func() { // genuine entries, approval broken
		b := append([]byte{}, genuine...)
		b[len(b)-64+g.r.Intn(64)] ^= byte(1 << g.r.Intn(8))
		add("approval-broken", b)
	}, func() { // one byte of the signed body (node id) changed, old signatures, re-approved
		t := clone()
		t[g.r.Intn(n)][129+g.r.Intn(32)] ^= byte(1 + g.r.Intn(255))
		add("body-byte-old-sigs", approve(assemble(s.newCust, t), appr))
	})
	nodeSteps := func(first bool) {
		e := es[g.r.Intn(n)]
		bad := append([]byte{}, e...)
		bad[offPSig+g.r.Intn(128)] ^= byte(1 << g.r.Intn(8))
		a := Case{Op: "node", Kind: "seq/genuine", Extra: hx(e), Model: true}
		b := Case{Op: "node", Kind: "seq/sig-flipped", Extra: hx(bad), Model: true}
		if first {
			steps = append(steps, b) // the genuine entry is not shown to the process before the tampered copies
		} else {
			steps = append(steps, a, b)
		}
	}
	kind := "seq/genuine-first"
	if control {
		kind = "seq/tampered-first"
		nodeSteps(true)
		for _, f := range tampered {
			f()
		}
		add("genuine", genuine)
	} else {
		add("genuine", genuine)
		nodeSteps(false)
		for _, f := range tampered {
			f()
		}
		add("genuine-again", genuine)
	}
	return Case{Op: "seq", Kind: kind, Seq: steps}
}

// corpus: boundary cases first.
func (g *gen) corpus() []Case {
	var out []Case
	// the shape of the repository's own test: 42 nodes, all new, exact price, then one short
	for _, delta := range []int64{0, -1} {
		s := g.scenario(42, "allnew")
		extra := approve(assemble(s.newCust, g.entries(s.specs)), &s.prevCust.PrivateSpendKey)
		amt := new(big.Int).Add(g.priceFor(extra, s.prev), big.NewInt(delta))
		cs := g.validateCase("corpus/test-shape-42", extra, s.prev, amt, 42)
		cs.Model = delta == 0
		out = append(out, cs)
	}
	// 7 and 50 entries, same set, same custodian, amount 0
	for _, n := range []int{7, 50} {
		s := g.scenario(n, "same-custodian")
		extra := approve(assemble(s.newCust, g.entries(s.specs)), &s.prevCust.PrivateSpendKey)
		cs := g.validateCase(fmt.Sprintf("corpus/same-%d", n), extra, s.prev, new(big.Int), n)
		cs.Model = true
		out = append(out, cs)
	}
	// 51 entries are still accepted by validation (storage refuses more than 50 later)
	{
		s := g.scenario(51, "allnew")
		extra := approve(assemble(s.newCust, g.entries(s.specs)), &s.prevCust.PrivateSpendKey)
		cs := g.validateCase("corpus/count-51", extra, s.prev, g.priceFor(extra, s.prev), 51)
		cs.Model = false
		out = append(out, cs)
	}
	// price boundary for one changed payee, custodian unchanged
	for _, delta := range []int64{-1, 0, 1} {
		s := g.scenario(7, "same-custodian")
		q := g.addr()
		s.prev.Nodes[3].PS, s.prev.Nodes[3].PV = hx(q.PublicSpendKey[:]), hx(q.PublicViewKey[:])
		extra := approve(assemble(s.newCust, g.entries(s.specs)), &s.prevCust.PrivateSpendKey)
		out = append(out, g.validateCase("corpus/one-changed", extra, s.prev, big.NewInt(100000000+delta), 7))
	}
	// same custodian, one previous entry dropped / one added: the same-custodian rule
	{
		s := g.scenario(8, "same-custodian")
		es := g.entries(s.specs)
		extra := approve(assemble(s.newCust, es[:7]), &s.prevCust.PrivateSpendKey)
		out = append(out, g.validateCase("corpus/same-custodian-drop", extra, s.prev, big.NewInt(0), 7))
		s.prev.Nodes = s.prev.Nodes[:7]
		extra = approve(assemble(s.newCust, es), &s.prevCust.PrivateSpendKey)
		out = append(out, g.validateCase("corpus/same-custodian-add", extra, s.prev, big.NewInt(100*100000000), 8))
	}
	// one key reused across roles: payee spend = another entry's custodian spend (both orders),
	// custodian spend = another entry's payee spend, a spend key that is an earlier entry's view
	// key (refused) and the same with the view key in a LATER entry (accepted: recorded finding)
	for _, q := range [][4]string{
		{"ps", "cs", "src-first", "adjacent"}, {"ps", "cs", "src-later", "far"},
		{"cs", "ps", "src-first", "far"}, {"cs", "ps", "src-later", "adjacent"},
		{"ps", "pv", "src-first", "far"}, {"cs", "cv", "src-first", "adjacent"},
		{"ps", "cv", "src-later", "adjacent"}, {"cs", "pv", "src-later", "far"},
		{"ps", "cv", "own", ""},
	} {
		if cs, ok := g.crossCase(q[0], q[1], q[2], q[3], 7); ok {
			cs.Kind = "corpus/" + cs.Kind
			out = append(out, cs)
		}
	}
	// empty and tiny extras
	for _, l := range []int{0, 1, 63, 64, 127, 128, 128 + entrySize, 128 + 7*entrySize - 1} {
		cs := g.validateCase("corpus/short", g.r.Bytes(l), &Prev{Mode: "none"}, big.NewInt(0), 0)
		out = append(out, cs)
		out = append(out, Case{Op: "parse", Kind: "corpus/short", Extra: hx(g.r.Bytes(l)), Genesis: l%2 == 0, Model: true})
	}
	return out
}

func (g *gen) parseCase() Case {
	var cs Case
	if g.r.Chance(1, 2) {
		cs = g.validFamily()
	} else {
		cs = g.mutated(mutations[g.r.Intn(25)]) // the structural and signature mutations
	}
	return Case{Op: "parse", Kind: strings.TrimPrefix(cs.Kind, "corpus/"), Extra: cs.Extra, Genesis: g.r.Chance(1, 3), Model: cs.Model}
}

func (g *gen) nodeCase() Case {
	s := g.spec()
	e := g.entry(s)
	kind := "valid"
	switch g.r.Intn(12) {
	case 0:
		kind = "short"
		e = e[:len(e)-1-g.r.Intn(3)]
	case 1:
		kind = "long"
		e = append(e, byte(g.r.Intn(256)))
	case 2:
		kind = "empty"
		e = nil
	case 3:
		kind = "action"
		e[0] = byte(g.r.Intn(256))
	case 4, 5, 6:
		kind = "byte"
		e[g.r.Intn(len(e))] ^= byte(1 + g.r.Intn(255))
	case 7:
		kind = "payee-is-custodian"
		s.payee = s.cust
		e = g.entry(s)
	case 8:
		kind = "sigs-swapped"
		f := append([]byte{}, e...)
		copy(f[offPSig:], e[offCSig:offCSig+64])
		copy(f[offCSig:], e[offPSig:offPSig+64])
		e = f
	}
	return Case{Op: "node", Kind: kind, Extra: hx(e), Genesis: g.r.Chance(1, 4), Model: true}
}

func main() {
	c := vh.Start("C34")
	c.Rep.Rule = "custodian updates of 7..50 entries built with real keys and signatures (common.EncodeCustodianNode), " +
		"then reordered / duplicated / byte-mutated / re-approved, against previous custodian states (none, error, empty, same set, " +
		"overlapping with changed payee or custodian keys, duplicate entries) and amounts at price-1, price, price+1; " +
		"plus stateful sequences on a real Badger store with the full Validate (custodian updates written before / inside / after time ranges already queried through ReadCustodian, validations approved by the current, the replaced, a later custodian or a stranger, re-opened handles, and the same without the earlier read); " +
		"plus sequences in one process (genuine update, then copies with broken entry signatures over unchanged signed bodies, broken approval, changed body under old signatures, genuine again; and the tampered copies first); " +
		"plus otherwise canonical updates in which one spend key is reused across roles and entries (every field pair, both orders, adjacent and far); " +
		"non-trivial = the real parser accepts the extra so validation reaches the approval/price core (validate), " +
		"the extra has header + >= 7 whole entries + signature (parse), the entry has 353 bytes (node); distinct by hash of all inputs"
	if c.Replay != "" {
		var cs Case
		c.ReplayCase(&cs)
		run(c, cs)
		c.Finish()
		return
	}
	g := &gen{c: c, r: c.Rng, storageS: "fffe40"}
	g.net = crypto.Blake3Hash([]byte("verif-c34-network"))
	g.bigLeft = c.Scale(3, 40)
	// real Badger store + full Validate: an update stored inside an already queried time range
	run(c, g.storeInside(false, false))
	run(c, g.storeInside(true, false))
	run(c, g.storeInside(false, true))
	run(c, g.sequence(true)) // control: tampered copies before anything genuine was seen by this process
	run(c, g.sequence(false))
	run(c, g.sequence(false))
	for _, cs := range g.corpus() {
		run(c, cs)
	}
	nValid := c.Scale(60, 1500)
	nMut := c.Scale(140, 4000)
	nParse := c.Scale(40, 1000)
	nNode := c.Scale(60, 1500)
	for i := 0; i < nValid; i++ {
		run(c, g.validFamily())
	}
	for i := 0; i < nMut; i++ {
		run(c, g.mutated(mutations[i%len(mutations)]))
	}
	for i := c.Scale(1, 25); i > 0; i-- {
		g.crossAll(func(cs Case) { run(c, cs) })
	}
	for i := c.Scale(2, 60); i > 0; i-- {
		run(c, g.storeRandom())
		if i%2 == 0 {
			run(c, g.storeInside(i%4 == 0, i%8 == 6))
		}
	}
	for i := c.Scale(3, 30); i > 0; i-- {
		run(c, g.sequence(i%3 == 0))
	}
	for i := 0; i < nParse; i++ {
		run(c, g.parseCase())
	}
	for i := 0; i < nNode; i++ {
		run(c, g.nodeCase())
	}
	c.Finish()
}
