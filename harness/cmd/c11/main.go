// C11 harness: random membership histories written through the real storage
// package, a kernel node loaded over them by the real LoadConsensusNodes, every
// time-indexed view queried at record boundaries before and after later records
// are appended (in different query orders), and custodian histories queried with
// and without the in-memory cache.  Each observation is sent to the model
// (Run/C11.v); the oracle is the property itself: a view at t is unchanged by
// records with timestamp >= t, equals the view of a store holding only the
// preceding records, does not depend on query order, and cached = direct.
package main

import (
	"bytes"
	"fmt"
	"sort"
	"strings"

	"github.com/MixinNetwork/mixin/common"
	"github.com/MixinNetwork/mixin/crypto"
	"github.com/MixinNetwork/mixin/kernel"
	"github.com/MixinNetwork/mixin/storage"
	"verifharness/cmd/c11/mbr"
	"verifharness/vh"
)

type Query struct {
	Ts    uint64 `json:"ts"`
	Op    byte   `json:"op"`
	Id    int    `json:"id"`    // signer looked up by getAcceptedOrPledgingNode
	Round uint64 `json:"round"` // ConsensusKeys round
	Chain int    `json:"chain"` // 0 = running chain, 1 = pledging chain (info, no state), 2 = info with state, 3 = neither
	Info  int    `json:"info"`  // signer of ConsensusInfo
}

type CustStep struct {
	Kind string `json:"k"` // putw | putraw | query
	Ts   uint64 `json:"t"`
	Body int    `json:"b,omitempty"`
}

type Case struct {
	Kind    string     `json:"kind"` // views | cust
	Mainnet bool       `json:"mainnet,omitempty"`
	Epoch   uint64     `json:"epoch,omitempty"`
	Genesis []int      `json:"genesis,omitempty"`
	Ops     []mbr.Op   `json:"ops,omitempty"`
	Later   []mbr.Op   `json:"later,omitempty"`
	Queries []Query    `json:"queries,omitempty"`
	Shuffle uint64     `json:"shuffle,omitempty"`
	Cust    []CustStep `json:"cust,omitempty"`
}

var store *storage.BadgerStore

// ---- observation of all views at one query --------------------------------------------

type Obs struct {
	List, AList, DList, DAList []*kernel.CNode
	ThrF, ThrO                 int
	ThrFP, ThrOP               bool
	Ids                        []crypto.Hash
	Keys                       []*crypto.Key
	Pledging, Removing, Get    *kernel.CNode
	Elect                      crypto.Hash
	ElectP                     bool
}

func chainOf(w *mbr.World, node *kernel.Node, q Query) *kernel.Chain {
	var info *kernel.CNode
	if q.Chain == 1 || q.Chain == 2 {
		s := w.S(q.Info)
		info = &kernel.CNode{IdForNetwork: s.Id, Signer: common.Address{PublicSpendKey: s.Pub}, Payee: common.Address{PublicSpendKey: s.Payee}}
	}
	return node.VerifC09Chain(w.S(q.Info).Id, info, q.Chain == 0 || q.Chain == 2)
}

func observe(w *mbr.World, node *kernel.Node, q Query) *Obs {
	o := &Obs{}
	o.List = node.NodesListWithoutState(q.Ts, false)
	o.AList = node.NodesListWithoutState(q.Ts, true)
	o.DList = node.VerifC09NodeSequenceWithoutState(q.Ts, false)
	o.DAList = node.VerifC09NodeSequenceWithoutState(q.Ts, true)
	o.ThrFP, _ = vh.Catch(func() { o.ThrF = node.ConsensusThreshold(q.Ts, true) })
	o.ThrOP, _ = vh.Catch(func() { o.ThrO = node.ConsensusThreshold(q.Ts, false) })
	o.Ids, o.Keys = chainOf(w, node, q).ConsensusKeys(q.Round, q.Ts)
	o.Pledging = node.PledgingNode(q.Ts)
	o.Removing = node.VerifC09RemovingOrSlashingNodeAt(q.Ts)
	o.ElectP, _ = vh.Catch(func() { o.Elect = node.VerifC09ElectSnapshotNode(q.Op, q.Ts) })
	o.Get = node.VerifC09GetAcceptedOrPledgingNode(w.S(q.Id).Id, q.Ts)
	return o
}

func (o *Obs) Key() string {
	var sb strings.Builder
	sb.WriteString(mbr.CNodesKey(o.List) + "|" + mbr.CNodesKey(o.AList) + "|" + mbr.CNodesKey(o.DList) + "|" + mbr.CNodesKey(o.DAList))
	fmt.Fprintf(&sb, "|%d/%v|%d/%v|", o.ThrF, o.ThrFP, o.ThrO, o.ThrOP)
	for _, h := range o.Ids {
		fmt.Fprintf(&sb, "%x,", h[:6])
	}
	sb.WriteString("|")
	for _, k := range o.Keys {
		fmt.Fprintf(&sb, "%x,", k[:6])
	}
	fmt.Fprintf(&sb, "|%s|%s|%s|%x/%v", mbr.CNodeKey(o.Pledging), mbr.CNodeKey(o.Removing), mbr.CNodeKey(o.Get), o.Elect[:6], o.ElectP)
	return sb.String()
}

func resN(p bool, v uint64) string {
	if p {
		return vh.Pan("N")
	}
	return vh.Ok(vh.NU(v))
}

func (o *Obs) Term(a *mbr.Alias, ix *mbr.Indexer) string {
	return vh.App("mkv", ix.List(o.List), ix.List(o.AList), ix.List(o.DList), ix.List(o.DAList),
		resN(o.ThrFP, uint64(o.ThrF)), resN(o.ThrOP, uint64(o.ThrO)),
		mbr.HashesTerm(a, o.Ids), mbr.KeysTerm(a, o.Keys),
		ix.Opt(o.Pledging), ix.Opt(o.Removing),
		resN(o.ElectP, a.Of(o.Elect[:])), ix.Opt(o.Get))
}

func queryTerm(w *mbr.World, a *mbr.Alias, ix *mbr.Indexer, q Query, o *Obs) string {
	info := vh.None("nrec")
	if q.Chain == 1 || q.Chain == 2 {
		s := w.S(q.Info)
		info = vh.Some(fmt.Sprintf("(mkrec 0 %d %d %d 0 Pledging)", a.Of(s.Id[:]), a.Of(s.Pub[:]), a.Of(s.Payee[:])))
	}
	ch := vh.App("mkchain", info, vh.Bool(q.Chain == 0 || q.Chain == 2))
	return vh.App("mkq", ch, vh.NU(q.Round), a.T(q.Ts), vh.NU(uint64(q.Op)), vh.NU(a.Of(w.S(q.Id).Id[:])), o.Term(a, ix))
}

func shuffled(n int, r *vh.Rand) []int {
	p := make([]int, n)
	for i := range p {
		p[i] = i
	}
	for i := n - 1; i > 0; i-- {
		j := r.Intn(i + 1)
		p[i], p[j] = p[j], p[i]
	}
	return p
}

func emitViews(c *vh.Ctx, cs Case, w *mbr.World, node *kernel.Node, phase string, obs []*Obs) {
	extra := []int{}
	for _, q := range cs.Queries {
		extra = append(extra, q.Id, q.Info)
	}
	a := w.AliasFor(extra, nil)
	recs := w.SortedRecs()
	storeT := w.RecsTerm(a, recs)
	gen := mbr.HashesTerm(a, w.GenesisIds())
	ix := w.Indexer()
	all := ix.PosList(node.VerifC09AllNodesSortedWithState())
	var qs []string
	key := fmt.Sprintf("%s|%d|%d|%v", phase, len(recs), cs.Epoch, cs.Mainnet)
	nontrivial := false
	for i, q := range cs.Queries {
		key += fmt.Sprintf("|%v|%s", q, obs[i].Key())
		qs = append(qs, queryTerm(w, a, ix, q, obs[i]))
		nontrivial = nontrivial || len(obs[i].List) > 0
		c.Count("query")
		if obs[i].Removing != nil {
			c.Count("query-with-predicted-removal")
		}
		if obs[i].Pledging != nil {
			c.Count("query-with-pledging-node")
		}
		if !obs[i].ElectP && obs[i].Elect.HasValue() {
			c.Count("query-with-elected-operator")
		}
	}
	term := vh.App("CViews", storeT, gen, a.T(cs.Epoch), vh.Bool(cs.Mainnet), all, vh.List(qs, "vquery"))
	c.Case("views-"+phase, key, nontrivial, cs, a.Wrap(term))
}

func runViews(c *vh.Ctx, cs Case) {
	w := mbr.NewWorld(store, cs.Mainnet, cs.Epoch, cs.Genesis)
	for _, op := range cs.Ops {
		w.Apply(op)
	}
	rs := vh.NewRand(cs.Shuffle, "c11-shuffle")
	nodeA := w.Node()
	defer nodeA.VerifC09CloseCache()
	n := len(cs.Queries)
	obsA := make([]*Obs, n)
	for _, i := range shuffled(n, rs) {
		obsA[i] = observe(w, nodeA, cs.Queries[i])
	}
	// query order: a second pass in another order on the same node must agree
	for _, i := range shuffled(n, rs) {
		again := observe(w, nodeA, cs.Queries[i])
		if again.Key() != obsA[i].Key() {
			c.Fail("query-order", fmt.Sprintf("views at %d differ between two query orders on the same node", cs.Queries[i].Ts), cs)
		}
	}
	for i, o := range obsA {
		if mbr.CNodesKey(o.List) != mbr.CNodesKey(o.DList) || mbr.CNodesKey(o.AList) != mbr.CNodesKey(o.DAList) {
			c.Fail("cached-differs-from-direct", fmt.Sprintf("NodesListWithoutState(%d) differs from the direct sequence over records before it", cs.Queries[i].Ts), cs)
		}
	}
	emitViews(c, cs, w, nodeA, "before", obsA)

	// storage.ReadAllNodes at a few thresholds
	{
		a := w.AliasFor(nil, nil)
		recs := w.SortedRecs()
		for k := 0; k < 2 && k < n; k++ {
			th := cs.Queries[k].Ts
			ws := store.ReadAllNodes(th, true)
			latest := store.ReadAllNodes(th, false)
			sort.Slice(latest, func(i, j int) bool {
				if latest[i].Timestamp != latest[j].Timestamp {
					return latest[i].Timestamp < latest[j].Timestamp
				}
				x, y := latest[i].IdForNetwork(w.Net), latest[j].IdForNetwork(w.Net)
				return bytes.Compare(x[:], y[:]) < 0
			})
			term := vh.App("CReadAll", w.RecsTerm(a, recs), a.T(th), mbr.CommonNodesTerm(a, w.Net, ws), mbr.CommonNodesTerm(a, w.Net, latest))
			c.Case("readall", fmt.Sprintf("ra|%d|%d|%d|%d", th, len(recs), len(ws), cs.Shuffle), len(ws) > 0, cs, a.Wrap(term))
			for _, x := range ws {
				if x.Timestamp > th {
					c.Fail("readall-later-record", fmt.Sprintf("ReadAllNodes(%d) returned a record of time %d", th, x.Timestamp), cs)
				}
			}
		}
	}

	// append later records, reload, query again in another order
	minLater := ^uint64(0)
	for _, op := range cs.Later {
		if w.Apply(op) && op.Ts < minLater {
			minLater = op.Ts
		}
	}
	if err := nodeA.VerifC09ReloadConsensusNodes(); err != nil {
		panic(err)
	}
	nodeB := w.Node()
	defer nodeB.VerifC09CloseCache()
	obsB := make([]*Obs, n)
	for _, i := range shuffled(n, rs) {
		obsB[i] = observe(w, nodeB, cs.Queries[i])
		re := observe(w, nodeA, cs.Queries[i])
		if re.Key() != obsB[i].Key() {
			c.Fail("reload-differs", fmt.Sprintf("reloaded node and fresh node disagree at %d", cs.Queries[i].Ts), cs)
		}
	}
	for i, q := range cs.Queries {
		if q.Ts <= minLater && obsA[i].Key() != obsB[i].Key() {
			c.Fail("later-record-changed-view", fmt.Sprintf("views at %d changed after appending records with timestamps >= %d", q.Ts, minLater), cs)
		}
	}
	if len(cs.Later) > 0 {
		emitViews(c, cs, w, nodeB, "after", obsB)
	}

	// only preceding records: a store holding just the records before the query time
	if n > 0 {
		k := int(cs.Shuffle % uint64(n))
		q := cs.Queries[k]
		full := w.SortedRecs()
		w2 := mbr.NewWorld(store, cs.Mainnet, cs.Epoch, cs.Genesis)
		for _, r := range full {
			if r.Ts < q.Ts {
				w2.Apply(mbr.Op{Kind: "RAW", Signer: r.Signer, Ts: r.Ts, Tx: r.Tx, State: r.State})
			}
		}
		nodeC := w2.Node()
		oc := observe(w2, nodeC, q)
		nodeC.VerifC09CloseCache()
		c.Count("prefix-store")
		if oc.Key() != obsB[k].Key() {
			c.Fail("depends-on-later-record", fmt.Sprintf("views at %d differ from those of a store holding only the records before %d", q.Ts, q.Ts), cs)
		}
	}
}

// ---- custodian -----------------------------------------------------------------------------

type body struct {
	ver  *common.VersionedTransaction
	hash crypto.Hash
}

var bodies = map[int]*body{}

func seededAddress(seed string) common.Address {
	h := crypto.Blake3Hash([]byte(seed))
	return common.NewAddressFromSeed(append(h[:], h[:]...))
}

// body i: flavour i%4: 0,1 valid; 2 one node carries a broken payee signature
// (accepted only as the genesis record); 3 nodes out of order (never parses)
func bodyOf(i int) *body {
	if b := bodies[i]; b != nil {
		return b
	}
	net := mbr.Testnet()
	current := seededAddress(fmt.Sprintf("cust-%d", i))
	nodes := make([][]byte, 0, 7)
	for k := 0; k < 7; k++ {
		custodian := seededAddress(fmt.Sprintf("cust-%d-c-%d", i, k))
		payee := seededAddress(fmt.Sprintf("cust-%d-p-%d", i, k))
		signer := seededAddress(fmt.Sprintf("cust-%d-s-%d", i, k))
		nodes = append(nodes, common.EncodeCustodianNode(&custodian, &payee, &signer.PrivateSpendKey, &payee.PrivateSpendKey, &custodian.PrivateSpendKey, net))
	}
	sort.Slice(nodes, func(x, y int) bool { return bytes.Compare(nodes[x][1:33], nodes[y][1:33]) < 0 })
	switch i % 4 {
	case 2:
		nodes[3][230] ^= 0x40 // inside the payee signature
	case 3:
		nodes[0], nodes[1] = nodes[1], nodes[0]
	}
	extra := append(current.PublicSpendKey[:], current.PublicViewKey[:]...)
	for _, n := range nodes {
		extra = append(extra, n...)
	}
	sig := current.PrivateSpendKey.Sign(crypto.Blake3Hash(extra))
	extra = append(extra, sig[:]...)
	tx := common.NewTransactionV5(common.XINAssetId)
	tx.Inputs = []*common.Input{{Genesis: []byte("genesis")}}
	tx.Outputs = []*common.Output{{Type: common.OutputTypeCustodianUpdateNodes, Amount: common.NewInteger(1)}}
	tx.Extra = extra
	ver := tx.AsVersioned()
	b := &body{ver: ver, hash: ver.PayloadHash()}
	bodies[i] = b
	return b
}

type custObs struct {
	pan, err, none bool
	tx             crypto.Hash
	ts             uint64
	cust           crypto.Key
	nodes          int
}

func readCust(f func(uint64) (*common.CustodianUpdateRequest, error), ts uint64) custObs {
	var o custObs
	var cur *common.CustodianUpdateRequest
	var err error
	o.pan, _ = vh.Catch(func() { cur, err = f(ts) })
	switch {
	case o.pan:
	case err != nil:
		o.err = true
	case cur == nil:
		o.none = true
	default:
		o.tx, o.ts, o.cust, o.nodes = cur.Transaction, cur.Timestamp, cur.Custodian.PublicSpendKey, len(cur.Nodes)
	}
	return o
}

func (o custObs) key() string {
	return fmt.Sprintf("%v/%v/%v/%x/%d/%x/%d", o.pan, o.err, o.none, o.tx[:8], o.ts, o.cust[:8], o.nodes)
}

const custT = "(option (N * N * (N * N)))"

func (o custObs) term(a *mbr.Alias) string {
	switch {
	case o.pan:
		return vh.Pan(custT)
	case o.err:
		return vh.Err(custT)
	case o.none:
		return vh.Ok(vh.None("(N * N * (N * N))"))
	}
	return vh.Ok(vh.Some(fmt.Sprintf("(%s, %s, (%s, %s))", a.N(o.tx[:]), vh.NU(o.ts), a.N(o.cust[:]), vh.NU(uint64(o.nodes)))))
}

func runCust(c *vh.Ctx, cs Case) {
	if err := store.VerifC11DropAll(); err != nil {
		panic(err)
	}
	a := mbr.NewAlias()
	used := map[int]bool{}
	for _, st := range cs.Cust {
		if st.Kind != "query" && !used[st.Body] {
			used[st.Body] = true
			b := bodyOf(st.Body)
			a.Add(b.hash[:])
			a.Add(b.ver.Extra[:32])
		}
	}
	recs := map[uint64]int{} // the harness' account of the history: ts -> body
	type past struct {
		ts       uint64
		key      string
		minLater uint64
	}
	var asked []*past
	var steps []string
	hits := 0
	for _, st := range cs.Cust {
		switch st.Kind {
		case "putw", "putraw":
			b := bodyOf(st.Body)
			ok := false
			if _, present := recs[st.Ts]; st.Kind == "putw" && !present {
				var err error
				pan, _ := vh.Catch(func() { err = store.VerifC11WriteCustodian(b.ver, st.Ts, len(recs) == 0) })
				ok = !pan && err == nil
			} else {
				if err := store.VerifC11PutTransaction(b.ver); err != nil {
					panic(err)
				}
				if err := store.VerifC11PutCustodianRecord(b.hash, st.Ts); err != nil {
					panic(err)
				}
				ok = true
			}
			if ok {
				recs[st.Ts] = st.Body
				steps = append(steps, vh.App("CPut", vh.NU(st.Ts), a.N(b.hash[:])))
				for _, p := range asked {
					if st.Ts < p.minLater {
						p.minLater = st.Ts
					}
				}
			}
		case "query":
			before := store.VerifC11CustodianCacheSize()
			cached := readCust(store.ReadCustodian, st.Ts)
			direct := readCust(store.VerifC11ReadCustodianNoCache, st.Ts)
			if store.VerifC11CustodianCacheSize() == before && !cached.none {
				hits++
			}
			steps = append(steps, vh.App("CQuery", vh.NU(st.Ts), cached.term(a), direct.term(a)))
			if cached.key() != direct.key() {
				c.Fail("custodian-cache", fmt.Sprintf("ReadCustodian(%d) with the cache differs from the lookup without it", st.Ts), cs)
			}
			if !cached.pan && !cached.err && !cached.none && cached.ts > st.Ts {
				c.Fail("custodian-later-record", fmt.Sprintf("ReadCustodian(%d) returned the record of time %d", st.Ts, cached.ts), cs)
			}
			for _, p := range asked {
				if p.ts == st.Ts && st.Ts < p.minLater && p.key != cached.key() {
					c.Fail("custodian-later-record-changed", fmt.Sprintf("ReadCustodian(%d) changed after only later records were added", st.Ts), cs)
				}
			}
			asked = append(asked, &past{ts: st.Ts, key: cached.key(), minLater: ^uint64(0)})
		}
	}
	var ptab []string
	ids := make([]int, 0, len(used))
	for i := range used {
		ids = append(ids, i)
	}
	sort.Ints(ids)
	for _, i := range ids {
		b := bodyOf(i)
		for _, g := range []bool{true, false} {
			cur, err := common.ParseCustodianUpdateNodesExtra(b.ver.Extra, g)
			r := vh.Err("(N * N)")
			if err == nil {
				r = vh.Ok(fmt.Sprintf("(%s, %s)", a.N(cur.Custodian.PublicSpendKey[:]), vh.NU(uint64(len(cur.Nodes)))))
			}
			ptab = append(ptab, fmt.Sprintf("((%s, %s), %s)", a.N(b.hash[:]), vh.Bool(g), r))
		}
	}
	term := vh.App("CCust", vh.List(ptab, "((N * bool) * res (N * N))"), vh.List(steps, "cstep"))
	c.Case("custodian", fmt.Sprintf("cust|%v", cs.Cust), hits > 0, cs, term)
}

func run(c *vh.Ctx, cs Case) {
	switch cs.Kind {
	case "views":
		runViews(c, cs)
	case "cust":
		runCust(c, cs)
	default:
		panic("kind " + cs.Kind)
	}
}

// ---- generators ------------------------------------------------------------------------------

var forkAt = uint64(kernel.VerifC09ConsensusNodeRemovalSignerSetForkAt)

func pickEpoch(r *vh.Rand) uint64 {
	switch r.Intn(6) {
	case 0:
		return uint64(r.Range(1, 5000)) // tiny epoch: queries below the epoch, small timestamps
	case 1:
		return forkAt - uint64(r.Range(0, 6))*mbr.Day - 13*mbr.Hour // fork falls on a window start
	case 2:
		return forkAt - uint64(r.Range(0, 6))*mbr.Day - uint64(r.Intn(24))*mbr.Hour - uint64(r.Intn(3600))*mbr.Second
	default:
		return 1700000000000000000 + uint64(r.Intn(1000000))*mbr.Second + uint64(r.Intn(1000))
	}
}

func delta(r *vh.Rand) uint64 {
	switch r.Intn(9) {
	case 0:
		return 0
	case 1:
		return 1
	case 2:
		return uint64(r.Range(1, 120)) * mbr.Second
	case 3:
		return 30 * mbr.Second
	case 4:
		return 12*mbr.Hour + uint64(r.Intn(3))
	case 5:
		return 12*mbr.Hour - 90*mbr.Second + uint64(r.Intn(3))
	case 6:
		return uint64(r.Range(1, 30)) * mbr.Hour
	case 7:
		return mbr.Day
	default:
		return uint64(r.Range(1, 3600)) * mbr.Second * uint64(r.Range(1, 30))
	}
}

var states = []string{common.NodeStatePledging, common.NodeStateAccepted, common.NodeStateRemoved, common.NodeStateCancelled}

type genState struct {
	r        *vh.Rand
	nextSig  int
	nextTx   int
	cursor   uint64
	pledged  int // signer currently pledging, -1 none
	accepted []int
	times    []uint64
}

func (g *genState) lifecycleOps(k int) []mbr.Op {
	var ops []mbr.Op
	for i := 0; i < k; i++ {
		g.cursor += delta(g.r)
		ts := g.cursor
		if g.r.Chance(1, 8) && len(g.times) > 0 {
			ts = g.times[g.r.Intn(len(g.times))] + uint64(g.r.Intn(2)) // interleave with earlier records
		}
		g.nextTx++
		var op mbr.Op
		switch {
		case g.pledged >= 0 && g.r.Chance(3, 4):
			kind := "ACCEPT"
			if g.r.Chance(1, 4) {
				kind = "CANCEL"
			}
			op = mbr.Op{Kind: kind, Signer: g.pledged, Ts: ts, Tx: g.nextTx}
			if kind == "ACCEPT" {
				g.accepted = append(g.accepted, g.pledged)
			}
			g.pledged = -1
		case g.r.Chance(1, 2) && len(g.accepted) > 0:
			j := 0
			if g.r.Chance(1, 3) {
				j = g.r.Intn(len(g.accepted))
			}
			op = mbr.Op{Kind: "REMOVE", Signer: g.accepted[j], Ts: ts, Tx: g.nextTx}
			g.accepted = append(g.accepted[:j:j], g.accepted[j+1:]...)
		default:
			op = mbr.Op{Kind: "PLEDGE", Signer: g.nextSig, Ts: ts, Tx: g.nextTx}
			g.pledged = g.nextSig
			g.nextSig++
		}
		ops = append(ops, op)
		g.times = append(g.times, ts)
	}
	return ops
}

func (g *genState) rawOps(k int, pool []uint64, lo uint64) []mbr.Op {
	var ops []mbr.Op
	for i := 0; i < k; i++ {
		ts := pool[g.r.Intn(len(pool))]
		if ts < lo {
			ts = lo + uint64(g.r.Intn(3))
		}
		if ts == 0 {
			ts = 1
		}
		g.nextTx++
		ops = append(ops, mbr.Op{Kind: "RAW", Signer: g.r.Intn(g.nextSig + 2), Ts: ts, Tx: g.nextTx, State: states[g.r.Intn(4)]})
		g.times = append(g.times, ts)
	}
	return ops
}

func genViews(c *vh.Ctx) Case {
	r := c.Rng
	cs := Case{Kind: "views", Mainnet: r.Chance(1, 2), Epoch: pickEpoch(r), Shuffle: r.U64()}
	g := &genState{r: r, pledged: -1}
	ng := r.Range(7, 12)
	if r.Chance(1, 6) {
		ng = r.Range(1, 6)
	}
	gts := cs.Epoch
	for i := 0; i < ng; i++ {
		g.nextTx++
		cs.Genesis = append(cs.Genesis, i)
		cs.Ops = append(cs.Ops, mbr.Op{Kind: "GENESIS", Signer: i, Ts: gts, Tx: g.nextTx})
		g.accepted = append(g.accepted, i)
	}
	g.nextSig = ng
	g.cursor = gts
	g.times = append(g.times, gts)
	raw := r.Chance(2, 5)
	var pool []uint64
	if raw {
		base := cs.Epoch + uint64(r.Intn(4))*mbr.Day + uint64(r.Intn(24))*mbr.Hour
		for i := 0; i < r.Range(3, 6); i++ {
			base += []uint64{0, 1, 1, 2, 30 * mbr.Second, mbr.Hour, 12 * mbr.Hour, mbr.Day}[r.Intn(8)]
			pool = append(pool, base)
		}
		cs.Ops = append(cs.Ops, g.rawOps(r.Range(2, 14), pool, 1)...)
	} else {
		cs.Ops = append(cs.Ops, g.lifecycleOps(r.Range(0, 9))...)
	}
	// later records: all at or after t0
	t0 := g.times[r.Intn(len(g.times))] + uint64(r.Intn(3))
	if r.Chance(1, 4) {
		t0 = g.cursor + delta(r)
	}
	if raw || r.Chance(1, 4) {
		if len(pool) == 0 {
			pool = []uint64{t0, t0 + 1, t0 + mbr.Hour}
		}
		pool = append(pool, t0, t0+1, t0+13*mbr.Hour)
		cs.Later = g.rawOps(r.Range(1, 6), pool, t0)
	} else {
		if g.cursor < t0 {
			g.cursor = t0
		}
		later := g.lifecycleOps(r.Range(1, 5))
		for _, op := range later {
			if op.Ts >= t0 {
				cs.Later = append(cs.Later, op)
			}
		}
	}
	// query times: boundaries of every record and of every derived deadline
	var qt []uint64
	add := func(t uint64) { qt = append(qt, t-1, t, t+1) }
	for _, t := range g.times {
		add(t)
		add(t + 30*mbr.Second)
		add(t + 12*mbr.Hour)
		add(t + 12*mbr.Hour - 90*mbr.Second)
	}
	for _, op := range cs.Later {
		add(op.Ts)
	}
	add(t0)
	for d := uint64(0); d < 9; d++ {
		add(cs.Epoch + d*mbr.Day + 13*mbr.Hour)
		add(cs.Epoch + d*mbr.Day + 20*mbr.Hour)
		qt = append(qt, cs.Epoch+d*mbr.Day+13*mbr.Hour+uint64(r.Intn(7*3600))*mbr.Second)
	}
	add(forkAt)
	qt = append(qt, 0, cs.Epoch, cs.Epoch-1, ^uint64(0))
	nq := 6
	for i := 0; i < nq; i++ {
		var ts uint64
		switch {
		case i == 0:
			ts = t0 - uint64(r.Intn(2))
		case i == 1 && len(g.times) > 0:
			ts = g.times[len(g.times)-1] + mbr.Day + 13*mbr.Hour + uint64(r.Intn(3600))*mbr.Second
			ts = cs.Epoch + (ts-cs.Epoch)/mbr.Day*mbr.Day + 13*mbr.Hour + uint64(r.Intn(6*3600))*mbr.Second
		default:
			ts = qt[r.Intn(len(qt))]
		}
		cs.Queries = append(cs.Queries, Query{Ts: ts, Op: []byte{1, 6, 9, 0x13, 0x14, 0, 7}[r.Intn(7)],
			Id: r.Intn(g.nextSig + 1), Round: uint64(r.Intn(2)), Chain: r.Intn(4), Info: r.Intn(g.nextSig + 2)})
	}
	return cs
}

func genCust(c *vh.Ctx) Case {
	r := c.Rng
	cs := Case{Kind: "cust"}
	base := uint64(r.Range(1, 1000))
	var pool []uint64
	for i := 0; i < r.Range(2, 6); i++ {
		base += []uint64{1, 1, 2, 10, 1000}[r.Intn(5)]
		pool = append(pool, base)
	}
	nb := r.Range(1, 4)
	off := r.Intn(8)
	n := r.Range(4, 16)
	for i := 0; i < n; i++ {
		t := pool[r.Intn(len(pool))]
		switch r.Intn(5) {
		case 0:
			cs.Cust = append(cs.Cust, CustStep{Kind: "putw", Ts: t, Body: off + r.Intn(nb)})
		case 1:
			cs.Cust = append(cs.Cust, CustStep{Kind: "putraw", Ts: t, Body: off + r.Intn(nb)})
		default:
			cs.Cust = append(cs.Cust, CustStep{Kind: "query", Ts: t + uint64(r.Intn(3)) - 1})
		}
	}
	return cs
}

func corpus() []Case {
	e := uint64(1700000000000000000)
	gen := func(n int) ([]int, []mbr.Op) {
		var g []int
		var ops []mbr.Op
		for i := 0; i < n; i++ {
			g = append(g, i)
			ops = append(ops, mbr.Op{Kind: "GENESIS", Signer: i, Ts: e, Tx: i + 1})
		}
		return g, ops
	}
	g8, ops8 := gen(8)
	q := func(ts uint64) Query { return Query{Ts: ts, Op: 9, Id: 0, Round: 0, Chain: 1, Info: 20} }
	day1 := e + mbr.Day + 13*mbr.Hour
	return []Case{
		// all genesis records share one timestamp: ties resolved by id; queried at t-1, t, t+1
		{Kind: "views", Epoch: e, Genesis: g8, Ops: ops8, Queries: []Query{q(e - 1), q(e), q(e + 1), q(e + 30*mbr.Second + 1)}, Shuffle: 1,
			Later: []mbr.Op{{Kind: "PLEDGE", Signer: 8, Ts: e + 1, Tx: 50}}},
		// removal window: prediction at the window start, removal record inside the window
		{Kind: "views", Epoch: e, Genesis: g8, Ops: ops8, Queries: []Query{q(day1 - 1), q(day1), q(day1 + 1), q(day1 + 30*mbr.Second), q(day1 + 7*mbr.Hour)}, Shuffle: 2,
			Later: []mbr.Op{{Kind: "REMOVE", Signer: 0, Ts: day1 + 10*mbr.Second, Tx: 51}}},
		// the same on mainnet ids around the signer-set fork
		{Kind: "views", Mainnet: true, Epoch: forkAt - mbr.Day - 13*mbr.Hour, Genesis: g8,
			Ops: func() []mbr.Op {
				_, o := gen(8)
				for i := range o {
					o[i].Ts = forkAt - mbr.Day - 13*mbr.Hour
				}
				return o
			}(),
			Queries: []Query{q(forkAt - 1), q(forkAt), q(forkAt + 1), q(forkAt - mbr.Day), q(forkAt - mbr.Day + 1)}, Shuffle: 3,
			Later: []mbr.Op{{Kind: "REMOVE", Signer: 1, Ts: forkAt + 5, Tx: 52}}},
		// pledge, accept at adjacent timestamps; record exactly at the query time
		{Kind: "views", Epoch: e, Genesis: g8, Ops: append(append([]mbr.Op{}, ops8...),
			mbr.Op{Kind: "PLEDGE", Signer: 8, Ts: e + 2*mbr.Day, Tx: 60}, mbr.Op{Kind: "ACCEPT", Signer: 8, Ts: e + 2*mbr.Day + 1, Tx: 61}),
			Queries: []Query{q(e + 2*mbr.Day), q(e + 2*mbr.Day + 1), q(e + 2*mbr.Day + 2), q(e + 2*mbr.Day + 12*mbr.Hour + 2)}, Shuffle: 4,
			Later: []mbr.Op{{Kind: "RAW", Signer: 3, Ts: e + 2*mbr.Day + 2, Tx: 62, State: common.NodeStateRemoved}}},
		// custodian: invalid-as-update body first (genesis), then reused later; equal hash at two times
		{Kind: "cust", Cust: []CustStep{{Kind: "query", Ts: 5}, {Kind: "putraw", Ts: 10, Body: 2}, {Kind: "query", Ts: 9}, {Kind: "query", Ts: 10},
			{Kind: "putraw", Ts: 20, Body: 2}, {Kind: "query", Ts: 10}, {Kind: "query", Ts: 20}, {Kind: "putw", Ts: 30, Body: 0}, {Kind: "query", Ts: 30},
			{Kind: "putraw", Ts: 5, Body: 1}, {Kind: "query", Ts: 10}, {Kind: "query", Ts: 5}, {Kind: "query", Ts: 31}}},
		{Kind: "cust", Cust: []CustStep{{Kind: "putw", Ts: 10, Body: 0}, {Kind: "putw", Ts: 11, Body: 1}, {Kind: "query", Ts: 10}, {Kind: "query", Ts: 11},
			{Kind: "query", Ts: 12}, {Kind: "putw", Ts: 12, Body: 4}, {Kind: "query", Ts: 11}, {Kind: "query", Ts: 12}, {Kind: "putraw", Ts: 13, Body: 3}, {Kind: "query", Ts: 13}, {Kind: "query", Ts: 12}}},
	}
}

func main() {
	c := vh.Start("C11")
	c.Rep.Rule = "corpus (equal genesis timestamps, removal window, fork boundary, adjacent pledge/accept, custodian reuse), then random " +
		"histories: 1..12 genesis nodes at one timestamp followed by either lifecycle operations through the real writers " +
		"(pledge/accept/cancel/remove at deltas 0, 1 ns, 30 s, 12 h, 12 h-90 s, hours, days, some interleaved with earlier records) or " +
		"arbitrary records from a pool of equal/adjacent times; 6 queries per history at t-1/t/t+1 of records, deadlines, window edges, " +
		"the fork time, 0, epoch, 2^64-1; asked in shuffled orders before and after later records (>= t0) are appended, on a reloaded and a " +
		"fresh node, and on a store holding only the preceding records. Custodian: 4..16 steps of puts (real writer or raw, valid/" +
		"genesis-only/unparsable bodies, reused hashes, earlier inserts) and cached+uncached lookups. Non-trivial = non-empty member list " +
		"(views) / at least one cache hit (custodian); distinct by history+query+observation."
	var closeStore func()
	store, closeStore = mbr.OpenStore("c11")
	defer closeStore()
	if c.Replay != "" {
		var cs Case
		c.ReplayCase(&cs)
		run(c, cs)
		c.Finish()
		return
	}
	for _, cs := range corpus() {
		run(c, cs)
	}
	n := c.Scale(110, 2500)
	for i := 0; i < n; i++ {
		if i%5 == 4 {
			run(c, genCust(c))
		} else {
			run(c, genViews(c))
		}
	}
	c.Finish()
}
