// Package mbr is shared by the C09 and C11 harnesses: deterministic signer
// identities, membership histories written through the real storage package,
// the light kernel node built over that store, and printers for the model's
// record types.  32-byte ids/keys/hashes are sent to the model as their rank
// among all values of the case (order and equality are all the modelled code
// uses them for); the all-zero value is 0.
package mbr

import (
	"bytes"
	"encoding/binary"
	"fmt"
	"os"
	"path/filepath"
	"sort"

	"github.com/MixinNetwork/mixin/common"
	"github.com/MixinNetwork/mixin/config"
	"github.com/MixinNetwork/mixin/crypto"
	"github.com/MixinNetwork/mixin/kernel"
	"github.com/MixinNetwork/mixin/storage"
	"verifharness/vh"
)

const (
	Hour   = uint64(3600000000000)
	Minute = uint64(60000000000)
	Second = uint64(1000000000)
	Day    = 24 * Hour
)

// ---- identities ---------------------------------------------------------------

type Signer struct {
	Priv  crypto.Key
	Pub   crypto.Key
	Payee crypto.Key
	Id    crypto.Hash
}

func seed64(label string, i int) []byte {
	h := crypto.Blake3Hash([]byte(fmt.Sprintf("verif-%s-%d", label, i)))
	return append(h[:], h[:]...)
}

// SignerOf derives signer number i for a network: the id is computed exactly as
// the ledger does (address with the deterministic view key, hashed for the network).
func SignerOf(i int, network crypto.Hash) *Signer {
	priv := crypto.NewKeyFromSeed(seed64("signer", i))
	pub := priv.Public()
	view := pub.DeterministicHashDerive()
	addr := common.Address{PublicSpendKey: pub, PublicViewKey: view.Public()}
	payee := crypto.NewKeyFromSeed(seed64("payee", i)).Public()
	return &Signer{Priv: priv, Pub: pub, Payee: payee, Id: addr.Hash().ForNetwork(network)}
}

func TxHash(i int) crypto.Hash {
	return crypto.Blake3Hash([]byte(fmt.Sprintf("verif-node-tx-%d", i)))
}

func Mainnet() crypto.Hash {
	h, err := crypto.HashFromString(config.KernelNetworkId)
	if err != nil {
		panic(err)
	}
	return h
}

func Testnet() crypto.Hash { return crypto.Blake3Hash([]byte("verif-test-network")) }

func Network(mainnet bool) crypto.Hash {
	if mainnet {
		return Mainnet()
	}
	return Testnet()
}

// ---- history ----------------------------------------------------------------------

// Op is one write to the node state queue.  Kind GENESIS/PLEDGE/ACCEPT/CANCEL/
// REMOVE goes through the real lifecycle writers (and may be refused); RAW
// stores a record of the given State without preconditions.
type Op struct {
	Kind   string `json:"k"`
	Signer int    `json:"s"`
	Ts     uint64 `json:"t"`
	Tx     int    `json:"x"`
	State  string `json:"st,omitempty"`
}

type Rec struct {
	Ts     uint64
	Signer int
	Tx     int
	State  string
}

type World struct {
	Store   *storage.BadgerStore
	dir     string
	Mainnet bool
	Net     crypto.Hash
	Epoch   uint64
	Genesis []int // signer numbers of the genesis nodes
	signers map[int]*Signer
	Recs    map[[2]uint64]Rec // (ts, signer) -> record, the harness' own account of the store
}

func OpenStore(tag string) (*storage.BadgerStore, func()) {
	repo := os.Getenv("VERIF_REPO")
	if repo == "" {
		repo = "/repo"
	}
	custom, err := config.Initialize(filepath.Join(repo, "config", "config.example.toml"))
	if err != nil {
		panic(err)
	}
	// a memory-backed directory when there is one: every write is its own
	// synced Badger transaction
	dir, err := os.MkdirTemp("/dev/shm", "verif-"+tag+"-")
	if err != nil {
		dir, err = os.MkdirTemp("", "verif-"+tag+"-")
	}
	if err != nil {
		panic(err)
	}
	store, err := storage.NewBadgerStore(custom, dir)
	if err != nil {
		panic(err)
	}
	return store, func() { store.Close(); os.RemoveAll(dir) }
}

func NewWorld(store *storage.BadgerStore, mainnet bool, epoch uint64, genesis []int) *World {
	if err := store.VerifC11DropAll(); err != nil {
		panic(err)
	}
	return &World{Store: store, Mainnet: mainnet, Net: Network(mainnet), Epoch: epoch, Genesis: genesis,
		signers: map[int]*Signer{}, Recs: map[[2]uint64]Rec{}}
}

func (w *World) S(i int) *Signer {
	s := w.signers[i]
	if s == nil {
		s = SignerOf(i, w.Net)
		w.signers[i] = s
	}
	return s
}

func stateOf(kind string) string {
	switch kind {
	case "GENESIS", "ACCEPT":
		return common.NodeStateAccepted
	case "PLEDGE":
		return common.NodeStatePledging
	case "CANCEL":
		return common.NodeStateCancelled
	case "REMOVE":
		return common.NodeStateRemoved
	}
	panic(kind)
}

// Apply writes one op through the real storage code; it reports whether the
// record was stored.
func (w *World) Apply(op Op) bool {
	s := w.S(op.Signer)
	var err error
	var panicked bool
	state := op.State
	switch op.Kind {
	case "RAW":
		err = w.Store.VerifC11PutNodeRecord(s.Pub, s.Payee, TxHash(op.Tx), op.Ts, op.State)
	case "GENESIS":
		state = stateOf(op.Kind)
		panicked, _ = vh.Catch(func() {
			err = w.Store.VerifC11WriteNodeOp("ACCEPT", s.Pub, s.Payee, TxHash(op.Tx), op.Ts, true)
		})
	default:
		state = stateOf(op.Kind)
		panicked, _ = vh.Catch(func() {
			err = w.Store.VerifC11WriteNodeOp(op.Kind, s.Pub, s.Payee, TxHash(op.Tx), op.Ts, false)
		})
	}
	if err != nil || panicked {
		return false
	}
	w.Recs[[2]uint64{op.Ts, uint64(op.Signer)}] = Rec{Ts: op.Ts, Signer: op.Signer, Tx: op.Tx, State: state}
	return true
}

// SortedRecs returns the harness' account of the store in key order
// (timestamp, signer public key bytes).
func (w *World) SortedRecs() []Rec {
	out := make([]Rec, 0, len(w.Recs))
	for _, r := range w.Recs {
		out = append(out, r)
	}
	sort.Slice(out, func(i, j int) bool {
		if out[i].Ts != out[j].Ts {
			return out[i].Ts < out[j].Ts
		}
		a, b := w.S(out[i].Signer).Pub, w.S(out[j].Signer).Pub
		return bytes.Compare(a[:], b[:]) < 0
	})
	return out
}

func (w *World) GenesisIds() []crypto.Hash {
	ids := make([]crypto.Hash, len(w.Genesis))
	for i, g := range w.Genesis {
		ids[i] = w.S(g).Id
	}
	return ids
}

// Node loads a kernel node over the store by the real LoadConsensusNodes.
func (w *World) Node() *kernel.Node {
	node, err := kernel.VerifC09NewMembershipNode(w.Store, w.Net, w.Epoch, w.GenesisIds())
	if err != nil {
		panic(err)
	}
	return node
}

// ---- aliasing of 32-byte values -------------------------------------------------

type Alias struct {
	vals [][]byte
	rank map[string]int
	ts   map[uint64]int
	tsv  []uint64
}

// T prints a timestamp: large values are bound once per case by Wrap (Coq
// converts a long decimal literal slowly).
func (a *Alias) T(ts uint64) string {
	if ts < 1000000 {
		return fmt.Sprintf("%d%%N", ts)
	}
	if a.ts == nil {
		a.ts = map[uint64]int{}
	}
	k, ok := a.ts[ts]
	if !ok {
		k = len(a.tsv)
		a.ts[ts] = k
		a.tsv = append(a.tsv, ts)
	}
	return fmt.Sprintf("t%d", k)
}

// Wrap binds the timestamps used by term.
func (a *Alias) Wrap(term string) string {
	var sb bytes.Buffer
	sb.WriteString("(")
	for k, v := range a.tsv {
		fmt.Fprintf(&sb, "let t%d := %d%%N in ", k, v)
	}
	sb.WriteString(term + ")")
	return sb.String()
}

func NewAlias() *Alias { return &Alias{rank: nil} }

func (a *Alias) Add(b []byte) {
	a.vals = append(a.vals, append([]byte(nil), b...))
	a.rank = nil
}

func (a *Alias) build() {
	sort.Slice(a.vals, func(i, j int) bool { return bytes.Compare(a.vals[i], a.vals[j]) < 0 })
	a.rank = map[string]int{}
	n := 0
	for _, v := range a.vals {
		if _, ok := a.rank[string(v)]; !ok {
			n++
			a.rank[string(v)] = n
		}
	}
}

// Of returns the rank (1-based) of b, 0 for the all-zero value.  A value that
// was never registered gets a rank above all others that is unique per value.
func (a *Alias) Of(b []byte) uint64 {
	if a.rank == nil {
		a.build()
	}
	zero := true
	for _, c := range b {
		if c != 0 {
			zero = false
		}
	}
	if zero {
		return 0
	}
	if r, ok := a.rank[string(b)]; ok {
		return uint64(r)
	}
	// unknown value: cannot preserve order; make it visible
	return 1<<40 + binary.BigEndian.Uint64(b[:8])>>24
}

func (a *Alias) N(b []byte) string { return vh.NU(a.Of(b)) }

// AliasFor registers every id/key/payee/tx value of the world's signers and records.
func (w *World) AliasFor(extraSigners []int, extraTx []int) *Alias {
	a := NewAlias()
	add := func(i int) {
		s := w.S(i)
		a.Add(s.Pub[:])
		a.Add(s.Payee[:])
		a.Add(s.Id[:])
	}
	for _, r := range w.Recs {
		add(r.Signer)
		h := TxHash(r.Tx)
		a.Add(h[:])
	}
	for _, g := range w.Genesis {
		add(g)
	}
	for _, i := range extraSigners {
		add(i)
	}
	for _, x := range extraTx {
		h := TxHash(x)
		a.Add(h[:])
	}
	return a
}

// ---- printers --------------------------------------------------------------------------

func StateCtor(s string) string {
	switch s {
	case common.NodeStatePledging:
		return "Pledging"
	case common.NodeStateAccepted:
		return "Accepted"
	case common.NodeStateRemoved:
		return "Removed"
	case common.NodeStateCancelled:
		return "Cancelled"
	}
	panic("state " + s)
}

func recTerm(a *Alias, ts uint64, id crypto.Hash, key, payee crypto.Key, tx crypto.Hash, state string) string {
	return fmt.Sprintf("(mkrec %s %d %d %d %d %s)", a.T(ts), a.Of(id[:]), a.Of(key[:]), a.Of(payee[:]), a.Of(tx[:]), StateCtor(state))
}

func (w *World) RecTerm(a *Alias, r Rec) string {
	s := w.S(r.Signer)
	return recTerm(a, r.Ts, s.Id, s.Pub, s.Payee, TxHash(r.Tx), r.State)
}

func (w *World) RecsTerm(a *Alias, rs []Rec) string {
	el := make([]string, len(rs))
	for i, r := range rs {
		el[i] = w.RecTerm(a, r)
	}
	return vh.List(el, "nrec")
}

func CNodeRec(a *Alias, c *kernel.CNode) string {
	return recTerm(a, c.Timestamp, c.IdForNetwork, c.Signer.PublicSpendKey, c.Payee.PublicSpendKey, c.Transaction, c.State)
}

func CNodeTerm(a *Alias, c *kernel.CNode) string {
	return fmt.Sprintf("(mkc %s %d)", CNodeRec(a, c), c.ConsensusIndex)
}

func CNodesTerm(a *Alias, cs []*kernel.CNode) string {
	el := make([]string, len(cs))
	for i, c := range cs {
		el[i] = CNodeTerm(a, c)
	}
	return vh.List(el, "cnode")
}

func CNodeRecsTerm(a *Alias, cs []*kernel.CNode) string {
	el := make([]string, len(cs))
	for i, c := range cs {
		el[i] = CNodeRec(a, c)
	}
	return vh.List(el, "nrec")
}

func CNodeOpt(a *Alias, c *kernel.CNode) string {
	if c == nil {
		return vh.None("cnode")
	}
	return vh.Some(CNodeTerm(a, c))
}

func CommonNodesTerm(a *Alias, net crypto.Hash, ns []*common.Node) string {
	el := make([]string, len(ns))
	for i, n := range ns {
		el[i] = recTerm(a, n.Timestamp, n.IdForNetwork(net), n.Signer.PublicSpendKey, n.Payee.PublicSpendKey, n.Transaction, n.State)
	}
	return vh.List(el, "nrec")
}

func HashesTerm(a *Alias, hs []crypto.Hash) string {
	el := make([]string, len(hs))
	for i, h := range hs {
		el[i] = vh.NU(a.Of(h[:]))
	}
	return vh.List(el, "N")
}

func KeysTerm(a *Alias, ks []*crypto.Key) string {
	el := make([]string, len(ks))
	for i, k := range ks {
		el[i] = vh.NU(a.Of(k[:]))
	}
	return vh.List(el, "N")
}

// CNodesKey is a canonical string of a view, for the harness' own comparisons.
func CNodesKey(cs []*kernel.CNode) string {
	var sb bytes.Buffer
	for _, c := range cs {
		fmt.Fprintf(&sb, "%x/%x/%x/%x/%d/%s/%d;", c.IdForNetwork[:6], c.Signer.PublicSpendKey[:6], c.Payee.PublicSpendKey[:6],
			c.Transaction[:6], c.Timestamp, c.State, c.ConsensusIndex)
	}
	return sb.String()
}

func CNodeKey(c *kernel.CNode) string {
	if c == nil {
		return "nil"
	}
	return CNodesKey([]*kernel.CNode{c})
}

// ---- compact form of observed nodes ------------------------------------------------------

// Indexer maps an observed CNode to the position of its record in SortedRecs.
type Indexer struct {
	w   *World
	pos map[string]int
	rec []Rec
}

func (w *World) Indexer() *Indexer {
	ix := &Indexer{w: w, pos: map[string]int{}, rec: w.SortedRecs()}
	for i, r := range ix.rec {
		p := w.S(r.Signer).Pub
		ix.pos[fmt.Sprintf("%d/%x", r.Ts, p[:])] = i
	}
	return ix
}

// Pos is the position of the stored record equal to c in every field, or an
// out-of-range value if the node matches no stored record.
func (ix *Indexer) Pos(c *kernel.CNode) int {
	i, ok := ix.pos[fmt.Sprintf("%d/%x", c.Timestamp, c.Signer.PublicSpendKey[:])]
	if !ok {
		return 999999
	}
	r := ix.rec[i]
	s := ix.w.S(r.Signer)
	if c.IdForNetwork != s.Id || c.Payee.PublicSpendKey != s.Payee || c.Transaction != TxHash(r.Tx) || c.State != r.State {
		return 999998
	}
	return i
}

func (ix *Indexer) Term(c *kernel.CNode) string {
	return fmt.Sprintf("(I %d %d)", ix.Pos(c), c.ConsensusIndex)
}

func (ix *Indexer) List(cs []*kernel.CNode) string {
	el := make([]string, len(cs))
	for i, c := range cs {
		el[i] = ix.Term(c)
	}
	return vh.List(el, "ix")
}

func (ix *Indexer) Opt(c *kernel.CNode) string {
	if c == nil {
		return vh.None("ix")
	}
	return vh.Some(ix.Term(c))
}

func (ix *Indexer) PosList(cs []*kernel.CNode) string {
	el := make([]string, len(cs))
	for i, c := range cs {
		el[i] = vh.NU(uint64(ix.Pos(c)))
	}
	return vh.List(el, "N")
}
