// C15 harness: histories of real store calls on a real Badger store.  Batches of
// 1..255 transactions of mixed types are finalized through storage.WriteSnapshot
// in random orders, with a failing member at every position, overlapping
// snapshots and repeated members.  Before and after every call the FULL
// key/value dump of both databases is taken: the oracle (property text) checks
// all-or-nothing, the effect families and first-finalization-wins on the dump;
// the history and the decoded dump are sent to the Coq model.
package main

import (
	"bytes"
	"encoding/hex"
	"fmt"
	"math/big"
	"strings"

	"github.com/MixinNetwork/mixin/common"
	"github.com/MixinNetwork/mixin/crypto"
	"verifharness/cmd/c15/fin"
	"verifharness/vh"
)

type Case struct {
	Kind string       `json:"kind"`
	Ops  []fin.OpSpec `json:"ops,omitempty"`
	A    string       `json:"asset,omitempty"`
}

// ---- oracle on the dump ----------------------------------------------------------

var e8 = big.NewInt(100000000)

func txDelta(ver *common.VersionedTransaction) *big.Int {
	d := new(big.Int)
	switch {
	case ver.TransactionType() == common.TransactionTypeWithdrawalSubmit:
		for _, o := range ver.Outputs {
			if o.Type == common.OutputTypeWithdrawalSubmit {
				d.Sub(d, fin.Big(o.Amount))
			}
		}
	case ver.TransactionType() == common.TransactionTypeDeposit:
		d.Add(d, fin.Big(ver.Inputs[0].Deposit.Amount))
	case ver.TransactionType() == common.TransactionTypeMint:
		d.Add(d, fin.Big(ver.Inputs[0].Mint.Amount))
	case len(ver.Inputs[0].Genesis) > 0:
		for _, o := range ver.Outputs {
			d.Add(d, fin.Big(o.Amount))
		}
	}
	return d
}

func totalIn(d *fin.Dump, asset crypto.Hash) *big.Int {
	e, ok := d.Get("snapshots", append([]byte("ASSETTOTAL"), asset[:]...))
	if !ok {
		return new(big.Int)
	}
	return fin.Big(common.NewIntegerFromString(string(e.Value)))
}

// checkSnapshot transcribes the property: all or nothing; on success only the
// listed families change, exactly one snapshot/topology/work record and one
// uniqueness record per member appear; an already finalized member keeps its
// record, its outputs and totals are not applied again.
func checkSnapshot(c *vh.Ctx, cs Case, idx int, before, after *fin.Dump, snap *common.SnapshotWithTopologicalOrder, class string) {
	fail := func(sig, what string) { c.Fail(sig, fmt.Sprintf("op %d: %s", idx, what), cs) }
	diff := fin.DiffDumps(before, after)
	if class != "ok" {
		if !diff.Empty() {
			fail("partial-write-on-failure", "WriteSnapshot failed ("+class+") but the store changed: "+diff.String())
		}
		return
	}
	if len(diff.Removed) > 0 {
		fail("key-removed", "WriteSnapshot removed keys: "+diff.String())
	}
	for _, e := range append(append([]fin.Entry{}, diff.Added...), diff.Changed...) {
		if !fin.SnapshotFamilies[e.Family] {
			fail("foreign-family-changed", "WriteSnapshot changed a record outside the listed families: "+e.Family+" "+diff.String())
			return
		}
	}
	for _, e := range diff.Changed {
		switch e.Family {
		case "ASSETTOTAL", "NODESTATEQUEUE", "CUSTODIANUPDATE", "WITHDRAWAL", "WORKSNAPSHOT":
		default:
			fail("record-overwritten", "an existing "+e.Family+" record was overwritten: "+diff.String())
		}
	}
	sh := snap.PayloadHash()
	fresh := map[crypto.Hash]*common.VersionedTransaction{}
	var freshOrder []crypto.Hash
	member := map[crypto.Hash]bool{}
	for _, h := range snap.Transactions {
		member[h] = true
		fk := append([]byte("FINALIZATION"), h[:]...)
		old, was := before.Get("snapshots", fk)
		now, is := after.Get("snapshots", fk)
		if !is {
			fail("member-not-finalized", "member without finalization record "+h.String())
			continue
		}
		if was {
			if !bytes.Equal(old.Value, now.Value) {
				fail("finalization-overwritten", "first finalization record replaced for "+h.String())
			}
			continue
		}
		if !bytes.Equal(now.Value, sh[:]) {
			fail("finalization-wrong-snapshot", "new finalization record does not name this snapshot "+h.String())
		}
		if fresh[h] == nil {
			te, ok := after.Get("snapshots", append([]byte("TRANSACTION"), h[:]...))
			if !ok {
				fail("finalized-without-body", h.String())
				continue
			}
			ver, err := common.UnmarshalVersionedTransaction(te.Value)
			if err != nil {
				fail("finalized-without-body", h.String())
				continue
			}
			fresh[h] = ver
			freshOrder = append(freshOrder, h)
		}
		uk := append(append([]byte("UNIQUE"), h[:]...), snap.NodeId[:]...)
		if _, ok := after.Get("snapshots", uk); !ok {
			fail("unique-missing", "no per-node uniqueness record for "+h.String())
		}
	}
	counts := map[string]int{}
	deltas := map[crypto.Hash]*big.Int{}
	for _, h := range freshOrder {
		ver := fresh[h]
		if deltas[ver.Asset] == nil {
			deltas[ver.Asset] = new(big.Int)
		}
		deltas[ver.Asset].Add(deltas[ver.Asset], txDelta(ver))
	}
	for _, e := range diff.Added {
		counts[e.Family]++
		k := e.Key[len(e.Family):]
		switch e.Family {
		case "FINALIZATION":
			if !member[crypto.Hash(k)] {
				fail("finalization-of-non-member", hex.EncodeToString(k))
			}
		case "UTXO":
			if fresh[crypto.Hash(k[:32])] == nil {
				fail("outputs-reapplied", "output record written for a transaction that is not newly finalized "+hex.EncodeToString(k[:32]))
			}
		case "UNIQUE":
			if !member[crypto.Hash(k[:32])] || crypto.Hash(k[32:]) != snap.NodeId {
				fail("unique-of-non-member", hex.EncodeToString(k))
			}
		case "GHOST":
			if fresh[crypto.Hash(e.Value)] == nil {
				fail("ghost-of-non-member", hex.EncodeToString(k))
			}
		case "ASSETINFO":
			if deltas[crypto.Hash(k)] == nil {
				fail("asset-info-of-non-member", hex.EncodeToString(k))
			}
		}
	}
	if counts["SNAPSHOT"] != 1 || counts["TOPOLOGY"] != 1 || counts["SNAPTOPO"] != 1 {
		fail("snapshot-records", fmt.Sprintf("snapshot/topology records added: %v", counts))
	}
	nwork := counts["WORKSNAPSHOT"]
	for _, e := range diff.Changed {
		if e.Family == "WORKSNAPSHOT" {
			nwork++
		}
	}
	if nwork != 1 {
		fail("work-record", fmt.Sprintf("work records written: %d", nwork))
	}
	// every output of a newly finalized transaction that is a spendable type is recorded once, unlocked
	for _, h := range freshOrder {
		ver := fresh[h]
		for _, u := range ver.UnspentOutputs() {
			ue, ok := after.Get("snapshots", utxoKey(u.Hash, u.Index))
			if !ok {
				fail("output-missing", fmt.Sprintf("%s:%d", h, u.Index))
				continue
			}
			got, err := common.UnmarshalUTXO(ue.Value)
			if err != nil || got.Amount.Cmp(u.Amount) != 0 || got.Asset != ver.Asset || got.LockHash.HasValue() {
				fail("output-wrong", fmt.Sprintf("%s:%d", h, u.Index))
			}
		}
	}
	// totals: old + contribution of the newly finalized members only
	seen := map[crypto.Hash]bool{}
	for _, e := range append(append([]fin.Entry{}, diff.Added...), diff.Changed...) {
		if e.Family == "ASSETTOTAL" {
			a := crypto.Hash(e.Key[len("ASSETTOTAL"):])
			seen[a] = true
			if deltas[a] == nil {
				fail("total-of-non-member", "total of an asset without newly finalized member changed "+a.String())
			}
		}
	}
	for a, d := range deltas {
		want := new(big.Int).Add(totalIn(before, a), d)
		if got := totalIn(after, a); got.Cmp(want) != 0 {
			fail("total-wrong", fmt.Sprintf("asset %s total %s, expected old %s + newly finalized %s", a, got, totalIn(before, a), d))
		}
	}
}

func utxoKey(h crypto.Hash, index uint) []byte {
	buf := make([]byte, 10)
	n := putVarint(buf, int64(index))
	return append(append([]byte("UTXO"), h[:]...), buf[:n]...)
}

func putVarint(buf []byte, x int64) int {
	ux := uint64(x) << 1
	if x < 0 {
		ux = ^ux
	}
	i := 0
	for ux >= 0x80 {
		buf[i] = byte(ux) | 0x80
		ux >>= 7
		i++
	}
	buf[i] = byte(ux)
	return i + 1
}

// ---- session: executes ops, records the model history -----------------------------

type Session struct {
	c     *vh.Ctx
	st    *fin.Store
	cs    Case
	hops  []string
	kinds map[string]int
	nsnap int
	nfail int
	big   int
}

func newSession(c *vh.Ctx) *Session {
	return &Session{c: c, st: fin.OpenStore(), cs: Case{Kind: "hist"}, kinds: map[string]int{}}
}

func (se *Session) Do(op fin.OpSpec) string {
	idx := len(se.cs.Ops)
	se.cs.Ops = append(se.cs.Ops, op)
	if op.Kind != "snap" {
		class, term := se.st.Exec(op)
		if term != "" {
			se.hops = append(se.hops, vh.App("HOp", term, fin.CoqRes(class)))
		}
		return class
	}
	before := se.st.Dump()
	class, _ := se.st.Exec(op)
	after := se.st.Dump()
	snap, signers := op.Snap.Build()
	checkSnapshot(se.c, se.cs, idx, before, after, snap, class)
	se.nsnap++
	if class != "ok" {
		se.nfail++
	}
	if len(snap.Transactions) > se.big {
		se.big = len(snap.Transactions)
	}
	diff := fin.DiffDumps(before, after)
	nadded := 0
	var sample []string
	all := append(append([]fin.Entry{}, diff.Added...), diff.Changed...)
	for _, e := range diff.Added {
		if e.Coq != "" {
			nadded++
		}
	}
	stride := 1 + len(all)/48
	for i := 0; i < len(all); i += stride {
		if all[i].Coq != "" {
			sample = append(sample, all[i].Coq)
		}
	}
	se.hops = append(se.hops, vh.App("HSnap", fin.CoqSnap(snap), fin.HashList(signers), fin.CoqRes(class), vh.Nat(nadded), vh.List(sample, "entry")))
	return class
}

func (se *Session) Finish(kind string) {
	final := se.st.Dump()
	for _, e := range final.Entries {
		if strings.HasPrefix(e.Family, "MALFORMED") {
			se.c.Fail("malformed-record", "undecodable record in family "+e.Family, se.cs)
		}
	}
	term := vh.App("CHist", vh.List(se.hops, "hop"), vh.List(final.ModelEntries(), "entry"))
	key := fmt.Sprintf("%s|%d|%d|%x", kind, len(se.cs.Ops), se.nsnap, crypto.Blake3Hash([]byte(term)))
	se.c.Case(kind, key, se.nsnap > 0, se.cs, term)
	se.st.Close()
}

// ---- generator ----------------------------------------------------------------------

type out struct {
	hash  string
	index uint
	amt   *big.Int
}

type ptx struct {
	spec   fin.TxSpec
	hash   string
	poison bool
}

type Gen struct {
	se      *Session
	r       *vh.Rand
	assets  []string
	info    map[string][2]string // asset -> chain, key (as chosen by the first deposit)
	avail   map[string][]out
	pending []*ptx
	done    []*ptx
	keys    []string // ghost keys of finalized outputs
	nodes   []string
	topo    uint64
	ts      uint64
	depN    int
	mintN   uint64
	submits []string // finalized withdrawal submit hashes
	pledged *ptx
	custom  string
	refs    map[string][2]string
}

func hexH(h crypto.Hash) string { return hex.EncodeToString(h[:]) }

func newGen(se *Session, r *vh.Rand) *Gen {
	g := &Gen{se: se, r: r, info: map[string][2]string{}, avail: map[string][]out{}, ts: 1_700_000_000_000_000_000}
	g.custom = hexH(crypto.Blake3Hash(r.Bytes(8)))
	g.assets = []string{hexH(common.BitcoinAssetId), hexH(common.XINAssetId), hexH(common.EthereumAssetId), g.custom}
	n := r.Range(2, 4)
	for i := 0; i < n; i++ {
		node := hexH(crypto.Blake3Hash(r.Bytes(16)))
		g.nodes = append(g.nodes, node)
		se.Do(fin.OpSpec{Kind: "round", Node: node})
	}
	// a snapshot of round 0 carries exactly one transaction (payload encoding), so
	// all nodes but the last move to round 1, referencing the next node's round
	g.refs = map[string][2]string{}
	for i := 0; i < n-1; i++ {
		rs, re := hexH(crypto.Blake3Hash(r.Bytes(16))), g.nodes[(i+1)%n]
		g.refs[g.nodes[i]] = [2]string{rs, re}
		se.Do(fin.OpSpec{Kind: "round", Node: g.nodes[i], Round: 1, RefSelf: rs, RefExt: re})
	}
	return g
}

func (g *Gen) key() string { return hex.EncodeToString(g.r.Bytes(32)) }

func units(v *big.Int) string { return v.String() }

func (g *Gen) amount(maxWhole int) *big.Int {
	v := big.NewInt(int64(g.r.Range(1, maxWhole)))
	v.Mul(v, e8)
	if g.r.Chance(1, 3) {
		v.Add(v, big.NewInt(int64(g.r.Intn(100000000))))
	}
	return v
}

func (g *Gen) scriptOut(amt *big.Int) fin.OutSpec {
	o := fin.OutSpec{Type: common.OutputTypeScript, Amount: units(amt), Script: "fffe01", Mask: g.key()}
	for i, n := 0, g.r.Range(1, 2); i < n; i++ {
		o.Keys = append(o.Keys, g.key())
	}
	return o
}

// submit writes (lock + write) a transaction; returns nil if the store refused it
func (g *Gen) submit(spec fin.TxSpec, poison bool) *ptx {
	ver := spec.Build()
	hasOrd := false
	for _, in := range spec.Inputs {
		hasOrd = hasOrd || in.Kind == "ord"
	}
	if hasOrd {
		if g.se.Do(fin.OpSpec{Kind: "lock", Tx: &spec}) != "ok" {
			return nil
		}
	}
	if g.se.Do(fin.OpSpec{Kind: "write", Tx: &spec}) != "ok" {
		return nil
	}
	p := &ptx{spec: spec, hash: hexH(ver.PayloadHash()), poison: poison}
	if !poison {
		g.pending = append(g.pending, p)
	}
	return p
}

func (g *Gen) deposit(asset string, amt *big.Int, akey string) fin.TxSpec {
	g.depN++
	chain := hexH(common.EthereumAssetId)
	if inf, ok := g.info[asset]; ok && akey == "" {
		chain, akey = inf[0], inf[1]
	} else if akey == "" {
		akey = fmt.Sprintf("0xassetkey%s", asset[:6])
	}
	return fin.TxSpec{Asset: asset,
		Inputs:  []fin.InSpec{{Kind: "deposit", Chain: chain, AKey: akey, TxID: fmt.Sprintf("0xdep%d", g.depN), DIndex: uint64(g.depN), Amount: units(amt)}},
		Outputs: []fin.OutSpec{g.scriptOut(amt)}}
}

func (g *Gen) take(asset string) (out, bool) {
	l := g.avail[asset]
	if len(l) == 0 {
		return out{}, false
	}
	i := g.r.Intn(len(l))
	o := l[i]
	g.avail[asset] = append(l[:i:i], l[i+1:]...)
	return o, true
}

// spend builds a transaction over 1..2 available outputs; first output type ft
func (g *Gen) spend(asset string, ft uint8, extra string, refs []string) (fin.TxSpec, bool) {
	spec := fin.TxSpec{Asset: asset, Extra: extra, Refs: refs}
	sum := new(big.Int)
	for i, n := 0, g.r.Range(1, 2); i < n; i++ {
		o, ok := g.take(asset)
		if !ok {
			break
		}
		spec.Inputs = append(spec.Inputs, fin.InSpec{Kind: "ord", Hash: o.hash, Index: o.index})
		sum.Add(sum, o.amt)
	}
	if len(spec.Inputs) == 0 {
		return spec, false
	}
	first := new(big.Int).Set(sum)
	if sum.Cmp(big.NewInt(2)) >= 0 && g.r.Chance(2, 3) {
		first.Div(sum, big.NewInt(int64(g.r.Range(2, 4))))
		if first.Sign() == 0 {
			first.SetInt64(1)
		}
	}
	if ft == common.OutputTypeScript {
		spec.Outputs = append(spec.Outputs, g.scriptOut(first))
	} else {
		spec.Outputs = append(spec.Outputs, fin.OutSpec{Type: ft, Amount: units(first)})
	}
	if rest := new(big.Int).Sub(sum, first); rest.Sign() > 0 {
		spec.Outputs = append(spec.Outputs, g.scriptOut(rest))
	}
	return spec, true
}

func (g *Gen) currentTotal(asset string) *big.Int {
	_, bal, err := g.se.st.S.ReadAssetWithBalance(fin.H(asset))
	if err != nil {
		panic(err)
	}
	return fin.Big(bal)
}

// newTx creates one mostly valid transaction of a random type and writes it
func (g *Gen) newTx() {
	asset := g.assets[g.r.Intn(len(g.assets))]
	_, known := g.info[asset]
	switch k := g.r.Intn(12); {
	case !known || k < 3:
		amt := g.amount(40)
		if asset == g.assets[0] {
			// keep BTC comfortably below its capacity in the valid stream
			room := new(big.Int).Sub(fin.Big(common.GetAssetCapacity(common.BitcoinAssetId)), g.currentTotal(asset))
			room.Div(room, big.NewInt(400))
			if room.Sign() <= 0 {
				return
			}
			if amt.Cmp(room) > 0 {
				amt = room
			}
		}
		if p := g.submit(g.deposit(asset, amt, ""), false); p != nil {
			if !known {
				in := p.spec.Inputs[0]
				g.info[asset] = [2]string{in.Chain, in.AKey}
			}
		}
	case k < 4:
		g.mintN++
		amt := g.amount(20)
		g.submit(fin.TxSpec{Asset: asset, Inputs: []fin.InSpec{{Kind: "mint", Batch: g.mintN, Amount: units(amt)}},
			Outputs: []fin.OutSpec{g.scriptOut(amt)}}, false)
	case k < 8:
		if spec, ok := g.spend(asset, common.OutputTypeScript, "", nil); ok {
			g.submit(spec, false)
		}
	case k < 9:
		if spec, ok := g.spend(asset, common.OutputTypeWithdrawalSubmit, "", nil); ok {
			g.submit(spec, false)
		}
	case k < 10:
		if len(g.submits) > 0 {
			if spec, ok := g.spend(asset, common.OutputTypeWithdrawalClaim, hex.EncodeToString(g.r.Bytes(70)), []string{g.submits[g.r.Intn(len(g.submits))]}); ok {
				g.submit(spec, false)
			}
		} else if spec, ok := g.spend(asset, common.OutputTypeWithdrawalSubmit, "", nil); ok {
			g.submit(spec, false)
		}
	default:
		// node operations: pledge, then accept / cancel of the pledging node, or remove
		extra := hex.EncodeToString(g.r.Bytes(64))
		ft := uint8(common.OutputTypeNodePledge)
		if g.pledged != nil {
			extra = g.pledged.spec.Extra
			ft = []uint8{common.OutputTypeNodeAccept, common.OutputTypeNodeCancel, common.OutputTypeNodeRemove}[g.r.Intn(3)]
		}
		if spec, ok := g.spend(asset, ft, extra, nil); ok {
			if p := g.submit(spec, false); p != nil && ft == common.OutputTypeNodePledge {
				g.pledged = p
			} else if p != nil {
				g.pledged = nil
			}
		}
	}
}

// failing builds (and writes, unless the failure is a missing body) a member that cannot be finalized
func (g *Gen) failing() (hash string, what string) {
	known := []string{}
	for _, a := range g.assets {
		if _, ok := g.info[a]; ok {
			known = append(known, a)
		}
	}
	for tries := 0; tries < 6; tries++ {
		switch g.r.Intn(9) {
		case 0: // body never written
			spec := g.deposit(g.assets[g.r.Intn(len(g.assets))], g.amount(5), "")
			return hexH(spec.Build().PayloadHash()), "missing-body"
		case 1: // output key owned by an already finalized transaction
			if len(g.keys) == 0 || len(known) == 0 {
				continue
			}
			spec := g.deposit(known[g.r.Intn(len(known))], g.amount(3), "")
			spec.Outputs[0].Keys[0] = g.keys[g.r.Intn(len(g.keys))]
			if p := g.submit(spec, true); p != nil {
				return p.hash, "foreign-ghost"
			}
		case 2: // deposit pushing the total above the capacity
			a := g.assets[0]
			if _, ok := g.info[a]; !ok {
				continue
			}
			over := new(big.Int).Sub(fin.Big(common.GetAssetCapacity(common.BitcoinAssetId)), g.currentTotal(a))
			over.Add(over, big.NewInt(int64(g.r.Range(1, 1000))))
			if p := g.submit(g.deposit(a, over, ""), true); p != nil {
				return p.hash, "capacity"
			}
		case 3: // unknown output type
			if len(known) == 0 {
				continue
			}
			spec := g.deposit(known[g.r.Intn(len(known))], g.amount(3), "")
			spec.Outputs = append(spec.Outputs, fin.OutSpec{Type: 0x77, Amount: "5"})
			if p := g.submit(spec, true); p != nil {
				return p.hash, "unknown-output-type"
			}
		case 4: // node accept / remove without a matching pledge
			if len(known) == 0 {
				continue
			}
			spec := g.deposit(known[g.r.Intn(len(known))], g.amount(3), "")
			spec.Outputs[0] = fin.OutSpec{Type: []uint8{common.OutputTypeNodeAccept, common.OutputTypeNodeRemove, common.OutputTypeNodeCancel}[g.r.Intn(3)], Amount: spec.Outputs[0].Amount}
			spec.Extra = hex.EncodeToString(g.r.Bytes(64))
			if p := g.submit(spec, true); p != nil {
				return p.hash, "node-op-without-pledge"
			}
		case 5: // claim of a submission that is not finalized
			if len(known) == 0 {
				continue
			}
			spec := g.deposit(known[g.r.Intn(len(known))], g.amount(3), "")
			spec.Outputs[0] = fin.OutSpec{Type: common.OutputTypeWithdrawalClaim, Amount: spec.Outputs[0].Amount}
			if g.r.Bool() {
				spec.Refs = []string{g.key()}
			}
			if p := g.submit(spec, true); p != nil {
				return p.hash, "claim-unfinalized"
			}
		case 6: // genesis-typed transaction in an asset without asset info
			a := hexH(crypto.Blake3Hash(g.r.Bytes(8)))
			spec := fin.TxSpec{Asset: a, Inputs: []fin.InSpec{{Kind: "genesis", TxID: "g" + a[:8]}}, Outputs: []fin.OutSpec{g.scriptOut(g.amount(3))}}
			if p := g.submit(spec, true); p != nil {
				return p.hash, "no-asset-info"
			}
		case 7: // custodian update with an extra that does not parse
			if len(known) == 0 {
				continue
			}
			spec := g.deposit(known[g.r.Intn(len(known))], g.amount(3), "")
			spec.Outputs[0].Type = common.OutputTypeCustodianUpdateNodes
			spec.Extra = hex.EncodeToString(g.r.Bytes(g.r.Range(0, 90)))
			if p := g.submit(spec, true); p != nil {
				return p.hash, "custodian-extra"
			}
		case 8: // second identity for a new asset: both deposits written before either is finalized
			a := hexH(crypto.Blake3Hash(g.r.Bytes(8)))
			p1 := g.submit(g.deposit(a, g.amount(3), "0xfirst"), true)
			p2 := g.submit(g.deposit(a, g.amount(3), "0xsecond"), true)
			if p1 != nil && p2 != nil {
				g.pending = append(g.pending, p1) // finalizes (first wins) ...
				g.info[a] = [2]string{p1.spec.Inputs[0].Chain, p1.spec.Inputs[0].AKey}
				g.assets = append(g.assets, a)
				return p2.hash, "asset-info-conflict" // ... the second can only follow it and fail
			}
		}
	}
	spec := g.deposit(g.assets[0], g.amount(5), "")
	return hexH(spec.Build().PayloadHash()), "missing-body"
}

func materialized(t uint8) bool {
	switch t {
	case common.OutputTypeWithdrawalSubmit, common.OutputTypeCustodianSlashNodes:
		return false
	}
	return true
}

// commit updates the generator's bookkeeping after a successful snapshot
func (g *Gen) commit(batch []*ptx) {
	fresh := map[string]bool{}
	for _, p := range batch {
		fresh[p.hash] = true
	}
	var rest []*ptx
	for _, p := range g.pending {
		if !fresh[p.hash] {
			rest = append(rest, p)
			continue
		}
		g.done = append(g.done, p)
		for i, o := range p.spec.Outputs {
			amt, _ := new(big.Int).SetString(o.Amount, 10)
			if o.Type == common.OutputTypeScript {
				g.avail[p.spec.Asset] = append(g.avail[p.spec.Asset], out{p.hash, uint(i), amt})
			}
			g.keys = append(g.keys, o.Keys...)
			if i == 0 && o.Type == common.OutputTypeWithdrawalSubmit {
				g.submits = append(g.submits, p.hash)
			}
		}
	}
	g.pending = rest
}

// snapshot finalizes a batch: size members of pending (plus overlaps / repeats), optionally a failing member at pos
func (g *Gen) snapshot(size int, withFailure bool, pos int) {
	for tries := 0; len(g.pending) < size && tries < 6*size+20; tries++ {
		before := len(g.pending)
		g.newTx()
		if len(g.pending) == before && g.r.Chance(1, 2) {
			// nothing spendable: fund with a deposit of the unbounded custom asset
			g.submit(g.deposit(g.custom, g.amount(40), ""), false)
			if _, ok := g.info[g.custom]; !ok {
				g.info[g.custom] = [2]string{hexH(common.EthereumAssetId), fmt.Sprintf("0xassetkey%s", g.custom[:6])}
			}
		}
	}
	if size > len(g.pending) {
		size = len(g.pending)
	}
	// members in random order; dependencies between pending members do not matter for storage
	perm := make([]int, len(g.pending))
	for i := range perm {
		perm[i] = i
	}
	for i := len(perm) - 1; i > 0; i-- {
		j := g.r.Intn(i + 1)
		perm[i], perm[j] = perm[j], perm[i]
	}
	var batch []*ptx
	var txs []string
	for _, i := range perm[:size] {
		batch = append(batch, g.pending[i])
		txs = append(txs, g.pending[i].hash)
	}
	node := g.nodes[g.r.Intn(len(g.nodes)-1)]
	// overlap: members finalized by earlier snapshots (of any node), and a repeated member
	for n := g.r.Intn(3); n > 0 && len(g.done) > 0 && len(txs) < 255; n-- {
		h := g.done[g.r.Intn(len(g.done))].hash
		at := g.r.Intn(len(txs) + 1)
		txs = append(txs[:at:at], append([]string{h}, txs[at:]...)...)
	}
	if len(txs) == 1 && g.r.Chance(1, 3) {
		node = g.nodes[len(g.nodes)-1] // the node still in round 0
	}
	mk := func(l0 []string) fin.OpSpec {
		var l []string // the payload encoding refuses a repeated member
		dup := map[string]bool{}
		for _, h := range l0 {
			if !dup[h] {
				dup[h] = true
				l = append(l, h)
			}
		}
		g.topo++
		g.ts += uint64(g.r.Range(1, 1000)) * 1_000_000
		sp := &fin.SnapSpec{Node: node, Round: 0, TS: g.ts, Txs: l, Topo: g.topo}
		if rf, ok := g.refs[node]; ok {
			sp.Round, sp.RefSelf, sp.RefExt = 1, rf[0], rf[1]
		}
		if sp.Round == 0 && len(l) != 1 {
			sp.Node = g.nodes[0]
			rf := g.refs[sp.Node]
			sp.Round, sp.RefSelf, sp.RefExt = 1, rf[0], rf[1]
		}
		for i, n := 0, g.r.Intn(3); i < n; i++ {
			sp.Signers = append(sp.Signers, g.nodes[g.r.Intn(len(g.nodes))])
		}
		return fin.OpSpec{Kind: "snap", Snap: sp}
	}
	if withFailure {
		fh, what := g.failing()
		if pos > len(txs) {
			pos = len(txs)
		}
		bad := append(append(append([]string{}, txs[:pos]...), fh), txs[pos:]...)
		if len(bad) > 255 {
			bad = bad[:255]
		}
		g.se.kinds["failing:"+what]++
		g.se.c.Count("member:" + what)
		class := g.se.Do(mk(bad))
		if class == "ok" {
			// an asset-info conflict placed before its rival wins instead: both stay consistent
			var ok []*ptx
			in := map[string]bool{}
			for _, h := range bad {
				in[h] = true
			}
			for _, p := range g.pending {
				if in[p.hash] {
					ok = append(ok, p)
				}
			}
			g.commit(ok)
			return
		}
	}
	// snapshot level failures
	switch g.r.Intn(14) {
	case 0: // topology order already used
		op := mk(txs)
		if g.topo > 1 {
			op.Snap.Topo = uint64(g.r.Range(1, int(g.topo)-1))
			g.se.c.Count("snapshot:topology-reused")
			g.se.Do(op)
		}
	case 1: // wrong round number / node without a round
		op := mk(txs)
		switch g.r.Intn(3) {
		case 0:
			op.Snap.Round = uint64(g.r.Range(2, 3))
		case 1:
			op.Snap.Node = g.key()
		default:
			if op.Snap.Round > 0 {
				op.Snap.RefSelf = g.key() // references differ from the cache round
			} else {
				op.Snap.Round = 2
			}
		}
		g.se.c.Count("snapshot:round-assert")
		g.se.Do(op)
	}
	if g.se.Do(mk(txs)) == "ok" {
		g.commit(batch)
		if g.r.Chance(1, 5) { // the same node presents a member again
			g.se.c.Count("snapshot:member-repeated-by-node")
			g.se.Do(mk([]string{txs[g.r.Intn(len(txs))]}))
		}
	}
}

func history(c *vh.Ctx, r *vh.Rand, big int) {
	se := newSession(c)
	g := newGen(se, r)
	kind := "history"
	if big > 0 {
		kind = "history-big"
		g.snapshot(big, false, 0)
		g.snapshot(big/2, true, r.Intn(big/2+1))
		g.snapshot(8, false, 0)
	} else {
		steps := r.Range(3, 8)
		for i := 0; i < steps; i++ {
			size := r.Range(1, 9)
			g.snapshot(size, r.Chance(1, 2), r.Intn(size+1))
		}
	}
	se.Finish(kind)
}

// failure at every position of one fixed batch
func everyPosition(c *vh.Ctx, r *vh.Rand, size int) {
	se := newSession(c)
	g := newGen(se, r)
	g.snapshot(size, false, 0) // fund
	for pos := 0; pos <= size; pos++ {
		g.snapshot(size, true, pos)
	}
	se.Finish("failure-at-every-position")
}

func replay(c *vh.Ctx, cs Case) {
	if cs.Kind == "cap" {
		capCase(c, cs.A)
		return
	}
	se := newSession(c)
	for _, op := range cs.Ops {
		se.Do(op)
	}
	se.cs = cs
	se.Finish("replay")
}

func capCase(c *vh.Ctx, a string) {
	h := fin.H(a)
	v := fin.Big(common.GetAssetCapacity(h))
	c.Case("capacity", "cap|"+a, true, Case{Kind: "cap", A: a}, vh.App("CCap", vh.BytesAsN(h[:]), vh.Z(v)))
	if v.Sign() <= 0 {
		c.Fail("capacity-not-positive", a, Case{Kind: "cap", A: a})
	}
}

func main() {
	c := vh.Start("C15")
	c.Rep.Rule = "a case is one history on a fresh Badger store: rounds, LockUTXOs/WriteTransaction of deposits, mints, transfers, withdrawal submits/claims, node operations, then WriteSnapshot of batches (1..255 members, random order, members already finalized by other snapshots, repeated members) with a member that cannot be finalized (missing body, foreign ghost key, capacity overflow, unknown output type, node op without pledge, claim of an unfinalized submission, missing or conflicting asset info, unparseable custodian extra) at every position, and snapshot-level failures; non-trivial = at least one WriteSnapshot ran; distinct = digest of the whole history"
	if c.Replay != "" {
		var cs Case
		c.ReplayCase(&cs)
		replay(c, cs)
		c.Finish()
		return
	}
	for _, id := range []crypto.Hash{common.BitcoinAssetId, common.EthereumAssetId, common.XINAssetId, common.BOXAssetId, common.MOBAssetId,
		common.USDTEthereumAssetId, common.USDTTRONAssetId, common.PandoUSDAssetId, common.USDCAssetId, common.EOSAssetId, common.SOLAssetId,
		common.UNIAssetId, common.DOGEAssetId, crypto.Blake3Hash([]byte("other")), {}} {
		capCase(c, hexH(id))
	}
	// corpus: failure at every position of batches of 1, 2, 5 members
	for _, n := range []int{1, 2, 5} {
		everyPosition(c, c.Rng.Fork(fmt.Sprintf("pos%d", n)), n)
	}
	n := c.Scale(6, 200)
	for i := 0; i < n; i++ {
		history(c, c.Rng.Fork(fmt.Sprintf("h%d", i)), 0)
	}
	nb := c.Scale(1, 8)
	for i := 0; i < nb; i++ {
		size := 255
		if i%3 == 1 {
			size = c.Rng.Range(60, 254)
		}
		history(c, c.Rng.Fork(fmt.Sprintf("b%d", i)), size)
	}
	c.Finish()
}
