// Package fin is the shared machinery of the C15 and C17 harnesses: concrete,
// replayable descriptions of transactions / snapshots / store calls, their
// execution on a real Badger store, the decoding of the full key/value dump into
// record families and the Coq terms of coq/Model/Finalize.v.
package fin

import (
	"bytes"
	"encoding/binary"
	"encoding/hex"
	"encoding/json"
	"fmt"
	"math/big"
	"os"
	"path/filepath"
	"sort"
	"strings"

	"github.com/MixinNetwork/mixin/common"
	"github.com/MixinNetwork/mixin/config"
	"github.com/MixinNetwork/mixin/crypto"
	"github.com/MixinNetwork/mixin/storage"
	"verifharness/vh"
)

// ---- specs (JSON, self-contained) -------------------------------------------

type InSpec struct {
	Kind   string `json:"k"` // ord | deposit | mint | genesis
	Hash   string `json:"h,omitempty"`
	Index  uint   `json:"i,omitempty"`
	Chain  string `json:"chain,omitempty"`
	AKey   string `json:"akey,omitempty"`
	TxID   string `json:"txid,omitempty"`
	DIndex uint64 `json:"dindex,omitempty"`
	Batch  uint64 `json:"batch,omitempty"`
	Amount string `json:"amt,omitempty"` // units of 1e-8
}

type OutSpec struct {
	Type   uint8    `json:"t"`
	Amount string   `json:"amt"`
	Keys   []string `json:"keys,omitempty"`
	Script string   `json:"script,omitempty"` // hex
	Mask   string   `json:"mask,omitempty"`
}

type TxSpec struct {
	Asset   string    `json:"asset"`
	Inputs  []InSpec  `json:"in"`
	Outputs []OutSpec `json:"out"`
	Extra   string    `json:"extra,omitempty"`
	Refs    []string  `json:"refs,omitempty"`
	Sign    []string  `json:"sign,omitempty"` // seeds (hex) of the accounts that sign every input; C17 only
}

type SnapSpec struct {
	Node    string   `json:"node"`
	Round   uint64   `json:"round"`
	TS      uint64   `json:"ts"`
	Txs     []string `json:"txs"`
	Topo    uint64   `json:"topo"`
	Signers []string `json:"signers,omitempty"`
	RefSelf string   `json:"rself,omitempty"`
	RefExt  string   `json:"rext,omitempty"`
}

type OpSpec struct {
	Kind    string     `json:"op"` // round | write | lock | snap | genesis
	Node    string     `json:"node,omitempty"`
	Round   uint64     `json:"round,omitempty"`
	RefSelf string     `json:"rself,omitempty"`
	RefExt  string     `json:"rext,omitempty"`
	Tx      *TxSpec    `json:"tx,omitempty"`
	Snap    *SnapSpec  `json:"snap,omitempty"`
	Genesis []GenEntry `json:"genesis,omitempty"`
	TS      uint64     `json:"ts,omitempty"` // validation time of a "validated" op
}

type GenEntry struct {
	Snap SnapSpec `json:"snap"`
	Tx   TxSpec   `json:"tx"`
}

func H(s string) crypto.Hash {
	b, err := hex.DecodeString(s)
	if err != nil || len(b) != 32 {
		panic("bad hash " + s)
	}
	var h crypto.Hash
	copy(h[:], b)
	return h
}

func K(s string) crypto.Key {
	b, err := hex.DecodeString(s)
	if err != nil || len(b) != 32 {
		panic("bad key " + s)
	}
	var k crypto.Key
	copy(k[:], b)
	return k
}

func Units(s string) common.Integer {
	v, ok := new(big.Int).SetString(s, 10)
	if !ok {
		panic("bad amount " + s)
	}
	return common.VerifIntegerFromBig(v)
}

func Big(x common.Integer) *big.Int { return common.VerifIntegerBig(x) }

func (t *TxSpec) Build() *common.VersionedTransaction {
	tx := common.NewTransactionV5(H(t.Asset))
	for _, in := range t.Inputs {
		switch in.Kind {
		case "ord":
			tx.Inputs = append(tx.Inputs, &common.Input{Hash: H(in.Hash), Index: in.Index})
		case "deposit":
			tx.Inputs = append(tx.Inputs, &common.Input{Deposit: &common.DepositData{
				Chain: H(in.Chain), AssetKey: in.AKey, Transaction: in.TxID, Index: in.DIndex, Amount: Units(in.Amount)}})
		case "mint":
			tx.Inputs = append(tx.Inputs, &common.Input{Mint: &common.MintData{Group: "UNIVERSAL", Batch: in.Batch, Amount: Units(in.Amount)}})
		case "genesis":
			tx.Inputs = append(tx.Inputs, &common.Input{Genesis: []byte(in.TxID)})
		default:
			panic("input kind " + in.Kind)
		}
	}
	for _, o := range t.Outputs {
		out := &common.Output{Type: o.Type, Amount: Units(o.Amount)}
		for _, k := range o.Keys {
			kk := K(k)
			out.Keys = append(out.Keys, &kk)
		}
		if o.Script != "" {
			b, _ := hex.DecodeString(o.Script)
			out.Script = common.Script(b)
		}
		if o.Mask != "" {
			out.Mask = K(o.Mask)
		}
		if o.Type == common.OutputTypeWithdrawalSubmit {
			out.Withdrawal = &common.WithdrawalData{Address: "0xVERIF", Tag: ""}
		}
		tx.Outputs = append(tx.Outputs, out)
	}
	if t.Extra != "" {
		tx.Extra, _ = hex.DecodeString(t.Extra)
	}
	for _, r := range t.Refs {
		tx.References = append(tx.References, H(r))
	}
	return tx.AsVersioned()
}

func (s *SnapSpec) Build() (*common.SnapshotWithTopologicalOrder, []crypto.Hash) {
	snap := &common.SnapshotWithTopologicalOrder{
		Snapshot: &common.Snapshot{
			Version:     common.SnapshotVersionCommonEncoding,
			NodeId:      H(s.Node),
			RoundNumber: s.Round,
			Timestamp:   s.TS,
		},
		TopologicalOrder: s.Topo,
	}
	if s.RefSelf != "" {
		snap.References = &common.RoundLink{Self: H(s.RefSelf), External: H(s.RefExt)}
	}
	for _, h := range s.Txs {
		snap.Transactions = append(snap.Transactions, H(h))
	}
	snap.Hash = snap.PayloadHash()
	var signers []crypto.Hash
	for _, h := range s.Signers {
		signers = append(signers, H(h))
	}
	return snap, signers
}

// ---- Coq terms ----------------------------------------------------------------

// Hash-valued fields the model only tests for equality (transaction, snapshot
// and node ids, ghost keys) are sent as their 8-byte prefix: Coq spends its time
// interpreting long numerals.  The prefix map is checked to be injective.
// Asset ids, chains and node signer/payee keys (compared with constants or
// computed from bytes inside the model) are sent in full.
var prefixOf = map[uint64][32]byte{}

func short(b [32]byte) string {
	p := binary.BigEndian.Uint64(b[:8])
	if old, ok := prefixOf[p]; ok && old != b {
		panic("8-byte prefix collision")
	}
	prefixOf[p] = b
	return vh.NU(p)
}

func hN(h crypto.Hash) string    { return short(h) }
func kN(k crypto.Key) string     { return short(k) }
func hFull(h crypto.Hash) string { return vh.BytesAsN(h[:]) }

func strN(s string) string { return vh.BytesAsN([]byte(s)) }

func CoqTx(ver *common.VersionedTransaction) string {
	var ins []string
	for _, in := range ver.Inputs {
		switch {
		case in.Mint != nil:
			ins = append(ins, vh.App("IMint", vh.Z(Big(in.Mint.Amount))))
		case in.Deposit != nil:
			ins = append(ins, vh.App("IDeposit", hFull(in.Deposit.Chain), strN(in.Deposit.AssetKey), vh.Z(Big(in.Deposit.Amount))))
		case in.Genesis != nil:
			ins = append(ins, "IGenesis")
		default:
			ins = append(ins, vh.App("IOrd", hN(in.Hash), vh.NU(uint64(in.Index))))
		}
	}
	var outs []string
	for _, o := range ver.Outputs {
		var ks []string
		for _, k := range o.Keys {
			ks = append(ks, kN(*k))
		}
		outs = append(outs, vh.App("Build_output", vh.ZI(int64(o.Type)), vh.Z(Big(o.Amount)), vh.List(ks, "N")))
	}
	var refs []string
	for _, r := range ver.References {
		refs = append(refs, hN(r))
	}
	cust := vh.None("(N*N)")
	genesis := len(ver.Inputs) > 0 && len(ver.Inputs[0].Genesis) > 0
	if cur, err := common.ParseCustodianUpdateNodesExtra(ver.Extra, genesis); err == nil {
		id := append(append([]byte{}, cur.Custodian.PublicSpendKey[:]...), cur.Custodian.PublicViewKey[:]...)
		cust = vh.Some("(" + vh.BytesAsN(id) + ", " + vh.NU(uint64(len(cur.Nodes))) + ")")
	}
	extra := ver.Extra // the model reads only the first 64 bytes (node signer and payee)
	if len(extra) > 64 {
		extra = extra[:64]
	}
	return vh.App("Build_tx", hN(ver.PayloadHash()), hFull(ver.Asset), vh.List(ins, "input"), vh.List(outs, "output"),
		vh.Bytes(extra), vh.List(refs, "N"), cust)
}

func CoqSnap(s *common.SnapshotWithTopologicalOrder) string {
	var txs []string
	for _, h := range s.Transactions {
		txs = append(txs, hN(h))
	}
	refs := "(0%N, 0%N)"
	if s.References != nil {
		refs = "(" + hN(s.References.Self) + ", " + hN(s.References.External) + ")"
	}
	return vh.App("Build_snapshot", hN(s.PayloadHash()), hN(s.Hash), hN(s.NodeId), vh.NU(s.RoundNumber), vh.NU(s.Timestamp),
		refs, vh.List(txs, "N"), vh.NU(s.TopologicalOrder))
}

func HashList(hs []crypto.Hash) string {
	var l []string
	for _, h := range hs {
		l = append(l, hN(h))
	}
	return vh.List(l, "N")
}

// ---- the store -------------------------------------------------------------------

type Store struct {
	S   *storage.BadgerStore
	dir string
}

func OpenStore() *Store {
	repo := os.Getenv("VERIF_REPO")
	if repo == "" {
		repo = "/repo"
	}
	custom, err := config.Initialize(filepath.Join(repo, "config", "config.example.toml"))
	if err != nil {
		panic(err)
	}
	custom.Storage.ValueLogGC = false
	dir, err := os.MkdirTemp("", "verif-fin-")
	if err != nil {
		panic(err)
	}
	s, err := storage.NewBadgerStore(custom, dir)
	if err != nil {
		panic(err)
	}
	return &Store{S: s, dir: dir}
}

func (s *Store) Close() {
	s.S.Close()
	os.RemoveAll(s.dir)
}

// ---- dump decoding ------------------------------------------------------------------

// Entry is one decoded key/value pair.
type Entry struct {
	DB     string
	Family string // key prefix
	Key    []byte
	Value  []byte
	Coq    string // term of type entry, "" for families outside the model
}

// families written by WriteSnapshot according to the property text
var SnapshotFamilies = map[string]bool{
	"FINALIZATION": true, "UTXO": true, "GHOST": true, "ASSETINFO": true, "ASSETTOTAL": true,
	"NODESTATEQUEUE": true, "CUSTODIANUPDATE": true, "WITHDRAWAL": true,
	"UNIQUE": true, "SNAPSHOT": true, "TOPOLOGY": true, "SNAPTOPO": true, "WORKSNAPSHOT": true,
}

var prefixes = []string{"GHOST", "UTXO", "DEPOSIT", "WITHDRAWAL", "MINTUNIVERSAL", "TRANSACTION", "FINALIZATION",
	"UNIQUE", "ROUND", "SNAPSHOT", "LINK", "TOPOLOGY", "SNAPTOPO", "WORKPROPOSE", "WORKVOTE", "WORKCHECKPOINT",
	"WORKSNAPSHOT", "SPACECHECKPOINT", "SPACEQUEUE", "ASSETINFO", "ASSETTOTAL", "CUSTODIANUPDATE",
	"CONSENSUSSNAPSHOT", "NODESTATEQUEUE", "NODEOPERATION"}

func familyOf(key []byte) string {
	best := ""
	for _, p := range prefixes {
		if bytes.HasPrefix(key, []byte(p)) && len(p) > len(best) {
			best = p
		}
	}
	return best
}

func h32(b []byte) crypto.Hash {
	var h crypto.Hash
	copy(h[:], b)
	return h
}

var nodeStates = map[string]int64{"PLEDGING": 0, "ACCEPTED": 1, "REMOVED": 2, "CANCELLED": 3}

func decode(kv storage.VerifKV) Entry {
	e := Entry{DB: kv.DB, Key: kv.Key, Value: kv.Value}
	if kv.DB != "snapshots" {
		e.Family = "cache:" + familyOf(kv.Key)
		return e
	}
	e.Family = familyOf(kv.Key)
	k := kv.Key[len(e.Family):]
	v := kv.Value
	bad := func() Entry { e.Family = "MALFORMED:" + e.Family; return e }
	switch e.Family {
	case "TRANSACTION":
		if len(k) != 32 {
			return bad()
		}
		e.Coq = vh.App("ETx", hN(h32(k)))
	case "FINALIZATION":
		if len(k) != 32 || len(v) != 32 {
			return bad()
		}
		e.Coq = vh.App("EFin", hN(h32(k)), hN(h32(v)))
	case "UTXO":
		if len(k) < 33 {
			return bad()
		}
		idx, n := binary.Varint(k[32:])
		u, err := common.UnmarshalUTXO(v)
		if err != nil || n <= 0 || u.Hash != h32(k[:32]) || int64(u.Index) != idx {
			return bad()
		}
		var ks []string
		for _, kk := range u.Keys {
			ks = append(ks, kN(*kk))
		}
		e.Coq = vh.App("EUtxo", hN(u.Hash), vh.NU(uint64(u.Index)), hFull(u.Asset), vh.ZI(int64(u.Type)), vh.Z(Big(u.Amount)),
			vh.List(ks, "N"), hN(u.LockHash))
	case "GHOST":
		if len(k) != 32 || len(v) != 32 {
			return bad()
		}
		e.Coq = vh.App("EGhost", hN(h32(k)), hN(h32(v)))
	case "ASSETINFO":
		var a common.Asset
		if len(k) != 32 || json.Unmarshal(v, &a) != nil {
			return bad()
		}
		e.Coq = vh.App("EInfo", hFull(h32(k)), hFull(a.Chain), strN(a.AssetKey))
	case "ASSETTOTAL":
		if len(k) != 32 {
			return bad()
		}
		var amt common.Integer
		if p, _ := vh.Catch(func() { amt = common.NewIntegerFromString(string(v)) }); p {
			return bad()
		}
		e.Coq = vh.App("ETotal", hFull(h32(k)), vh.Z(Big(amt)))
	case "UNIQUE":
		if len(k) != 64 {
			return bad()
		}
		e.Coq = vh.App("EUniq", hN(h32(k[:32])), hN(h32(k[32:])))
	case "SNAPSHOT":
		if len(k) != 72 {
			return bad()
		}
		s, err := common.UnmarshalVersionedSnapshot(v)
		if err != nil || s.PayloadHash() != h32(k[40:]) || s.NodeId != h32(k[:32]) || s.RoundNumber != binary.BigEndian.Uint64(k[32:40]) {
			if os.Getenv("FIN_DEBUG") != "" {
				fmt.Println("bad snapshot", err, len(k), len(v))
			}
			return bad()
		}
		e.Coq = vh.App("ESnap", hN(h32(k[:32])), vh.NU(binary.BigEndian.Uint64(k[32:40])), hN(h32(k[40:])))
	case "TOPOLOGY":
		if len(k) != 8 || len(v) != len("SNAPSHOT")+72 || !bytes.HasPrefix(v, []byte("SNAPSHOT")) {
			return bad()
		}
		sk := v[len("SNAPSHOT"):]
		e.Coq = vh.App("ETopo", vh.NU(binary.BigEndian.Uint64(k)), hN(h32(sk[:32])), vh.NU(binary.BigEndian.Uint64(sk[32:40])), hN(h32(sk[40:])))
	case "SNAPTOPO":
		if len(k) != 32 || len(v) != len("TOPOLOGY")+8 || !bytes.HasPrefix(v, []byte("TOPOLOGY")) {
			return bad()
		}
		e.Coq = vh.App("ESnapTopo", hN(h32(k)), vh.NU(binary.BigEndian.Uint64(v[len("TOPOLOGY"):])))
	case "WORKSNAPSHOT":
		if len(k) != 48 || len(v) < 32 || len(v)%32 != 0 {
			return bad()
		}
		var sg []string
		for i := 32; i < len(v); i += 32 {
			sg = append(sg, hN(h32(v[i:i+32])))
		}
		e.Coq = vh.App("EWork", hN(h32(k[:32])), vh.NU(binary.BigEndian.Uint64(k[32:40])), vh.NU(binary.BigEndian.Uint64(k[40:48])),
			hN(h32(v[:32])), vh.List(sg, "N"))
	case "NODESTATEQUEUE":
		if len(k) != 40 || len(v) < 64 {
			return bad()
		}
		st, ok := nodeStates[string(v[64:])]
		if !ok {
			return bad()
		}
		e.Coq = vh.App("ENode", vh.NU(binary.BigEndian.Uint64(k[:8])), hFull(h32(k[8:])), hFull(h32(v[:32])), hN(h32(v[32:64])), vh.ZI(st))
	case "CUSTODIANUPDATE":
		if len(k) != 8 || len(v) != 32 {
			return bad()
		}
		e.Coq = vh.App("ECust", vh.NU(binary.BigEndian.Uint64(k)), hN(h32(v)))
	case "WITHDRAWAL":
		if len(k) != 32 || len(v) != 32 {
			return bad()
		}
		e.Coq = vh.App("EWdr", hN(h32(k)), hN(h32(v)))
	case "ROUND":
		r, err := common.UnmarshalRound(v)
		if len(k) != 32 || err != nil {
			return bad()
		}
		if r.NodeId == h32(k) { // the cache round of a node (keyed by node id)
			e.Coq = vh.App("ERound", hN(h32(k)), vh.NU(r.Number))
		}
	}
	return e
}

// Dump is the decoded full dump, in key order, with an index by raw key.
type Dump struct {
	Entries []Entry
	byKey   map[string]int
}

func (s *Store) Dump() *Dump {
	kvs := s.S.VerifDump()
	d := &Dump{byKey: map[string]int{}}
	for i, kv := range kvs {
		d.Entries = append(d.Entries, decode(kv))
		d.byKey[kv.DB+"|"+string(kv.Key)] = i
	}
	return d
}

func (d *Dump) Get(db string, key []byte) (Entry, bool) {
	i, ok := d.byKey[db+"|"+string(key)]
	if !ok {
		return Entry{}, false
	}
	return d.Entries[i], true
}

type Diff struct {
	Added, Changed, Removed []Entry // Changed holds the NEW entry
}

func DiffDumps(a, b *Dump) Diff {
	var d Diff
	for _, e := range b.Entries {
		old, ok := a.Get(e.DB, e.Key)
		if !ok {
			d.Added = append(d.Added, e)
		} else if !bytes.Equal(old.Value, e.Value) {
			d.Changed = append(d.Changed, e)
		}
	}
	for _, e := range a.Entries {
		if _, ok := b.Get(e.DB, e.Key); !ok {
			d.Removed = append(d.Removed, e)
		}
	}
	return d
}

func (d Diff) Empty() bool { return len(d.Added)+len(d.Changed)+len(d.Removed) == 0 }

func (d Diff) String() string {
	var sb strings.Builder
	for _, e := range d.Added {
		fmt.Fprintf(&sb, "+%s:%x ", e.Family, e.Key[min(len(e.Key), len(e.Family)):])
	}
	for _, e := range d.Changed {
		fmt.Fprintf(&sb, "~%s:%x ", e.Family, e.Key[min(len(e.Key), len(e.Family)):])
	}
	for _, e := range d.Removed {
		fmt.Fprintf(&sb, "-%s:%x ", e.Family, e.Key[min(len(e.Key), len(e.Family)):])
	}
	s := sb.String()
	if len(s) > 600 {
		s = s[:600] + "..."
	}
	return s
}

// ModelEntries lists the Coq terms of the entries in families the model has.
func (d *Dump) ModelEntries() []string {
	var l []string
	for _, e := range d.Entries {
		if e.Coq != "" {
			l = append(l, e.Coq)
		}
	}
	return l
}

// ---- executing one call --------------------------------------------------------------

// Outcome classes: "ok", "err", "panic".
func classify(pan bool, err error) string {
	if pan {
		return "panic"
	}
	if err != nil {
		return "err"
	}
	return "ok"
}

func CoqRes(class string) string {
	switch class {
	case "ok":
		return vh.Ok("tt")
	case "err":
		return vh.Err("unit")
	}
	return vh.Pan("unit")
}

// Exec runs one op on the store. For "write" the harness first takes the
// deposit / mint lock the debug assertions of WriteTransaction require (those
// families are outside the model); "lock" is LockUTXOs over the ordinary inputs.
// Returns the outcome class and the Coq term of the op (type op), "" when the
// op is outside the model.
func (s *Store) Exec(op OpSpec) (class string, coqOp string) {
	switch op.Kind {
	case "round":
		node := H(op.Node)
		var err error
		link := &common.RoundLink{}
		if op.RefSelf != "" {
			link = &common.RoundLink{Self: H(op.RefSelf), External: H(op.RefExt)}
		}
		pan, _ := vh.Catch(func() { err = s.S.StartNewRound(node, op.Round, link, 0) })
		if pan || err != nil {
			panic(fmt.Sprint("StartNewRound refused: ", err))
		}
		return "ok", vh.App("OpRound", hN(node), vh.NU(op.Round), "("+hN(link.Self)+", "+hN(link.External)+")")
	case "lock":
		ver := op.Tx.Build()
		var ins []*common.Input
		for _, in := range ver.Inputs {
			if in.Deposit == nil && in.Mint == nil && in.Genesis == nil {
				ins = append(ins, in)
			}
		}
		var err error
		pan, _ := vh.Catch(func() { err = s.S.LockUTXOs(ins, ver.PayloadHash(), false) })
		var ks []string
		for _, in := range ins {
			ks = append(ks, "("+hN(in.Hash)+", "+vh.NU(uint64(in.Index))+")")
		}
		return classify(pan, err), vh.App("OpLock", vh.List(ks, "(N*N)"), hN(ver.PayloadHash()))
	case "write":
		ver := op.Tx.Build()
		for _, in := range ver.Inputs {
			if in.Deposit != nil {
				if err := s.S.LockDepositInput(in.Deposit, ver.PayloadHash(), false); err != nil {
					return "err", ""
				}
			}
			if in.Mint != nil {
				if err := s.S.LockMintInput(in.Mint, ver.PayloadHash(), false); err != nil {
					return "err", ""
				}
			}
		}
		var err error
		pan, _ := vh.Catch(func() { err = s.S.WriteTransaction(ver) })
		return classify(pan, err), vh.App("OpWriteTx", CoqTx(ver))
	case "snap":
		snap, signers := op.Snap.Build()
		var err error
		pan, _ := vh.Catch(func() { err = s.S.WriteSnapshot(snap, signers) })
		return classify(pan, err), vh.App("OpSnapshot", CoqSnap(snap), HashList(signers))
	case "genesis":
		var snaps []*common.SnapshotWithTopologicalOrder
		var txs []*common.VersionedTransaction
		var rounds []*common.Round
		var terms []string
		for _, g := range op.Genesis {
			sn, _ := g.Snap.Build()
			ver := g.Tx.Build()
			snaps = append(snaps, sn)
			txs = append(txs, ver)
			terms = append(terms, "("+CoqSnap(sn)+", "+CoqTx(ver)+")")
		}
		var err error
		pan, _ := vh.Catch(func() { err = s.S.LoadGenesis(rounds, snaps, txs) })
		xin := "(" + hFull(common.XINAsset.Chain) + ", " + strN(common.XINAsset.AssetKey) + ")"
		return classify(pan, err), vh.App("OpGenesis", xin, vh.List(terms, "(snapshot * tx)"))
	}
	panic("op kind " + op.Kind)
}

// Account is a seeded address (spend and view keys known to the harness).
func Account(seedHex string) *common.Address {
	if a, ok := accountCache[seedHex]; ok {
		return a
	}
	seed, err := hex.DecodeString(seedHex)
	if err != nil || len(seed) != 64 {
		panic("bad seed")
	}
	a := common.NewAddressFromSeed(seed)
	accountCache[seedHex] = &a
	return &a
}

var accountCache = map[string]*common.Address{}

// ExecValidated is the node's own admission path for one transaction: sign
// every input with the accounts of op.Tx.Sign, common Validate against the real
// store, LockInputs, WriteTransaction.  Returns "rejected" when Validate (or the
// input lock) refuses the transaction; the model hops otherwise.
func (s *Store) ExecValidated(op OpSpec) (class string, hops []string) {
	ver := op.Tx.Build()
	var accounts []*common.Address
	for _, sd := range op.Tx.Sign {
		accounts = append(accounts, Account(sd))
	}
	for i := range ver.Inputs {
		// a replay on another tree may reference an output that was never created there
		// (ReadUTXOKeys dereferences a missing record): such a transaction cannot be signed
		var err error
		if pan, _ := vh.Catch(func() { err = ver.SignInput(s.S, i, accounts) }); pan || err != nil {
			return "rejected", nil
		}
	}
	var err error
	pan, pv := vh.Catch(func() { err = ver.Validate(s.S, op.TS, false) })
	if pan {
		panic(fmt.Sprint("Validate panicked: ", pv))
	}
	if err != nil {
		if os.Getenv("FIN_DEBUG") != "" {
			fmt.Println("rejected:", err)
		}
		return "rejected", nil
	}
	h := ver.PayloadHash()
	var ks []string
	for _, o := range ver.Outputs {
		for _, k := range o.Keys {
			ks = append(ks, kN(*k))
		}
	}
	hops = append(hops, vh.App("HOp", vh.App("OpGhost", vh.List(ks, "N"), hN(h)), CoqRes("ok")))
	err = ver.LockInputs(s.S, false)
	switch ver.TransactionType() {
	case common.TransactionTypeMint, common.TransactionTypeDeposit:
		// deposit / mint locks are families outside the model
	default:
		var ins []string
		for _, in := range ver.Inputs {
			ins = append(ins, "("+hN(in.Hash)+", "+vh.NU(uint64(in.Index))+")")
		}
		hops = append(hops, vh.App("HOp", vh.App("OpLock", vh.List(ins, "(N*N)"), hN(h)), CoqRes(classify(false, err))))
	}
	if err != nil {
		return "rejected", hops
	}
	pan, pv = vh.Catch(func() { err = s.S.WriteTransaction(ver) })
	if pan {
		panic(fmt.Sprint("WriteTransaction panicked: ", pv))
	}
	hops = append(hops, vh.App("HOp", vh.App("OpWriteTx", CoqTx(ver)), CoqRes(classify(false, err))))
	return classify(false, err), hops
}

// SortedKeys returns map keys sorted (deterministic iteration).
func SortedKeys[V any](m map[string]V) []string {
	ks := make([]string, 0, len(m))
	for k := range m {
		ks = append(ks, k)
	}
	sort.Strings(ks)
	return ks
}
