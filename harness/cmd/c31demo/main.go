package main

import (
	"flag"
	"fmt"
	"os"
	"runtime/pprof"
	"strings"
	"syscall"
	"time"

	"github.com/MixinNetwork/mixin/common"
	"github.com/MixinNetwork/mixin/crypto"
	"github.com/MixinNetwork/mixin/p2p"
)

// Demo for C31: run the real popAndProcessCacheQueue on real signed
// transactions and show what it admitted into the batch and what it sent.

func main() {
	small := flag.Int("small", 4, "number of small transactions (3 inputs x 4 keys) for the first run, 0 to skip")
	big := flag.Int("big", 0, "number of big transactions for the second run")
	inputs := flag.Int("inputs", 238, "inputs per big transaction")
	keys := flag.Int("keys", 256, "keys per input UTXO of a big transaction")
	extra := flag.Int("extra", 0, "extra bytes per big transaction")
	distinct := flag.Bool("distinct", false, "every UTXO has its own key set (slow: inputs*keys signatures per tx)")
	mode := flag.String("mode", "relay", "relay: one relayer neighbor, messages are relay wrapped; direct: targets are direct neighbors")
	seed := flag.String("seed", "c31demo", "seed of all derived keys")
	reuse := flag.Bool("reuse", false, "all big transactions spend the same UTXOs (one funding transaction only)")
	prevalidate := flag.Bool("prevalidate", true, "time one Validate call on the first transaction before queueing")
	cpuprofile := flag.String("cpuprofile", "", "write a CPU profile to this file")
	flag.Parse()
	doPrevalidate = *prevalidate
	if *cpuprofile != "" {
		pf, err := os.Create(*cpuprofile)
		if err != nil {
			fmt.Println(err)
			os.Exit(2)
		}
		pprof.StartCPUProfile(pf)
		defer pprof.StopCPUProfile()
	}

	t0 := time.Now()
	f, err := newFixture(*seed, *mode)
	if err != nil {
		fmt.Println("fixture error:", err)
		os.Exit(2)
	}
	code := 0
	defer func() {
		f.close()
		if r := recover(); r != nil {
			panic(r)
		}
		if code != 0 {
			pprof.StopCPUProfile()
			os.Exit(code)
		}
	}()
	fmt.Printf("node %s mode=%s working-nodes=%d local-can-propose=%v setup=%s\n",
		f.b.SelfId(), *mode, len(f.b.WorkingNodes()), f.b.LocalCanPropose(), time.Since(t0).Round(time.Millisecond))
	fmt.Printf("limit: admitted while running signed size < %d (TransportMessageMaxSize*2/3), TransportMessageMaxSize=%d\n",
		p2p.VerifC31TransportMessageMaxSize*2/3, p2p.VerifC31TransportMessageMaxSize)

	if *small > 0 {
		fmt.Printf("== small run: %d transactions of 3 inputs x 4 keys\n", *small)
		if !run(f, *small, 3, 4, 16, false) {
			code = 1
		}
	}
	if *big > 0 {
		f.reuse = *reuse
		fmt.Printf("== big run: %d transactions of %d inputs x %d keys distinct=%v\n", *big, *inputs, *keys, *distinct)
		if !run(f, *big, *inputs, *keys, *extra, *distinct) {
			code = 1
		}
	}
}

var doPrevalidate bool

// stopwatch reports wall time and process CPU time (user+sys); on a loaded
// machine the CPU time of a single-threaded phase is the better estimate.
type stopwatch struct {
	wall time.Time
	cpu  time.Duration
}

func cpuNow() time.Duration {
	var ru syscall.Rusage
	syscall.Getrusage(syscall.RUSAGE_SELF, &ru)
	return time.Duration(ru.Utime.Nano() + ru.Stime.Nano())
}

func start() stopwatch { return stopwatch{time.Now(), cpuNow()} }

func (s stopwatch) String() string {
	return fmt.Sprintf("wall=%s cpu=%s", time.Since(s.wall).Round(time.Millisecond), (cpuNow() - s.cpu).Round(time.Millisecond))
}

func run(f *fixture, n, inputs, keys, extra int, distinct bool) bool {
	t := start()
	need := n * inputs
	if f.reuse {
		need = inputs
	}
	if err := f.fund(keys, need, distinct); err != nil {
		fmt.Println("fund error:", err)
		return false
	}
	fmt.Printf("fund: %d UTXOs in %s\n", need, t)

	t = start()
	txs := make([]*common.VersionedTransaction, n)
	order := make(map[crypto.Hash]int)
	var sumSigned, sumUnsigned int
	for i := range txs {
		ti := start()
		tx, err := f.buildSignedTx(inputs, keys, extra)
		if err != nil {
			fmt.Println("build error:", err)
			return false
		}
		txs[i] = tx
		order[tx.PayloadHash()] = i
		u, s := sizes(tx)
		sumUnsigned += u
		sumSigned += s
		if i == 0 {
			fmt.Printf("tx[0] %s unsigned(ValidatedSize)=%d signed(len(Marshal))=%d build+sign=%s\n",
				tx.PayloadHash(), u, s, ti)
		}
	}
	fmt.Printf("sign: %d txs in %s; sum unsigned=%d sum signed=%d\n", n, t, sumUnsigned, sumSigned)

	if doPrevalidate {
		t = start()
		if err := f.b.Validate(txs[0]); err != nil {
			fmt.Println("validate error:", err)
			return false
		}
		fmt.Printf("validate: tx[0] alone in %s (ValidatedSize=%d)\n", t, txs[0].ValidatedSize())
	}

	t = start()
	for _, tx := range txs {
		if err := f.b.Queue(tx); err != nil {
			fmt.Println("queue error:", err)
			return false
		}
		time.Sleep(time.Microsecond) // queue key is the wall clock in ns, keep the order
	}
	fmt.Printf("queue: %d txs in %s\n", n, t)

	t = start()
	popped, sent, pv := f.b.RunOnce()
	fmt.Printf("RunOnce: popped=%d messages=%d panic=%v in %s\n", popped, len(sent), pv != nil, t)
	if pv != nil {
		s := fmt.Sprint(pv)
		fmt.Printf("PANIC value: %d chars, head %.40s...\n", len(s), s)
		for _, line := range strings.Split(f.b.LastPanicStack, "\n") {
			if strings.Contains(line, "mixin/p2p.") || strings.Contains(line, "mixin/kernel.(*Node)") {
				fmt.Printf("PANIC stack: %.160s\n", strings.TrimSpace(line))
			}
		}
		if len(s)%2 == 0 && len(s)/2 > p2p.VerifC31TransportMessageMaxSize {
			fmt.Printf("PANIC is buildRelayMessage's hex dump of a %d byte message > TransportMessageMaxSize %d\n", len(s)/2, p2p.VerifC31TransportMessageMaxSize)
		}
	}
	ok := pv == nil
	for i, m := range sent {
		pm, err := parseSent(m.Data)
		if err != nil {
			fmt.Printf("msg[%d] to-ring=%s len=%d PARSE ERROR %v\n", i, short(m.Peer), len(m.Data), err)
			ok = false
			continue
		}
		fmt.Printf("msg[%d] ring=%s high=%v wire=%d relayed=%v target=%s inner=%d type=%d txs=%d fits=%v\n",
			i, short(m.Peer), m.High, len(m.Data), pm.relayed, short(pm.to), pm.inner, pm.typ, len(pm.txs),
			pm.inner <= p2p.VerifC31TransportMessageMaxSize)
		if pm.inner > p2p.VerifC31TransportMessageMaxSize {
			ok = false
		}
		var idx []int
		for _, tx := range pm.txs {
			j, found := order[tx.PayloadHash()]
			if !found {
				j = -1
			}
			idx = append(idx, j)
		}
		fmt.Printf("msg[%d] admitted queue positions %v\n", i, idx)
	}
	return ok
}

func short(h crypto.Hash) string {
	if !h.HasValue() {
		return "-"
	}
	return h.String()[:8]
}
