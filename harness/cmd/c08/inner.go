// Inner encodings assembled at byte level (no use of the repository's
// encoders): structurally well-formed transactions and snapshots with complete
// members whose counts sit at, just below and just above the decoder / encoder
// limits, wrapped -- again at byte level -- into every message type that
// carries transactions or a snapshot.  parseNetworkMessage decodes them and
// re-encodes (canonical check, config.Debug self checks), and the encoder
// panics above its limits: "parsing never panics" needs the decoder limits to
// be at least as strict.  Oracle: never panics; an encoding inside every limit
// parses and its transaction / snapshot marshals back to the same bytes.
package main

import (
	"bytes"
	"encoding/binary"
	"fmt"

	"github.com/MixinNetwork/mixin/common"
	"github.com/MixinNetwork/mixin/config"
	"github.com/MixinNetwork/mixin/p2p"
	"verifharness/vh"
)

// TxSpec describes a transaction encoding; every declared count is followed by
// exactly that many complete members.
type TxSpec struct {
	Inputs    int  `json:"inputs"`
	Outputs   int  `json:"outputs"`
	Keys      int  `json:"keys"`    // keys of every output
	Refs      int  `json:"refs"`    // references
	Extra     int  `json:"extra"`   // extra bytes
	SigMaps   int  `json:"sigmaps"` // signature maps (ordinary form)
	Sigs      int  `json:"sigs"`    // signatures in every map, indices 0..Sigs-1
	Agg       int  `json:"agg"`     // 0 none, 1 aggregated sparse list, 2 aggregated bit mask
	Signers   int  `json:"signers"` // sparse: number of signers (indices 0,17,34,...); mask: number of mask bytes (all 0xff)
	AmountLen int  `json:"amountlen,omitempty"`
	Mint      bool `json:"mint,omitempty"`    // inputs carry mint data
	Deposit   bool `json:"deposit,omitempty"` // inputs carry deposit data
	Index     int  `json:"index,omitempty"`   // input index of every input
}

type SnapSpec struct {
	Round  uint64 `json:"round"`
	Refs   int    `json:"refs"` // 0, 2 or an invalid count with that many complete hashes
	Txs    int    `json:"txs"`
	Signed bool   `json:"signed"`
	Topo   int    `json:"topo"` // 0: no topology suffix, 8: full suffix
}

func u16(b []byte, v int) []byte    { return binary.BigEndian.AppendUint16(b, uint16(v)) }
func u32(b []byte, v int) []byte    { return binary.BigEndian.AppendUint32(b, uint32(v)) }
func u64(b []byte, v uint64) []byte { return binary.BigEndian.AppendUint64(b, v) }

func fill(b []byte, n int, seed byte) []byte {
	for i := 0; i < n; i++ {
		b = append(b, seed+byte(i)*3)
	}
	return b
}

// hashN is a 32-byte value, strictly increasing with n (big-endian counter).
func hashN(b []byte, n int) []byte {
	var h [32]byte
	binary.BigEndian.PutUint32(h[0:4], uint32(n+1))
	h[31] = 0x5a
	return append(b, h[:]...)
}

func asmTx(s TxSpec) []byte {
	b := []byte{0x77, 0x77, 0x00, common.TxVersionHashSignature}
	b = fill(b, 32, 0x11) // asset
	b = u16(b, s.Inputs)
	for i := 0; i < s.Inputs; i++ {
		b = hashN(b, i)
		b = u16(b, s.Index)
		b = u16(b, 0) // genesis
		if s.Deposit {
			b = append(b, 0x77, 0x77)
			b = fill(b, 32, 0x21) // chain
			b = u16(b, 3)
			b = append(b, "key"...)
			b = u16(b, 4)
			b = append(b, "hash"...)
			b = u64(b, uint64(i))
			b = u16(b, 1)
			b = append(b, 9)
		} else {
			b = append(b, 0, 0)
		}
		if s.Mint {
			b = append(b, 0x77, 0x77)
			b = u16(b, 9)
			b = append(b, "UNIVERSAL"...)
			b = u64(b, uint64(i+1))
			b = u16(b, 2)
			b = append(b, 1, 0)
		} else {
			b = append(b, 0, 0)
		}
	}
	b = u16(b, s.Outputs)
	for o := 0; o < s.Outputs; o++ {
		b = append(b, 0x00, common.OutputTypeScript)
		al := s.AmountLen
		if al == 0 {
			al = 1
		}
		b = u16(b, al)
		b = append(b, 1) // no leading zero: canonical
		b = fill(b, al-1, 7)
		b = u16(b, s.Keys)
		for k := 0; k < s.Keys; k++ {
			kk := validKey((o*7 + k) % 64)
			b = append(b, kk[:]...)
		}
		m := validKey(o % 64)
		b = append(b, m[:]...)
		b = u16(b, 3)
		b = append(b, common.OperatorCmp, common.OperatorSum, 1)
		b = append(b, 0, 0) // no withdrawal
	}
	b = u16(b, s.Refs)
	for i := 0; i < s.Refs; i++ {
		b = hashN(b, 1000+i)
	}
	b = u32(b, s.Extra)
	b = fill(b, s.Extra, 0x31)
	switch s.Agg {
	case 0:
		b = u16(b, s.SigMaps)
		for i := 0; i < s.SigMaps; i++ {
			b = u16(b, s.Sigs)
			for j := 0; j < s.Sigs; j++ {
				b = u16(b, j)
				b = fill(b, 64, byte(i+j))
			}
		}
	case 1:
		b = u16(b, common.MaximumEncodingInt)
		b = u16(b, common.AggregatedSignaturePrefix)
		b = fill(b, 64, 0x41)
		b = append(b, common.AggregatedSignatureSparseMask)
		b = u16(b, s.Signers)
		for i := 0; i < s.Signers; i++ {
			b = u16(b, i*17) // sparse enough for the list form to be the canonical one
		}
	case 2:
		b = u16(b, common.MaximumEncodingInt)
		b = u16(b, common.AggregatedSignaturePrefix)
		b = fill(b, 64, 0x42)
		b = append(b, common.AggregatedSignatureOrdinaryMask)
		b = u16(b, s.Signers)
		for i := 0; i < s.Signers; i++ {
			b = append(b, 0xff)
		}
	}
	return b
}

// txWithinLimits: every count is inside the limits the format documents
// (common/transaction.go SliceCountLimit, InputIndexLimit, extra capacity,
// envelope size; signer indices at most 0xFFFF).
func txWithinLimits(s TxSpec, size int) bool {
	if s.Inputs > common.SliceCountLimit || s.Outputs > common.SliceCountLimit || s.Keys > common.SliceCountLimit ||
		s.Refs > common.SliceCountLimit || s.Extra > common.ExtraSizeStorageCapacity || size > config.TransactionMaximumSize ||
		s.Index > common.InputIndexLimit || s.AmountLen > 1<<15 {
		return false
	}
	switch s.Agg {
	case 0:
		return s.SigMaps <= common.SliceCountLimit
	case 1:
		// the list form is the canonical one only when it is the shorter: max/8+1 > 2*count
		max := (s.Signers - 1) * 17
		return s.Signers >= 1 && max <= common.MaximumEncodingInt && max/8+1 > 2*s.Signers
	default:
		// all bits set: 8 signers per byte, at most 0xFFFF signers
		return s.Signers >= 1 && s.Signers*8 <= common.MaximumEncodingInt
	}
}

func asmSnapshot(s SnapSpec) []byte {
	b := []byte{0x77, 0x77, 0x00, common.SnapshotVersionCommonEncoding}
	b = fill(b, 32, 0x51) // node
	b = u64(b, s.Round)
	b = u16(b, s.Refs)
	for i := 0; i < s.Refs; i++ {
		b = hashN(b, 2000+i)
	}
	b = u16(b, s.Txs)
	for i := 0; i < s.Txs; i++ {
		b = hashN(b, i) // strictly increasing: canonical order
	}
	b = u64(b, 1700000000000000000)
	if s.Signed {
		b = u64(b, 0x7f)
		b = fill(b, 64, 0x61)
	} else {
		b = u64(b, 0)
	}
	if s.Topo == 8 {
		b = u64(b, 42)
	}
	return b
}

func snapWithinLimits(s SnapSpec) bool {
	if s.Txs < 1 || s.Txs > common.SnapshotTransactionsMaximum {
		return false
	}
	if s.Round == 0 {
		return s.Refs == 0 && s.Txs == 1
	}
	return s.Refs == 2
}

var innerTxCarriers = []string{"transaction", "bundle", "finalbundle", "txchallenge", "fullchallenge"}
var innerSnapCarriers = []string{"announcement", "finalization", "fullchallenge"}

// wrapTx puts one transaction encoding into a message of the given kind, at byte level.
func wrapTx(kind string, tx []byte) []byte {
	payload := append(u32([]byte{1}, len(tx)), tx...)
	switch kind {
	case "transaction":
		return append([]byte{p2p.PeerMessageTypeTransaction}, tx...)
	case "bundle":
		return append([]byte{p2p.PeerMessageTypeTransactionBundle}, payload...)
	case "finalbundle":
		return append([]byte{p2p.PeerMessageTypeFinalizedTransactionBundle}, payload...)
	case "txchallenge":
		b := []byte{p2p.PeerMessageTypeBatchTransactionChallenge}
		b = fill(b, 32, 0x71)
		b = fill(b, 64, 0x72)
		b = u64(b, 0x3f)
		return append(b, payload...)
	case "fullchallenge":
		return wrapSnapshot("fullchallenge", asmSnapshot(SnapSpec{Round: 5, Refs: 2, Txs: 1, Signed: true, Topo: 8}), payload)
	}
	panic(kind)
}

func wrapSnapshot(kind string, snap []byte, payload []byte) []byte {
	k := validKey(3)
	switch kind {
	case "announcement":
		b := []byte{p2p.PeerMessageTypeBatchSnapshotAnnouncement}
		b = fill(b, 64, 0x73)
		b = append(b, k[:]...)
		return append(b, snap...)
	case "finalization":
		return append([]byte{p2p.PeerMessageTypeBatchSnapshotFinalization}, snap...)
	case "fullchallenge":
		b := []byte{p2p.PeerMessageTypeBatchFullChallenge}
		b = u32(b, len(snap))
		b = append(b, snap...)
		b = append(b, k[:]...)
		b = append(b, k[:]...)
		if payload == nil {
			small := asmTx(TxSpec{Inputs: 1, Outputs: 1, Keys: 1, SigMaps: 1, Sigs: 1})
			payload = append(u32([]byte{1}, len(small)), small...)
		}
		return append(b, payload...)
	}
	panic(kind)
}

type InnerCase struct {
	Carrier string    `json:"carrier"`
	Tx      *TxSpec   `json:"tx,omitempty"`
	Snap    *SnapSpec `json:"snap,omitempty"`
}

func runInner(c *vh.Ctx, cs Case) {
	in := cs.Inner
	var data, inner []byte
	var within bool
	var label string
	if in.Tx != nil {
		inner = asmTx(*in.Tx)
		within = txWithinLimits(*in.Tx, len(inner))
		data = wrapTx(in.Carrier, inner)
		label = fmt.Sprintf("transaction %+v", *in.Tx)
	} else {
		inner = asmSnapshot(*in.Snap)
		within = snapWithinLimits(*in.Snap) && (in.Carrier != "fullchallenge" || in.Snap.Signed) // a full challenge needs the signature
		data = wrapSnapshot(in.Carrier, inner, nil)
		label = fmt.Sprintf("snapshot %+v", *in.Snap)
	}
	kind := "inner:" + in.Carrier
	if !within {
		kind += ":outside-limits"
	}
	m, err, pan, pv, obs := parseObs(2, data)
	tb := newTables()
	tb.fill(data)
	k, s, t := tb.terms()
	term := vh.App("CParse", vh.NU(2), vh.Bytes(data), k, s, t, obs)
	if len(term) > 12<<10 {
		term = "" // large encodings are checked by the oracle only, without using up the sampling budget
		c.Count("oracle-only(large)")
	} else {
		modelTick = modelEvery - 1 // always sent to the model
		term = modelTerm(c, term)
	}
	c.Case(kind, kind+"|"+label, !pan && err == nil, cs, term)
	parseOracle(c, cs, data, m, err, pan, pv)
	if pan || !within {
		return
	}
	if err != nil {
		c.Fail("inner-rejected", fmt.Sprintf("a %s message around a well-formed %s inside every limit was refused: %v", in.Carrier, label, err), cs)
		return
	}
	if in.Tx != nil {
		if len(m.Transactions) != 1 || !bytes.Equal(m.Transactions[0].Marshal(), inner) {
			c.Fail("inner-roundtrip", fmt.Sprintf("the transaction of a %s message does not marshal back to the bytes it was parsed from (%s)", in.Carrier, label), cs)
		}
		return
	}
	sn := *m.Snapshot
	if in.Carrier == "fullchallenge" {
		sn.Signature = &m.Cosi
	}
	back := (&common.SnapshotWithTopologicalOrder{Snapshot: &sn}).VersionedMarshal()
	want := inner
	if in.Snap.Topo == 8 { // the message keeps the snapshot, not its position in the topology
		want = append(append([]byte(nil), inner[:len(inner)-8]...), make([]byte, 8)...)
	} else {
		want = append(append([]byte(nil), inner...), make([]byte, 8)...)
	}
	if !bytes.Equal(back, want) {
		c.Fail("inner-roundtrip", fmt.Sprintf("the snapshot of a %s message does not marshal back to the bytes it was parsed from (%s)", in.Carrier, label), cs)
	}
}

func innerCases(thorough bool) []Case {
	base := TxSpec{Inputs: 1, Outputs: 1, Keys: 1, SigMaps: 1, Sigs: 1}
	var specs []TxSpec
	counts := []int{0, 255, 256, 257, 1024, 1025}
	for _, n := range counts {
		s := base
		s.Inputs, s.SigMaps = n, min(n, 2)
		specs = append(specs, s)
		s = base
		s.Outputs = n
		specs = append(specs, s)
		s = base
		s.Keys = n
		specs = append(specs, s)
		s = base
		s.Refs = n
		specs = append(specs, s)
		s = base
		s.SigMaps, s.Sigs = n, 1
		specs = append(specs, s)
		s = base
		s.Sigs = n
		specs = append(specs, s)
	}
	for _, n := range []int{15, 16, 17} { // ReferencesCountLimit is a validation rule, not an encoding limit
		s := base
		s.Refs = n
		specs = append(specs, s)
	}
	for _, n := range []int{65534, 65535} {
		s := base
		s.SigMaps, s.Sigs = n, 0
		specs = append(specs, s)
	}
	for _, n := range []int{0, 1, 255, 256, 257, 1024, 3855, 3856, 3857, 65535} { // sparse signer lists; 3856*17 > 0xFFFF
		s := base
		s.Agg, s.Signers = 1, n
		specs = append(specs, s)
	}
	for _, n := range []int{0, 1, 32, 33, 8191, 8192, 8193, 65535} { // bit masks; 8192*8 signers reach index 0xFFFF
		s := base
		s.Agg, s.Signers = 2, n
		specs = append(specs, s)
	}
	for _, n := range []int{255, 256, 257, 1024, 1025} {
		s := base
		s.Extra = n
		specs = append(specs, s)
	}
	for _, n := range []int{1023, 1024, 1025} {
		s := base
		s.Index = n
		specs = append(specs, s)
	}
	for _, n := range []int{2, 255, 256, 257, 65535} {
		s := base
		s.AmountLen = n
		specs = append(specs, s)
	}
	for _, n := range []int{256, 257} {
		s := base
		s.Inputs, s.Mint = n, true
		specs = append(specs, s)
		s = base
		s.Inputs, s.Deposit = n, true
		specs = append(specs, s)
	}
	// around the envelope cap and the extra capacity (4 MiB both)
	over := len(asmTx(base))
	big := []int{config.TransactionMaximumSize - over, config.TransactionMaximumSize - over + 1,
		common.ExtraSizeStorageCapacity - 1, common.ExtraSizeStorageCapacity, common.ExtraSizeStorageCapacity + 1}
	var out []Case
	for i, s := range specs {
		sp := s
		carriers := []string{"transaction", innerTxCarriers[1+i%4]}
		if thorough {
			carriers = innerTxCarriers
		}
		for _, k := range carriers {
			out = append(out, Case{Op: "inner", Inner: &InnerCase{Carrier: k, Tx: &sp}})
		}
	}
	for i, n := range big {
		s := base
		s.Extra = n
		sp := s
		out = append(out, Case{Op: "inner", Inner: &InnerCase{Carrier: innerTxCarriers[i%5], Tx: &sp}})
	}
	for _, txs := range []int{0, 1, 2, 254, 255, 256, 257, 1024} {
		for _, refs := range []int{0, 1, 2, 3} {
			if refs != 2 && txs > 2 && txs != 255 {
				continue
			}
			for _, round := range []uint64{0, 7} {
				for _, signed := range []bool{true, false} {
					sp := SnapSpec{Round: round, Refs: refs, Txs: txs, Signed: signed, Topo: 8}
					for _, k := range innerSnapCarriers {
						out = append(out, Case{Op: "inner", Inner: &InnerCase{Carrier: k, Snap: &sp}})
					}
				}
			}
		}
	}
	sp := SnapSpec{Round: 7, Refs: 2, Txs: 255, Signed: true, Topo: 0}
	out = append(out, Case{Op: "inner", Inner: &InnerCase{Carrier: "finalization", Snap: &sp}})
	return out
}
