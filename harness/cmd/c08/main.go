// C08 harness: runs the real peer message parser and builders of p2p/handle.go
// (through the verif hooks) on generated inputs, records every observation as a
// Coq case for Model/P2PMsg.v, and checks the implementation directly against
// the property text: parsing never panics; a built message parses back to the
// same type and field values; messages carrying an invalid curve point are
// refused.
package main

import (
	"bytes"
	"encoding/binary"
	"encoding/hex"
	"fmt"
	"math/big"
	"strings"

	"github.com/MixinNetwork/mixin/common"
	"github.com/MixinNetwork/mixin/crypto"
	"github.com/MixinNetwork/mixin/p2p"
	"verifharness/vh"
)

type Case struct {
	Op      string     `json:"op"` // parse | build | points | payload
	Tag     string     `json:"tag,omitempty"`
	V       uint8      `json:"v,omitempty"`
	Data    string     `json:"data,omitempty"` // hex
	Kind    string     `json:"kind,omitempty"` // builder
	Seed    uint64     `json:"seed,omitempty"`
	N       int        `json:"n,omitempty"`       // list length (transactions, commitments, points, wants)
	Bad     int        `json:"bad,omitempty"`     // 1+index of the point replaced by an invalid one (0 = none)
	Inner   *InnerCase `json:"inner,omitempty"`   // op inner: byte-level inner encoding at a limit
	Special string     `json:"special,omitempty"` // with Bad: the named point of points.go (valid or invalid by construction) goes there
	Cut     int        `json:"cut,omitempty"`     // build, then keep only the first Cut-1 bytes (0 = whole); negative: append -Cut bytes
}

// ---- Coq printers -------------------------------------------------------------

func bl(bs [][]byte) string {
	el := make([]string, len(bs))
	for i, b := range bs {
		el[i] = vh.Bytes(b)
	}
	return vh.List(el, "(list N)")
}

func pointTerm(p *p2p.SyncPoint) string {
	return vh.App("mk_point", vh.Bytes(p.NodeId[:]), vh.ZU(p.Number), vh.Bytes(p.Hash[:]))
}

func pointsTerm(ps []*p2p.SyncPoint) string {
	el := make([]string, len(ps))
	for i, p := range ps {
		el[i] = pointTerm(p)
	}
	return vh.List(el, "sync_point")
}

func txBytes(txs []*common.VersionedTransaction) [][]byte {
	out := make([][]byte, len(txs))
	for i, t := range txs {
		out[i] = t.Marshal()
	}
	return out
}

func osnapTerm(hash crypto.Hash, signed bool) string {
	return "(" + vh.BytesAsN(hash[:]) + ", " + vh.Bool(signed) + ")"
}

const msgT = "(N * omsg)"

// obsTerm projects the fields of the parsed message that its type defines.
func obsTerm(m *p2p.PeerMessage) string {
	var t string
	sig := func() []byte {
		s := p2p.VerifMessageSignature(m)
		if s == nil {
			return nil
		}
		return s[:]
	}
	snapHash := func() crypto.Hash {
		var h crypto.Hash
		vh.Catch(func() { h = m.Snapshot.PayloadHash() })
		return h
	}
	switch m.Type {
	case p2p.PeerMessageTypePreCommitments:
		ks := make([][]byte, len(m.Commitments))
		for i, k := range m.Commitments {
			ks[i] = k[:]
		}
		t = vh.App("MPreCommitments", vh.Bytes(sig()), bl(ks), vh.Bytes(p2p.VerifMessageUnsigned(m)))
	case p2p.PeerMessageTypeGraph:
		t = vh.App("MGraph", vh.Bytes(sig()), pointsTerm(m.Graph), vh.Bytes(p2p.VerifMessageUnsigned(m)))
	case p2p.PeerMessageTypePing:
		t = "MPing"
	case p2p.PeerMessageTypeAuthentication:
		t = vh.App("MAuthentication", vh.Bytes(m.Data))
	case p2p.PeerMessageTypeSnapshotConfirm:
		t = vh.App("MSnapshotConfirm", vh.Bytes(m.SnapshotHash[:]))
	case p2p.PeerMessageTypeTransaction:
		t = vh.App("MTransaction", vh.Bytes(m.Transactions[0].Marshal()))
	case p2p.PeerMessageTypeTransactionBundle, p2p.PeerMessageTypeFinalizedTransactionBundle:
		t = vh.App("MBundle", vh.ZI(int64(m.Type)), bl(txBytes(m.Transactions)))
	case p2p.PeerMessageTypeTransactionRequest:
		t = vh.App("MTransactionRequest", vh.Bytes(m.TransactionHash[:]))
	case p2p.PeerMessageTypeBatchSnapshotAnnouncement:
		t = vh.App("MAnnouncement", vh.Bytes(sig()), vh.Bytes(m.Commitment[:]), osnapTerm(snapHash(), m.Snapshot.Signature != nil))
	case p2p.PeerMessageTypeBatchSnapshotCommitment:
		ws := make([][]byte, len(m.WantTxs))
		for i := range m.WantTxs {
			ws[i] = m.WantTxs[i][:]
		}
		t = vh.App("MCommitment", vh.Bytes(sig()), vh.Bytes(m.SnapshotHash[:]), vh.Bytes(m.Commitment[:]), bl(ws), vh.Bytes(p2p.VerifMessageUnsigned(m)))
	case p2p.PeerMessageTypeBatchFullChallenge:
		// the signature was moved into msg.Cosi; it was present iff the mask is not zero
		t = vh.App("MFullChallenge", osnapTerm(snapHash(), m.Cosi.Mask != 0), vh.Bytes(m.Commitment[:]), vh.Bytes(m.Challenge[:]), bl(txBytes(m.Transactions)))
	case p2p.PeerMessageTypeBatchTransactionChallenge:
		t = vh.App("MTransactionChallenge", vh.Bytes(m.SnapshotHash[:]), vh.Bytes(m.Cosi.Signature[:]), vh.ZU(m.Cosi.Mask), bl(txBytes(m.Transactions)))
	case p2p.PeerMessageTypeBatchSnapshotResponse:
		t = vh.App("MResponse", vh.Bytes(m.SnapshotHash[:]), vh.Bytes(m.Response[:]))
	case p2p.PeerMessageTypeBatchSnapshotFinalization:
		t = vh.App("MFinalization", osnapTerm(snapHash(), m.Snapshot.Signature != nil))
	case p2p.PeerMessageTypeRelay:
		t = vh.App("MRelay", vh.Bytes(m.Data))
	case p2p.PeerMessageTypeConsumers:
		t = vh.App("MConsumers", vh.Bytes(m.Data))
	default:
		t = vh.App("MOther", vh.ZI(int64(m.Type)))
	}
	return "(" + vh.NU(uint64(p2p.VerifMessageVersion(m))) + ", " + t + " : omsg)"
}

// ---- tables of the opaque decoders ---------------------------------------------

type tables struct {
	keys, snaps, txs []string
}

func newTables() *tables { return &tables{} }

// key: the 32 bytes copy() takes from data[off:] (zero padded), and CheckKey of them.
func (t *tables) key(data []byte, off int) {
	if off < 0 || off > len(data) {
		return
	}
	var k crypto.Key
	copy(k[:], data[off:])
	t.keys = append(t.keys, fmt.Sprintf("(%d%%Z, %s)", off, vh.Bool(keyStatus(k))))
}

func (t *tables) snap(data []byte, off, n int) {
	b := data[off : off+n]
	var s *common.SnapshotWithTopologicalOrder
	var err error
	pan, _ := vh.Catch(func() { s, err = common.UnmarshalVersionedSnapshot(b) })
	v := vh.None("osnap")
	if !pan && err == nil && s != nil {
		v = vh.Some(osnapTerm(s.PayloadHash(), s.Signature != nil))
	}
	t.snaps = append(t.snaps, fmt.Sprintf("(%d%%Z, %d%%Z, %s)", off, n, v))
}

func (t *tables) tx(data []byte, off, n int) bool {
	b := data[off : off+n]
	var err error
	pan, _ := vh.Catch(func() { _, err = common.UnmarshalVersionedTransaction(b) })
	ok := !pan && err == nil
	t.txs = append(t.txs, fmt.Sprintf("(%d%%Z, %d%%Z, %s)", off, n, vh.Bool(ok)))
	return ok
}

// payload walks the transactions payload data[off:] as the format defines it.
func (t *tables) payload(data []byte, off int) {
	if len(data)-off < 1 {
		return
	}
	n := int(data[off])
	off++
	for i := 0; i < n; i++ {
		if len(data)-off < 4 {
			return
		}
		size := int(binary.BigEndian.Uint32(data[off : off+4]))
		if len(data)-off-4 < size {
			return
		}
		if !t.tx(data, off+4, size) {
			return
		}
		off += 4 + size
	}
}

func (t *tables) fill(data []byte) {
	if len(data) < 1 {
		return
	}
	switch data[0] {
	case p2p.PeerMessageTypePreCommitments:
		if len(data) >= 67 {
			n := int(binary.BigEndian.Uint16(data[65:67]))
			for i := 0; i < n && i <= 1024; i++ {
				t.key(data, 67+32*i)
			}
		}
	case p2p.PeerMessageTypeBatchSnapshotAnnouncement:
		t.key(data, 65)
		if len(data) >= 97 {
			t.snap(data, 97, len(data)-97)
		}
	case p2p.PeerMessageTypeBatchSnapshotCommitment:
		t.key(data, 97)
	case p2p.PeerMessageTypeBatchSnapshotFinalization:
		t.snap(data, 1, len(data)-1)
	case p2p.PeerMessageTypeTransaction:
		t.tx(data, 1, len(data)-1)
	case p2p.PeerMessageTypeTransactionBundle, p2p.PeerMessageTypeFinalizedTransactionBundle:
		t.payload(data, 1)
	case p2p.PeerMessageTypeBatchTransactionChallenge:
		if len(data) >= 105 {
			t.payload(data, 105)
		}
	case p2p.PeerMessageTypeBatchFullChallenge:
		if len(data) >= 5 {
			size := int(binary.BigEndian.Uint32(data[1:5]))
			if size <= len(data)-5 {
				t.snap(data, 5, size)
				off := 5 + size
				if len(data)-off >= 64 {
					t.key(data, off)
					t.key(data, off+32)
					t.payload(data, off+64)
				}
			}
		}
	}
}

func (t *tables) terms() (string, string, string) {
	return vh.List(t.keys, "(Z * bool)"), vh.List(t.snaps, "(Z * Z * option osnap)"), vh.List(t.txs, "(Z * Z * bool)")
}

// ---- running the parser ------------------------------------------------------------

// parseObs parses data with the real code and prints the observation.
func parseObs(version uint8, data []byte) (m *p2p.PeerMessage, err error, pan bool, pv any, obs string) {
	pan, pv = vh.Catch(func() { m, err = p2p.VerifParseNetworkMessage(version, append([]byte(nil), data...)) })
	obs = vh.Err(msgT)
	if pan {
		obs = vh.Pan(msgT)
	} else if err == nil {
		obs = vh.Ok(obsTerm(m))
	}
	return
}

func parseOracle(c *vh.Ctx, cs Case, data []byte, m *p2p.PeerMessage, err error, pan bool, pv any) {
	if pan {
		c.Fail("parse-panics", fmt.Sprintf("parseNetworkMessage panicked on a %d-byte message of type %d: %v", len(data), first(data), pv), cs)
	} else if err == nil && m == nil {
		c.Fail("parse-nil", "parseNetworkMessage returned neither a message nor an error", cs)
	}
}

// runParse parses data with the real code, emits the model case and applies
// the never-panics clause.
func runParse(c *vh.Ctx, cs Case, kind string, version uint8, data []byte) {
	m, err, pan, pv, obs := parseObs(version, data)
	tb := newTables()
	tb.fill(data)
	k, s, t := tb.terms()
	term := vh.App("CParse", vh.NU(uint64(version)), vh.Bytes(data), k, s, t, obs)
	c.Case(kind, kind+"|"+hashKey(data), !pan && err == nil, cs, modelTerm(c, term))
	parseOracle(c, cs, data, m, err, pan, pv)
}

func first(d []byte) int {
	if len(d) == 0 {
		return -1
	}
	return int(d[0])
}

// ---- generators -------------------------------------------------------------------

type handle struct {
	p2p.SyncHandle
	key    crypto.Key
	points []*p2p.SyncPoint
}

func (h *handle) SignData(data []byte) crypto.Signature { return h.key.Sign(crypto.Blake3Hash(data)) }
func (h *handle) BuildGraph() []*p2p.SyncPoint          { return h.points }

var keyPool []crypto.Key // valid points, deterministic

func validKey(i int) crypto.Key {
	for len(keyPool) <= i {
		keyPool = append(keyPool, constructedKey(len(keyPool)))
	}
	return keyPool[i]
}

// placedKey is the point put at position cs.Bad: the named special, else some invalid point.
func placedKey(cs Case, r *vh.Rand) crypto.Key {
	if cs.Special != "" {
		sp := specialByName[cs.Special]
		if sp == nil {
			panic("unknown special point " + cs.Special)
		}
		return sp.Key
	}
	return invalidKey(r)
}

func placedValid(cs Case) bool { return cs.Special != "" && specialByName[cs.Special].Valid }

func placedName(cs Case) string {
	if cs.Special != "" {
		return cs.Special
	}
	return "one of the invalid points"
}

// specialClass strips the running number: small-order, mixed-order, non-canonical-y, off-curve, valid
func specialClass(name string) string {
	for i, ch := range name {
		if ch >= '0' && ch <= '9' {
			return strings.TrimSuffix(name[:i], "-")
		}
	}
	return name
}

// invalidKey: an invalid point, by construction (points.go)
func invalidKey(r *vh.Rand) crypto.Key {
	inv := invalidSpecials()
	return inv[r.Intn(len(inv))].Key
}

func hash(r *vh.Rand) (h crypto.Hash) {
	copy(h[:], r.Bytes(32))
	return
}

func genSnapshot(r *vh.Rand, signed bool) *common.Snapshot {
	s := &common.Snapshot{Version: common.SnapshotVersionCommonEncoding, NodeId: hash(r), Timestamp: r.U64()}
	n := 1
	if r.Chance(3, 4) {
		s.RoundNumber = 1 + r.U64()>>uint(r.Intn(64))
		s.References = &common.RoundLink{Self: hash(r), External: hash(r)}
		n = r.Range(1, 3)
		if r.Chance(1, 40) {
			n = r.Range(200, 255)
		}
	}
	for i := 0; i < n; i++ {
		s.AddTransaction(hash(r))
	}
	if signed {
		cs := &crypto.CosiSignature{Mask: 1 + r.U64()>>1}
		copy(cs.Signature[:], r.Bytes(64))
		s.Signature = cs
	}
	return s
}

func genTx(r *vh.Rand) *common.VersionedTransaction {
	tx := common.NewTransactionV5(hash(r))
	ni := r.Range(1, 2)
	for i := 0; i < ni; i++ {
		tx.AddInput(hash(r), uint(r.Intn(8)))
	}
	no := r.Range(1, 2)
	for i := 0; i < no; i++ {
		out := &common.Output{Type: common.OutputTypeScript, Amount: common.NewInteger(uint64(1 + r.Intn(1000000))), Script: common.NewThresholdScript(1)}
		nk := r.Range(1, 2)
		for j := 0; j < nk; j++ {
			k := validKey(r.Intn(64))
			out.Keys = append(out.Keys, &k)
		}
		out.Mask = validKey(r.Intn(64))
		tx.Outputs = append(tx.Outputs, out)
	}
	if r.Bool() {
		tx.Extra = r.Bytes(r.Intn(40))
	}
	ver := tx.AsVersioned()
	if r.Chance(3, 4) {
		for i := 0; i < ni; i++ {
			m := map[uint16]*crypto.Signature{}
			for j := 0; j < 1; j++ {
				var sg crypto.Signature
				copy(sg[:], r.Bytes(64))
				m[uint16(j)] = &sg
			}
			ver.SignaturesMap = append(ver.SignaturesMap, m)
		}
	}
	return ver
}

func genTxs(r *vh.Rand, n int) []*common.VersionedTransaction {
	txs := make([]*common.VersionedTransaction, n)
	for i := range txs {
		txs[i] = genTx(r)
	}
	return txs
}

func genPoints(r *vh.Rand, n int) []*p2p.SyncPoint {
	ps := make([]*p2p.SyncPoint, n)
	for i := range ps {
		ps[i] = &p2p.SyncPoint{NodeId: hash(r), Number: r.U64() >> uint(r.Intn(64)), Hash: hash(r)}
	}
	return ps
}

var builderKinds = []string{"authentication", "announcement", "commitment", "txchallenge", "fullchallenge", "response",
	"finalization", "confirm", "transaction", "bundle", "finalbundle", "txrequest", "graph", "commitments", "consumers", "relay",
	"payload", "syncpoints"}

func sameTxs(a []*common.VersionedTransaction, b []*common.VersionedTransaction) bool {
	if len(a) != len(b) {
		return false
	}
	for i := range a {
		if !bytes.Equal(a[i].Marshal(), b[i].Marshal()) {
			return false
		}
	}
	return true
}

func sameSnapshot(a, b *common.Snapshot, ignoreSig bool) bool {
	if a == nil || b == nil {
		return false
	}
	x, y := *a, *b
	x.Hash, y.Hash = crypto.Hash{}, crypto.Hash{}
	if ignoreSig {
		x.Signature, y.Signature = nil, nil
	}
	return bytes.Equal(x.VersionedMarshal(), y.VersionedMarshal())
}

// runBuild derives the builder inputs from cs.Seed, runs the real builder,
// emits the model case for the builder and for parsing its output, and checks
// the round trip against the inputs.
func runBuild(c *vh.Ctx, cs Case) {
	r := vh.NewRand(cs.Seed, "c08/"+cs.Kind)
	kind := "build:" + cs.Kind
	if cs.Special != "" {
		kind += ":point:" + specialClass(cs.Special)
	} else if cs.Bad > 0 {
		kind += ":badpoint"
	}
	if cs.Cut != 0 {
		kind += ":cut"
	}
	h := &handle{}
	seed := make([]byte, 64)
	copy(seed, r.Bytes(32))
	h.key = crypto.NewKeyFromSeed(seed)
	point := func(i int) crypto.Key { // the i-th point of the message (1-based for Bad)
		if cs.Bad == i+1 {
			return placedKey(cs, r)
		}
		return validKey(r.Intn(256))
	}

	var out []byte
	var term string // build term
	var expect func(m *p2p.PeerMessage) string
	var pan bool
	var pv any
	hasPoint := 0
	bt := "bytes"
	_ = bt
	switch cs.Kind {
	case "authentication":
		data := r.Bytes(p2p.VerifAuthenticationMessageSize - 1)
		if cs.N > 0 {
			data = r.Bytes(cs.N - 1)
		}
		pan, pv = vh.Catch(func() { out = p2p.VerifBuildAuthenticationMessage(data) })
		term = vh.App("BAuthentication", vh.Bytes(data))
		expect = func(m *p2p.PeerMessage) string {
			if !bytes.Equal(m.Data, data) {
				return "authentication data differs"
			}
			return ""
		}
	case "announcement":
		s := genSnapshot(r, r.Bool())
		R := point(0)
		hasPoint = 1
		spend := h.key
		pan, pv = vh.Catch(func() { out = p2p.VerifBuildSnapshotAnnouncementMessage(s, R, spend) })
		if !pan {
			term = vh.App("BAnnouncement", vh.Bytes(out[1:65]), vh.Bytes(R[:]), vh.Bytes(s.VersionedMarshal()))
		}
		expect = func(m *p2p.PeerMessage) string {
			if m.Commitment != R || !sameSnapshot(m.Snapshot, s, false) || p2p.VerifMessageSignature(m) == nil ||
				!bytes.Equal(p2p.VerifMessageSignature(m)[:], out[1:65]) {
				return "announcement fields differ"
			}
			return ""
		}
	case "commitment":
		snap := hash(r)
		R := point(0)
		hasPoint = 1
		wants := make([]crypto.Hash, cs.N)
		wb := make([][]byte, cs.N)
		for i := range wants {
			wants[i] = hash(r)
			wb[i] = wants[i][:]
		}
		pan, pv = vh.Catch(func() { out = p2p.VerifBuildSnapshotCommitmentMessage(h, snap, R, wants) })
		if !pan {
			term = vh.App("BCommitment", vh.Bytes(out[1:65]), vh.Bytes(snap[:]), vh.Bytes(R[:]), bl(wb))
		}
		expect = func(m *p2p.PeerMessage) string {
			if m.SnapshotHash != snap || m.Commitment != R || len(m.WantTxs) != len(wants) || !bytes.Equal(p2p.VerifMessageUnsigned(m), out[65:]) {
				return "commitment fields differ"
			}
			for i := range wants {
				if wants[i] != m.WantTxs[i] {
					return "commitment wanted transactions differ"
				}
			}
			return ""
		}
	case "txchallenge":
		snap := hash(r)
		cosi := &crypto.CosiSignature{Mask: r.U64() >> uint(r.Intn(64))}
		copy(cosi.Signature[:], r.Bytes(64))
		txs := genTxs(r, cs.N)
		pan, pv = vh.Catch(func() { out = p2p.VerifBuildTransactionChallengeMessage(snap, cosi, txs) })
		term = vh.App("BTransactionChallenge", vh.Bytes(snap[:]), vh.Bytes(cosi.Signature[:]), vh.ZU(cosi.Mask), bl(txBytes(txs)))
		expect = func(m *p2p.PeerMessage) string {
			if m.SnapshotHash != snap || m.Cosi.Signature != cosi.Signature || m.Cosi.Mask != cosi.Mask || !sameTxs(m.Transactions, txs) {
				return "transaction challenge fields differ"
			}
			return ""
		}
	case "fullchallenge":
		s := genSnapshot(r, true)
		cm, ch := point(0), point(1)
		hasPoint = 2
		txs := genTxs(r, cs.N)
		pan, pv = vh.Catch(func() { out = p2p.VerifBuildFullChallengeMessage(s, &cm, &ch, txs) })
		term = vh.App("BFullChallenge", vh.Bytes(s.VersionedMarshal()), vh.Bytes(cm[:]), vh.Bytes(ch[:]), bl(txBytes(txs)))
		expect = func(m *p2p.PeerMessage) string {
			if m.Commitment != cm || m.Challenge != ch || !sameTxs(m.Transactions, txs) || !sameSnapshot(m.Snapshot, s, true) ||
				m.Cosi.Mask != s.Signature.Mask || m.Cosi.Signature != s.Signature.Signature {
				return "full challenge fields differ"
			}
			return ""
		}
	case "response":
		snap := hash(r)
		var si [32]byte
		copy(si[:], r.Bytes(32))
		pan, pv = vh.Catch(func() { out = p2p.VerifBuildSnapshotResponseMessage(snap, &si) })
		term = vh.App("BResponse", vh.Bytes(snap[:]), vh.Bytes(si[:]))
		expect = func(m *p2p.PeerMessage) string {
			if m.SnapshotHash != snap || m.Response != si {
				return "response fields differ"
			}
			return ""
		}
	case "finalization":
		s := genSnapshot(r, r.Chance(3, 4))
		pan, pv = vh.Catch(func() { out = p2p.VerifBuildSnapshotFinalizationMessage(s) })
		term = vh.App("BFinalization", vh.Bytes(s.VersionedMarshal()))
		expect = func(m *p2p.PeerMessage) string {
			if !sameSnapshot(m.Snapshot, s, false) {
				return "finalization snapshot differs"
			}
			return ""
		}
	case "confirm":
		snap := hash(r)
		pan, pv = vh.Catch(func() { out = p2p.VerifBuildSnapshotConfirmMessage(snap) })
		term = vh.App("BSnapshotConfirm", vh.Bytes(snap[:]))
		expect = func(m *p2p.PeerMessage) string {
			if m.SnapshotHash != snap {
				return "confirmed snapshot hash differs"
			}
			return ""
		}
	case "transaction":
		tx := genTx(r)
		pan, pv = vh.Catch(func() { out = p2p.VerifBuildTransactionMessage(tx) })
		term = vh.App("BTransaction", vh.Bytes(tx.Marshal()))
		expect = func(m *p2p.PeerMessage) string {
			if !sameTxs(m.Transactions, []*common.VersionedTransaction{tx}) {
				return "transaction differs"
			}
			return ""
		}
	case "bundle", "finalbundle":
		typ := byte(p2p.PeerMessageTypeTransactionBundle)
		if cs.Kind == "finalbundle" {
			typ = p2p.PeerMessageTypeFinalizedTransactionBundle
		}
		txs := genTxs(r, cs.N)
		pan, pv = vh.Catch(func() { out = p2p.VerifBuildTransactionsMessage(txs, typ) })
		term = vh.App("BTransactions", bl(txBytes(txs)), vh.NU(uint64(typ)))
		expect = func(m *p2p.PeerMessage) string {
			if !sameTxs(m.Transactions, txs) {
				return "bundle transactions differ"
			}
			return ""
		}
	case "txrequest":
		tx := hash(r)
		pan, pv = vh.Catch(func() { out = p2p.VerifBuildTransactionRequestMessage(tx) })
		term = vh.App("BTransactionRequest", vh.Bytes(tx[:]))
		expect = func(m *p2p.PeerMessage) string {
			if m.TransactionHash != tx {
				return "requested transaction hash differs"
			}
			return ""
		}
	case "graph":
		h.points = genPoints(r, cs.N)
		pan, pv = vh.Catch(func() { out = p2p.VerifBuildGraphMessage(h) })
		if !pan {
			term = vh.App("BGraph", vh.Bytes(out[1:65]), pointsTerm(h.points))
		}
		expect = func(m *p2p.PeerMessage) string {
			if len(m.Graph) != len(h.points) || !bytes.Equal(p2p.VerifMessageUnsigned(m), out[65:]) {
				return "graph points differ"
			}
			for i, p := range h.points {
				q := m.Graph[i]
				if q.NodeId != p.NodeId || q.Number != p.Number || q.Hash != p.Hash {
					return "graph points differ"
				}
			}
			return ""
		}
	case "commitments":
		ks := make([]*crypto.Key, cs.N)
		kb := make([][]byte, cs.N)
		for i := range ks {
			k := validKey(r.Intn(1100))
			if cs.Bad == i+1 {
				k = placedKey(cs, r)
			}
			ks[i] = &k
			kb[i] = k[:]
		}
		hasPoint = cs.N
		pan, pv = vh.Catch(func() { out = p2p.VerifBuildCommitmentsMessage(h, ks) })
		if !pan {
			term = vh.App("BCommitments", vh.Bytes(out[1:65]), bl(kb))
		} else {
			term = vh.App("BCommitments", vh.Bytes(make([]byte, 64)), bl(kb))
		}
		expect = func(m *p2p.PeerMessage) string {
			if len(m.Commitments) != len(ks) || !bytes.Equal(p2p.VerifMessageUnsigned(m), out[65:]) {
				return "pre-commitments differ"
			}
			for i := range ks {
				if *ks[i] != *m.Commitments[i] {
					return "pre-commitments differ"
				}
			}
			return ""
		}
	case "consumers":
		n := cs.N
		if n > 1 {
			n = 1 // the real builder iterates a map; one entry keeps the order defined
		}
		ids := make([]crypto.Hash, n)
		auths := make([][]byte, n)
		el := make([]string, n)
		var want []byte
		for i := range ids {
			ids[i] = hash(r)
			auths[i] = r.Bytes(137)
			el[i] = "(" + vh.Bytes(ids[i][:]) + ", " + vh.Bytes(auths[i]) + ")"
			want = append(append(want, ids[i][:]...), auths[i]...)
		}
		me := hash(r)
		pan, pv = vh.Catch(func() { out = p2p.VerifBuildConsumersMessage(me, ids, auths) })
		term = vh.App("BConsumers", vh.List(el, "(list N * list N)"))
		expect = func(m *p2p.PeerMessage) string {
			if !bytes.Equal(m.Data, want) {
				return "consumers data differs"
			}
			return ""
		}
	case "relay":
		me, to := hash(r), hash(r)
		inner := r.Bytes(cs.N)
		pan, pv = vh.Catch(func() { out = p2p.VerifBuildRelayMessage(me, to, inner) })
		term = vh.App("BRelay", vh.Bytes(me[:]), vh.Bytes(to[:]), vh.Bytes(inner))
		expect = func(m *p2p.PeerMessage) string {
			if !bytes.Equal(m.Data, out) || !bytes.Equal(m.Data[1:33], me[:]) || !bytes.Equal(m.Data[33:65], to[:]) || !bytes.Equal(m.Data[65:], inner) {
				return "relay data differs"
			}
			return ""
		}
	case "payload":
		txs := genTxs(r, cs.N)
		pan, pv = vh.Catch(func() { out = p2p.VerifBuildTransactionsPayload(txs) })
		term = vh.App("BTxsPayload", bl(txBytes(txs)))
		obs := vh.Pan("(list N)")
		if !pan {
			obs = vh.Ok(vh.Bytes(out))
		}
		c.Case(kind, fmt.Sprintf("%s|%d|%d", kind, cs.Seed, cs.N), !pan, cs, modelTerm(c, vh.App("CBuild", term, obs)))
		if pan != (cs.N > common.SnapshotTransactionsMaximum) {
			c.Fail("payload-builder-guard", fmt.Sprintf("buildTransactionsPayload on %d transactions: panicked=%v (%v)", cs.N, pan, pv), cs)
		}
		if !pan {
			runPayload(c, cs, out, txs)
		}
		return
	case "syncpoints":
		ps := genPoints(r, cs.N)
		pan, pv = vh.Catch(func() { out = p2p.VerifMarshalSyncPoints(ps) })
		term = vh.App("BSyncPoints", pointsTerm(ps))
		obs := vh.Pan("(list N)")
		if !pan {
			obs = vh.Ok(vh.Bytes(out))
		}
		c.Case(kind, fmt.Sprintf("%s|%d|%d", kind, cs.Seed, cs.N), !pan, cs, modelTerm(c, vh.App("CBuild", term, obs)))
		if pan {
			c.Fail("syncpoints-builder-panics", fmt.Sprintf("marshalSyncPoints panicked on %d points: %v", cs.N, pv), cs)
			return
		}
		runPoints(c, cs, out, ps)
		return
	default:
		panic("unknown builder " + cs.Kind)
	}

	obs := vh.Pan("(list N)")
	if !pan {
		obs = vh.Ok(vh.Bytes(out))
	}
	// documented builder limits: more than 255 transactions, more than 1024 commitments
	wantPanic := false
	switch cs.Kind {
	case "txchallenge", "fullchallenge", "bundle", "finalbundle":
		wantPanic = cs.N > common.SnapshotTransactionsMaximum
	case "commitments":
		wantPanic = cs.N > 1024
	}
	key := fmt.Sprintf("%s|%d|%d|%d|%d|%s", kind, cs.Seed, cs.N, cs.Bad, cs.Cut, cs.Special)
	if pan {
		bterm := ""
		if term != "" {
			bterm = vh.App("CBuild", term, obs)
		}
		c.Case(kind, key, false, cs, modelTerm(c, bterm))
		if !wantPanic {
			c.Fail("builder-guard", fmt.Sprintf("%s builder with n=%d panicked: %v", cs.Kind, cs.N, pv), cs)
		}
		return
	}
	if wantPanic {
		c.Case(kind, key, false, cs, "")
		c.Fail("builder-guard", fmt.Sprintf("%s builder with n=%d did not refuse", cs.Kind, cs.N), cs)
		return
	}
	data := out
	var extra []byte
	if cs.Cut > 0 && cs.Cut-1 < len(data) {
		data = data[:cs.Cut-1]
	} else if cs.Cut > 0 {
		cs.Cut = 0
	} else if cs.Cut < 0 {
		extra = r.Bytes(-cs.Cut)
		data = append(append([]byte(nil), data...), extra...)
	}
	version := uint8(r.Intn(4))
	m, err, ppan, ppv, pobs := parseObs(version, data)
	tb := newTables()
	tb.fill(data)
	tk, ts, tt := tb.terms()
	cut := 0
	if cs.Cut > 0 {
		cut = cs.Cut
	}
	bterm := vh.App("CBuildParse", term, obs, vh.ZI(int64(cut)), vh.Bytes(extra), vh.NU(uint64(version)), tk, ts, tt, pobs)
	if cs.Special != "" && len(bterm) <= 16<<10 {
		modelTick = modelEvery - 1 // constructed points always reach the model
	}
	c.Case(kind, key, !ppan && err == nil, cs, modelTerm(c, bterm))
	parseOracle(c, cs, data, m, err, ppan, ppv)
	if ppan {
		return
	}
	if cs.Cut != 0 {
		return // only totality (and the model) is checked on truncated / extended messages
	}
	if cs.Bad > 0 && cs.Bad <= hasPoint && !placedValid(cs) {
		if err == nil {
			c.Fail("invalid-point-accepted", fmt.Sprintf("%s message whose point #%d is invalid by construction (%s) was accepted", cs.Kind, cs.Bad, placedName(cs)), cs)
		}
		return
	}
	if cs.Kind == "commitments" && cs.N == 0 {
		// 1+64+2 = 67 bytes is below the parser's 80-byte minimum: an empty list is not a
		// message the node sends (cosiPrepareRandomsAndSendCommitments always sends 512).
		if err == nil {
			c.Note("an empty pre-commitments message was accepted")
		}
		return
	}
	if cs.Kind == "fullchallenge" && cs.N == 0 && len(out)-1 < 256 {
		// a full challenge without transactions around a round-0 snapshot (no references) is
		// 238 bytes, below the parser's 256-byte minimum; the leader always attaches the
		// snapshot's transactions (at least one), which lifts the message above it.
		return
	}
	if cs.Kind == "authentication" && cs.N > 0 && cs.N != p2p.VerifAuthenticationMessageSize {
		return // not the size the node builds
	}
	if err != nil {
		c.Fail("roundtrip-rejected", fmt.Sprintf("the %s message built by the node was refused by its parser: %v", cs.Kind, err), cs)
		return
	}
	if int(m.Type) != int(out[0]) {
		c.Fail("roundtrip-type", fmt.Sprintf("%s message parsed as type %d", cs.Kind, m.Type), cs)
		return
	}
	if msg := expect(m); msg != "" {
		c.Fail("roundtrip-fields", cs.Kind+": "+msg, cs)
	}
}

func runPayload(c *vh.Ctx, cs Case, data []byte, want []*common.VersionedTransaction) {
	var txs []*common.VersionedTransaction
	var err error
	pan, pv := vh.Catch(func() { txs, err = p2p.VerifParseTransactionsPayload(append([]byte(nil), data...)) })
	obs := vh.Err("(list (list N))")
	if pan {
		obs = vh.Pan("(list (list N))")
	} else if err == nil {
		obs = vh.Ok(bl(txBytes(txs)))
	}
	tb := newTables()
	tb.payload(data, 0)
	_, _, tt := tb.terms()
	c.Case("payload", "payload|"+hashKey(data), !pan && err == nil, cs,
		modelTerm(c, vh.App("CParseTxsPayload", vh.Bytes(data), tt, obs)))
	if pan {
		c.Fail("payload-parse-panics", fmt.Sprintf("parseTransactionsPayload panicked: %v", pv), cs)
		return
	}
	if want != nil && (err != nil || !sameTxs(txs, want)) {
		c.Fail("payload-roundtrip", fmt.Sprintf("transactions payload of %d transactions does not parse back (%v)", len(want), err), cs)
	}
}

func runPoints(c *vh.Ctx, cs Case, data []byte, want []*p2p.SyncPoint) {
	var ps []*p2p.SyncPoint
	var err error
	pan, pv := vh.Catch(func() { ps, err = p2p.VerifUnmarshalSyncPoints(append([]byte(nil), data...)) })
	obs := vh.Err("(list sync_point)")
	if pan {
		obs = vh.Pan("(list sync_point)")
	} else if err == nil {
		obs = vh.Ok(pointsTerm(ps))
	}
	c.Case("points", "points|"+hashKey(data), !pan && err == nil, cs,
		modelTerm(c, vh.App("CUnmarshalPoints", vh.Bytes(data), obs)))
	if pan {
		c.Fail("points-parse-panics", fmt.Sprintf("unmarshalSyncPoints panicked: %v", pv), cs)
		return
	}
	if want != nil {
		ok := err == nil && len(ps) == len(want)
		for i := 0; ok && i < len(want); i++ {
			ok = ps[i].NodeId == want[i].NodeId && ps[i].Number == want[i].Number && ps[i].Hash == want[i].Hash
		}
		if !ok {
			c.Fail("points-roundtrip", fmt.Sprintf("%d sync points do not parse back (%v)", len(want), err), cs)
		}
	}
}

func run(c *vh.Ctx, cs Case) {
	switch cs.Op {
	case "parse":
		data, err := hex.DecodeString(cs.Data)
		if err != nil {
			panic(err)
		}
		kind := cs.Tag
		if kind == "" {
			kind = "parse"
		}
		runParse(c, cs, kind, cs.V, data)
	case "build":
		runBuild(c, cs)
	case "inner":
		runInner(c, cs)
	case "sibling":
		runSibling(c, cs)
	case "points":
		data, _ := hex.DecodeString(cs.Data)
		runPoints(c, cs, data, nil)
	case "payload":
		data, _ := hex.DecodeString(cs.Data)
		runPayload(c, cs, data, nil)
	default:
		panic("unknown op " + cs.Op)
	}
}

// ---- case streams -------------------------------------------------------------------

var messageTypes = []byte{1, 3, 4, 5, 6, 7, 8, 9, 15, 20, 21, 22, 23, 24, 25, 200, 201, 0, 2, 10, 199, 255}

// sample builds one well-formed message of the given builder kind (used as the base of mutations).
func sample(r *vh.Rand, kind string, n int) []byte {
	h := &handle{}
	seed := make([]byte, 64)
	copy(seed, r.Bytes(32))
	h.key = crypto.NewKeyFromSeed(seed)
	switch kind {
	case "authentication":
		return p2p.VerifBuildAuthenticationMessage(r.Bytes(p2p.VerifAuthenticationMessageSize - 1))
	case "announcement":
		return p2p.VerifBuildSnapshotAnnouncementMessage(genSnapshot(r, r.Bool()), validKey(r.Intn(64)), h.key)
	case "commitment":
		ws := make([]crypto.Hash, n)
		for i := range ws {
			ws[i] = hash(r)
		}
		return p2p.VerifBuildSnapshotCommitmentMessage(h, hash(r), validKey(r.Intn(64)), ws)
	case "txchallenge":
		cosi := &crypto.CosiSignature{Mask: r.U64()}
		return p2p.VerifBuildTransactionChallengeMessage(hash(r), cosi, genTxs(r, n))
	case "fullchallenge":
		a, b := validKey(r.Intn(64)), validKey(r.Intn(64))
		return p2p.VerifBuildFullChallengeMessage(genSnapshot(r, true), &a, &b, genTxs(r, n))
	case "response":
		var si [32]byte
		return p2p.VerifBuildSnapshotResponseMessage(hash(r), &si)
	case "finalization":
		return p2p.VerifBuildSnapshotFinalizationMessage(genSnapshot(r, true))
	case "confirm":
		return p2p.VerifBuildSnapshotConfirmMessage(hash(r))
	case "transaction":
		return p2p.VerifBuildTransactionMessage(genTx(r))
	case "bundle":
		return p2p.VerifBuildTransactionsMessage(genTxs(r, n), p2p.PeerMessageTypeTransactionBundle)
	case "finalbundle":
		return p2p.VerifBuildTransactionsMessage(genTxs(r, n), p2p.PeerMessageTypeFinalizedTransactionBundle)
	case "txrequest":
		return p2p.VerifBuildTransactionRequestMessage(hash(r))
	case "graph":
		h.points = genPoints(r, n)
		return p2p.VerifBuildGraphMessage(h)
	case "commitments":
		ks := make([]*crypto.Key, n)
		for i := range ks {
			k := validKey(r.Intn(64))
			ks[i] = &k
		}
		return p2p.VerifBuildCommitmentsMessage(h, ks)
	case "relay":
		return p2p.VerifBuildRelayMessage(hash(r), hash(r), r.Bytes(n))
	case "consumers":
		return p2p.VerifBuildConsumersMessage(hash(r), []crypto.Hash{hash(r)}, [][]byte{r.Bytes(137)})
	}
	panic(kind)
}

func parseCase(tag string, v uint8, data []byte) Case {
	return Case{Op: "parse", Tag: tag, V: v, Data: hex.EncodeToString(data)}
}

// guards enumerates, for every length guard of the parser, messages of exactly
// the boundary length and one byte either side, with well-formed content up to
// that length.
func guards(c *vh.Ctx) []Case {
	r := c.Rng.Fork("guards")
	var out []Case
	cut := func(tag string, base []byte, lens ...int) {
		for _, l := range lens {
			d := base
			if l <= len(base) {
				d = base[:l]
			} else {
				d = append(append([]byte(nil), base...), r.Bytes(l-len(base))...)
			}
			out = append(out, parseCase(fmt.Sprintf("guard:%s", tag), 2, d))
		}
	}
	for _, t := range messageTypes {
		cut("len0-2", []byte{t, 0, 0}, 1, 2, 3)
	}
	out = append(out, parseCase("guard:empty", 2, nil))
	// pre-commitments: 80-byte minimum; count 1024/1025; body length = 32*count +-1
	pc := sample(r, "commitments", 1)
	cut("precommit-min", pc, 66, 67, 68, 79, 80, 81, len(pc)-1, len(pc), len(pc)+1)
	pc2 := sample(r, "commitments", 2)
	cut("precommit-len", pc2, len(pc2)-32, len(pc2)-1, len(pc2)+1, len(pc2)+32)
	pcm := sample(r, "commitments", 1024)
	cut("precommit-1024", pcm, len(pcm)-1, len(pcm), len(pcm)+1)
	over := append([]byte(nil), pcm...)
	binary.BigEndian.PutUint16(over[65:67], 1025)
	over = append(over, pcm[67:99]...)
	cut("precommit-1025", over, len(over))
	zero := append([]byte(nil), pc[:80]...)
	binary.BigEndian.PutUint16(zero[65:67], 0)
	cut("precommit-count0", zero, 67, 80)
	big := append([]byte(nil), pc...)
	binary.BigEndian.PutUint16(big[65:67], 0xffff)
	cut("precommit-count65535", big, len(big))
	// graph: 71-byte minimum; header; count vs content
	g := sample(r, "graph", 2)
	cut("graph-min", g, 64, 65, 69, 70, 71, 72, 71+71, 71+72, 71+73, len(g)-1, len(g), len(g)+1)
	g0 := sample(r, "graph", 0)
	cut("graph-empty", g0, len(g0)-1, len(g0), len(g0)+1)
	gb := append([]byte(nil), g...)
	gb[68] ^= 1
	cut("graph-badversion", gb, len(gb))
	gc := append([]byte(nil), g...)
	binary.BigEndian.PutUint16(gc[69:71], 3)
	cut("graph-count+1", gc, len(gc), len(gc)+71, len(gc)+72)
	// fixed-size messages
	cut("ping", []byte{1, 9}, 1, 2)
	a := sample(r, "authentication", 0)
	cut("authentication", a, len(a)-1, len(a), len(a)+1)
	cf := sample(r, "confirm", 0)
	cut("confirm", cf, 32, 33, 34)
	rq := sample(r, "txrequest", 0)
	cut("txrequest", rq, 32, 33, 34)
	rs := sample(r, "response", 0)
	cut("response", rs, 64, 65, 66)
	// announcement: len(data[1:]) <= 99
	an := sample(r, "announcement", 0)
	cut("announcement", an, 65, 96, 97, 99, 100, 101, 102, len(an)-1, len(an), len(an)+1)
	// commitment: len(data[1:]) < 128; wanted hashes multiple of 32
	cm := sample(r, "commitment", 2)
	cut("commitment", cm, 97, 128, 129, 130, 129+31, 129+32, 129+33, len(cm)-1, len(cm), len(cm)+1)
	// commitment messages shorter than the minimum whose (zero padded) point window is valid
	// about every other time: reaches the code behind the guard if the guard is weakened
	for i := 0; i < 10; i++ {
		cm := sample(r, "commitment", 0)
		cut("commitment-short", cm, 101, 113, 127, 128)
		an := sample(r, "announcement", 0)
		cut("announcement-short", an, 90, 97, 98, 99)
		fc := sample(r, "fullchallenge", 0)
		cut("fullchallenge-short", fc, 200, 250, 256)
		tc := sample(r, "txchallenge", 0)
		cut("txchallenge-short", tc, 100, 104, 105)
	}
	// transaction challenge: len(data[1:]) < 105
	tc := sample(r, "txchallenge", 2)
	cut("txchallenge", tc, 104, 105, 106, 107, 109, 110, 111, len(tc)-1, len(tc), len(tc)+1)
	tc0 := sample(r, "txchallenge", 0)
	cut("txchallenge-empty", tc0, len(tc0)-1, len(tc0), len(tc0)+1)
	// full challenge: len(data[1:]) < 256; snapshot size vs remaining; 65 bytes after the snapshot
	fc := sample(r, "fullchallenge", 1)
	sz := int(binary.BigEndian.Uint32(fc[1:5]))
	cut("fullchallenge", fc, 256, 257, 258, 5+sz-1, 5+sz, 5+sz+1, 5+sz+63, 5+sz+64, 5+sz+65, 5+sz+66, len(fc)-1, len(fc), len(fc)+1)
	for _, d := range []int{-1, 1, 64, 65, 66, len(fc)} {
		m := append([]byte(nil), fc...)
		binary.BigEndian.PutUint32(m[1:5], uint32(len(fc)-5-d))
		cut("fullchallenge-size", m, len(m))
	}
	for _, v := range []uint32{0, 3, 4, 0x7fffffff, 0xfffffffb, 0xfffffffc, 0xffffffff} {
		m := append([]byte(nil), fc...)
		binary.BigEndian.PutUint32(m[1:5], v)
		cut("fullchallenge-size", m, len(m))
	}
	fu := p2p.VerifBuildFullChallengeMessage(genSnapshot(r, false), &keyPool[0], &keyPool[1], genTxs(r, 1))
	cut("fullchallenge-unsigned", fu, len(fu))
	// relay 65; consumers; transaction; finalization
	rl := sample(r, "relay", 3)
	cut("relay", rl, 64, 65, 66, len(rl))
	cs := sample(r, "consumers", 0)
	cut("consumers", cs, 1, 2, len(cs))
	tx := sample(r, "transaction", 0)
	cut("transaction", tx, 1, 4, 5, len(tx)-1, len(tx), len(tx)+1)
	fn := sample(r, "finalization", 0)
	cut("finalization", fn, 1, 4, 5, len(fn)-9, len(fn)-8, len(fn)-1, len(fn), len(fn)+1)
	// bundles: count byte; 4-byte length; size vs remaining; trailing byte
	for _, k := range []string{"bundle", "finalbundle"} {
		b := sample(r, k, 2)
		s0 := int(binary.BigEndian.Uint32(b[2:6]))
		cut(k, b, 1, 2, 3, 5, 6, 7, 6+s0-1, 6+s0, 6+s0+1, 6+s0+3, 6+s0+4, 6+s0+5, len(b)-1, len(b), len(b)+1)
		for _, v := range []uint32{0, uint32(s0 - 1), uint32(s0 + 1), uint32(len(b) - 6), uint32(len(b) - 5), 0x7fffffff, 0xfffffffb, 0xfffffffc, 0xfffffffe, 0xffffffff} {
			m := append([]byte(nil), b...)
			binary.BigEndian.PutUint32(m[2:6], v)
			cut(k+"-size", m, len(m))
		}
		m := append([]byte(nil), b...)
		m[1] = 3
		cut(k+"-count+1", m, len(m))
		m = append([]byte(nil), b...)
		m[1] = 1
		cut(k+"-count-1", m, len(m))
		m = append([]byte(nil), b...)
		m[1] = 255
		cut(k+"-count255", m, len(m))
		e := sample(r, k, 0)
		cut(k+"-empty", e, 1, 2, 3)
	}
	return out
}

func genBuild(c *vh.Ctx) Case {
	r := c.Rng
	kind := builderKinds[r.Intn(len(builderKinds))]
	cs := Case{Op: "build", Kind: kind, Seed: r.U64()}
	switch kind {
	case "commitment":
		cs.N = r.Intn(6)
	case "txchallenge", "fullchallenge", "bundle", "finalbundle", "payload":
		cs.N = r.Intn(4)
		if r.Chance(1, 60) {
			cs.N = r.Range(200, 255)
		}
	case "graph", "syncpoints":
		cs.N = r.Intn(5)
		if r.Chance(1, 60) {
			cs.N = r.Range(50, 120)
		}
	case "commitments":
		cs.N = r.Range(1, 5)
		if r.Chance(1, 40) {
			cs.N = r.Range(500, 1024)
		}
	case "consumers":
		cs.N = r.Intn(2)
	case "relay":
		cs.N = r.Intn(120)
	}
	np := 0
	switch kind {
	case "announcement", "commitment":
		np = 1
	case "fullchallenge":
		np = 2
	case "commitments":
		np = cs.N
	}
	if np > 0 && r.Chance(1, 5) {
		cs.Bad = 1 + r.Intn(np)
	}
	if cs.Bad == 0 && r.Chance(1, 6) {
		if r.Bool() {
			cs.Cut = 1 + r.Intn(400)
		} else {
			cs.Cut = -r.Range(1, 40)
		}
	}
	return cs
}

// random bytes behind every known type byte; lengths spread over every guard
func genRandomParse(c *vh.Ctx) Case {
	r := c.Rng
	t := messageTypes[r.Intn(len(messageTypes))]
	if r.Chance(1, 10) {
		t = byte(r.Intn(256))
	}
	n := r.Intn(300)
	if r.Chance(2, 3) {
		n = []int{0, 1, 31, 32, 33, 63, 64, 65, 66, 69, 70, 71, 78, 79, 80, 96, 98, 99, 100, 104, 105, 106, 127, 128, 129, 136, 137, 138, 160, 161, 255, 256, 257}[r.Intn(33)] + r.Intn(2)
	}
	d := append([]byte{t}, r.Bytes(n)...)
	switch r.Intn(4) {
	case 0: // plausible internal length fields
		if len(d) > 6 {
			binary.BigEndian.PutUint32(d[1:5], uint32(r.Intn(n+2)))
			binary.BigEndian.PutUint32(d[2:6], uint32(r.Intn(n+2)))
			d[1] = byte(r.Intn(4))
		}
	case 1:
		if len(d) > 70 {
			binary.BigEndian.PutUint16(d[65:67], uint16((n-66)/32))
			copy(d[65:], []byte{0x77, 0x77, 0, 1, 0, byte(r.Intn(4))})
		}
	}
	return parseCase(fmt.Sprintf("random:type%d", t), uint8(r.Intn(256)), d)
}

// a well-formed message with a few bytes changed
func genMutated(c *vh.Ctx) Case {
	r := c.Rng
	kinds := []string{"authentication", "announcement", "commitment", "txchallenge", "fullchallenge", "response", "finalization",
		"confirm", "transaction", "bundle", "finalbundle", "txrequest", "graph", "commitments", "relay", "consumers"}
	k := kinds[r.Intn(len(kinds))]
	d := append([]byte(nil), sample(r, k, r.Intn(4))...)
	for i := r.Range(1, 3); i > 0; i-- {
		p := r.Intn(len(d))
		if p == 0 && r.Chance(3, 4) {
			continue
		}
		switch r.Intn(3) {
		case 0:
			d[p] ^= 1 << uint(r.Intn(8))
		case 1:
			d[p] = byte(r.Intn(256))
		default:
			d[p] = []byte{0, 1, 0xff, 0x7f, 0x80}[r.Intn(5)]
		}
	}
	return parseCase("mutated:"+k, 2, d)
}

func corpus() []Case {
	cs := []Case{
		{Op: "build", Kind: "commitments", Seed: 1, N: 0}, // refuted round trip: below the 80-byte minimum
		{Op: "build", Kind: "commitments", Seed: 2, N: 1},
		{Op: "build", Kind: "commitments", Seed: 3, N: 1024},
		{Op: "build", Kind: "commitments", Seed: 4, N: 1025},
		{Op: "build", Kind: "commitments", Seed: 5, N: 1024, Bad: 1024},
		{Op: "build", Kind: "commitments", Seed: 6, N: 3, Bad: 2},
		{Op: "build", Kind: "bundle", Seed: 7, N: 0},
		{Op: "build", Kind: "bundle", Seed: 8, N: 255},
		{Op: "build", Kind: "bundle", Seed: 9, N: 256},
		{Op: "build", Kind: "finalbundle", Seed: 10, N: 255},
		{Op: "build", Kind: "txchallenge", Seed: 11, N: 0},
		{Op: "build", Kind: "txchallenge", Seed: 12, N: 255},
		{Op: "build", Kind: "txchallenge", Seed: 13, N: 256},
		{Op: "build", Kind: "fullchallenge", Seed: 14, N: 0},
		{Op: "build", Kind: "fullchallenge", Seed: 15, N: 255},
		{Op: "build", Kind: "fullchallenge", Seed: 16, N: 256},
		{Op: "build", Kind: "fullchallenge", Seed: 17, N: 1, Bad: 1},
		{Op: "build", Kind: "fullchallenge", Seed: 18, N: 1, Bad: 2},
		{Op: "build", Kind: "announcement", Seed: 19, Bad: 1},
		{Op: "build", Kind: "commitment", Seed: 20, N: 0},
		{Op: "build", Kind: "commitment", Seed: 21, N: 255},
		{Op: "build", Kind: "commitment", Seed: 22, N: 1, Bad: 1},
		{Op: "build", Kind: "graph", Seed: 23, N: 0},
		{Op: "build", Kind: "graph", Seed: 24, N: 300},
		{Op: "build", Kind: "syncpoints", Seed: 25, N: 0},
		{Op: "build", Kind: "payload", Seed: 26, N: 255},
		{Op: "build", Kind: "payload", Seed: 27, N: 256},
		{Op: "build", Kind: "relay", Seed: 28, N: 0},
		{Op: "build", Kind: "consumers", Seed: 29, N: 0},
		{Op: "build", Kind: "consumers", Seed: 30, N: 1},
		{Op: "build", Kind: "authentication", Seed: 31},
		{Op: "build", Kind: "authentication", Seed: 32, N: 137},
		{Op: "build", Kind: "authentication", Seed: 33, N: 139},
	}
	for _, k := range builderKinds {
		cs = append(cs, Case{Op: "build", Kind: k, Seed: 100, N: 2})
	}
	// every constructed point in every point slot of every message type that validates points
	for i, sp := range specials {
		seed := uint64(1000 + i)
		cs = append(cs,
			Case{Op: "build", Kind: "announcement", Seed: seed, Bad: 1, Special: sp.Name},
			Case{Op: "build", Kind: "commitment", Seed: seed, N: i % 3, Bad: 1, Special: sp.Name},
			Case{Op: "build", Kind: "fullchallenge", Seed: seed, N: 1, Bad: 1, Special: sp.Name},
			Case{Op: "build", Kind: "fullchallenge", Seed: seed, N: 1, Bad: 2, Special: sp.Name},
			Case{Op: "build", Kind: "commitments", Seed: seed, N: 5, Bad: 1, Special: sp.Name},
			Case{Op: "build", Kind: "commitments", Seed: seed, N: 5, Bad: 3, Special: sp.Name},
			Case{Op: "build", Kind: "commitments", Seed: seed, N: 5, Bad: 5, Special: sp.Name},
			Case{Op: "build", Kind: "commitments", Seed: seed, N: 1, Bad: 1, Special: sp.Name},
		)
		if i%8 == 0 {
			cs = append(cs, Case{Op: "build", Kind: "commitments", Seed: seed, N: 512, Bad: 1 + (i*37)%512, Special: sp.Name},
				Case{Op: "build", Kind: "commitments", Seed: seed, N: 1024, Bad: 1024, Special: sp.Name})
		}
	}
	return cs
}

func main() {
	c := vh.Start("C08")
	c.Rep.Rule = "stateful sibling sequences for the decoded-point cache (sibling parsed cold, valid point P parsed, sibling parsed again; siblings share a prefix of 8..31 bytes, a suffix, or all but one byte / bit with P, status decided by decoding, canonical re-encoding and multiplication by the group order), in every point slot; " +
		"points valid / invalid BY CONSTRUCTION (s*B; the 8 small-order points in every parsed encoding, s*B+T for each torsion point T, y>=p, off-curve y; built with filippo.io/edwards25519, not the repository) in every point slot: announcement, commitment, full challenge commitment and challenge, pre-commitments first/middle/last; " +
		"corpus of builder limits (0/255/256 transactions, 0/1/1024/1025 commitments, invalid point at each position); " +
		"inner transaction / snapshot encodings assembled at byte level with complete members and counts at limit-1, limit, limit+1 and the next constant " +
		"(inputs, outputs, keys, references, signature maps, signatures, signers, extra, amount, input index; snapshot transactions / references), inside every carrying message type; " +
		"directed messages of exactly every parser length guard and one byte either side (built by the real builders, then cut or " +
		"extended, internal size fields set around the remaining length and near 2^32); every builder on random contents from a " +
		"per-case seed (1/5 with one point replaced by an off-curve value, 1/6 cut or extended); random bytes behind every type byte " +
		"with lengths 1..320; well-formed messages with 1..3 bytes changed. Non-trivial = the parser (or builder) returned a value; " +
		"distinct by message bytes."
	if c.Replay != "" {
		var cs Case
		c.ReplayCase(&cs)
		run(c, cs)
		c.Finish()
		return
	}
	validKey(1100)
	// the model side costs about 80 microseconds of coqc per byte of a case: the corpus and the
	// guard cases always go to the model, the random stream is sampled to a text budget.
	modelBudget = c.Scale(2, 60) << 20
	for _, cs := range corpus() {
		run(c, cs)
	}
	for _, cs := range guards(c) {
		run(c, cs)
	}
	for _, cs := range innerCases(c.Tier == "thorough") {
		run(c, cs)
	}
	// stateful: a valid point is decoded, then near siblings of it that are known to be invalid
	for _, cs := range siblingCases(c.Rng.Fork("siblings"), c.Scale(12, 24)) {
		run(c, cs)
	}
	n := c.Scale(6000, 200000)
	modelEvery = 3
	if c.Tier == "search" {
		modelEvery = 30
	}
	for i := 0; i < n; i++ {
		switch c.Rng.Intn(10) {
		case 0, 1, 2, 3:
			run(c, genBuild(c))
		case 4, 5, 6:
			run(c, genRandomParse(c))
		default:
			run(c, genMutated(c))
		}
	}
	c.Finish()
	_ = big.NewInt
	_ = strings.Join
}

// modelTerm drops the Coq term of a case whose text is too large to evaluate
// inside coqc at a reasonable cost; such a case is checked by the oracle only.
const maxTerm = 40 << 10

var modelBudget = 0 // bytes of Coq text still available for model cases
var modelEvery, modelTick = 1, 0

func modelTerm(c *vh.Ctx, t string) string {
	if t == "" {
		return ""
	}
	if len(t) > maxTerm {
		c.Count("oracle-only(large)")
		return ""
	}
	modelTick++
	if modelTick%modelEvery != 0 || modelBudget < len(t) {
		c.Count("oracle-only(sampled)")
		return ""
	}
	modelBudget -= len(t)
	return t
}

func hashKey(data []byte) string {
	h := crypto.Blake3Hash(data)
	return hex.EncodeToString(h[:12])
}
