// Points whose validity is known BY CONSTRUCTION, built with
// filippo.io/edwards25519 directly (never with the repository's crypto
// package): valid = s*B for a known scalar s; invalid = the eight small-order
// points in every encoding the library parses, mixed-order points s*B + T for
// every torsion point T, non-canonical encodings (y >= p) and y values that are
// not on the curve.  The oracle and the model's check_key table use this
// status, not the answer of crypto.Key.CheckKey.
package main

import (
	"crypto/sha512"
	"encoding/binary"
	"encoding/hex"
	"fmt"
	"math/big"

	"filippo.io/edwards25519"
	"github.com/MixinNetwork/mixin/crypto"
)

type special struct {
	Name  string
	Key   crypto.Key
	Valid bool
}

var knownKeys = map[crypto.Key]bool{} // status by construction
var specials []special
var specialByName = map[string]*special{}

var smallOrderHex = []string{
	"0100000000000000000000000000000000000000000000000000000000000000", // identity, order 1
	"ecffffffffffffffffffffffffffffffffffffffffffffffffffffffffffff7f", // order 2
	"0000000000000000000000000000000000000000000000000000000000000000", // order 4
	"0000000000000000000000000000000000000000000000000000000000000080", // order 4
	"26e8958fc2b227b045c3f489f2ef98f0d5dfac05d3c63339b13802886d53fc05", // order 8
	"26e8958fc2b227b045c3f489f2ef98f0d5dfac05d3c63339b13802886d53fc85", // order 8
	"c7176a703d4dd84fba3c0b760d10670f2a2053fa2c39ccc64ec7fd7792ac037a", // order 8
	"c7176a703d4dd84fba3c0b760d10670f2a2053fa2c39ccc64ec7fd7792ac03fa", // order 8
}

// basePoint returns s*B for the scalar derived from label, s != 0.
func basePoint(label string, i int) *edwards25519.Point {
	buf := binary.BigEndian.AppendUint64([]byte(label), uint64(i))
	h := sha512.Sum512(buf)
	s, err := edwards25519.NewScalar().SetUniformBytes(h[:])
	if err != nil {
		panic(err)
	}
	if s.Equal(edwards25519.NewScalar()) == 1 {
		panic("zero scalar")
	}
	return edwards25519.NewIdentityPoint().ScalarBaseMult(s)
}

func addSpecial(name string, b []byte, valid bool) {
	var k crypto.Key
	copy(k[:], b)
	if old, ok := knownKeys[k]; ok {
		if old != valid {
			panic("conflicting construction for " + name)
		}
		return
	}
	knownKeys[k] = valid
	specials = append(specials, special{name, k, valid})
	specialByName[name] = &specials[len(specials)-1]
}

func init() {
	var torsion []*edwards25519.Point
	for i, h := range smallOrderHex {
		b, _ := hex.DecodeString(h)
		p, err := edwards25519.NewIdentityPoint().SetBytes(b)
		if err != nil {
			panic(err)
		}
		// by construction: 8*T is the identity
		if edwards25519.NewIdentityPoint().MultByCofactor(p).Equal(edwards25519.NewIdentityPoint()) != 1 {
			panic("not a small-order point: " + h)
		}
		torsion = append(torsion, p)
		addSpecial(fmt.Sprintf("small-order-%d", i), b, false)
		c := append([]byte(nil), b...)
		c[31] ^= 0x80 // the other sign bit: a second encoding when x = 0, the negated point otherwise
		addSpecial(fmt.Sprintf("small-order-%d-sign", i), c, false)
	}
	// mixed order: prime-order point plus a torsion point of order 2, 4 or 8
	for i, t := range torsion[1:] {
		for j := 0; j < 2; j++ {
			p := basePoint("c08 mixed", i*2+j)
			m := edwards25519.NewIdentityPoint().Add(p, t)
			addSpecial(fmt.Sprintf("mixed-order-%d-%d", i+1, j), m.Bytes(), false)
		}
	}
	// non-canonical: the field element y + p for the small y, with either sign bit
	p25519 := new(big.Int).Sub(new(big.Int).Lsh(big.NewInt(1), 255), big.NewInt(19))
	for y := int64(0); y < 19; y += 3 {
		v := new(big.Int).Add(p25519, big.NewInt(y))
		le := make([]byte, 32)
		be := v.Bytes()
		for i := range be {
			le[i] = be[len(be)-1-i]
		}
		addSpecial(fmt.Sprintf("non-canonical-y-%d", y), le, false)
		le2 := append([]byte(nil), le...)
		le2[31] |= 0x80
		addSpecial(fmt.Sprintf("non-canonical-y-%d-sign", y), le2, false)
	}
	// y not on the curve: the library itself finds no x for it
	found := 0
	for c := 2; found < 4; c++ {
		var b [32]byte
		binary.LittleEndian.PutUint64(b[:], uint64(c)*0x9e3779b97f4a7c15)
		b[20] = byte(c)
		if _, err := edwards25519.NewIdentityPoint().SetBytes(b[:]); err != nil {
			addSpecial(fmt.Sprintf("off-curve-%d", found), b[:], false)
			found++
		}
	}
	// valid: s*B
	for i := 0; i < 4; i++ {
		addSpecial(fmt.Sprintf("valid-%d", i), basePoint("c08 valid special", i).Bytes(), true)
	}
}

// constructedKey is the i-th point of the valid pool: s*B, status known.
func constructedKey(i int) crypto.Key {
	var k crypto.Key
	copy(k[:], basePoint("c08 point pool", i).Bytes())
	knownKeys[k] = true
	return k
}

func invalidSpecials() []special {
	var out []special
	for _, s := range specials {
		if !s.Valid {
			out = append(out, s)
		}
	}
	return out
}

// keyStatus: the status by construction when there is one, else what the real check says.
func keyStatus(k crypto.Key) bool {
	if v, ok := knownKeys[k]; ok {
		return v
	}
	return k.CheckKey()
}
