// Stateful sequences around the decoded-point cache behind Key.CheckKey: a
// message with a fresh valid point P is parsed (which caches P), then messages
// whose point is a near sibling of P -- sharing a prefix of 8/16/24/31 bytes, a
// suffix, or all but one byte / bit -- and whose status is known independently
// (filippo.io/edwards25519 decoding, canonical re-encoding and an explicit
// multiplication by the group order; nothing of the repository's crypto
// package).  Control order first: the sibling message is parsed with a cold
// cache, before P has ever been decoded.  Oracle: an invalid point is refused
// whatever was parsed before; a valid one (e.g. the sign bit flipped: -P) is accepted.
package main

import (
	"fmt"
	"math/big"

	"filippo.io/edwards25519"
	"github.com/MixinNetwork/mixin/common"
	"github.com/MixinNetwork/mixin/crypto"
	"github.com/MixinNetwork/mixin/p2p"
	"verifharness/vh"
)

var groupOrder, _ = new(big.Int).SetString("7237005577332262213973186563042994240857116359379907606001950938285454250989", 10)

// independentStatus decides validity from first principles: a canonical
// encoding of a curve point other than the identity that the group order annihilates.
func independentStatus(k crypto.Key) (bool, string) {
	p, err := edwards25519.NewIdentityPoint().SetBytes(k[:])
	if err != nil {
		return false, "not on the curve"
	}
	if string(p.Bytes()) != string(k[:]) {
		return false, "non-canonical encoding"
	}
	id := edwards25519.NewIdentityPoint()
	if p.Equal(id) == 1 {
		return false, "identity"
	}
	acc := edwards25519.NewIdentityPoint()
	for i := groupOrder.BitLen() - 1; i >= 0; i-- { // double and add: l*P
		acc.Add(acc, acc)
		if groupOrder.Bit(i) == 1 {
			acc.Add(acc, p)
		}
	}
	if acc.Equal(id) != 1 {
		return false, "torsion component (mixed order)"
	}
	return true, "prime order"
}

var siblingVariants = []string{"prefix8", "prefix16", "prefix24", "prefix31", "suffix8", "suffix16", "suffix24", "suffix31",
	"byte0", "byte7", "byte8", "byte9", "byte15", "byte16", "byte24", "byte30", "byte31",
	"bit64", "bit65", "bit127", "bit200", "bit248", "bit254", "bit255"}

var siblingSlots = []string{"precommit-first", "precommit-middle", "precommit-last", "announcement", "commitment", "fullchallenge-commitment", "fullchallenge-challenge"}

// sibling derives P' from P; deterministic in (variant, r).
func sibling(P crypto.Key, variant string, r *vh.Rand) crypto.Key {
	q := P
	var n int
	switch {
	case len(variant) > 6 && variant[:6] == "prefix":
		fmt.Sscanf(variant[6:], "%d", &n)
		for {
			copy(q[n:], r.Bytes(32-n))
			if q != P {
				if ok, _ := independentStatus(q); !ok {
					return q
				}
			}
		}
	case len(variant) > 6 && variant[:6] == "suffix":
		fmt.Sscanf(variant[6:], "%d", &n)
		for {
			copy(q[:32-n], r.Bytes(32-n))
			if q != P {
				if ok, _ := independentStatus(q); !ok {
					return q
				}
			}
		}
	case variant[:4] == "byte":
		fmt.Sscanf(variant[4:], "%d", &n)
		for t := 1; t < 256; t++ { // the smallest change of that byte that is invalid
			q = P
			q[n] ^= byte(t)
			if ok, _ := independentStatus(q); !ok {
				return q
			}
		}
		return q
	default: // bitN: exactly one bit flipped, whatever the status
		fmt.Sscanf(variant[3:], "%d", &n)
		q[n/8] ^= 1 << uint(n%8)
		return q
	}
}

func messageWithPoint(slot string, r *vh.Rand, k crypto.Key) []byte {
	h := &handle{}
	seed := make([]byte, 64)
	copy(seed, r.Bytes(32))
	h.key = crypto.NewKeyFromSeed(seed)
	v1, v2 := validKey(r.Intn(64)), validKey(r.Intn(64))
	switch slot {
	case "precommit-first":
		return p2p.VerifBuildCommitmentsMessage(h, []*crypto.Key{&k, &v1, &v2})
	case "precommit-middle":
		return p2p.VerifBuildCommitmentsMessage(h, []*crypto.Key{&v1, &k, &v2})
	case "precommit-last":
		return p2p.VerifBuildCommitmentsMessage(h, []*crypto.Key{&v1, &v2, &k})
	case "announcement":
		return p2p.VerifBuildSnapshotAnnouncementMessage(genSnapshot(r, r.Bool()), k, h.key)
	case "commitment":
		return p2p.VerifBuildSnapshotCommitmentMessage(h, hash(r), k, []crypto.Hash{hash(r)})
	case "fullchallenge-commitment":
		return p2p.VerifBuildFullChallengeMessage(genSnapshot(r, true), &k, &v1, []*common.VersionedTransaction{genTx(r)})
	case "fullchallenge-challenge":
		return p2p.VerifBuildFullChallengeMessage(genSnapshot(r, true), &v1, &k, []*common.VersionedTransaction{genTx(r)})
	}
	panic(slot)
}

func runSibling(c *vh.Ctx, cs Case) {
	r := vh.NewRand(cs.Seed, "c08/sibling/"+cs.Kind+"/"+cs.Special)
	// a valid point no earlier case has decoded: the cache is cold for it and its siblings
	var P crypto.Key
	copy(P[:], basePoint("c08 sibling "+cs.Kind+" "+cs.Special, int(cs.Seed%(1<<30))).Bytes())
	knownKeys[P] = true
	Q := sibling(P, cs.Special, r)
	okQ, why := independentStatus(Q)
	knownKeys[Q] = okQ
	kind := "sibling:" + cs.Kind
	if okQ {
		kind += ":valid-sibling"
	}
	step := func(stage string, k crypto.Key, want bool, model bool) {
		data := messageWithPoint(cs.Kind, r.Fork(stage), k)
		m, err, pan, pv, obs := parseObs(2, data)
		term := ""
		if model {
			tb := newTables()
			tb.fill(data)
			tk, ts, tt := tb.terms()
			term = vh.App("CParse", vh.NU(2), vh.Bytes(data), tk, ts, tt, obs)
			if len(term) <= 16<<10 {
				modelTick = modelEvery - 1
			}
			term = modelTerm(c, term)
		}
		c.Case(kind+":"+stage, fmt.Sprintf("%s|%s|%s|%d", stage, cs.Kind, cs.Special, cs.Seed), !pan && err == nil, cs, term)
		parseOracle(c, cs, data, m, err, pan, pv)
		if pan {
			return
		}
		if !want && err == nil {
			c.Fail("invalid-sibling-point-accepted", fmt.Sprintf("%s: a %s message whose point (%s of a valid point; %s) is invalid was accepted", stage, cs.Kind, cs.Special, why), cs)
		}
		if want && err != nil {
			c.Fail("valid-point-refused", fmt.Sprintf("%s: a %s message whose points are all valid was refused: %v", stage, cs.Kind, err), cs)
		}
	}
	step("cold", Q, okQ, false)     // control order: the sibling before P was ever decoded
	step("warm-up", P, true, false) // the valid point is decoded and cached
	step("after-valid", Q, okQ, true)
	step("valid-again", P, true, false)
}

func siblingCases(r *vh.Rand, perSlot int) []Case {
	var out []Case
	for i, slot := range siblingSlots {
		for j, v := range siblingVariants {
			if perSlot < len(siblingVariants) && (i+j)%((len(siblingVariants)+perSlot-1)/perSlot) != 0 {
				continue
			}
			out = append(out, Case{Op: "sibling", Kind: slot, Special: v, Seed: r.U64()})
		}
	}
	return out
}
