// C05 harness: validating any decodable transaction never crashes the node.
//
// Same machinery as C01 (verifharness/cmd/c01/valsim): random ledger views in an
// in-memory common.DataStore, structured version-5 transactions of every type
// built with real keys and signatures, a heavier stream of payload / signature /
// byte mutants, every candidate passed through the real encoder and the real
// decoder (only decodable transactions are validated), then the real
// (*VersionedTransaction).Validate under recover.
//
// Oracle (property text, independent of the model): a panic of Validate on a
// decodable transaction over a view that satisfies the ledger invariants is a
// failure.  Views that deliberately violate one invariant (zero-amount output
// record, output record without its transaction or of another type, pledging
// node without its pledge transaction, unknown node state, no custodian,
// duplicate custodian nodes, negative balance, stored transaction without
// outputs) are outside the property's quantifier: there the harness only checks
// that the model panics exactly where the code does.
// The corpus holds the F1 and F2 witnesses (refused without a panic since the
// fixes 727537e and b74bce9).
package main

import (
	"verifharness/cmd/c01/valsim"
	"verifharness/vh"
)

func main() {
	c := vh.Start("C05")
	c.Rep.Rule = "corpus (F1/F2 witnesses, one passing transaction per type, cancel over a script input), then random views x " +
		"builders of all 11 transaction types with 55% payload mutants (amounts 0/1/2^64*0.0001/2^520, output types, keys, masks, " +
		"scripts, extras of boundary lengths, references, special inputs), 30% signature mutants (missing/surplus maps, aggregated), " +
		"12% byte-mutated encodings kept only if the real decoder accepts them, 15% views violating one ledger invariant; " +
		"non-trivial = accepted or the validation reached the store; distinct by hash of (view, transaction, ts, fork). Every case is run under both values of the fork flag (implementation + oracle; the twin is also sent to the model when its decision differs)."
	opt := valsim.Options{OracleC05: true, OracleC01: true}
	if c.Replay != "" {
		var cs valsim.Case
		c.ReplayCase(&cs)
		valsim.Run(c, cs, opt)
		c.Finish()
		return
	}
	for _, cs := range valsim.LoadCorpus("C05") {
		valsim.Run(c, cs, opt)
	}
	for _, cs := range valsim.Corpus(c.Rng) {
		valsim.Run(c, cs, opt)
	}
	n := c.Scale(1100, 25000)
	if c.Tier != "quick" {
		opt.RejectSample = 4
	}
	mix := valsim.Mix{BreakView: 15, Mutate: 55, SigMutate: 30, Bytes: 12}
	for i := 0; i < n; i++ {
		cs, ok := valsim.Generate(c.Rng, mix, nil)
		if !ok {
			c.Count("unencodable-draft")
			continue
		}
		valsim.Run(c, cs, opt)
	}
	c.Finish()
}
