// C16 harness: random ledger histories on a real node and Badger store.  Every
// snapshot batch is validated through the node's own
// validateSnapshotTransaction against the durable state and, if accepted,
// finalized with storage.WriteSnapshot under recover.
//
// Oracle (property text): a batch whose every member passed validation and
// which passed the batch rules can be written.  A failing write whose batch
// lies in the recorded finding region (the deposits/mints of one asset in the
// batch push the recorded total above the asset's capacity) is reported with
// sig=batch-deposits-sum-over-capacity; any other failing write has another sig.
//
// Each history is also sent to the Coq model (Run/C16.v), which recomputes
// every validation decision, every write outcome and the final asset totals.
package main

import (
	"crypto/sha256"
	"encoding/hex"
	"encoding/json"
	"fmt"
	"math/big"
	"strings"

	"github.com/MixinNetwork/mixin/common"
	"github.com/MixinNetwork/mixin/crypto"
	"verifharness/vh"
)

// ---- case description (self-contained, replayable) --------------------------

type OutSpec struct {
	Type   string `json:"type"`   // script | submit | claim | raw (any output type code, see Code)
	Code   int    `json:"code,omitempty"`
	Amount string `json:"amount"` // decimal XIN-style amount
	To     int    `json:"to"`     // user index (script outputs)
	Seed   string `json:"seed"`   // ghost key seed tag
}

type Ref struct {
	Step int `json:"step"`
	Tx   int `json:"tx"`
	Out  int `json:"out"`
}

type TxSpec struct {
	Kind   string    `json:"kind"` // deposit | transfer | withdraw | claim | mint | reuse
	Asset  int       `json:"asset"`
	Amount string    `json:"amount,omitempty"`
	DepTx  string    `json:"dep_tx,omitempty"`
	DepIdx uint64    `json:"dep_idx,omitempty"`
	Info   int       `json:"info,omitempty"` // 0 canonical asset info, 1 conflicting
	In     []Ref     `json:"in,omitempty"`
	Outs   []OutSpec `json:"outs,omitempty"`
	Claim  *Ref      `json:"claim,omitempty"` // the withdrawal submit a claim references
	Refs   []Ref     `json:"refs,omitempty"`  // further references (step < 0: a hash nobody stored)
	BadSig bool      `json:"bad_sig,omitempty"`
	Batch  uint64    `json:"batch,omitempty"`
	Reuse  *Ref      `json:"reuse,omitempty"` // include an earlier transaction again
}

type StepSpec struct {
	Direct bool     `json:"direct,omitempty"` // mint: Validate+LockInputs+WriteTransaction, then WriteSnapshot
	Txs    []TxSpec `json:"txs"`
}

type Case struct {
	Name  string     `json:"name"`
	Steps []StepSpec `json:"steps"`
}

// ---- assets ----------------------------------------------------------------------

type assetDef struct {
	name string
	id   crypto.Hash
	info []*common.Asset // 0 canonical; 1 another key; 2 lower case; 3 upper case; 4 one letter's case flipped; 5 another chain; 6 a trailing byte
}

func flipOne(key string) string {
	b := []byte(key)
	for i := len(b) - 1; i >= 0; i-- {
		switch {
		case b[i] >= 'a' && b[i] <= 'z':
			b[i] -= 32
			return string(b)
		case b[i] >= 'A' && b[i] <= 'Z':
			b[i] += 32
			return string(b)
		}
	}
	return key + "x"
}

func assets() []assetDef {
	custom := crypto.Blake3Hash([]byte("verif-c16-custom-asset"))
	erc20 := crypto.Blake3Hash([]byte("verif-c16-erc20-asset"))
	mk := func(chain crypto.Hash, key string) []*common.Asset {
		other := common.BitcoinAssetId
		if chain == other {
			other = common.EthereumAssetId
		}
		return []*common.Asset{{Chain: chain, AssetKey: key}, {Chain: chain, AssetKey: key + "-other"},
			{Chain: chain, AssetKey: strings.ToLower(key)}, {Chain: chain, AssetKey: strings.ToUpper(key)},
			{Chain: chain, AssetKey: flipOne(key)}, {Chain: other, AssetKey: key}, {Chain: chain, AssetKey: key + "0"}}
	}
	xin := mk(common.XINAsset.Chain, common.XINAsset.AssetKey)
	xin[0] = common.XINAsset
	xin[1] = &common.Asset{Chain: common.EthereumAssetId, AssetKey: "0xother"}
	return []assetDef{
		{"XIN", common.XINAssetId, xin},
		{"BTC", common.BitcoinAssetId, mk(common.BitcoinAssetId, "c6d0c728-2624-429b-8e0d-d9d19b6592fa")},
		{"SOL", common.SOLAssetId, mk(common.SOLAssetId, "11111111111111111111111111111111")},
		{"CUSTOM", custom, mk(common.EthereumAssetId, "0xcustom")},
		// a checksummed (mixed case) ERC20 contract address as asset key
		{"ERC20", erc20, mk(common.EthereumAssetId, "0xdAC17F958D2ee523a2206206994597C13D831ec7")},
	}
}

func infoDigest(a *common.Asset) *big.Int {
	h := sha256.Sum256([]byte(a.Chain.String() + "|" + a.AssetKey))
	return new(big.Int).SetBytes(h[:])
}

// ---- history state ----------------------------------------------------------------

type builtTx struct {
	ver  *common.VersionedTransaction
	spec TxSpec
	sig  bool
}

type avail struct {
	ref    Ref
	asset  int
	amount common.Integer
	owner  int
}

type hist struct {
	c       *vh.Ctx
	f       *fixture
	as      []assetDef
	specs   []StepSpec
	built   [][]*builtTx
	terms   []string // Coq step terms
	dead    bool     // a write failed: the history ends
	reached bool     // some batch reached WriteSnapshot
	// generator bookkeeping
	avail   []avail
	submits []Ref
	finals  []Ref // finalized transactions (reference targets)
	stale   []Ref
	seeds   []OutSpec
	deps    []TxSpec
	batch   uint64
	nseed   int
	ids     map[string]uint64
	recAt   map[crypto.Hash]bool // was the member's asset id recorded when the member was built (and validated)
}

func bigInt(v int64) *big.Int { return big.NewInt(v) }

func phash(v *common.VersionedTransaction) []byte { x := v.PayloadHash(); return x[:] }

func unitsOf(x common.Integer) *big.Int { return common.VerifIntegerBig(x) }

func hashN(h crypto.Hash) string { return vh.BytesAsN(h[:]) }

// id renames a 32-byte value (transaction hash, snapshot hash, ghost key,
// deposit key, asset info digest) to a small positive number, injectively
// within one history: the model only compares them for equality (0 is "none").
// Asset ids keep their real value (the model computes capacities from them).
func (h *hist) id(b []byte) string {
	k := string(b)
	if h.ids == nil {
		h.ids = map[string]uint64{}
	}
	if v, ok := h.ids[k]; ok {
		return vh.NU(v)
	}
	v := uint64(len(h.ids) + 1)
	h.ids[k] = v
	return vh.NU(v)
}

func (h *hist) lookup(r Ref) *builtTx {
	if r.Step < 0 || r.Step >= len(h.built) || r.Tx < 0 || r.Tx >= len(h.built[r.Step]) {
		return nil
	}
	return h.built[r.Step][r.Tx]
}

func seedBytes(tag string) []byte {
	a := crypto.Blake3Hash([]byte("verif-c16-seed-" + tag))
	return append(a[:], a[:]...)
}

// build turns a spec into a signed transaction against the current store.
func (h *hist) build(sp TxSpec) *builtTx {
	f := h.f
	as := h.as[sp.Asset%len(h.as)]
	tx := common.NewTransactionV5(as.id)
	addOuts := func() {
		for _, o := range sp.Outs {
			amt := common.NewIntegerFromString(o.Amount)
			switch o.Type {
			case "submit":
				tx.Outputs = append(tx.Outputs, &common.Output{Type: common.OutputTypeWithdrawalSubmit, Amount: amt,
					Withdrawal: &common.WithdrawalData{Address: "verif-destination", Tag: ""}})
			case "claim":
				tx.Outputs = append(tx.Outputs, &common.Output{Type: common.OutputTypeWithdrawalClaim, Amount: amt})
			case "raw":
				switch uint8(o.Code) {
				case common.OutputTypeWithdrawalSubmit:
					tx.Outputs = append(tx.Outputs, &common.Output{Type: uint8(o.Code), Amount: amt,
						Withdrawal: &common.WithdrawalData{Address: "verif-destination", Tag: ""}})
				case common.OutputTypeWithdrawalClaim, common.OutputTypeNodePledge, common.OutputTypeNodeCancel, common.OutputTypeNodeAccept:
					// kernel multisig outputs carry no keys, script or mask
					tx.Outputs = append(tx.Outputs, &common.Output{Type: uint8(o.Code), Amount: amt})
				default: // every other code must look like a script output to pass validateOutputs
					u := f.users[o.To%len(f.users)]
					tx.AddOutputWithType(uint8(o.Code), []*common.Address{&u}, common.NewThresholdScript(1), amt, seedBytes(o.Seed))
				}
			default:
				u := f.users[o.To%len(f.users)]
				tx.AddScriptOutput([]*common.Address{&u}, common.NewThresholdScript(1), amt, seedBytes(o.Seed))
			}
		}
	}
	b := &builtTx{spec: sp, sig: !sp.BadSig}
	switch sp.Kind {
	case "deposit":
		info := as.info[sp.Info%len(as.info)]
		tx.AddDepositInput(&common.DepositData{Chain: info.Chain, AssetKey: info.AssetKey,
			Transaction: sp.DepTx, Index: sp.DepIdx, Amount: common.NewIntegerFromString(sp.Amount)})
		addOuts()
		st := &common.SignedTransaction{Transaction: *tx}
		if err := st.SignRaw(f.custodian.PrivateSpendKey); err != nil {
			panic(err)
		}
		b.ver = st.AsVersioned()
	case "mint":
		tx.AddUniversalMintInput(sp.Batch, common.NewIntegerFromString(sp.Amount))
		addOuts()
		st := &common.SignedTransaction{Transaction: *tx}
		if err := st.SignRaw(f.custodian.PrivateSpendKey); err != nil {
			panic(err)
		}
		b.ver = st.AsVersioned()
	default: // transfer | withdraw | claim
		owners := []int{}
		for _, r := range sp.In {
			src := h.lookup(r)
			if src == nil {
				panic("bad input ref")
			}
			tx.AddInput(src.ver.PayloadHash(), uint(r.Out))
			owners = append(owners, src.spec.Outs[r.Out].To)
		}
		addOuts()
		if sp.Kind == "claim" {
			sub := h.lookup(*sp.Claim)
			tx.References = []crypto.Hash{sub.ver.PayloadHash()}
			payload := []byte("claimed:" + sub.ver.PayloadHash().String())
			sig := f.custodian.PrivateSpendKey.Sign(crypto.Blake3Hash(payload))
			tx.Extra = append(sig[:], payload...)
		}
		for _, r := range sp.Refs {
			if r.Step < 0 {
				tx.References = append(tx.References, crypto.Blake3Hash([]byte(fmt.Sprintf("verif-c16-unknown-ref-%d", r.Tx))))
			} else if src := h.lookup(r); src != nil {
				tx.References = append(tx.References, src.ver.PayloadHash())
			} else {
				panic("bad reference")
			}
		}
		st := &common.SignedTransaction{Transaction: *tx}
		for i := range st.Inputs {
			u := f.users[owners[i]%len(f.users)]
			if err := st.SignInput(f.store, i, []*common.Address{&u}); err != nil {
				st.SignaturesMap = append(st.SignaturesMap, map[uint16]*crypto.Signature{})
			}
		}
		b.ver = st.AsVersioned()
	}
	if sp.BadSig {
		if sp.Kind == "claim" {
			b.ver.Extra[3] ^= 0x40
			// Extra is part of the payload: rebuild so the hash matches the bytes
			st := b.ver.SignedTransaction
			b.ver = (&st).AsVersioned()
		} else {
			for _, m := range b.ver.SignaturesMap {
				for _, s := range m {
					s[5] ^= 0x40
				}
			}
		}
	}
	return b
}

// ltx prints the model's view of a built transaction.
func (h *hist) ltx(b *builtTx) string {
	ver := b.ver
	var in string
	switch {
	case ver.Inputs[0].Deposit != nil:
		d := ver.Inputs[0].Deposit
		key := d.UniqueKey()
		in = vh.App("LDeposit", h.id(key[:]), h.id(infoDigest(d.Asset()).Bytes()), vh.Z(unitsOf(d.Amount)))
	case ver.Inputs[0].Mint != nil:
		m := ver.Inputs[0].Mint
		in = vh.App("LMint", vh.ZU(m.Batch), vh.Z(unitsOf(m.Amount)))
	default:
		var ins []string
		for _, i := range ver.Inputs {
			ins = append(ins, fmt.Sprintf("(%s, %s)", h.id(i.Hash[:]), vh.NU(uint64(i.Index))))
		}
		in = vh.App("LUtxos", vh.List(ins, "(N * N)"))
	}
	var outs []string
	for _, o := range ver.Outputs {
		var keys []string
		for _, k := range o.Keys {
			keys = append(keys, h.id(k[:]))
		}
		outs = append(outs, fmt.Sprintf("{| o_type := %s; o_amt := %s; o_keys := %s |}",
			vh.ZI(int64(o.Type)), vh.Z(unitsOf(o.Amount)), vh.List(keys, "N")))
	}
	var refs []string
	for _, r := range ver.References {
		refs = append(refs, h.id(r[:]))
	}
	return fmt.Sprintf("{| l_hash := %s; l_asset := %s; l_in := %s; l_outs := %s; l_refs := %s; l_sig := %s |}",
		h.id(phash(ver)), hashN(ver.Asset), in, vh.List(outs, "lout"), vh.List(refs, "N"), vh.Bool(b.sig))
}

func resUnit(pan bool, err error) string {
	if pan {
		return vh.Pan("unit")
	}
	if err != nil {
		return vh.Err("unit")
	}
	return vh.Ok("tt")
}

// findingRegion: the structural predicate of the recorded finding.  True when
// for some asset the deposits and mints of that asset among the members that
// are not finalized yet, added to the recorded total, exceed the capacity.
func (h *hist) findingRegion(members []*common.VersionedTransaction) (bool, string) {
	sums := map[crypto.Hash]*big.Int{}
	seen := map[crypto.Hash]bool{}
	for _, ver := range members {
		if seen[ver.PayloadHash()] {
			continue
		}
		seen[ver.PayloadHash()] = true
		_, snap, _ := h.f.store.ReadTransaction(ver.PayloadHash())
		if snap != "" {
			continue
		}
		var amt common.Integer
		switch {
		case ver.Inputs[0].Deposit != nil:
			amt = ver.Inputs[0].Deposit.Amount
		case ver.Inputs[0].Mint != nil:
			amt = ver.Inputs[0].Mint.Amount
		default:
			continue
		}
		if sums[ver.Asset] == nil {
			sums[ver.Asset] = new(big.Int)
		}
		sums[ver.Asset].Add(sums[ver.Asset], unitsOf(amt))
	}
	for id, s := range sums {
		_, bal, err := h.f.store.ReadAssetWithBalance(id)
		if err != nil {
			panic(err)
		}
		total := new(big.Int).Add(unitsOf(bal), s)
		if total.Cmp(unitsOf(common.GetAssetCapacity(id))) > 0 {
			return true, fmt.Sprintf("asset %s recorded %s + batch %s > capacity %s", id, bal, common.VerifIntegerFromBig(s), common.GetAssetCapacity(id))
		}
	}
	return false, ""
}

// infoRegion: the first member deposit, not finalized yet, whose asset info
// differs from the recorded info of its asset id or from that of an earlier
// such member deposit of the same still unrecorded asset id.  It lies in the
// region of the second recorded finding only if its asset id was UNRECORDED
// when it was validated (validation then has nothing to compare with); if the
// asset id was recorded, validation compares the info and must refuse it: a
// write failure there is a different defect.
func (h *hist) infoRegion(members []*common.VersionedTransaction) (conflict, known bool, why string) {
	first := map[crypto.Hash]*common.Asset{}
	for _, ver := range members {
		d := ver.Inputs[0].Deposit
		if d == nil {
			continue
		}
		_, snap, _ := h.f.store.ReadTransaction(ver.PayloadHash())
		if snap != "" {
			continue
		}
		old, _, err := h.f.store.ReadAssetWithBalance(ver.Asset)
		if err != nil {
			panic(err)
		}
		if old == nil {
			old = first[ver.Asset]
		}
		a := d.Asset()
		if old == nil {
			first[ver.Asset] = a
			continue
		}
		if old.Chain != a.Chain || old.AssetKey != a.AssetKey {
			return true, !h.recAt[ver.PayloadHash()], fmt.Sprintf("asset %s: deposit %s carries info (%s,%s), expected (%s,%s); asset recorded when the deposit was validated: %v",
				ver.Asset, ver.PayloadHash(), a.Chain, a.AssetKey, old.Chain, old.AssetKey, h.recAt[ver.PayloadHash()])
		}
	}
	return false, false, ""
}

// exec runs one step on the real node and store and records the observation.
func (h *hist) exec(sp StepSpec, cs func() Case) {
	f := h.f
	step := len(h.specs)
	h.specs = append(h.specs, sp)
	var row []*builtTx
	h.built = append(h.built, nil)
	var hashes []crypto.Hash
	var members []*common.VersionedTransaction
	var fresh []string
	for _, ts := range sp.Txs {
		var b *builtTx
		if ts.Kind == "reuse" {
			b = h.lookup(*ts.Reuse)
			if b == nil {
				panic("bad reuse ref")
			}
		} else {
			b = h.build(ts)
			if h.recAt == nil {
				h.recAt = map[crypto.Hash]bool{}
			}
			if info, _, err := f.store.ReadAssetWithBalance(b.ver.Asset); err == nil {
				h.recAt[b.ver.PayloadHash()] = info != nil
			}
			if !sp.Direct {
				if err := f.store.CacheStoreTransaction(b.ver); err != nil {
					panic(err)
				}
			}
			fresh = append(fresh, fmt.Sprintf("(%s, %s)", h.id(phash(b.ver)), h.ltx(b)))
		}
		row = append(row, b)
		h.built[step] = row
		dup := false
		for _, x := range hashes {
			dup = dup || x == b.ver.PayloadHash()
		}
		if dup { // a snapshot cannot name a transaction twice (the encoder refuses it)
			continue
		}
		hashes = append(hashes, b.ver.PayloadHash())
		members = append(members, b.ver)
	}
	topo := f.snapshot(hashes)
	snapTerm := fmt.Sprintf("{| ls_hash := %s; ls_txs := %s |}", h.id(topo.Hash[:]), vh.List(mapS(hashes, func(x crypto.Hash) string { return h.id(x[:]) }), "N"))

	valid := false
	if sp.Direct {
		ver := members[0]
		err := ver.Validate(f.store, topo.Timestamp, false)
		if err == nil {
			err = ver.LockInputs(f.store, false)
		}
		if err == nil {
			err = f.store.WriteTransaction(ver)
		}
		valid = err == nil
	} else {
		var missing []crypto.Hash
		var err error
		pan, pv := vh.Catch(func() {
			_, missing, err = f.node.VerifC16ValidateSnapshotTransaction(topo.Snapshot, false)
		})
		if pan {
			h.c.Fail("validation-panicked", fmt.Sprintf("validateSnapshotTransaction panicked: %v", pv), cs())
			h.dead = true
			return
		}
		valid = err == nil && len(missing) == 0
	}
	obsWrite := vh.None("(res unit)")
	if valid {
		h.reached = true
		region, why := h.findingRegion(members)
		iconflict, iregion, iwhy := h.infoRegion(members)
		var werr error
		pan, pv := vh.Catch(func() { werr = f.store.WriteSnapshot(topo, []crypto.Hash{f.self}) })
		obsWrite = vh.Some(resUnit(pan, werr))
		if pan || werr != nil {
			h.dead = true
			what := fmt.Sprintf("step %d: every member validated, WriteSnapshot failed (panic=%v value=%v err=%v)", step, pan, pv, werr)
			if pan && region {
				h.c.Fail("batch-deposits-sum-over-capacity", what+"; "+why, cs())
			} else if !pan && iconflict && iregion {
				h.c.Fail("batch-deposits-conflicting-asset-info", what+"; "+iwhy, cs())
			} else if !pan && iconflict {
				h.c.Fail("recorded-asset-info-mismatch-passed-validation", what+"; "+iwhy, cs())
			} else {
				h.c.Fail("validated-batch-write-failed", what, cs())
			}
		} else {
			f.topo++
			h.afterWrite(step, row)
		}
	} else {
		h.afterReject(step, row)
	}
	kind := "SBatch"
	body := vh.List(fresh, "(N * ltx)")
	if sp.Direct {
		kind = "SDirect"
		body = h.ltx(row[0])
	}
	h.terms = append(h.terms, vh.App(kind, snapTerm, body, vh.Bool(valid), obsWrite))
}

func mapS[T any](xs []T, f func(T) string) []string {
	out := make([]string, len(xs))
	for i, x := range xs {
		out[i] = f(x)
	}
	return out
}

func (h *hist) afterWrite(step int, row []*builtTx) {
	for ti, b := range row {
		if b.spec.Kind == "reuse" {
			// now finalized: no longer stale
			continue
		}
		for _, in := range b.spec.In {
			for i := range h.avail {
				if h.avail[i].ref == in {
					h.avail = append(h.avail[:i], h.avail[i+1:]...)
					break
				}
			}
		}
		for oi, o := range b.spec.Outs {
			if o.Type == "script" {
				h.avail = append(h.avail, avail{Ref{step, ti, oi}, b.spec.Asset, common.NewIntegerFromString(o.Amount), o.To})
			}
		}
		if b.spec.Kind == "withdraw" {
			h.submits = append(h.submits, Ref{Step: step, Tx: ti})
		}
		h.finals = append(h.finals, Ref{Step: step, Tx: ti})
	}
	var keep []Ref
	for _, r := range h.stale {
		_, snap, _ := h.f.store.ReadTransaction(h.lookup(r).ver.PayloadHash())
		if snap == "" {
			keep = append(keep, r)
		}
	}
	h.stale = keep
}

func (h *hist) afterReject(step int, row []*builtTx) {
	for ti, b := range row {
		if b.spec.Kind == "reuse" {
			continue
		}
		tx, snap, _ := h.f.store.ReadTransaction(b.ver.PayloadHash())
		if tx != nil && snap == "" {
			h.stale = append(h.stale, Ref{Step: step, Tx: ti})
		}
	}
}

// finish emits the history as one model case.
func (h *hist) finish(cs Case) {
	var totals []string
	for _, a := range h.as {
		info, bal, err := h.f.store.ReadAssetWithBalance(a.id)
		if err != nil {
			panic(err)
		}
		if info != nil {
			totals = append(totals, fmt.Sprintf("(%s, %s)", hashN(a.id), vh.Z(unitsOf(bal))))
		}
	}
	term := vh.App("CHist", h.id(infoDigest(common.XINAsset).Bytes()), vh.Z(h.genesisSupply()),
		vh.List(h.terms, "stepc"), vh.List(totals, "(N * Z)"))
	kinds := map[string]bool{}
	for _, s := range cs.Steps {
		for _, t := range s.Txs {
			kinds[t.Kind] = true
		}
	}
	kind := "history"
	if strings.HasPrefix(cs.Name, "corpus") {
		kind = "corpus"
	}
	js, _ := json.Marshal(cs.Steps)
	key := sha256.Sum256(js)
	h.c.Case(kind, hex.EncodeToString(key[:8]), h.reached, cs, term)
	for _, s := range cs.Steps {
		h.c.Count(fmt.Sprintf("steps/batch-size-%d", len(s.Txs)))
		for _, t := range s.Txs {
			h.c.Count("tx/" + t.Kind)
		}
	}
}

var genesisSupplyUnits *big.Int

func (h *hist) genesisSupply() *big.Int { return genesisSupplyUnits }

func newHist(c *vh.Ctx) *hist {
	f := newFixture()
	h := &hist{c: c, f: f, as: assets(), batch: 1}
	if genesisSupplyUnits == nil {
		_, bal, err := f.store.ReadAssetWithBalance(common.XINAssetId)
		if err != nil {
			panic(err)
		}
		genesisSupplyUnits = unitsOf(bal)
	}
	return h
}

// run replays a recorded case.
func run(c *vh.Ctx, cs Case) {
	h := newHist(c)
	defer h.f.close()
	for i := range cs.Steps {
		if h.dead {
			break
		}
		upto := i
		h.exec(cs.Steps[i], func() Case { return Case{Name: cs.Name, Steps: cs.Steps[:upto+1]} })
	}
	h.finish(Case{Name: cs.Name, Steps: h.specs})
}

func main() {
	c := vh.Start("C16")
	c.Rep.Rule = "one case = one ledger history on a fresh real node+store (3-8 snapshot batches of 1-4 deposits/transfers/withdrawals/claims, direct mint steps, re-included stale transactions; deposit amounts drawn around the remaining capacity; output shape sweep: every transaction kind with every output type code at every output position); non-trivial = at least one batch passed validateSnapshotTransaction and reached WriteSnapshot; distinct = digest of the step specs"
	if c.Replay != "" {
		var cs Case
		c.ReplayCase(&cs)
		run(c, cs)
		c.Finish()
		return
	}
	for _, cs := range corpus() {
		run(c, cs)
	}
	for _, cs := range shapeCorpus() {
		run(c, cs)
	}
	shapeGenerate(c)
	n := c.Scale(30, 900)
	for i := 0; i < n; i++ {
		generate(c, i)
	}
	c.Finish()
}
