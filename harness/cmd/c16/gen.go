package main

import (
	"fmt"
	"math/big"

	"github.com/MixinNetwork/mixin/common"
	"verifharness/vh"
)

func dep(asset int, amount, id string, to int, seed string) TxSpec {
	return TxSpec{Kind: "deposit", Asset: asset, Amount: amount, DepTx: id, DepIdx: 0,
		Outs: []OutSpec{{Type: "script", Amount: amount, To: to, Seed: seed}}}
}

// corpus: boundary cases; the first reproduces the recorded finding (F5).
func corpus() []Case {
	return []Case{
		{Name: "corpus-f5-two-deposits-jointly-over-capacity", Steps: []StepSpec{
			{Txs: []TxSpec{dep(0, "330000", "f5-a", 0, "f5-a"), dep(0, "330000", "f5-b", 1, "f5-b")}},
		}},
		{Name: "corpus-two-deposits-of-a-new-asset-with-conflicting-info", Steps: []StepSpec{
			{Txs: []TxSpec{dep(1, "1", "ci-a", 0, "ci-a"),
				{Kind: "deposit", Asset: 1, Amount: "2", DepTx: "ci-b", Info: 1, Outs: []OutSpec{{Type: "script", Amount: "2", To: 1, Seed: "ci-b"}}}}},
		}},
		{Name: "corpus-first-deposit-of-unrecorded-asset-over-capacity", Steps: []StepSpec{
			{Txs: []TxSpec{dep(1, "2500.00000001", "fo-a", 0, "fo-a")}},
		}},
		{Name: "corpus-two-deposits-exactly-at-capacity", Steps: []StepSpec{
			// 94773 + 327613 + 327614 = 750000: each validates (< capacity), write succeeds (== capacity)
			{Txs: []TxSpec{dep(0, "327613", "eq-a", 0, "eq-a"), dep(0, "327614", "eq-b", 1, "eq-b")}},
		}},
		{Name: "corpus-single-deposit-over-capacity-rejected", Steps: []StepSpec{
			{Txs: []TxSpec{dep(0, "655227", "one-a", 0, "one-a")}},
			{Txs: []TxSpec{dep(0, "655226.99999999", "one-b", 0, "one-b")}},
		}},
		{Name: "corpus-deposit-transfer-withdraw-claim", Steps: []StepSpec{
			{Txs: []TxSpec{dep(0, "1000", "flow-a", 0, "flow-a"), dep(1, "10", "flow-b", 1, "flow-b")}},
			{Txs: []TxSpec{
				{Kind: "transfer", Asset: 0, In: []Ref{{0, 0, 0}}, Outs: []OutSpec{
					{Type: "script", Amount: "400", To: 1, Seed: "flow-c"}, {Type: "script", Amount: "600", To: 2, Seed: "flow-d"}}},
				{Kind: "withdraw", Asset: 1, In: []Ref{{0, 1, 0}}, Outs: []OutSpec{
					{Type: "submit", Amount: "4"}, {Type: "script", Amount: "6", To: 1, Seed: "flow-e"}}},
			}},
			{Txs: []TxSpec{
				{Kind: "claim", Asset: 0, In: []Ref{{1, 0, 0}}, Claim: &Ref{Step: 1, Tx: 1}, Outs: []OutSpec{
					{Type: "claim", Amount: "0.0001"}, {Type: "script", Amount: "399.9999", To: 1, Seed: "flow-f"}}},
				{Kind: "transfer", Asset: 0, In: []Ref{{1, 0, 1}}, Outs: []OutSpec{{Type: "script", Amount: "600", To: 3, Seed: "flow-g"}}},
			}},
		}},
		{Name: "corpus-double-spend-in-batch-rejected-then-stale-member-reused", Steps: []StepSpec{
			{Txs: []TxSpec{dep(0, "500", "ds-a", 0, "ds-a")}},
			{Txs: []TxSpec{
				{Kind: "transfer", Asset: 0, In: []Ref{{0, 0, 0}}, Outs: []OutSpec{{Type: "script", Amount: "500", To: 1, Seed: "ds-b"}}},
				{Kind: "transfer", Asset: 0, In: []Ref{{0, 0, 0}}, Outs: []OutSpec{{Type: "script", Amount: "500", To: 2, Seed: "ds-c"}}},
			}},
			{Txs: []TxSpec{{Kind: "reuse", Reuse: &Ref{Step: 1, Tx: 0}}}},
		}},
		{Name: "corpus-stale-deposit-validated-before-total-grew", Steps: []StepSpec{
			// d1 persisted by a rejected batch (its companion has a bad signature), then the
			// total grows, then d1 is included again: it is not validated a second time
			{Txs: []TxSpec{dep(0, "400000", "st-a", 0, "st-a"),
				{Kind: "deposit", Asset: 0, Amount: "1", DepTx: "st-x", Outs: []OutSpec{{Type: "script", Amount: "1", To: 0, Seed: "st-x"}}, BadSig: true}}},
			{Txs: []TxSpec{dep(0, "300000", "st-b", 1, "st-b")}},
			{Txs: []TxSpec{{Kind: "reuse", Reuse: &Ref{Step: 0, Tx: 0}}}},
		}},
		{Name: "corpus-ghost-key-of-a-finalized-output-reused", Steps: []StepSpec{
			{Txs: []TxSpec{dep(0, "10", "gk-a", 0, "gk-a")}},
			{Txs: []TxSpec{dep(0, "20", "gk-b", 0, "gk-a"), dep(0, "5", "gk-c", 1, "gk-c")}}, // same seed, same receiver: same one-time key
			{Txs: []TxSpec{{Kind: "reuse", Reuse: &Ref{Step: 1, Tx: 1}}}},
		}},
		{Name: "corpus-references-to-pending-unknown-and-finalized-transactions", Steps: []StepSpec{
			{Txs: []TxSpec{dep(0, "1000", "rf-a", 0, "rf-a"), dep(0, "500", "rf-b", 1, "rf-b"), dep(0, "300", "rf-c", 2, "rf-c")}},
			// snapshot A: the submit is validated, locked and stored, the snapshot is refused (second member)
			{Txs: []TxSpec{
				{Kind: "withdraw", Asset: 0, In: []Ref{{0, 0, 0}}, Outs: []OutSpec{{Type: "submit", Amount: "400"}, {Type: "script", Amount: "600", To: 0, Seed: "rf-d"}}},
				{Kind: "deposit", Asset: 0, Amount: "1", DepTx: "rf-x", Outs: []OutSpec{{Type: "script", Amount: "1", To: 0, Seed: "rf-x"}}, BadSig: true}}},
			// snapshot B: a claim of the pending submit must be refused
			{Txs: []TxSpec{{Kind: "claim", Asset: 0, In: []Ref{{0, 1, 0}}, Claim: &Ref{Step: 1, Tx: 0}, Outs: []OutSpec{
				{Type: "claim", Amount: "0.0001"}, {Type: "script", Amount: "499.9999", To: 1, Seed: "rf-e"}}}}},
			// transfers referencing a pending, an unknown and a finalized transaction
			{Txs: []TxSpec{{Kind: "transfer", Asset: 0, In: []Ref{{0, 2, 0}}, Refs: []Ref{{Step: 1, Tx: 0}}, Outs: []OutSpec{{Type: "script", Amount: "300", To: 2, Seed: "rf-f"}}}}},
			{Txs: []TxSpec{{Kind: "transfer", Asset: 0, In: []Ref{{0, 2, 0}}, Refs: []Ref{{Step: -1, Tx: 1}}, Outs: []OutSpec{{Type: "script", Amount: "300", To: 2, Seed: "rf-g"}}}}},
			{Txs: []TxSpec{{Kind: "transfer", Asset: 0, In: []Ref{{0, 2, 0}}, Refs: []Ref{{Step: 0, Tx: 0}}, Outs: []OutSpec{{Type: "script", Amount: "300", To: 2, Seed: "rf-h"}}}}},
			// a submit and its claim in one batch: the claim is refused (the submit is not finalized yet)
			{Txs: []TxSpec{
				{Kind: "withdraw", Asset: 0, In: []Ref{{5, 0, 0}}, Outs: []OutSpec{{Type: "submit", Amount: "100"}, {Type: "script", Amount: "200", To: 2, Seed: "rf-i"}}},
				{Kind: "claim", Asset: 0, In: []Ref{{0, 1, 0}}, Claim: &Ref{Step: 6, Tx: 0}, Outs: []OutSpec{
					{Type: "claim", Amount: "0.0001"}, {Type: "script", Amount: "499.9999", To: 1, Seed: "rf-j"}}}}},
			// snapshot A's submit finalized at last, then its claim is accepted and written
			{Txs: []TxSpec{{Kind: "reuse", Reuse: &Ref{Step: 1, Tx: 0}}}},
			{Txs: []TxSpec{{Kind: "claim", Asset: 0, In: []Ref{{0, 1, 0}}, Claim: &Ref{Step: 1, Tx: 0}, Outs: []OutSpec{
				{Type: "claim", Amount: "0.0001"}, {Type: "script", Amount: "499.9999", To: 1, Seed: "rf-k"}}}}},
		}},
		{Name: "corpus-recorded-asset-key-in-another-letter-case-chain-or-length", Steps: []StepSpec{
			// first deposit records the checksummed (mixed case) ERC20 key; later deposits of the same
			// asset id carry it lower case, upper case, one letter flipped, on another chain, one byte longer:
			// validation must refuse each (finalization compares byte for byte)
			{Txs: []TxSpec{dep(4, "10", "ck-a", 0, "ck-a")}},
			{Txs: []TxSpec{{Kind: "deposit", Asset: 4, Amount: "1", DepTx: "ck-b", Info: 2, Outs: []OutSpec{{Type: "script", Amount: "1", To: 0, Seed: "ck-b"}}}}},
			{Txs: []TxSpec{{Kind: "deposit", Asset: 4, Amount: "1", DepTx: "ck-c", Info: 3, Outs: []OutSpec{{Type: "script", Amount: "1", To: 0, Seed: "ck-c"}}}}},
			{Txs: []TxSpec{{Kind: "deposit", Asset: 4, Amount: "1", DepTx: "ck-d", Info: 4, Outs: []OutSpec{{Type: "script", Amount: "1", To: 0, Seed: "ck-d"}}}}},
			{Txs: []TxSpec{{Kind: "deposit", Asset: 4, Amount: "1", DepTx: "ck-e", Info: 5, Outs: []OutSpec{{Type: "script", Amount: "1", To: 0, Seed: "ck-e"}}}}},
			{Txs: []TxSpec{{Kind: "deposit", Asset: 4, Amount: "1", DepTx: "ck-f", Info: 6, Outs: []OutSpec{{Type: "script", Amount: "1", To: 0, Seed: "ck-f"}}}}},
			{Txs: []TxSpec{dep(4, "2", "ck-g", 1, "ck-g"), dep(0, "3", "ck-h", 1, "ck-h")}},
		}},
		{Name: "corpus-mint-then-deposits", Steps: []StepSpec{
			{Direct: true, Txs: []TxSpec{{Kind: "mint", Asset: 0, Amount: "5000", Batch: 1, Outs: []OutSpec{{Type: "script", Amount: "5000", To: 0, Seed: "mint-a"}}}}},
			{Txs: []TxSpec{dep(0, "100", "mt-a", 0, "mt-a"), dep(2, "59999", "mt-b", 1, "mt-b")}},
			{Txs: []TxSpec{{Kind: "transfer", Asset: 0, In: []Ref{{0, 0, 0}}, Outs: []OutSpec{{Type: "script", Amount: "5000", To: 1, Seed: "mint-b"}}}}},
		}},
	}
}

func decimal(units *big.Int) string { return common.VerifIntegerFromBig(units).String() }

func (h *hist) remaining(asset int) *big.Int {
	id := h.as[asset].id
	_, bal, err := h.f.store.ReadAssetWithBalance(id)
	if err != nil {
		panic(err)
	}
	r := new(big.Int).Sub(unitsOf(common.GetAssetCapacity(id)), unitsOf(bal))
	return r
}

func (h *hist) seed() string {
	h.nseed++
	return fmt.Sprintf("g%d", h.nseed)
}

func (h *hist) genDeposit(r *vh.Rand) TxSpec {
	asset := []int{0, 0, 0, 0, 1, 1, 2, 3, 4, 4}[r.Intn(10)]
	rem := h.remaining(asset)
	if asset >= 3 {
		rem = new(big.Int).Mul(big.NewInt(1000000), big.NewInt(100000000))
	}
	var units *big.Int
	switch r.Intn(10) {
	case 0, 1, 2, 3:
		pct := int64([]int{30, 45, 55, 70, 95}[r.Intn(5)])
		units = new(big.Int).Div(new(big.Int).Mul(rem, big.NewInt(pct)), big.NewInt(100))
	case 4:
		units = new(big.Int).Sub(rem, big.NewInt(int64(r.Intn(3)))) // rem, rem-1, rem-2 units
	case 5:
		units = new(big.Int).Add(rem, big.NewInt(int64(1+r.Intn(2))))
	default:
		units = new(big.Int).Add(big.NewInt(int64(1+r.Intn(1000000))), new(big.Int).Mul(big.NewInt(int64(r.Intn(2000))), big.NewInt(100000000)))
	}
	if units.Sign() <= 0 {
		units = big.NewInt(int64(1 + r.Intn(1000)))
	}
	amt := decimal(units)
	sp := TxSpec{Kind: "deposit", Asset: asset, Amount: amt, DepTx: "dep-" + h.seed(), DepIdx: uint64(r.Intn(3)),
		Outs: []OutSpec{{Type: "script", Amount: amt, To: r.Intn(4), Seed: h.seed()}}}
	if r.Chance(1, 10) { // another key, another letter case, another chain, a trailing byte
		sp.Info = 1 + r.Intn(6)
	}
	if r.Chance(1, 25) {
		sp.BadSig = true
	}
	if r.Chance(1, 25) && len(h.deps) > 0 { // same deposit identity as an earlier one
		o := h.deps[r.Intn(len(h.deps))]
		sp.DepTx, sp.DepIdx, sp.Asset, sp.Info = o.DepTx, o.DepIdx, o.Asset, o.Info
	}
	if r.Chance(1, 25) && len(h.seeds) > 0 { // ghost key of an earlier output
		o := h.seeds[r.Intn(len(h.seeds))]
		sp.Outs[0].Seed, sp.Outs[0].To = o.Seed, o.To
	}
	h.deps = append(h.deps, sp)
	h.seeds = append(h.seeds, sp.Outs[0])
	return sp
}

func (h *hist) pick(r *vh.Rand, used map[Ref]bool, asset int) *avail {
	var c []int
	for i, a := range h.avail {
		if !used[a.ref] && (asset < 0 || a.asset == asset) {
			c = append(c, i)
		}
	}
	if len(c) == 0 {
		return nil
	}
	return &h.avail[c[r.Intn(len(c))]]
}

func splitOuts(h *hist, r *vh.Rand, total *big.Int, n int) []OutSpec {
	var outs []OutSpec
	left := new(big.Int).Set(total)
	for i := 0; i < n; i++ {
		var part *big.Int
		if i == n-1 {
			part = left
		} else {
			part = new(big.Int).Div(left, big.NewInt(int64(2+r.Intn(3))))
			if part.Sign() <= 0 {
				continue
			}
			left = new(big.Int).Sub(left, part)
		}
		outs = append(outs, OutSpec{Type: "script", Amount: decimal(part), To: r.Intn(4), Seed: h.seed()})
	}
	return outs
}

func (h *hist) genSpend(r *vh.Rand, used map[Ref]bool) *TxSpec {
	want := -1
	kind := []string{"transfer", "transfer", "transfer", "withdraw", "withdraw", "claim"}[r.Intn(6)]
	if kind == "claim" {
		if len(h.submits) == 0 && len(h.pendingSubmits()) == 0 {
			kind = "transfer"
		} else {
			want = 0
		}
	}
	a := h.pick(r, used, want)
	if a == nil {
		return nil
	}
	if !r.Chance(1, 12) { // sometimes leave it unmarked: a second member may spend it too
		used[a.ref] = true
	}
	total := unitsOf(a.amount)
	sp := &TxSpec{Kind: kind, Asset: a.asset, In: []Ref{a.ref}}
	if b := h.pick(r, used, a.asset); b != nil && b.owner == a.owner && r.Chance(1, 4) {
		used[b.ref] = true
		sp.In = append(sp.In, b.ref)
		total = new(big.Int).Add(total, unitsOf(b.amount))
	}
	switch kind {
	case "transfer":
		sp.Outs = splitOuts(h, r, total, 1+r.Intn(3))
	case "withdraw":
		w := new(big.Int).Div(total, big.NewInt(int64(1+r.Intn(3))))
		if w.Sign() <= 0 {
			w = new(big.Int).Set(total)
		}
		sp.Outs = []OutSpec{{Type: "submit", Amount: decimal(w)}}
		if rest := new(big.Int).Sub(total, w); rest.Sign() > 0 {
			sp.Outs = append(sp.Outs, splitOuts(h, r, rest, 1)...)
		}
	case "claim":
		fee := big.NewInt(10000)
		if total.Cmp(fee) <= 0 {
			sp.Kind = "transfer"
			sp.Outs = splitOuts(h, r, total, 1)
			break
		}
		var s Ref
		if len(h.submits) > 0 {
			s = h.submits[r.Intn(len(h.submits))]
		}
		if ps := h.pendingSubmits(); len(ps) > 0 && (len(h.submits) == 0 || r.Chance(1, 2)) {
			s = ps[r.Intn(len(ps))] // stored by a refused snapshot, not finalized
		}
		sp.Claim = &s
		sp.Outs = []OutSpec{{Type: "claim", Amount: decimal(fee)}}
		sp.Outs = append(sp.Outs, splitOuts(h, r, new(big.Int).Sub(total, fee), 1)...)
	}
	if sp.Kind != "claim" && r.Chance(1, 5) { // references: finalized, pending or unknown transactions
		for n := 1 + r.Intn(2); n > 0; n-- {
			switch x := r.Intn(6); {
			case x < 3 && len(h.finals) > 0:
				sp.Refs = append(sp.Refs, h.finals[r.Intn(len(h.finals))])
			case x < 5 && len(h.stale) > 0:
				sp.Refs = append(sp.Refs, h.stale[r.Intn(len(h.stale))])
			default:
				sp.Refs = append(sp.Refs, Ref{Step: -1, Tx: r.Intn(1000)})
			}
		}
	}
	if r.Chance(1, 20) { // outputs do not add up to the inputs
		last := &sp.Outs[len(sp.Outs)-1]
		u := unitsOf(common.NewIntegerFromString(last.Amount))
		last.Amount = decimal(new(big.Int).Add(u, big.NewInt(1)))
	}
	if r.Chance(1, 25) {
		sp.BadSig = true
	}
	if r.Chance(1, 25) && len(h.seeds) > 0 {
		o := h.seeds[r.Intn(len(h.seeds))]
		for i := range sp.Outs {
			if sp.Outs[i].Type == "script" {
				sp.Outs[i].Seed, sp.Outs[i].To = o.Seed, o.To
				break
			}
		}
	}
	for _, o := range sp.Outs {
		if o.Type == "script" {
			h.seeds = append(h.seeds, o)
		}
	}
	return sp
}

func (h *hist) genStep(r *vh.Rand) StepSpec {
	if r.Chance(1, 9) {
		var units *big.Int
		rem := h.remaining(0)
		_ = rem // mint amounts stay in the range of the kernel's daily schedule
		units = new(big.Int).Mul(big.NewInt(int64(1+r.Intn(5000))), big.NewInt(100000000))
		if units.Sign() <= 0 {
			units = big.NewInt(100000000)
		}
		b := h.batch
		if r.Chance(1, 6) && b > 1 {
			b-- // a batch that already has a distribution
		} else {
			h.batch++
		}
		return StepSpec{Direct: true, Txs: []TxSpec{{Kind: "mint", Asset: 0, Amount: decimal(units), Batch: b,
			Outs: []OutSpec{{Type: "script", Amount: decimal(units), To: r.Intn(4), Seed: h.seed()}}}}}
	}
	n := []int{1, 1, 2, 2, 2, 3, 3, 4}[r.Intn(8)]
	var sp StepSpec
	used := map[Ref]bool{}
	for i := 0; i < n; i++ {
		x := r.Intn(100)
		switch {
		case x < 10 && len(h.stale) > 0:
			s := h.stale[r.Intn(len(h.stale))]
			sp.Txs = append(sp.Txs, TxSpec{Kind: "reuse", Reuse: &s})
		case x < 55 || len(h.avail) == 0:
			sp.Txs = append(sp.Txs, h.genDeposit(r))
		default:
			if t := h.genSpend(r, used); t != nil {
				sp.Txs = append(sp.Txs, *t)
			} else {
				sp.Txs = append(sp.Txs, h.genDeposit(r))
			}
		}
	}
	if len(sp.Txs) > 0 && sp.Txs[0].Kind == "withdraw" && r.Chance(1, 3) {
		d := h.genDeposit(r)
		d.BadSig = true
		sp.Txs = append(sp.Txs, d)
	}
	return sp
}

// pendingSubmits: withdrawal submits stored by a refused snapshot, not finalized.
func (h *hist) pendingSubmits() []Ref {
	var out []Ref
	for _, s := range h.stale {
		if b := h.lookup(s); b != nil && b.spec.Kind == "withdraw" {
			out = append(out, s)
		}
	}
	return out
}

// generate builds one random history while executing it: the next step is
// drawn knowing which outputs exist; the recorded specs replay it exactly.
func generate(c *vh.Ctx, i int) {
	r := c.Rng.Fork(fmt.Sprintf("hist-%d", i))
	h := newHist(c)
	defer h.f.close()
	name := fmt.Sprintf("history-%d", i)
	steps := 3 + r.Intn(6)
	for s := 0; s < steps && !h.dead; s++ {
		sp := h.genStep(r)
		h.exec(sp, func() Case { return Case{Name: name, Steps: append([]StepSpec{}, h.specs...)} })
	}
	h.finish(Case{Name: name, Steps: h.specs})
}
