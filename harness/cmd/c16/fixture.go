package main

import (
	"encoding/json"
	"fmt"
	"os"

	"github.com/MixinNetwork/mixin/common"
	"github.com/MixinNetwork/mixin/config"
	"github.com/MixinNetwork/mixin/crypto"
	"github.com/MixinNetwork/mixin/kernel"
	"github.com/MixinNetwork/mixin/storage"
)

// A real node (kernel.SetupNode) over a real Badger store, on a private
// network whose genesis the harness owns: seven genesis nodes and a custodian
// whose keys are derived from fixed seeds, so deposits and withdrawal claims
// can be signed.  Genesis supply: 7 x 13439 + 7 x 100 = 94773 XIN.

const nodesCount = 7

func seedAddr(tag string, i int) common.Address {
	h := crypto.Blake3Hash([]byte(fmt.Sprintf("verif-c16-%s-%d", tag, i)))
	return common.NewAddressFromSeed(append(h[:], h[:]...))
}

type fixture struct {
	dir       string
	store     *storage.BadgerStore
	node      *kernel.Node
	custodian common.Address
	users     []common.Address
	self      crypto.Hash
	round     uint64
	refs      *common.RoundLink
	topo      uint64
	ts        uint64
	epoch     uint64
}

const configTmpl = `[node]
signer-key = "%s"
consensus-only = true
memory-cache-size = 16
cache-ttl = 7200
ring-cache-size = 4096
ring-final-size = 16384
[network]
listener = "mixin-node.example.com:7239"`

func newFixture() *fixture {
	base := ""
	if st, err := os.Stat("/dev/shm"); err == nil && st.IsDir() {
		base = "/dev/shm" // memory backed: the store syncs every write
	}
	dir, err := os.MkdirTemp(base, "verif-c16-")
	if err != nil {
		panic(err)
	}
	var signers []common.Address
	inputs := make([]map[string]string, 0)
	for i := 0; i < nodesCount; i++ {
		s := seedAddr("signer", i)
		// node key format: view key derived from the spend key
		s.PrivateViewKey = s.PublicSpendKey.DeterministicHashDerive()
		s.PublicViewKey = s.PrivateViewKey.Public()
		p := seedAddr("payee", i)
		p.PrivateViewKey = p.PublicSpendKey.DeterministicHashDerive()
		p.PublicViewKey = p.PrivateViewKey.Public()
		c := seedAddr("custodian-node", i)
		signers = append(signers, s)
		inputs = append(inputs, map[string]string{
			"signer":    s.String(),
			"payee":     p.String(),
			"custodian": c.String(),
			"balance":   "13439",
		})
	}
	custodian := seedAddr("custodian", 0)
	genesis := map[string]any{
		"epoch":     1551312000,
		"nodes":     inputs,
		"custodian": custodian.String(),
	}
	gd, err := json.MarshalIndent(genesis, "", "  ")
	if err != nil {
		panic(err)
	}
	if err := os.WriteFile(dir+"/genesis.json", gd, 0o644); err != nil {
		panic(err)
	}
	cfg := fmt.Sprintf(configTmpl, signers[0].PrivateSpendKey.String())
	if err := os.WriteFile(dir+"/config.toml", []byte(cfg), 0o644); err != nil {
		panic(err)
	}
	custom, err := config.Initialize(dir + "/config.toml")
	if err != nil {
		panic(err)
	}
	gns, err := common.ReadGenesis(dir + "/genesis.json")
	if err != nil {
		panic(err)
	}
	store, err := storage.NewBadgerStore(custom, dir)
	if err != nil {
		panic(err)
	}
	node, err := kernel.VerifC16SetupNode(custom, store, gns)
	if err != nil {
		panic(err)
	}
	f := &fixture{dir: dir, store: store, node: node, custodian: custodian, self: node.IdForNetwork}
	for i := 0; i < 4; i++ {
		f.users = append(f.users, seedAddr("user", i))
	}
	r, err := store.ReadRound(f.self)
	if err != nil || r == nil {
		panic(fmt.Errorf("no cache round %v", err))
	}
	f.round, f.refs = r.Number, r.References
	last, _ := store.LastSnapshot()
	f.topo = last.TopologicalOrder
	f.epoch = gns.EpochTimestamp()
	f.ts = f.epoch + 1000000000
	return f
}

func (f *fixture) close() {
	f.node.VerifC16StopLoops()
	f.store.Close()
	os.RemoveAll(f.dir)
}

// snapshot builds the next snapshot of this node's cache round over txs.
func (f *fixture) snapshot(txs []crypto.Hash) *common.SnapshotWithTopologicalOrder {
	f.ts += 1000000000
	s := &common.Snapshot{
		Version:      common.SnapshotVersionCommonEncoding,
		NodeId:       f.self,
		References:   f.refs,
		RoundNumber:  f.round,
		Timestamp:    f.ts,
		Transactions: txs,
	}
	s.Hash = s.PayloadHash()
	return &common.SnapshotWithTopologicalOrder{Snapshot: s, TopologicalOrder: f.topo + 1}
}
