package main

import (
	"fmt"

	"github.com/MixinNetwork/mixin/common"
	"verifharness/vh"
)

// Output shape sweep: correctly signed, amount-balanced transactions of every
// kind carrying, at each output position in turn, an output of every type code
// (all kernel types and unknown codes).  Finalization (UnspentOutputs,
// writeUTXO) cannot write some of them, so validation has to refuse those at
// every position: the oracle "validated => WriteSnapshot succeeds" checks it.

var allCodes = []int{common.OutputTypeScript, common.OutputTypeWithdrawalSubmit, common.OutputTypeNodePledge,
	common.OutputTypeNodeAccept, common.OutputTypeNodeRemove, common.OutputTypeWithdrawalClaim, common.OutputTypeNodeCancel,
	common.OutputTypeCustodianUpdateNodes, common.OutputTypeCustodianSlashNodes, 0x77, 0x01}

type shapeJob struct {
	Kind string // transfer | withdraw | claim | mint | deposit
	N    int    // outputs
	Pos  int    // position that carries Code
	Code int
}

func shapeJobs() []shapeJob {
	var out []shapeJob
	for _, k := range []struct {
		kind string
		ns   []int
	}{{"withdraw", []int{3, 2, 4}}, {"transfer", []int{1, 2, 3}}, {"claim", []int{2, 3}}, {"mint", []int{1, 2, 3}}, {"deposit", []int{1, 2}}} {
		for _, n := range k.ns {
			for pos := 0; pos < n; pos++ {
				for _, code := range allCodes {
					out = append(out, shapeJob{k.kind, n, pos, code})
				}
			}
		}
	}
	return out
}

// shapeOuts: the honest outputs of the kind (total 100, or 100 with a 0.0001
// claim fee), with position Pos replaced by a raw output of type Code.
func shapeOuts(j shapeJob, tag string) []OutSpec {
	var outs []OutSpec
	left := int64(100 * 100000000)
	for i := 0; i < j.N; i++ {
		amt := int64(10 * 100000000)
		if i == j.N-1 {
			amt = left
		}
		o := OutSpec{Type: "script", To: i % 4, Seed: fmt.Sprintf("%s-%d", tag, i)}
		if i == 0 && j.Kind == "withdraw" {
			o = OutSpec{Type: "submit"}
		}
		if i == 0 && j.Kind == "claim" {
			o = OutSpec{Type: "claim"}
			amt = 10000
			if j.N == 1 {
				amt = left
			}
		}
		if i == j.Pos {
			o = OutSpec{Type: "raw", Code: j.Code, To: i % 4, Seed: fmt.Sprintf("%s-%d", tag, i)}
		}
		left -= amt
		o.Amount = common.VerifIntegerFromBig(bigInt(amt)).String()
		outs = append(outs, o)
	}
	return outs
}

// shapeHistory: fund one output per job, finalize a withdrawal submit for the
// claims, then one single-member snapshot (or direct mint step) per job.
func shapeHistory(name string, jobs []shapeJob) Case {
	cs := Case{Name: name}
	var fund []TxSpec
	for i := range jobs {
		fund = append(fund, dep(0, "100", fmt.Sprintf("%s-fund-%d", name, i), 0, fmt.Sprintf("%s-fund-%d", name, i)))
	}
	fund = append(fund, dep(0, "100", name+"-fund-submit", 0, name+"-fund-submit"))
	cs.Steps = append(cs.Steps, StepSpec{Txs: fund})
	cs.Steps = append(cs.Steps, StepSpec{Txs: []TxSpec{{Kind: "withdraw", Asset: 0, In: []Ref{{0, len(jobs), 0}},
		Outs: []OutSpec{{Type: "submit", Amount: "10"}, {Type: "script", Amount: "90", To: 0, Seed: name + "-sub-change"}}}}})
	batch := uint64(1)
	for i, j := range jobs {
		tag := fmt.Sprintf("%s-j%d", name, i)
		outs := shapeOuts(j, tag)
		switch j.Kind {
		case "mint":
			cs.Steps = append(cs.Steps, StepSpec{Direct: true, Txs: []TxSpec{{Kind: "mint", Asset: 0, Amount: "100", Batch: batch, Outs: outs}}})
			batch++
		case "deposit":
			cs.Steps = append(cs.Steps, StepSpec{Txs: []TxSpec{{Kind: "deposit", Asset: 0, Amount: "100", DepTx: tag, Outs: outs}}})
		case "claim":
			cs.Steps = append(cs.Steps, StepSpec{Txs: []TxSpec{{Kind: "claim", Asset: 0, In: []Ref{{0, i, 0}}, Claim: &Ref{Step: 1, Tx: 0}, Outs: outs}}})
		default:
			cs.Steps = append(cs.Steps, StepSpec{Txs: []TxSpec{{Kind: j.Kind, Asset: 0, In: []Ref{{0, i, 0}}, Outs: outs}}})
		}
	}
	return cs
}

func shapeCorpus() []Case {
	var third, first []shapeJob
	for _, code := range allCodes {
		third = append(third, shapeJob{"withdraw", 3, 2, code})
	}
	for _, code := range []int{common.OutputTypeNodePledge, common.OutputTypeCustodianSlashNodes, 0x77} {
		first = append(first, shapeJob{"transfer", 3, 2, code}, shapeJob{"claim", 3, 2, code}, shapeJob{"mint", 2, 1, code}, shapeJob{"deposit", 2, 1, code})
	}
	return []Case{
		shapeHistory("corpus-withdrawal-submit-with-a-third-output-of-every-type", third),
		shapeHistory("corpus-odd-last-output-on-transfer-claim-mint-deposit", first),
	}
}

// shapeGenerate: quick tier samples the sweep, thorough runs all of it.
func shapeGenerate(c *vh.Ctx) {
	jobs := shapeJobs()
	r := c.Rng.Fork("shapes")
	if c.Tier != "thorough" {
		n := c.Scale(60, len(jobs))
		var pick []shapeJob
		for i := 0; i < n && i < len(jobs); i++ {
			pick = append(pick, jobs[r.Intn(len(jobs))])
		}
		jobs = pick
	}
	for i := 0; i < len(jobs); i += 10 {
		end := i + 10
		if end > len(jobs) {
			end = len(jobs)
		}
		run(c, shapeHistory(fmt.Sprintf("shapes-%d", i/10), jobs[i:end]))
	}
}
