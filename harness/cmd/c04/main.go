// C04 harness: the same real-store machinery as C03 (package c03lib) with the
// generator concentrated on output keys: admissions (validateOutputs ->
// LockGhostKeys), raw LockGhostKeys calls (foreign, zero and exception
// callers), finalizations that re-lock output keys, and concurrent batches.
// Oracle: bindings only grow and never change, repeated keys are refused,
// foreign keys are refused (except the documented three under fork, which
// succeed without rebinding), finalizing over a foreign key fails and changes
// nothing.  The in-transaction filter of validateOutputs is exercised in
// isolation with a recording locker (CVo cases).
package main

import (
	"fmt"

	"verifharness/c03lib"
	"verifharness/vh"
)

func corpus() []*c03lib.History {
	var hs []*c03lib.History
	for _, outs := range [][][]int{
		{{0, 0}}, {{0}, {0}}, {{0, 1}, {2, 0}}, {{0, 1}, {2, 3}}, {{0}}, {{}}, {{}, {1}}, {{1, 2, 3, 1}}, {{4}, {5}, {4}},
	} {
		hs = append(hs, &c03lib.History{Kind: "corpus-filter", NKeys: 10, VoOuts: outs})
	}
	txs := func() []c03lib.TxSpec {
		return []c03lib.TxSpec{
			{Kind: "genesis", Tag: "g0", Outs: [][]int{{0}, {1}}},
			{Kind: "genesis", Tag: "g1", Outs: [][]int{{1}, {2}}},          // shares key 1 with g0
			{Kind: "genesis", Tag: "g2", Outs: [][]int{{3}, {4, 3}}},       // repeats key 3
			{Kind: "script", Tag: "a", Ins: []c03lib.SlotRef{{Tx: 0, Index: 0}}, Outs: [][]int{{5}, {6}}},
			{Kind: "script", Tag: "b", Ins: []c03lib.SlotRef{{Tx: 0, Index: 1}}, Outs: [][]int{{6}, {7}}},
		}
	}
	with := func(kind string, ops ...c03lib.OpSpec) {
		hs = append(hs, &c03lib.History{Kind: kind, NKeys: 10, Txs: txs(), Ops: ops})
	}
	with("corpus-finalize",
		c03lib.OpSpec{Op: "writetx", Tx: 0}, c03lib.OpSpec{Op: "writetx", Tx: 1}, c03lib.OpSpec{Op: "writetx", Tx: 2},
		c03lib.OpSpec{Op: "finalize", Txs: []int{0}},
		c03lib.OpSpec{Op: "finalize", Txs: []int{1}}, // key 1 belongs to g0: must fail, nothing written
		c03lib.OpSpec{Op: "finalize", Txs: []int{2}}, // repeated key inside: re-lock by the same tx is fine
		c03lib.OpSpec{Op: "finalize", Txs: []int{0}},
		c03lib.OpSpec{Op: "validate", Tx: 3}, c03lib.OpSpec{Op: "validate", Tx: 4}, c03lib.OpSpec{Op: "validate", Tx: 3},
		c03lib.OpSpec{Op: "lockinputs", Tx: 4}, c03lib.OpSpec{Op: "writetx", Tx: 4},
		c03lib.OpSpec{Op: "finalize", Txs: []int{4}}) // output key 6 was admitted for a
	with("corpus-exceptions",
		c03lib.OpSpec{Op: "lockghost", Keys: []int{0, 1}, As: "tx:3"},
		c03lib.OpSpec{Op: "lockghost", Keys: []int{0}, As: "exc:0", Fork: false},
		c03lib.OpSpec{Op: "lockghost", Keys: []int{0}, As: "exc:0", Fork: true},
		c03lib.OpSpec{Op: "lockghost", Keys: []int{1, 2}, As: "exc:1", Fork: true},
		c03lib.OpSpec{Op: "lockghost", Keys: []int{1, 0}, As: "exc:2", Fork: true},
		c03lib.OpSpec{Op: "lockghost", Keys: []int{2}, As: "exc:1", Fork: false},
		c03lib.OpSpec{Op: "lockghost", Keys: []int{0}, As: "exc:3", Fork: true},
		c03lib.OpSpec{Op: "lockghost", Keys: []int{0}, As: "tx:4", Fork: true},
		c03lib.OpSpec{Op: "lockghost", Keys: []int{8}, As: "zero"},
		c03lib.OpSpec{Op: "lockghost", Keys: []int{8}, As: "zero"},
		c03lib.OpSpec{Op: "lockghost", Keys: []int{8}, As: "tx:3"},
		c03lib.OpSpec{Op: "lockghost", Keys: []int{8}, As: "exc:0", Fork: true},
		c03lib.OpSpec{Op: "lockghost", Keys: []int{9, 9}, As: "tx:3"},
		c03lib.OpSpec{Op: "lockghost", Keys: nil, As: "tx:3"})
	// key reuse: holder A only reserved / admitted and persisted / finalized,
	// then B (sharing key 6) through every path, fork and not
	reuse := func() []c03lib.TxSpec {
		return []c03lib.TxSpec{
			{Kind: "genesis", Tag: "g0", Outs: [][]int{{0}, {1}}},
			{Kind: "script", Tag: "A", Ins: []c03lib.SlotRef{{Tx: 0, Index: 0}}, Outs: [][]int{{5}, {6}}},
			{Kind: "script", Tag: "B", Ins: []c03lib.SlotRef{{Tx: 0, Index: 1}}, Outs: [][]int{{6}, {7}}},
		}
	}
	for state := 0; state < 3; state++ {
		for path := 0; path < 5; path++ {
			ops := []c03lib.OpSpec{{Op: "writetx", Tx: 0}, {Op: "finalize", Txs: []int{0}}, {Op: "validate", Tx: 1}}
			if state >= 1 {
				ops = append(ops, c03lib.OpSpec{Op: "lockinputs", Tx: 1}, c03lib.OpSpec{Op: "writetx", Tx: 1})
			}
			if state == 2 {
				ops = append(ops, c03lib.OpSpec{Op: "finalize", Txs: []int{1}})
			}
			switch path {
			case 0:
				ops = append(ops, c03lib.OpSpec{Op: "validate", Tx: 2, Fork: false})
			case 1:
				ops = append(ops, c03lib.OpSpec{Op: "validate", Tx: 2, Fork: true})
			case 2:
				ops = append(ops, c03lib.OpSpec{Op: "lockghost", Keys: []int{6}, As: "tx:2", Fork: false})
			case 3:
				ops = append(ops, c03lib.OpSpec{Op: "lockghost", Keys: []int{7, 6}, As: "tx:2", Fork: true})
			case 4:
				ops = append(ops, c03lib.OpSpec{Op: "lockinputs", Tx: 2}, c03lib.OpSpec{Op: "writetx", Tx: 2}, c03lib.OpSpec{Op: "finalize", Txs: []int{2}})
			}
			// afterwards A is still what it was
			ops = append(ops, c03lib.OpSpec{Op: "validate", Tx: 1}, c03lib.OpSpec{Op: "lockghost", Keys: []int{6}, As: "tx:2", Fork: true})
			hs = append(hs, &c03lib.History{Kind: "corpus-reuse", NKeys: 10, Txs: reuse(), Ops: ops})
		}
	}
	// prune, then reuse: A (keys 5, 6) admitted [and persisted]; C takes A's
	// slot with fork=true, which prunes A; then B (keys 6, 7) is admitted or
	// finalized.  The reservation of key 6 for A must outlive A's body.
	dpool := c03lib.DepositPool()
	for kind := 0; kind < 3; kind++ {
		for persisted := 0; persisted < 2; persisted++ {
			for path := 0; path < 3; path++ {
				ptx := []c03lib.TxSpec{
					{Kind: "genesis", Tag: "g0", Outs: [][]int{{0}, {1}, {2}}},
					{Kind: "script", Tag: "A", Ins: []c03lib.SlotRef{{Tx: 0, Index: 0}}, Outs: [][]int{{5}, {6}}},
					{Kind: "script", Tag: "B", Ins: []c03lib.SlotRef{{Tx: 0, Index: 1}}, Outs: [][]int{{6}, {7}}},
					{Kind: "script", Tag: "C", Ins: []c03lib.SlotRef{{Tx: 0, Index: 0}}, Outs: [][]int{{8}}},
				}
				switch kind {
				case 1:
					ptx[1] = c03lib.TxSpec{Kind: "deposit", Tag: "A", Dep: &dpool[4], Outs: [][]int{{5}, {6}}}
					ptx[3] = c03lib.TxSpec{Kind: "deposit", Tag: "C", Dep: &dpool[4], Outs: [][]int{{8}}}
				case 2:
					ptx[1] = c03lib.TxSpec{Kind: "mint", Tag: "A", Batch: 7, Amount: 1, Outs: [][]int{{5}, {6}}}
					ptx[3] = c03lib.TxSpec{Kind: "mint", Tag: "C", Batch: 7, Amount: 2, Outs: [][]int{{8}}}
				}
				ops := []c03lib.OpSpec{{Op: "writetx", Tx: 0}, {Op: "finalize", Txs: []int{0}},
					{Op: "validate", Tx: 1}, {Op: "lockinputs", Tx: 1}}
				if persisted == 1 {
					ops = append(ops, c03lib.OpSpec{Op: "writetx", Tx: 1})
				}
				ops = append(ops, c03lib.OpSpec{Op: "lockinputs", Tx: 3, Fork: true}, c03lib.OpSpec{Op: "writetx", Tx: 3})
				switch path {
				case 0:
					ops = append(ops, c03lib.OpSpec{Op: "validate", Tx: 2, Fork: false})
				case 1:
					ops = append(ops, c03lib.OpSpec{Op: "lockghost", Keys: []int{6}, As: "tx:2", Fork: true})
				case 2:
					ops = append(ops, c03lib.OpSpec{Op: "lockinputs", Tx: 2}, c03lib.OpSpec{Op: "writetx", Tx: 2}, c03lib.OpSpec{Op: "finalize", Txs: []int{2}})
				}
				ops = append(ops, c03lib.OpSpec{Op: "validate", Tx: 1}, c03lib.OpSpec{Op: "validate", Tx: 2, Fork: true})
				hs = append(hs, &c03lib.History{Kind: "corpus-prune-reuse", NKeys: 10, Txs: ptx, Ops: ops})
			}
		}
	}
	hs = append(hs, &c03lib.History{Kind: "corpus-conc", NKeys: 10, Txs: txs(),
		Ops: []c03lib.OpSpec{{Op: "writetx", Tx: 0}, {Op: "writetx", Tx: 1}, {Op: "writetx", Tx: 2}},
		Conc: []c03lib.OpSpec{
			{Op: "finalize", Txs: []int{0}}, {Op: "finalize", Txs: []int{1}}, {Op: "finalize", Txs: []int{2}},
			{Op: "validate", Tx: 3}, {Op: "validate", Tx: 4}, {Op: "lockghost", Keys: []int{1}, As: "tx:3"},
			{Op: "lockghost", Keys: []int{6, 1}, As: "exc:0", Fork: true}, {Op: "lockghost", Keys: []int{7}, As: "tx:4"},
			{Op: "finalize", Txs: []int{0}},
		}})
	return hs
}

func main() {
	c := vh.Start("C04")
	c.Rep.Rule = "filter cases: output key lists with and without repeats given to the real validateOutputs with a recording locker; histories as in C03 with the draw concentrated on keys (admission 12%, key locks for own/foreign/zero/exception callers 32%, finalization 18%, lock/write calls that make finalization possible 36%) over 10 output keys shared by ~14 transactions, every call on a real Badger store; reuse histories put a key holder in each of three states (reserved only / admitted and persisted / finalized) and let another transaction reuse the key through admission, raw key lock and finalization, fork and not, in half of them after the holder was pruned by a fork lock of a contender for its output / deposit / mint slot; concurrent histories add a batch of 9-14 calls from 8 goroutines. Non-trivial: at least two calls changed the store (filter: at least one key); distinct: sequence of (call kind, result class) plus final sizes."
	if c.Replay != "" {
		var h c03lib.History
		c.ReplayCase(&h)
		c03lib.RunHistory(c, &h)
		c.Finish()
		return
	}
	hs := corpus()
	rf := c.Rng.Fork("filter")
	for i := 0; i < c.Scale(40, 1500); i++ {
		var outs [][]int
		no := rf.Range(1, 4)
		for o := 0; o < no; o++ {
			var ks []int
			for k := rf.Range(0, 3); k > 0; k-- {
				ks = append(ks, rf.Intn(8))
			}
			outs = append(outs, ks)
		}
		hs = append(hs, &c03lib.History{Kind: "filter", NKeys: 10, VoOuts: outs})
	}
	rs := c.Rng.Fork("seq")
	for i := 0; i < c.Scale(100, 3500); i++ {
		hs = append(hs, c03lib.GenHistory(rs, "seq", c03lib.WeightsC04, rs.Range(12, 40), 0))
	}
	rr := c.Rng.Fork("reuse")
	for i := 0; i < c.Scale(45, 1500); i++ {
		hs = append(hs, c03lib.GenReuse(rr, "reuse", c03lib.WeightsC04, 4))
	}
	rc := c.Rng.Fork("conc")
	for i := 0; i < c.Scale(50, 2000); i++ {
		hs = append(hs, c03lib.GenHistory(rc, "conc", c03lib.WeightsC04, rc.Range(4, 16), rc.Range(9, 14)))
	}
	c03lib.RunAll(c, hs, c03lib.Workers)
	c.Note(fmt.Sprintf("goroutines per concurrent batch: %d", c03lib.Goroutines))
	c.Finish()
}
