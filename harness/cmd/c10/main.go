// C10 harness: builds kernel nodes from membership histories (real
// LoadConsensusNodes over an in-memory store), asks the real ConsensusThreshold /
// ConsensusKeys / removingOrSlashingNodeAt / verifyFinalization at boundary
// timestamps, records every observation as a Coq case for Model/Quorum.v and
// checks the implementation against the property text (the oracle): for the
// key set and threshold the code uses, two signer sets meeting the threshold
// share more than a third of the key set; below the minimum membership no
// certificate meets the threshold.
package main

import (
	"bytes"
	"fmt"
	"math/bits"
	"sort"
	"strings"

	"github.com/MixinNetwork/mixin/common"
	"github.com/MixinNetwork/mixin/config"
	"github.com/MixinNetwork/mixin/crypto"
	"github.com/MixinNetwork/mixin/kernel"
	"verifharness/vh"
)

// the recorded finding (DESIGN.md F4); implemented as a structural predicate below
const sigRound0 = "round0-accept-keys=base+1,2*base%3!=0"

type Query struct {
	Ts    uint64 `json:"ts"`
	Chain int    `json:"chain"` // pool index of the chain asked, -1: an established chain of no interest
	Est   bool   `json:"est"`   // chain has state (not pledging)
	Round uint64 `json:"round"`
}

type CertQ struct {
	Query
	SignPrefix int   `json:"sign_prefix"` // the signers' view: the first SignPrefix records of the history
	SignTs     uint64 `json:"sign_ts"`    // timestamp at which the signers read their key vector
	Pos        []int `json:"pos"`         // mask positions in the signers' key vector
	// Steps: what is done with the certificate, in order, on the one node (its
	// verification cache stays warm between steps).  Empty = one "final" step.
	Steps []Step `json:"steps,omitempty"`
}

// Step kinds: "final" verifyFinalization; "leader" the leader's check in
// cosiHandleResponse (key vector and NON-final threshold of the timestamp);
// "direct" cacheVerifyCosi over the chain's key vector with threshold Thr.
type Step struct {
	Kind string `json:"kind"`
	Thr  int    `json:"thr,omitempty"`
}

type Case struct {
	Kind    string  `json:"kind"`
	Name    string  `json:"name,omitempty"`
	Epoch   uint64  `json:"epoch,omitempty"`
	Mainnet bool    `json:"mainnet,omitempty"`
	Recs    []Rec   `json:"recs,omitempty"`
	Qs      []Query `json:"qs,omitempty"`
	Certs   []CertQ `json:"certs,omitempty"`
	Mask    uint64  `json:"mask,omitempty"`
	Thr     int     `json:"thr,omitempty"`
}

func chainFor(node *kernel.Node, nw *network, q Query) (*kernel.Chain, *kernel.CNode) {
	if q.Chain < 0 {
		return node.VerifC10ChainWithInfo(crypto.Hash{}, nil, true), nil
	}
	id := nw.ids[q.Chain]
	var info *kernel.CNode
	for _, cn := range node.NodesListWithoutState(q.Ts, false) {
		if cn.IdForNetwork == id {
			info = cn
		}
	}
	chain := node.VerifC10ChainWithInfo(id, info, q.Est)
	if chain.VerifC10IsPledging() {
		return chain, info
	}
	return chain, nil
}

func coqPledging(nw *network, recs []Rec, info *kernel.CNode) string {
	if info == nil {
		return "None"
	}
	return vh.Some(coqCNode(nw, recs, info))
}

// oracle on one (keys, threshold) observation.
// failKnown records the recorded finding at most three times per run (the
// failure list of the report is bounded; a different failure must never be
// crowded out) and counts every further hit in the distribution.
var knownHits int

func failKnown(c *vh.Ctx, what string, cs Case) {
	knownHits++
	c.Count("oracle:recorded-finding-round0")
	if knownHits <= 3 {
		c.Fail(sigRound0, what, cs)
	}
}

func oracleQuery(c *vh.Ctx, cs Case, q Query, n, n1, t int, pledging bool) {
	one := cs
	one.Qs = []Query{q}
	one.Certs = nil
	acc := acceptedCount(cs.Recs, q.Ts)
	if acc < config.KernelMinimumNodesCount {
		// below the minimum membership: no mask of at most 64 bits over n keys may meet the threshold
		if t <= 64 || t <= n {
			c.Fail("below-minimum-threshold-reachable",
				fmt.Sprintf("%d accepted nodes at %d (< minimum %d) but threshold %d can be met by a certificate over %d keys", acc, q.Ts, config.KernelMinimumNodesCount, t, n), one)
		}
		return
	}
	if t > n {
		return // no certificate exists; nothing to intersect
	}
	if t <= 0 {
		c.Fail("non-positive-threshold", fmt.Sprintf("threshold %d", t), one)
		return
	}
	// two signer sets of size t inside n keys can share as few as 2t-n keys
	minInter := 2*t - n
	if minInter < 0 {
		minInter = 0
	}
	if 3*minInter > n {
		return
	}
	what := fmt.Sprintf("keys=%d threshold=%d at ts=%d round=%d: two certificates can share only %d keys, 3*%d <= %d",
		n, t, q.Ts, q.Round, minInter, minInter, n)
	// structural predicate of the recorded finding: a pledging chain's round 0,
	// the key vector is the round>0 vector plus the pledging node, and without
	// that extra key the bound holds
	m := n - 1
	mi := 2*t - m
	if pledging && q.Round == 0 && n == n1+1 && 3*mi > m {
		failKnown(c, what, one)
		return
	}
	c.Fail("quorum-intersection-at-most-third", what, one)
}

func runQuorum(c *vh.Ctx, cs Case) {
	nw := nets[cs.Mainnet]
	node := buildNode(cs.Mainnet, cs.Epoch, cs.Recs)
	defer node.VerifC10Close()
	var qt []string
	nontrivial := false
	keyParts := []string{}
	for _, q := range cs.Qs {
		chain, info := chainFor(node, nw, q)
		tf := node.VerifC10ConsensusThreshold(q.Ts, true)
		tn := node.VerifC10ConsensusThreshold(q.Ts, false)
		ids, pubs := chain.VerifC10ConsensusKeys(q.Round, q.Ts)
		ids1, _ := chain.VerifC10ConsensusKeys(q.Round+1, q.Ts)
		if len(ids) != len(pubs) {
			c.Fail("keys-ids-length", "ConsensusKeys returned vectors of different length", cs)
		}
		rem := node.VerifC10RemovingOrSlashingNodeAt(q.Ts)
		pred := node.VerifC10UsePredictive(q.Ts)
		remS := "None"
		if rem != nil {
			remS = vh.Some(coqId(nw, rem.IdForNetwork))
		}
		qt = append(qt, vh.App("Q", zts(q.Ts), coqPledging(nw, cs.Recs, info), fmt.Sprint(q.Round),
			fmt.Sprint(tf), fmt.Sprint(tn), coqIdCode(nw, ids), remS, vh.Bool(pred)))
		oracleQuery(c, cs, q, len(ids), len(ids1), tf, info != nil)
		if tf != 1000 {
			nontrivial = true
		}
		keyParts = append(keyParts, fmt.Sprintf("%d/%d/%d/%v/%v", len(ids), tf, tn, rem != nil, info != nil && q.Round == 0))
	}
	sort.Strings(keyParts)
	term := vh.App("CQuorum", zts(cs.Epoch), vh.Bool(cs.Mainnet), coqGenesis(nw, cs.Recs), coqRecs(nw, cs.Recs), lst(qt))
	c.Case("quorum:"+cs.Name, fmt.Sprintf("%v|%s", cs.Mainnet, strings.Join(keyParts, ",")), nontrivial, cs, term)
}

// ---- certificates -------------------------------------------------------------

type detReader struct{ r *vh.Rand }

func (d detReader) Read(p []byte) (int, error) {
	copy(p, d.r.Bytes(len(p)))
	return len(p), nil
}

func signCert(nw *network, rng *vh.Rand, ids []crypto.Hash, pubs []*crypto.Key, pos []int, s *common.Snapshot) bool {
	nonces := map[int]*crypto.CosiNonce{}
	commitments := map[int]*crypto.Key{}
	for _, i := range pos {
		if i < 0 || i >= len(ids) || i >= 64 {
			return false
		}
		nonce := crypto.CosiCommitNonce(detReader{rng})
		cm := nonce.Public()
		nonces[i] = nonce
		commitments[i] = &cm
	}
	sig, err := crypto.CosiAggregateCommitment(commitments)
	if err != nil {
		return false
	}
	responses := map[int]*[32]byte{}
	for _, i := range pos {
		priv := pool[nw.byId[ids[i]]].priv
		r, err := nonces[i].Response(sig, &priv, pubs, s.Hash)
		if err != nil {
			return false
		}
		responses[i] = r
	}
	if err := sig.AggregateResponse(pubs, responses, s.Hash, true); err != nil {
		return false
	}
	s.Signature = sig
	return true
}

func runCerts(c *vh.Ctx, cs Case) {
	nw := nets[cs.Mainnet]
	node := buildNode(cs.Mainnet, cs.Epoch, cs.Recs)
	defer node.VerifC10Close()
	rng := vh.NewRand(cs.Epoch^uint64(len(cs.Recs)), "c10 cert nonces "+cs.Name)
	var ct []string
	nontrivial := false
	for ci, q := range cs.Certs {
		signer := node
		if q.SignPrefix < len(cs.Recs) {
			signer = buildNode(cs.Mainnet, cs.Epoch, cs.Recs[:q.SignPrefix])
			defer signer.VerifC10Close()
		}
		sq := q.Query
		sq.Ts = q.SignTs
		schain, _ := chainFor(signer, nw, sq)
		sids, spubs := schain.VerifC10ConsensusKeys(q.Round, q.SignTs)
		chain, info := chainFor(node, nw, q.Query)
		snap := &common.Snapshot{
			Version:      common.SnapshotVersionCommonEncoding,
			NodeId:       chain.ChainId,
			RoundNumber:  q.Round,
			Timestamp:    q.Ts,
			Transactions: []crypto.Hash{crypto.Blake3Hash([]byte(fmt.Sprintf("c10 cert %s %d", cs.Name, ci)))},
		}
		snap.Hash = snap.PayloadHash()
		if !signCert(nw, rng, sids, spubs, q.Pos, snap) {
			c.Count("cert:unsignable")
			continue
		}
		pos := make([]string, len(q.Pos))
		for i, p := range q.Pos {
			pos[i] = fmt.Sprint(p)
		}
		steps := q.Steps
		if len(steps) == 0 {
			steps = []Step{{Kind: "final"}}
		}
		one := cs
		one.Certs = []CertQ{q}
		k := len(q.Pos)
		for _, st := range steps {
			switch st.Kind {
			case "leader":
				_, lok := chain.VerifC10LeaderVerify(snap)
				node.VerifC10CacheWait()
				c.Count("step:leader")
				// sanity from the text: the leader needs the non-final threshold
				if tn := node.VerifC10ConsensusThreshold(q.Ts, false); lok && k < tn {
					c.Fail("leader-check-below-threshold", fmt.Sprintf("leader check accepted %d signers, non-final threshold %d", k, tn), one)
				}
				continue
			case "direct":
				_, dok := chain.VerifC10CacheVerifyCosi(snap, st.Thr)
				node.VerifC10CacheWait()
				c.Count("step:direct")
				if dok && k < st.Thr {
					c.Fail("direct-check-below-threshold", fmt.Sprintf("cacheVerifyCosi accepted %d signers for threshold %d", k, st.Thr), one)
				}
				continue
			}
			_, ok := chain.VerifC10VerifyFinalization(snap)
			node.VerifC10CacheWait()
			c.Count("step:final")
			ct = append(ct, vh.App("Cert", zts(q.Ts), coqPledging(nw, cs.Recs, info), fmt.Sprint(q.Round),
				coqIds(nw, sids), lst(pos), vh.Bool(ok)))
			if !ok {
				continue
			}
			nontrivial = true
			// oracle (independent of what was verified before): an accepted
			// certificate of k signers over the n keys it was checked against leaves
			// room for a second one sharing 2k-n keys; k reaches the final threshold of
			// the timestamp; below the minimum membership nothing is final
			vids, _ := chain.VerifC10ConsensusKeys(q.Round, q.Ts)
			vids1, _ := chain.VerifC10ConsensusKeys(q.Round+1, q.Ts)
			n := len(vids)
			legacy := len(sids) > n
			if legacy {
				n = len(sids) // accepted through the legacy vector
			}
			mi := 2*k - n
			if mi < 0 {
				mi = 0
			}
			if 3*mi <= n {
				what := fmt.Sprintf("verifyFinalization accepted %d signers over %d keys at ts=%d round=%d: a second such certificate can share only %d keys", k, n, q.Ts, q.Round, mi)
				m := n - 1
				if info != nil && q.Round == 0 && len(vids) == len(vids1)+1 && 3*(2*k-m) > m {
					failKnown(c, what, one)
				} else {
					c.Fail("certificate-accepted-below-two-thirds", what, one)
				}
			}
			if tf := node.VerifC10ConsensusThreshold(q.Ts, true); !legacy && k < tf {
				c.Fail("final-below-final-threshold", fmt.Sprintf("verifyFinalization accepted %d signers at ts=%d, the final threshold is %d", k, q.Ts, tf), one)
			}
			if acceptedCount(cs.Recs, q.Ts) < config.KernelMinimumNodesCount {
				c.Fail("below-minimum-certificate-accepted", fmt.Sprintf("certificate accepted at ts=%d with fewer than the minimum accepted nodes", q.Ts), one)
			}
		}
	}
	term := vh.App("CCerts", zts(cs.Epoch), vh.Bool(cs.Mainnet), coqGenesis(nw, cs.Recs), coqRecs(nw, cs.Recs), lst(ct))
	c.Case("certs:"+cs.Name, fmt.Sprintf("certs|%s|%d|%d", cs.Name, len(cs.Recs), len(ct)), nontrivial, cs, term)
}

func runMask(c *vh.Ctx, cs Case) {
	sig := &crypto.CosiSignature{Mask: cs.Mask}
	got := sig.ThresholdVerify(cs.Thr)
	c.Case("mask", fmt.Sprintf("mask|%d|%d", bits.OnesCount64(cs.Mask), cs.Thr), true, cs,
		vh.App("CMask", zts(cs.Mask), fmt.Sprint(cs.Thr), vh.Bool(got)))
	if got && cs.Thr > 64 {
		c.Fail("mask-meets-impossible-threshold", "a 64-bit mask met a threshold above 64", cs)
	}
	if got != (bits.OnesCount64(cs.Mask) >= cs.Thr) {
		c.Fail("mask-count", "ThresholdVerify is not the bit count rule", cs)
	}
}

func run(c *vh.Ctx, cs Case) {
	switch cs.Kind {
	case "quorum":
		runQuorum(c, cs)
	case "certs":
		runCerts(c, cs)
	case "mask":
		runMask(c, cs)
	default:
		panic("unknown kind " + cs.Kind)
	}
}

var _ = bytes.Compare

func main() {
	c := vh.Start("C10")
	initPool()
	c.Rep.Rule = "a case = one membership history (genesis/pledge/accept/cancel/remove records, sizes 1..50) on the real kernel node " +
		"(LoadConsensusNodes over an in-memory store) with 6..40 query timestamps placed at every boundary (+-1 ns around accept+reference window, " +
		"accept+maturity period, pledge+period, operation-window edges, signer-set fork) and rounds 0/1 of pledging and established chains; " +
		"non-trivial = at least one query reached the threshold formula (effective base >= minimum); distinct = different multiset of " +
		"(keys, thresholds, removal exclusion, round-0 pledging) observations; certs = real CoSi certificates verified by verifyFinalization, " +
		"also as stateful sequences on one node (leader check with the non-final threshold / a lower chosen threshold first, then final, and the reverse order) so the verification cache is warm"
	if c.Replay != "" {
		var cs Case
		c.ReplayCase(&cs)
		run(c, cs)
		c.Finish()
		return
	}
	for _, cs := range corpus() {
		run(c, cs)
	}
	for _, cs := range sweep(c) {
		run(c, cs)
	}
	n := c.Scale(100, 4000)
	rng := c.Rng.Fork("random histories")
	for i := 0; i < n; i++ {
		run(c, randomHistory(rng, i))
	}
	m := c.Scale(40, 400)
	mr := c.Rng.Fork("masks")
	for i := 0; i < m; i++ {
		mask := mr.U64()
		if i%3 == 0 {
			mask >>= uint(mr.Intn(64))
		}
		if i%7 == 0 {
			mask = ^uint64(0)
		}
		thr := []int{1000, 65, 64, 63, bits.OnesCount64(mask), bits.OnesCount64(mask) + 1, 5, 1}[mr.Intn(8)]
		run(c, Case{Kind: "mask", Mask: mask, Thr: thr})
	}
	c.Finish()
}
