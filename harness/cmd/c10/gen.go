package main

import (
	"fmt"

	"github.com/MixinNetwork/mixin/kernel"
	"verifharness/vh"
)

const (
	refWindow = 30 * Second // SnapshotReferenceThreshold * SnapshotRoundGap
	maturity  = 12 * Hour   // KernelNodeAcceptPeriodMinimum
)

type hb struct {
	recs []Rec
	next int
}

func (h *hb) fresh() int { k := h.next; h.next++; return k }
func (h *hb) add(k int, ts uint64, st string, g bool) {
	h.recs = append(h.recs, Rec{K: k, Ts: ts, St: st, G: g})
}
func (h *hb) genesis(n int, epoch uint64) []int {
	var ks []int
	for i := 0; i < n; i++ {
		k := h.fresh()
		h.add(k, epoch, "A", true)
		ks = append(ks, k)
	}
	return ks
}

func around(t uint64) []uint64 { return []uint64{t - 1, t, t + 1, t + 2} }

func qs(chain int, est bool, round uint64, ts ...uint64) []Query {
	var out []Query
	for _, t := range ts {
		out = append(out, Query{Ts: t, Chain: chain, Est: est, Round: round})
	}
	return out
}

func windowEdges(epoch uint64, day uint64) []uint64 {
	d := epoch + day*Day
	return []uint64{d + 13*Hour - 1, d + 13*Hour, d + 13*Hour + 1, d + 16*Hour + 30*60*Second,
		d + 20*Hour - 1, d + 20*Hour, d + 20*Hour + 1, d + 12*Hour, d + 3*Hour}
}

// forkEpoch places the mainnet signer-set fork at hour 13 of day 100.
func forkEpoch() uint64 {
	return kernel.VerifC10MainnetSignerSetForkAt() - 100*Day - 13*Hour
}

// n genesis nodes only
func scenGenesis(n int, mainnet bool, epoch uint64) Case {
	h := &hb{}
	h.genesis(n, epoch)
	ts := []uint64{epoch, epoch + 1, epoch + 2}
	ts = append(ts, around(epoch+refWindow)...)
	ts = append(ts, around(epoch+maturity)...)
	ts = append(ts, windowEdges(epoch, 5)...)
	return Case{Kind: "quorum", Name: "genesis", Epoch: epoch, Mainnet: mainnet, Recs: h.recs, Qs: qs(-1, true, 1, ts...)}
}

// half genesis, the rest pledged and accepted one by one; queries around the
// last acceptance
func scenMaturity(n int, mainnet bool, epoch uint64) Case {
	h := &hb{}
	g := (n + 1) / 2
	h.genesis(g, epoch)
	var lastA, lastP uint64
	for j := 0; j < n-g; j++ {
		k := h.fresh()
		lastP = epoch + uint64(10+2*j)*Day + uint64(j)*Second
		lastA = lastP + 13*Hour
		h.add(k, lastP, "P", false)
		h.add(k, lastA, "A", false)
	}
	var ts []uint64
	if n > g {
		ts = append(ts, around(lastA)...)
		ts = append(ts, around(lastA+refWindow)...)
		ts = append(ts, around(lastA+maturity)...)
		ts = append(ts, around(lastP+maturity-3*refWindow)...)
		ts = append(ts, lastP, lastP+1)
	} else {
		ts = append(ts, around(epoch+refWindow)...)
	}
	return Case{Kind: "quorum", Name: "maturity", Epoch: epoch, Mainnet: mainnet, Recs: h.recs, Qs: qs(-1, true, 1, ts...)}
}

// n mature accepted nodes and one pledging node; the accept snapshot of the
// pledging node is round 0 of its (stateless) chain
func scenPledging(n int, mainnet bool, epoch uint64) Case {
	h := &hb{}
	g := 3
	if n < g {
		g = n
	}
	h.genesis(g, epoch)
	for j := 0; j < n-g; j++ {
		h.add(h.fresh(), epoch+Day+uint64(j)*Second, "A", false)
	}
	x := h.fresh()
	p := epoch + 100*Day + 17
	h.add(x, p, "P", false)
	at := epoch + 100*Day + 13*Hour + 5*Second
	var q []Query
	q = append(q, qs(-1, true, 1, around(p)...)...)
	q = append(q, qs(-1, true, 1, around(p+maturity-3*refWindow)...)...)
	q = append(q, qs(x, false, 0, at, at+1, p+maturity, p+maturity+1, epoch+101*Day+14*Hour)...)
	q = append(q, qs(x, false, 1, at)...)
	q = append(q, qs(x, true, 0, at)...)
	q = append(q, qs(0, true, 0, at)...)
	return Case{Kind: "quorum", Name: "pledging", Epoch: epoch, Mainnet: mainnet, Recs: h.recs, Qs: q}
}

// removal windows: variant 0 all mature; 1 a node accepted 11 h before the
// window; 2 the oldest node removed 30 s into the window; 3 a pledging node
// at the window start
func scenWindow(n int, mainnet bool, epoch uint64, variant int) Case {
	h := &hb{}
	g := 3
	if n < g {
		g = n
	}
	ks := h.genesis(g, epoch)
	for j := 0; j < n-g; j++ {
		k := h.fresh()
		ks = append(ks, k)
		h.add(k, epoch+Day+uint64(j)*Second, "A", false)
	}
	day := uint64(30)
	d := epoch + day*Day
	ts := windowEdges(epoch, day)
	switch variant {
	case 1:
		h.add(h.fresh(), d+2*Hour, "A", false)
		ts = append(ts, around(d+2*Hour+maturity)...)
	case 2:
		// the oldest by (timestamp, id) among the genesis nodes is only known to
		// the kernel; remove every candidate's possibility by removing the one the
		// kernel names: done in sweep() through removalOf
	case 3:
		h.add(h.fresh(), d+Hour, "P", false)
	}
	d1 := epoch + (day+1)*Day
	ts = append(ts, d1+13*Hour-1, d1+13*Hour, d1+20*Hour)
	name := fmt.Sprintf("window%d", variant)
	return Case{Kind: "quorum", Name: name, Epoch: epoch, Mainnet: mainnet, Recs: h.recs, Qs: qs(-1, true, 1, ts...)}
}

// oldestAccepted asks the harness' own bookkeeping for the accepted node with
// the smallest (timestamp, id) before ts.
func oldestAccepted(mainnet bool, recs []Rec, ts uint64) int {
	nw := nets[mainnet]
	best, found := -1, false
	var bts uint64
	for k, r := range latestStates(recs, ts) {
		if r.St != "A" {
			continue
		}
		if !found || r.Ts < bts || (r.Ts == bts && nw.rank[nw.ids[k]] < nw.rank[nw.ids[best]]) {
			best, bts, found = k, r.Ts, true
		}
	}
	return best
}

func withRemoval(cs Case, at uint64) Case {
	k := oldestAccepted(cs.Mainnet, cs.Recs, at)
	if k < 0 {
		return cs
	}
	cs.Recs = append(append([]Rec{}, cs.Recs...), Rec{K: k, Ts: at, St: "R"})
	cs.Qs = append(append([]Query{}, cs.Qs...), qs(-1, true, 1, around(at)...)...)
	cs.Name = "window-removed"
	return cs
}

func firstK(k int) []int {
	p := make([]int, k)
	for i := range p {
		p[i] = i
	}
	return p
}

func lastK(n, k int) []int {
	var p []int
	for i := n - k; i < n; i++ {
		if i >= 0 {
			p = append(p, i)
		}
	}
	return p
}

// certificates over the key vector of n nodes: exactly at, one below and above
// the threshold
func certsFor(cs Case, q Query, prefix int, signTs uint64, n, t int) []CertQ {
	var out []CertQ
	add := func(pos []int) {
		if len(pos) == 0 {
			return
		}
		out = append(out, CertQ{Query: q, SignPrefix: prefix, SignTs: signTs, Pos: pos})
	}
	if t > n+1 {
		add(firstK(n))
		return out
	}
	add(firstK(t))
	add(firstK(t - 1))
	add(lastK(n, t))
	add(lastK(n, t-1))
	add(firstK(n))
	if t >= 2 {
		add(lastK(n, t-2))
	}
	return out
}

func scenCerts(n int, mainnet bool, epoch uint64, kind int) Case {
	switch kind {
	case 0: // established chain, ordinary time
		cs := scenGenesis(n, mainnet, epoch)
		ts := epoch + 5*Day + 3*Hour
		t := n*2/3 + 1
		if n < 7 {
			t = 1000
		}
		cs.Kind, cs.Name, cs.Qs = "certs", "certs-plain", nil
		cs.Certs = certsFor(cs, Query{Ts: ts, Chain: 0, Est: true, Round: 1}, len(cs.Recs), ts, n, t)
		return cs
	case 1: // pledging chain round 0 and round 1
		cs := scenPledging(n, mainnet, epoch)
		at := epoch + 100*Day + 13*Hour + 5*Second
		x := cs.Recs[len(cs.Recs)-1].K
		t := n*2/3 + 1
		if n < 7 {
			t = 1000
		}
		cs.Kind, cs.Name, cs.Qs = "certs", "certs-round0", nil
		cs.Certs = certsFor(cs, Query{Ts: at, Chain: x, Est: false, Round: 0}, len(cs.Recs), at, n+1, t)
		cs.Certs = append(cs.Certs, certsFor(cs, Query{Ts: at, Chain: x, Est: false, Round: 1}, len(cs.Recs), at, n, t)...)
		return cs
	default: // removal visible to the verifier but not to the signers
		cs := scenWindow(n, mainnet, epoch, 0)
		d := epoch + 30*Day
		rm := d + 13*Hour + 30*Second
		prefix := len(cs.Recs)
		cs = withRemoval(cs, rm)
		ts := rm + Second
		t := n*2/3 + 1
		if n < 7 {
			t = 1000
		}
		cs.Kind, cs.Name, cs.Qs = "certs", "certs-removal", nil
		q := Query{Ts: ts, Chain: 1, Est: true, Round: 1}
		cs.Certs = certsFor(cs, q, prefix, ts, n, t)
		cs.Certs = append(cs.Certs, certsFor(cs, q, len(cs.Recs), ts, n-1, t)...)
		if n > 8 {
			t1 := (n-1)*2/3 + 1
			cs.Certs = append(cs.Certs, certsFor(cs, q, len(cs.Recs), ts, n-1, t1)...)
		}
		return cs
	}
}

func thr(base int) int {
	if base < 7 {
		return 1000
	}
	return base*2/3 + 1
}

// stateful certificate sequences on one node (warm verification cache): n mature
// accepted nodes and a node pledged more than 12h-90s before ts, so the
// non-final threshold counts the pledging node and the final one does not.  The
// same certificate goes through the leader's non-final check or a lower chosen
// threshold first and through verifyFinalization afterwards, and in the
// reverse (control) order.
func scenCertSeq(n int, mainnet bool, epoch uint64) Case {
	cs := scenPledging(n, mainnet, epoch)
	x := cs.Recs[len(cs.Recs)-1].K
	p := cs.Recs[len(cs.Recs)-1].Ts
	ts := p + maturity - 3*refWindow + 5*Second // hour 11:58, outside the operation window
	tf, tn := thr(n), thr(n+1)
	cs.Kind, cs.Name, cs.Qs = "certs", "certs-sequence", nil
	q := Query{Ts: ts, Chain: 0, Est: true, Round: 1}
	add := func(q Query, pos []int, steps ...Step) {
		if len(pos) == 0 {
			return
		}
		cs.Certs = append(cs.Certs, CertQ{Query: q, SignPrefix: len(cs.Recs), SignTs: q.Ts, Pos: pos, Steps: steps})
	}
	L, F := Step{Kind: "leader"}, Step{Kind: "final"}
	D := func(t int) Step { return Step{Kind: "direct", Thr: t} }
	if tf > n {
		// final threshold unreachable (below the minimum, or sentinel)
		k := tn
		if k > n {
			k = n - 1
		}
		add(q, firstK(k), L, F)
		add(q, firstK(k), F, L, F)
		add(q, firstK(n), L, F, F)
		add(q, firstK(n), D(1), F)
		add(q, lastK(n, k), D(k), F, D(1), F)
	} else {
		add(q, firstK(tf-1), D(tf-1), F)
		add(q, firstK(tf-1), F, D(tf-1), F)
		add(q, lastK(n, tf-1), D(1), L, F)
		add(q, firstK(tf), L, F)
		add(q, firstK(tf), F, L, F)
		if tn <= n {
			add(q, firstK(tn), L, F)
		}
		add(q, firstK(n), D(n), F)
	}
	// round 0 of the pledging chain at its accept time: n+1 keys
	at := epoch + 100*Day + 13*Hour + 5*Second
	q0 := Query{Ts: at, Chain: x, Est: false, Round: 0}
	if tf <= n {
		add(q0, firstK(tf-1), D(tf-1), F)
		add(q0, firstK(tf-1), L, F)
	} else {
		add(q0, firstK(n+1), L, F)
		add(q0, firstK(n+1), D(2), F)
	}
	return cs
}

// corpus: the boundary cases named in the design, including the recorded finding
func corpus() []Case {
	var out []Case
	// F4 on the real code: 7 (8) mature nodes, pledging chain, round 0
	out = append(out, scenPledging(7, false, EpochMain), scenPledging(8, false, EpochMain), scenPledging(9, false, EpochMain))
	out = append(out, scenCerts(7, false, EpochMain, 1), scenCerts(8, true, EpochMain, 1))
	// warm verification cache at the minimum-membership boundary and around T / T-1
	for _, n := range []int{6, 5, 7, 8, 9} {
		out = append(out, scenCertSeq(n, n%2 == 1, EpochMain))
	}
	// below the minimum
	for n := 1; n <= 6; n++ {
		out = append(out, scenGenesis(n, false, EpochMain), scenPledging(n, false, EpochMain), scenMaturity(n, true, EpochMain))
		out = append(out, scenCerts(n, false, EpochMain, 0))
	}
	// signer-set fork boundary on mainnet: fork at hour 13 of day 100
	for _, n := range []int{7, 8, 9, 12, 50} {
		h := &hb{}
		e := forkEpoch()
		h.genesis(n, e)
		f := kernel.VerifC10MainnetSignerSetForkAt()
		ts := append(around(f), f-Day, f-Day+1, f-Day+Hour, f+Hour, f+7*Hour-1, f+7*Hour, f-1-Hour)
		cs := Case{Kind: "quorum", Name: "fork", Epoch: e, Mainnet: true, Recs: h.recs, Qs: qs(-1, true, 1, ts...)}
		out = append(out, cs)
		out = append(out, withRemoval(cs, f-Day+30*Second), withRemoval(cs, f+30*Second))
	}
	// legacy certificate across a removal (pre-fork mainnet) and the same after the fork
	out = append(out, scenCerts(9, true, EpochMain, 2), scenCerts(9, false, EpochMain, 2), scenCerts(8, true, EpochMain, 2))
	out = append(out, Case{Kind: "mask", Mask: ^uint64(0), Thr: 1000}, Case{Kind: "mask", Mask: ^uint64(0), Thr: 64},
		Case{Kind: "mask", Mask: ^uint64(0), Thr: 65}, Case{Kind: "mask", Mask: 0, Thr: 0}, Case{Kind: "mask", Mask: 0x1f, Thr: 5})
	return out
}

// sweep: every membership size x scenario (finite, same in every tier except
// that certificates are built for every size only in the thorough tier)
func sweep(c *vh.Ctx) []Case {
	var out []Case
	for n := 7; n <= 50; n++ {
		for _, mainnet := range []bool{false, true} {
			if mainnet && c.Tier == "quick" && n%4 != 3 {
				continue
			}
			quickSkip := c.Tier == "quick" && n > 12 && n%3 != 0
			out = append(out, scenGenesis(n, mainnet, EpochMain))
			out = append(out, scenMaturity(n, mainnet, EpochMain))
			out = append(out, scenPledging(n, mainnet, EpochMain))
			for v := 0; v <= 3; v++ {
				if v == 2 || (quickSkip && v != 0) {
					continue
				}
				w := scenWindow(n, mainnet, EpochMain, v)
				out = append(out, w)
				if v == 0 {
					d := EpochMain + 30*Day
					out = append(out, withRemoval(w, d+13*Hour+30*Second))
					if !quickSkip {
						out = append(out, withRemoval(w, d+12*Hour+59*60*Second))
					}
				}
			}
			if mainnet {
				out = append(out, scenGenesis(n, true, forkEpoch()), scenWindow(n, true, forkEpoch()+70*Day, 0))
			}
		}
		if c.Tier != "quick" || n%6 == 1 || n == 50 {
			for k := 0; k < 3; k++ {
				out = append(out, scenCerts(n, n%2 == 0, EpochMain, k))
			}
			if n > 9 {
				out = append(out, scenCertSeq(n, n%2 == 0, EpochMain))
			}
		}
	}
	return out
}

// ---- random histories --------------------------------------------------------

var pledgeHours = []uint64{0, 1, 2, 3, 4, 5, 6, 10, 11, 12, 20, 21, 22, 23}

func randomHistory(r *vh.Rand, idx int) Case {
	mainnet := r.Chance(1, 3)
	epoch := EpochMain
	if mainnet && r.Bool() {
		epoch = forkEpoch() + uint64(r.Intn(60))*Day
	}
	h := &hb{}
	g := r.Range(5, 20)
	if r.Chance(1, 6) {
		g = r.Range(1, 8)
	}
	accepted := h.genesis(g, epoch)
	pledging, pledgedAt := -1, uint64(0)
	day := uint64(1)
	steps := r.Range(3, 30)
	var marks []uint64
	for s := 0; s < steps && h.next < poolSize-2; s++ {
		day += uint64(r.Range(1, 3))
		d := epoch + day*Day
		jitter := uint64(r.Intn(3600)) * Second
		if r.Chance(1, 4) {
			jitter += uint64(r.Intn(1000000000))
		}
		if pledging >= 0 {
			hr := uint64(r.Range(13, 19))
			if r.Chance(1, 10) {
				hr = uint64(r.Intn(24))
			}
			at := d + hr*Hour + jitter
			if at <= pledgedAt {
				continue
			}
			if r.Chance(4, 5) {
				h.add(pledging, at, "A", false)
				accepted = append(accepted, pledging)
			} else {
				h.add(pledging, at, "C", false)
			}
			marks = append(marks, at, at+refWindow, at+maturity)
			pledging = -1
			continue
		}
		switch {
		case r.Chance(1, 3) && len(accepted) > 7:
			// the harness removes the oldest accepted (its own bookkeeping)
			at := d + uint64(r.Range(13, 19))*Hour + jitter
			k := oldestAccepted(mainnet, h.recs, at)
			if r.Chance(1, 8) {
				k = accepted[r.Intn(len(accepted))]
			}
			still := false
			for i, a := range accepted {
				if a == k {
					accepted = append(accepted[:i:i], accepted[i+1:]...)
					still = true
					break
				}
			}
			if still {
				h.add(k, at, "R", false)
				marks = append(marks, at, d+13*Hour, d+20*Hour)
			}
		default:
			hr := pledgeHours[r.Intn(len(pledgeHours))]
			at := d + hr*Hour + jitter
			pledging, pledgedAt = h.fresh(), at
			h.add(pledging, at, "P", false)
			marks = append(marks, at, at+maturity-3*refWindow, at+maturity)
		}
	}
	end := epoch + (day+3)*Day
	// shuffle the record order handed to the store (LoadConsensusNodes sorts)
	recs := append([]Rec{}, h.recs...)
	for i := len(recs) - 1; i > 0; i-- {
		j := r.Intn(i + 1)
		recs[i], recs[j] = recs[j], recs[i]
	}
	var q []Query
	nq := r.Range(8, 16)
	for i := 0; i < nq; i++ {
		var ts uint64
		switch r.Intn(4) {
		case 0:
			ts = epoch + uint64(r.Intn(int(end-epoch)/1000000))*1000000
		case 1:
			dd := epoch + uint64(r.Intn(int(day)+3))*Day
			ts = dd + []uint64{13, 20, 12, 19, 7, 10}[r.Intn(6)]*Hour
		default:
			if len(marks) > 0 {
				ts = marks[r.Intn(len(marks))]
			} else {
				ts = epoch + refWindow
			}
		}
		ts = ts + uint64(r.Intn(4)) - 1
		chain, est, round := -1, true, uint64(1)
		switch r.Intn(5) {
		case 0:
			// the chain of whatever node is pledging at ts, round 0
			for k, rec := range latestStates(recs, ts) {
				if rec.St == "P" {
					chain, est, round = k, false, uint64(r.Intn(2))
				}
			}
		case 1:
			chain, est, round = r.Intn(h.next), r.Bool(), uint64(r.Intn(2))
		}
		q = append(q, Query{Ts: ts, Chain: chain, Est: est, Round: round})
	}
	return Case{Kind: "quorum", Name: "random", Epoch: epoch, Mainnet: mainnet, Recs: recs, Qs: q}
}
