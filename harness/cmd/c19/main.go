// C19 harness: offers sequences of candidate snapshots to a real kernel.CacheRound
// through validateSnapshot (hook VerifC19Validate), records every outcome for the
// Coq model, and checks the property directly on the implementation: after every
// accept the live round has pairwise distinct hashes, timestamps and transactions,
// lies within one day and spans less than the round gap; a rejected candidate
// leaves the round's content unchanged; closing the round (asFinal) never panics.
package main

import (
	"encoding/binary"
	"encoding/hex"
	"fmt"
	"math/big"
	"sort"
	"strings"

	"github.com/MixinNetwork/mixin/common"
	"github.com/MixinNetwork/mixin/config"
	"github.com/MixinNetwork/mixin/crypto"
	"github.com/MixinNetwork/mixin/kernel"
	"verifharness/vh"
)

type Snap struct {
	Hash    string   `json:"hash"` // 32 bytes hex
	Ts      uint64   `json:"ts"`
	Version uint8    `json:"version"`
	Round   uint64   `json:"round"`
	Txs     []string `json:"txs"`
	Add     bool     `json:"add"`
}

type Case struct {
	Kind   string `json:"kind"`
	Node   string `json:"node"`
	Number uint64 `json:"number"`
	Cands  []Snap `json:"cands"`
	// stateful interleavings (stateful.go): Cands is then the snapshot table
	Slots int  `json:"slots,omitempty"`
	Ops   []Op `json:"ops,omitempty"`
}

const gap = config.SnapshotRoundGap
const oneDay = kernel.OneDay

func h32(s string) crypto.Hash {
	b, err := hex.DecodeString(s)
	if err != nil || len(b) != 32 {
		panic("bad hash " + s)
	}
	var h crypto.Hash
	copy(h[:], b)
	return h
}

func small(n uint64) string {
	var h crypto.Hash
	binary.BigEndian.PutUint64(h[24:], n)
	return hex.EncodeToString(h[:])
}

func coqSnap(s Snap) string {
	txs := make([]string, len(s.Txs))
	for i, t := range s.Txs {
		x := h32(t)
		txs[i] = num32(x[:])
	}
	hh := h32(s.Hash)
	return vh.App("mk_snap", num32(hh[:]), vh.NU(s.Ts), vh.NU(uint64(s.Version)), vh.NU(s.Round), vh.List(txs, "N"))
}

// the property, on the implementation's slice
func invariant(ss []*common.Snapshot) string {
	for i, a := range ss {
		for j, b := range ss {
			if i >= j {
				continue
			}
			if a.Hash == b.Hash {
				return "duplicate-hash"
			}
			if a.Timestamp == b.Timestamp {
				return "duplicate-timestamp"
			}
			for _, x := range a.Transactions {
				for _, y := range b.Transactions {
					if x == y {
						return "duplicate-transaction"
					}
				}
			}
			if a.Timestamp/oneDay != b.Timestamp/oneDay {
				return "day-leap"
			}
		}
	}
	if len(ss) > 0 {
		lo, hi := ss[0].Timestamp, ss[0].Timestamp
		for _, s := range ss {
			lo, hi = min(lo, s.Timestamp), max(hi, s.Timestamp)
		}
		if hi-lo >= gap {
			return "span-reaches-gap"
		}
	}
	return ""
}

func content(ss []*common.Snapshot) string {
	keys := make([]string, len(ss))
	for i, s := range ss {
		keys[i] = fmt.Sprintf("%s/%d", s.Hash, s.Timestamp)
	}
	sort.Strings(keys)
	return strings.Join(keys, ",")
}

func run(c *vh.Ctx, cs Case) {
	if len(cs.Ops) > 0 {
		runStateful(c, cs)
		return
	}
	node := h32(cs.Node)
	round := kernel.VerifC19NewCacheRound(node, cs.Number)
	var coqCands, classes []string
	accepted, guarded, wellformed := 0, true, true
	for _, sn := range cs.Cands {
		s := &common.Snapshot{Version: sn.Version, NodeId: node, RoundNumber: sn.Round, Timestamp: sn.Ts, Hash: h32(sn.Hash)}
		for _, t := range sn.Txs {
			s.Transactions = append(s.Transactions, h32(t))
		}
		before := content(round.Snapshots)
		var err error
		pan, _ := vh.Catch(func() { err = round.VerifC19Validate(s, sn.Add) })
		coqCands = append(coqCands, "("+coqSnap(sn)+", "+vh.Bool(sn.Add)+")")
		switch {
		case pan:
			classes = append(classes, "2")
		case err != nil:
			classes = append(classes, "1")
		default:
			classes = append(classes, "0")
		}
		if pan {
			// a precondition panic (wrong round number / zero hash) is the caller's
			// fault; a GAP panic on a round inside the guarded range is a failure
			// fault; so is a round holding a snapshot the common encoding cannot encode
			// (the duplicate-transaction error message evaluates its PayloadHash); a
			// panic on a well-formed round inside the guarded range is a failure
			if sn.Round == cs.Number && s.Hash.HasValue() && guarded && wellformed {
				c.Fail("validate-panics", "validateSnapshot panicked on a well-formed round whose timestamps are below 2^64-gap", cs)
			}
			break
		}
		after := content(round.Snapshots)
		if err != nil || !sn.Add {
			if before != after {
				c.Fail("reject-changes-round", "a rejected (or only validated) candidate changed the round's content", cs)
			}
			continue
		}
		accepted++
		if sn.Ts >= ^uint64(0)-gap+1 {
			guarded = false
		}
		if nt := len(sn.Txs); sn.Version != common.SnapshotVersionCommonEncoding || nt < 1 ||
			nt > common.SnapshotTransactionsMaximum || (sn.Round == 0 && nt != 1) {
			wellformed = false
		}
		for i, a := range sn.Txs {
			for _, b := range sn.Txs[:i] {
				if a == b {
					wellformed = false // the encoder refuses a repeated transaction
				}
			}
		}
		if why := invariant(round.Snapshots); why != "" {
			c.Fail(why, "after an accept the live round violates: "+why, cs)
		}
		cp := round.Copy()
		if p2, _ := vh.Catch(func() { cp.VerifC19AsFinal() }); p2 && guarded {
			c.Fail("close-panics", "asFinal panicked on an accepted round", cs)
		}
	}
	order := make([]string, len(round.Snapshots))
	for i, s := range round.Snapshots {
		order[i] = num32(s.Hash[:])
	}
	var fr *kernel.FinalRound
	fpan, _ := vh.Catch(func() { fr = round.VerifC19AsFinal() })
	final := vh.Pan("(option (N * N))")
	if !fpan {
		if fr == nil {
			final = vh.Ok(vh.None("(N * N)"))
		} else {
			final = vh.Ok(vh.Some("(" + vh.NU(fr.Start) + ", " + vh.NU(fr.End) + ")"))
			if fr.End-fr.Start >= gap || fr.NodeId != node || fr.Number != cs.Number {
				c.Fail("final-wrong", "asFinal returned a round spanning the gap or with the wrong identity", cs)
			}
		}
	} else if guarded {
		c.Fail("close-panics", "asFinal panicked on an accepted round", cs)
	}
	kind := cs.Kind
	if !guarded {
		kind += "-wrap"
	}
	if !wellformed {
		kind += "-unencodable"
	}
	key := fmt.Sprintf("%v", cs)
	c.Case(kind, key, accepted >= 2, cs,
		vh.App("CSeq", num32(node[:]), vh.NU(cs.Number), vh.List(coqCands, "(snap * bool)"),
			vh.List(classes, "N"), vh.List(order, "N"), final))
}

// ---- generators -------------------------------------------------------------------

func pick(r *vh.Rand, xs ...uint64) uint64 { return xs[r.Intn(len(xs))] }

func genSeq(c *vh.Ctx) Case {
	r := c.Rng
	cs := Case{Kind: "seq", Node: hex.EncodeToString(r.Bytes(32)), Number: uint64(r.Intn(5))}
	var base uint64
	switch r.Intn(10) {
	case 0, 1, 2: // a day boundary inside the window
		cs.Kind = "day"
		base = oneDay*uint64(19000+r.Intn(1000)) - pick(r, 0, 1, gap/2, gap-1, gap, gap+1)
	case 3: // start of time
		cs.Kind = "zero"
		base = uint64(r.Intn(3)) * gap / 2
	case 4: // the uint64 wrap region
		cs.Kind = "top"
		base = ^uint64(0) - pick(r, 0, 1, gap-1, gap, gap+1, 2*gap, 3*gap)
	default:
		base = 1700000000000000000 + r.U64()%1000000000000000
	}
	n := r.Range(1, 12)
	lo, hi, have := uint64(0), uint64(0), false
	hashPool := r.Range(3, 14)
	txPool := r.Range(2, 12)
	dirty := r.Chance(1, 4) // sequences that may hold snapshots the encoder refuses
	for i := 0; i < n; i++ {
		var ts uint64
		switch {
		case !have || r.Chance(1, 6):
			ts = base + pick(r, 0, 1, gap/3, gap/2, gap-1, gap, gap+1) - pick(r, 0, 0, 1, gap/2)
		case r.Chance(1, 2): // around the window edges the next candidate is measured against
			ts = lo + gap - pick(r, 0, 1, 2) + pick(r, 0, 1)
			if r.Bool() {
				ts = hi - gap + pick(r, 0, 1, 2) - pick(r, 0, 1)
			}
		case r.Chance(1, 3): // repeat or neighbour of an existing timestamp
			ts = pick(r, lo, hi) + pick(r, 0, 0, 1) - pick(r, 0, 1)
		default:
			ts = lo + r.U64()%(gap+gap/8) - pick(r, 0, gap/16)
		}
		sn := Snap{Ts: ts, Version: common.SnapshotVersionCommonEncoding, Round: cs.Number, Add: !r.Chance(1, 8)}
		if r.Chance(1, 60) {
			sn.Round = cs.Number + 1
		}
		switch {
		case r.Chance(1, 80):
			sn.Hash = small(0)
		case r.Chance(1, 6):
			sn.Hash = hex.EncodeToString(r.Bytes(32))
		default:
			sn.Hash = small(uint64(1 + r.Intn(hashPool)))
		}
		if dirty {
			sn.Version = uint8(pick(r, 2, 2, 2, 2, 0, 1, 3))
		}
		for k := pick(r, 1, 1, 1, 2, 2, 3); k > 0; k-- {
			t := small(uint64(1000 + r.Intn(txPool)))
			if r.Chance(2, 3) {
				t = small(uint64(2000 + 10*i + int(k))) // fresh
			}
			dup := false
			for _, u := range sn.Txs {
				dup = dup || u == t
			}
			if !dup || dirty {
				sn.Txs = append(sn.Txs, t)
			}
		}
		if dirty && r.Chance(1, 5) {
			sn.Txs = nil
		}
		cs.Cands = append(cs.Cands, sn)
		// the generator's own view of the window (not the oracle): assume accepted
		if !have {
			lo, hi, have = ts, ts, true
		} else if ts-lo < 2*gap || lo-ts < 2*gap {
			if ts < lo && hi-ts < gap {
				lo = ts
			} else if ts > hi && ts-lo < gap {
				hi = ts
			}
		}
	}
	return cs
}

func corpus() []Case {
	n := small(77)
	s := func(h, ts uint64, txs ...uint64) Snap {
		sn := Snap{Hash: small(h), Ts: ts, Version: 2, Round: 3, Add: true}
		for _, t := range txs {
			sn.Txs = append(sn.Txs, small(t))
		}
		if len(txs) == 0 {
			sn.Txs = []string{small(5000 + h)}
		}
		return sn
	}
	b := uint64(1700000000000000000)
	day := oneDay * 19700
	top := ^uint64(0)
	return []Case{
		{Kind: "corpus", Node: n, Number: 3, Cands: nil},
		{Kind: "corpus", Node: n, Number: 3, Cands: []Snap{s(1, b)}},
		{Kind: "corpus", Node: n, Number: 3, Cands: []Snap{s(1, b), s(2, b+gap-1), s(3, b+gap), s(4, b-1), s(5, b+1)}},
		{Kind: "corpus", Node: n, Number: 3, Cands: []Snap{s(1, b), s(2, b-gap+1), s(3, b-gap), s(4, b+1), s(5, b+2)}},
		{Kind: "corpus", Node: n, Number: 3, Cands: []Snap{s(1, b), s(1, b+1), s(2, b), s(3, b+2, 9), s(4, b+3, 9), s(5, b+4, 8, 9)}},
		{Kind: "corpus", Node: n, Number: 3, Cands: []Snap{s(1, day-1), s(2, day), s(3, day-2)}},
		{Kind: "corpus", Node: n, Number: 3, Cands: []Snap{s(1, day), s(2, day-1), s(3, day+gap-1), s(4, day+gap)}},
		{Kind: "corpus", Node: n, Number: 3, Cands: []Snap{s(1, 0), s(2, gap-1), s(3, gap)}},
		{Kind: "corpus", Node: n, Number: 3, Cands: []Snap{s(1, b), {Hash: small(2), Ts: b + 1, Round: 4, Add: true}}},
		{Kind: "corpus", Node: n, Number: 3, Cands: []Snap{s(1, b), {Hash: small(0), Ts: b + 1, Round: 3, Add: true}}},
		// the uint64 wrap region (outside the guard ts < 2^64-gap): first candidate is
		// accepted into the empty round, every later call and asFinal panic
		{Kind: "corpus", Node: n, Number: 3, Cands: []Snap{s(1, top)}},
		{Kind: "corpus", Node: n, Number: 3, Cands: []Snap{s(1, top-gap+1), s(2, top)}},
		{Kind: "corpus", Node: n, Number: 3, Cands: []Snap{s(1, top-gap), s(2, top-gap+1), s(3, top), s(4, top-1)}},
		{Kind: "corpus", Node: n, Number: 3, Cands: []Snap{s(1, top-gap), s(2, top-1), s(3, top), s(4, top-2*gap+1)}},
	}
}

var _ = big.NewInt

func main() {
	c := vh.Start("C19")
	c.Rep.Rule = "corpus of boundary sequences, then random sequences (1..12 candidates) offered to one real CacheRound: " +
		"timestamps placed at start+gap-{0,1,2}, end-gap+{0,1,2}, repeats/neighbours of accepted timestamps, bases at day " +
		"boundaries, at 0 and in the uint64 wrap region; hashes and transactions drawn from small pools so that they repeat; " +
		"occasional wrong round number / zero hash (documented panic) and validate-only calls. Non-trivial = at least two " +
		"candidates were accepted into the round; distinct by the whole sequence."
	if c.Replay != "" {
		var cs Case
		c.ReplayCase(&cs)
		run(c, cs)
		c.Finish()
		return
	}
	for _, cs := range corpus() {
		run(c, cs)
	}
	for _, cs := range stCorpus() {
		run(c, cs)
	}
	n := c.Scale(3000, 100000)
	for i := 0; i < n; i++ {
		run(c, genSeq(c))
	}
	n = c.Scale(400, 15000)
	for i := 0; i < n; i++ {
		run(c, genStateful(c))
	}
	c.Finish()
}
