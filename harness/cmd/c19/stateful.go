// Stateful interleavings for C19: several proposals are validated, added and
// re-validated on ONE live round object and on Copy()s of it (which share the
// round index), through the exported CacheRound.ValidateSnapshot (the entry point
// of the cosi handlers), through validateSnapshot and through the
// validate-then-add sequence of cosiHandleFinalization / Chain.AddSnapshot.
//
// Oracle (property text, recomputed from the round's content at every call, no
// memory of earlier verdicts): a call that answers "admissible" (nil) for a
// snapshot s on a round R is wrong when R with s would hold a duplicate hash,
// timestamp or transaction, leap a day or span a full round gap; a snapshot the
// exported ValidateSnapshot admitted must be accepted by the add that follows;
// after every accepted add the round satisfies the invariant and closes.
package main

import (
	"encoding/hex"
	"fmt"

	"github.com/MixinNetwork/mixin/common"
	"github.com/MixinNetwork/mixin/kernel"
	"verifharness/vh"
)

// Op kinds: "val" exported ValidateSnapshot(snaps[B]) on slot A; "valu"
// validateSnapshot(s,false); "addu" validateSnapshot(s,true) (+ index.Store when
// accepted); "add" ValidateSnapshot, then validateSnapshot(s,true) and index.Store
// when it passed; "copy" slots[B] = slots[A].Copy(); "drop" remove the member with
// snaps[B]'s hash from slot A (a round object built from a shorter slice).
type Op struct {
	K string `json:"k"`
	A int    `json:"a"`
	B int    `json:"b"`
}

func coqOp(o Op) string {
	a, b := vh.NU(uint64(o.A)), vh.NU(uint64(o.B))
	switch o.K {
	case "val":
		return vh.App("OVal", a, b)
	case "valu":
		return vh.App("OValU", a, b, "false")
	case "addu":
		return vh.App("OValU", a, b, "true")
	case "add":
		return vh.App("OAdd", a, b)
	case "copy":
		return vh.App("OCopy", a, b)
	case "drop":
		return vh.App("ODrop", a, b)
	}
	panic("bad op " + o.K)
}

func mkSnapshot(cs Case, sn Snap) *common.Snapshot {
	s := &common.Snapshot{Version: sn.Version, NodeId: h32(cs.Node), RoundNumber: sn.Round, Timestamp: sn.Ts, Hash: h32(sn.Hash)}
	for _, t := range sn.Txs {
		s.Transactions = append(s.Transactions, h32(t))
	}
	return s
}

func runStateful(c *vh.Ctx, cs Case) {
	node := h32(cs.Node)
	nslots := cs.Slots
	if nslots < 1 {
		nslots = 1
	}
	slots := make([]*kernel.CacheRound, nslots)
	slots[0] = kernel.VerifC19NewCacheRound(node, cs.Number)
	for i := 1; i < nslots; i++ {
		slots[i] = slots[0].Copy() // every object of the case shares the live round's index
	}
	snaps := make([]*common.Snapshot, len(cs.Cands))
	coqSnaps := make([]string, len(cs.Cands))
	guarded, wellformed := true, true
	for i, sn := range cs.Cands {
		snaps[i] = mkSnapshot(cs, sn)
		coqSnaps[i] = coqSnap(sn)
		if sn.Ts >= ^uint64(0)-gap+1 {
			guarded = false
		}
		// a member the common encoding cannot encode makes the duplicate-transaction
		// error message panic (it evaluates the member's PayloadHash)
		if nt := len(sn.Txs); sn.Version != common.SnapshotVersionCommonEncoding || nt < 1 ||
			nt > common.SnapshotTransactionsMaximum || (sn.Round == 0 && nt != 1) {
			wellformed = false
		}
		for k, a := range sn.Txs {
			for _, b := range sn.Txs[:k] {
				if a == b {
					wellformed = false
				}
			}
		}
	}
	// the oracle's verdict for "snapshot s is admissible on round r"
	admits := func(r *kernel.CacheRound, s *common.Snapshot) string {
		with := append(append([]*common.Snapshot{}, r.Snapshots...), s)
		return invariant(with)
	}
	var coqOps, classes []string
	accepted, revalidated, flips := 0, false, 0
	seen := map[string]int{} // slot/snapshot -> last verdict class + 1
	for _, o := range cs.Ops {
		if o.A < 0 || o.A >= nslots || o.B < 0 || (o.K == "copy" && o.B >= nslots) || (o.K != "copy" && o.B >= len(snaps)) {
			panic(fmt.Sprintf("malformed op %v", o))
		}
		coqOps = append(coqOps, coqOp(o))
		r := slots[o.A]
		class := "0"
		switch o.K {
		case "copy":
			slots[o.B] = r.Copy()
			if !slots[o.B].VerifC19SharesIndex(r) {
				c.Fail("copy-splits-index", "Copy() of a live round does not share its round index", cs)
			}
		case "drop":
			var keep []*common.Snapshot
			for _, m := range r.Snapshots {
				if m.Hash != snaps[o.B].Hash {
					keep = append(keep, m)
				}
			}
			r.Snapshots = keep
		default:
			s := snaps[o.B]
			before := content(r.Snapshots)
			healthy := invariant(r.Snapshots) == ""
			why := admits(r, s)
			var err, err2 error
			added := false
			pan, _ := vh.Catch(func() {
				switch o.K {
				case "val":
					err = r.ValidateSnapshot(s)
				case "valu":
					err = r.VerifC19Validate(s, false)
				case "addu":
					err = r.VerifC19Validate(s, true)
					added = err == nil
				case "add":
					if err = r.ValidateSnapshot(s); err == nil {
						err2 = r.VerifC19Validate(s, true)
						added = err2 == nil
					}
				default:
					panic("bad op " + o.K)
				}
			})
			switch {
			case pan:
				class = "2"
			case err != nil:
				class = "1"
			case err2 != nil:
				class = "3"
			}
			if pan {
				if s.RoundNumber == cs.Number && s.Hash.HasValue() && guarded {
					c.Fail("validate-panics", "validating a well-formed snapshot on a well-formed live round panicked", cs)
				}
				break
			}
			key := fmt.Sprintf("%d/%d", o.A, o.B)
			if prev, ok := seen[key]; ok {
				revalidated = true
				if prev != int(class[0]) {
					flips++
				}
			}
			seen[key] = int(class[0])
			if err == nil && healthy && guarded && why != "" {
				c.Fail("admits-"+why, "a snapshot was declared admissible ("+o.K+") although the live round with it would violate: "+why, cs)
			}
			if err2 != nil {
				c.Fail("add-refused-after-validate", "ValidateSnapshot passed a snapshot that validateSnapshot(s,true) refuses: Chain.AddSnapshot would panic after persisting it", cs)
			}
			if !added {
				if content(r.Snapshots) != before {
					c.Fail("reject-changes-round", "a rejected (or only validated) candidate changed the round's content", cs)
				}
				break
			}
			r.VerifC19IndexStore(s.Hash)
			accepted++
			if why := invariant(r.Snapshots); why != "" {
				c.Fail(why, "after an accept the live round violates: "+why, cs)
			}
			if !r.VerifC19IndexCheck(s.Hash) {
				c.Fail("index-lost", "the round index does not hold a snapshot just stored", cs)
			}
			cp := r.Copy()
			if p2, _ := vh.Catch(func() { cp.VerifC19AsFinal() }); p2 && guarded {
				c.Fail("close-panics", "asFinal panicked on an accepted round", cs)
			}
		}
		classes = append(classes, class)
		if class == "2" {
			break
		}
	}
	orders := make([]string, nslots)
	for i, r := range slots {
		hs := make([]string, len(r.Snapshots))
		for j, s := range r.Snapshots {
			hs[j] = num32(s.Hash[:])
		}
		orders[i] = vh.List(hs, "N")
		if why := invariant(r.Snapshots); why != "" && guarded {
			c.Fail(why, "a round object violates at the end of the interleaving: "+why, cs)
		}
	}
	kind := cs.Kind
	if flips > 0 {
		kind += "-flip" // some snapshot's verdict on one object changed between two calls
	}
	if !guarded {
		kind += "-wrap"
	}
	if !wellformed {
		kind += "-unencodable"
	}
	c.Case(kind, fmt.Sprintf("%v", cs), accepted >= 2 && revalidated, cs,
		vh.App("CSt", num32(node[:]), vh.NU(cs.Number), vh.List(coqSnaps, "snap"), vh.NU(uint64(nslots)),
			vh.List(coqOps, "op"), vh.List(classes, "N"), vh.List(orders, "(list N)")))
}

// ---- corpus ---------------------------------------------------------------------

func stCorpus() []Case {
	n := small(78)
	s := func(h, ts uint64, txs ...uint64) Snap {
		sn := Snap{Hash: small(h), Ts: ts, Version: 2, Round: 5}
		for _, t := range txs {
			sn.Txs = append(sn.Txs, small(t))
		}
		return sn
	}
	base := 400*oneDay - 10_000_000_000 // a few seconds before a day boundary
	b2 := uint64(1700000000000000000)
	// snapshot table: 0 = first member, 1 = B (early), 2 = A (rival)
	conflicts := map[string][]Snap{
		"gap":     {s(1, base, 10), s(2, base+gap-1, 11), s(3, base-5, 12)},
		"gap-lo":  {s(1, b2, 10), s(2, b2-gap+1, 11), s(3, b2+1, 12)},
		"tx":      {s(1, base, 10), s(2, base+gap/3, 11, 99), s(3, base+gap/2, 99, 12)},
		"ts":      {s(1, base, 10), s(2, base+gap/3, 11), s(3, base+gap/3, 12)},
		"hash":    {s(1, base, 10), s(2, base+gap/3, 11), s(2, base+gap/2, 12)},
		"control": {s(1, base, 10), s(2, base+gap/3, 11), s(3, base+gap/2, 12)},
		"edge-ok": {s(1, b2, 10), s(2, b2+gap-1, 11), s(3, b2+1, 12)},
	}
	order := []string{"gap", "gap-lo", "tx", "ts", "hash", "control", "edge-ok"}
	var out []Case
	for _, name := range order {
		tab := conflicts[name]
		mk := func(shape string, slots int, ops ...Op) {
			out = append(out, Case{Kind: "st-corpus", Node: n, Number: 5, Cands: tab, Slots: slots, Ops: ops})
			_ = shape
		}
		// same object: validate B, validate and add A, re-validate B, try to add B
		mk("same", 1, Op{"add", 0, 0}, Op{"val", 0, 1}, Op{"val", 0, 2}, Op{"add", 0, 2}, Op{"val", 0, 1}, Op{"add", 0, 1}, Op{"val", 0, 2})
		// the cosi handlers: every step on a fresh Copy() of the live round; the copy that added is published
		mk("copies", 3, Op{"copy", 0, 1}, Op{"add", 1, 0}, Op{"copy", 1, 0},
			Op{"copy", 0, 1}, Op{"val", 1, 1}, Op{"copy", 0, 1}, Op{"val", 1, 2},
			Op{"copy", 0, 2}, // a copy taken before A is added
			Op{"copy", 0, 1}, Op{"add", 1, 2}, Op{"copy", 1, 0},
			Op{"copy", 0, 1}, Op{"val", 1, 1}, // a copy taken after
			Op{"val", 2, 1}, // the copy taken before: B is still compatible with it
			Op{"val", 0, 1}, Op{"copy", 0, 1}, Op{"add", 1, 1}, Op{"copy", 0, 1}, Op{"val", 1, 2})
		// repeated validation around additions and removals
		mk("repeat", 2, Op{"add", 0, 0}, Op{"val", 0, 1}, Op{"val", 0, 1}, Op{"val", 0, 1}, Op{"valu", 0, 1},
			Op{"add", 0, 2}, Op{"val", 0, 1}, Op{"val", 0, 1}, Op{"valu", 0, 1},
			Op{"copy", 0, 1}, Op{"drop", 1, 2}, Op{"val", 1, 1}, Op{"val", 0, 1}, Op{"add", 1, 1},
			Op{"val", 1, 2}, Op{"val", 0, 2}, Op{"val", 1, 1}, Op{"drop", 1, 1}, Op{"val", 1, 2}, Op{"add", 1, 2}, Op{"val", 1, 1})
		// the unexported path only (no exported wrapper in between)
		mk("inner", 1, Op{"addu", 0, 0}, Op{"valu", 0, 1}, Op{"addu", 0, 2}, Op{"valu", 0, 1}, Op{"addu", 0, 1})
	}
	return out
}

// ---- generator ------------------------------------------------------------------

func genStateful(c *vh.Ctx) Case {
	r := c.Rng
	cs := Case{Kind: "st", Node: hex.EncodeToString(r.Bytes(32)), Number: uint64(r.Intn(5)), Slots: 4}
	single := cs.Number == 0 // a snapshot of round 0 carries exactly one transaction
	var base uint64
	if r.Chance(1, 3) { // day boundary within reach
		cs.Kind = "st-day"
		base = oneDay*uint64(19000+r.Intn(1000)) - pick(r, 1, 5, gap/2, gap-1, gap, gap+1, 3*gap)
	} else {
		base = 1700000000000000000 + r.U64()%1000000000000000
	}
	txn := uint64(100)
	fresh := func() string { txn++; return small(txn) }
	mk := func(h int, ts uint64, txs ...string) int {
		sn := Snap{Hash: small(uint64(h)), Ts: ts, Version: common.SnapshotVersionCommonEncoding, Round: cs.Number, Txs: txs}
		if len(txs) == 0 {
			sn.Txs = []string{fresh()}
		}
		if r.Chance(1, 3) {
			sn.Txs = append(sn.Txs, fresh())
		}
		if single {
			sn.Txs = sn.Txs[len(sn.Txs)-1:]
			if len(txs) > 0 {
				sn.Txs = txs[len(txs)-1:]
			}
		}
		cs.Cands = append(cs.Cands, sn)
		return len(cs.Cands) - 1
	}
	op := func(k string, a, b int) { cs.Ops = append(cs.Ops, Op{k, a, b}) }
	// how a snapshot is added to the live round (slot 0)
	add := func(i int) {
		switch r.Intn(4) {
		case 0:
			op("add", 0, i)
		case 1:
			op("addu", 0, i)
		default: // on a copy, then published
			op("copy", 0, 3)
			op("add", 3, i)
			op("copy", 3, 0)
		}
	}
	// how a snapshot is validated against the live round
	val := func(i int) {
		switch r.Intn(5) {
		case 0:
			op("valu", 0, i)
		case 1, 2:
			op("val", 0, i)
		default:
			op("copy", 0, 3)
			op("val", 3, i)
		}
	}
	// members already in the round, inside [base, base+w]
	w := pick(r, 0, 1, gap/4, gap/2, gap-2)
	members := r.Intn(3)
	lo, hi := base, base
	for m := 0; m < members; m++ {
		ts := base
		if m == 1 {
			ts = base + w
			hi = ts
		} else if m == 2 {
			ts = base + w/2 + 1
			hi = max(hi, ts)
		}
		add(mk(1+m, ts))
	}
	// the early proposal B: at an edge of what the round tolerates, or inside
	var tb uint64
	switch r.Intn(4) {
	case 0:
		tb = lo + gap - 1 - pick(r, 0, 1, gap/8)
	case 1:
		tb = hi - gap + 1 + pick(r, 0, 1, gap/8)
	case 2:
		tb = lo + w/2 + pick(r, 2, 3, gap/16)
	default:
		tb = hi + pick(r, 1, 2, gap/4)
	}
	shared := fresh()
	b := mk(10, tb, fresh(), shared)
	// the rival A: conflicting with B or not
	var a int
	conflict := r.Intn(6)
	switch conflict {
	case 0: // together they span a full gap (each one alone fits the round)
		ta := tb - gap + pick(r, 0, 0, 1) - pick(r, 0, 1, 2)
		if tb < lo+gap/2 {
			ta = tb + gap - pick(r, 0, 0, 1) + pick(r, 0, 1, 2)
		}
		a = mk(11, ta)
	case 1: // shared transaction
		a = mk(11, tb+pick(r, 1, 2, gap/8)-pick(r, 0, 3), shared)
	case 2: // equal timestamp
		a = mk(11, tb)
	case 3: // equal hash, different content
		a = mk(10, tb+pick(r, 1, gap/8))
	default: // control: compatible with B
		a = mk(11, tb+pick(r, 1, 2, gap/8)-pick(r, 0, 3))
	}
	val(b)
	if r.Bool() {
		val(a)
	}
	if r.Bool() {
		val(b)
	}
	op("copy", 0, 1) // a copy taken before the rival is added
	add(a)
	op("copy", 0, 2) // and one taken after
	for k := r.Range(1, 4); k > 0; k-- {
		switch r.Intn(5) {
		case 0:
			op("val", 1, b)
		case 1:
			op("val", 2, b)
		case 2:
			op("valu", 0, b)
		default:
			val(b)
		}
	}
	add(b)
	val(a)
	// random tail: removals, repeated validations, further proposals
	extra := []int{a, b}
	for k := r.Intn(3); k > 0; k-- {
		extra = append(extra, mk(20+k, lo+r.U64()%(gap+gap/8)-pick(r, 0, gap/16)))
	}
	for k := r.Intn(7); k > 0; k-- {
		i := extra[r.Intn(len(extra))]
		slot := r.Intn(3)
		switch r.Intn(8) {
		case 0:
			op("drop", slot, extra[r.Intn(2)])
		case 1:
			op("copy", slot, r.Intn(3))
		case 2:
			op("add", slot, i)
		case 3:
			op("addu", slot, i)
		case 4:
			op("valu", slot, i)
		default:
			op("val", slot, i)
		}
	}
	return cs
}
