// C22 harness: see cmd/c21/crashlib (machinery shared with C21).
package main

import (
	"os"

	"verifharness/cmd/c21/crashlib"
)

func main() {
	if len(os.Args) > 1 {
		switch os.Args[1] {
		case "child-run":
			crashlib.ChildRun(os.Args[2:])
			return
		case "child-conc":
			crashlib.ChildConc(os.Args[2:])
			return
		case "child-recover":
			crashlib.ChildRecover(os.Args[2:])
			return
		}
	}
	crashlib.Main("C22")
}
