// C06 harness: transaction encoding is canonical and its hash is
// content-addressed.  Runs common.UnmarshalVersionedTransaction, Encoder.
// EncodeTransaction, VersionedTransaction.Marshal / PayloadMarshal / PayloadHash
// on structured transactions, arbitrary byte strings, byte mutations,
// truncations, extensions and hand-made non-canonical encodings; emits every
// observation as a Coq case for the model (coq/Run/C06.v) and checks the
// implementation directly against the property text (the oracle).
package main

import (
	"bytes"
	"crypto/sha256"
	"encoding/binary"
	"encoding/hex"
	"encoding/json"
	"fmt"
	"math/big"
	"sort"
	"strings"

	"github.com/MixinNetwork/mixin/common"
	"github.com/MixinNetwork/mixin/crypto"
	"github.com/zeebo/blake3"
	"verifharness/vh"
)

// ---- canonical JSON form of a transaction value --------------------------------

type DepJ struct {
	Chain    string `json:"chain"`
	AssetKey string `json:"asset_key"` // hex
	Tx       string `json:"tx"`        // hex
	Index    uint64 `json:"index"`
	Amount   string `json:"amount"` // decimal units
}
type MintJ struct {
	Group  string `json:"group"` // hex
	Batch  uint64 `json:"batch"`
	Amount string `json:"amount"`
}
type InJ struct {
	Hash    string `json:"hash"`
	Index   uint64 `json:"index"`
	Genesis string `json:"genesis,omitempty"`
	Dep     *DepJ  `json:"deposit,omitempty"`
	Mint    *MintJ `json:"mint,omitempty"`
}
type WdJ struct {
	Address string `json:"address"`
	Tag     string `json:"tag"`
}
type OutJ struct {
	Type   uint8    `json:"type"`
	Amount string   `json:"amount"`
	Keys   []string `json:"keys,omitempty"`
	Mask   string   `json:"mask"`
	Script string   `json:"script,omitempty"`
	Wd     *WdJ     `json:"withdrawal,omitempty"`
}
type EntJ struct {
	I uint16 `json:"i"`
	S string `json:"s"`
}
type AggJ struct {
	Sig     string `json:"sig"`
	Signers []int  `json:"signers"`
}
type TxJ struct {
	Version uint8    `json:"version"`
	Asset   string   `json:"asset"`
	Ins     []InJ    `json:"inputs,omitempty"`
	Outs    []OutJ   `json:"outputs,omitempty"`
	Refs    []string `json:"refs,omitempty"`
	Extra   string   `json:"extra,omitempty"`
	Maps    [][]EntJ `json:"maps,omitempty"`
	Agg     *AggJ    `json:"agg,omitempty"`
}

type Case struct {
	Op   string `json:"op"`             // unmarshal | tx | pair
	Kind string `json:"kind"`           // generator label
	Hex  string `json:"hex,omitempty"`  // unmarshal: the byte string
	Tx   *TxJ   `json:"tx,omitempty"`   // tx / pair: the transaction value
	Tx2  *TxJ   `json:"tx2,omitempty"`  // pair: same payload except one field / other authorization
	Same bool   `json:"same,omitempty"` // pair: Tx2 has the same payload as Tx (only authorization differs)
	What string `json:"what,omitempty"` // pair: which field was changed
}

func unhex(s string) []byte {
	b, err := hex.DecodeString(s)
	if err != nil {
		panic(err)
	}
	return b
}
func hx(b []byte) string { return hex.EncodeToString(b) }

func h32(s string) (h crypto.Hash) {
	b := unhex(s)
	if len(b) != 32 {
		panic("hash length")
	}
	copy(h[:], b)
	return
}
func k32(s string) (k crypto.Key) {
	b := unhex(s)
	if len(b) != 32 {
		panic("key length")
	}
	copy(k[:], b)
	return
}
func s64(s string) (g crypto.Signature) {
	b := unhex(s)
	if len(b) != 64 {
		panic("sig length")
	}
	copy(g[:], b)
	return
}
func bigOf(s string) *big.Int {
	v, ok := new(big.Int).SetString(s, 10)
	if !ok {
		panic("bad int " + s)
	}
	return v
}
func nilIfEmpty(b []byte) []byte {
	if len(b) == 0 {
		return nil
	}
	return b
}

// build makes the Go value described by j.
func build(j *TxJ) *common.VersionedTransaction {
	st := common.SignedTransaction{}
	st.Version = j.Version
	st.Asset = h32(j.Asset)
	for _, in := range j.Ins {
		x := &common.Input{Hash: h32(in.Hash), Index: uint(in.Index), Genesis: nilIfEmpty(unhex(in.Genesis))}
		if d := in.Dep; d != nil {
			x.Deposit = &common.DepositData{Chain: h32(d.Chain), AssetKey: string(unhex(d.AssetKey)),
				Transaction: string(unhex(d.Tx)), Index: d.Index, Amount: common.VerifIntegerFromBig(bigOf(d.Amount))}
		}
		if m := in.Mint; m != nil {
			x.Mint = &common.MintData{Group: string(unhex(m.Group)), Batch: m.Batch, Amount: common.VerifIntegerFromBig(bigOf(m.Amount))}
		}
		st.Inputs = append(st.Inputs, x)
	}
	for _, o := range j.Outs {
		x := &common.Output{Type: o.Type, Amount: common.VerifIntegerFromBig(bigOf(o.Amount)), Mask: k32(o.Mask),
			Script: common.Script(nilIfEmpty(unhex(o.Script)))}
		for _, k := range o.Keys {
			kk := k32(k)
			x.Keys = append(x.Keys, &kk)
		}
		if w := o.Wd; w != nil {
			x.Withdrawal = &common.WithdrawalData{Address: string(unhex(w.Address)), Tag: string(unhex(w.Tag))}
		}
		st.Outputs = append(st.Outputs, x)
	}
	for _, r := range j.Refs {
		st.References = append(st.References, h32(r))
	}
	st.Extra = nilIfEmpty(unhex(j.Extra))
	if j.Agg != nil {
		st.AggregatedSignature = &common.AggregatedSignature{Signature: s64(j.Agg.Sig), Signers: append([]int(nil), j.Agg.Signers...)}
	} else {
		for _, m := range j.Maps {
			sm := make(map[uint16]*crypto.Signature, len(m))
			for _, e := range m {
				g := s64(e.S)
				sm[e.I] = &g
			}
			st.SignaturesMap = append(st.SignaturesMap, sm)
		}
	}
	return &common.VersionedTransaction{SignedTransaction: st}
}

// project is the canonical projection of a Go value (signature maps sorted by index).
func project(ver *common.VersionedTransaction) *TxJ {
	j := &TxJ{Version: ver.Version, Asset: hx(ver.Asset[:]), Extra: hx(ver.Extra)}
	for _, in := range ver.Inputs {
		x := InJ{Hash: hx(in.Hash[:]), Index: uint64(in.Index), Genesis: hx(in.Genesis)}
		if d := in.Deposit; d != nil {
			x.Dep = &DepJ{Chain: hx(d.Chain[:]), AssetKey: hx([]byte(d.AssetKey)), Tx: hx([]byte(d.Transaction)),
				Index: d.Index, Amount: common.VerifIntegerBig(d.Amount).String()}
		}
		if m := in.Mint; m != nil {
			x.Mint = &MintJ{Group: hx([]byte(m.Group)), Batch: m.Batch, Amount: common.VerifIntegerBig(m.Amount).String()}
		}
		j.Ins = append(j.Ins, x)
	}
	for _, o := range ver.Outputs {
		x := OutJ{Type: o.Type, Amount: common.VerifIntegerBig(o.Amount).String(), Mask: hx(o.Mask[:]), Script: hx(o.Script)}
		for _, k := range o.Keys {
			x.Keys = append(x.Keys, hx(k[:]))
		}
		if w := o.Withdrawal; w != nil {
			x.Wd = &WdJ{Address: hx([]byte(w.Address)), Tag: hx([]byte(w.Tag))}
		}
		j.Outs = append(j.Outs, x)
	}
	for _, r := range ver.References {
		j.Refs = append(j.Refs, hx(r[:]))
	}
	if a := ver.AggregatedSignature; a != nil {
		j.Agg = &AggJ{Sig: hx(a.Signature[:]), Signers: append([]int{}, a.Signers...)}
	} else {
		for _, sm := range ver.SignaturesMap {
			m := []EntJ{}
			for i, g := range sm {
				m = append(m, EntJ{I: i, S: hx(g[:])})
			}
			sort.Slice(m, func(a, b int) bool { return m[a].I < m[b].I })
			j.Maps = append(j.Maps, m)
		}
	}
	return j
}

func payloadOnly(j *TxJ) *TxJ {
	c := *j
	c.Maps, c.Agg = nil, nil
	return &c
}

func canon(j *TxJ) string {
	c := *j
	// a map has no order: compare sorted
	c.Maps = nil
	for _, m := range j.Maps {
		mm := append([]EntJ{}, m...)
		sort.Slice(mm, func(a, b int) bool { return mm[a].I < mm[b].I })
		c.Maps = append(c.Maps, mm)
	}
	if c.Agg != nil && len(c.Agg.Signers) == 0 {
		c.Agg = &AggJ{Sig: c.Agg.Sig, Signers: []int{}}
	}
	b, _ := json.Marshal(&c)
	return string(b)
}

// ---- Coq printers -------------------------------------------------------------------

// Data in case terms is packed into primitive 63-bit integers (see coq/Run/C06.v):
// B len [words] is a byte string (seven bytes per word, big-endian), V len [words]
// the big-endian number of those bytes, n w a small number.
func pWords(b []byte) string {
	var sb strings.Builder
	sb.WriteString("[")
	for i := 0; i < len(b); i += 7 {
		if i > 0 {
			sb.WriteString(";")
		}
		var w uint64
		for k := i; k < i+7 && k < len(b); k++ {
			w = w<<8 | uint64(b[k])
		}
		fmt.Fprintf(&sb, "%d", w)
	}
	sb.WriteString("]")
	return sb.String()
}
func pB(b []byte) string { return fmt.Sprintf("(B %d %s)", len(b), pWords(b)) }
func pV(b []byte) string { return fmt.Sprintf("(V %d %s)", len(b), pWords(b)) }
func pn(v uint64) string {
	if v < 1<<62 {
		return fmt.Sprintf("(n %d)", v)
	}
	return pV(binary.BigEndian.AppendUint64(nil, v))
}
func cBytes(hexs string) string { return pB(unhex(hexs)) }
func cN(hexs string) string     { return pV(unhex(hexs)) }
func cDec(s string) string      { return pV(bigOf(s).Bytes()) }
func cOpt(t, v string) string {
	if v == "" {
		return vh.None(t)
	}
	return vh.Some(v)
}

func coqTx(j *TxJ) string {
	ins := []string{}
	for _, in := range j.Ins {
		d, m := "", ""
		if x := in.Dep; x != nil {
			d = vh.App("Build_deposit", cN(x.Chain), cBytes(x.AssetKey), cBytes(x.Tx), pn(x.Index), cDec(x.Amount))
		}
		if x := in.Mint; x != nil {
			m = vh.App("Build_mint", cBytes(x.Group), pn(x.Batch), cDec(x.Amount))
		}
		ins = append(ins, vh.App("Build_input", cN(in.Hash), pn(in.Index), cBytes(in.Genesis), cOpt("deposit", d), cOpt("mint", m)))
	}
	outs := []string{}
	for _, o := range j.Outs {
		ks := []string{}
		for _, k := range o.Keys {
			ks = append(ks, cN(k))
		}
		w := ""
		if x := o.Wd; x != nil {
			w = vh.App("Build_withdrawal", cBytes(x.Address), cBytes(x.Tag))
		}
		outs = append(outs, vh.App("Build_output", pn(uint64(o.Type)), cDec(o.Amount), vh.List(ks, "N"), cN(o.Mask), cBytes(o.Script), cOpt("withdrawal", w)))
	}
	refs := []string{}
	for _, r := range j.Refs {
		refs = append(refs, cN(r))
	}
	var au string
	if a := j.Agg; a != nil {
		ss := []string{}
		for _, s := range a.Signers {
			ss = append(ss, pn(uint64(s)))
		}
		au = vh.App("Aggregate", cN(a.Sig), vh.List(ss, "N"))
	} else {
		ms := []string{}
		for _, m := range j.Maps {
			es := []string{}
			for _, e := range m {
				es = append(es, "("+pn(uint64(e.I))+", "+cN(e.S)+")")
			}
			ms = append(ms, vh.List(es, "(N*N)"))
		}
		au = vh.App("SigMaps", vh.List(ms, "sigmap"))
	}
	return vh.App("Build_tx", pn(uint64(j.Version)), cN(j.Asset), vh.List(ins, "input"), vh.List(outs, "output"),
		vh.List(refs, "N"), cBytes(j.Extra), au)
}

func resBytes(pan bool, b []byte) string {
	if pan {
		return vh.Pan("bytes")
	}
	return vh.Ok(pB(b))
}

// resSame: like resBytes, but None when the bytes are those of ref
func resSame(pan bool, b []byte, refPan bool, ref []byte) string {
	if pan {
		return vh.Pan("(option bytes)")
	}
	if !refPan && bytes.Equal(b, ref) {
		return vh.Ok(vh.None("bytes"))
	}
	return vh.Ok(vh.Some(pB(b)))
}

// ---- running the implementation -------------------------------------------------------

// unmarshal runs the decoder: 0 = accepted, 1 = rejected, 2 = panicked.
func unmarshal(b []byte) (cls int, ver *common.VersionedTransaction) {
	var err error
	pan, _ := vh.Catch(func() { ver, err = common.UnmarshalVersionedTransaction(append([]byte(nil), b...)) })
	switch {
	case pan:
		return 2, nil
	case err != nil:
		return 1, nil
	}
	return 0, ver
}

func shortKey(parts ...string) string {
	h := sha256.Sum256([]byte(strings.Join(parts, "|")))
	return hx(h[:12])
}

const modelMaxBytes = 6000         // byte strings longer than this go to the oracle only
const boundaryModelMaxBytes = 9000 // ... except the byte-level boundary corpus (256/257 members)

// collisions: payload encoding -> canonical payload projection, over the whole run
var payloads = map[string]string{}

func notePayload(c *vh.Ctx, cs Case, enc []byte, proj *TxJ) {
	k := string(enc)
	p := canon(payloadOnly(proj))
	if old, ok := payloads[k]; ok && old != p {
		c.Fail("payload-collision", "two different payloads have the same payload encoding", cs)
	}
	if len(payloads) < 200000 {
		payloads[k] = p
	}
}

// runUnmarshal: one byte string through the decoder + the oracle on the result.
func runUnmarshal(c *vh.Ctx, cs Case) {
	b := unhex(cs.Hex)
	cls, ver := unmarshal(b)
	obs := vh.Err("tx")
	switch cls {
	case 0:
		obs = vh.Ok(coqTx(project(ver)))
	case 2:
		obs = vh.Pan("tx")
	}
	term := ""
	if len(b) <= modelMaxBytes || (strings.HasPrefix(cs.Kind, "boundary") && len(b) <= boundaryModelMaxBytes) {
		term = vh.App("CUnmarshal", pB(b), obs) + "%uint63"
	}
	nontrivial := cls == 0 || (len(b) > 36 && bytes.Equal(b[:4], []byte{0x77, 0x77, 0, common.TxVersionHashSignature}))
	c.Case(cs.Kind, shortKey("u", cs.Hex), nontrivial, cs, term)

	// ---- oracle (property text) ----
	if cls == 2 {
		c.Fail("decoder-panic", "the decoder panicked on a byte string", cs)
		return
	}
	if cls != 0 {
		return
	}
	// accepted bytes re-encode to exactly the same bytes
	var again []byte
	pan, _ := vh.Catch(func() { again = ver.Marshal() })
	if pan {
		c.Fail("reencode-panic", "re-encoding an accepted transaction panicked", cs)
		return
	}
	if !bytes.Equal(again, b) {
		c.Fail("accepted-not-canonical", fmt.Sprintf("accepted byte string (%d bytes) re-encodes to different bytes (%d bytes)", len(b), len(again)), cs)
		return
	}
	// a value re-built from the decoded fields encodes to the same bytes and decodes to the same fields
	p := project(ver)
	var enc2 []byte
	pan, _ = vh.Catch(func() { enc2 = build(p).Marshal() })
	if pan || !bytes.Equal(enc2, b) {
		c.Fail("decoded-fields-not-faithful", "the decoded fields do not encode back to the accepted bytes", cs)
		return
	}
	// hash: H(payload encoding), independent of the authorization data
	hashOracle(c, cs, ver, p)
	// the decoded transaction owns its data; so does the encoder's output
	ownershipOracle(c, cs, b)
}

// observation of a decoded transaction through fresh (uncached) wrappers that share
// all of its slices and pointers
type obsT struct {
	pan   bool
	mar   []byte
	pay   []byte
	hash  crypto.Hash
	canon string
}

func observe(ver *common.VersionedTransaction) (o obsT) {
	o.pan, _ = vh.Catch(func() {
		st := ver.SignedTransaction
		o.mar = append([]byte(nil), common.NewEncoder().EncodeTransaction(&st)...)
		v2 := &common.VersionedTransaction{SignedTransaction: ver.SignedTransaction}
		o.pay = append([]byte(nil), v2.PayloadMarshal()...)
		o.hash = v2.PayloadHash()
		o.canon = canon(project(ver))
	})
	return
}

func (a obsT) same(b obsT) bool {
	return a.pan == b.pan && bytes.Equal(a.mar, b.mar) && bytes.Equal(a.pay, b.pay) && a.hash == b.hash && a.canon == b.canon
}

// ownershipOracle: b was accepted.  Decode it from a scratch buffer, then reuse the
// buffer (zeros, 0xFF, another valid transaction of the same length decoded in place):
// the first transaction must still re-encode to exactly b, with the same payload
// encoding, hash and fields.  Conversely, writing into the decoded transaction's byte
// fields must not change the caller's buffer, and writing into Marshal's result must
// not change a second Marshal.
func ownershipOracle(c *vh.Ctx, cs Case, b []byte) {
	scratch := append([]byte(nil), b...)
	var ver *common.VersionedTransaction
	var err error
	pan, _ := vh.Catch(func() { ver, err = common.UnmarshalVersionedTransaction(scratch) })
	if pan || err != nil {
		c.Fail("decode-not-deterministic", "a byte string accepted once is refused when decoded again from a copy", cs)
		return
	}
	first := observe(ver)
	if first.pan || !bytes.Equal(first.mar, b) {
		c.Fail("accepted-not-canonical", "accepted byte string re-encodes to different bytes", cs)
		return
	}
	check := func(how string) bool {
		if now := observe(ver); !now.same(first) {
			what := "fields"
			switch {
			case now.pan:
				what = "re-encoding panics"
			case !bytes.Equal(now.mar, b):
				what = "it no longer re-encodes to the accepted bytes"
			case now.hash != first.hash:
				what = "its payload hash changed"
			}
			c.Fail("decoded-aliases-input", "after the caller reused its buffer ("+how+") the decoded transaction changed: "+what, cs)
			return false
		}
		return true
	}
	for i := range scratch {
		scratch[i] = 0
	}
	if !check("zeros") {
		return
	}
	for i := range scratch {
		scratch[i] = 0xff
	}
	if !check("0xFF") {
		return
	}
	// another valid transaction of the same length, decoded from the same buffer
	if n := len(b) - 48; n >= 0 && n <= common.ExtraSizeStorageCapacity {
		other := &TxJ{Version: common.TxVersionHashSignature, Asset: strings.Repeat("a5", 32), Extra: strings.Repeat("c3", n)}
		copy(scratch, write(other, variant{}))
		var ov *common.VersionedTransaction
		p2, _ := vh.Catch(func() { ov, err = common.UnmarshalVersionedTransaction(scratch) })
		if !check("another transaction received into the same buffer") {
			return
		}
		if !p2 && err == nil && !bytes.Equal(b, scratch) && ov.PayloadHash() == first.hash {
			c.Fail("decoded-aliases-input", "two different accepted byte strings decoded from one buffer have the same hash", cs)
			return
		}
	}
	// converse: the transaction's byte fields are not views of the caller's buffer
	copy(scratch, b)
	pan, _ = vh.Catch(func() { ver, err = common.UnmarshalVersionedTransaction(scratch) })
	if pan || err != nil {
		return
	}
	flip := func(x []byte) {
		for i := range x {
			x[i] ^= 0xff
		}
	}
	flip(ver.Extra)
	for _, in := range ver.Inputs {
		flip(in.Genesis)
		flip(in.Hash[:])
	}
	for _, o := range ver.Outputs {
		flip(o.Script)
		flip(o.Mask[:])
		for _, k := range o.Keys {
			flip(k[:])
		}
	}
	for i := range ver.References {
		flip(ver.References[i][:])
	}
	for _, sm := range ver.SignaturesMap {
		for _, g := range sm {
			flip(g[:])
		}
	}
	if a := ver.AggregatedSignature; a != nil {
		flip(a.Signature[:])
		for i := range a.Signers {
			a.Signers[i]++
		}
	}
	if !bytes.Equal(scratch, b) {
		c.Fail("input-aliased-by-decoded", "writing into the decoded transaction's fields changed the caller's buffer", cs)
		return
	}
	// the encoder's output is owned by the caller
	copy(scratch, b)
	pan, _ = vh.Catch(func() {
		ver, err = common.UnmarshalVersionedTransaction(scratch)
		m1 := ver.Marshal()
		flip(m1)
		if m2 := ver.Marshal(); !bytes.Equal(m2, b) {
			c.Fail("marshal-output-aliased", "writing into the bytes Marshal returned changed a second Marshal", cs)
		}
	})
	if pan {
		c.Fail("reencode-panic", "Marshal panicked on an accepted transaction", cs)
	}
}

func hashOracle(c *vh.Ctx, cs Case, ver *common.VersionedTransaction, p *TxJ) {
	var pm []byte
	var ph crypto.Hash
	pan, _ := vh.Catch(func() { pm = ver.PayloadMarshal(); ph = ver.PayloadHash() })
	if pan {
		c.Fail("payload-panic", "PayloadMarshal/PayloadHash panicked on a decodable transaction", cs)
		return
	}
	var bare []byte
	pan, _ = vh.Catch(func() { bare = build(payloadOnly(p)).Marshal() })
	if pan || !bytes.Equal(bare, pm) {
		c.Fail("payload-covers-auth", "the payload encoding is not the encoding of the transaction without authorization data", cs)
		return
	}
	want := blake3.Sum256(pm)
	if !bytes.Equal(want[:], ph[:]) {
		c.Fail("hash-not-of-payload", "PayloadHash is not the BLAKE3 digest of the payload encoding", cs)
	}
	cls, dv := unmarshal(pm)
	if cls != 0 {
		c.Fail("payload-not-decodable", "the payload encoding of an accepted transaction is refused by the decoder", cs)
		return
	}
	if canon(project(dv)) != canon(payloadOnly(p)) {
		c.Fail("payload-roundtrip", "decoding the payload encoding does not give the payload fields back", cs)
	}
	notePayload(c, cs, pm, p)
}

// structurally valid, in the words of the property: what the encoder itself
// accepts plus the decoder's count limits and the size cap.
func structurallyValid(j *TxJ) bool {
	if j.Version != common.TxVersionHashSignature {
		return false
	}
	if len(j.Ins) > common.SliceCountLimit || len(j.Outs) > common.SliceCountLimit || len(j.Refs) > common.SliceCountLimit {
		return false
	}
	small := func(hexs string) bool { return len(hexs)/2 <= common.MaximumEncodingInt }
	amt := func(s string) bool { return (bigOf(s).BitLen()+7)/8 <= common.MaximumEncodingInt }
	for _, in := range j.Ins {
		if in.Index > common.InputIndexLimit || !small(in.Genesis) {
			return false
		}
		if d := in.Dep; d != nil && (!small(d.AssetKey) || !small(d.Tx) || !amt(d.Amount)) {
			return false
		}
		if m := in.Mint; m != nil && (!small(m.Group) || !amt(m.Amount)) {
			return false
		}
	}
	for _, o := range j.Outs {
		if len(o.Keys) > common.SliceCountLimit || !small(o.Script) || !amt(o.Amount) {
			return false
		}
		if w := o.Wd; w != nil && (!small(w.Address) || !small(w.Tag)) {
			return false
		}
	}
	if len(j.Extra)/2 > common.ExtraSizeStorageCapacity {
		return false
	}
	if a := j.Agg; a != nil {
		prev := -1
		for _, s := range a.Signers {
			if s <= prev || s > common.MaximumEncodingInt {
				return false
			}
			prev = s
		}
	} else {
		if len(j.Maps) > common.SliceCountLimit {
			return false
		}
		for _, m := range j.Maps {
			seen := map[uint16]bool{}
			for _, e := range m {
				if seen[e.I] {
					return false // not a map
				}
				seen[e.I] = true
			}
		}
	}
	return true
}

func mapsWellFormed(j *TxJ) bool {
	for _, m := range j.Maps {
		seen := map[uint16]bool{}
		for _, e := range m {
			if seen[e.I] {
				return false
			}
			seen[e.I] = true
		}
	}
	return true
}

// runTx: a transaction value through the encoders; returns Marshal's bytes (nil if it panicked).
func runTx(c *vh.Ctx, cs Case) []byte {
	j := cs.Tx
	if !mapsWellFormed(j) {
		panic("generator produced a signature map with a repeated index")
	}
	var raw, mar, pay []byte
	var ph crypto.Hash
	pRaw, _ := vh.Catch(func() { st := build(j).SignedTransaction; raw = common.NewEncoder().EncodeTransaction(&st) })
	pMar, _ := vh.Catch(func() { mar = build(j).Marshal() })
	v := build(j)
	pPay, _ := vh.Catch(func() { pay = v.PayloadMarshal() })
	pHash, _ := vh.Catch(func() { ph = v.PayloadHash() })
	term := ""
	if len(raw) <= modelMaxBytes {
		term = vh.App("CEncode", coqTx(j), resBytes(pRaw, raw), resSame(pMar, mar, pRaw, raw), resSame(pPay, pay, pRaw, raw)) + "%uint63"
	}
	js, _ := json.Marshal(j)
	c.Case(cs.Kind, shortKey("t", string(js)), !pMar, cs, term)

	// ---- oracle ----
	valid := structurallyValid(j)
	size := len(raw)
	if valid && !pRaw && size <= 4*1024*1024 {
		if pMar || pPay || pHash {
			c.Fail("encode-panics-on-valid", "encoding a structurally valid transaction panicked", cs)
			return nil
		}
		cls, dv := unmarshal(mar)
		if cls != 0 {
			c.Fail("roundtrip-reject", "the encoding of a structurally valid transaction is refused by the decoder", cs)
			return mar
		}
		if canon(project(dv)) != canon(j) {
			c.Fail("roundtrip-mismatch", "encode then decode does not return an equal transaction", cs)
			return mar
		}
		var again []byte
		pan, _ := vh.Catch(func() { again = dv.Marshal() })
		if pan || !bytes.Equal(again, mar) {
			c.Fail("accepted-not-canonical", "decoded transaction re-encodes to different bytes", cs)
		}
		// hash = H(payload encoding), payload encoding = encoding without authorization
		want := blake3.Sum256(pay)
		if !bytes.Equal(want[:], ph[:]) {
			c.Fail("hash-not-of-payload", "PayloadHash is not the BLAKE3 digest of the payload encoding", cs)
		}
		var bare []byte
		pan, _ = vh.Catch(func() { bare = build(payloadOnly(j)).Marshal() })
		if pan || !bytes.Equal(bare, pay) {
			c.Fail("payload-covers-auth", "the payload encoding differs from the encoding of the transaction without authorization data", cs)
		}
		notePayload(c, cs, pay, j)
	}
	if !pMar {
		// whatever Marshal returns must be accepted by the decoder and canonical
		cls, dv := unmarshal(mar)
		if cls != 0 {
			c.Fail("marshal-not-decodable", "Marshal returned bytes the decoder refuses", cs)
		} else if canon(project(dv)) != canon(j) {
			c.Fail("roundtrip-mismatch", "encode then decode does not return an equal transaction", cs)
		}
		return mar
	}
	return nil
}

// runPair: two transaction values; same payload (different authorization) must
// hash equally, payloads differing in one field must encode and hash differently.
func runPair(c *vh.Ctx, cs Case) {
	var e1, e2 []byte
	var h1, h2 crypto.Hash
	p1, _ := vh.Catch(func() { v := build(cs.Tx); e1 = v.PayloadMarshal(); h1 = v.PayloadHash() })
	p2, _ := vh.Catch(func() { v := build(cs.Tx2); e2 = v.PayloadMarshal(); h2 = v.PayloadHash() })
	j1, _ := json.Marshal(cs.Tx)
	j2, _ := json.Marshal(cs.Tx2)
	c.Case(cs.Kind, shortKey("p", string(j1), string(j2)), !p1 && !p2, cs, "")
	if p1 || p2 {
		if structurallyValid(cs.Tx) && structurallyValid(cs.Tx2) {
			c.Fail("encode-panics-on-valid", "PayloadMarshal/PayloadHash panicked on a structurally valid transaction", cs)
		}
		return
	}
	if cs.Same {
		if !bytes.Equal(e1, e2) || h1 != h2 {
			c.Fail("hash-depends-on-auth", "two transactions differing only in authorization data ("+cs.What+") have different payload encodings or hashes", cs)
		}
		return
	}
	if bytes.Equal(e1, e2) {
		c.Fail("payload-collision", "two transactions with different payloads ("+cs.What+") have the same payload encoding", cs)
	} else if h1 == h2 {
		c.Fail("payload-field-not-hashed", "changing a payload field ("+cs.What+") does not change the hash", cs)
	}
}

func run(c *vh.Ctx, cs Case) {
	switch cs.Op {
	case "unmarshal":
		runUnmarshal(c, cs)
	case "tx":
		runTx(c, cs)
	case "pair":
		runPair(c, cs)
	default:
		panic("unknown op " + cs.Op)
	}
}

// ---- an independent writer, used only to MAKE byte strings (valid and deliberately
// non-canonical ones); it is never used as an oracle -------------------------------

type variant struct {
	unsortedKeys  bool   // signature-map entries in the given (unsorted) order
	forceSparse   bool   // aggregated signers in sparse form regardless of density
	forceOrdinary bool   // aggregated signers as a mask regardless of density
	trailingZero  int    // extra zero bytes after the mask
	dupEntry      bool   // repeat the first entry of each signature map
	padInteger    bool   // amounts with a leading zero byte
	amountRaw     []byte // if non-nil: the length-prefixed bytes written for every amount
	mapCount      int    // if > 0: the declared number of signature maps
}

type wr struct {
	b         []byte
	amountRaw []byte
}

func (w *wr) u16(v int)    { w.b = binary.BigEndian.AppendUint16(w.b, uint16(v)) }
func (w *wr) u32(v int)    { w.b = binary.BigEndian.AppendUint32(w.b, uint32(v)) }
func (w *wr) u64(v uint64) { w.b = binary.BigEndian.AppendUint64(w.b, v) }
func (w *wr) raw(b []byte) { w.b = append(w.b, b...) }
func (w *wr) lp(b []byte)  { w.u16(len(b)); w.raw(b) }
func (w *wr) integer(s string, pad bool) {
	if w.amountRaw != nil {
		w.lp(w.amountRaw)
		return
	}
	b := bigOf(s).Bytes()
	if pad {
		b = append([]byte{0}, b...)
	}
	w.lp(b)
}

func write(j *TxJ, v variant) []byte {
	w := &wr{amountRaw: v.amountRaw}
	w.raw([]byte{0x77, 0x77, 0, j.Version})
	w.raw(unhex(j.Asset))
	w.u16(len(j.Ins))
	for _, in := range j.Ins {
		w.raw(unhex(in.Hash))
		w.u16(int(in.Index))
		w.lp(unhex(in.Genesis))
		if d := in.Dep; d != nil {
			w.raw([]byte{0x77, 0x77})
			w.raw(unhex(d.Chain))
			w.lp(unhex(d.AssetKey))
			w.lp(unhex(d.Tx))
			w.u64(d.Index)
			w.integer(d.Amount, v.padInteger)
		} else {
			w.raw([]byte{0, 0})
		}
		if m := in.Mint; m != nil {
			w.raw([]byte{0x77, 0x77})
			w.lp(unhex(m.Group))
			w.u64(m.Batch)
			w.integer(m.Amount, v.padInteger)
		} else {
			w.raw([]byte{0, 0})
		}
	}
	w.u16(len(j.Outs))
	for _, o := range j.Outs {
		w.raw([]byte{0, o.Type})
		w.integer(o.Amount, v.padInteger)
		w.u16(len(o.Keys))
		for _, k := range o.Keys {
			w.raw(unhex(k))
		}
		w.raw(unhex(o.Mask))
		w.lp(unhex(o.Script))
		if x := o.Wd; x != nil {
			w.raw([]byte{0x77, 0x77})
			w.lp(unhex(x.Address))
			w.lp(unhex(x.Tag))
		} else {
			w.raw([]byte{0, 0})
		}
	}
	w.u16(len(j.Refs))
	for _, r := range j.Refs {
		w.raw(unhex(r))
	}
	w.u32(len(j.Extra) / 2)
	w.raw(unhex(j.Extra))
	if a := j.Agg; a != nil {
		w.u16(0xffff)
		w.u16(0xff01)
		w.raw(unhex(a.Sig))
		mx := 0
		for _, s := range a.Signers {
			if s > mx {
				mx = s
			}
		}
		sparse := len(a.Signers) > 0 && mx/8+1 > 2*len(a.Signers)
		if v.forceSparse {
			sparse = true
		}
		if v.forceOrdinary {
			sparse = false
		}
		if sparse {
			w.raw([]byte{1})
			w.u16(len(a.Signers))
			for _, s := range a.Signers {
				w.u16(s)
			}
		} else {
			var masks []byte
			if len(a.Signers) > 0 {
				masks = make([]byte, mx/8+1)
				for _, s := range a.Signers {
					masks[s/8] |= 1 << (s % 8)
				}
			}
			masks = append(masks, make([]byte, v.trailingZero)...)
			w.raw([]byte{0})
			w.lp(masks)
		}
	} else {
		n := len(j.Maps)
		if v.mapCount > 0 {
			n = v.mapCount
		}
		w.u16(n)
		for _, m := range j.Maps {
			mm := append([]EntJ{}, m...)
			if !v.unsortedKeys {
				sort.Slice(mm, func(a, b int) bool { return mm[a].I < mm[b].I })
			}
			if v.dupEntry && len(mm) > 0 {
				mm = append(mm, mm[0])
			}
			w.u16(len(mm))
			for _, e := range mm {
				w.u16(int(e.I))
				w.raw(unhex(e.S))
			}
		}
	}
	return w.b
}

// ---- generators ---------------------------------------------------------------------------

func rhex(r *vh.Rand, n int) string {
	b := r.Bytes(n)
	switch r.Intn(12) {
	case 0:
		for i := range b {
			b[i] = 0
		}
	case 1:
		for i := range b {
			b[i] = 0xff
		}
	case 2:
		for i := 0; i < len(b) && i < 1+r.Intn(4); i++ {
			b[i] = 0 // leading zero bytes: the fixed width must be kept
		}
	}
	return hx(b)
}

func amount(r *vh.Rand) string {
	switch r.Intn(12) {
	case 0:
		return "0"
	case 1:
		return fmt.Sprint(r.Intn(300))
	case 2:
		return new(big.Int).Lsh(big.NewInt(1), uint(8*r.Range(1, 40))).String() // a power of 256: size boundary
	case 3:
		v := new(big.Int).Lsh(big.NewInt(1), uint(8*r.Range(1, 40)))
		return v.Sub(v, big.NewInt(1)).String()
	case 4:
		return r.Big(r.Range(65, 2400)).String()
	default:
		return r.Big(r.Range(1, 64)).String()
	}
}

func smallBytes(r *vh.Rand, max int) string {
	if r.Chance(1, 3) {
		return ""
	}
	return hx(r.Bytes(r.Range(1, max)))
}

var outTypes = []uint8{common.OutputTypeScript, common.OutputTypeScript, common.OutputTypeWithdrawalSubmit, common.OutputTypeNodePledge,
	common.OutputTypeNodeAccept, common.OutputTypeNodeRemove, common.OutputTypeWithdrawalClaim, common.OutputTypeNodeCancel,
	common.OutputTypeCustodianUpdateNodes, common.OutputTypeCustodianSlashNodes}

func genInput(r *vh.Rand) InJ {
	in := InJ{Hash: rhex(r, 32), Index: uint64(r.Intn(6))}
	switch r.Intn(14) {
	case 0:
		in.Index = common.InputIndexLimit
	case 1:
		in.Index = common.InputIndexLimit - 1
	case 2:
		in.Index = uint64(r.Intn(common.InputIndexLimit + 1))
	}
	if r.Chance(1, 6) {
		in.Genesis = hx(r.Bytes(r.Range(1, 40)))
	}
	if r.Chance(1, 4) {
		in.Dep = &DepJ{Chain: rhex(r, 32), AssetKey: smallBytes(r, 42), Tx: smallBytes(r, 66), Index: r.U64() >> uint(r.Intn(64)), Amount: amount(r)}
	}
	if r.Chance(1, 4) {
		g := []string{"KERNELNODE", "UNIVERSAL", "", "X"}[r.Intn(4)]
		in.Mint = &MintJ{Group: hx([]byte(g)), Batch: r.U64() >> uint(r.Intn(64)), Amount: amount(r)}
	}
	return in
}

func genOutput(r *vh.Rand) OutJ {
	o := OutJ{Type: outTypes[r.Intn(len(outTypes))], Amount: amount(r), Mask: rhex(r, 32)}
	if r.Chance(1, 10) {
		o.Type = uint8(r.Intn(256))
	}
	nk := r.Intn(4)
	for i := 0; i < nk; i++ {
		o.Keys = append(o.Keys, rhex(r, 32))
	}
	switch r.Intn(4) {
	case 0:
		o.Script = "fffe01"
	case 1:
		o.Script = hx(r.Bytes(r.Range(1, 6)))
	case 2:
		o.Script = hx([]byte{0xff, 0xfe, byte(r.Intn(65))})
	}
	if r.Chance(1, 4) || o.Type == common.OutputTypeWithdrawalSubmit {
		o.Wd = &WdJ{Address: smallBytes(r, 44), Tag: smallBytes(r, 12)}
	}
	return o
}

// signers around the sparse/ordinary boundary max/8+1 > 2*len
func genSigners(r *vh.Rand) []int {
	n := r.Intn(7)
	if n == 0 {
		return []int{}
	}
	var mx int
	switch r.Intn(4) {
	case 0: // exactly around the boundary: max/8+1 in {2n-1, 2n, 2n+1, 2n+2}
		mx = 8*(2*n-2+r.Intn(4)) + r.Intn(8)
	case 1:
		mx = r.Range(n-1, 8*n)
	case 2:
		mx = r.Range(n-1, 700)
	default:
		mx = r.Range(n-1, 16*n+20)
	}
	if r.Chance(1, 40) {
		mx = common.MaximumEncodingInt - r.Intn(3)
	}
	if mx < n-1 {
		mx = n - 1
	}
	set := map[int]bool{mx: true}
	for len(set) < n {
		set[r.Intn(mx+1)] = true
	}
	s := make([]int, 0, n)
	for k := range set {
		s = append(s, k)
	}
	sort.Ints(s)
	return s
}

func genMaps(r *vh.Rand) [][]EntJ {
	n := r.Intn(4)
	ms := [][]EntJ{}
	for i := 0; i < n; i++ {
		k := r.Intn(5)
		seen := map[uint16]bool{}
		m := []EntJ{}
		for len(m) < k {
			var idx uint16
			switch r.Intn(4) {
			case 0:
				idx = uint16(r.U64())
			default:
				idx = uint16(r.Intn(8))
			}
			if seen[idx] {
				continue
			}
			seen[idx] = true
			m = append(m, EntJ{I: idx, S: rhex(r, 64)}) // in random order: a map has none
		}
		ms = append(ms, m)
	}
	return ms
}

func genAuth(r *vh.Rand, j *TxJ) {
	j.Maps, j.Agg = nil, nil
	switch r.Intn(3) {
	case 0:
	case 1:
		j.Maps = genMaps(r)
		if len(j.Maps) == 0 {
			j.Maps = nil
		}
	default:
		j.Agg = &AggJ{Sig: rhex(r, 64), Signers: genSigners(r)}
	}
}

func genTx(r *vh.Rand) *TxJ {
	j := &TxJ{Version: common.TxVersionHashSignature, Asset: rhex(r, 32)}
	ni, no, nr := r.Intn(4), r.Intn(4), r.Intn(3)
	if r.Chance(1, 25) {
		ni, no = r.Range(4, 9), r.Range(4, 9)
	}
	for i := 0; i < ni; i++ {
		j.Ins = append(j.Ins, genInput(r))
	}
	for i := 0; i < no; i++ {
		j.Outs = append(j.Outs, genOutput(r))
	}
	for i := 0; i < nr; i++ {
		j.Refs = append(j.Refs, rhex(r, 32))
	}
	switch r.Intn(5) {
	case 0:
	case 1:
		j.Extra = hx(r.Bytes(r.Range(1, 300)))
	default:
		j.Extra = hx(r.Bytes(r.Range(1, 40)))
	}
	genAuth(r, j)
	return j
}

// a transaction value the encoder must refuse (panic) or that sits on a guard
func genInvalidTx(r *vh.Rand) *TxJ {
	j := genTx(r)
	switch r.Intn(9) {
	case 0:
		j.Version = uint8([]int{0, 1, 4, 6, 255}[r.Intn(5)])
	case 1:
		j.Ins = append(j.Ins, genInput(r))
		j.Ins[r.Intn(len(j.Ins))].Index = uint64([]int{common.InputIndexLimit + 1, 65535, 65536, 70000}[r.Intn(4)])
	case 2:
		j.Maps, j.Agg = nil, &AggJ{Sig: rhex(r, 64), Signers: [][]int{{3, 3}, {5, 2}, {1, 2, 2}, {65536}, {0, 65536}, {7, 7, 9}}[r.Intn(6)]}
	case 3:
		n := common.SliceCountLimit + r.Intn(2)
		j.Ins = nil
		for i := 0; i < n; i++ {
			j.Ins = append(j.Ins, InJ{Hash: rhex(r, 32), Index: uint64(i % 3)})
		}
	case 4:
		n := common.SliceCountLimit + r.Intn(2)
		j.Outs = nil
		for i := 0; i < n; i++ {
			j.Outs = append(j.Outs, OutJ{Type: 0, Amount: "1", Mask: rhex(r, 32)})
		}
	case 5:
		n := common.SliceCountLimit + r.Intn(2)
		j.Refs = nil
		for i := 0; i < n; i++ {
			j.Refs = append(j.Refs, rhex(r, 32))
		}
	case 6:
		j.Outs = append(j.Outs, genOutput(r))
		o := &j.Outs[len(j.Outs)-1]
		n := common.SliceCountLimit + r.Intn(2)
		o.Keys = nil
		for i := 0; i < n; i++ {
			o.Keys = append(o.Keys, rhex(r, 32))
		}
	case 7:
		n := common.SliceCountLimit + r.Intn(2)
		j.Agg, j.Maps = nil, nil
		for i := 0; i < n; i++ {
			j.Maps = append(j.Maps, []EntJ{})
		}
	default:
		j.Version = uint8(r.Range(5, 7))
	}
	return j
}

func cloneTx(j *TxJ) *TxJ {
	b, _ := json.Marshal(j)
	var c TxJ
	if err := json.Unmarshal(b, &c); err != nil {
		panic(err)
	}
	return &c
}

func flipHex(r *vh.Rand, s string, n int) string {
	b := unhex(s)
	if len(b) == 0 {
		return hx(r.Bytes(n))
	}
	b[r.Intn(len(b))] ^= byte(1 << r.Intn(8))
	return hx(b)
}

func bumpAmount(s string) string { return new(big.Int).Add(bigOf(s), big.NewInt(1)).String() }

// changeOneField returns a copy of j with exactly one payload field changed.
func changeOneField(r *vh.Rand, j *TxJ) (*TxJ, string) {
	for {
		c := cloneTx(j)
		switch r.Intn(24) {
		case 0:
			c.Asset = flipHex(r, c.Asset, 32)
			return c, "asset"
		case 1:
			c.Extra = flipHex(r, c.Extra, 1)
			return c, "extra byte"
		case 2:
			c.Extra = c.Extra + "00"
			return c, "extra length"
		case 3:
			c.Refs = append(c.Refs, rhex(r, 32))
			return c, "reference added"
		case 4:
			if len(c.Refs) > 0 {
				i := r.Intn(len(c.Refs))
				c.Refs[i] = flipHex(r, c.Refs[i], 32)
				return c, "reference"
			}
		case 5:
			c.Ins = append(c.Ins, InJ{Hash: rhex(r, 32)})
			return c, "input added"
		case 6:
			c.Outs = append(c.Outs, OutJ{Type: 0, Amount: "1", Mask: rhex(r, 32)})
			return c, "output added"
		case 7, 8, 9, 10, 11, 12, 13:
			if len(c.Ins) > 0 {
				in := &c.Ins[r.Intn(len(c.Ins))]
				switch r.Intn(12) {
				case 0:
					in.Hash = flipHex(r, in.Hash, 32)
					return c, "input hash"
				case 1:
					in.Index = (in.Index + 1) % (common.InputIndexLimit + 1)
					return c, "input index"
				case 2:
					in.Genesis = flipHex(r, in.Genesis, 3)
					return c, "input genesis"
				case 3:
					if in.Dep == nil {
						in.Dep = &DepJ{Chain: rhex(r, 32), Amount: "0"}
						return c, "deposit added"
					}
					in.Dep = nil
					return c, "deposit removed"
				case 4:
					if in.Mint == nil {
						in.Mint = &MintJ{Amount: "0"}
						return c, "mint added"
					}
					in.Mint = nil
					return c, "mint removed"
				case 5, 6, 7, 8:
					if d := in.Dep; d != nil {
						switch r.Intn(5) {
						case 0:
							d.Chain = flipHex(r, d.Chain, 32)
							return c, "deposit chain"
						case 1:
							d.AssetKey = flipHex(r, d.AssetKey, 2)
							return c, "deposit asset key"
						case 2:
							d.Tx = flipHex(r, d.Tx, 2)
							return c, "deposit transaction"
						case 3:
							d.Index ^= 1 << uint(r.Intn(64))
							return c, "deposit index"
						default:
							d.Amount = bumpAmount(d.Amount)
							return c, "deposit amount"
						}
					}
				default:
					if m := in.Mint; m != nil {
						switch r.Intn(3) {
						case 0:
							m.Group = flipHex(r, m.Group, 2)
							return c, "mint group"
						case 1:
							m.Batch ^= 1 << uint(r.Intn(64))
							return c, "mint batch"
						default:
							m.Amount = bumpAmount(m.Amount)
							return c, "mint amount"
						}
					}
				}
			}
		default:
			if len(c.Outs) > 0 {
				o := &c.Outs[r.Intn(len(c.Outs))]
				switch r.Intn(9) {
				case 0:
					o.Type ^= byte(1 << r.Intn(8))
					return c, "output type"
				case 1:
					o.Amount = bumpAmount(o.Amount)
					return c, "output amount"
				case 2:
					o.Keys = append(o.Keys, rhex(r, 32))
					return c, "output key added"
				case 3:
					if len(o.Keys) > 0 {
						i := r.Intn(len(o.Keys))
						o.Keys[i] = flipHex(r, o.Keys[i], 32)
						return c, "output key"
					}
				case 4:
					o.Mask = flipHex(r, o.Mask, 32)
					return c, "output mask"
				case 5:
					o.Script = flipHex(r, o.Script, 3)
					return c, "output script"
				case 6:
					if o.Wd == nil {
						o.Wd = &WdJ{}
						return c, "withdrawal added"
					}
					o.Wd = nil
					return c, "withdrawal removed"
				case 7:
					if o.Wd != nil {
						o.Wd.Address = flipHex(r, o.Wd.Address, 2)
						return c, "withdrawal address"
					}
				default:
					if o.Wd != nil {
						o.Wd.Tag = flipHex(r, o.Wd.Tag, 2)
						return c, "withdrawal tag"
					}
				}
			}
		}
	}
}

func mutateBytes(r *vh.Rand, b []byte) ([]byte, string) {
	m := append([]byte(nil), b...)
	switch r.Intn(10) {
	case 0:
		if len(m) > 0 {
			return m[:r.Intn(len(m))], "truncated"
		}
		return m, "truncated"
	case 1:
		return append(m, r.Bytes(r.Range(1, 4))...), "extended"
	case 2:
		return append(m, 0), "extended"
	case 3:
		if len(m) > 0 { // delete one byte
			i := r.Intn(len(m))
			return append(m[:i], m[i+1:]...), "byte-deleted"
		}
		return m, "byte-deleted"
	default:
		if len(m) == 0 {
			return []byte{byte(r.U64())}, "mutated"
		}
		i := r.Intn(len(m))
		switch r.Intn(3) {
		case 0:
			m[i] ^= byte(1 << r.Intn(8))
		case 1:
			m[i] = byte(r.U64())
		default:
			m[i] += byte(1 + r.Intn(2)) // small steps move lengths and counts across their limits
		}
		return m, "mutated"
	}
}

func randomBytes(r *vh.Rand) []byte {
	switch r.Intn(4) {
	case 0:
		return r.Bytes(r.Intn(80))
	default:
		// valid header, then a loosely structured tail
		b := []byte{0x77, 0x77, 0, common.TxVersionHashSignature}
		b = append(b, r.Bytes(32)...)
		n := r.Intn(120)
		for i := 0; i < n; i++ {
			switch r.Intn(4) {
			case 0:
				b = append(b, 0)
			case 1:
				b = append(b, 0x77)
			case 2:
				b = append(b, byte(r.Intn(4)))
			default:
				b = append(b, byte(r.U64()))
			}
		}
		return b
	}
}

func nonCanonical(r *vh.Rand, j *TxJ) ([]byte, string) {
	if j.Agg != nil {
		switch r.Intn(3) {
		case 0:
			return write(j, variant{forceSparse: true}), "noncanon-sparse"
		case 1:
			return write(j, variant{forceOrdinary: true}), "noncanon-ordinary"
		default:
			return write(j, variant{forceOrdinary: true, trailingZero: r.Range(1, 3)}), "noncanon-mask-padding"
		}
	}
	switch r.Intn(5) {
	case 0:
		return write(j, variant{unsortedKeys: true}), "noncanon-unsorted-keys"
	case 1:
		return write(j, variant{dupEntry: true}), "noncanon-repeated-key"
	case 2:
		return write(j, variant{padInteger: true}), "noncanon-padded-amount"
	case 3:
		return write(j, variant{mapCount: len(j.Maps) + r.Range(1, 2)}), "noncanon-map-count"
	default:
		c := cloneTx(j)
		n := common.SliceCountLimit + r.Range(1, 3)
		c.Maps = nil
		for i := 0; i < common.SliceCountLimit; i++ {
			c.Maps = append(c.Maps, []EntJ{})
		}
		return write(c, variant{mapCount: n}), "noncanon-map-count-over-limit"
	}
}

// one structured transaction and everything derived from it
func family(c *vh.Ctx, j *TxJ, kind string, muts int) {
	r := c.Rng
	mar := runTx(c, Case{Op: "tx", Kind: kind, Tx: j})
	if mar == nil {
		return
	}
	runUnmarshal(c, Case{Op: "unmarshal", Kind: "valid-encoding", Hex: hx(mar)})
	// the harness' own writer must agree on valid values (generator sanity; not an oracle)
	if structurallyValid(j) && !bytes.Equal(write(j, variant{}), mar) {
		c.Note("writer disagrees with Marshal on " + canon(j))
	}
	for i := 0; i < muts; i++ {
		m, what := mutateBytes(r, mar)
		runUnmarshal(c, Case{Op: "unmarshal", Kind: what, Hex: hx(m)})
	}
	if r.Chance(2, 3) {
		m, what := nonCanonical(r, j)
		runUnmarshal(c, Case{Op: "unmarshal", Kind: what, Hex: hx(m)})
	}
	// same payload, other authorization
	o := cloneTx(j)
	genAuth(r, o)
	runPair(c, Case{Op: "pair", Kind: "pair-same-payload", Tx: j, Tx2: o, Same: true, What: "authorization replaced"})
	// one payload field changed
	if structurallyValid(j) {
		for i := 0; i < 2; i++ {
			d, what := changeOneField(r, j)
			if structurallyValid(d) {
				runPair(c, Case{Op: "pair", Kind: "pair-field-changed", Tx: j, Tx2: d, What: what})
			}
		}
	}
}

func zeros(n int) string { return strings.Repeat("00", n) }

func corpus(c *vh.Ctx) {
	r := c.Rng.Fork("corpus")
	empty := &TxJ{Version: 5, Asset: zeros(32)}
	family(c, empty, "corpus", 4)
	// every special input, every output type, withdrawal data
	full := &TxJ{Version: 5, Asset: rhex(r, 32), Extra: hx([]byte("extra")),
		Ins: []InJ{
			{Hash: rhex(r, 32), Index: 0},
			{Hash: zeros(32), Index: 0, Genesis: hx(r.Bytes(32))},
			{Hash: zeros(32), Index: 0, Dep: &DepJ{Chain: rhex(r, 32), AssetKey: hx([]byte("0xa0b8")), Tx: hx([]byte("0xdeadbeef")), Index: 7, Amount: "100000000"}},
			{Hash: zeros(32), Index: 0, Mint: &MintJ{Group: hx([]byte("UNIVERSAL")), Batch: 1717, Amount: "8904651480000"}},
			{Hash: rhex(r, 32), Index: common.InputIndexLimit, Genesis: "00", Dep: &DepJ{Chain: zeros(32), Amount: "0"}, Mint: &MintJ{Amount: "0"}},
		},
		Refs: []string{rhex(r, 32), rhex(r, 32)}}
	for _, t := range outTypes[1:] {
		o := OutJ{Type: t, Amount: "12345", Keys: []string{rhex(r, 32)}, Mask: rhex(r, 32), Script: "fffe01"}
		if t == common.OutputTypeWithdrawalSubmit {
			o.Wd = &WdJ{Address: hx([]byte("bc1qaddress")), Tag: hx([]byte("memo"))}
		}
		full.Outs = append(full.Outs, o)
	}
	full.Maps = [][]EntJ{{{I: 2, S: rhex(r, 64)}, {I: 0, S: rhex(r, 64)}, {I: 65535, S: rhex(r, 64)}}, {}, {{I: 1, S: rhex(r, 64)}}}
	family(c, full, "corpus", 12)
	// ownership: several KB of extra, withdrawal data, deposit, mint, genesis, aggregated signers
	{
		own := cloneTx(full)
		own.Extra = hx(r.Bytes(3000))
		own.Maps, own.Agg = nil, &AggJ{Sig: rhex(r, 64), Signers: []int{0, 3, 9, 700}}
		family(c, own, "corpus-ownership", 2)
		own2 := cloneTx(own)
		own2.Extra = hx(r.Bytes(700))
		own2.Agg.Signers = []int{1, 2, 3, 4, 5}
		family(c, own2, "corpus-ownership", 2)
	}
	// a mint amount of zero as the very last field before the output count, zero amounts
	family(c, &TxJ{Version: 5, Asset: rhex(r, 32), Ins: []InJ{{Hash: zeros(32), Mint: &MintJ{Group: "", Batch: 0, Amount: "0"}}},
		Outs: []OutJ{{Type: 0, Amount: "0", Mask: zeros(32)}}}, "corpus", 6)
	// aggregated signatures exactly at the sparse/ordinary boundary
	for n := 1; n <= 4; n++ {
		for d := -1; d <= 2; d++ {
			mx := 8*(2*n-1+d) + 3
			s := []int{}
			for i := 0; i < n-1; i++ {
				s = append(s, i)
			}
			s = append(s, mx)
			if mx <= n-2 {
				continue
			}
			j := cloneTx(empty)
			j.Agg = &AggJ{Sig: rhex(r, 64), Signers: s}
			family(c, j, "corpus-agg-boundary", 2)
			for _, v := range []variant{{forceSparse: true}, {forceOrdinary: true}, {forceOrdinary: true, trailingZero: 1}} {
				runUnmarshal(c, Case{Op: "unmarshal", Kind: "corpus-agg-forms", Hex: hx(write(j, v))})
			}
		}
	}
	for _, s := range [][]int{{}, {0}, {7}, {8}, {15}, {16}, {0, 1, 2, 3, 4, 5, 6, 7}, {65535}, {0, 65535}, {65534, 65535}} {
		j := cloneTx(empty)
		j.Agg = &AggJ{Sig: rhex(r, 64), Signers: s}
		family(c, j, "corpus-agg", 2)
		runUnmarshal(c, Case{Op: "unmarshal", Kind: "corpus-agg-forms", Hex: hx(write(j, variant{forceSparse: true}))})
	}
	// sparse form with repeated / descending signers, and an ordinary mask reaching past 0xFFFF
	for _, s := range [][]int{{3, 3}, {900, 900}, {5, 2}, {1000, 999}, {1000, 2000, 2000}} {
		j := cloneTx(empty)
		j.Agg = &AggJ{Sig: rhex(r, 64), Signers: s}
		runUnmarshal(c, Case{Op: "unmarshal", Kind: "corpus-agg-forms", Hex: hx(write(j, variant{forceSparse: true}))})
		runTx(c, Case{Op: "tx", Kind: "corpus-invalid", Tx: j})
	}
	{
		j := cloneTx(empty)
		j.Agg = &AggJ{Sig: rhex(r, 64), Signers: []int{65535}}
		runUnmarshal(c, Case{Op: "unmarshal", Kind: "corpus-agg-forms", Hex: hx(write(j, variant{forceOrdinary: true, trailingZero: 1}))})
		b := write(j, variant{forceOrdinary: true, trailingZero: 1})
		b[len(b)-1] = 1 // signer 65536 in the mask
		runUnmarshal(c, Case{Op: "unmarshal", Kind: "corpus-agg-forms", Hex: hx(b)})
	}
	// count limits: 256 is accepted, 257 is not
	for _, n := range []int{common.SliceCountLimit, common.SliceCountLimit + 1} {
		a := cloneTx(empty)
		b := cloneTx(empty)
		d := cloneTx(empty)
		e := cloneTx(empty)
		f := cloneTx(empty)
		f.Outs = []OutJ{{Type: 0, Amount: "1", Mask: zeros(32)}}
		for i := 0; i < n; i++ {
			a.Ins = append(a.Ins, InJ{Hash: rhex(r, 32), Index: uint64(i)})
			b.Outs = append(b.Outs, OutJ{Type: 0, Amount: fmt.Sprint(i), Mask: zeros(32)})
			d.Refs = append(d.Refs, rhex(r, 32))
			e.Maps = append(e.Maps, []EntJ{})
			f.Outs[0].Keys = append(f.Outs[0].Keys, rhex(r, 32))
		}
		for _, j := range []*TxJ{a, b, d, e, f} {
			runTx(c, Case{Op: "tx", Kind: "corpus-count-limit", Tx: j})
			runUnmarshal(c, Case{Op: "unmarshal", Kind: "corpus-count-limit", Hex: hx(write(j, variant{}))})
		}
	}
	// index limit, versions
	for _, idx := range []uint64{common.InputIndexLimit, common.InputIndexLimit + 1, 65535, 65536} {
		j := cloneTx(empty)
		j.Ins = []InJ{{Hash: rhex(r, 32), Index: idx}}
		runTx(c, Case{Op: "tx", Kind: "corpus-index-limit", Tx: j})
		runUnmarshal(c, Case{Op: "unmarshal", Kind: "corpus-index-limit", Hex: hx(write(j, variant{}))})
	}
	for _, v := range []uint8{0, 4, 5, 6, 255} {
		j := cloneTx(empty)
		j.Version = v
		runTx(c, Case{Op: "tx", Kind: "corpus-version", Tx: j})
		runUnmarshal(c, Case{Op: "unmarshal", Kind: "corpus-version", Hex: hx(write(j, variant{}))})
	}
	// short strings
	for _, h := range []string{"", "77", "7777", "77770005", "77770005" + zeros(32), "77770005" + zeros(42), "77770005" + zeros(43), "77770005" + zeros(41)} {
		runUnmarshal(c, Case{Op: "unmarshal", Kind: "corpus-short", Hex: h})
	}
	// a large amount (size field boundary is 65535 bytes) and a large extra: oracle only for the biggest
	{
		j := cloneTx(empty)
		big1 := new(big.Int).Lsh(big.NewInt(1), 8*65535-1)
		j.Outs = []OutJ{{Type: 0, Amount: big1.String(), Mask: zeros(32)}}
		runTx(c, Case{Op: "tx", Kind: "corpus-huge-amount", Tx: j})
		j2 := cloneTx(empty)
		j2.Outs = []OutJ{{Type: 0, Amount: new(big.Int).Lsh(big1, 1).String(), Mask: zeros(32)}}
		runTx(c, Case{Op: "tx", Kind: "corpus-huge-amount", Tx: j2})
		j3 := cloneTx(empty)
		j3.Extra = hx(r.Bytes(5000))
		family(c, j3, "corpus-large-extra", 2)
	}
}

// boundaryCorpus: decoder-side limits, assembled at BYTE level (the encoder refuses most
// of these values) from complete, well-formed members: every count at limit-1, limit,
// limit+1 and at the next larger related constant.  Oracle (runUnmarshal): the decoder
// never panics and whatever it accepts re-encodes to the same bytes.
func boundaryCorpus(c *vh.Ctx) {
	r := c.Rng.Fork("boundary")
	empty := &TxJ{Version: 5, Asset: zeros(32)}
	u := func(kind string, b []byte) { runUnmarshal(c, Case{Op: "unmarshal", Kind: kind, Hex: hx(b)}) }
	counts := []int{common.SliceCountLimit - 1, common.SliceCountLimit, common.SliceCountLimit + 1, common.InputIndexLimit, common.InputIndexLimit + 1}
	for _, n := range counts {
		ins, outs, refs, keys, maps, ents := cloneTx(empty), cloneTx(empty), cloneTx(empty), cloneTx(empty), cloneTx(empty), cloneTx(empty)
		keys.Outs = []OutJ{{Type: 0, Amount: "1", Mask: rhex(r, 32)}}
		ents.Maps = [][]EntJ{{}}
		for i := 0; i < n; i++ {
			ins.Ins = append(ins.Ins, InJ{Hash: rhex(r, 32), Index: uint64(i % 3)})
			outs.Outs = append(outs.Outs, OutJ{Type: 0, Amount: "1", Mask: rhex(r, 32)})
			refs.Refs = append(refs.Refs, rhex(r, 32))
			keys.Outs[0].Keys = append(keys.Outs[0].Keys, rhex(r, 32))
			maps.Maps = append(maps.Maps, []EntJ{})
			ents.Maps[0] = append(ents.Maps[0], EntJ{I: uint16(i), S: rhex(r, 64)})
		}
		u("boundary-inputs", write(ins, variant{}))
		u("boundary-outputs", write(outs, variant{}))
		u("boundary-references", write(refs, variant{}))
		u("boundary-keys", write(keys, variant{}))
		u("boundary-maps", write(maps, variant{}))
		u("boundary-map-entries", write(ents, variant{}))
		// aggregated signers: n signers, sparse (spaced) and ordinary (dense)
		sp, de := cloneTx(empty), cloneTx(empty)
		sp.Agg, de.Agg = &AggJ{Sig: rhex(r, 64)}, &AggJ{Sig: rhex(r, 64)}
		for i := 0; i < n; i++ {
			sp.Agg.Signers = append(sp.Agg.Signers, 20*i+19)
			de.Agg.Signers = append(de.Agg.Signers, i)
		}
		u("boundary-agg-signers", write(sp, variant{}))
		u("boundary-agg-signers", write(de, variant{}))
		u("boundary-agg-signers", write(de, variant{forceSparse: true}))
	}
	// declared map count at the top of the range (0xFFFF is the aggregated marker)
	{
		j := cloneTx(empty)
		for i := 0; i < common.SliceCountLimit; i++ {
			j.Maps = append(j.Maps, []EntJ{})
		}
		for _, n := range []int{common.MaximumEncodingInt - 1, common.MaximumEncodingInt} {
			u("boundary-maps", write(j, variant{mapCount: n}))
		}
	}
	// aggregated signer index at the top of the range, both forms
	for _, mx := range []int{common.MaximumEncodingInt - 1, common.MaximumEncodingInt} {
		j := cloneTx(empty)
		j.Agg = &AggJ{Sig: rhex(r, 64), Signers: []int{3, mx}}
		u("boundary-agg-index", write(j, variant{}))
		u("boundary-agg-index", write(j, variant{forceOrdinary: true}))
	}
	// input index
	for _, idx := range []uint64{common.InputIndexLimit - 1, common.InputIndexLimit, common.InputIndexLimit + 1} {
		j := cloneTx(empty)
		j.Ins = []InJ{{Hash: rhex(r, 32), Index: idx}}
		u("boundary-index", write(j, variant{}))
	}
	// amount length 0, 1, 2, ... with and without a leading zero; 65535 bytes
	{
		j := cloneTx(empty)
		j.Ins = []InJ{{Hash: zeros(32), Mint: &MintJ{Group: hx([]byte("KERNELNODE")), Batch: 1, Amount: "1"}}}
		j.Outs = []OutJ{{Type: 0, Amount: "1", Mask: rhex(r, 32)}}
		for _, raw := range [][]byte{{}, {0}, {1}, {0, 1}, {1, 0}, {0, 0}, {255, 255}, {0, 255, 255}, {1, 0, 0}} {
			u("boundary-amount", write(j, variant{amountRaw: raw}))
		}
		big1 := bytes.Repeat([]byte{0xab}, common.MaximumEncodingInt)
		u("boundary-amount", write(j, variant{amountRaw: big1}))
		big1[0] = 0
		u("boundary-amount", write(j, variant{amountRaw: big1}))
	}
	// extra length around ExtraSizeGeneralLimit
	for _, n := range []int{common.ExtraSizeGeneralLimit - 1, common.ExtraSizeGeneralLimit, common.ExtraSizeGeneralLimit + 1} {
		j := cloneTx(empty)
		j.Extra = hx(r.Bytes(n))
		u("boundary-extra", write(j, variant{}))
	}
}

// hugeCorpus: extra length around ExtraSizeStorageCapacity and total size around the
// 4 MiB cap (oracle only; run last so that report samples stay small).
func hugeCorpus(c *vh.Ctx) {
	empty := &TxJ{Version: 5, Asset: zeros(32)}
	base := len(write(empty, variant{}))
	sizes := []int{}
	for d := -1; d <= 1; d++ {
		sizes = append(sizes, common.ExtraSizeStorageCapacity+d) // declared extra length at the capacity
		sizes = append(sizes, 4*1024*1024-base+d)                // total size at the cap
	}
	for _, n := range sizes {
		b := write(empty, variant{})
		// splice an n-byte extra in: the extra length field sits 6 bytes before the end
		body := bytes.Repeat([]byte{0x5a}, n)
		out := append([]byte{}, b[:len(b)-6]...)
		out = binary.BigEndian.AppendUint32(out, uint32(n))
		out = append(out, body...)
		out = append(out, 0, 0)
		runUnmarshal(c, Case{Op: "unmarshal", Kind: "boundary-size", Hex: hx(out)})
	}
}

func main() {
	c := vh.Start("C06")
	c.Rep.Rule = "corpus (every special input and output type, sparse/ordinary aggregate masks on both sides of max/8+1 > 2*len, " +
		"count/index/version limits, short strings; byte-level decoder boundary cases with complete members: inputs/outputs/references/keys/maps/map entries/aggregate signers at 255, 256, 257, 1024, 1025, amount lengths, extra and total size around their caps), then families drawn from one SplitMix64 stream: a structured transaction value " +
		"(0-9 inputs incl. deposit/mint/genesis, 0-9 outputs of all types incl. withdrawal data, references, extra, signature maps in random " +
		"entry order or an aggregated signature) -> its encoding, 2-4 single-byte mutations/truncations/extensions/deletions of it, a hand-written " +
		"non-canonical encoding of it (unsorted or repeated map index, other mask form, padded mask or amount, wrong map count), a pair with the same " +
		"payload and another authorization, two pairs with one payload field changed; values the encoder must refuse; arbitrary byte strings. " +
		"Every accepted string is also decoded from a scratch buffer that is then overwritten (zeros, 0xFF, another valid transaction) to check that the transaction owns its data. Non-trivial = the decoder accepted, or the string carries the version header and is longer than the asset; for values = Marshal returned. " +
		"Distinct by byte string / by value."
	if c.Replay != "" {
		var cs Case
		c.ReplayCase(&cs)
		run(c, cs)
		c.Finish()
		return
	}
	corpus(c)
	boundaryCorpus(c)
	hugeCorpus(c)
	n := c.Scale(220, 6000)
	for i := 0; i < n; i++ {
		r := c.Rng
		switch r.Intn(10) {
		case 0:
			runTx(c, Case{Op: "tx", Kind: "invalid-value", Tx: genInvalidTx(r)})
		case 1:
			for k := 0; k < 4; k++ {
				runUnmarshal(c, Case{Op: "unmarshal", Kind: "arbitrary-bytes", Hex: hx(randomBytes(r))})
			}
		default:
			family(c, genTx(r), "structured", r.Range(2, 4))
		}
	}
	c.Finish()
}
