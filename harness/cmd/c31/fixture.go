package main

import (
	"encoding/binary"
	"encoding/json"
	"fmt"
	"os"
	"runtime"
	"sync"
	"time"

	"github.com/MixinNetwork/mixin/common"
	"github.com/MixinNetwork/mixin/crypto"
	"github.com/MixinNetwork/mixin/kernel"
)

// Fixture for C31: a real kernel node over a Badger store in a temp dir, with
// deterministic keys, funding transactions and fully signed spending
// transactions.  Everything here only builds inputs; the code under test is
// kernel.(*Node).popAndProcessCacheQueue reached through VerifC31Batcher.

const (
	peerMessageTypeTransactionBundle = 8   // p2p.PeerMessageTypeTransactionBundle
	peerMessageTypeRelay             = 200 // p2p.PeerMessageTypeRelay
	relayHeaderSize                  = 65  // type + from + to
)

type utxoRef struct {
	hash  crypto.Hash
	index uint
	privs []*crypto.Key // private keys, position = key index in the UTXO
}

type fixture struct {
	dir  string
	seed string
	b    *kernel.VerifC31Batcher

	pool    map[int][]*utxoRef // keysPerUTXO -> unspent funded outputs
	counter uint64             // distinct labels for derived keys
	reuse   bool               // buildSignedTx leaves the UTXOs in the pool (see there)
	unit    common.Integer
	amount  common.Integer // amount of every funded output
}

func repoPath() string {
	if p := os.Getenv("VERIF_REPO"); p != "" {
		return p
	}
	return "/repo"
}

// newFixture creates the node.  mode "relay": one connected relayer under a
// random id, every send is wrapped by buildRelayMessage and lands in its ring.
// mode "direct": every other working node is a directly connected neighbor,
// the raw bundle message lands in the target's ring.
func newFixture(seed, mode string) (*fixture, error) {
	dir, err := os.MkdirTemp("", "c31-node-")
	if err != nil {
		return nil, err
	}
	b, err := kernel.VerifC31NewBatcher(dir, repoPath()+"/config/genesis.json")
	if err != nil {
		os.RemoveAll(dir)
		return nil, err
	}
	f := &fixture{
		dir:    dir,
		seed:   seed,
		b:      b,
		pool:   make(map[int][]*utxoRef),
		unit:   common.NewIntegerFromString("0.00000001"),
		amount: common.NewIntegerFromString("0.00000001"),
	}
	switch mode {
	case "relay":
		b.AddRelayer(crypto.Blake3Hash([]byte(seed + "RELAYER")))
	case "direct":
		for _, id := range b.WorkingNodes() {
			if id != b.SelfId() {
				b.AddNeighbor(id)
			}
		}
	default:
		f.close()
		return nil, fmt.Errorf("unknown mode %s", mode)
	}
	if b.LocalCanPropose() {
		f.close()
		return nil, fmt.Errorf("fixture broken: local node can propose, batch would not be sent")
	}
	return f, nil
}

func (f *fixture) close() {
	f.b.Close()
	os.RemoveAll(f.dir)
}

// deriveKey gives a deterministic private key for (seed, label, i).
func (f *fixture) deriveKey(label string, i uint64) *crypto.Key {
	buf := binary.BigEndian.AppendUint64([]byte(f.seed+"|"+label+"|"), i)
	h1 := crypto.Blake3Hash(buf)
	h2 := crypto.Blake3Hash(h1[:])
	k := crypto.NewKeyFromSeed(append(h1[:], h2[:]...))
	return &k
}

func (f *fixture) next() uint64 {
	f.counter++
	return f.counter
}

// fund finalizes funding transactions whose outputs are `count` script outputs
// with keysPerUTXO keys each (threshold min(keysPerUTXO, 64), the script
// maximum) and adds them to the pool.  With distinct=false all outputs of one
// funding transaction share one key set (cheap: keysPerUTXO key pairs per 256
// outputs, and a spending transaction needs only keysPerUTXO distinct
// signatures).  With distinct=true every output has its own keys; funding
// transactions are then kept below 8192 keys each so that the single Badger
// transaction of WriteSnapshot stays small.
func (f *fixture) fund(keysPerUTXO, count int, distinct bool) error {
	if keysPerUTXO < 1 || keysPerUTXO > common.SliceCountLimit {
		return fmt.Errorf("keysPerUTXO %d", keysPerUTXO)
	}
	perTx := common.SliceCountLimit
	if distinct {
		perTx = max(1, min(common.SliceCountLimit, 8192/keysPerUTXO))
	}
	threshold := uint8(min(keysPerUTXO, common.Operator64))
	for count > 0 {
		n := min(count, perTx)
		count -= n
		id := f.next()
		mask := f.deriveKey("fundmask", id).Public()

		tx := common.NewTransactionV5(common.XINAssetId)
		tx.Inputs = []*common.Input{{Genesis: fmt.Appendf(nil, "c31 funding %s %d", f.seed, id)}}
		var privs, pubs []*crypto.Key
		refs := make([]*utxoRef, n)
		for o := range n {
			if privs == nil || distinct {
				privs = make([]*crypto.Key, keysPerUTXO)
				pubs = make([]*crypto.Key, keysPerUTXO)
				parallel(keysPerUTXO, func(k int) {
					privs[k] = f.deriveKey(fmt.Sprintf("fund%d/%d", id, o), uint64(k))
					pub := privs[k].Public()
					pubs[k] = &pub
				})
			}
			out := &common.Output{
				Type:   common.OutputTypeScript,
				Amount: f.amount,
				Script: common.NewThresholdScript(threshold),
				Mask:   mask,
				Keys:   pubs,
			}
			tx.Outputs = append(tx.Outputs, out)
			refs[o] = &utxoRef{index: uint(o), privs: privs}
		}
		ver := tx.AsVersioned()
		if err := f.b.Fund(ver); err != nil {
			return err
		}
		for _, r := range refs {
			r.hash = ver.PayloadHash()
		}
		f.pool[keysPerUTXO] = append(f.pool[keysPerUTXO], refs...)
	}
	return nil
}

// buildSignedTx takes `inputs` funded UTXOs with keysPerUTXO keys from the
// pool and builds a script transaction spending them into one 1-key output,
// with extraLen bytes of extra, signed by ALL keys of EVERY input.  The
// signatures are computed in parallel, once per distinct private key.
//
// With f.reuse the UTXOs stay in the pool, so consecutive transactions spend
// the SAME inputs (they differ in output key and extra, hence in hash).  Each
// of them passes the Validate call of the loop on its own, because nothing on
// that path locks inputs (LockInputs happens later, in the chain).  This saves
// all but one funding transaction.
func (f *fixture) buildSignedTx(inputs, keysPerUTXO, extraLen int) (*common.VersionedTransaction, error) {
	pool := f.pool[keysPerUTXO]
	if len(pool) < inputs {
		return nil, fmt.Errorf("pool has %d UTXOs with %d keys, need %d", len(pool), keysPerUTXO, inputs)
	}
	ins := pool[:inputs]
	if !f.reuse {
		f.pool[keysPerUTXO] = pool[inputs:]
	}

	id := f.next()
	tx := common.NewTransactionV5(common.XINAssetId)
	for _, in := range ins {
		tx.AddInput(in.hash, in.index)
	}
	mask := f.deriveKey("spendmask", id).Public()
	key := f.deriveKey("spendkey", id).Public()
	tx.Outputs = []*common.Output{{
		Type:   common.OutputTypeScript,
		Amount: f.amount.Mul(inputs),
		Script: common.NewThresholdScript(1),
		Mask:   mask,
		Keys:   []*crypto.Key{&key},
	}}
	if extraLen > 0 {
		tx.Extra = make([]byte, extraLen)
		for i := range tx.Extra {
			tx.Extra[i] = byte(id + uint64(i))
		}
	}
	ver := tx.AsVersioned()
	msg := ver.PayloadHash()

	// one signature per distinct private key (pointer identity)
	index := make(map[*crypto.Key]int)
	var uniq []*crypto.Key
	for _, in := range ins {
		for _, p := range in.privs {
			if _, ok := index[p]; !ok {
				index[p] = len(uniq)
				uniq = append(uniq, p)
			}
		}
	}
	sigs := make([]*crypto.Signature, len(uniq))
	parallel(len(uniq), func(i int) {
		s := uniq[i].Sign(msg)
		sigs[i] = &s
	})
	ver.SignaturesMap = make([]map[uint16]*crypto.Signature, len(ins))
	for i, in := range ins {
		m := make(map[uint16]*crypto.Signature, len(in.privs))
		for k, p := range in.privs {
			m[uint16(k)] = sigs[index[p]]
		}
		ver.SignaturesMap[i] = m
	}
	return ver, nil
}

// sizes returns the unsigned payload size (what Validate records as
// ValidatedSize) and the signed wire size.
func sizes(ver *common.VersionedTransaction) (unsigned, signed int) {
	return len(ver.PayloadMarshal()), len(ver.Marshal())
}

func parallel(n int, fn func(i int)) {
	workers := min(n, runtime.GOMAXPROCS(0))
	if workers <= 1 {
		for i := range n {
			fn(i)
		}
		return
	}
	var wg sync.WaitGroup
	for w := range workers {
		wg.Add(1)
		go func() {
			defer wg.Done()
			for i := w; i < n; i += workers {
				fn(i)
			}
		}()
	}
	wg.Wait()
}

// parsedMessage is what one sent message decodes to.
type parsedMessage struct {
	relayed bool
	from    crypto.Hash // relay header, zero if not relayed
	to      crypto.Hash
	typ     byte
	inner   int // size of the message without relay header
	txs     []*common.VersionedTransaction
}

// parseSent decodes a message taken from a ring: optional 65-byte relay
// header, then a transaction bundle: type, count, (uint32 length, tx)*.
func parseSent(data []byte) (*parsedMessage, error) {
	pm := &parsedMessage{}
	if len(data) > 0 && data[0] == peerMessageTypeRelay {
		if len(data) < relayHeaderSize+1 {
			return nil, fmt.Errorf("short relay message %d", len(data))
		}
		pm.relayed = true
		copy(pm.from[:], data[1:33])
		copy(pm.to[:], data[33:65])
		data = data[relayHeaderSize:]
	}
	pm.inner = len(data)
	if len(data) < 2 {
		return nil, fmt.Errorf("short message %d", len(data))
	}
	pm.typ = data[0]
	if pm.typ != peerMessageTypeTransactionBundle {
		return pm, nil
	}
	count := int(data[1])
	data = data[2:]
	for range count {
		if len(data) < 4 {
			return nil, fmt.Errorf("short bundle element")
		}
		size := int(binary.BigEndian.Uint32(data[:4]))
		if len(data[4:]) < size {
			return nil, fmt.Errorf("short bundle element %d %d", len(data[4:]), size)
		}
		tx, err := common.UnmarshalVersionedTransaction(data[4 : 4+size])
		if err != nil {
			return nil, err
		}
		pm.txs = append(pm.txs, tx)
		data = data[4+size:]
	}
	if len(data) != 0 {
		return nil, fmt.Errorf("trailing bundle data %d", len(data))
	}
	return pm, nil
}

// buildStorageTx spends ONE funded 1-key output of 1 XIN into a storage output
// (one key, script fffe40, 0.5 XIN: pays for the maximal extra) plus change,
// with extraLen bytes of extra.  The unsigned payload is about extraLen bytes,
// the single signature adds 66: a cheap transaction of up to the 4 MiB cap.
func (f *fixture) buildStorageTx(extraLen int) (*common.VersionedTransaction, error) {
	pool := f.pool[1]
	if len(pool) < 1 {
		return nil, fmt.Errorf("no 1-key UTXO funded")
	}
	in := pool[0]
	id := f.next()
	tx := common.NewTransactionV5(common.XINAssetId)
	tx.AddInput(in.hash, in.index)
	half := common.NewIntegerFromString("0.5")
	sk := f.deriveKey("storagekey", id).Public()
	ck := f.deriveKey("changekey", id).Public()
	mask := f.deriveKey("storagemask", id).Public()
	tx.Outputs = []*common.Output{
		{Type: common.OutputTypeScript, Amount: half, Script: common.NewThresholdScript(64), Mask: mask, Keys: []*crypto.Key{&sk}},
		{Type: common.OutputTypeScript, Amount: half, Script: common.NewThresholdScript(1), Mask: mask, Keys: []*crypto.Key{&ck}},
	}
	tx.Extra = make([]byte, extraLen)
	for i := range tx.Extra {
		tx.Extra[i] = byte(id*31 + uint64(i)*7)
	}
	ver := tx.AsVersioned()
	msg := ver.PayloadHash()
	sig := in.privs[0].Sign(msg)
	ver.SignaturesMap = []map[uint16]*crypto.Signature{{0: &sig}}
	return ver, nil
}

// newProposerFixture creates a node that is itself one of the seven nodes of a
// genesis generated here (keys derived from seed, as `mixin setuptestnet`
// does), with one relayer connected, and marks the peers' sync points known:
// the node is in proposing state.
func newProposerFixture(seed string) (*fixture, error) {
	dir, err := os.MkdirTemp("", "c31-proposer-")
	if err != nil {
		return nil, err
	}
	account := func(label string, i int) common.Address {
		h1 := crypto.Blake3Hash([]byte(fmt.Sprintf("%s|%s|%d", seed, label, i)))
		h2 := crypto.Blake3Hash(h1[:])
		a := common.NewAddressFromSeed(append(h1[:], h2[:]...))
		a.PrivateViewKey = a.PublicSpendKey.DeterministicHashDerive()
		a.PublicViewKey = a.PrivateViewKey.Public()
		return a
	}
	var nodes []map[string]string
	var signers []common.Address
	for i := 0; i < 7; i++ {
		sg := account("signer", i)
		signers = append(signers, sg)
		nodes = append(nodes, map[string]string{
			"signer": sg.String(), "payee": account("payee", i).String(),
			"custodian": account("custodian", i).String(), "balance": "13439",
		})
	}
	genesis := map[string]any{
		"epoch":     time.Now().Add(-30 * 24 * time.Hour).Unix(),
		"nodes":     nodes,
		"custodian": account("domain", 0).String(),
	}
	data, err := json.MarshalIndent(genesis, "", "  ")
	if err != nil {
		return nil, err
	}
	if err := os.WriteFile(dir+"/genesis.json", data, 0644); err != nil {
		return nil, err
	}
	cfg := fmt.Sprintf(`[node]
signer-key = "%s"
consensus-only = true
memory-cache-size = 16
cache-ttl = 7200
ring-cache-size = 4096
ring-final-size = 16384
[network]
listener = "mixin-node.example.com:7239"`, signers[3].PrivateSpendKey.String())
	b, err := kernel.VerifC31NewBatcherWithConfig(dir, dir+"/genesis.json", cfg)
	if err != nil {
		os.RemoveAll(dir)
		return nil, err
	}
	f := &fixture{
		dir:    dir,
		seed:   seed,
		b:      b,
		pool:   make(map[int][]*utxoRef),
		unit:   common.NewIntegerFromString("0.00000001"),
		amount: common.NewIntegerFromString("0.00000001"),
	}
	b.AddRelayer(crypto.Blake3Hash([]byte(seed + "RELAYER")))
	b.MarkPeersSynced()
	return f, nil
}
