// C31 harness: (1) feeds real, fully signed transactions through the REAL
// proposal batcher loop (kernel.popAndProcessCacheQueue on a real node over a
// Badger store, reached through the verif hooks) and observes which were
// batched and every message the node built for them; (2) runs the real bundle
// and relay builders on given sizes; (3) runs the real QUIC framing over a
// loopback connection, including raw oversized headers.  Oracle (property
// text): every built message fits the transport maximum and nothing panics,
// frames round-trip, an oversized header is refused without waiting for or
// allocating its body.
package main

import (
	"bytes"
	"context"
	"encoding/binary"
	"encoding/hex"
	"errors"
	"fmt"
	"net"
	"os"
	"runtime"
	"time"

	"github.com/MixinNetwork/mixin/common"
	"github.com/MixinNetwork/mixin/crypto"
	"github.com/MixinNetwork/mixin/p2p"
	"verifharness/vh"
)

const maxSize = p2p.TransportMessageMaxSize

// Shape of one transaction: Inputs > 0: script transaction spending Inputs
// outputs of Keys keys each, every key signing; Inputs == 0: storage
// transaction (one input, one signature) with Extra bytes of extra.
type Shape struct {
	Inputs int `json:"inputs"`
	Keys   int `json:"keys"`
	Extra  int `json:"extra"`
}

type Case struct {
	Op     string  `json:"op"` // batch | bundle | relay | send | frames | raw
	Seed   uint64  `json:"seed,omitempty"`
	Mode   string  `json:"mode,omitempty"` // relay | direct
	Self   bool    `json:"self,omitempty"` // node in proposing state: the batch becomes its own snapshot
	Shapes []Shape `json:"shapes,omitempty"`
	Sizes  []int   `json:"sizes,omitempty"`
	N      int     `json:"n,omitempty"`
	Limit  uint32  `json:"limit,omitempty"`
	Data   string  `json:"data,omitempty"` // hex: raw stream bytes
}

func zl(xs []int) string {
	el := make([]string, len(xs))
	for i, x := range xs {
		el[i] = vh.ZI(int64(x))
	}
	return vh.List(el, "Z")
}

// ---- batcher ---------------------------------------------------------------------

func runBatch(c *vh.Ctx, cs Case) {
	kind := fmt.Sprintf("batch:%s", cs.Mode)
	if cs.Self {
		kind = "batch:self-propose"
	}
	var f *fixture
	var err error
	if cs.Self {
		f, err = newProposerFixture(fmt.Sprintf("c31-%d", cs.Seed))
	} else {
		f, err = newFixture(fmt.Sprintf("c31-%d", cs.Seed), cs.Mode)
	}
	if err != nil {
		panic(err)
	}
	defer f.close()
	f.reuse = true
	need := map[int]int{}
	for _, s := range cs.Shapes {
		if s.Inputs == 0 {
			f.amount = common.NewIntegerFromString("1")
			need[1] = max(need[1], 1)
		} else if s.Inputs > need[s.Keys] {
			need[s.Keys] = s.Inputs
		}
	}
	for k, n := range need {
		if err := f.fund(k, n, false); err != nil {
			panic(err)
		}
	}
	queued := map[crypto.Hash]int{}
	total := 0
	for _, s := range cs.Shapes {
		var tx *common.VersionedTransaction
		if s.Inputs == 0 {
			tx, err = f.buildStorageTx(s.Extra)
		} else {
			tx, err = f.buildSignedTx(s.Inputs, s.Keys, s.Extra)
		}
		if err != nil {
			panic(err)
		}
		n := len(tx.Marshal())
		queued[tx.PayloadHash()] = n
		total += n
		if err := f.b.Queue(tx); err != nil {
			panic(err)
		}
	}
	if total > 22<<20 {
		kind += ":over-threshold"
	}
	if cs.Self {
		if !f.b.LocalCanPropose() {
			panic("fixture broken: the node is not in proposing state")
		}
	}
	popped, sent, pv := f.b.RunOnce()
	key := fmt.Sprintf("%s|%v|%v", cs.Mode, cs.Self, cs.Shapes)
	if pv != nil {
		c.Case(kind, key, false, cs, "")
		msg := fmt.Sprint(pv)
		if len(msg) > 80 {
			msg = fmt.Sprintf("%s... (%d characters)", msg[:80], len(msg))
		}
		c.Fail("batch-message-exceeds-transport-maximum", fmt.Sprintf("the batcher loop panicked while sending a batch out of %d queued transactions (%d signed bytes): %s", len(cs.Shapes), total, msg), cs)
		return
	}
	// transactions sent to peers, in the order they were offered: singles during the loop, the batch last
	var msgs []*parsedMessage
	bad := ""
	for _, s := range sent {
		pm, err := parseSent(s.Data)
		if err != nil || pm.typ != peerMessageTypeTransactionBundle {
			bad = fmt.Sprintf("a sent message is not a transaction bundle (%v)", err)
			continue
		}
		if len(s.Data) > maxSize || pm.inner+relayHeaderSize > maxSize {
			c.Fail("batch-message-exceeds-transport-maximum", fmt.Sprintf("a bundle of %d transactions is %d bytes (%d on the wire), above the transport maximum %d", len(pm.txs), pm.inner, len(s.Data), maxSize), cs)
		}
		msgs = append(msgs, pm)
	}
	// the batch and the transactions outside it
	var batch []*common.VersionedTransaction
	var singles [][]*common.VersionedTransaction
	batchLen := 0
	if cs.Self {
		// snapshots the node proposed for itself: singles during the loop, the batch last
		props := f.b.PopSelfProposals()
		if len(props) == 0 {
			bad = "the proposing node proposed no snapshot"
		}
		for i, p := range props {
			var txs []*common.VersionedTransaction
			for _, h := range p.Transactions {
				tx, err := f.b.CachedTransaction(h)
				if err != nil || tx == nil {
					bad = fmt.Sprintf("transaction %s of a self-proposed snapshot is not in the cache (%v)", h, err)
					continue
				}
				txs = append(txs, tx)
			}
			if i == len(props)-1 {
				batch = txs
			} else {
				singles = append(singles, txs)
			}
		}
		for _, m := range msgs {
			singles = append(singles, m.txs)
		}
	} else if len(msgs) > 0 {
		batch = msgs[len(msgs)-1].txs
		batchLen = msgs[len(msgs)-1].inner
		for _, m := range msgs[:len(msgs)-1] {
			singles = append(singles, m.txs)
		}
	}
	if bad != "" || popped != len(cs.Shapes) || len(batch) == 0 {
		c.Case(kind, key, false, cs, "")
		c.Fail("batch-lost", fmt.Sprintf("popped %d of %d queued transactions, %d messages, batch of %d; %s", popped, len(cs.Shapes), len(msgs), len(batch), bad), cs)
		return
	}
	var entries, adm []string
	seen, signed := 0, 0
	for _, tx := range batch {
		n := len(tx.Marshal())
		signed += n
		entries = append(entries, fmt.Sprintf("(%s, true)", vh.ZI(int64(n))))
		adm = append(adm, "true")
		if _, ok := queued[tx.PayloadHash()]; ok {
			seen++
		}
	}
	for _, txs := range singles {
		for _, tx := range txs {
			entries = append(entries, fmt.Sprintf("(%s, true)", vh.ZI(int64(len(tx.Marshal())))))
			adm = append(adm, "false")
			if _, ok := queued[tx.PayloadHash()]; ok {
				seen++
			}
		}
		if len(txs) != 1 {
			c.Fail("batch-shape", "a transaction outside the batch was not sent alone", cs)
		}
	}
	if cs.Self {
		batchLen = selfProposedMessages(c, cs, f, batch, signed)
	}
	if signed > 1<<20 {
		// the largest kind of message the batcher admits, framed by the real Send / Receive
		wire := []byte(nil)
		if !cs.Self && len(sent) > 0 {
			wire = sent[len(sent)-1].Data
		} else {
			var me, to crypto.Hash
			me, to[0] = f.b.SelfId(), 9
			vh.Catch(func() {
				wire = p2p.VerifBuildRelayMessage(me, to, p2p.VerifBuildTransactionsMessage(batch, p2p.PeerMessageTypeTransactionBundle))
			})
		}
		if wire != nil {
			l := newLink()
			frameThroughReceive(c, cs, &l, wire, "batch")
			l.close()
		}
	}
	c.Case(kind, key, true, cs, vh.App("CBatch", vh.Bool(cs.Self), vh.List(entries, "(Z * bool)"), vh.List(adm, "bool"), vh.ZI(int64(batchLen))))
	if seen != len(cs.Shapes) {
		c.Fail("batch-lost", fmt.Sprintf("%d of %d queued transactions were sent or proposed", seen, len(cs.Shapes)), cs)
	}
}

// selfProposedMessages builds, with the real builders, every message kind of
// the snapshot exchange that carries the transactions of the snapshot the node
// proposed for itself, and requires each to fit the transport maximum together
// with the relay header.  Returns the length of the bundle message.
func selfProposedMessages(c *vh.Ctx, cs Case, f *fixture, batch []*common.VersionedTransaction, signed int) int {
	if signed >= maxSize*2/3 {
		c.Fail("self-proposed-batch-over-budget", fmt.Sprintf("the node proposed its own snapshot over %d transactions of %d signed bytes, not below 2/3 of the transport maximum as on the forwarding path", len(batch), signed), cs)
	}
	s := &common.Snapshot{Version: common.SnapshotVersionCommonEncoding, NodeId: f.b.SelfId(), RoundNumber: 1,
		References: &common.RoundLink{Self: crypto.Blake3Hash([]byte("self")), External: crypto.Blake3Hash([]byte("external"))},
		Timestamp:  uint64(time.Now().UnixNano())}
	for _, tx := range batch {
		s.AddTransaction(tx.PayloadHash())
	}
	cosi := &crypto.CosiSignature{Mask: 1<<27 - 1}
	signedSnap := *s
	signedSnap.Signature = cosi
	k := crypto.NewKeyFromSeed(bytes.Repeat([]byte{7}, 64)).Public()
	var me, to crypto.Hash
	me, to[0] = f.b.SelfId(), 9
	bundleLen := 0
	build := func(name string, fn func() []byte) {
		var out []byte
		pan, pv := vh.Catch(func() { out = fn() })
		if pan {
			c.Fail("self-proposed-batch-exceeds-transport-maximum", fmt.Sprintf("building the %s message over the self-proposed batch of %d transactions panicked: %.80v", name, len(batch), pv), cs)
			return
		}
		if name == "bundle" {
			bundleLen = len(out)
		}
		c.Count("self-propose:" + name)
		var relayed []byte
		rpan, _ := vh.Catch(func() { relayed = p2p.VerifBuildRelayMessage(me, to, out) })
		if len(out) > maxSize || len(out)+relayHeaderSize > maxSize || rpan || len(relayed) > maxSize {
			c.Fail("self-proposed-batch-exceeds-transport-maximum", fmt.Sprintf("the %s message over the self-proposed batch of %d transactions (%d signed bytes) is %d bytes; with the relay header it does not fit the transport maximum %d", name, len(batch), signed, len(out), maxSize), cs)
		}
	}
	build("bundle", func() []byte { return p2p.VerifBuildTransactionsMessage(batch, p2p.PeerMessageTypeTransactionBundle) })
	build("finalized bundle", func() []byte {
		return p2p.VerifBuildTransactionsMessage(batch, p2p.PeerMessageTypeFinalizedTransactionBundle)
	})
	build("transaction challenge", func() []byte { return p2p.VerifBuildTransactionChallengeMessage(s.PayloadHash(), cosi, batch) })
	build("full challenge", func() []byte { return p2p.VerifBuildFullChallengeMessage(&signedSnap, &k, &k, batch) })
	return bundleLen
}

// ---- builders on sizes ----------------------------------------------------------------

func smallTx(r *vh.Rand, extra int) *common.VersionedTransaction {
	var h crypto.Hash
	copy(h[:], r.Bytes(32))
	tx := common.NewTransactionV5(h)
	tx.AddInput(h, uint(r.Intn(4)))
	seed := make([]byte, 64)
	copy(seed, r.Bytes(32))
	k := crypto.NewKeyFromSeed(seed).Public()
	tx.Outputs = []*common.Output{{Type: common.OutputTypeScript, Amount: common.NewInteger(1), Script: common.NewThresholdScript(1), Keys: []*crypto.Key{&k}, Mask: k}}
	tx.Extra = r.Bytes(extra)
	ver := tx.AsVersioned()
	m := map[uint16]*crypto.Signature{}
	for j := 0; j < r.Range(1, 3); j++ {
		var sg crypto.Signature
		copy(sg[:], r.Bytes(64))
		m[uint16(j)] = &sg
	}
	ver.SignaturesMap = []map[uint16]*crypto.Signature{m}
	return ver
}

func runBundle(c *vh.Ctx, cs Case) {
	r := vh.NewRand(cs.Seed, "c31/bundle")
	txs := make([]*common.VersionedTransaction, len(cs.Sizes))
	sizes := make([]int, len(cs.Sizes))
	want := 2
	for i, e := range cs.Sizes {
		txs[i] = smallTx(r, e)
		sizes[i] = len(txs[i].Marshal())
		want += 4 + sizes[i]
	}
	var out []byte
	pan, pv := vh.Catch(func() { out = p2p.VerifBuildTransactionsMessage(txs, p2p.PeerMessageTypeTransactionBundle) })
	if pan {
		c.Case("bundle", fmt.Sprint(cs.Seed, cs.Sizes), false, cs, "")
		if len(txs) <= common.SnapshotTransactionsMaximum {
			c.Fail("bundle-builder-panics", fmt.Sprint(pv), cs)
		}
		return
	}
	c.Case("bundle", fmt.Sprint(cs.Seed, cs.Sizes), true, cs, vh.App("CBundleSize", zl(sizes), vh.ZI(int64(len(out)))))
	if len(out) != want {
		c.Fail("bundle-size", fmt.Sprintf("bundle of %d transactions is %d bytes, 1+1+sum(4+size) = %d", len(txs), len(out), want), cs)
	}
}

func runRelay(c *vh.Ctx, cs Case) {
	var me, to crypto.Hash
	me[0], to[0] = 1, 2
	inner := make([]byte, cs.N)
	var out []byte
	pan, _ := vh.Catch(func() { out = p2p.VerifBuildRelayMessage(me, to, inner) })
	obs := vh.Pan("Z")
	if !pan {
		obs = vh.Ok(vh.ZI(int64(len(out))))
	}
	c.Case("relay", fmt.Sprint(cs.N), !pan, cs, vh.App("CRelaySize", vh.ZI(int64(cs.N)), obs))
	if pan != (cs.N > maxSize) {
		c.Fail("relay-guard", fmt.Sprintf("buildRelayMessage around %d bytes: panicked=%v", cs.N, pan), cs)
	} else if !pan && len(out) != cs.N+relayHeaderSize {
		c.Fail("relay-size", fmt.Sprintf("relay message around %d bytes has %d bytes", cs.N, len(out)), cs)
	}
}

// ---- QUIC framing ---------------------------------------------------------------------

type link struct {
	relayer *p2p.QuicRelayer
	client  *p2p.QuicClient // dialing side
	server  p2p.Client      // accepting side
}

// newLink opens a loopback QUIC pair; on a loaded machine the handshake can
// time out, so it is tried several times.
func newLink() *link {
	var last any
	for attempt := 0; attempt < 6; attempt++ {
		l, err := tryLink()
		if err == nil {
			return l
		}
		last = err
		time.Sleep(time.Duration(attempt+1) * time.Second)
	}
	panic(fmt.Sprint("no loopback quic link: ", last))
}

func tryLink() (*link, error) {
	rl, err := p2p.NewQuicRelayer("127.0.0.1:0")
	if err != nil {
		return nil, err
	}
	type accepted struct {
		c   p2p.Client
		err error
	}
	acc := make(chan accepted, 1)
	go func() {
		s, err := rl.Accept(context.Background())
		acc <- accepted{s, err}
	}()
	cl, err := p2p.NewQuicConsumer(context.Background(), p2p.VerifRelayerAddr(rl))
	if err != nil {
		rl.Close()
		return nil, err
	}
	fail := func(err error) (*link, error) {
		cl.Close("retry")
		rl.Close()
		return nil, err
	}
	// the accepting side only sees the stream once data flows on it
	if err := cl.Send([]byte("open")); err != nil {
		return fail(err)
	}
	var srv p2p.Client
	select {
	case a := <-acc:
		if a.err != nil {
			return fail(a.err)
		}
		srv = a.c
	case <-time.After(30 * time.Second):
		return fail(fmt.Errorf("quic accept timeout"))
	}
	if m, err := srv.Receive(); err != nil || string(m.Data) != "open" {
		srv.Close("retry")
		return fail(fmt.Errorf("quic open %v", err))
	}
	return &link{rl, cl, srv}, nil
}

func (l *link) close() {
	l.client.Close("done")
	l.server.Close("done")
	l.relayer.Close()
}

const frT = "(N * list N)"

func runFrames(c *vh.Ctx, cs Case) {
	r := vh.NewRand(cs.Seed, "c31/frames")
	l := newLink()
	defer l.close()
	for _, n := range cs.Sizes {
		data := r.Bytes(n)
		if n > 4096 {
			data = bytes.Repeat([]byte{byte(n)}, n)
		}
		var m *p2p.TransportMessage
		var rerr, serr error
		if n >= 1 && n <= maxSize {
			// a large message only drains while the other side reads
			errc := make(chan error, 1)
			go func() { errc <- l.client.Send(data) }()
			m, rerr = l.server.Receive()
			serr = <-errc
		} else {
			serr = l.client.Send(data)
		}
		if isTimeout(rerr) || isTimeout(serr) {
			c.Count("inconclusive(transport timeout)")
			return
		}
		accepted := serr == nil
		c.Case("send", fmt.Sprint("send", n), accepted, cs, vh.App("CSendSize", vh.ZI(int64(n)), vh.Bool(accepted)))
		if accepted != (n >= 1 && n <= maxSize) {
			c.Fail("send-guard", fmt.Sprintf("Send of %d bytes: accepted=%v (%v)", n, accepted, serr), cs)
		}
		if !accepted {
			continue
		}
		term := ""
		if n <= 2048 {
			obs := vh.Err(frT)
			if rerr == nil {
				obs = vh.Ok("(" + vh.NU(uint64(m.Version)) + ", " + vh.Bytes(m.Data) + ")")
			}
			term = vh.App("CFrame", vh.Bytes(data), obs)
		}
		c.Case("frame", fmt.Sprint("frame", cs.Seed, n), rerr == nil, cs, term)
		if rerr != nil || !bytes.Equal(m.Data, data) || int(m.Size) != n || m.Version != p2p.TransportMessageVersion {
			c.Fail("frame-roundtrip", fmt.Sprintf("a %d-byte message did not come back from the stream unchanged (%v)", n, rerr), cs)
			return
		}
	}
}

// isTimeout: the error is an expired deadline / idle timeout of the transport
// (a loaded machine), not a decision of the framing code.  Such an outcome says
// nothing about the property; the exchange is repeated on a fresh connection.
func isTimeout(err error) bool {
	if err == nil {
		return false
	}
	if errors.Is(err, os.ErrDeadlineExceeded) || errors.Is(err, context.DeadlineExceeded) {
		return true
	}
	var ne net.Error
	return errors.As(err, &ne) && ne.Timeout()
}

// frameThroughReceive sends data with the real Send and takes it from the other
// end with the real QuicClient.Receive (the limit is whatever Receive itself
// passes).  Only sizes go to the model.  *lp is replaced by a fresh link when
// the old one is no longer usable.
func frameThroughReceive(c *vh.Ctx, cs Case, lp **link, data []byte, what string) bool {
	n := len(data)
	var m *p2p.TransportMessage
	var rerr, serr error
	sendOk := false
	for attempt := 0; ; attempt++ {
		l := *lp
		m, rerr, serr = nil, nil, nil
		if n >= 1 && n <= maxSize {
			errc := make(chan error, 1)
			go func() { errc <- l.client.Send(data) }()
			m, rerr = l.server.Receive()
			if rerr != nil {
				l.server.Close("refused") // lets the blocked Send return
			}
			serr = <-errc
			sendOk = serr == nil || rerr != nil // a receiver that stopped reading is not a refusal by Send
		} else {
			serr = l.client.Send(data)
			sendOk = serr == nil
		}
		if isTimeout(rerr) || (rerr == nil && isTimeout(serr)) {
			l.close()
			*lp = newLink()
			if attempt < 2 {
				c.Count("retry(transport timeout)")
				time.Sleep(time.Duration(attempt+1) * 3 * time.Second)
				continue
			}
			if n <= 1<<16 {
				// a small frame needs no bandwidth: three stalls in a row on fresh connections are the code's
				c.Case("bigframe:"+what, fmt.Sprint("bigframe", what, n), false, cs, vh.App("CFrameBig", vh.ZI(int64(n)), vh.Bool(true), vh.Err("Z")))
				c.Fail("frame-stalled", fmt.Sprintf("a %d-byte message (%s) that Send accepts never arrived whole: Receive ran into its read deadline three times on fresh connections", n, what), cs)
				return false
			}
			c.Count("inconclusive(transport timeout)")
			c.Note(fmt.Sprintf("a %d-byte frame (%s) timed out in the transport three times; not evaluated", n, what))
			return true
		}
		break
	}
	obs := vh.Err("Z")
	same := false
	if sendOk && rerr == nil && m != nil {
		same = bytes.Equal(m.Data, data) && int(m.Size) == n && m.Version == p2p.TransportMessageVersion
		if same {
			obs = vh.Ok(vh.ZI(int64(len(m.Data))))
		}
	}
	c.Case("bigframe:"+what, fmt.Sprint("bigframe", what, n), same, cs, vh.App("CFrameBig", vh.ZI(int64(n)), vh.Bool(sendOk), obs))
	broken := false
	if sendOk != (n >= 1 && n <= maxSize) {
		c.Fail("send-guard", fmt.Sprintf("Send of %d bytes (%s): accepted=%v (%v)", n, what, sendOk, serr), cs)
		broken = true
	} else if sendOk && !same {
		c.Fail("frame-roundtrip", fmt.Sprintf("a %d-byte message (%s), which Send accepts and which is within the transport maximum %d, did not come back from Receive unchanged (%v)", n, what, maxSize, rerr), cs)
		broken = true
	}
	if broken || rerr != nil {
		(*lp).close()
		*lp = newLink()
	}
	return !broken
}

// runSweep frames every payload length of a range (and the neighbourhood of the
// powers of two above it) through the real Send / Receive: sizes only go to the model.
func runSweep(c *vh.Ctx, cs Case) {
	r := vh.NewRand(cs.Seed, "c31/sweep")
	l := newLink()
	defer func() { l.close() }()
	var sizes []int
	for n := cs.Sizes[0]; n <= cs.Sizes[1]; n++ {
		sizes = append(sizes, n)
	}
	for p := 12; p <= 16; p++ {
		for d := -7; d <= 7; d++ {
			sizes = append(sizes, 1<<uint(p)+d)
		}
	}
	for _, n := range sizes {
		if !frameThroughReceive(c, cs, &l, r.Bytes(n), "sweep") {
			return // the first broken length is the replay; the rest would only repeat it
		}
	}
}

func runBigFrames(c *vh.Ctx, cs Case) {
	r := vh.NewRand(cs.Seed, "c31/bigframes")
	l := newLink()
	defer func() { l.close() }()
	for _, n := range cs.Sizes {
		data := make([]byte, n)
		for i := 0; i+8 <= n; i += 8 {
			binary.LittleEndian.PutUint64(data[i:], r.U64())
		}
		frameThroughReceive(c, cs, &l, data, "synthetic")
	}
}

// runRawReal writes a bare 6-byte header to the stream and calls the real
// QuicClient.Receive on the other end.
func runRawReal(c *vh.Ctx, cs Case) {
	raw, err := hex.DecodeString(cs.Data)
	if err != nil || len(raw) != 6 {
		panic("rawreal needs a 6-byte header")
	}
	announced := binary.BigEndian.Uint32(raw[2:6])
	if raw[0] == p2p.TransportMessageVersion && announced <= maxSize && announced > 0 {
		panic("rawreal would block waiting for a body")
	}
	var m *p2p.TransportMessage
	var rerr error
	var el time.Duration
	var alloc uint64
	for attempt := 0; attempt < 2; attempt++ { // a read timeout is confirmed on a second, fresh connection
		l := newLink()
		if _, err := p2p.VerifRawWrite(l.server, raw); err != nil {
			l.close()
			continue
		}
		var ms0, ms1 runtime.MemStats
		runtime.GC()
		runtime.ReadMemStats(&ms0)
		t0 := time.Now()
		m, rerr = l.client.Receive()
		el = time.Since(t0)
		runtime.ReadMemStats(&ms1)
		alloc = ms1.TotalAlloc - ms0.TotalAlloc
		l.close()
		if !isTimeout(rerr) {
			break
		}
	}
	obs := vh.Err("Z")
	if rerr == nil {
		obs = vh.Ok(vh.ZI(int64(len(m.Data))))
	}
	c.Case("rawreal", fmt.Sprint("rawreal", cs.Data), rerr == nil, cs, vh.App("CRecvHeader", vh.NU(uint64(raw[0])), vh.ZU(uint64(announced)), obs))
	if announced > maxSize {
		if rerr == nil {
			c.Fail("oversize-accepted", fmt.Sprintf("Receive accepted a header announcing %d bytes, above the transport maximum %d", announced, maxSize), cs)
		} else if isTimeout(rerr) {
			c.Fail("oversize-waits-for-body", fmt.Sprintf("refusing a header announcing %d bytes ended in a read timeout after %v: the body was awaited", announced, el), cs)
		} else if alloc >= uint64(announced) {
			c.Fail("oversize-allocated", fmt.Sprintf("refusing a header announcing %d bytes allocated %d bytes", announced, alloc), cs)
		}
	}
}

func runRaw(c *vh.Ctx, cs Case) {
	raw, err := hex.DecodeString(cs.Data)
	if err != nil {
		panic(err)
	}
	limit := cs.Limit
	var m *p2p.TransportMessage
	var rerr error
	var el time.Duration
	var alloc uint64
	for attempt := 0; attempt < 2; attempt++ { // a read timeout is confirmed on a second, fresh connection
		l := newLink()
		if _, err := p2p.VerifRawWrite(l.server, raw); err != nil {
			l.close()
			continue
		}
		var ms0, ms1 runtime.MemStats
		runtime.GC()
		runtime.ReadMemStats(&ms0)
		t0 := time.Now()
		m, rerr = p2p.VerifReceiveWithLimit(l.client, limit)
		el = time.Since(t0)
		runtime.ReadMemStats(&ms1)
		alloc = ms1.TotalAlloc - ms0.TotalAlloc
		l.close()
		if !isTimeout(rerr) {
			break
		}
	}
	obs := vh.Err(frT)
	if rerr == nil {
		obs = vh.Ok("(" + vh.NU(uint64(m.Version)) + ", " + vh.Bytes(m.Data) + ")")
	}
	c.Case("raw", fmt.Sprint("raw", limit, cs.Data), rerr == nil, cs, vh.App("CRecvRaw", vh.ZU(uint64(limit)), vh.Bytes(raw), obs))
	if len(raw) >= 6 {
		announced := binary.BigEndian.Uint32(raw[2:6])
		if limit > 0 && limit <= maxSize && announced > limit {
			if rerr == nil {
				c.Fail("oversize-accepted", fmt.Sprintf("a header announcing %d bytes was accepted under the limit %d", announced, limit), cs)
			} else if isTimeout(rerr) {
				c.Fail("oversize-waits-for-body", fmt.Sprintf("refusing a header announcing %d bytes ended in a read timeout after %v: the body was awaited", announced, el), cs)
			} else if announced >= 1<<20 && alloc >= uint64(announced) {
				c.Fail("oversize-allocated", fmt.Sprintf("refusing a header announcing %d bytes allocated %d bytes", announced, alloc), cs)
			}
		}
		if raw[0] == p2p.TransportMessageVersion && limit > 0 && limit <= maxSize && announced <= limit && len(raw)-6 >= int(announced) {
			if rerr != nil || !bytes.Equal(m.Data, raw[6:6+announced]) {
				c.Fail("frame-refused", fmt.Sprintf("a well-formed %d-byte frame was not received (%v)", announced, rerr), cs)
			}
		}
	}
}

func run(c *vh.Ctx, cs Case) {
	switch cs.Op {
	case "batch":
		runBatch(c, cs)
	case "bundle":
		runBundle(c, cs)
	case "relay":
		runRelay(c, cs)
	case "frames":
		runFrames(c, cs)
	case "bigframes":
		runBigFrames(c, cs)
	case "sweep":
		runSweep(c, cs)
	case "rawreal":
		runRawReal(c, cs)
	case "raw":
		runRaw(c, cs)
	default:
		panic("unknown op " + cs.Op)
	}
}

func hdr(version byte, size uint32, body int) string {
	b := []byte{version, 0, 0, 0, 0, 0}
	binary.BigEndian.PutUint32(b[2:], size)
	for i := 0; i < body; i++ {
		b = append(b, byte(i*7+1))
	}
	return hex.EncodeToString(b)
}

func repeatShape(n int, s Shape) []Shape {
	out := make([]Shape, n)
	for i := range out {
		out[i] = s
	}
	return out
}

func main() {
	c := vh.Start("C31")
	c.Rep.Rule = "batches: real signed script transactions (i inputs spending k-key outputs, every key signing, e bytes of extra) queued on a " +
		"real node and processed by the real batcher loop, on the forwarding path and with the node in proposing state (peers' sync points " +
		"known: the batch becomes its own snapshot, whose bundle / challenge messages are then built by the real builders; one batch of " +
		"ten 4 MB storage transactions); random small batches, one batch of 6 transactions of 238x256 signatures " +
		"(24 MB signed, crosses the 2/3 threshold) in the quick tier and the 9-transaction batch (36 MB signed, F8 shape) in the " +
		"thorough and search tiers; bundle/relay builders on random sizes and at the maximum +-1; QUIC loopback frames of sizes " +
		"0,1,..,max,max+1, every payload length 1..2200 and 2^12..2^16 +-7, frames of 16 MiB+1 / 2/3 max / max (thorough: 1, 8, 16 MiB +-1, max-1) and the real batch messages through the real Receive with its own limit, raw headers through the real Receive (max+1, 2 max, 2^32-1) and raw headers (wrong version, size = limit, limit+1, 2^32-1). Non-trivial = the loop sent a batch / the " +
		"builder or framing returned a value; distinct by shapes / sizes."
	if c.Replay != "" {
		var cs Case
		c.ReplayCase(&cs)
		run(c, cs)
		c.Finish()
		return
	}
	r := c.Rng
	big := Shape{238, 256, 0}
	var cases []Case
	// framing and builders: cheap
	cases = append(cases,
		Case{Op: "frames", Seed: r.U64(), Sizes: []int{0, 1, 2, 5, 6, 7, 255, 256, 2048, 65535, 65536, 1 << 20, maxSize + 1}},
		Case{Op: "raw", Limit: maxSize, Data: hdr(2, maxSize+1, 0)},
		Case{Op: "raw", Limit: maxSize, Data: hdr(2, 0xffffffff, 3)},
		Case{Op: "raw", Limit: maxSize, Data: hdr(3, 4, 4)},
		Case{Op: "raw", Limit: maxSize, Data: hdr(0, 0, 0)},
		Case{Op: "raw", Limit: 100, Data: hdr(2, 101, 101)},
		Case{Op: "raw", Limit: 100, Data: hdr(2, 100, 100)},
		Case{Op: "raw", Limit: 100, Data: hdr(2, 0, 0)},
		Case{Op: "raw", Limit: 0, Data: hdr(2, 1, 1)},
		Case{Op: "raw", Limit: maxSize + 1, Data: hdr(2, 1, 1)},
	)
	for _, n := range []int{0, 1, 65, maxSize - 1, maxSize, maxSize + 1} {
		cases = append(cases, Case{Op: "relay", N: n})
	}
	// realistic sizes through the real Receive (its own limit): quick keeps the ones around half the
	// maximum, the batcher's 2/3 budget and the maximum itself
	bigSizes := []int{16<<20 + 1, maxSize * 2 / 3, maxSize, maxSize + 1}
	if c.Tier != "quick" {
		bigSizes = []int{1 << 20, 8 << 20, 16<<20 - 1, 16 << 20, 16<<20 + 1, maxSize * 2 / 3, maxSize*2/3 + 1020 + 2, maxSize - 1, maxSize, maxSize + 1}
	}
	cases = append(cases, Case{Op: "bigframes", Seed: r.U64(), Sizes: bigSizes})
	// every payload length 1..2200 and around 4 KiB .. 64 KiB
	cases = append(cases, Case{Op: "sweep", Seed: r.U64(), Sizes: []int{1, 2200}})
	for _, a := range []uint32{maxSize + 1, 2 * maxSize, 0xffffffff} {
		cases = append(cases, Case{Op: "rawreal", Data: hdr(2, a, 0)})
	}
	cases = append(cases, Case{Op: "rawreal", Data: hdr(2, 0, 0)}, Case{Op: "rawreal", Data: hdr(3, 5, 0)})
	cases = append(cases, Case{Op: "bundle", Seed: 1, Sizes: nil}, Case{Op: "bundle", Seed: 2, Sizes: make([]int, 255)}, Case{Op: "bundle", Seed: 3, Sizes: make([]int, 256)})
	nb := c.Scale(40, 400)
	for i := 0; i < nb; i++ {
		k := r.Intn(12)
		sz := make([]int, k)
		for j := range sz {
			sz[j] = r.Intn(300)
		}
		cases = append(cases, Case{Op: "bundle", Seed: r.U64(), Sizes: sz})
		cases = append(cases, Case{Op: "relay", N: r.Intn(5000)})
	}
	for i := 0; i < c.Scale(3, 30); i++ {
		k := r.Range(1, 8)
		sz := make([]int, k)
		for j := range sz {
			sz[j] = []int{1, r.Range(1, 300), r.Range(300, 3000), 1 << uint(r.Range(10, 21))}[r.Intn(4)]
		}
		cases = append(cases, Case{Op: "frames", Seed: r.U64(), Sizes: sz})
		cases = append(cases, Case{Op: "raw", Limit: uint32(r.Range(1, 4000)), Data: hdr(2, uint32(r.Range(0, 5000)), 5000)})
	}
	if c.Tier == "thorough" {
		cases = append(cases, Case{Op: "frames", Seed: r.U64(), Sizes: []int{maxSize - 1, maxSize}})
	}
	// batches through the real loop
	for i := 0; i < c.Scale(3, 25); i++ {
		n := r.Range(1, 12)
		sh := make([]Shape, n)
		for j := range sh {
			sh[j] = Shape{r.Range(1, 6), []int{1, 2, 4, 16}[r.Intn(4)], r.Intn(200)}
		}
		cases = append(cases, Case{Op: "batch", Seed: r.U64(), Mode: []string{"relay", "direct"}[i%2], Shapes: sh})
	}
	// the node proposes itself: ten storage transactions of about 4 MB each (40 MB signed)
	cases = append(cases, Case{Op: "batch", Seed: 11, Mode: "relay", Self: true, Shapes: repeatShape(10, Shape{0, 0, 4000000})})
	for i := 0; i < c.Scale(1, 10); i++ {
		n := r.Range(1, 12)
		sh := make([]Shape, n)
		for j := range sh {
			sh[j] = Shape{r.Range(1, 6), []int{1, 2, 4, 16}[r.Intn(4)], r.Intn(200)}
			if r.Chance(1, 3) {
				sh[j] = Shape{0, 0, r.Range(300, 200000)}
			}
		}
		cases = append(cases, Case{Op: "batch", Seed: r.U64(), Mode: "relay", Self: true, Shapes: sh})
	}
	switch c.Tier {
	case "quick":
		cases = append(cases, Case{Op: "batch", Seed: 6, Mode: "relay", Shapes: repeatShape(6, big)})
	default: // thorough, search: the batch that exceeded the maximum before the F8 repair
		cases = append([]Case{{Op: "batch", Seed: 9, Mode: "relay", Shapes: repeatShape(9, big)}}, cases...)
		if c.Tier == "thorough" {
			cases = append(cases, Case{Op: "batch", Seed: 10, Mode: "direct", Shapes: append(repeatShape(5, big), Shape{100, 256, 50}, Shape{3, 4, 0}, Shape{238, 256, 9})})
		}
	}
	for _, cs := range cases {
		run(c, cs)
	}
	c.Finish()
	_ = os.Getenv
}
