// C23 harness: runs histories of CacheQueueTransaction / CacheStoreTransaction /
// CacheRetrieveTransactions / CacheRemoveTransactions / CacheGetTransaction on a
// real Badger cache store.  Sequential histories are sent to the Coq model
// (coq/Model/Cache.v) op by op with what each call returned and the final dump
// of the three record families; concurrent histories (8 goroutines) are checked
// by the oracle only.  The oracle is a transcription of the property text:
// returns(h) <= successful queueings(h), a retrieval has no duplicates and at
// most `limit` elements, a retrieved body is still stored, a queued transaction
// is retrievable, a removed body is gone, a stored-only body is never retrieved.
// Record TTL expiry (hours) is outside the model and never fires here.
package main

import (
	"bytes"
	"fmt"
	"os"
	"path/filepath"
	"strings"
	"sync"

	"github.com/MixinNetwork/mixin/common"
	"github.com/MixinNetwork/mixin/config"
	"github.com/MixinNetwork/mixin/crypto"
	"github.com/MixinNetwork/mixin/storage"
	"verifharness/vh"
)

const (
	nPayloads = 12
	nVariants = 3
)

type Op struct {
	K     string `json:"k"` // queue store retrieve remove get | rawq rawo rawp
	P     int    `json:"p,omitempty"`
	V     int    `json:"v,omitempty"` // signature variant; rawp: -1 = undecodable bytes
	Limit int    `json:"limit,omitempty"`
	Hs    []int  `json:"hs,omitempty"`
	Ts    uint64 `json:"ts,omitempty"`
}

type Case struct {
	Mode    string `json:"mode"` // seq | conc
	Pre     []Op   `json:"pre,omitempty"`
	Ops     []Op   `json:"ops,omitempty"`
	Threads [][]Op `json:"threads,omitempty"`
	Repeat  int    `json:"repeat,omitempty"`
}

// ---- transaction pool ---------------------------------------------------------

var pool [nPayloads][nVariants]*common.VersionedTransaction
var poolHash [nPayloads]crypto.Hash
var bodyID = map[string]int{} // marshalled bytes -> model body number (>= 1)
var hashIdx = map[crypto.Hash]int{}

func buildPool() {
	for p := 0; p < nPayloads; p++ {
		for v := 0; v < nVariants; v++ {
			tx := common.NewTransactionV5(common.XINAssetId)
			tx.Extra = []byte(fmt.Sprintf("verif-c23-%d", p))
			ver := tx.AsVersioned()
			if v > 0 {
				sig := crypto.Signature{byte(v), byte(p)}
				ver.SignaturesMap = []map[uint16]*crypto.Signature{{0: &sig}}
			}
			pool[p][v] = ver
			bodyID[string(ver.Marshal())] = 1 + p*nVariants + v
		}
		poolHash[p] = pool[p][0].PayloadHash()
		for v := 1; v < nVariants; v++ {
			if pool[p][v].PayloadHash() != poolHash[p] { // also fills the hash cache before goroutines share it
				panic("signature variants must share the payload hash")
			}
		}
		hashIdx[poolHash[p]] = p
	}
	for p := 0; p < nPayloads; p++ {
		for q := 0; q < nPayloads; q++ {
			if bytes.Compare(poolHash[q][:], poolHash[p][:]) < 0 {
				poolRank[p]++
			}
		}
	}
}

func bodyOf(ver *common.VersionedTransaction) int {
	id, ok := bodyID[string(ver.Marshal())]
	if !ok {
		return -1
	}
	return id
}

// A payload hash is sent to the model as 1 + its rank among the pool's hashes in
// byte order: the model only uses equality and the order of hashes (Badger key
// order on equal timestamps), both preserved; 77-digit literals are slow to parse.
var poolRank [nPayloads]int

func hN(p int) string { return vh.NU(uint64(1 + poolRank[p])) }

func hashN(h crypto.Hash) string {
	p, ok := hashIdx[h]
	if !ok {
		return vh.NU(0)
	}
	return hN(p)
}

// ---- store ----------------------------------------------------------------------

var store *storage.BadgerStore

func openStore() func() {
	repo := os.Getenv("VERIF_REPO")
	if repo == "" {
		repo = "/repo"
	}
	custom, err := config.Initialize(filepath.Join(repo, "config", "config.example.toml"))
	if err != nil {
		panic(err)
	}
	dir, err := os.MkdirTemp("", "verif-c23-")
	if err != nil {
		panic(err)
	}
	store, err = storage.NewBadgerStore(custom, dir)
	if err != nil {
		panic(err)
	}
	return func() { store.Close(); os.RemoveAll(dir) }
}

// ---- one observed call ----------------------------------------------------------

type result struct {
	err  bool
	txs  []retTx // retrieve
	body int     // get: 0 = nil, else body number
}

type retTx struct {
	hash crypto.Hash
	body int
	raw  []byte
}

func apply(o Op) result {
	switch o.K {
	case "queue":
		return result{err: store.CacheQueueTransaction(pool[o.P][o.V]) != nil}
	case "store":
		return result{err: store.CacheStoreTransaction(pool[o.P][o.V]) != nil}
	case "retrieve":
		txs, err := store.CacheRetrieveTransactions(o.Limit)
		r := result{err: err != nil}
		for _, t := range txs {
			r.txs = append(r.txs, retTx{t.PayloadHash(), bodyOf(t), t.Marshal()})
		}
		return r
	case "remove":
		hs := make([]crypto.Hash, len(o.Hs))
		for i, p := range o.Hs {
			hs[i] = poolHash[p]
		}
		return result{err: store.CacheRemoveTransactions(hs) != nil}
	case "get":
		ver, err := store.CacheGetTransaction(poolHash[o.P])
		r := result{err: err != nil}
		if ver != nil {
			r.body = bodyOf(ver)
		}
		return r
	case "rawq":
		return result{err: store.VerifC23RawQueue(o.Ts, poolHash[o.P]) != nil}
	case "rawo":
		return result{err: store.VerifC23RawOrder(poolHash[o.P]) != nil}
	case "rawp":
		val := []byte{0xff}
		if o.V >= 0 {
			val = pool[o.P][o.V].Marshal()
		}
		return result{err: store.VerifC23RawPayload(poolHash[o.P], val) != nil}
	}
	panic("unknown op " + o.K)
}

func dump() *storage.VerifC23State {
	st, err := store.VerifC23Dump()
	if err != nil {
		panic(err)
	}
	return st
}

func canon(cs Case) string {
	var sb strings.Builder
	w := func(ops []Op) {
		for _, o := range ops {
			fmt.Fprintf(&sb, "%s%d.%d.%d%v;", o.K[:2], o.P, o.V, o.Limit, o.Hs)
		}
	}
	sb.WriteString(cs.Mode)
	w(cs.Pre)
	w(cs.Ops)
	for _, t := range cs.Threads {
		sb.WriteString("|")
		w(t)
	}
	return sb.String()
}

// ---- oracle state -----------------------------------------------------------------

type acct struct {
	queued   [nPayloads]int  // successful CacheQueueTransaction calls (+ raw queue records)
	returned [nPayloads]int  // times returned by a retrieval
	expect   [nPayloads]bool // queued and neither returned nor removed since: must be retrievable
	corrupt  bool            // an undecodable body was planted: retrieval may fail as a whole
	planted  [nPayloads]bool // an order record was planted by hand (a state the API cannot reach): no eligibility claim
}

func checkRetrieval(c *vh.Ctx, cs Case, a *acct, o Op, r result, probe bool) {
	if r.err {
		return
	}
	lim := o.Limit
	if lim < 0 {
		lim = 0
	}
	if len(r.txs) > lim {
		c.Fail("retrieve-over-limit", fmt.Sprintf("retrieve(%d) returned %d transactions", o.Limit, len(r.txs)), cs)
	}
	seen := map[crypto.Hash]bool{}
	for _, t := range r.txs {
		if seen[t.hash] {
			c.Fail("retrieve-duplicate", "one retrieval returned transaction "+t.hash.String()+" twice", cs)
		}
		seen[t.hash] = true
		p, ok := hashIdx[t.hash]
		if !ok || t.body < 0 {
			c.Fail("retrieve-unknown", "retrieval returned a transaction nobody wrote: "+t.hash.String(), cs)
			continue
		}
		a.returned[p]++
		a.expect[p] = false
		if a.returned[p] > a.queued[p] {
			c.Fail("returned-more-than-queued", fmt.Sprintf("payload %d returned %d times by retrievals but queued only %d times",
				p, a.returned[p], a.queued[p]), cs)
		}
		if probe { // retrieval keeps the stored body
			ver, err := store.CacheGetTransaction(t.hash)
			if err != nil || ver == nil || !bytes.Equal(ver.Marshal(), t.raw) {
				c.Fail("retrieve-drops-body", fmt.Sprintf("payload %d: body not (identically) stored after being retrieved", p), cs)
			}
		}
	}
}

// ---- sequential histories ------------------------------------------------------------

func coqOp(o Op, ts uint64) string {
	switch o.K {
	case "queue":
		return vh.App("OQueue", vh.NU(ts), hN(o.P), vh.NU(uint64(1+o.P*nVariants+o.V)))
	case "store":
		return vh.App("OStore", hN(o.P), vh.NU(uint64(1+o.P*nVariants+o.V)))
	case "retrieve":
		return vh.App("ORetrieve", vh.ZI(int64(o.Limit)))
	case "remove":
		hs := make([]string, len(o.Hs))
		for i, p := range o.Hs {
			hs[i] = hN(p)
		}
		return vh.App("ORemove", vh.List(hs, "N"))
	case "get":
		return vh.App("OGet", hN(o.P))
	}
	panic(o.K)
}

func coqObs(o Op, r result) string {
	switch o.K {
	case "retrieve":
		if r.err {
			return "(RTxs (@Err (list (N*N))))"
		}
		el := make([]string, len(r.txs))
		for i, t := range r.txs {
			b := t.body
			if b < 0 {
				b = 0
			}
			el[i] = "(" + hashN(t.hash) + ", " + vh.NU(uint64(b)) + ")"
		}
		return "(RTxs " + vh.Ok(vh.List(el, "(N*N)")) + ")"
	case "get":
		if r.err {
			return "(RGet (@Err (option N)))"
		}
		if r.body == 0 {
			return "(RGet (Ok (@None N)))"
		}
		b := r.body
		if b < 0 {
			b = 0
		}
		return "(RGet (Ok (Some " + vh.NU(uint64(b)) + ")))"
	}
	return "RUnit"
}

func runSeq(c *vh.Ctx, cs Case) {
	if err := store.VerifC23Clear(); err != nil {
		panic(err)
	}
	a := &acct{}
	var pre []string
	for _, o := range cs.Pre {
		if apply(o).err {
			panic("raw write failed")
		}
		switch o.K {
		case "rawq":
			a.queued[o.P]++ // a scheduling record planted by hand counts as a queueing
			pre = append(pre, vh.App("RawQueue", vh.NU(o.Ts), hN(o.P)))
		case "rawo":
			a.planted[o.P] = true
			pre = append(pre, vh.App("RawOrder", hN(o.P)))
		case "rawp":
			b := uint64(0)
			if o.V >= 0 {
				b = uint64(1 + o.P*nVariants + o.V)
			} else {
				a.corrupt = true
			}
			pre = append(pre, vh.App("RawPayload", hN(o.P), vh.NU(b)))
		}
	}
	prev := map[storage.VerifC23QueueEntry]bool{}
	for _, e := range dump().Queue {
		prev[e] = true
	}
	var ops []string
	nontrivial := false
	modelOK := true
	for _, o := range cs.Ops {
		r := apply(o)
		ts := uint64(0)
		switch o.K {
		case "queue":
			if r.err {
				c.Fail("queue-error", "CacheQueueTransaction failed on an uncontended store", cs)
				modelOK = false
				break
			}
			a.queued[o.P]++
			a.expect[o.P] = !a.planted[o.P]
			fresh := 0
			for _, e := range dump().Queue {
				if !prev[e] {
					prev[e] = true
					ts = e.Ts
					fresh++
					if e.Hash != poolHash[o.P] {
						c.Fail("queue-foreign-entry", "queueing wrote a scheduling record for another transaction", cs)
					}
				}
			}
			if fresh > 1 {
				c.Fail("queue-many-entries", "one queueing wrote several scheduling records", cs)
			}
			// queueing makes the transaction retrievable and keeps/refreshes a body for it
			if ver, err := store.CacheGetTransaction(poolHash[o.P]); (err != nil || ver == nil) && !a.planted[o.P] {
				c.Fail("queue-no-body", "no readable body after queueing", cs)
			}
		case "store":
			if r.err {
				c.Fail("store-error", "CacheStoreTransaction failed on an uncontended store", cs)
				modelOK = false
			}
			for _, e := range dump().Queue {
				if !prev[e] {
					c.Fail("store-schedules", "storing a body wrote a scheduling record", cs)
					prev[e] = true
				}
			}
		case "retrieve":
			if r.err && !a.corrupt {
				c.Fail("retrieve-error", "retrieval failed although every stored body decodes", cs)
			}
			checkRetrieval(c, cs, a, o, r, true)
			if len(r.txs) > 0 {
				nontrivial = true
			}
		case "remove":
			if r.err {
				c.Fail("remove-error", "CacheRemoveTransactions failed", cs)
				modelOK = false
			}
			for _, p := range o.Hs {
				a.expect[p] = false
				if ver, err := store.CacheGetTransaction(poolHash[p]); err != nil || ver != nil {
					c.Fail("remove-keeps-body", fmt.Sprintf("payload %d still has a body after removal", p), cs)
				}
			}
		case "get":
		}
		ops = append(ops, "("+coqOp(o, ts)+", "+coqObs(o, r)+")")
	}
	// every transaction queued and neither returned nor removed since must come out of a full retrieval
	drain := Op{K: "retrieve", Limit: 1000}
	r := apply(drain)
	if r.err && !a.corrupt {
		c.Fail("retrieve-error", "retrieval failed although every stored body decodes", cs)
	}
	want := a.expect
	checkRetrieval(c, cs, a, drain, r, true)
	if !r.err {
		got := map[int]bool{}
		for _, t := range r.txs {
			got[hashIdx[t.hash]] = true
		}
		for p := 0; p < nPayloads; p++ {
			if want[p] && !got[p] {
				c.Fail("queued-not-retrievable", fmt.Sprintf("payload %d was queued (not retrieved or removed since) but a full retrieval does not return it", p), cs)
			}
		}
	}
	ops = append(ops, "("+coqOp(drain, 0)+", "+coqObs(drain, r)+")")

	st := dump()
	fq := make([]string, len(st.Queue))
	for i, e := range st.Queue {
		fq[i] = "(" + vh.NU(e.Ts) + ", " + hashN(e.Hash) + ")"
	}
	fo := make([]string, len(st.Order))
	for i, h := range st.Order {
		fo[i] = hashN(h)
	}
	fp := make([]string, len(st.Payload))
	for i, p := range st.Payload {
		b := bodyID[string(p.Value)]
		fp[i] = "(" + hashN(p.Hash) + ", " + vh.NU(uint64(b)) + ")"
	}
	term := ""
	if modelOK {
		term = vh.App("CHist", vh.List(pre, "raw"), vh.List(ops, "(op*obs)"), vh.List(fq, "(N*N)"), vh.List(fo, "N"), vh.List(fp, "(N*N)"))
	}
	kind := "seq"
	if len(cs.Pre) > 0 {
		kind = "seq-raw"
	}
	c.Case(kind, canon(cs), nontrivial, cs, term)
}

// ---- concurrent histories ------------------------------------------------------------

type event struct {
	o Op
	r result
}

var concOps, concErrs, concReturns int

func runConcOnce(c *vh.Ctx, cs Case) bool {
	if err := store.VerifC23Clear(); err != nil {
		panic(err)
	}
	logs := make([][]event, len(cs.Threads))
	var wg sync.WaitGroup
	startc := make(chan struct{})
	for i := range cs.Threads {
		wg.Add(1)
		go func(i int) {
			defer wg.Done()
			<-startc
			for _, o := range cs.Threads[i] {
				logs[i] = append(logs[i], event{o, apply(o)})
			}
		}(i)
	}
	close(startc)
	wg.Wait()

	a := &acct{}
	// queueings first: the accounting bound is on totals (a retrieval may only
	// return what some queue call wrote; calls that failed wrote nothing)
	for _, l := range logs {
		for _, e := range l {
			if e.o.K == "queue" && !e.r.err {
				a.queued[e.o.P]++
			}
		}
	}
	any := false
	for _, l := range logs {
		for _, e := range l {
			concOps++
			if e.r.err {
				concErrs++ // badger.ErrConflict after the code's own retries: the call wrote nothing
			}
			concReturns += len(e.r.txs)
			if e.o.K == "retrieve" {
				checkRetrieval(c, cs, a, e.o, e.r, false)
				any = any || len(e.r.txs) > 0
			}
		}
	}
	// what is still pending also consumes queueings
	st := dump()
	pend := [nPayloads]int{}
	for _, e := range st.Queue {
		pend[hashIdx[e.Hash]]++
	}
	for p := 0; p < nPayloads; p++ {
		if a.returned[p]+pend[p] > a.queued[p] {
			c.Fail("returned-more-than-queued", fmt.Sprintf("payload %d: %d returns + %d pending records exceed %d successful queueings (concurrent)",
				p, a.returned[p], pend[p], a.queued[p]), cs)
		}
	}
	// quiescent drain: pending records with a body come out once
	drain := Op{K: "retrieve", Limit: 1000}
	r := apply(drain)
	if r.err {
		c.Fail("retrieve-error", "retrieval failed on a quiescent store", cs)
	}
	checkRetrieval(c, cs, a, drain, r, true)
	r2 := apply(drain)
	if len(r2.txs) != 0 {
		c.Fail("retrieve-duplicate", "a second full retrieval returned transactions again", cs)
	}
	return any
}

func runConc(c *vh.Ctx, cs Case) {
	rep := cs.Repeat
	if rep <= 0 {
		rep = 1
	}
	if c.Replay != "" {
		rep = 20 // the schedule is not reproducible; re-run the same programs
	}
	any := false
	for i := 0; i < rep && len(c.Rep.Failures) == 0; i++ {
		any = runConcOnce(c, cs) || any
	}
	c.Case("conc", canon(cs), any, cs, "")
}

func run(c *vh.Ctx, cs Case) {
	if cs.Mode == "conc" {
		runConc(c, cs)
	} else {
		runSeq(c, cs)
	}
}

// ---- generators ----------------------------------------------------------------------

func genOp(r *vh.Rand, np int) Op {
	p := r.Intn(np)
	v := r.Intn(nVariants)
	switch x := r.Intn(20); {
	case x < 6:
		return Op{K: "queue", P: p, V: v}
	case x < 10:
		return Op{K: "store", P: p, V: v}
	case x < 14:
		lim := r.Intn(5)
		switch r.Intn(8) {
		case 0:
			lim = -1
		case 1:
			lim = 0
		case 2:
			lim = 100
		}
		return Op{K: "retrieve", Limit: lim}
	case x < 17:
		n := r.Intn(4)
		hs := make([]int, n)
		for i := range hs {
			hs[i] = r.Intn(np)
		}
		return Op{K: "remove", Hs: hs}
	default:
		return Op{K: "get", P: p}
	}
}

func genSeq(r *vh.Rand) Case {
	np := r.Range(2, nPayloads)
	cs := Case{Mode: "seq"}
	if r.Chance(1, 4) { // raw records: orphans, duplicates, equal timestamps, undecodable bodies
		for i, n := 0, r.Range(1, 6); i < n; i++ {
			p := r.Intn(np)
			switch r.Intn(5) {
			case 0, 1:
				cs.Pre = append(cs.Pre, Op{K: "rawq", P: p, Ts: uint64(r.Range(1, 3))})
			case 2:
				cs.Pre = append(cs.Pre, Op{K: "rawo", P: p})
			case 3:
				cs.Pre = append(cs.Pre, Op{K: "rawp", P: p, V: r.Intn(nVariants)})
			default:
				if r.Chance(1, 3) {
					cs.Pre = append(cs.Pre, Op{K: "rawp", P: p, V: -1})
				} else {
					cs.Pre = append(cs.Pre, Op{K: "rawq", P: p, Ts: ^uint64(0) - uint64(r.Intn(2))})
				}
			}
		}
	}
	n := r.Range(5, 60)
	for i := 0; i < n; i++ {
		cs.Ops = append(cs.Ops, genOp(r, np))
	}
	return cs
}

func genConc(r *vh.Rand) Case {
	np := r.Range(2, 8)
	cs := Case{Mode: "conc", Repeat: 1}
	for t := 0; t < 8; t++ {
		var ops []Op
		for i, n := 0, r.Range(4, 12); i < n; i++ {
			o := genOp(r, np)
			if o.K == "retrieve" && o.Limit < 1 {
				o.Limit = 2
			}
			ops = append(ops, o)
		}
		cs.Threads = append(cs.Threads, ops)
	}
	return cs
}

func corpus() []Case {
	q := func(p, v int) Op { return Op{K: "queue", P: p, V: v} }
	s := func(p, v int) Op { return Op{K: "store", P: p, V: v} }
	rt := func(l int) Op { return Op{K: "retrieve", Limit: l} }
	rm := func(hs ...int) Op { return Op{K: "remove", Hs: hs} }
	g := func(p int) Op { return Op{K: "get", P: p} }
	many := make([]int, 205) // crosses the 100-hash removal batches
	for i := range many {
		many[i] = i % nPayloads
	}
	return []Case{
		{Mode: "seq", Ops: []Op{s(0, 0), rt(1), g(0)}},                                   // store only: never retrieved
		{Mode: "seq", Ops: []Op{s(0, 1), s(0, 2), g(0), q(0, 2), g(0), rt(1), rt(1)}},    // first store wins, queue refreshes
		{Mode: "seq", Ops: []Op{q(0, 0), q(0, 1), q(0, 0), rt(10), rt(10)}},              // deduplicated queueing
		{Mode: "seq", Ops: []Op{q(0, 0), rt(1), g(0), q(0, 1), rt(1), g(0)}},             // re-queue after retrieval
		{Mode: "seq", Ops: []Op{q(0, 0), rm(0), g(0), rt(5), s(0, 1), rt(5)}},            // removal, stale record, store
		{Mode: "seq", Ops: []Op{q(0, 0), rm(0), q(0, 1), rt(5), rt(5)}},                  // two records of one tx: returned once
		{Mode: "seq", Ops: []Op{q(0, 0), rm(0), s(0, 2), q(0, 1), rt(1), rt(1), g(0)}},   // limit cuts between the two records
		{Mode: "seq", Ops: []Op{q(0, 0), q(1, 0), q(2, 0), rt(0), rt(-1), rt(2), rt(2)}}, // limits 0, negative, partial
		{Mode: "seq", Ops: []Op{q(0, 0), q(1, 1), rm(many...), g(0), g(1), rt(9)}},       // batched removal
		{Mode: "seq", Ops: []Op{rt(3), rm(), g(5)}},                                      // empty store
		{Mode: "seq", Pre: []Op{{K: "rawq", P: 0, Ts: 1}, {K: "rawq", P: 1, Ts: 2}, {K: "rawo", P: 1}},
			Ops: []Op{q(0, 0), rt(10), rt(10)}}, // the orphan records of storage/cache_coverage_test.go
		{Mode: "seq", Pre: []Op{{K: "rawp", P: 0, V: -1}}, Ops: []Op{g(0), s(0, 0), g(0), q(1, 0), rt(5), q(0, 1), g(0), rt(5)}},
		{Mode: "seq", Pre: []Op{{K: "rawq", P: 0, Ts: 5}, {K: "rawp", P: 0, V: -1}, {K: "rawq", P: 1, Ts: 4}, {K: "rawp", P: 1, V: 0}},
			Ops: []Op{rt(1), rt(2), g(1)}}, // undecodable body aborts the retrieval that reaches it, state unchanged
		{Mode: "seq", Pre: []Op{{K: "rawq", P: 0, Ts: 7}, {K: "rawq", P: 1, Ts: 7}, {K: "rawq", P: 2, Ts: 7}, {K: "rawp", P: 0, V: 0}, {K: "rawp", P: 1, V: 0}, {K: "rawp", P: 2, V: 0}},
			Ops: []Op{rt(2), rt(2)}}, // equal timestamps: hash order
		{Mode: "conc", Repeat: 3, Threads: [][]Op{
			{q(0, 0), rt(2), q(0, 1), rt(2)}, {q(0, 1), rt(2), q(0, 2), rt(2)}, {rt(1), rt(1), rt(1)}, {q(1, 0), rm(0), q(0, 0)},
			{s(0, 0), s(1, 1), rt(3)}, {q(1, 1), rt(2)}, {rm(1), q(1, 2), rt(1)}, {g(0), g(1), rt(2)}}},
	}
}

func main() {
	c := vh.Start("C23")
	c.Rep.Rule = "corpus (store-only, dedup, re-queue, removal with stale record, limit cuts, batches >100, orphan/undecodable raw records, " +
		"equal timestamps), then random sequential histories of 5..60 operations over 2..12 payloads x 3 differently signed bodies " +
		"(1/4 start from raw records) each ending with a full retrieval, and concurrent histories of 8 goroutines x 4..12 operations " +
		"(oracle only). Non-trivial = some retrieval returned a transaction; distinct by the operation sequence."
	buildPool()
	closeStore := openStore()
	defer func() { closeStore() }()
	// deleted records stay behind as Badger tombstones that every later iteration has to step over:
	// start from a fresh store every 200 histories so that a long run stays linear
	fresh := func(i int) {
		if i%200 == 199 {
			closeStore()
			closeStore = openStore()
		}
	}
	if c.Replay != "" {
		var cs Case
		c.ReplayCase(&cs)
		run(c, cs)
		c.Finish()
		return
	}
	for _, cs := range corpus() {
		run(c, cs)
	}
	nseq := c.Scale(300, 10000)
	nconc := c.Scale(40, 1500)
	rs := c.Rng.Fork("seq")
	for i := 0; i < nseq; i++ {
		run(c, genSeq(rs))
		fresh(i)
	}
	rc := c.Rng.Fork("conc")
	for i := 0; i < nconc; i++ {
		run(c, genConc(rc))
		fresh(i)
	}
	c.Note(fmt.Sprintf("concurrent part: %d calls from 8 goroutines, %d returned a transaction-conflict error (no effect), %d transactions returned by racing retrievals",
		concOps, concErrs, concReturns))
	c.Finish()
}
