// C23 harness: runs histories of CacheQueueTransaction / CacheStoreTransaction /
// CacheRetrieveTransactions / CacheRemoveTransactions / CacheGetTransaction on a
// real Badger cache store.  Sequential histories are sent to the Coq model
// (coq/Model/Cache.v) op by op with what each call returned and the final dump
// of the three record families; concurrent histories (8 goroutines) are checked
// by the oracle only.  The oracle is a transcription of the property text:
// returns(h) <= successful queueings(h), a retrieval has no duplicates and at
// most `limit` elements, a retrieved body is still stored, a queued transaction
// is retrievable, a removed body is gone, a stored-only body is never retrieved.
// Record TTL expiry (hours) is outside the model and never fires here.
package main

import (
	"bytes"
	"fmt"
	"os"
	"path/filepath"
	"strings"
	"sync"

	"github.com/MixinNetwork/mixin/common"
	"github.com/MixinNetwork/mixin/config"
	"github.com/MixinNetwork/mixin/crypto"
	"github.com/MixinNetwork/mixin/storage"
	"verifharness/vh"
)

const (
	nPayloads = 320 // small histories use the first 2..12; removal/limit boundary histories use up to all of them
	nSmall    = 12
	nVariants = 3
)

type Op struct {
	K     string `json:"k"` // queue store retrieve remove get | rawq rawo rawp
	P     int    `json:"p,omitempty"`
	V     int    `json:"v,omitempty"` // signature variant; rawp: -1 = undecodable bytes
	Limit int    `json:"limit,omitempty"`
	Hs    []int  `json:"hs,omitempty"`
	Ts    uint64 `json:"ts,omitempty"`
}

type Case struct {
	Mode    string `json:"mode"` // seq | conc
	Pre     []Op   `json:"pre,omitempty"`
	Ops     []Op   `json:"ops,omitempty"`
	Threads [][]Op `json:"threads,omitempty"`
	Repeat  int    `json:"repeat,omitempty"`
	Big     bool   `json:"big,omitempty"` // removal lists / limits around the 100-hash batch boundaries
}

// ---- transaction pool ---------------------------------------------------------

var pool [nPayloads][nVariants]*common.VersionedTransaction
var poolHash [nPayloads]crypto.Hash
var bodyID = map[string]int{} // marshalled bytes -> model body number (>= 1)
var hashIdx = map[crypto.Hash]int{}

func buildPool() {
	for p := 0; p < nPayloads; p++ {
		for v := 0; v < nVariants; v++ {
			tx := common.NewTransactionV5(common.XINAssetId)
			tx.Extra = []byte(fmt.Sprintf("verif-c23-%d", p))
			ver := tx.AsVersioned()
			if v > 0 {
				sig := crypto.Signature{byte(v), byte(p)}
				ver.SignaturesMap = []map[uint16]*crypto.Signature{{0: &sig}}
			}
			pool[p][v] = ver
			bodyID[string(ver.Marshal())] = 1 + p*nVariants + v
		}
		poolHash[p] = pool[p][0].PayloadHash()
		for v := 1; v < nVariants; v++ {
			if pool[p][v].PayloadHash() != poolHash[p] { // also fills the hash cache before goroutines share it
				panic("signature variants must share the payload hash")
			}
		}
		hashIdx[poolHash[p]] = p
	}
	for p := 0; p < nPayloads; p++ {
		for q := 0; q < nPayloads; q++ {
			if bytes.Compare(poolHash[q][:], poolHash[p][:]) < 0 {
				poolRank[p]++
			}
		}
	}
}

func bodyOf(ver *common.VersionedTransaction) int {
	id, ok := bodyID[string(ver.Marshal())]
	if !ok {
		return -1
	}
	return id
}

// A payload hash is sent to the model as 1 + its rank among the pool's hashes in
// byte order: the model only uses equality and the order of hashes (Badger key
// order on equal timestamps), both preserved; 77-digit literals are slow to parse.
var poolRank [nPayloads]int

func hN(p int) string { return vh.NU(uint64(1 + poolRank[p])) }

func hashN(h crypto.Hash) string {
	p, ok := hashIdx[h]
	if !ok {
		return vh.NU(0)
	}
	return hN(p)
}

// ---- store ----------------------------------------------------------------------

var store *storage.BadgerStore

func openStore() func() {
	repo := os.Getenv("VERIF_REPO")
	if repo == "" {
		repo = "/repo"
	}
	custom, err := config.Initialize(filepath.Join(repo, "config", "config.example.toml"))
	if err != nil {
		panic(err)
	}
	dir, err := os.MkdirTemp("", "verif-c23-")
	if err != nil {
		panic(err)
	}
	store, err = storage.NewBadgerStore(custom, dir)
	if err != nil {
		panic(err)
	}
	return func() { store.Close(); os.RemoveAll(dir) }
}

// ---- one observed call ----------------------------------------------------------

type result struct {
	err  bool
	txs  []retTx // retrieve
	body int     // get: 0 = nil, else body number
}

type retTx struct {
	hash crypto.Hash
	body int
	raw  []byte
}

func apply(o Op) result {
	switch o.K {
	case "queue":
		return result{err: store.CacheQueueTransaction(pool[o.P][o.V]) != nil}
	case "store":
		return result{err: store.CacheStoreTransaction(pool[o.P][o.V]) != nil}
	case "retrieve":
		txs, err := store.CacheRetrieveTransactions(o.Limit)
		r := result{err: err != nil}
		for _, t := range txs {
			r.txs = append(r.txs, retTx{t.PayloadHash(), bodyOf(t), t.Marshal()})
		}
		return r
	case "remove":
		hs := make([]crypto.Hash, len(o.Hs))
		for i, p := range o.Hs {
			hs[i] = poolHash[p]
		}
		return result{err: store.CacheRemoveTransactions(hs) != nil}
	case "get":
		ver, err := store.CacheGetTransaction(poolHash[o.P])
		r := result{err: err != nil}
		if ver != nil {
			r.body = bodyOf(ver)
		}
		return r
	case "rawq":
		return result{err: store.VerifC23RawQueue(o.Ts, poolHash[o.P]) != nil}
	case "rawo":
		return result{err: store.VerifC23RawOrder(poolHash[o.P]) != nil}
	case "rawp":
		val := []byte{0xff}
		if o.V >= 0 {
			val = pool[o.P][o.V].Marshal()
		}
		return result{err: store.VerifC23RawPayload(poolHash[o.P], val) != nil}
	}
	panic("unknown op " + o.K)
}

func dump() *storage.VerifC23State {
	st, err := store.VerifC23Dump()
	if err != nil {
		panic(err)
	}
	return st
}

func canon(cs Case) string {
	var sb strings.Builder
	w := func(ops []Op) {
		for _, o := range ops {
			fmt.Fprintf(&sb, "%s%d.%d.%d%v;", o.K[:2], o.P, o.V, o.Limit, o.Hs)
		}
	}
	sb.WriteString(cs.Mode)
	w(cs.Pre)
	w(cs.Ops)
	for _, t := range cs.Threads {
		sb.WriteString("|")
		w(t)
	}
	return sb.String()
}

// ---- oracle state -----------------------------------------------------------------

type acct struct {
	queued   [nPayloads]int  // successful CacheQueueTransaction calls (+ raw queue records)
	returned [nPayloads]int  // times returned by a retrieval
	expect   [nPayloads]bool // queued and neither returned nor removed since: must be retrievable
	corrupt  bool            // an undecodable body was planted: retrieval may fail as a whole
	planted  [nPayloads]bool // an order record was planted by hand (a state the API cannot reach): no eligibility claim
}

func checkRetrieval(c *vh.Ctx, cs Case, a *acct, o Op, r result, probe bool) {
	if r.err {
		return
	}
	lim := o.Limit
	if lim < 0 {
		lim = 0
	}
	if len(r.txs) > lim {
		c.Fail("retrieve-over-limit", fmt.Sprintf("retrieve(%d) returned %d transactions", o.Limit, len(r.txs)), cs)
	}
	seen := map[crypto.Hash]bool{}
	for _, t := range r.txs {
		if seen[t.hash] {
			c.Fail("retrieve-duplicate", "one retrieval returned transaction "+t.hash.String()+" twice", cs)
		}
		seen[t.hash] = true
		p, ok := hashIdx[t.hash]
		if !ok || t.body < 0 {
			c.Fail("retrieve-unknown", "retrieval returned a transaction nobody wrote: "+t.hash.String(), cs)
			continue
		}
		a.returned[p]++
		a.expect[p] = false
		if a.returned[p] > a.queued[p] {
			c.Fail("returned-more-than-queued", fmt.Sprintf("payload %d returned %d times by retrievals but queued only %d times",
				p, a.returned[p], a.queued[p]), cs)
		}
		if probe { // retrieval keeps the stored body
			ver, err := store.CacheGetTransaction(t.hash)
			if err != nil || ver == nil || !bytes.Equal(ver.Marshal(), t.raw) {
				c.Fail("retrieve-drops-body", fmt.Sprintf("payload %d: body not (identically) stored after being retrieved", p), cs)
			}
		}
	}
}

// ---- sequential histories ------------------------------------------------------------

func coqOp(o Op, ts uint64) string {
	switch o.K {
	case "queue":
		return vh.App("OQueue", vh.NU(ts), hN(o.P), vh.NU(uint64(1+o.P*nVariants+o.V)))
	case "store":
		return vh.App("OStore", hN(o.P), vh.NU(uint64(1+o.P*nVariants+o.V)))
	case "retrieve":
		return vh.App("ORetrieve", vh.ZI(int64(o.Limit)))
	case "remove":
		hs := make([]string, len(o.Hs))
		for i, p := range o.Hs {
			hs[i] = hN(p)
		}
		return vh.App("ORemove", vh.List(hs, "N"))
	case "get":
		return vh.App("OGet", hN(o.P))
	}
	panic(o.K)
}

func coqObs(o Op, r result) string {
	switch o.K {
	case "retrieve":
		if r.err {
			return "(RTxs (@Err (list (N*N))))"
		}
		el := make([]string, len(r.txs))
		for i, t := range r.txs {
			b := t.body
			if b < 0 {
				b = 0
			}
			el[i] = "(" + hashN(t.hash) + ", " + vh.NU(uint64(b)) + ")"
		}
		return "(RTxs " + vh.Ok(vh.List(el, "(N*N)")) + ")"
	case "get":
		if r.err {
			return "(RGet (@Err (option N)))"
		}
		if r.body == 0 {
			return "(RGet (Ok (@None N)))"
		}
		b := r.body
		if b < 0 {
			b = 0
		}
		return "(RGet (Ok (Some " + vh.NU(uint64(b)) + ")))"
	}
	return "RUnit"
}

func runSeq(c *vh.Ctx, cs Case) {
	if err := store.VerifC23Clear(); err != nil {
		panic(err)
	}
	a := &acct{}
	var pre []string
	for _, o := range cs.Pre {
		if apply(o).err {
			panic("raw write failed")
		}
		switch o.K {
		case "rawq":
			a.queued[o.P]++ // a scheduling record planted by hand counts as a queueing
			pre = append(pre, vh.App("RawQueue", vh.NU(o.Ts), hN(o.P)))
		case "rawo":
			a.planted[o.P] = true
			pre = append(pre, vh.App("RawOrder", hN(o.P)))
		case "rawp":
			b := uint64(0)
			if o.V >= 0 {
				b = uint64(1 + o.P*nVariants + o.V)
			} else {
				a.corrupt = true
			}
			pre = append(pre, vh.App("RawPayload", hN(o.P), vh.NU(b)))
		}
	}
	prev := map[storage.VerifC23QueueEntry]bool{}
	for _, e := range dump().Queue {
		prev[e] = true
	}
	nontrivial := false
	modelOK := true
	results := make([]result, len(cs.Ops))
	tss := make([]uint64, len(cs.Ops))
	// Queue timestamps are read back from the store.  Small histories look after every
	// queue/store call; boundary histories (hundreds of entries) look once per run of
	// queue/store/get calls, just before the next retrieval or removal: inside such a
	// run at most one entry per transaction can appear and it belongs to the first
	// queue call for it (any other assignment shows up as a model mismatch).
	var waiting []int // indices of queue ops not yet matched with their entry
	stored := false
	resolve := func() {
		if len(waiting) == 0 && !stored {
			return
		}
		fresh := map[crypto.Hash][]uint64{}
		for _, e := range dump().Queue {
			if !prev[e] {
				prev[e] = true
				fresh[e.Hash] = append(fresh[e.Hash], e.Ts)
			}
		}
		for _, k := range waiting {
			h := poolHash[cs.Ops[k].P]
			if t := fresh[h]; len(t) > 0 && t[0] != 0 {
				tss[k] = t[0]
				t[0] = 0 // taken
				if len(t) > 1 {
					c.Fail("queue-many-entries", "one queueing wrote several scheduling records", cs)
				}
			}
		}
		for _, t := range fresh {
			if t[0] != 0 {
				if stored && len(waiting) == 0 {
					c.Fail("store-schedules", "storing a body wrote a scheduling record", cs)
				} else {
					c.Fail("queue-foreign-entry", "a scheduling record appeared for a transaction that was not queued", cs)
				}
			}
		}
		waiting, stored = nil, false
	}
	for k, o := range cs.Ops {
		if cs.Big && (o.K == "retrieve" || o.K == "remove") {
			resolve()
		}
		r := apply(o)
		results[k] = r
		switch o.K {
		case "queue":
			if r.err {
				c.Fail("queue-error", "CacheQueueTransaction failed on an uncontended store", cs)
				modelOK = false
				break
			}
			a.queued[o.P]++
			a.expect[o.P] = !a.planted[o.P]
			waiting = append(waiting, k)
			if !cs.Big {
				resolve()
			}
			// queueing makes the transaction retrievable and keeps/refreshes a body for it
			if ver, err := store.CacheGetTransaction(poolHash[o.P]); (err != nil || ver == nil) && !a.planted[o.P] {
				c.Fail("queue-no-body", "no readable body after queueing", cs)
			}
		case "store":
			if r.err {
				c.Fail("store-error", "CacheStoreTransaction failed on an uncontended store", cs)
				modelOK = false
			}
			stored = true
			if !cs.Big {
				resolve()
			}
		case "retrieve":
			if r.err && !a.corrupt {
				c.Fail("retrieve-error", "retrieval failed although every stored body decodes", cs)
			}
			checkRetrieval(c, cs, a, o, r, true)
			if len(r.txs) > 0 {
				nontrivial = true
			}
		case "remove":
			if r.err {
				c.Fail("remove-error", "CacheRemoveTransactions failed", cs)
				modelOK = false
			}
			for _, p := range o.Hs {
				a.expect[p] = false
				if ver, err := store.CacheGetTransaction(poolHash[p]); err != nil || ver != nil {
					c.Fail("remove-keeps-body", fmt.Sprintf("payload %d still has a body after removal", p), cs)
				}
			}
		case "get":
		}
	}
	resolve()
	var ops []string
	for k, o := range cs.Ops {
		ops = append(ops, "("+coqOp(o, tss[k])+", "+coqObs(o, results[k])+")")
	}
	// every transaction queued and neither returned nor removed since must come out of a full retrieval
	drain := Op{K: "retrieve", Limit: 1000}
	r := apply(drain)
	if r.err && !a.corrupt {
		c.Fail("retrieve-error", "retrieval failed although every stored body decodes", cs)
	}
	want := a.expect
	checkRetrieval(c, cs, a, drain, r, true)
	if !r.err {
		got := map[int]bool{}
		for _, t := range r.txs {
			got[hashIdx[t.hash]] = true
		}
		for p := 0; p < nPayloads; p++ {
			if want[p] && !got[p] {
				c.Fail("queued-not-retrievable", fmt.Sprintf("payload %d was queued (not retrieved or removed since) but a full retrieval does not return it", p), cs)
			}
		}
	}
	ops = append(ops, "("+coqOp(drain, 0)+", "+coqObs(drain, r)+")")

	st := dump()
	fq := make([]string, len(st.Queue))
	for i, e := range st.Queue {
		fq[i] = "(" + vh.NU(e.Ts) + ", " + hashN(e.Hash) + ")"
	}
	fo := make([]string, len(st.Order))
	for i, h := range st.Order {
		fo[i] = hashN(h)
	}
	fp := make([]string, len(st.Payload))
	for i, p := range st.Payload {
		b := bodyID[string(p.Value)]
		fp[i] = "(" + hashN(p.Hash) + ", " + vh.NU(uint64(b)) + ")"
	}
	term := ""
	if modelOK {
		term = vh.App("CHist", vh.List(pre, "raw"), vh.List(ops, "(op*obs)"), vh.List(fq, "(N*N)"), vh.List(fo, "N"), vh.List(fp, "(N*N)"))
	}
	kind := "seq"
	if len(cs.Pre) > 0 {
		kind = "seq-raw"
	}
	if cs.Big {
		kind = "seq-big"
	}
	c.Case(kind, canon(cs), nontrivial, cs, term)
}

// ---- concurrent histories ------------------------------------------------------------

type event struct {
	o Op
	r result
}

var concOps, concErrs, concReturns int

func runConcOnce(c *vh.Ctx, cs Case) bool {
	if err := store.VerifC23Clear(); err != nil {
		panic(err)
	}
	logs := make([][]event, len(cs.Threads))
	var wg sync.WaitGroup
	startc := make(chan struct{})
	for i := range cs.Threads {
		wg.Add(1)
		go func(i int) {
			defer wg.Done()
			<-startc
			for _, o := range cs.Threads[i] {
				logs[i] = append(logs[i], event{o, apply(o)})
			}
		}(i)
	}
	close(startc)
	wg.Wait()

	a := &acct{}
	// queueings first: the accounting bound is on totals (a retrieval may only
	// return what some queue call wrote; calls that failed wrote nothing)
	for _, l := range logs {
		for _, e := range l {
			if e.o.K == "queue" && !e.r.err {
				a.queued[e.o.P]++
			}
		}
	}
	any := false
	for _, l := range logs {
		for _, e := range l {
			concOps++
			if e.r.err {
				concErrs++ // badger.ErrConflict after the code's own retries: the call wrote nothing
			}
			concReturns += len(e.r.txs)
			if e.o.K == "retrieve" {
				checkRetrieval(c, cs, a, e.o, e.r, false)
				any = any || len(e.r.txs) > 0
			}
		}
	}
	// what is still pending also consumes queueings
	st := dump()
	pend := [nPayloads]int{}
	for _, e := range st.Queue {
		pend[hashIdx[e.Hash]]++
	}
	for p := 0; p < nPayloads; p++ {
		if a.returned[p]+pend[p] > a.queued[p] {
			c.Fail("returned-more-than-queued", fmt.Sprintf("payload %d: %d returns + %d pending records exceed %d successful queueings (concurrent)",
				p, a.returned[p], pend[p], a.queued[p]), cs)
		}
	}
	// quiescent drain: pending records with a body come out once
	drain := Op{K: "retrieve", Limit: 1000}
	r := apply(drain)
	if r.err {
		c.Fail("retrieve-error", "retrieval failed on a quiescent store", cs)
	}
	checkRetrieval(c, cs, a, drain, r, true)
	r2 := apply(drain)
	if len(r2.txs) != 0 {
		c.Fail("retrieve-duplicate", "a second full retrieval returned transactions again", cs)
	}
	return any
}

func runConc(c *vh.Ctx, cs Case) {
	rep := cs.Repeat
	if rep <= 0 {
		rep = 1
	}
	if c.Replay != "" {
		rep = 20 // the schedule is not reproducible; re-run the same programs
	}
	any := false
	for i := 0; i < rep && len(c.Rep.Failures) == 0; i++ {
		any = runConcOnce(c, cs) || any
	}
	c.Case("conc", canon(cs), any, cs, "")
}

func run(c *vh.Ctx, cs Case) {
	if cs.Mode == "conc" {
		runConc(c, cs)
	} else {
		runSeq(c, cs)
	}
}

// ---- generators ----------------------------------------------------------------------

func genOp(r *vh.Rand, np int) Op {
	p := r.Intn(np)
	v := r.Intn(nVariants)
	switch x := r.Intn(20); {
	case x < 6:
		return Op{K: "queue", P: p, V: v}
	case x < 10:
		return Op{K: "store", P: p, V: v}
	case x < 14:
		lim := r.Intn(5)
		switch r.Intn(8) {
		case 0:
			lim = -1
		case 1:
			lim = 0
		case 2:
			lim = 100
		}
		return Op{K: "retrieve", Limit: lim}
	case x < 17:
		n := r.Intn(4)
		hs := make([]int, n)
		for i := range hs {
			hs[i] = r.Intn(np)
		}
		return Op{K: "remove", Hs: hs}
	default:
		return Op{K: "get", P: p}
	}
}

func genSeq(r *vh.Rand) Case {
	np := r.Range(2, nSmall)
	cs := Case{Mode: "seq"}
	if r.Chance(1, 4) { // raw records: orphans, duplicates, equal timestamps, undecodable bodies
		for i, n := 0, r.Range(1, 6); i < n; i++ {
			p := r.Intn(np)
			switch r.Intn(5) {
			case 0, 1:
				cs.Pre = append(cs.Pre, Op{K: "rawq", P: p, Ts: uint64(r.Range(1, 3))})
			case 2:
				cs.Pre = append(cs.Pre, Op{K: "rawo", P: p})
			case 3:
				cs.Pre = append(cs.Pre, Op{K: "rawp", P: p, V: r.Intn(nVariants)})
			default:
				if r.Chance(1, 3) {
					cs.Pre = append(cs.Pre, Op{K: "rawp", P: p, V: -1})
				} else {
					cs.Pre = append(cs.Pre, Op{K: "rawq", P: p, Ts: ^uint64(0) - uint64(r.Intn(2))})
				}
			}
		}
	}
	n := r.Range(5, 60)
	for i := 0; i < n; i++ {
		cs.Ops = append(cs.Ops, genOp(r, np))
	}
	return cs
}

// Sizes around the 100-hash batches of CacheRemoveTransactions (the kernel passes
// up to SnapshotTransactionsMaximum = 255 stale hashes in one call) and the
// matching retrieval limits.
var bigSizes = []int{199, 200, 201, 255, 256, 300, 301, 99, 100, 101}
var bigLimits = []int{99, 100, 101, 199, 200, 201, 255, 256, 300, 301}

// regions of a list of n elements that get probed after the removal
func regions(n int) []int {
	var out []int
	for _, i := range []int{0, 1, 98, 99, 100, 101, 198, 199, 200, 201, 254, 255, 256, 299, 300, n - 2, n - 1} {
		if i >= 0 && i < n {
			out = append(out, i)
		}
	}
	return out
}

// genBig: one removal call with n hashes (distinct payloads in random order, a
// few duplicates), each in a random state beforehand (never written, stored
// only, queued and pending, queued and already retrieved), followed by
// get / re-queue / store / retrieve of elements of every region of the list.
func genBig(r *vh.Rand, n int, uniform int) Case {
	cs := Case{Mode: "seq", Big: true}
	perm := make([]int, nPayloads)
	for i := range perm {
		perm[i] = i
	}
	for i := len(perm) - 1; i > 0; i-- {
		j := r.Intn(i + 1)
		perm[i], perm[j] = perm[j], perm[i]
	}
	list := append([]int{}, perm[:n]...)
	for k, d := 0, r.Intn(4); k < d; k++ { // duplicates inside the list
		list[r.Intn(n)] = list[r.Intn(n)]
	}
	// state per payload: 0 never written, 1 stored, 2 pending, 3 retrieved
	state := map[int]int{}
	for _, p := range list {
		st := uniform
		if uniform < 0 {
			switch x := r.Intn(20); {
			case x < 6:
				st = 0
			case x < 11:
				st = 1
			case x < 16:
				st = 2
			default:
				st = 3
			}
		}
		state[p] = st
	}
	for _, p := range list {
		if state[p] == 3 {
			cs.Ops = append(cs.Ops, Op{K: "queue", P: p, V: r.Intn(nVariants)})
		}
	}
	if len(cs.Ops) > 0 {
		cs.Ops = append(cs.Ops, Op{K: "retrieve", Limit: 1000})
	}
	for _, p := range list {
		switch state[p] {
		case 1:
			cs.Ops = append(cs.Ops, Op{K: "store", P: p, V: r.Intn(nVariants)})
		case 2:
			cs.Ops = append(cs.Ops, Op{K: "queue", P: p, V: r.Intn(nVariants)})
		}
	}
	if r.Chance(1, 3) { // a retrieval cut at a batch-sized limit before the removal
		cs.Ops = append(cs.Ops, Op{K: "retrieve", Limit: bigLimits[r.Intn(len(bigLimits))]})
	}
	cs.Ops = append(cs.Ops, Op{K: "remove", Hs: list})
	probes := regions(n)
	for k := 0; k < 4; k++ {
		probes = append(probes, r.Intn(n))
	}
	for _, i := range probes {
		cs.Ops = append(cs.Ops, Op{K: "get", P: list[i]})
	}
	for _, i := range probes {
		switch r.Intn(4) {
		case 0, 1:
			cs.Ops = append(cs.Ops, Op{K: "queue", P: list[i], V: r.Intn(nVariants)})
		case 2:
			cs.Ops = append(cs.Ops, Op{K: "store", P: list[i], V: r.Intn(nVariants)})
		}
	}
	cs.Ops = append(cs.Ops, Op{K: "retrieve", Limit: bigLimits[r.Intn(len(bigLimits))]})
	for _, i := range probes[:6] {
		cs.Ops = append(cs.Ops, Op{K: "get", P: list[i]})
	}
	return cs
}

// genLimits: a queue of 90..320 entries consumed by retrievals whose limits sit
// on and around the multiples of 100, with re-queueing in between.
func genLimits(r *vh.Rand) Case {
	cs := Case{Mode: "seq", Big: true}
	n := []int{99, 100, 101, 200, 201, 256, 300, 301, 320}[r.Intn(9)]
	for p := 0; p < n; p++ {
		cs.Ops = append(cs.Ops, Op{K: "queue", P: p, V: r.Intn(nVariants)})
		if r.Chance(1, 15) {
			cs.Ops = append(cs.Ops, Op{K: "store", P: r.Intn(nPayloads), V: r.Intn(nVariants)})
		}
	}
	for k, m := 0, r.Range(2, 4); k < m; k++ {
		cs.Ops = append(cs.Ops, Op{K: "retrieve", Limit: bigLimits[r.Intn(len(bigLimits))]})
		for j := 0; j < 5; j++ {
			p := r.Intn(n)
			cs.Ops = append(cs.Ops, Op{K: "get", P: p}, Op{K: "queue", P: p, V: r.Intn(nVariants)})
		}
	}
	return cs
}

func genConc(r *vh.Rand) Case {
	np := r.Range(2, 8)
	cs := Case{Mode: "conc", Repeat: 1}
	for t := 0; t < 8; t++ {
		var ops []Op
		for i, n := 0, r.Range(4, 12); i < n; i++ {
			o := genOp(r, np)
			if o.K == "retrieve" && o.Limit < 1 {
				o.Limit = 2
			}
			ops = append(ops, o)
		}
		cs.Threads = append(cs.Threads, ops)
	}
	return cs
}

func corpus() []Case {
	q := func(p, v int) Op { return Op{K: "queue", P: p, V: v} }
	s := func(p, v int) Op { return Op{K: "store", P: p, V: v} }
	rt := func(l int) Op { return Op{K: "retrieve", Limit: l} }
	rm := func(hs ...int) Op { return Op{K: "remove", Hs: hs} }
	g := func(p int) Op { return Op{K: "get", P: p} }
	many := make([]int, 205) // crosses the 100-hash removal batches
	for i := range many {
		many[i] = i % nSmall
	}
	return []Case{
		{Mode: "seq", Ops: []Op{s(0, 0), rt(1), g(0)}},                                   // store only: never retrieved
		{Mode: "seq", Ops: []Op{s(0, 1), s(0, 2), g(0), q(0, 2), g(0), rt(1), rt(1)}},    // first store wins, queue refreshes
		{Mode: "seq", Ops: []Op{q(0, 0), q(0, 1), q(0, 0), rt(10), rt(10)}},              // deduplicated queueing
		{Mode: "seq", Ops: []Op{q(0, 0), rt(1), g(0), q(0, 1), rt(1), g(0)}},             // re-queue after retrieval
		{Mode: "seq", Ops: []Op{q(0, 0), rm(0), g(0), rt(5), s(0, 1), rt(5)}},            // removal, stale record, store
		{Mode: "seq", Ops: []Op{q(0, 0), rm(0), q(0, 1), rt(5), rt(5)}},                  // two records of one tx: returned once
		{Mode: "seq", Ops: []Op{q(0, 0), rm(0), s(0, 2), q(0, 1), rt(1), rt(1), g(0)}},   // limit cuts between the two records
		{Mode: "seq", Ops: []Op{q(0, 0), q(1, 0), q(2, 0), rt(0), rt(-1), rt(2), rt(2)}}, // limits 0, negative, partial
		{Mode: "seq", Ops: []Op{q(0, 0), q(1, 1), rm(many...), g(0), g(1), rt(9)}},       // batched removal
		{Mode: "seq", Ops: []Op{rt(3), rm(), g(5)}},                                      // empty store
		{Mode: "seq", Pre: []Op{{K: "rawq", P: 0, Ts: 1}, {K: "rawq", P: 1, Ts: 2}, {K: "rawo", P: 1}},
			Ops: []Op{q(0, 0), rt(10), rt(10)}}, // the orphan records of storage/cache_coverage_test.go
		{Mode: "seq", Pre: []Op{{K: "rawp", P: 0, V: -1}}, Ops: []Op{g(0), s(0, 0), g(0), q(1, 0), rt(5), q(0, 1), g(0), rt(5)}},
		{Mode: "seq", Pre: []Op{{K: "rawq", P: 0, Ts: 5}, {K: "rawp", P: 0, V: -1}, {K: "rawq", P: 1, Ts: 4}, {K: "rawp", P: 1, V: 0}},
			Ops: []Op{rt(1), rt(2), g(1)}}, // undecodable body aborts the retrieval that reaches it, state unchanged
		{Mode: "seq", Pre: []Op{{K: "rawq", P: 0, Ts: 7}, {K: "rawq", P: 1, Ts: 7}, {K: "rawq", P: 2, Ts: 7}, {K: "rawp", P: 0, V: 0}, {K: "rawp", P: 1, V: 0}, {K: "rawp", P: 2, V: 0}},
			Ops: []Op{rt(2), rt(2)}}, // equal timestamps: hash order
		{Mode: "conc", Repeat: 3, Threads: [][]Op{
			{q(0, 0), rt(2), q(0, 1), rt(2)}, {q(0, 1), rt(2), q(0, 2), rt(2)}, {rt(1), rt(1), rt(1)}, {q(1, 0), rm(0), q(0, 0)},
			{s(0, 0), s(1, 1), rt(3)}, {q(1, 1), rt(2)}, {rm(1), q(1, 2), rt(1)}, {g(0), g(1), rt(2)}}},
	}
}

// one removal call of every boundary size, all elements pending resp. retrieved
func corpusBig() []Case {
	r := vh.NewRand(23, "C23-corpus-big")
	var out []Case
	for k, n := range bigSizes[:7] {
		out = append(out, genBig(r, n, 2+k%2))
	}
	out = append(out, genBig(r, 255, 1), genLimits(r))
	return out
}

func main() {
	c := vh.Start("C23")
	c.Rep.Rule = "corpus (store-only, dedup, re-queue, removal with stale record, limit cuts, batches >100, orphan/undecodable raw records, " +
		"equal timestamps; one removal call of 199/200/201/255/256/300/301 hashes with every element pending, retrieved or stored, " +
		"probed at first, 98..101, 198..201, 254..256, 299/300 and last), then random sequential histories of 5..60 operations over 2..12 payloads x 3 differently signed bodies " +
		"(1/4 start from raw records) each ending with a full retrieval, interleaved (1 per 19, thorough 1 per 33) with boundary histories over up to 320 payloads " +
		"(removal lists of 99..301 hashes mixing never-written/stored/pending/retrieved elements and duplicates, then get/re-queue/store/retrieve in every " +
		"region; queues of 99..320 entries consumed with limits 99..301), and concurrent histories of 8 goroutines x 4..12 operations " +
		"(oracle only). Non-trivial = some retrieval returned a transaction; distinct by the operation sequence."
	buildPool()
	closeStore := openStore()
	defer func() { closeStore() }()
	// deleted records stay behind as Badger tombstones that every later iteration has to step over:
	// start from a fresh store every 200 histories so that a long run stays linear
	fresh := func(i int) {
		if i%200 == 199 {
			closeStore()
			closeStore = openStore()
		}
	}
	if c.Replay != "" {
		var cs Case
		c.ReplayCase(&cs)
		run(c, cs)
		c.Finish()
		return
	}
	for _, cs := range corpus() {
		run(c, cs)
	}
	for _, cs := range corpusBig() {
		run(c, cs)
	}
	every := 19 // one boundary history per `every` small ones, interleaved so that no case shard gets heavy
	if c.Tier == "thorough" {
		every = 33
	}
	rb := c.Rng.Fork("big")
	nseq := c.Scale(300, 10000)
	nconc := c.Scale(40, 1500)
	rs := c.Rng.Fork("seq")
	for i := 0; i < nseq; i++ {
		run(c, genSeq(rs))
		if i%every == 7 {
			if rb.Chance(1, 5) {
				run(c, genLimits(rb))
			} else {
				run(c, genBig(rb, bigSizes[rb.Intn(len(bigSizes))], -1))
			}
		}
		fresh(i)
	}
	rc := c.Rng.Fork("conc")
	for i := 0; i < nconc; i++ {
		run(c, genConc(rc))
		fresh(i)
	}
	c.Note(fmt.Sprintf("concurrent part: %d calls from 8 goroutines, %d returned a transaction-conflict error (no effect), %d transactions returned by racing retrievals",
		concOps, concErrs, concReturns))
	c.Finish()
}
