// C30 harness: peer authentication.  Runs the real kernel.Node.AuthenticateAs /
// BuildAuthenticationMessage (mock clock of kernel/internal/clock through the
// verif hooks), emits each observation as a Coq case for Model/Auth.v, and checks
// the implementation directly against the property text with independent
// primitives (crypto/ed25519, sha3, blake3, exact integer time arithmetic).
package main

import (
	"bytes"
	"crypto/ed25519"
	"crypto/sha3"
	"crypto/sha512"
	"encoding/binary"
	"encoding/hex"
	"fmt"
	"go/ast"
	"go/parser"
	"go/token"
	"math"
	"math/big"
	"net"
	"os"
	"path/filepath"
	"runtime"
	"strings"
	"sync"
	"time"

	"filippo.io/edwards25519"
	"github.com/MixinNetwork/mixin/common"
	"github.com/MixinNetwork/mixin/crypto"
	"github.com/MixinNetwork/mixin/kernel"
	"github.com/MixinNetwork/mixin/p2p"
	"github.com/zeebo/blake3"
	"verifharness/vh"
)

type Case struct {
	Op      string `json:"op"`             // auth | round | skew
	Kind    string `json:"kind,omitempty"` // how the case was made (distribution only)
	Net     string `json:"net,omitempty"`
	Rcp     string `json:"rcp,omitempty"`
	Msg     string `json:"msg,omitempty"`
	Timeout int64  `json:"timeout,omitempty"`
	NowNano int64  `json:"now_nano,omitempty"`    // instant the mock clock is set to
	Relayed bool   `json:"via_relayed,omitempty"` // auth: through p2p updateRemoteRelayerConsumers (limit 0)
	X       string `json:"x,omitempty"`           // round: integer; skew: now
	Ts      string `json:"ts,omitempty"`
	T       string `json:"t,omitempty"`
	Steps   []Step `json:"steps,omitempty"` // seq: presented in this order to ONE node instance
	Hs      []Hs   `json:"hs,omitempty"`    // handshake: run concurrently through p2p authenticateNeighbor
}

// one incoming consumer handshake: the sender's message is AgeSec old when the
// handshake starts and is delivered by the client after DelayMs
type Hs struct {
	Sender  string `json:"sender"` // 64-byte seed
	AgeSec  int64  `json:"age_sec"`
	DelayMs int64  `json:"delay_ms"`
	Flag    byte   `json:"flag"`
	Relayed bool   `json:"relayed,omitempty"` // through updateRemoteRelayerConsumers instead
}

// one presentation of a message to the node of a sequence
type Step struct {
	Kind    string `json:"kind"`
	Relayed bool   `json:"via_relayed,omitempty"`
	Rcp     string `json:"rcp,omitempty"` // receiver id passed to AuthenticateAs; default: the sequence's
	Msg     string `json:"msg"`
	Timeout int64  `json:"timeout,omitempty"`
	NowNano int64  `json:"now_nano"`
}

const msgLen = 137 // property: 8 timestamp + 32 recipient + 32 key + 1 flag + 64 signature

func unhex(s string) []byte {
	b, err := hex.DecodeString(s)
	if err != nil {
		panic(err)
	}
	return b
}

func hash32(b []byte) crypto.Hash {
	var h crypto.Hash
	copy(h[:], b)
	return h
}

// peer id of a public spend key, from the library primitives only:
// view = (SHA3(k)||SHA3(k) reduced mod l)·G ; id = BLAKE3(net || SHA3(k || view)).
func refPeerId(net []byte, key []byte) []byte {
	seed := sha3.Sum256(key)
	s, err := edwards25519.NewScalar().SetUniformBytes(append(seed[:], seed[:]...))
	if err != nil {
		panic(err)
	}
	view := edwards25519.NewIdentityPoint().ScalarBaseMult(s).Bytes()
	ah := sha3.Sum256(append(append([]byte{}, key...), view...))
	id := blake3.Sum256(append(append([]byte{}, net...), ah[:]...))
	return id[:]
}

func floorSec(nano int64) int64 {
	s := nano / 1e9
	if nano%1e9 < 0 {
		s--
	}
	return s
}

// the real AuthenticateAs at a clock whose Unix second is floorSec(nowNano)
func authAt(node *kernel.Node, rcp crypto.Hash, msg []byte, timeout, nowNano int64, relayed bool, peerId []byte) (tok *p2p.AuthToken, err error, now int64) {
	want := floorSec(nowNano)
	for try := 0; try < 20; try++ {
		kernel.VerifClockSet(nowNano)
		before := kernel.VerifClockNow().Unix()
		if relayed {
			// the relayed-consumer path of p2p: (peer id, token) pairs announced by a relayer
			h := &recHandle{Node: node}
			peer := p2p.NewPeer(h, rcp, "mem:1", true)
			err = p2p.VerifC30UpdateRemoteRelayerConsumers(peer, rcp, append(append([]byte{}, peerId...), msg...))
			tok = nil
			if err == nil && len(h.calls) > 0 {
				tok = h.calls[len(h.calls)-1].tok
			}
		} else {
			tok, err = node.AuthenticateAs(rcp, msg, timeout)
		}
		after := kernel.VerifClockNow().Unix()
		if before == after && before == want {
			kernel.VerifClockReset()
			return tok, err, before
		}
	}
	panic("mock clock did not hold still")
}

func runAuth(c *vh.Ctx, cs Case) {
	node := kernel.VerifAuthNode(hash32(unhex(cs.Net)), common.Address{}, false)
	stepAuth(c, node, cs, cs, cs)
}

// a sequence: every step goes to the same long-lived node; each step is judged
// by the same stateless oracle and is an ordinary (stateless) model case, so an
// acceptance that depends on what was accepted before is a failure / mismatch.
func runSeq(c *vh.Ctx, seq Case) {
	node := kernel.VerifAuthNode(hash32(unhex(seq.Net)), common.Address{}, false)
	accepted := []Step{} // what a faulty memory could have kept: replay context of a step
	for i, st := range seq.Steps {
		rcp := st.Rcp
		if rcp == "" {
			rcp = seq.Rcp
		}
		cs := Case{Op: "auth", Kind: "seq/" + st.Kind, Net: seq.Net, Rcp: rcp, Msg: st.Msg, Timeout: st.Timeout, NowNano: st.NowNano, Relayed: st.Relayed}
		full := seq
		full.Steps = seq.Steps[:i+1]
		ctx := Case{Op: "seq", Net: seq.Net, Rcp: seq.Rcp, Steps: append(append([]Step{}, accepted...), st)}
		if stepAuth(c, node, cs, full, ctx) {
			dup := false
			for _, a := range accepted {
				dup = dup || (a.Msg == st.Msg && a.Rcp == st.Rcp)
			}
			if !dup {
				accepted = append(accepted, st)
			}
		}
	}
}

// cs: this presentation; failCase: what reproduces an oracle failure (the sequence
// up to here); modelCase: JSON attached to the model case.  Reports acceptance.
func stepAuth(c *vh.Ctx, node *kernel.Node, cs Case, failCase Case, modelCase Case) bool {
	net, rcp, msg := unhex(cs.Net), unhex(cs.Rcp), unhex(cs.Msg)
	relayed := cs.Relayed && len(msg) == msgLen
	var relayedId []byte
	if relayed {
		cs.Timeout = 0 // what that path passes
		relayedId = refPeerId(net, msg[40:72])
	}
	var tok *p2p.AuthToken
	var err error
	var now int64
	pan, pv := vh.Catch(func() { tok, err, now = authAt(node, hash32(rcp), msg, cs.Timeout, cs.NowNano, relayed, relayedId) })
	if pan {
		c.Case("auth/"+cs.Kind, cs.Msg, false, modelCase, "")
		c.Fail("auth-panic", fmt.Sprintf("AuthenticateAs panicked: %v", pv), failCase)
		return false
	}
	accepted := err == nil

	// ---- oracle, from the property text ----
	okLen := len(msg) == msgLen
	var okRcp, okSkew, okSelf, okSig, okKey, strictSig bool
	var ts uint64
	var id, mh []byte
	if okLen {
		ts = binary.BigEndian.Uint64(msg[:8])
		d := new(big.Int).Sub(big.NewInt(now), new(big.Int).SetUint64(ts))
		d.Abs(d)
		okSkew = cs.Timeout <= 0 || d.Cmp(big.NewInt(cs.Timeout)) <= 0
		okRcp = bytes.Equal(msg[8:40], rcp)
		id = refPeerId(net, msg[40:72])
		okSelf = !bytes.Equal(id, rcp)
		h := blake3.Sum256(msg[:73])
		mh = h[:]
		// independent of the repository's crypto: key validity and the verification equation with
		// filippo edwards25519 and the repository's challenge definition, cross-checked with crypto/ed25519
		okKey, okSig, strictSig = refVerify(msg[40:72], mh, msg[73:137])
		if okSig && !ed25519.Verify(ed25519.PublicKey(msg[40:72]), mh, msg[73:137]) {
			c.Note("reference verification and crypto/ed25519 disagree on " + cs.Msg)
		}
	}
	// refusing is demanded only of nothing; accepting is demanded of honestly formed signatures
	want := okLen && okRcp && okSkew && okSelf && strictSig
	switch {
	case accepted && !okLen:
		c.Fail("accept-bad-length", fmt.Sprintf("message of %d bytes accepted", len(msg)), failCase)
	case accepted && !okRcp:
		c.Fail("accept-wrong-recipient", "message addressed to another node accepted", failCase)
	case accepted && !okSkew:
		c.Fail("accept-stale", fmt.Sprintf("timestamp %d accepted at %d with timeout %d", ts, now, cs.Timeout), failCase)
	case accepted && !okSelf:
		c.Fail("accept-self", "message from the receiver itself accepted", failCase)
	case accepted && !okKey:
		c.Fail("accept-invalid-key", "accepted although the key the message names is not the canonical encoding of a point of prime order: nobody holds such a key, a content-independent signature verifies for it", failCase)
	case accepted && !okSig:
		c.Fail("accept-unsigned", "accepted although the signature over the 73-byte prefix (time, recipient, key, relayer flag) is not valid for the named key", failCase)
	case !accepted && want:
		c.Fail("reject-valid", "well-formed, fresh, correctly addressed and signed message refused: "+err.Error(), failCase)
	}
	if accepted && okLen {
		if !bytes.Equal(tok.PeerId[:], id) {
			c.Fail("token-peer-id", "token peer id is not the id derived from the key in the message", failCase)
		}
		if tok.Timestamp != ts || tok.IsRelayer != (msg[72] == 1) || !bytes.Equal(tok.Data, msg) {
			c.Fail("token-fields", "token timestamp/relayer flag/data differ from the message", failCase)
		}
	}

	// ---- model case ----
	hlen := 73
	if len(msg) < hlen {
		hlen = len(msg)
	}
	hh := blake3.Sum256(msg[:hlen])
	idk, vs, pid := []byte{0}, []byte{0}, []byte{0}
	ver := false
	if okLen {
		idk, vs, pid = msg[40:72], msg[73:137], id
		var k crypto.Key
		copy(k[:], msg[40:72])
		var sg crypto.Signature
		copy(sg[:], msg[73:137])
		ver = k.Verify(crypto.Hash(hh), sg)
		if ver && !okSig {
			c.Fail("verify-accepts-invalid", "Key.Verify holds although the key is not a canonical prime-order point or the verification equation fails (independent check)", failCase)
		} else if strictSig && !ver {
			c.Fail("verify-rejects-valid", "Key.Verify fails on an honestly formed signature of a valid key (independent check)", failCase)
		}
	}
	obs := vh.Err("(N * Z * bool)")
	if accepted {
		obs = vh.Ok(fmt.Sprintf("(%s, %s, %s)", HN(tok.PeerId[:]), vh.ZU(tok.Timestamp), vh.Bool(tok.IsRelayer)))
	}
	term := vh.App("CAuth", HN(net), HN(rcp), HB(msg), vh.ZI(cs.Timeout), vh.ZI(now),
		vh.Nat(hlen), HN(hh[:]), HN(idk), HN(pid),
		HN(idk), HN(hh[:]), HN(vs), vh.Bool(ver), obs)
	if strings.HasSuffix(cs.Kind, "-oracle-only") {
		term = ""
	}
	reachedCore := okLen && okRcp && okSkew && okSelf
	c.Case("auth/"+cs.Kind, fmt.Sprintf("%s|%s|%s|%d|%d", cs.Net, cs.Rcp, cs.Msg, cs.Timeout, now), reachedCore, modelCase, term)
	return accepted
}

// ---- independent Ed25519 reference (filippo edwards25519 + the repository's challenge) ------

var (
	identityPoint = edwards25519.NewIdentityPoint()
	orderL, _     = new(big.Int).SetString("7237005577332262213973186563042994240857116359379907606001950938285454250989", 10)
)

func scalarOfBig(v *big.Int) *edwards25519.Scalar {
	b := make([]byte, 32)
	new(big.Int).Mod(v, orderL).FillBytes(b)
	for i, j := 0, 31; i < j; i, j = i+1, j-1 {
		b[i], b[j] = b[j], b[i]
	}
	sc, err := edwards25519.NewScalar().SetCanonicalBytes(b)
	if err != nil {
		panic(err)
	}
	return sc
}

// [l]P == identity, computed as (l-1)P + P
func inPrimeSubgroup(p *edwards25519.Point) bool {
	q := edwards25519.NewIdentityPoint().ScalarMult(scalarOfBig(new(big.Int).Sub(orderL, big.NewInt(1))), p)
	q.Add(q, p)
	return q.Equal(identityPoint) == 1
}

// canonical encoding of a point of order exactly l
func refKeyValid(k []byte) (*edwards25519.Point, bool) {
	p, err := edwards25519.NewIdentityPoint().SetBytes(k)
	if err != nil {
		return nil, false
	}
	return p, bytes.Equal(p.Bytes(), k) && p.Equal(identityPoint) != 1 && inPrimeSubgroup(p)
}

// SHA-512(R || A || M) reduced mod l
func refChallenge(R, A, m []byte) *edwards25519.Scalar {
	h := sha512.New()
	h.Write(R)
	h.Write(A)
	h.Write(m)
	k, err := edwards25519.NewScalar().SetUniformBytes(h.Sum(nil))
	if err != nil {
		panic(err)
	}
	return k
}

// keyOK: the key is valid; sigOK: additionally S canonical, R canonical and [S]B = R + [k]A;
// strict: additionally R of order l (an honestly formed signature)
func refVerify(key, m, sig []byte) (keyOK, sigOK, strict bool) {
	A, keyOK := refKeyValid(key)
	if !keyOK {
		return false, false, false
	}
	S, err := edwards25519.NewScalar().SetCanonicalBytes(sig[32:])
	if err != nil {
		return true, false, false
	}
	R, err := edwards25519.NewIdentityPoint().SetBytes(sig[:32])
	if err != nil || !bytes.Equal(R.Bytes(), sig[:32]) {
		return true, false, false
	}
	k := refChallenge(sig[:32], key, m)
	lhs := edwards25519.NewIdentityPoint().ScalarBaseMult(S)
	rhs := edwards25519.NewIdentityPoint().ScalarMult(k, A)
	rhs.Add(rhs, R)
	if lhs.Equal(rhs) != 1 {
		return true, false, false
	}
	return true, true, R.Equal(identityPoint) != 1 && inPrimeSubgroup(R)
}

// the eight torsion points j*T8 (j = 0..7), T8 of order 8, found by clearing the prime part of
// points decoded from small y values
func torsionPoints() []*edwards25519.Point {
	for y := byte(2); y < 255; y++ {
		enc := make([]byte, 32)
		enc[0] = y
		p, err := edwards25519.NewIdentityPoint().SetBytes(enc)
		if err != nil {
			continue
		}
		t := edwards25519.NewIdentityPoint().ScalarMult(scalarOfBig(new(big.Int).Sub(orderL, big.NewInt(1))), p)
		t.Add(t, p) // [l]p: pure torsion
		t4 := edwards25519.NewIdentityPoint().Add(t, t)
		t4.Add(t4, t4)
		if t4.Equal(identityPoint) == 1 {
			continue // order < 8
		}
		out := []*edwards25519.Point{edwards25519.NewIdentityPoint()}
		for j := 1; j < 8; j++ {
			out = append(out, edwards25519.NewIdentityPoint().Add(out[j-1], t))
		}
		return out
	}
	panic("no point of order 8 found")
}

// encodings that decode to a torsion point without being its canonical encoding:
// y + p for y in {0, 1}, and the sign bit set on x = 0
func nonCanonicalTorsion() [][]byte {
	p := new(big.Int).Sub(new(big.Int).Lsh(big.NewInt(1), 255), big.NewInt(19))
	le := func(v *big.Int, sign bool) []byte {
		b := make([]byte, 32)
		v.FillBytes(b)
		for i, j := 0, 31; i < j; i, j = i+1, j-1 {
			b[i], b[j] = b[j], b[i]
		}
		if sign {
			b[31] |= 0x80
		}
		return b
	}
	one, pm1 := big.NewInt(1), new(big.Int).Sub(p, big.NewInt(1))
	return [][]byte{
		le(new(big.Int).Add(p, one), false), le(new(big.Int).Add(p, one), true), // identity as y = p+1
		le(one, true), le(pm1, true), // x = 0 with the sign bit
		le(p, false), le(p, true), // y = p (order 4)
	}
}

// valid keys that also have a non-canonical encoding y + p (y < 19): none are expected to exist
func nonCanonicalValidKeys() [][]byte {
	var out [][]byte
	p := new(big.Int).Sub(new(big.Int).Lsh(big.NewInt(1), 255), big.NewInt(19))
	for y := int64(0); y < 19; y++ {
		for _, sign := range []byte{0, 0x80} {
			enc := make([]byte, 32)
			enc[0], enc[31] = byte(y), sign
			if _, ok := refKeyValid(enc); !ok {
				continue
			}
			b := make([]byte, 32)
			new(big.Int).Add(p, big.NewInt(y)).FillBytes(b)
			for i, j := 0, 31; i < j; i, j = i+1, j-1 {
				b[i], b[j] = b[j], b[i]
			}
			b[31] |= sign
			out = append(out, b)
		}
	}
	return out
}

// ---- adversarial key / signature algebra ----------------------------------------------------

// every step is presented on the direct and on the relayed path, twice (cold and warm point
// cache), on one node, after an honest message of the related valid key
func adversarial(c *vh.Ctx, r *vh.Rand, model bool) Case {
	net := crypto.Hash(blake3.Sum256(r.Bytes(8)))
	x, me := newSender(r, net), newSender(r, net)
	nn := (int64(1_700_000_000)+int64(r.Intn(400_000_000)))*1e9 + 500_000_000
	now := floorSec(nn)
	t := int64(p2p.HandshakeTimeout / 1e9)
	suffix := ""
	if !model {
		suffix = "-oracle-only"
	}
	seq := Case{Op: "seq", Net: hx(net[:]), Rcp: hx(me.id[:])}
	add := func(kind string, m []byte) {
		for rep := 0; rep < 2; rep++ {
			seq.Steps = append(seq.Steps,
				Step{Kind: "adv/" + kind + suffix, Msg: hx(m), Timeout: t, NowNano: nn},
				Step{Kind: "adv/" + kind + "/relayed" + suffix, Msg: hx(m), NowNano: nn, Relayed: true})
		}
	}
	prefix := func(ts uint64, key []byte, flag byte) []byte {
		d := make([]byte, 8)
		binary.BigEndian.PutUint64(d, ts)
		d = append(d, me.id[:]...)
		d = append(d, key...)
		return append(d, flag)
	}
	hashOf := func(pre []byte) []byte { h := blake3.Sum256(pre); return h[:] }
	randScalar := func() *edwards25519.Scalar {
		sc, _ := edwards25519.NewScalar().SetUniformBytes(r.Bytes(64))
		return sc
	}
	kills := func(k *edwards25519.Scalar, T *edwards25519.Point) bool { // [k]T = identity
		return edwards25519.NewIdentityPoint().ScalarMult(k, T).Equal(identityPoint) == 1
	}
	zeroS := make([]byte, 32)

	// honest message of the related valid key first (accepted; its point is in the cache)
	honest := ownMessage(x, uint64(now), me.id[:], 1, 73)
	add("honest", honest)

	tors := torsionPoints()
	type lowKey struct {
		name string
		enc  []byte
		P    *edwards25519.Point
	}
	var keys []lowKey
	for j, T := range tors {
		keys = append(keys, lowKey{fmt.Sprintf("torsion%d", j), T.Bytes(), T})
	}
	for i, enc := range nonCanonicalTorsion() {
		if P, err := edwards25519.NewIdentityPoint().SetBytes(enc); err == nil {
			keys = append(keys, lowKey{fmt.Sprintf("torsion-noncanonical%d", i), enc, P})
		} else {
			keys = append(keys, lowKey{fmt.Sprintf("undecodable%d", i), enc, nil})
		}
	}
	for _, lk := range keys {
		flag := byte(r.Intn(2))
		pre := prefix(uint64(now), lk.enc, flag)
		mh := hashOf(pre)
		// (1) R = s*B, S = s: verifies whenever [k]A = identity; grind s
		var sig []byte
		for try := 0; try < 200; try++ {
			sc := randScalar()
			R := edwards25519.NewIdentityPoint().ScalarBaseMult(sc).Bytes()
			sig = append(append([]byte{}, R...), sc.Bytes()...)
			if lk.P == nil || kills(refChallenge(R, lk.enc, mh), lk.P) {
				break
			}
		}
		add(lk.name+"/R=sB,S=s", append(append([]byte{}, pre...), sig...))
		// (2) R = identity, S = 0: grind the timestamp inside the window and the flag
		pre2 := pre
		for try := 0; try < 200 && lk.P != nil; try++ {
			pre2 = prefix(uint64(now+int64(r.Range(-9, 9))), lk.enc, byte(r.Intn(256)))
			if kills(refChallenge(identityPoint.Bytes(), lk.enc, hashOf(pre2)), lk.P) {
				break
			}
		}
		add(lk.name+"/R=identity,S=0", append(append(append([]byte{}, pre2...), identityPoint.Bytes()...), zeroS...))
		// (3) R of small order, S = 0: R = -[k]A, solved over the eight torsion points
		Rs := tors[r.Intn(8)].Bytes()
		for _, T := range tors {
			if lk.P == nil {
				break
			}
			kA := edwards25519.NewIdentityPoint().ScalarMult(refChallenge(T.Bytes(), lk.enc, mh), lk.P)
			if kA.Add(kA, T).Equal(identityPoint) == 1 {
				Rs = T.Bytes()
				break
			}
		}
		add(lk.name+"/R=torsion,S=0", append(append(append([]byte{}, pre...), Rs...), zeroS...))
	}

	// a valid key plus a torsion component: A' = A + T, honest response S = r + k*a, nonce ground
	// until [k]T = identity, so that the plain verification equation holds for A'
	A, _ := edwards25519.NewIdentityPoint().SetBytes(x.addr.PublicSpendKey[:])
	a, err := edwards25519.NewScalar().SetCanonicalBytes(x.addr.PrivateSpendKey[:])
	if err != nil {
		panic(err)
	}
	for j := 1; j < 8; j++ {
		Ap := edwards25519.NewIdentityPoint().Add(A, tors[j]).Bytes()
		pre := prefix(uint64(now), Ap, byte(r.Intn(2)))
		mh := hashOf(pre)
		var sig []byte
		for try := 0; try < 200; try++ {
			rn := randScalar()
			R := edwards25519.NewIdentityPoint().ScalarBaseMult(rn).Bytes()
			k := refChallenge(R, Ap, mh)
			S := edwards25519.NewScalar().MultiplyAdd(k, a, rn)
			sig = append(append([]byte{}, R...), S.Bytes()...)
			if kills(k, tors[j]) {
				break
			}
		}
		add(fmt.Sprintf("valid+torsion%d", j), append(append([]byte{}, pre...), sig...))
	}
	for i, enc := range nonCanonicalValidKeys() {
		m := append([]byte{}, honest...)
		copy(m[40:72], enc)
		add(fmt.Sprintf("valid-noncanonical%d", i), m)
	}
	// S non-canonical: S + l of an honest signature
	{
		m := append([]byte{}, honest...)
		S := new(big.Int).Add(leToBig(m[105:137]), orderL)
		b := make([]byte, 32)
		S.FillBytes(b)
		for i, j := 0, 31; i < j; i, j = i+1, j-1 {
			b[i], b[j] = b[j], b[i]
		}
		copy(m[105:137], b)
		add("S+l", m)
	}
	// nonce 0: R = identity, S = k*a (the equation holds; no demand either way) and R of small order
	{
		pre := prefix(uint64(now), x.addr.PublicSpendKey[:], 0)
		k := refChallenge(identityPoint.Bytes(), x.addr.PublicSpendKey[:], hashOf(pre))
		S := edwards25519.NewScalar().Multiply(k, a)
		add("valid-key/R=identity,S=ka", append(append(append([]byte{}, pre...), identityPoint.Bytes()...), S.Bytes()...))
		add("valid-key/R=torsion,S=ka", append(append(append([]byte{}, pre...), tors[r.Range(1, 7)].Bytes()...), S.Bytes()...))
		add("valid-key/R=identity,S=0", append(append(append([]byte{}, pre...), identityPoint.Bytes()...), zeroS...))
	}
	add("honest-again", honest)
	return seq
}

func leToBig(b []byte) *big.Int {
	rv := make([]byte, len(b))
	for i := range b {
		rv[len(b)-1-i] = b[i]
	}
	return new(big.Int).SetBytes(rv)
}

// ---- the callers of AuthenticateAs (p2p) ------------------------------------------------

type authCall struct {
	caller        string
	rcp           crypto.Hash
	msg           []byte
	timeout       int64
	before, after int64
	tok           *p2p.AuthToken
	err           error
}

// SyncHandle that records what the p2p layer passes and calls the real kernel function
type recHandle struct {
	*kernel.Node
	mu    sync.Mutex
	calls []authCall
}

func callerOf() string {
	pcs := make([]uintptr, 8)
	n := runtime.Callers(3, pcs)
	fr := runtime.CallersFrames(pcs[:n])
	for {
		f, more := fr.Next()
		if strings.Contains(f.Function, "/p2p.") {
			return f.Function[strings.LastIndex(f.Function, "/p2p.")+5:]
		}
		if !more {
			return "?"
		}
	}
}

func (h *recHandle) AuthenticateAs(rcp crypto.Hash, msg []byte, timeoutSec int64) (*p2p.AuthToken, error) {
	call := authCall{caller: callerOf(), rcp: rcp, msg: bytes.Clone(msg), timeout: timeoutSec}
	call.before = kernel.VerifClockNow().Unix()
	call.tok, call.err = h.Node.AuthenticateAs(rcp, msg, timeoutSec)
	call.after = kernel.VerifClockNow().Unix()
	h.mu.Lock()
	h.calls = append(h.calls, call)
	h.mu.Unlock()
	return call.tok, call.err
}

type delayClient struct {
	delay time.Duration
	tm    *p2p.TransportMessage
}

type memAddr struct{}

func (memAddr) Network() string { return "mem" }
func (memAddr) String() string  { return "mem:0" }

func (d *delayClient) RemoteAddr() net.Addr { return memAddr{} }
func (d *delayClient) Receive() (*p2p.TransportMessage, error) {
	time.Sleep(d.delay)
	return d.tm, nil
}
func (d *delayClient) Send([]byte) error { return nil }
func (d *delayClient) Close(string)      {}

func authTerm(net, rcp, msg []byte, timeout, now int64, tok *p2p.AuthToken) string {
	hh := blake3.Sum256(msg[:73])
	var k crypto.Key
	copy(k[:], msg[40:72])
	var sg crypto.Signature
	copy(sg[:], msg[73:137])
	obs := vh.Err("(N * Z * bool)")
	if tok != nil {
		obs = vh.Ok(fmt.Sprintf("(%s, %s, %s)", HN(tok.PeerId[:]), vh.ZU(tok.Timestamp), vh.Bool(tok.IsRelayer)))
	}
	return vh.App("CAuth", HN(net), HN(rcp), HB(msg), vh.ZI(timeout), vh.ZI(now), vh.Nat(73), HN(hh[:]),
		HN(msg[40:72]), HN(refPeerId(net, msg[40:72])), HN(msg[40:72]), HN(hh[:]), HN(msg[73:137]), vh.Bool(k.Verify(crypto.Hash(hh), sg)), obs)
}

// all handshakes of the case run at the same time against the real clock
func runHandshake(c *vh.Ctx, cs Case) {
	kernel.VerifClockReset()
	net := hash32(unhex(cs.Net))
	me := newSender(vh.NewRand(7, cs.Rcp), net) // receiver identity from the case
	limit := int64(p2p.HandshakeTimeout / time.Second)
	type result struct {
		h    *recHandle
		peer *p2p.Peer
		err  error
		msg  []byte
		ts   int64
		id   crypto.Hash
	}
	res := make([]result, len(cs.Hs))
	var wg sync.WaitGroup
	for i, hs := range cs.Hs {
		x := sender{addr: common.NewAddressFromSeed(unhex(hs.Sender))}
		x.id = crypto.Hash(refPeerId(net[:], x.addr.PublicSpendKey[:]))
		h := &recHandle{Node: kernel.VerifAuthNode(net, me.addr, true)}
		peer := p2p.NewPeer(h, me.id, "mem:1", true)
		ts := time.Now().Unix() - hs.AgeSec
		msg := ownMessage(x, uint64(ts), me.id[:], hs.Flag, 73)
		res[i] = result{h: h, msg: msg, ts: ts, id: x.id}
		wg.Add(1)
		go func(i int, hs Hs) {
			defer wg.Done()
			if hs.Relayed {
				time.Sleep(time.Duration(hs.DelayMs) * time.Millisecond)
				res[i].err = p2p.VerifC30UpdateRemoteRelayerConsumers(peer, me.id, append(append([]byte{}, x.id[:]...), msg...))
				return
			}
			cl := &delayClient{delay: time.Duration(hs.DelayMs) * time.Millisecond, tm: p2p.VerifC30AuthenticationTransportMessage(msg)}
			res[i].peer, res[i].err = p2p.VerifC30AuthenticateNeighbor(peer, cl)
		}(i, hs)
	}
	wg.Wait()
	time.Sleep(50 * time.Millisecond)
	for i, hs := range cs.Hs {
		r := res[i]
		one := Case{Op: "handshake", Net: cs.Net, Rcp: cs.Rcp, Hs: []Hs{hs}}
		kind := fmt.Sprintf("handshake/age=%ds/delay=%dms", hs.AgeSec, hs.DelayMs)
		if hs.Relayed {
			kind = "relayed-consumer/" + kind[10:]
		}
		accepted := r.err == nil
		stale := hs.AgeSec > limit
		r.h.mu.Lock()
		calls := append([]authCall{}, r.h.calls...)
		r.h.mu.Unlock()
		for _, call := range calls {
			// judged by the path the harness entered (neighbor handshake vs relayed consumers),
			// not by the name of the function that contains the call
			if !hs.Relayed && call.timeout <= 0 {
				c.Fail("handshake-limit", fmt.Sprintf("the direct-neighbor handshake passed the clock-skew limit %d to AuthenticateAs (delivery after %d ms): no freshness test", call.timeout, hs.DelayMs), one)
			} else if !hs.Relayed && call.timeout != limit {
				c.Fail("handshake-limit", fmt.Sprintf("the direct-neighbor handshake passed the clock-skew limit %d, the configured handshake timeout is %d", call.timeout, limit), one)
			}
			c.Count(fmt.Sprintf("observed-limit/%s=%d", call.caller, call.timeout))
			term := ""
			if call.before == call.after {
				term = authTerm(net[:], call.rcp[:], call.msg, call.timeout, call.before, call.tok)
			}
			c.Case(kind, fmt.Sprintf("%s|%d|%d|%v", hs.Sender, hs.AgeSec, hs.DelayMs, hs.Relayed), !stale, one, term)
		}
		if hs.Relayed {
			// which limit this path passes is reported (observed-limit counters), not judged
			if !accepted && !stale {
				c.Fail("relayed-consumer-path", "a fresh, correctly signed consumer token was refused on the relayed-consumer path: "+r.err.Error(), one)
			}
			continue
		}
		if accepted && stale {
			c.Fail("handshake-accept-stale", fmt.Sprintf("authenticateNeighbor accepted a message %d s old (limit %d s) delivered %d ms into the handshake", hs.AgeSec, limit, hs.DelayMs), one)
		}
		if accepted && (r.peer == nil || r.peer.IdForNetwork != r.id) {
			c.Fail("handshake-identity", "the authenticated neighbor does not carry the id derived from the key in the message", one)
		}
		if !accepted && !stale && hs.DelayMs <= 2100 && len(calls) == 1 {
			c.Fail("handshake-reject-fresh", "fresh, correctly signed message refused on the direct-neighbor path: "+r.err.Error(), one)
		}
		if len(calls) == 0 && hs.DelayMs <= 2100 {
			c.Fail("handshake-no-authentication", "authenticateNeighbor returned without calling AuthenticateAs", one)
		}
	}
}

func handshakeCase(r *vh.Rand, withRelayed bool) Case {
	net := crypto.Hash(blake3.Sum256(r.Bytes(8)))
	cs := Case{Op: "handshake", Net: hx(net[:]), Rcp: hx(r.Bytes(8))}
	for _, age := range []int64{0, 11, 3600} {
		for _, d := range []int64{0, 500, 1900, 2100, 2900} {
			cs.Hs = append(cs.Hs, Hs{Sender: hx(r.Bytes(64)), AgeSec: age, DelayMs: d, Flag: byte(r.Intn(2))})
		}
	}
	if withRelayed {
		for _, age := range []int64{0, 3600} {
			cs.Hs = append(cs.Hs, Hs{Sender: hx(r.Bytes(64)), AgeSec: age, DelayMs: 0, Flag: byte(r.Intn(2)), Relayed: true})
		}
	}
	return cs
}

// inventory of the call sites of AuthenticateAs in the repository's sources and which
// of them pass a literal 0: INFORMATIONAL (a note and counters in the report), never an
// oracle failure - the property does not say which function contains the call; the
// handshake cases carry the property.
func runCallSites(c *vh.Ctx, cs Case) {
	repo := os.Getenv("VERIF_REPO")
	if repo == "" {
		repo = "/repo"
	}
	fset := token.NewFileSet()
	found := 0
	for _, dir := range []string{"p2p", "kernel", "rpc", "."} {
		pkgs, err := parser.ParseDir(fset, filepath.Join(repo, dir), func(fi os.FileInfo) bool {
			return !strings.HasSuffix(fi.Name(), "_test.go") && !strings.HasPrefix(fi.Name(), "verif_")
		}, 0)
		if err != nil {
			panic(err)
		}
		for _, pkg := range pkgs {
			for _, f := range pkg.Files {
				for _, d := range f.Decls {
					fn, ok := d.(*ast.FuncDecl)
					if !ok || fn.Body == nil {
						continue
					}
					ast.Inspect(fn.Body, func(n ast.Node) bool {
						call, ok := n.(*ast.CallExpr)
						if !ok {
							return true
						}
						sel, ok := call.Fun.(*ast.SelectorExpr)
						if !ok || sel.Sel.Name != "AuthenticateAs" || len(call.Args) != 3 {
							return true
						}
						found++
						site := dir + "." + fn.Name.Name
						lit, isLit := call.Args[2].(*ast.BasicLit)
						zero := isLit && lit.Value == "0"
						c.Count("callsite/" + site)
						note := "AuthenticateAs call site: " + site
						if zero {
							c.Count("callsite-literal-0/" + site)
							note += " (literal limit 0: no freshness test)"
						}
						c.Note(note)
						return true
					})
				}
			}
		}
	}
	c.Note(fmt.Sprintf("AuthenticateAs call sites found in the sources: %d", found))
}

// one hexadecimal literal per byte string / big number (see coq/Model/HexLit.v)
func HB(b []byte) string {
	if len(b) == 0 {
		return "(@nil N)"
	}
	return "(hb 0x" + hex.EncodeToString(b) + "%huint)"
}
func HN(b []byte) string { return "(hn 0x" + hex.EncodeToString(b) + "%huint)" }

func bigOf(s string) *big.Int {
	v, ok := new(big.Int).SetString(s, 10)
	if !ok {
		panic("bad int " + s)
	}
	return v
}

// float64 of an integer that fits int64 or uint64, as the Go conversion does it
func f64(v *big.Int) float64 {
	if v.IsInt64() {
		return float64(v.Int64())
	}
	if v.IsUint64() {
		return float64(v.Uint64())
	}
	panic("out of range")
}

func runFloat(c *vh.Ctx, cs Case) {
	switch cs.Op {
	case "round":
		x := bigOf(cs.X)
		f := f64(x)
		r, _ := new(big.Float).SetFloat64(f).Int(nil)
		c.Case("round", cs.X, true, cs, vh.App("CRound", vh.Z(x), vh.Z(r)))
		// property side: below 2^53 the conversion is exact
		if new(big.Int).Abs(x).Cmp(new(big.Int).Lsh(big.NewInt(1), 53)) <= 0 && r.Cmp(x) != 0 {
			c.Fail("float-inexact", "float64 conversion of an integer below 2^53 is not exact", cs)
		}
	case "skew":
		now, ts, t := bigOf(cs.X), bigOf(cs.Ts), bigOf(cs.T)
		got := math.Abs(float64(now.Int64())-float64(ts.Uint64())) > float64(t.Int64())
		c.Case("skew", cs.X+"|"+cs.Ts+"|"+cs.T, true, cs, vh.App("CSkew", vh.Z(now), vh.Z(ts), vh.Z(t), vh.Bool(got)))
		lim := new(big.Int).Lsh(big.NewInt(1), 52)
		if now.Sign() >= 0 && now.Cmp(lim) < 0 && t.Sign() >= 0 && t.Cmp(lim) < 0 {
			d := new(big.Int).Sub(now, ts)
			d.Abs(d)
			if got != (d.Cmp(t) > 0) {
				c.Fail("float-skew-differs", "float64 skew test differs from the exact integer test inside the proved range", cs)
			}
		}
	}
}

func run(c *vh.Ctx, cs Case) {
	switch cs.Op {
	case "auth":
		runAuth(c, cs)
	case "seq":
		runSeq(c, cs)
	case "handshake":
		runHandshake(c, cs)
	case "callsites":
		runCallSites(c, cs)
	default:
		runFloat(c, cs)
	}
}

// ---- generators ----------------------------------------------------------------

type sender struct {
	addr common.Address
	id   crypto.Hash
}

func newSender(r *vh.Rand, net crypto.Hash) sender {
	a := common.NewAddressFromSeed(r.Bytes(64))
	return sender{addr: a, id: crypto.Hash(refPeerId(net[:], a.PublicSpendKey[:]))}
}

// message assembled from the property text: sign BLAKE3 of the 73-byte prefix
func ownMessage(s sender, ts uint64, rcp []byte, flag byte, signLen int) []byte {
	data := make([]byte, 8)
	binary.BigEndian.PutUint64(data, ts)
	data = append(data, rcp...)
	data = append(data, s.addr.PublicSpendKey[:]...)
	data = append(data, flag)
	h := blake3.Sum256(data[:signLen])
	sig := s.addr.PrivateSpendKey.Sign(crypto.Hash(h))
	return append(data, sig[:]...)
}

// message built by the real BuildAuthenticationMessage at clock second ts
func builtMessage(s sender, net crypto.Hash, tsSec int64, rcp crypto.Hash, relayer bool) []byte {
	node := kernel.VerifAuthNode(net, s.addr, relayer)
	for try := 0; try < 20; try++ {
		kernel.VerifClockSet(tsSec*1e9 + 400_000_000)
		msg := node.BuildAuthenticationMessage(rcp)
		ok := kernel.VerifClockNow().Unix() == tsSec
		kernel.VerifClockReset()
		if ok && len(msg) >= 8 && binary.BigEndian.Uint64(msg[:8]) == uint64(tsSec) {
			return msg
		}
	}
	panic("mock clock did not hold still")
}

var subSecond = []int64{0, 1, 50_000_000, 500_000_000, 900_000_000}

func nowNano(r *vh.Rand) int64 {
	base := int64(1_700_000_000) + int64(r.Intn(400_000_000))
	switch r.Intn(12) {
	case 0:
		base = int64(r.Intn(1000)) // just after the epoch
	case 1:
		base = -int64(r.Range(1, 1_000_000_000)) // before the epoch: uint64(now) wraps in the builder
	case 2:
		base = 1<<32 - int64(r.Intn(3)) // around 2^32
	}
	return base*1e9 + subSecond[r.Intn(len(subSecond))]
}

func timeoutOf(r *vh.Rand) int64 {
	hs := int64(p2p.HandshakeTimeout / 1e9)
	switch r.Intn(10) {
	case 0:
		return 0 // the relayed-consumers path: no freshness test
	case 1:
		return -int64(r.Range(1, 5))
	case 2:
		return int64(r.Range(1, 3))
	case 3:
		return int64(1) << uint(r.Range(20, 62))
	default:
		return hs
	}
}

func skewOf(r *vh.Rand, t int64) int64 {
	if t < 0 {
		t = -t
	}
	if t > 1<<40 {
		t = 1 << 40
	}
	switch r.Intn(8) {
	case 0:
		return 0
	case 1:
		return t + int64(r.Range(-2, 2))
	case 2:
		return -t + int64(r.Range(-2, 2))
	case 3:
		return int64(r.Range(-3, 3))
	case 4:
		return int64(r.Intn(1_000_000)) - 500_000
	default:
		return int64(r.Range(int(-t-1), int(t+1)))
	}
}

func tsFrom(now, d int64) uint64 { return uint64(now + d) } // wraps for a negative sum, like the builder

func hx(b []byte) string { return hex.EncodeToString(b) }

// one fully valid scenario and the cases around it
func scenario(c *vh.Ctx, mutateAll bool, modelMutations bool) {
	r := c.Rng
	net := crypto.Hash(blake3.Sum256(r.Bytes(8)))
	s := newSender(r, net)
	rcpS := newSender(r, net)
	rcp := rcpS.id
	nn := nowNano(r)
	if mutateAll && nn < 0 {
		nn = 1_800_000_000_000_000_000 + subSecond[r.Intn(len(subSecond))]
	}
	now := floorSec(nn)
	t := timeoutOf(r)
	d := skewOf(r, t)
	flag := byte(r.Intn(2))
	var msg []byte
	kind := "own"
	if now+d >= 0 && d > -1_000_000 && d < 1_000_000 && r.Bool() {
		msg = builtMessage(s, net, now+d, rcp, flag == 1)
		kind = "built"
	} else {
		msg = ownMessage(s, tsFrom(now, d), rcp[:], flag, 73)
	}
	base := Case{Op: "auth", Kind: kind, Net: hx(net[:]), Rcp: hx(rcp[:]), Msg: hx(msg), Timeout: t, NowNano: nn}
	run(c, base)

	if mutateAll {
		// a fresh copy that is certainly accepted, then every single-byte mutation of it
		fresh := ownMessage(s, tsFrom(now, 0), rcp[:], flag, 73)
		if r.Bool() && now >= 0 {
			fresh = builtMessage(s, net, now, rcp, flag == 1)
		}
		fc := base
		fc.Kind, fc.Msg = "fresh", hx(fresh)
		run(c, fc)
		for pos := 0; pos < len(fresh); pos++ {
			m := append([]byte{}, fresh...)
			m[pos] ^= byte(r.Range(1, 255))
			if pos == 72 && r.Bool() {
				m[pos] = fresh[pos] ^ 1 // relayer flag 0 <-> 1
			}
			mc := base
			mc.Kind, mc.Msg = "mutation", hx(m)
			if !modelMutations {
				mc.Kind = "mutation-oracle-only"
			}
			run(c, mc)
		}
		return
	}

	// structured variants of the same scenario
	v := base
	switch r.Intn(12) {
	case 0: // wrong length: truncated / extended / empty
		n := []int{0, 1, 8, 40, 72, 73, 136, 138, 137 + 64, 2 * 137}[r.Intn(10)]
		m := append(append([]byte{}, msg...), r.Bytes(140)...)
		v.Kind, v.Msg = "length", hx(m[:n])
	case 1: // addressed to someone else
		other := newSender(r, net)
		v.Kind, v.Rcp = "other-recipient", hx(other.id[:])
	case 2: // the receiver authenticates to itself
		m := ownMessage(s, tsFrom(now, d), s.id[:], flag, 73)
		v.Kind, v.Rcp, v.Msg = "self", hx(s.id[:]), hx(m)
	case 3: // signed by another key than the one named
		o := newSender(r, net)
		m := ownMessage(o, tsFrom(now, d), rcp[:], flag, 73)
		copy(m[40:72], s.addr.PublicSpendKey[:])
		v.Kind, v.Msg = "foreign-signature", hx(m)
	case 4: // signature that does not cover the relayer flag
		v.Kind, v.Msg = "flag-unsigned", hx(ownMessage(s, tsFrom(now, d), rcp[:], flag, 72))
	case 5: // flag byte other than 0/1, correctly signed
		v.Kind, v.Msg = "flag-value", hx(ownMessage(s, tsFrom(now, d), rcp[:], byte(r.Range(2, 255)), 73))
	case 6: // another network on the receiving side (only the self test depends on it)
		on := crypto.Hash(blake3.Sum256(r.Bytes(8)))
		v.Kind, v.Net = "other-network", hx(on[:])
	case 7: // extreme timestamps
		ts := []uint64{0, 1<<53 - 1, 1 << 53, 1<<53 + 1, 1 << 63, 1<<64 - 1, 1<<64 - 1024, uint64(now) + 1<<32}[r.Intn(8)]
		v.Kind, v.Msg = "extreme-ts", hx(ownMessage(s, ts, rcp[:], flag, 73))
	case 8: // same message, clock moved to the boundary of the window
		at := t
		if at <= 0 || at > 1_000_000 {
			at = 10
		}
		shift := []int64{at, -at, at + 1, -at - 1, at - 1, -at + 1}[r.Intn(6)]
		sec := now + d + shift
		if sec > 8_000_000_000 || sec < -8_000_000_000 { // outside what the mock clock can reach
			sec = now + shift
		}
		v.Kind, v.NowNano = "clock-boundary", sec*1e9+subSecond[r.Intn(len(subSecond))]
	case 9: // replay to a later time
		v.Kind, v.NowNano = "replay-later", nn+int64(r.Range(1, 100000))*1e9
	case 10: // random bytes of the right length
		v.Kind, v.Msg = "random", hx(r.Bytes(137))
	default: // key bytes that are not a valid point
		m := append([]byte{}, msg...)
		copy(m[40:72], r.Bytes(32))
		v.Kind, v.Msg = "random-key", hx(m)
	}
	run(c, v)
}

// ---- sequences on one node ---------------------------------------------------------

// order "after": genuine message of X accepted (possibly several times), then every
// tamper of it, interleaved with genuine messages of other peers and repeats of the
// genuine one; order "before": the same tampers first on a fresh node, genuine last.
func sequence(c *vh.Ctx, r *vh.Rand, after bool, allBytes bool, modelBytes bool) Case {
	net := crypto.Hash(blake3.Sum256(r.Bytes(8)))
	x, other, me, me2 := newSender(r, net), newSender(r, net), newSender(r, net), newSender(r, net)
	nn := (int64(1_700_000_000)+int64(r.Intn(400_000_000)))*1e9 + subSecond[r.Intn(len(subSecond))]
	now := floorSec(nn)
	t := int64(p2p.HandshakeTimeout / 1e9)
	if r.Chance(1, 6) {
		t = 0 // the relayed-consumers path
	}
	flag := byte(r.Intn(2))
	var g []byte
	if r.Bool() {
		g = builtMessage(x, net, now, me.id, flag == 1)
	} else {
		g = ownMessage(x, uint64(now), me.id[:], flag, 73)
	}
	later := nn + int64(r.Range(11, 100000))*1e9 // the genuine message has expired by then
	step := func(kind string, m []byte, at int64) Step {
		return Step{Kind: kind, Msg: hx(m), Timeout: t, NowNano: at}
	}
	genuine := []Step{step("genuine", g, nn)}
	for k := r.Intn(4); k > 0; k-- {
		genuine = append(genuine, step("genuine-again", g, nn))
	}
	var tampers []Step
	with := func(f func(m []byte)) []byte { m := append([]byte{}, g...); f(m); return m }
	// the fields, keeping X's key and signature bytes
	tampers = append(tampers,
		step("tamper-flag", with(func(m []byte) { m[72] ^= 1 }), nn),
		step("tamper-flag-value", with(func(m []byte) { m[72] = byte(r.Range(2, 255)) }), nn),
		step("tamper-ts", with(func(m []byte) { binary.BigEndian.PutUint64(m[:8], uint64(now+int64(r.Range(1, 9)))) }), nn),
		step("expired-genuine", g, later),
		step("refresh-ts", with(func(m []byte) { binary.BigEndian.PutUint64(m[:8], uint64(floorSec(later))) }), later),
	)
	rs := step("tamper-recipient", with(func(m []byte) { copy(m[8:40], me2.id[:]) }), nn)
	rs.Rcp = hx(me2.id[:]) // presented as if this node were the rewritten recipient
	tampers = append(tampers, rs, step("tamper-recipient-same-node", with(func(m []byte) { copy(m[8:40], me2.id[:]) }), nn))
	tampers = append(tampers, step("tamper-key", with(func(m []byte) { copy(m[40:72], other.addr.PublicSpendKey[:]) }), nn))
	if allBytes {
		for pos := 0; pos < len(g); pos++ {
			kind := "byte-mutation"
			if !modelBytes {
				kind = "byte-mutation-oracle-only"
			}
			tampers = append(tampers, step(kind, with(func(m []byte) { m[pos] ^= byte(r.Range(1, 255)) }), nn))
		}
	}
	seq := Case{Op: "seq", Net: hx(net[:]), Rcp: hx(me.id[:])}
	if !after {
		seq.Steps = append(append(seq.Steps, tampers...), genuine...)
		return seq
	}
	seq.Steps = append(seq.Steps, genuine...)
	og := ownMessage(other, uint64(now), me.id[:], byte(r.Intn(2)), 73)
	for _, tp := range tampers {
		suffix := ""
		if allBytes && !modelBytes {
			suffix = "-oracle-only"
		}
		switch r.Intn(8) {
		case 0:
			seq.Steps = append(seq.Steps, step("other-peer-genuine"+suffix, og, nn))
		case 1:
			seq.Steps = append(seq.Steps, step("genuine-again"+suffix, g, nn))
		}
		seq.Steps = append(seq.Steps, tp)
	}
	return seq
}

func floatCases(c *vh.Ctx, n int) {
	r := c.Rng
	p := func(v *big.Int) string { return v.String() }
	for i := 0; i < n; i++ {
		var x *big.Int
		switch r.Intn(4) {
		case 0:
			x = r.Big(r.Range(1, 64))
		case 1:
			x = new(big.Int).Lsh(big.NewInt(1), uint(r.Range(50, 63)))
			x.Add(x, big.NewInt(int64(r.Range(-3, 3))))
		case 2: // exactly half-way between two floats, and next to it
			e := uint(r.Range(1, 10))
			x = new(big.Int).Lsh(r.Big(52), e)
			x.Add(x, new(big.Int).Lsh(big.NewInt(1), 52+e))
			x.Add(x, new(big.Int).Lsh(big.NewInt(1), e-1))
			x.Add(x, big.NewInt(int64(r.Range(-1, 1))))
		default:
			x = r.Big(63)
			x.Neg(x)
		}
		if !x.IsInt64() && !x.IsUint64() {
			continue
		}
		run(c, Case{Op: "round", X: p(x)})
		// skew over the whole uint64 range of ts
		now := big.NewInt(int64(r.Intn(2_000_000_000)))
		if r.Chance(1, 4) {
			now = r.Big(r.Range(1, 63))
		}
		ts := r.Big(r.Range(1, 64))
		if r.Bool() {
			ts = new(big.Int).Add(now, big.NewInt(int64(r.Range(-12, 12))))
			if ts.Sign() < 0 {
				ts = big.NewInt(0)
			}
		}
		t := big.NewInt(int64(r.Range(1, 12)))
		if r.Chance(1, 5) {
			t = r.Big(r.Range(1, 62))
		}
		run(c, Case{Op: "skew", X: p(now), Ts: p(ts), T: p(t)})
	}
}

func corpus(c *vh.Ctx) {
	cr := vh.NewRand(30, "C30-corpus-sequences")
	for i := 0; i < 4; i++ {
		run(c, sequence(c, cr, i%2 == 0, false, false))
	}
	for _, x := range []string{"0", "1", "-1", "9007199254740991", "9007199254740992", "9007199254740993", "9007199254740994",
		"9007199254740995", "18014398509481985", "18014398509481986", "18014398509481987", "18446744073709551615",
		"18446744073709550591", "18446744073709550592", "9223372036854775807", "-9223372036854775808", "-9007199254740993"} {
		run(c, Case{Op: "round", X: x})
	}
	for _, k := range [][3]string{{"1800000000", "1800000010", "10"}, {"1800000000", "1800000011", "10"}, {"1800000000", "1799999990", "10"},
		{"1800000000", "1799999989", "10"}, {"1800000000", "18446744073709551615", "10"}, {"0", "0", "1"}, {"5", "16", "10"},
		{"9007199254740993", "9007199254740992", "1"}, {"4503599627370495", "4503599627370500", "4"}, {"1800000000", "9007199254740993", "9007199252940992"}} {
		run(c, Case{Op: "skew", X: k[0], Ts: k[1], T: k[2]})
	}
}

func main() {
	c := vh.Start("C30")
	c.Rep.Rule = "scenarios drawn from one SplitMix64 stream: random network, sender and receiver keys, clock instants (incl. before the epoch, " +
		"sub-second offsets), timeouts (handshake value, 0, negative, tiny, huge), timestamps at the window boundary ±2 s; messages from the real " +
		"BuildAuthenticationMessage and from a builder written from the property text; per scenario one structured variant (wrong length, other " +
		"recipient, self, foreign signature, flag outside the signed bytes, flag value, other network, extreme timestamp, clock at the boundary, replay, " +
		"random bytes/key); SEQUENCES presented to one and the same node instance: a genuine message accepted (1-4 times), then its field tampers (flag, flag value, timestamp, refreshed timestamp after expiry, recipient, key; key and signature bytes kept) and all 137 single-byte mutations, interleaved with genuine messages of other peers and repeats, and as control the same tampers BEFORE the genuine one on a fresh node; every step judged by the same stateless oracle and sent to the stateless model. ADVERSARIAL KEYS AND SIGNATURES with validity known independently (filippo edwards25519 + the repository's challenge): messages naming each of the 8 torsion points and their non-canonical encodings as the key, a valid key plus a torsion component, with signatures R=s*B,S=s / R=identity,S=0 / R of small order (nonces, timestamps ground so the plain verification equation holds), S+l, nonce 0; each on the direct and the relayed-consumer path, twice, after an honest message of the related key. CALLERS: the real p2p authenticateNeighbor (in-memory client delivering the message 0/0.5/1.9/2.1/2.9 s into the handshake; messages fresh, 11 s and 1 h old) and updateRemoteRelayerConsumers with a recording SyncHandle around the real kernel AuthenticateAs: the skew limit passed must be the handshake timeout on the neighbor path, 0 only on the relayed-consumer path, and no stale message is accepted. float64 model: integer " +
		"conversions around 2^53..2^64 and skew tests over the full uint64 range. Non-trivial = length, recipient, freshness and not-self hold so the " +
		"signature check decides; distinct by (network, recipient, message, timeout, clock second)."
	if c.Replay != "" {
		var cs Case
		c.ReplayCase(&cs)
		run(c, cs)
		c.Finish()
		return
	}
	corpus(c)
	run(c, adversarial(c, vh.NewRand(30, "C30-corpus-adversarial"), true)) // fixed stream: part of the corpus
	for i := c.Scale(2, 40); i > 0; i-- {
		run(c, adversarial(c, c.Rng, false))
	}
	run(c, Case{Op: "callsites"})
	for i := c.Scale(1, 4); i > 0; i-- { // real sleeps: all handshakes of a case run at the same time (~3 s per case)
		run(c, handshakeCase(c.Rng, true))
	}
	floatCases(c, c.Scale(300, 6000))
	n := c.Scale(250, 12000)
	for i := 0; i < n; i++ {
		scenario(c, false, false)
	}
	m := c.Scale(60, 1500) // sequences on one node with all 137 single-byte mutations of the accepted message
	mm := c.Scale(3, 100)  // ... of which this many send the byte mutations through the model too
	for i := 0; i < m; i++ {
		run(c, sequence(c, c.Rng, i%3 != 2, true, i < mm))
	}
	c.Finish()
}
