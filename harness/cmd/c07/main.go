// C07 harness: runs common.UnmarshalVersionedSnapshot, VersionedMarshal,
// Encoder.EncodeSnapshotPayload and PayloadHash of the repository on generated
// snapshots and byte strings, emits each observation as a Coq case for the
// model (coq/Run/C07.v), and checks the implementation directly against the
// property text (the oracle): an accepted byte string is exactly the
// re-encoding of what was decoded, with the full 8-byte topology suffix or
// none; accepted snapshots have 1..255 strictly increasing transaction hashes,
// round 0 has one transaction and no references, later rounds have references;
// the payload hash ignores signature and topology and changes with node, round,
// references, transactions and timestamp.
package main

import (
	"bytes"
	"encoding/hex"
	"fmt"
	"sort"

	"github.com/MixinNetwork/mixin/common"
	"github.com/MixinNetwork/mixin/crypto"
	"verifharness/vh"
)

// Snap is the self-contained JSON form of a snapshot (hex strings).
type Snap struct {
	Version uint8    `json:"version"`
	Node    string   `json:"node"`
	Round   uint64   `json:"round"`
	Refs    []string `json:"refs,omitempty"` // nil or [self, external]
	Txs     []string `json:"txs"`
	Ts      uint64   `json:"ts"`
	HasSig  bool     `json:"has_sig"`
	Mask    uint64   `json:"mask,omitempty"`
	Sig     string   `json:"sig,omitempty"`
}

type Case struct {
	Op     string `json:"op"` // dec | enc | pay | hash | roundtrip | hashfields
	B      string `json:"b,omitempty"`
	S      *Snap  `json:"s,omitempty"`
	Topo   uint64 `json:"topo,omitempty"`
	Expect string `json:"expect,omitempty"` // dec: accept | reject | reject-partial-topology | ""
	Origin string `json:"origin,omitempty"` // how the byte string was derived (kind)
	Raw    *Raw   `json:"raw,omitempty"`    // op decraw: byte string assembled from these parameters
	Budget string `json:"budget,omitempty"` // which large-case budget decides whether the model sees it
}

// Raw describes a snapshot encoding assembled by hand at byte level (the
// encoder refuses most of them): every length / count / presence field is set
// independently of what follows it.
type Raw struct {
	Magic0    byte   `json:"magic0"`
	Magic1    byte   `json:"magic1"`
	VerHi     byte   `json:"ver_hi"`
	Ver       byte   `json:"ver"`
	Round     uint64 `json:"round"`
	RefsCount int    `json:"refs_count"` // the 2-byte references count field
	RefsGiven int    `json:"refs_given"` // how many 32-byte hashes follow it
	Count     int    `json:"count"`      // the 2-byte transactions count field
	NTx       int    `json:"ntx"`        // how many strictly increasing 32-byte hashes follow it
	Ts        uint64 `json:"ts"`
	Mask      uint64 `json:"mask"`
	SigGiven  bool   `json:"sig_given"` // 64 signature bytes follow the mask
	Topo      bool   `json:"topo"`      // 8-byte topology suffix present
	TopoVal   uint64 `json:"topo_val"`
}

func be(n int, v uint64) []byte {
	b := make([]byte, n)
	for i := n - 1; i >= 0; i-- {
		b[i] = byte(v)
		v >>= 8
	}
	return b
}

func (r *Raw) bytes() []byte {
	b := []byte{r.Magic0, r.Magic1, r.VerHi, r.Ver}
	b = append(b, bytes.Repeat([]byte{0x0d}, 32)...)
	b = append(b, be(8, r.Round)...)
	b = append(b, be(2, uint64(r.RefsCount))...)
	for i := 0; i < r.RefsGiven; i++ {
		b = append(b, bytes.Repeat([]byte{byte(0xa1 + i)}, 32)...)
	}
	b = append(b, be(2, uint64(r.Count))...)
	for i := 0; i < r.NTx; i++ { // strictly increasing: the first two bytes count up from 1
		h := bytes.Repeat([]byte{0x5a}, 32)
		h[0], h[1] = byte((i+1)>>8), byte(i+1)
		b = append(b, h...)
	}
	b = append(b, be(8, r.Ts)...)
	b = append(b, be(8, r.Mask)...)
	if r.SigGiven {
		b = append(b, bytes.Repeat([]byte{0xc3}, 64)...)
	}
	if r.Topo {
		b = append(b, be(8, r.TopoVal)...)
	}
	return b
}

// wellFormedRaw: the assembled bytes are what the encoder writes for a snapshot
// the property admits (so they must be accepted); otherwise they must be rejected.
func (r *Raw) wellFormed() bool {
	if r.Magic0 != 0x77 || r.Magic1 != 0x77 || r.VerHi != 0 || r.Ver != common.SnapshotVersionCommonEncoding {
		return false
	}
	if r.RefsCount != r.RefsGiven || (r.RefsCount != 0 && r.RefsCount != 2) {
		return false
	}
	if r.Count != r.NTx || r.NTx < 1 || r.NTx > 255 {
		return false
	}
	if r.Round == 0 && (r.NTx != 1 || r.RefsCount != 0) {
		return false
	}
	if r.Round > 0 && r.RefsCount != 2 {
		return false
	}
	return (r.Mask != 0) == r.SigGiven
}

func unhex(s string) []byte {
	b, err := hex.DecodeString(s)
	if err != nil {
		panic(err)
	}
	return b
}

func hash32(s string) (h crypto.Hash) {
	b := unhex(s)
	if len(b) != 32 {
		panic("hash length")
	}
	copy(h[:], b)
	return
}

// build makes a fresh Go snapshot (the encoder sorts Transactions in place, so
// nothing is ever shared between two calls).
func (s *Snap) build() *common.Snapshot {
	g := &common.Snapshot{Version: s.Version, NodeId: hash32(s.Node), RoundNumber: s.Round, Timestamp: s.Ts}
	if s.Refs != nil {
		g.References = &common.RoundLink{Self: hash32(s.Refs[0]), External: hash32(s.Refs[1])}
	}
	if s.Txs != nil {
		g.Transactions = make([]crypto.Hash, len(s.Txs))
		for i, t := range s.Txs {
			g.Transactions[i] = hash32(t)
		}
	}
	if s.HasSig {
		cs := &crypto.CosiSignature{Mask: s.Mask}
		b := unhex(s.Sig)
		if len(b) != 64 {
			panic("sig length")
		}
		copy(cs.Signature[:], b)
		g.Signature = cs
	}
	return g
}

func (s *Snap) clone() *Snap {
	c := *s
	if s.Refs != nil {
		c.Refs = append([]string{}, s.Refs...)
	}
	c.Txs = append([]string{}, s.Txs...)
	return &c
}

func fromGo(g *common.Snapshot) *Snap {
	s := &Snap{Version: g.Version, Node: hex.EncodeToString(g.NodeId[:]), Round: g.RoundNumber, Ts: g.Timestamp, Txs: []string{}}
	if g.References != nil {
		s.Refs = []string{hex.EncodeToString(g.References.Self[:]), hex.EncodeToString(g.References.External[:])}
	}
	for _, t := range g.Transactions {
		s.Txs = append(s.Txs, hex.EncodeToString(t[:]))
	}
	if g.Signature != nil {
		s.HasSig, s.Mask, s.Sig = true, g.Signature.Mask, hex.EncodeToString(g.Signature.Signature[:])
	}
	return s
}

// ---- Coq printers ----------------------------------------------------------------

func optPair(has bool, a, b string) string {
	if !has {
		return vh.None("(N*N)")
	}
	return vh.Some("(" + a + ", " + b + ")")
}

func (s *Snap) coq() string {
	refs := optPair(false, "", "")
	if s.Refs != nil {
		refs = optPair(true, vh.BytesAsN(unhex(s.Refs[0])), vh.BytesAsN(unhex(s.Refs[1])))
	}
	txs := make([]string, len(s.Txs))
	for i, t := range s.Txs {
		txs[i] = vh.BytesAsN(unhex(t))
	}
	sig := optPair(false, "", "")
	if s.HasSig {
		sig = optPair(true, vh.NU(s.Mask), vh.BytesAsN(unhex(s.Sig)))
	}
	return vh.App("MkSnap", vh.NU(uint64(s.Version)), vh.BytesAsN(unhex(s.Node)), vh.NU(s.Round), refs,
		vh.List(txs, "N"), vh.NU(s.Ts), sig)
}

// Large cases (long byte strings are slow to parse on the Coq side) are sent to
// the model only while this budget lasts; the oracle sees every case.
var bigLeft = map[string]int{}
var bigAll = false

func model(op string, size int, term string) string {
	if size > 1500 && !bigAll {
		if bigLeft[op] <= 0 {
			return ""
		}
		bigLeft[op]--
	}
	return term
}

func resBytes(pan bool, b []byte) string {
	if pan {
		return vh.Pan("(list N)")
	}
	return vh.Ok(vh.Bytes(b))
}

// ---- the real code, panics recovered ----------------------------------------------

func marshal(s *Snap, topo uint64) (out []byte, pan bool) {
	pan, _ = vh.Catch(func() {
		w := &common.SnapshotWithTopologicalOrder{Snapshot: s.build(), TopologicalOrder: topo}
		out = w.VersionedMarshal()
	})
	return
}

func decode(b []byte) (s *common.SnapshotWithTopologicalOrder, err error, pan bool) {
	pan, _ = vh.Catch(func() { s, err = common.UnmarshalVersionedSnapshot(append([]byte{}, b...)) })
	return
}

// the payload as the property understands it: the encoding of the snapshot
// without signature (Encoder.EncodeSnapshotPayload is exported)
func payloadBytes(s *Snap) (out []byte, pan bool) {
	pan, _ = vh.Catch(func() { out = common.NewEncoder().EncodeSnapshotPayload(s.build()) })
	return
}

func payloadHash(s *Snap, topo uint64) (h crypto.Hash, pan bool) {
	pan, _ = vh.Catch(func() {
		w := &common.SnapshotWithTopologicalOrder{Snapshot: s.build(), TopologicalOrder: topo}
		h = w.PayloadHash()
	})
	return
}

// ---- oracle on an accepted byte string -----------------------------------------------

func sortedTxs(s *Snap) []string {
	t := append([]string{}, s.Txs...)
	sort.Strings(t) // equal-length lowercase hex: same order as bytes.Compare
	return t
}

func sameFields(a, b *Snap) bool {
	if a.Version != b.Version || a.Node != b.Node || a.Round != b.Round || a.Ts != b.Ts || a.HasSig != b.HasSig {
		return false
	}
	if a.HasSig && (a.Mask != b.Mask || a.Sig != b.Sig) {
		return false
	}
	if (a.Refs == nil) != (b.Refs == nil) || (a.Refs != nil && (a.Refs[0] != b.Refs[0] || a.Refs[1] != b.Refs[1])) {
		return false
	}
	if len(a.Txs) != len(b.Txs) {
		return false
	}
	for i := range a.Txs {
		if a.Txs[i] != b.Txs[i] {
			return false
		}
	}
	return true
}

func checkAccepted(c *vh.Ctx, cs Case, b []byte, got *Snap, topo uint64) {
	// shape
	n := len(got.Txs)
	if n < 1 || n > 255 {
		c.Fail("shape-count", fmt.Sprintf("accepted snapshot holds %d transaction hashes", n), cs)
	}
	for i := 1; i < n; i++ {
		if bytes.Compare(unhex(got.Txs[i-1]), unhex(got.Txs[i])) >= 0 {
			c.Fail("shape-order", "accepted snapshot whose transaction hashes are not strictly increasing", cs)
			break
		}
	}
	if got.Round == 0 && (n != 1 || got.Refs != nil) {
		c.Fail("shape-round0", fmt.Sprintf("accepted round 0 snapshot with %d transactions, references present=%v", n, got.Refs != nil), cs)
	}
	if got.Round > 0 && got.Refs == nil {
		c.Fail("shape-references", "accepted snapshot of a later round without references", cs)
	}
	// canonical
	re, pan := marshal(got, topo)
	if pan {
		c.Fail("accepted-not-encodable", "the encoder panics on a snapshot the decoder accepted", cs)
		return
	}
	full := bytes.Equal(b, re)
	bare := len(re) >= 8 && bytes.Equal(b, re[:len(re)-8]) && topo == 0
	if !full && !bare {
		sig := "noncanonical-accept"
		if len(re) >= 8 && len(b) > len(re)-8 && len(b) < len(re) && bytes.Equal(b[:len(re)-8], re[:len(re)-8]) {
			sig = "partial-topology-accepted"
		}
		c.Fail(sig, fmt.Sprintf("accepted %d bytes that are neither the re-encoding (%d bytes) nor the re-encoding without its topology suffix; decoded order %d",
			len(b), len(re), topo), cs)
	}
}

func validHeader(b []byte) bool {
	return len(b) >= 44 && b[0] == 0x77 && b[1] == 0x77 && b[2] == 0 && b[3] == common.SnapshotVersionCommonEncoding
}

func run(c *vh.Ctx, cs Case) {
	switch cs.Op {
	case "dec", "decraw":
		var b []byte
		key, budget := cs.B, "dec"
		if cs.Op == "decraw" {
			b = cs.Raw.bytes()
			key = fmt.Sprintf("raw|%+v", *cs.Raw)
		} else {
			b = unhex(cs.B)
		}
		if cs.Budget != "" {
			budget = cs.Budget
		}
		r, err, pan := decode(b)
		kind := "dec:" + cs.Origin
		if pan {
			c.Case(kind, key, true, cs, model(budget, len(b), vh.App("CDec", vh.Bytes(b), vh.Pan("(snapshot * N)"))))
			c.Fail("decoder-panic", "UnmarshalVersionedSnapshot panicked", cs)
			return
		}
		if err != nil {
			c.Case(kind, key, validHeader(b), cs, model(budget, len(b), vh.App("CDec", vh.Bytes(b), vh.Err("(snapshot * N)"))))
			if cs.Expect == "accept" {
				c.Fail("valid-rejected", "an encoding produced by VersionedMarshal (full topology suffix or none) was rejected: "+err.Error(), cs)
			}
			return
		}
		got := fromGo(r.Snapshot)
		c.Case(kind, key, true, cs, model(budget, len(b), vh.App("CDec", vh.Bytes(b),
			vh.Ok("("+got.coq()+", "+vh.NU(r.TopologicalOrder)+")"))))
		switch cs.Expect {
		case "reject-partial-topology":
			c.Fail("partial-topology-accepted", fmt.Sprintf("an encoding whose 8-byte topology suffix is cut short was accepted with order %d", r.TopologicalOrder), cs)
		case "reject-count":
			c.Fail("count-out-of-range-accepted", fmt.Sprintf("a snapshot encoding with %d transaction hashes (count field %d) was accepted", cs.Raw.NTx, cs.Raw.Count), cs)
		case "reject-field":
			c.Fail("malformed-field-accepted", "a hand-assembled encoding with an out-of-range count / presence / version field was accepted", cs)
		case "reject":
			c.Fail("noncanonical-accept", "a truncation / extension of a valid encoding that is not itself an encoding was accepted", cs)
		}
		checkAccepted(c, cs, b, got, r.TopologicalOrder)
	case "enc":
		out, pan := marshal(cs.S, cs.Topo)
		c.Case("enc", keyOf(cs), !pan, cs, model("enc", 32*len(cs.S.Txs), vh.App("CEnc", cs.S.coq(), vh.NU(cs.Topo), resBytes(pan, out))))
	case "pay":
		out, pan := payloadBytes(cs.S)
		c.Case("pay", keyOf(cs), !pan, cs, model("pay", 32*len(cs.S.Txs), vh.App("CPay", cs.S.coq(), resBytes(pan, out))))
	case "hash":
		h, pan := payloadHash(cs.S, cs.Topo)
		var p []byte
		if !pan {
			st := cs.S.clone()
			st.HasSig, st.Mask, st.Sig = false, 0, ""
			var pp bool
			p, pp = payloadBytes(st)
			if pp {
				c.Fail("hash-without-payload", "PayloadHash returned although the payload encoder panics", cs)
				c.Case("hash", keyOf(cs), true, cs, "")
				return
			}
			if crypto.Blake3Hash(p) != h {
				c.Fail("hash-not-of-payload", "PayloadHash is not the hash of the payload encoding (encoding without signature and topology)", cs)
			}
		}
		c.Case("hash", keyOf(cs), !pan, cs, model("hash", 32*len(cs.S.Txs), vh.App("CHash", cs.S.coq(), resBytes(pan, p))))
	case "roundtrip":
		// a well-formed snapshot encodes, and both forms decode to it (transactions sorted)
		want := cs.S.clone()
		want.Txs = sortedTxs(cs.S)
		full, pan := marshal(cs.S, cs.Topo)
		c.Case("roundtrip", keyOf(cs), !pan, cs, "")
		if pan {
			c.Fail("wellformed-not-encodable", "VersionedMarshal panicked on a well-formed snapshot", cs)
			return
		}
		for _, form := range []struct {
			b    []byte
			topo uint64
			name string
		}{{full, cs.Topo, "with topology"}, {full[:len(full)-8], 0, "without topology"}} {
			r, err, dp := decode(form.b)
			if dp || err != nil {
				c.Fail("roundtrip-rejected", "encoding "+form.name+" of a well-formed snapshot does not decode", cs)
				continue
			}
			if !sameFields(fromGo(r.Snapshot), want) || r.TopologicalOrder != form.topo {
				c.Fail("roundtrip-differs", "encoding "+form.name+" decodes to a different snapshot or order", cs)
			}
		}
	case "hashfields":
		hashFields(c, cs)
	case "hashseq":
		hashSeq(c, cs)
	default:
		panic("unknown op " + cs.Op)
	}
}

func keyOf(cs Case) string {
	return fmt.Sprintf("%s|%v|%d", cs.Op, *cs.S, cs.Topo)
}

func flipHex(s string, r *vh.Rand) string {
	b := unhex(s)
	b[r.Intn(len(b))] ^= byte(1 << uint(r.Intn(8)))
	return hex.EncodeToString(b)
}

// hashFields: the payload hash ignores signature and topology (and the order in
// which the transactions are listed), and changes with every payload field.
// The variations are derived deterministically from the case itself.
func hashFields(c *vh.Ctx, cs Case) {
	r := vh.NewRand(cs.Topo^cs.S.Ts^cs.S.Round, "hashfields"+cs.S.Node)
	h0, pan := payloadHash(cs.S, cs.Topo)
	c.Case("hashfields", keyOf(cs), !pan, cs, "")
	if pan {
		c.Fail("hash-panics", "PayloadHash panicked on a well-formed snapshot", cs)
		return
	}
	same := func(what string, v *Snap, topo uint64) {
		h, p := payloadHash(v, topo)
		if p || h != h0 {
			c.Fail("hash-depends-on-"+what, "payload hash changed with "+what, cs)
		}
	}
	differs := func(what string, v *Snap) {
		h, p := payloadHash(v, cs.Topo)
		if !p && h == h0 {
			c.Fail("hash-ignores-"+what, "payload hash did not change with "+what, cs)
		}
	}
	v := cs.S.clone()
	v.HasSig, v.Mask, v.Sig = false, 0, ""
	same("signature", v, cs.Topo)
	v = cs.S.clone()
	v.HasSig, v.Mask, v.Sig = true, r.U64()|1, hex.EncodeToString(r.Bytes(64))
	same("signature", v, cs.Topo)
	same("topology", cs.S, cs.Topo+1+uint64(r.Intn(1000)))
	same("topology", cs.S, 0)
	if len(cs.S.Txs) > 1 {
		v = cs.S.clone()
		for i := len(v.Txs) - 1; i > 0; i-- {
			j := r.Intn(i + 1)
			v.Txs[i], v.Txs[j] = v.Txs[j], v.Txs[i]
		}
		same("transaction-listing-order", v, cs.Topo)
	}

	v = cs.S.clone()
	v.Node = flipHex(v.Node, r)
	differs("node", v)
	v = cs.S.clone()
	if v.Round == ^uint64(0) {
		v.Round--
	} else if v.Round == 0 {
		v.Round = 1 + uint64(r.Intn(5))
	} else {
		v.Round++
	}
	differs("round", v)
	v = cs.S.clone()
	if v.Refs == nil {
		v.Refs = []string{hex.EncodeToString(r.Bytes(32)), hex.EncodeToString(r.Bytes(32))}
		differs("references", v)
	} else {
		v.Refs[0] = flipHex(v.Refs[0], r)
		differs("references", v)
		v = cs.S.clone()
		v.Refs[1] = flipHex(v.Refs[1], r)
		differs("references", v)
		v = cs.S.clone()
		v.Refs[0], v.Refs[1] = v.Refs[1], v.Refs[0]
		if v.Refs[0] != v.Refs[1] {
			differs("references", v)
		}
		v = cs.S.clone()
		v.Refs = nil
		differs("references", v)
	}
	v = cs.S.clone()
	i := r.Intn(len(v.Txs))
	v.Txs[i] = flipHex(v.Txs[i], r)
	differs("transactions", v)
	if cs.S.Round > 0 {
		if len(cs.S.Txs) < 255 {
			v = cs.S.clone()
			v.Txs = append(v.Txs, hex.EncodeToString(r.Bytes(32)))
			differs("transactions", v)
		}
		if len(cs.S.Txs) > 1 {
			v = cs.S.clone()
			v.Txs = v.Txs[:len(v.Txs)-1]
			differs("transactions", v)
		}
	}
	v = cs.S.clone()
	v.Ts ^= 1 << uint(r.Intn(64))
	differs("timestamp", v)
	// only one version has a payload at all: any other version must not yield a hash
	v = cs.S.clone()
	v.Version = 3
	differs("version", v)
}

// refHash: the hash the property prescribes for the CURRENT fields: Blake3 of the
// encoder's payload bytes for a freshly built snapshot (zero Hash field, no
// signature).  Independent of Snapshot.PayloadHash and of any state it keeps.
func refHash(cur *Snap) (h crypto.Hash, ok bool) {
	st := cur.clone()
	st.HasSig, st.Mask, st.Sig = false, 0, ""
	p, pan := payloadBytes(st)
	if pan {
		return h, false
	}
	return crypto.Blake3Hash(p), true
}

// hashSeq: stateful sequences on ONE snapshot object, the way the code base uses
// it (s.Hash = s.PayloadHash(), then the object lives on).  After every change of
// a committed field the hash must differ from the previous one and equal the hash
// of a freshly built snapshot with the same fields; a stale or foreign Hash field,
// the signature and the topological order never influence it.  cs.Topo bit 0
// selects whether the hash is stored into the Hash field after every step (the
// usual bookkeeping) or never (control order).
func hashSeq(c *vh.Ctx, cs Case) {
	r := vh.NewRand(cs.Topo^cs.S.Ts^cs.S.Round, "hashseq"+cs.S.Node)
	store := cs.Topo&1 == 1
	g := cs.S.build()
	cur := cs.S.clone()
	call := func() (h crypto.Hash, pan bool) {
		pan, _ = vh.Catch(func() { h = g.PayloadHash() })
		return
	}
	prev, pan := call()
	want, ok := refHash(cur)
	c.Case("hashseq", keyOf(cs), !pan, cs, "")
	if pan || !ok {
		c.Fail("hash-panics", "PayloadHash / payload encoder panicked on a well-formed snapshot", cs)
		return
	}
	if prev != want {
		c.Fail("hash-not-of-payload", "PayloadHash of a fresh snapshot is not the hash of its payload encoding", cs)
		return
	}
	if store {
		g.Hash = prev
	}
	step := func(what string, mustDiffer bool) bool {
		h, p := call()
		w, ok := refHash(cur)
		if p || !ok {
			c.Fail("hash-panics", "PayloadHash panicked after changing "+what+" on a live snapshot object", cs)
			return false
		}
		if h != w {
			c.Fail("hash-stale-after-"+what, fmt.Sprintf("after changing %s on a snapshot object (Hash field stored=%v) PayloadHash is not the hash of the current payload", what, store), cs)
			return false
		}
		if mustDiffer && h == prev {
			c.Fail("hash-ignores-"+what, "payload hash did not change with "+what+" on a live snapshot object", cs)
			return false
		}
		if !mustDiffer && h != prev {
			c.Fail("hash-depends-on-"+what, "payload hash changed with "+what+" on a live snapshot object", cs)
			return false
		}
		prev = h
		if store {
			g.Hash = h
		}
		return true
	}
	steps := []string{"node", "round", "references", "add-transaction", "replace-transaction", "timestamp", "signature", "version", "foreign-hash"}
	for i := len(steps) - 1; i > 0; i-- {
		j := r.Intn(i + 1)
		steps[i], steps[j] = steps[j], steps[i]
	}
	for _, st := range steps {
		switch st {
		case "node":
			cur.Node = flipHex(cur.Node, r)
			g.NodeId = hash32(cur.Node)
			if !step("node", true) {
				return
			}
		case "round":
			if cur.Round == ^uint64(0) {
				cur.Round--
			} else {
				cur.Round++
			}
			g.RoundNumber = cur.Round
			if !step("round", true) {
				return
			}
		case "references":
			if cur.Refs == nil {
				cur.Refs = []string{hx(r, 32), hx(r, 32)}
			} else if r.Bool() && cur.Refs[0] != cur.Refs[1] {
				cur.Refs = []string{cur.Refs[1], cur.Refs[0]}
			} else {
				cur.Refs = []string{cur.Refs[0], flipHex(cur.Refs[1], r)}
			}
			g.References = &common.RoundLink{Self: hash32(cur.Refs[0]), External: hash32(cur.Refs[1])}
			if !step("references", true) {
				return
			}
		case "add-transaction":
			if cur.Round == 0 || len(cur.Txs) >= 255 {
				continue // round 0 holds exactly one transaction
			}
			t := hx(r, 32)
			cur.Txs = append(cur.Txs, t)
			if p, _ := vh.Catch(func() { g.AddTransaction(hash32(t)) }); p {
				c.Fail("add-transaction-panics", "AddTransaction panicked on a new hash below the maximum", cs)
				return
			}
			if !step("transactions", true) {
				return
			}
		case "replace-transaction":
			i := r.Intn(len(cur.Txs))
			old := cur.Txs[i]
			cur.Txs[i] = flipHex(old, r)
			dup := false
			for j, t := range cur.Txs {
				dup = dup || (j != i && t == cur.Txs[i])
			}
			if dup {
				cur.Txs[i] = old
				continue
			}
			for j := range g.Transactions { // the encoder sorts the object's slice in place: find by value
				if g.Transactions[j] == hash32(old) {
					g.Transactions[j] = hash32(cur.Txs[i])
				}
			}
			if !step("transactions", true) {
				return
			}
		case "timestamp":
			cur.Ts ^= 1 << uint(r.Intn(64))
			g.Timestamp = cur.Ts
			if !step("timestamp", true) {
				return
			}
		case "signature":
			cur.HasSig, cur.Mask, cur.Sig = true, r.U64()|1, hx(r, 64)
			g.Signature = &crypto.CosiSignature{Mask: cur.Mask}
			copy(g.Signature.Signature[:], unhex(cur.Sig))
			if !step("signature", false) {
				return
			}
		case "version":
			// only version 2 has a payload: any other version must not yield a hash
			g.Version = 3
			if _, p := call(); !p {
				c.Fail("hash-for-unsupported-version", "PayloadHash returned a hash for a snapshot object whose version has no payload encoding", cs)
				return
			}
			g.Version = cur.Version
			if !step("version", false) {
				return
			}
		case "foreign-hash":
			copy(g.Hash[:], r.Bytes(32))
			h, p := call()
			if p || h != prev {
				c.Fail("hash-depends-on-hash-field", "a stale / foreign value in the Hash field changed the payload hash", cs)
				return
			}
			if store {
				g.Hash = h
			}
		}
	}
	// two snapshots with identical payloads: one fresh, one carrying a foreign Hash
	// field, another signature and a topological order
	a := cur.clone()
	a.HasSig, a.Mask, a.Sig = false, 0, ""
	ha, pa := payloadHash(a, 0)
	gb := cur.build()
	copy(gb.Hash[:], r.Bytes(32))
	var hb crypto.Hash
	pb, _ := vh.Catch(func() {
		hb = (&common.SnapshotWithTopologicalOrder{Snapshot: gb, TopologicalOrder: r.U64()}).PayloadHash()
	})
	if pa || pb || ha != hb || ha != prev {
		c.Fail("hash-depends-on-hash-field", "two snapshots with identical payloads (one carrying a foreign Hash field, signature and topological order) hash differently", cs)
	}
}

// ---- generators -------------------------------------------------------------------

func hx(r *vh.Rand, n int) string { return hex.EncodeToString(r.Bytes(n)) }

func constHash(b byte) string { return hex.EncodeToString(bytes.Repeat([]byte{b}, 32)) }

func wellFormed(s *Snap) bool {
	if s.Version != common.SnapshotVersionCommonEncoding || len(s.Txs) < 1 || len(s.Txs) > 255 {
		return false
	}
	seen := map[string]bool{}
	for _, t := range s.Txs {
		if seen[t] {
			return false
		}
		seen[t] = true
	}
	if s.Round == 0 && (len(s.Txs) != 1 || s.Refs != nil) {
		return false
	}
	if s.Round > 0 && s.Refs == nil {
		return false
	}
	if s.HasSig && s.Mask == 0 {
		return false
	}
	return true
}

func randU64(r *vh.Rand) uint64 {
	switch r.Intn(6) {
	case 0:
		return 0
	case 1:
		return uint64(r.Intn(4))
	case 2:
		return ^uint64(0) - uint64(r.Intn(2))
	case 3:
		return 1 << uint(r.Intn(64))
	default:
		return r.U64()
	}
}

func randHash(r *vh.Rand) string {
	switch r.Intn(8) {
	case 0:
		return constHash(0)
	case 1:
		return constHash(0xff)
	case 2: // differs from zero only in the last byte: order decided by the tail
		b := make([]byte, 32)
		b[31] = byte(r.Intn(4))
		return hex.EncodeToString(b)
	default:
		return hx(r, 32)
	}
}

// randSnap: all field combinations; mostly well-formed, sometimes not.
func randSnap(r *vh.Rand, big bool) *Snap {
	s := &Snap{Version: common.SnapshotVersionCommonEncoding, Node: randHash(r), Ts: randU64(r)}
	switch r.Intn(4) {
	case 0:
		s.Round = 0
	case 1:
		s.Round = uint64(1 + r.Intn(3))
	default:
		s.Round = randU64(r)
	}
	wantRefs := s.Round > 0
	if r.Chance(1, 10) {
		wantRefs = !wantRefs
	}
	if wantRefs {
		s.Refs = []string{randHash(r), randHash(r)}
	}
	n := 1
	if s.Round > 0 || r.Chance(1, 8) {
		switch r.Intn(10) {
		case 0:
			n = 1
		case 1:
			n = 2
		case 2:
			n = r.Range(3, 6)
		case 3:
			n = r.Range(7, 20)
		case 4:
			if big {
				n = r.Range(250, 255)
			} else {
				n = r.Range(2, 4)
			}
		default:
			n = r.Range(1, 4)
		}
	}
	if r.Chance(1, 40) {
		n = 0
	}
	if big && r.Chance(1, 30) {
		n = 256 + r.Intn(2)
	}
	for i := 0; i < n; i++ {
		s.Txs = append(s.Txs, randHash(r))
	}
	if s.Txs == nil {
		s.Txs = []string{}
	}
	if n > 1 && r.Chance(1, 8) { // duplicate
		s.Txs[r.Intn(n)] = s.Txs[r.Intn(n)]
	}
	if n > 1 && r.Chance(1, 2) { // listed in increasing order already
		s.Txs = sortedTxs(s)
	}
	if r.Chance(2, 3) {
		s.HasSig, s.Mask, s.Sig = true, randU64(r), hx(r, 64)
	}
	if r.Chance(1, 25) {
		s.Version = []uint8{0, 1, 3, 255}[r.Intn(4)]
	}
	return s
}

func fixWellFormed(s *Snap, r *vh.Rand) {
	s.Version = common.SnapshotVersionCommonEncoding
	seen := map[string]bool{}
	var t []string
	for _, x := range s.Txs {
		if !seen[x] {
			seen[x] = true
			t = append(t, x)
		}
	}
	if len(t) == 0 {
		t = []string{hx(r, 32)}
	}
	if len(t) > 255 {
		t = t[:255]
	}
	s.Txs = t
	if s.Round == 0 {
		s.Txs = s.Txs[:1]
		s.Refs = nil
	} else if s.Refs == nil {
		s.Refs = []string{hx(r, 32), hx(r, 32)}
	}
	if s.HasSig && s.Mask == 0 {
		s.Mask = 1
	}
}

type gen struct {
	c     *vh.Ctx
	valid [][]byte // valid full encodings seen so far (small ones), for mutation
}

func (g *gen) dec(b []byte, expect, origin string) {
	run(g.c, Case{Op: "dec", B: hex.EncodeToString(b), Expect: expect, Origin: origin})
}

// snapshot: every observation on one structured snapshot.
func (g *gen) snapshot(s *Snap, topo uint64, cuts bool, allSeven bool) {
	c := g.c
	run(c, Case{Op: "enc", S: s, Topo: topo})
	run(c, Case{Op: "pay", S: s})
	run(c, Case{Op: "hash", S: s, Topo: topo})
	full, pan := marshal(s, topo)
	wf := wellFormed(s)
	if wf {
		run(c, Case{Op: "roundtrip", S: s, Topo: topo})
		run(c, Case{Op: "hashfields", S: s, Topo: topo})
		run(c, Case{Op: "hashseq", S: s, Topo: topo | 1})  // Hash field stored after every step
		run(c, Case{Op: "hashseq", S: s, Topo: topo &^ 1}) // control order: never stored
	}
	if pan {
		return
	}
	exp := ""
	if wf {
		exp = "accept"
	}
	L := len(full)
	g.dec(full, exp, "valid-full")
	g.dec(full[:L-8], exp, "valid-bare")
	if wf && L < 300 {
		g.valid = append(g.valid, full)
	}
	if !wf || !cuts {
		return
	}
	// the partial topology suffix (defect F3, repaired): cut to 1..7 bytes
	for k := 1; k <= 7; k++ {
		if allSeven || k == 1+int(topo+s.Ts+s.Round)%7 {
			g.dec(full[:L-8+k], "reject-partial-topology", "cut-topology")
		}
	}
}

func (g *gen) allCuts(s *Snap, topo uint64) {
	full, pan := marshal(s, topo)
	if pan {
		panic("corpus snapshot does not encode")
	}
	L := len(full)
	for n := 0; n < L-8; n++ {
		g.dec(full[:n], "reject", "truncation")
	}
	for _, base := range [][]byte{full, full[:L-8]} {
		for k := 1; k <= 16; k++ {
			for fi, fill := range []byte{0x00, 0xff} {
				if g.c.Tier == "quick" && fi != k%2 {
					continue // quick tier: alternate the fill byte instead of both
				}
				ext := append(append([]byte{}, base...), bytes.Repeat([]byte{fill}, k)...)
				exp := "reject"
				if len(base) == L-8 && k == 8 {
					exp = "accept" // bare encoding + 8 bytes is the encoding with that topology
				} else if len(base) == L-8 && k < 8 {
					exp = "reject-partial-topology"
				}
				g.dec(ext, exp, "extension")
			}
		}
	}
}

func main() {
	c := vh.Start("C07")
	c.Rep.Rule = "structured snapshots over round 0/>0 x references nil/present x 0..257 transaction hashes (sorted, unsorted, duplicate) x signature none/mask 0/mask>0 x version; " +
		"each is marshalled, payload-encoded, hashed and its encodings (full and without topology) decoded; every truncation and every 1..16-byte extension of corpus encodings, " +
		"topology suffix cut to 1..7 bytes, single-byte mutations, random bytes behind a valid header; hand-assembled count/field boundary encodings; stateful hash sequences on one live snapshot object " +
		"(hash, store into the Hash field or not, change each committed field in turn, hash again; foreign Hash field / signature / topology) checked against Blake3 of the encoder's payload bytes for a fresh object. A case is non-trivial when the decoder got past the 44-byte header " +
		"(or accepted), or the encoder did not panic; distinct by exact bytes / snapshot fields."
	if c.Replay != "" {
		var cs Case
		bigAll = true
		c.ReplayCase(&cs)
		run(c, cs)
		c.Finish()
		return
	}
	g := &gen{c: c}
	r := c.Rng
	bigLeft["enc"], bigLeft["dec"] = c.Scale(1, 60), c.Scale(2, 120)
	bigLeft["pay"], bigLeft["hash"] = c.Scale(0, 30), c.Scale(0, 30)

	// ---- corpus ----------------------------------------------------------------------
	sig := hex.EncodeToString(bytes.Repeat([]byte{0xab}, 64))
	t1, t2, t3 := constHash(0x11), constHash(0x22), constHash(0x33)
	refs := []string{constHash(0xa1), constHash(0xa2)}
	corpus := []*Snap{
		{Version: 2, Node: constHash(0x01), Round: 0, Txs: []string{t1}, Ts: 1},                                                       // genesis, no signature
		{Version: 2, Node: constHash(0x02), Round: 0, Txs: []string{t2}, Ts: 1700000000000000000, HasSig: true, Mask: 1, Sig: sig},    // round 0 signed
		{Version: 2, Node: constHash(0x03), Round: 7, Refs: refs, Txs: []string{t1}, Ts: 5, HasSig: true, Mask: 0xffff, Sig: sig},     // one tx
		{Version: 2, Node: constHash(0x04), Round: 7, Refs: refs, Txs: []string{t3, t1, t2}, Ts: 5, HasSig: true, Mask: 1, Sig: sig},  // unsorted listing
		{Version: 2, Node: constHash(0xff), Round: ^uint64(0), Refs: refs, Txs: []string{t1, t2}, Ts: ^uint64(0)},                     // extremes, unsigned
		{Version: 2, Node: constHash(0x00), Round: 1, Refs: []string{constHash(0), constHash(0)}, Txs: []string{constHash(0)}, Ts: 0}, // all zero
	}
	for i, s := range corpus {
		topo := []uint64{0, 1, 0x0102030405060708, ^uint64(0), 0, 0}[i]
		g.snapshot(s, topo, true, true)
	}
	g.allCuts(corpus[0], 0)
	g.allCuts(corpus[3], 0x0102030405060708)
	if c.Tier != "quick" {
		g.allCuts(corpus[1], 9)
		g.allCuts(corpus[4], 0)
	}
	// 255 / 256 / 0 transactions, duplicates, round rules, signature with mask 0, versions
	many := &Snap{Version: 2, Node: constHash(0x05), Round: 3, Refs: refs, Ts: 9, HasSig: true, Mask: 3, Sig: sig}
	for i := 0; i < 255; i++ {
		b := bytes.Repeat([]byte{byte(255 - i)}, 32)
		b[31] = byte(i)
		many.Txs = append(many.Txs, hex.EncodeToString(b))
	}
	g.snapshot(many, 77, true, false)
	over := many.clone()
	over.Txs = append(over.Txs, constHash(0x00))
	g.snapshot(over, 0, false, false)
	bad := []*Snap{
		{Version: 2, Node: constHash(1), Round: 3, Refs: refs, Txs: []string{}, Ts: 1},
		{Version: 2, Node: constHash(1), Round: 3, Refs: refs, Txs: []string{t1, t1}, Ts: 1},
		{Version: 2, Node: constHash(1), Round: 3, Refs: refs, Txs: []string{t2, t1, t2}, Ts: 1},
		{Version: 2, Node: constHash(1), Round: 0, Txs: []string{t1, t2}, Ts: 1},
		{Version: 2, Node: constHash(1), Round: 0, Refs: refs, Txs: []string{t1}, Ts: 1}, // encodes; must not decode
		{Version: 2, Node: constHash(1), Round: 3, Txs: []string{t1}, Ts: 1},             // encodes; must not decode
		{Version: 2, Node: constHash(1), Round: 3, Refs: refs, Txs: []string{t1}, Ts: 1, HasSig: true, Mask: 0, Sig: sig},
		{Version: 1, Node: constHash(1), Round: 3, Refs: refs, Txs: []string{t1}, Ts: 1},
		{Version: 3, Node: constHash(1), Round: 3, Refs: refs, Txs: []string{t1}, Ts: 1},
		{Version: 0, Node: constHash(1), Round: 0, Txs: []string{t1}, Ts: 1},
	}
	for _, s := range bad {
		g.snapshot(s, 5, false, false)
	}
	// hand-made byte strings around a valid encoding
	base, _ := marshal(corpus[3], 4)
	edit := func(origin string, f func(b []byte) []byte) {
		g.dec(f(append([]byte{}, base...)), "", origin)
	}
	txOff := 4 + 32 + 8 + 2 + 64 + 2
	edit("handmade", func(b []byte) []byte { copy(b[txOff:], unhex(t2)); copy(b[txOff+32:], unhex(t1)); return b }) // unsorted
	edit("handmade", func(b []byte) []byte { copy(b[txOff+32:], unhex(t1)); return b })                             // duplicate
	edit("handmade", func(b []byte) []byte { b[txOff-1] = 0; return b })                                            // count 0 (then garbage)
	edit("handmade", func(b []byte) []byte { b[txOff-2], b[txOff-1] = 1, 0; return b })                             // count 256
	edit("handmade", func(b []byte) []byte { b[txOff-2], b[txOff-1] = 0xff, 0xff; return b })                       // count 65535
	edit("handmade", func(b []byte) []byte { b[45] = 1; return b })                                                 // references count 1
	edit("handmade", func(b []byte) []byte { b[45] = 3; return b })                                                 // references count 3
	edit("handmade", func(b []byte) []byte { b[44] = 1; return b })                                                 // references count 258
	edit("handmade", func(b []byte) []byte { b[3] = 1; return b })                                                  // version 1
	edit("handmade", func(b []byte) []byte { b[3] = 3; return b })                                                  // version 3
	edit("handmade", func(b []byte) []byte { b[2] = 1; return b })                                                  // version high byte
	edit("handmade", func(b []byte) []byte { b[0] = 0x78; return b })                                               // magic
	edit("handmade", func(b []byte) []byte {
		for i := 36; i < 44; i++ {
			b[i] = 0
		}
		return b
	}) // round 0 with references and 3 txs
	edit("handmade", func(b []byte) []byte {
		o := txOff + 96 + 8
		for i := o; i < o+8; i++ {
			b[i] = 0
		}
		return b
	}) // mask 0 followed by 64+8 bytes
	edit("handmade", func(b []byte) []byte { return append(b, 0) })
	for _, l := range []int{0, 1, 3, 4, 5, 36, 43, 44, 45, 46} {
		g.dec(base[:l], "reject", "truncation")
	}

	// ---- directed decoder boundaries, assembled at byte level -----------------------------
	bigLeft["count"] = c.Scale(4, 12)
	bigLeft["none"] = 0
	rawCase := func(r Raw, origin, rejectAs, budget string) {
		exp := rejectAs
		if r.wellFormed() {
			exp = "accept"
		}
		rr := r
		run(c, Case{Op: "decraw", Raw: &rr, Expect: exp, Origin: origin, Budget: budget})
	}
	okRaw := Raw{Magic0: 0x77, Magic1: 0x77, Ver: common.SnapshotVersionCommonEncoding, Round: 1, RefsCount: 2, RefsGiven: 2,
		Count: 1, NTx: 1, Ts: 7, Mask: 1, SigGiven: true, Topo: true, TopoVal: 0x0102030405060708}
	// the transaction count: 254, 255 accepted; 0, 256, 257 (and the count fields 0x0100, 0xFFFF
	// with every announced hash present) rejected; with/without signature and topology suffix
	for _, n := range []int{255, 256, 254, 257, 0, 0xFFFF} {
		for _, withSig := range []bool{true, false} {
			for _, withTopo := range []bool{true, false} {
				if n == 0xFFFF && (withSig != withTopo || c.Tier == "quick" && !withSig) {
					continue // 2 MB each: one (quick) or two forms
				}
				r := okRaw
				r.Count, r.NTx, r.SigGiven, r.Topo = n, n, withSig, withTopo
				if !withSig {
					r.Mask = 0
				}
				budget := "none" // oracle only
				if (n == 255 || n == 256) && withSig == withTopo {
					budget = "count"
				}
				rawCase(r, "count-boundary", "reject-count", budget)
			}
		}
	}
	for _, n := range []int{256, 0x0100 + 1, 0xFFFF} { // count field beyond the hashes that follow
		r := okRaw
		r.Count, r.NTx = n, 255
		rawCase(r, "count-boundary", "reject-count", "none")
	}
	// every other numeric limit the decoder checks, +-1: one field at a time around a round-1 and a
	// round-0 encoding (quick), the full product (thorough / search)
	gen0 := okRaw
	gen0.Round, gen0.RefsCount, gen0.RefsGiven = 0, 0, 0
	field := func(base Raw) {
		for _, rc := range []int{0, 1, 2, 3, 0x0102, 0x0200} {
			for _, given := range []int{0, 1, 2, 3} {
				if rc < 4 && given != rc && !(rc == 1 && given == 2) && !(rc == 3 && given == 2) {
					continue
				}
				r := base
				r.RefsCount, r.RefsGiven = rc, given
				rawCase(r, "field-boundary", "reject-field", "dec")
			}
		}
		for _, n := range []int{0, 1, 2, 3} {
			r := base
			r.Count, r.NTx = n, n
			rawCase(r, "field-boundary", "reject-field", "dec")
		}
		for _, m := range []uint64{0, 1, 2, 1 << 63, ^uint64(0)} {
			for _, sg := range []bool{true, false} {
				for _, tp := range []bool{true, false} {
					r := base
					r.Mask, r.SigGiven, r.Topo = m, sg, tp
					rawCase(r, "field-boundary", "reject-field", "dec")
				}
			}
		}
		for _, rd := range []uint64{0, 1, 2, ^uint64(0)} {
			r := base
			r.Round = rd
			rawCase(r, "field-boundary", "reject-field", "dec")
		}
		for _, v := range [][4]byte{{0x77, 0x77, 0, 1}, {0x77, 0x77, 0, 2}, {0x77, 0x77, 0, 3}, {0x77, 0x77, 0, 0}, {0x77, 0x77, 1, 2},
			{0x77, 0x77, 0xff, 2}, {0x76, 0x77, 0, 2}, {0x78, 0x77, 0, 2}, {0x77, 0x76, 0, 2}, {0x77, 0x78, 0, 2}, {0, 0, 0, 2}} {
			r := base
			r.Magic0, r.Magic1, r.VerHi, r.Ver = v[0], v[1], v[2], v[3]
			rawCase(r, "field-boundary", "reject-field", "dec")
		}
	}
	field(okRaw)
	field(gen0)
	if c.Tier != "quick" {
		for _, rd := range []uint64{0, 1} {
			for _, rc := range []int{0, 1, 2, 3} {
				for _, n := range []int{0, 1, 2} {
					for _, m := range []uint64{0, 1, 2} {
						for _, sg := range []bool{true, false} {
							for _, tp := range []bool{true, false} {
								r := okRaw
								r.Round, r.RefsCount, r.RefsGiven, r.Count, r.NTx, r.Mask, r.SigGiven, r.Topo = rd, rc, rc, n, n, m, sg, tp
								rawCase(r, "field-product", "reject-field", "dec")
							}
						}
					}
				}
			}
		}
	}

	// ---- structured snapshots ----------------------------------------------------------
	n := c.Scale(40, 800)
	for i := 0; i < n; i++ {
		s := randSnap(r, i%10 == 9)
		if r.Chance(3, 4) {
			fixWellFormed(s, r)
		}
		topo := randU64(r)
		small := len(s.Txs) <= 20
		g.snapshot(s, topo, small, false)
		if small && wellFormed(s) && r.Chance(1, 3) {
			// random truncations and extensions of this encoding
			full, _ := marshal(s, topo)
			L := len(full)
			for k := 0; k < 6; k++ {
				cut := r.Intn(L - 8)
				g.dec(full[:cut], "reject", "truncation")
			}
			for k := 0; k < 4; k++ {
				base := full
				if r.Bool() {
					base = full[:L-8]
				}
				e := r.Range(1, 16)
				exp := "reject"
				if len(base) == L-8 && e == 8 {
					exp = "accept"
				} else if len(base) == L-8 && e < 8 {
					exp = "reject-partial-topology"
				}
				g.dec(append(append([]byte{}, base...), r.Bytes(e)...), exp, "extension")
			}
		}
	}

	// ---- single-byte mutations of valid encodings -----------------------------------------
	n = c.Scale(120, 5000)
	for i := 0; i < n && len(g.valid) > 0; i++ {
		b := append([]byte{}, g.valid[r.Intn(len(g.valid))]...)
		if r.Bool() {
			b = b[:len(b)-8]
		}
		p := r.Intn(len(b))
		old := b[p]
		switch r.Intn(3) {
		case 0:
			b[p] ^= byte(1 << uint(r.Intn(8)))
		case 1:
			b[p] = byte(r.Intn(3))
		default:
			b[p] = byte(r.U64())
		}
		if b[p] == old {
			b[p] = old + 1
		}
		g.dec(b, "", "mutation")
	}

	// ---- random bytes -------------------------------------------------------------------------
	n = c.Scale(150, 3000)
	for i := 0; i < n; i++ {
		var b []byte
		switch r.Intn(4) {
		case 0:
			b = r.Bytes(r.Intn(200))
		default: // valid header, then a plausible skeleton filled with random bytes
			b = append(b, 0x77, 0x77, 0, common.SnapshotVersionCommonEncoding)
			b = append(b, r.Bytes(32)...)
			if r.Bool() {
				b = append(b, 0, 0, 0, 0, 0, 0, 0, byte(r.Intn(2)))
			} else {
				b = append(b, r.Bytes(8)...)
			}
			switch r.Intn(4) {
			case 0:
				b = append(b, 0, 0)
			case 1:
				b = append(b, 0, 2)
				b = append(b, r.Bytes(64)...)
			default:
				b = append(b, r.Bytes(2)...)
			}
			if r.Chance(2, 3) {
				k := r.Range(0, 3)
				b = append(b, 0, byte(k))
				b = append(b, r.Bytes(32*k)...)
				b = append(b, r.Bytes(8)...)
				if r.Bool() {
					b = append(b, 0, 0, 0, 0, 0, 0, 0, 0)
				} else {
					b = append(b, r.Bytes(8+64)...)
				}
			}
			b = append(b, r.Bytes(r.Intn(20))...)
		}
		g.dec(b, "", "random")
	}
	c.Finish()
}
