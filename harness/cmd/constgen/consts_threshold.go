package main

import (
	"github.com/MixinNetwork/mixin/common"
)

// constants used by coq/Model/Threshold.v (C02)
func init() {
	Z("ThrOperator64", common.Operator64, "common/script.go")
	Z("ThrOperatorSum", common.OperatorSum, "common/script.go")
	Z("ThrOperatorCmp", common.OperatorCmp, "common/script.go")
	Z("ThrMaximumEncodingInt", common.MaximumEncodingInt, "common/encoding.go")
	Z("ThrOutputTypeScript", common.OutputTypeScript, "common/transaction.go")
	Z("ThrOutputTypeNodePledge", common.OutputTypeNodePledge, "common/transaction.go")
	Z("ThrOutputTypeNodeAccept", common.OutputTypeNodeAccept, "common/transaction.go")
	Z("ThrOutputTypeNodeRemove", common.OutputTypeNodeRemove, "common/transaction.go")
	Z("ThrOutputTypeNodeCancel", common.OutputTypeNodeCancel, "common/transaction.go")
	Z("ThrTransactionTypeNodeAccept", common.TransactionTypeNodeAccept, "common/transaction.go")
	Z("ThrTransactionTypeNodeRemove", common.TransactionTypeNodeRemove, "common/transaction.go")
	Z("ThrTransactionTypeNodeCancel", common.TransactionTypeNodeCancel, "common/transaction.go")
}
