package main

import (
	"github.com/MixinNetwork/mixin/common"
	"github.com/MixinNetwork/mixin/config"
	"github.com/MixinNetwork/mixin/kernel"
)

// Constants of the round models (coq/Model/RoundHash.v, LiveRound.v, RoundLinks.v).
func init() {
	Z("RoundGap", config.SnapshotRoundGap, "config/config.go SnapshotRoundGap")
	Z("RoundReferenceThreshold", config.SnapshotReferenceThreshold, "config/config.go SnapshotReferenceThreshold")
	Z("RoundOneDay", kernel.OneDay, "kernel/mint.go OneDay")
	Z("RoundSnapVersion", common.SnapshotVersionCommonEncoding, "common/snapshot.go SnapshotVersionCommonEncoding")
	Z("RoundSnapTxMax", common.SnapshotTransactionsMaximum, "common/snapshot.go SnapshotTransactionsMaximum")
	dbg := 0
	if config.Debug {
		dbg = 1
	}
	Z("RoundDebugAsserts", dbg, "config/reader.go Debug (storage StartNewRound assertions live)")
}
