package main

import (
	"github.com/MixinNetwork/mixin/common"
	"github.com/MixinNetwork/mixin/config"
	"github.com/MixinNetwork/mixin/crypto"
	"github.com/MixinNetwork/mixin/p2p"
)

// Constants of the peer message layer (Model/P2PMsg.v, properties C08 and C31).
func init() {
	h := "p2p/handle.go"
	Z("P2P_TypePing", p2p.PeerMessageTypePing, h)
	Z("P2P_TypeAuthentication", p2p.PeerMessageTypeAuthentication, h)
	Z("P2P_TypeGraph", p2p.PeerMessageTypeGraph, h)
	Z("P2P_TypeSnapshotConfirm", p2p.PeerMessageTypeSnapshotConfirm, h)
	Z("P2P_TypeTransactionRequest", p2p.PeerMessageTypeTransactionRequest, h)
	Z("P2P_TypeTransaction", p2p.PeerMessageTypeTransaction, h)
	Z("P2P_TypeTransactionBundle", p2p.PeerMessageTypeTransactionBundle, h)
	Z("P2P_TypeFinalizedTransactionBundle", p2p.PeerMessageTypeFinalizedTransactionBundle, h)
	Z("P2P_TypePreCommitments", p2p.PeerMessageTypePreCommitments, h)
	Z("P2P_TypeAnnouncement", p2p.PeerMessageTypeBatchSnapshotAnnouncement, h)
	Z("P2P_TypeCommitment", p2p.PeerMessageTypeBatchSnapshotCommitment, h)
	Z("P2P_TypeTransactionChallenge", p2p.PeerMessageTypeBatchTransactionChallenge, h)
	Z("P2P_TypeResponse", p2p.PeerMessageTypeBatchSnapshotResponse, h)
	Z("P2P_TypeFullChallenge", p2p.PeerMessageTypeBatchFullChallenge, h)
	Z("P2P_TypeFinalization", p2p.PeerMessageTypeBatchSnapshotFinalization, h)
	Z("P2P_TypeRelay", p2p.PeerMessageTypeRelay, h)
	Z("P2P_TypeConsumers", p2p.PeerMessageTypeConsumers, h)
	Z("P2P_AuthenticationMessageSize", p2p.VerifAuthenticationMessageSize, h+" authenticationMessageSize")

	Z("P2P_TransportMessageVersion", p2p.TransportMessageVersion, "p2p/transport.go")
	Z("P2P_TransportMessageMaxSize", p2p.TransportMessageMaxSize, "p2p/transport.go")
	Z("P2P_TransportMessageHeaderSize", p2p.TransportMessageHeaderSize, "p2p/transport.go")

	Z("P2P_KeySize", len(crypto.Key{}), "crypto/key.go")
	Z("P2P_HashSize", len(crypto.Hash{}), "crypto/hash.go")
	Z("P2P_SignatureSize", len(crypto.Signature{}), "crypto/signature.go")

	Z("P2P_SnapshotTransactionsMaximum", common.SnapshotTransactionsMaximum, "common/snapshot.go")
	Z("P2P_TransactionMaximumSize", config.TransactionMaximumSize, "config/reader.go")
	Z("P2P_MaximumEncodingInt", common.MaximumEncodingInt, "common/encoding.go")
	// magic ++ [0, MinimumEncodingVersion], as written by the encoder itself
	B("P2P_MinimumEncodingHeader", common.NewMinimumEncoder().Bytes(), "common/encoding.go NewMinimumEncoder")
	// magic ++ [0, SnapshotVersionCommonEncoding]: the first four bytes of any marshalled snapshot
	s := &common.Snapshot{Version: common.SnapshotVersionCommonEncoding}
	s.AddTransaction(crypto.Hash{1})
	B("P2P_SnapshotEncodingHeader", s.VersionedMarshal()[:4], "common/encoding.go encodeSnapshotPayload")
}
