package main

import (
	"github.com/MixinNetwork/mixin/common"
)

func init() {
	Z("Precision", common.Precision, "common/integer.go")
}
