package main

import (
	"time"

	"github.com/MixinNetwork/mixin/common"
	"github.com/MixinNetwork/mixin/config"
	"github.com/MixinNetwork/mixin/kernel"
)

// Constants of the quorum (C10) and election (C29) models.
func init() {
	Z("QMinNodes", config.KernelMinimumNodesCount, "config/reader.go KernelMinimumNodesCount")
	Z("QMaxNodes", config.KernelMaximumNodesCount, "config/reader.go KernelMaximumNodesCount")
	Z("QMintTimeBegin", config.KernelMintTimeBegin, "config/reader.go")
	Z("QMintTimeEnd", config.KernelMintTimeEnd, "config/reader.go")
	Z("QAcceptTimeBegin", config.KernelNodeAcceptTimeBegin, "config/reader.go")
	Z("QAcceptTimeEnd", config.KernelNodeAcceptTimeEnd, "config/reader.go")
	Z("QPledgePeriodMinimum", int64(config.KernelNodePledgePeriodMinimum), "config/reader.go (ns)")
	Z("QAcceptPeriodMinimum", int64(config.KernelNodeAcceptPeriodMinimum), "config/reader.go (ns)")
	Z("QAcceptPeriodMaximum", int64(config.KernelNodeAcceptPeriodMaximum), "config/reader.go (ns)")
	Z("QSnapshotRoundGap", uint64(config.SnapshotRoundGap), "config/reader.go (ns)")
	Z("QSnapshotReferenceThreshold", config.SnapshotReferenceThreshold, "config/reader.go")
	Z("QHour", int64(time.Hour), "time.Hour (ns)")
	Z("QMinute", int64(time.Minute), "time.Minute (ns)")
	Z("QOneDay", uint64(kernel.VerifC10OneDay), "kernel/mint.go OneDay (ns)")
	Z("QSignerSetForkAt", kernel.VerifC10MainnetSignerSetForkAt(), "kernel/hack.go mainnetConsensusNodeRemovalSignerSetForkAt")
	Z("QOpMint", common.TransactionTypeMint, "common/transaction.go")
	Z("QOpNodeRemove", common.TransactionTypeNodeRemove, "common/transaction.go")
	Z("QOpNodePledge", common.TransactionTypeNodePledge, "common/transaction.go")
	Z("QOpCustodianUpdateNodes", common.TransactionTypeCustodianUpdateNodes, "common/transaction.go")
	Z("QOpCustodianSlashNodes", common.TransactionTypeCustodianSlashNodes, "common/transaction.go")
	Z("QLegacyEnding", kernel.KernelNetworkLegacyEnding, "kernel/mint.go KernelNetworkLegacyEnding")
}
