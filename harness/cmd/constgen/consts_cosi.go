package main

import (
	"math/big"

	"filippo.io/edwards25519"
	"github.com/MixinNetwork/mixin/crypto"
	"github.com/MixinNetwork/mixin/kernel"
)

// Constants of the CoSi / aggregate-signature / nonce models (C12, C13, C14).
// Values that are literals inside function bodies of the repository (mask
// width, retention bound) are measured by driving the real code.

// group order of the edwards25519 library the repository links: (-1 mod l) + 1
func cosiGroupOrder() *big.Int {
	one := make([]byte, 32)
	one[0] = 1
	s1, err := edwards25519.NewScalar().SetCanonicalBytes(one)
	if err != nil {
		panic(err)
	}
	m1 := edwards25519.NewScalar().Negate(s1).Bytes()
	for i, j := 0, len(m1)-1; i < j; i, j = i+1, j-1 {
		m1[i], m1[j] = m1[j], m1[i]
	}
	v := new(big.Int).SetBytes(m1)
	return v.Add(v, big.NewInt(1))
}

// width of the CoSi mask: first index refused by CosiAggregateCommitment (mark)
func cosiMaskBits() int {
	seed := make([]byte, 64)
	seed[0] = 7
	k := crypto.NewKeyFromSeed(seed)
	R := k.Public()
	for i := 0; i < 4096; i++ {
		_, err := crypto.CosiAggregateCommitment(map[int]*crypto.Key{i: &R})
		if err != nil {
			return i
		}
	}
	panic("cosi mask width not found")
}

// number of snapshot hashes kernel.retainUsedCosiNonce keeps before evicting the oldest
func cosiRetainedNonces() int {
	v := kernel.VerifNewNonceRetention()
	seed := make([]byte, 64)
	seed[0] = 9
	k := crypto.NewKeyFromSeed(seed)
	n := crypto.VerifNewCosiNonce(&k)
	var buf [8]byte
	for i := 0; i < 1<<22; i++ {
		buf[0], buf[1], buf[2], buf[3] = byte(i), byte(i>>8), byte(i>>16), byte(i>>24)
		v.Retain(crypto.Blake3Hash(buf[:]), n)
		_, used, order := v.Sizes()
		if used != i+1 || order != i+1 {
			return i
		}
	}
	panic("nonce retention bound not found")
}

func init() {
	Z("EdL", cosiGroupOrder(), "filippo.io/edwards25519 scalar field (group order)")
	Z("CosiMaskBits", cosiMaskBits(), "crypto/cosi.go mark/Keys (measured)")
	Z("CosiRetainedNonces", cosiRetainedNonces(), "kernel/cosi.go retainUsedCosiNonce maximumRetainedNonces (measured)")
	B("AggCoefDomain", []byte(crypto.VerifAggregateCoefficientDomain), "crypto/aggregation.go")
	B("AggNonceDomain", []byte(crypto.VerifAggregateNonceDomain), "crypto/aggregation.go")
}
