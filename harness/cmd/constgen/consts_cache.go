package main

import (
	"github.com/MixinNetwork/mixin/common"
	"github.com/MixinNetwork/mixin/config"
	"github.com/MixinNetwork/mixin/storage"
)

// Constants of the cache / proposal-retirement models (coq/Model/Cache.v,
// coq/Model/Retire.v): the round gap after which a local proposal expires, the
// batch limit the queue loop retrieves with, and the three key prefixes of the
// cache record families (read through the verif hook of package storage).
func init() {
	Z("C24SnapshotRoundGap", uint64(config.SnapshotRoundGap), "config/reader.go")
	Z("C23RetrieveBatch", common.SnapshotTransactionsMaximum, "common/snapshot.go (limit used by kernel/queue.go)")
	p := storage.VerifC23Prefixes()
	B("C23PrefixQueue", []byte(p[0]), "storage/badger_cache.go")
	B("C23PrefixOrder", []byte(p[1]), "storage/badger_cache.go")
	B("C23PrefixPayload", []byte(p[2]), "storage/badger_cache.go")
}
