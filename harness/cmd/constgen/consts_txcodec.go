package main

import (
	"github.com/MixinNetwork/mixin/common"
	"github.com/MixinNetwork/mixin/config"
)

// Constants of the transaction codec model (coq/Model/TxCodec.v).
func init() {
	Z("TxVersionHashSignature", common.TxVersionHashSignature, "common/transaction.go")
	Z("TxInputIndexLimit", common.InputIndexLimit, "common/transaction.go")
	Z("TxExtraSizeStorageCapacity", common.ExtraSizeStorageCapacity, "common/transaction.go")
	Z("TxSliceCountLimit", common.SliceCountLimit, "common/transaction.go")
	Z("TxMaximumEncodingInt", common.MaximumEncodingInt, "common/encoding.go")
	Z("TxAggregatedSignaturePrefix", common.AggregatedSignaturePrefix, "common/encoding.go")
	Z("TxAggregatedSignatureSparseMask", common.AggregatedSignatureSparseMask, "common/encoding.go")
	Z("TxAggregatedSignatureOrdinaryMask", common.AggregatedSignatureOrdinaryMask, "common/encoding.go")
	Z("TxTransactionMaximumSize", config.TransactionMaximumSize, "config/reader.go")
	dbg := 0
	if config.Debug {
		dbg = 1
	}
	Z("TxConfigDebug", dbg, "config/reader.go")

	// the unexported markers `magic` and `null` as the encoder writes them:
	// NewMinimumEncoder starts with magic; an input without deposit and mint
	// ends with null null.
	B("TxMagic", common.NewMinimumEncoder().Bytes()[:2], "common/encoding.go (magic, via NewMinimumEncoder)")
	e := common.NewEncoder()
	e.EncodeInput(&common.Input{})
	b := e.Bytes()
	B("TxNull", b[len(b)-2:], "common/encoding.go (null, via EncodeInput of an empty input)")
}
