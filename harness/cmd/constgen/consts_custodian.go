package main

import (
	"github.com/MixinNetwork/mixin/common"
	"github.com/MixinNetwork/mixin/crypto"
)

// Constants of the custodian update model (coq/Model/Custodian.v).  The five
// custodian constants are unexported; common/verif_c34.go re-exports them.
// The required output script "fffe40" is a string literal in
// common/custodian.go; the model spells it with the three script operators.
func init() {
	Z("CusNodeExtraSize", common.VerifC34CustodianNodeExtraSize, "common/custodian.go")
	Z("CusNodeActionUpdate", common.VerifC34CustodianNodeActionUpdate, "common/custodian.go")
	Z("CusNodesMinimumCount", common.VerifC34CustodianNodesMinimumCount, "common/custodian.go")
	Z("CusNodeNewPrice", common.VerifC34CustodianNodeNewPrice, "common/custodian.go")
	Z("CusNodeUpdatePrice", common.VerifC34CustodianNodeUpdatePrice, "common/custodian.go")
	Z("CusKeySize", len(crypto.Key{}), "crypto/key.go")
	Z("CusHashSize", len(crypto.Hash{}), "crypto/hash.go")
	Z("CusSignatureSize", len(crypto.Signature{}), "crypto/signature.go")
	Z("CusTxVersionHashSignature", common.TxVersionHashSignature, "common/transaction.go")
	Z("CusOutputTypeCustodianUpdateNodes", common.OutputTypeCustodianUpdateNodes, "common/transaction.go")
	Z("CusOperatorCmp", common.OperatorCmp, "common/script.go")
	Z("CusOperatorSum", common.OperatorSum, "common/script.go")
	Z("CusOperator64", common.Operator64, "common/script.go")
	H("CusXINAssetId", common.XINAssetId[:], "common/asset.go")
}
